(* C15/Float.v — `possible_bit_flips[].confidence`: how print_json renders the binary32 value.
   process_state.rs builds the member with `json!`, i.e. serde_json::Value::from(f32) = Number::from_f64(f as f64): the
   binary32 is WIDENED to binary64 (exact) and serde_json's writer prints it with ryu::Buffer::format_finite, the shortest
   decimal that reads back as that binary64 (ryu d2s::d2d), laid out by ryu pretty::format64.
   Everything here is exact integer arithmetic on (mantissa, binary exponent) / (decimal mantissa, decimal exponent) pairs:
     [b32_decode]    the fields of a binary32 bit pattern (agrees with Flocq's b32_of_bits: Proofs17.b32_decode_flocq);
     [in_interval]   a decimal c * 10^k lies in the round-to-nearest-even interval of the widened value, i.e. every correctly
                     rounding reader gets that binary64 back (its mantissa is even - 29 trailing zero bits - so both ends belong
                     to the interval; below a power of two the lower half-gap is half as wide);
     [render_f32]    the text: the closest of the shortest decimals of the interval (ties to even), in format64's layout;
     [json_number] / [num_value]  RFC 8259 `number` grammar and the exact value (sign, c, k) of such a text;
     [conf_text_ok]  the judgement of a printed confidence against the bits of the state, independent of [render_f32]:
                     a JSON number, reads back as the widened binary32, within [0,1], no shorter decimal reads back.
   Definitions only; proofs are in C15/Proofs17.v. *)
From RM Require Import C15.Model.
From RM Require C19.Model.
Open Scope Z_scope.

(* (negative, m, e): the value is (-1)^negative * m * 2^e; None = infinity / NaN (serde_json writes null for those) *)
Definition b32_decode (bits : Z) : option (bool * Z * Z) :=
  let sg := 2147483648 <=? bits in
  let ex := (bits / 8388608) mod 256 in
  let mn := bits mod 8388608 in
  if ex =? 255 then None
  else if ex =? 0 then Some (sg, mn, -149)
  else Some (sg, 8388608 + mn, ex - 150).

(* c * 10^k  compared with  w * 2^q  (both sides multiplied by the positive 10^max(-k,0) * 2^max(-q,0)) *)
Definition scale_cmp (c k w q : Z) : comparison :=
  Z.compare (c * 10 ^ Z.max k 0 * 2 ^ Z.max (- q) 0) (w * 2 ^ Z.max q 0 * 10 ^ Z.max (- k) 0).

(* the widened value m * 2^e as a binary64: mantissa m * 2^sh in [2^52, 2^53), exponent e - sh (a binary32 is never a binary64
   subnormal: e - sh >= -201).  In units of a quarter ulp, 2^(e - sh - 2): the value is 4 * m64, the interval reaches 2 units up
   and 2 units down, 1 unit down when m64 = 2^52 *)
Definition b64_frame (m e : Z) : Z * Z * Z :=
  let sh := 52 - Z.log2 m in
  let m64 := m * 2 ^ sh in
  (4 * m64, (if m64 =? 4503599627370496 then 1 else 2), e - sh - 2).
Definition in_interval (m e c k : Z) : bool :=
  let '(v4, dn, e4) := b64_frame m e in
  match scale_cmp c k (v4 - dn) e4 with Lt => false | _ => match scale_cmp c k (v4 + 2) e4 with Gt => false | _ => true end end.

(* floor (m * 2^e / 10^k) *)
Definition floor_scaled (m e k : Z) : Z :=
  (m * 2 ^ Z.max e 0 * 10 ^ Z.max (- k) 0) / (2 ^ Z.max (- e) 0 * 10 ^ Z.max k 0).
(* p with 10^p <= m * 2^e < 10^(p+1): a lower estimate from the binary logarithm, then at most three steps up *)
Fixpoint dec_exp_up (fuel : nat) (m e p : Z) : Z :=
  match fuel with
  | O => p
  | S f => if 1 <=? floor_scaled m e (p + 1) then dec_exp_up f m e (p + 1) else p
  end.
Definition dec_exp (m e : Z) : Z := dec_exp_up 4 m e (((Z.log2 m + e) * 30103) / 100000 - 1).

(* the n-digit decimals next to the value: lo = floor, hi = lo + 1, at exponent k = p - n + 1; the first n for which one of
   them reads back wins; both: the closer one, ties to the even mantissa (what ryu's digit-removal loop computes) *)
Fixpoint shortest (fuel : nat) (n m e p : Z) : Z * Z :=
  let k := p - n + 1 in
  let lo := floor_scaled m e k in
  let hi := lo + 1 in
  match fuel with
  | O => (lo, k)
  | S f =>
      let vl := in_interval m e lo k in
      let vh := in_interval m e hi k in
      if vl && vh then
        match scale_cmp (lo + hi) k (2 * m) e with
        | Gt => (lo, k)                    (* the midpoint is above the value: lo is closer *)
        | Lt => (hi, k)
        | Eq => if Z.even lo then (lo, k) else (hi, k)
        end
      else if vl then (lo, k) else if vh then (hi, k) else shortest f (n + 1) m e p
  end.
Fixpoint strip_zeros (fuel : nat) (c k : Z) : Z * Z :=
  match fuel with
  | O => (c, k)
  | S f => if (c mod 10 =? 0) && negb (c =? 0) then strip_zeros f (c / 10) (k + 1) else (c, k)
  end.
Definition shortest_decimal (m e : Z) : Z * Z :=
  let '(c, k) := shortest 17 1 m e (dec_exp m e) in strip_zeros 20 c k.

(* ryu pretty::format64 on decimal mantissa c (no trailing zero) and exponent k *)
Definition zeros (n : Z) : list Z := repeat 48 (Z.to_nat n).
Definition format64 (c k : Z) : list Z :=
  let ds := dec_digits c in
  let len := Z.of_nat (length ds) in
  let kk := len + k in
  let exp10 := (if kk - 1 <? 0 then [45] else []) ++ dec_digits (Z.abs (kk - 1)) in
  if (0 <=? k) && (kk <=? 16) then ds ++ zeros k ++ [46; 48]                                  (* 1234e7 -> 12340000000.0 *)
  else if (0 <? kk) && (kk <=? 16) then firstn (Z.to_nat kk) ds ++ 46 :: skipn (Z.to_nat kk) ds   (* 1234e-2 -> 12.34 *)
  else if (-5 <? kk) && (kk <=? 0) then 48 :: 46 :: zeros (- kk) ++ ds                        (* 1234e-6 -> 0.001234 *)
  else if len =? 1 then ds ++ 101 :: exp10                                                    (* 1e30 *)
  else firstn 1 ds ++ 46 :: skipn 1 ds ++ 101 :: exp10.                                       (* 1234e30 -> 1.234e33 *)

Definition render_f32 (bits : Z) : list Z :=
  match b32_decode bits with
  | None => [110; 117; 108; 108]                                          (* Number::from_f64 fails: Value::Null *)
  | Some (sg, m, e) =>
      (if sg then [45] else []) ++
      (if m =? 0 then [48; 46; 48] else let '(c, k) := shortest_decimal m e in format64 c k)
  end.

(* ------------------------------------------------------------------ judging a printed number *)
Fixpoint digit_run (s : list Z) : list Z * list Z :=
  match s with
  | c :: r => if is_digit c then let '(d, rest) := digit_run r in (c :: d, rest) else ([], s)
  | [] => ([], [])
  end.
Definition digits_value (ds : list Z) : Z := fold_left (fun a d => a * 10 + (d - 48)) ds 0.
(* RFC 8259: number = [ minus ] int [ frac ] [ exp ];  int = zero / ( digit1-9 *DIGIT );  frac = "." 1*DIGIT;
   exp = e [ minus / plus ] 1*DIGIT.   Some (negative, c, k): the text denotes (-1)^negative * c * 10^k *)
Definition num_value (s : list Z) : option (bool * Z * Z) :=
  let '(neg, s1) := match s with 45 :: r => (true, r) | _ => (false, s) end in
  let '(ip, r1) := digit_run s1 in
  let int_ok := match ip with [] => false | [_] => true | d :: _ :: _ => negb (d =? 48) end in
  if negb int_ok then None else
  let frac := match r1 with
              | 46 :: r2 => let '(fp, r3) := digit_run r2 in match fp with [] => None | _ :: _ => Some (fp, r3) end
              | _ => Some ([], r1)
              end in
  match frac with
  | None => None
  | Some (fp, r3) =>
      let c := digits_value (ip ++ fp) in
      let k0 := - Z.of_nat (length fp) in
      match r3 with
      | [] => Some (neg, c, k0)
      | x :: r4 =>
          if (x =? 101) || (x =? 69) then
            let '(eneg, r5) := match r4 with 45 :: r => (true, r) | 43 :: r => (false, r) | _ => (false, r4) end in
            let '(ep, r6) := digit_run r5 in
            match ep, r6 with
            | _ :: _, [] => Some (neg, c, k0 + (if eneg then - digits_value ep else digits_value ep))
            | _, _ => None
            end
          else None
      end
  end.
Definition json_number (s : list Z) : bool := match num_value s with Some _ => true | None => false end.

Definition digit_count (c : Z) : Z := Z.of_nat (length (dec_digits c)).
(* no decimal with fewer significant digits than c (taken without trailing zeros) reads back as m * 2^e: a decimal of n-1
   digits below / above the value that lies in the interval forces the nearest one (floor / floor + 1) into it *)
Definition no_shorter (m e c k : Z) : bool :=
  let '(c1, _) := strip_zeros 400 c k in
  let n := digit_count c1 in
  if n <=? 1 then true
  else let k1 := dec_exp m e - (n - 1) + 1 in
       let lo := floor_scaled m e k1 in
       negb (in_interval m e lo k1) && negb (in_interval m e (lo + 1) k1).

Definition conf_text_ok (bits : Z) (text : list Z) : bool :=
  match b32_decode bits, num_value text with
  | Some (sg, m, e), Some (neg, c, k) =>
      if m =? 0 then (c =? 0) && negb sg && negb neg
      else negb sg && negb neg && in_interval m e c k
           && match scale_cmp c k 1 0 with Gt => false | _ => true end          (* c * 10^k <= 1 *)
           && no_shorter m e c k
  | _, _ => false
  end.

(* ------------------------------------------------------------------ the confidence of a reported bit flip
   recomputed from the details the report prints next to it (C19's exact Flocq model of BitFlipDetails::confidence, statement list
   regenerated from the source), as bits and as the text print_json writes *)
Definition flip_details (b : flip) : C19.Model.details :=
  {| C19.Model.d_nc := bf_nc b; C19.Model.d_null := bf_null b; C19.Model.d_low := bf_low b;
     C19.Model.d_nearby := bf_nearby b; C19.Model.d_poison := bf_poison b |}.
Definition flip_conf_bits (b : flip) : Z := C19.Model.confidence_bits (flip_details b).
Definition flip_conf_text (b : flip) : list Z := render_f32 (flip_conf_bits b).
