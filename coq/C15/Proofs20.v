(* C15/Proofs20.v — modules[].version: the interpreted arms are the four-component texts; the text is made of decimal digits and dots. *)
From Coq Require Import Lia.
From RM Require Import C15.Model Gen.C15Fmt C15.Version.
Open Scope Z_scope.

Definition ver_char (c : Z) : Prop := c = 46 \/ 48 <= c <= 57.

Lemma chars_of_uint_digits u : Forall ver_char (chars_of_uint u).
Proof. induction u; cbn [chars_of_uint]; constructor; try assumption; right; lia. Qed.
Lemma dec_digits_chars n : Forall ver_char (dec_digits n).
Proof. apply chars_of_uint_digits. Qed.

Lemma join_dots_chars l : Forall ver_char (join_dots l).
Proof.
  unfold join_dots. destruct l as [|h t]; cbn [map]; [constructor|].
  apply Forall_app. split; [apply dec_digits_chars|].
  induction t as [|x t IH]; cbn [map flat_map]; [constructor|].
  constructor; [left; reflexivity|]. apply Forall_app. split; [apply dec_digits_chars|exact IH].
Qed.

Lemma module_version_chars os v t : module_version os v = Some t -> Forall ver_char t.
Proof.
  unfold module_version. destruct ((vi_sig v =? VERSION_SIGNATURE) && (vi_struct v =? VERSION_STRUCVERSION)); [|discriminate].
  intro H. inversion H. apply join_dots_chars.
Qed.

Lemma module_version_none os v : module_version os v = None <-> ~ (vi_sig v = VERSION_SIGNATURE /\ vi_struct v = VERSION_STRUCVERSION).
Proof.
  unfold module_version. destruct (vi_sig v =? VERSION_SIGNATURE) eqn:E1; destruct (vi_struct v =? VERSION_STRUCVERSION) eqn:E2; cbn [andb].
  - apply Z.eqb_eq in E1. apply Z.eqb_eq in E2. split; [discriminate|]. intro H. exfalso. apply H. split; assumption.
  - apply Z.eqb_neq in E2. split; [|reflexivity]. intros _ [_ H]. contradiction.
  - apply Z.eqb_neq in E1. split; [|reflexivity]. intros _ [H _]. contradiction.
  - apply Z.eqb_neq in E1. split; [|reflexivity]. intros _ [H _]. contradiction.
Qed.

Definition dot4 (a b c d : Z) : list Z := dec_digits a ++ 46 :: dec_digits b ++ 46 :: dec_digits c ++ 46 :: dec_digits d.

(* the two arms, for the tables the translator currently emits *)
Lemma module_version_arms os v :
  0 <= vi_fhi v -> 0 <= vi_flo v ->
  vi_sig v = VERSION_SIGNATURE -> vi_struct v = VERSION_STRUCVERSION ->
  module_version os v =
  Some (if (os =? 0) || (os =? 1) || (os =? 2)
        then dot4 (vi_fhi v / 65536) (vi_fhi v mod 65536) (vi_flo v / 65536) (vi_flo v mod 65536)
        else dot4 (vi_fhi v) (vi_flo v) (vi_phi v) (vi_plo v)).
Proof.
  intros H1 H2 Hs Ht. unfold module_version. rewrite Hs, Ht, !Z.eqb_refl. cbn [andb]. f_equal.
  assert (E : existsb (Z.eqb os) VERSION_SPLIT_OS = (os =? 0) || (os =? 1) || (os =? 2)).
  { unfold VERSION_SPLIT_OS. cbn [existsb]. destruct (os =? 0), (os =? 1), (os =? 2); reflexivity. }
  rewrite E. destruct ((os =? 0) || (os =? 1) || (os =? 2)).
  - unfold VERSION_ARM_SPLIT, join_dots, dot4. cbn [map ver_comp vi_field flat_map Z.eqb Pos.eqb].
    rewrite !Z.shiftr_div_pow2 by lia. change (2 ^ 16) with 65536.
    change 65535 with (Z.ones 16). rewrite !Z.land_ones by lia. change (2 ^ 16) with 65536.
    rewrite app_nil_r. cbn [app]. rewrite <- ?app_assoc. cbn [app]. reflexivity.
  - unfold VERSION_ARM_ELSE, join_dots, dot4. cbn [map ver_comp vi_field flat_map Z.eqb Pos.eqb].
    rewrite app_nil_r. cbn [app]. rewrite <- ?app_assoc. cbn [app]. reflexivity.
Qed.
