(* C15/Proofs2.v — self-consistency of the report built by json_of_state. *)
From Coq Require Import Lia.
From RM Require Import C15.Model C15.Proofs.
Open Scope Z_scope.

Fixpoint assoc (k : list Z) (l : list (list Z * json)) : option json :=
  match l with
  | [] => None
  | (k', v) :: t => if list_eqb k k' then Some v else assoc k t
  end.
Definition jget (k : list Z) (j : json) : option json :=
  match j with JObj l => assoc k l | _ => None end.

Lemma list_eqb_eq a : forall b, list_eqb a b = true <-> a = b.
Proof.
  induction a as [|x a IH]; intros [|y b]; cbn [list_eqb]; try (split; [discriminate|discriminate]); [tauto|].
  rewrite andb_true_iff, Z.eqb_eq, IH. split; [intros [-> ->]; reflexivity|intro H; inversion H; auto].
Qed.

Lemma obind_ret {A B} (x : outcome A) (f : A -> outcome B) b :
  obind x f = Ret b -> exists a, x = Ret a /\ f a = Ret b.
Proof. destruct x; cbn [obind]; try discriminate. eauto. Qed.

Lemma omap_spec {A B} (f : A -> outcome B) l : forall l', omap f l = Ret l' -> Forall2 (fun a b => f a = Ret b) l l'.
Proof.
  induction l as [|a t IH]; intros l' H; cbn [omap] in H.
  - inversion H. constructor.
  - apply obind_ret in H. destruct H as (b & Hb & H). apply obind_ret in H. destruct H as (bs & Hbs & H).
    inversion H; subst. constructor; [exact Hb|apply IH; exact Hbs].
Qed.

Lemma omap_total {A B} (f : A -> outcome B) l : Forall (fun a => exists b, f a = Ret b) l -> exists l', omap f l = Ret l'.
Proof.
  induction 1 as [|a t (b & Hb) _ (l' & IH)]; [exists []; reflexivity|].
  exists (b :: l'). cbn [omap]. rewrite Hb. cbn [obind]. rewrite IH. reflexivity.
Qed.

(* ------------------------------------------------------------------ frames *)
Definition frame_ok (f : frame) : Prop :=
  0 <= fr_instr f < two64 /\
  (forall nm base, fr_module f = Some (nm, base) -> 0 <= base <= fr_instr f) /\
  (forall base, fr_function_base f = Some base -> 0 <= base <= fr_instr f).

Lemma chk_sub_ok p tag a b : 0 <= b <= a -> a < two64 -> chk_sub p 64 tag a b = Ret (a - b).
Proof.
  intros H1 H2. unfold chk_sub, chk. change (2 ^ 64) with two64.
  assert (E : (0 <=? a - b) && (a - b <? two64) = true) by (apply andb_true_iff; split; [apply Z.leb_le|apply Z.ltb_lt]; lia).
  rewrite E. reflexivity.
Qed.

Lemma frame_json p w idx f : frame_ok f ->
  exists j, json_of_frame p w idx f = Ret j /\
    jget k_frame j = Some (JNum (Z.of_nat idx)) /\
    jget k_offset j = Some (jhex w (fr_instr f)) /\
    jget k_module_offset j = Some (match fr_module f with Some (_, base) => jhex w (fr_instr f - base) | None => JNull end) /\
    jget k_function_offset j = Some (match fr_function_base f with Some base => jhex w (fr_instr f - base) | None => JNull end) /\
    jget k_missing_symbols j = Some (JBool (match fr_function f with Some _ => false | None => true end)) /\
    jget k_trust j = Some (JStr (trust_name (fr_trust f))) /\
    jget k_module j = Some (jopt (fun m => JStr (basename (fst m))) (fr_module f)).
Proof.
  intros (Hi & Hm & Hf). unfold json_of_frame.
  assert (E1 : match fr_module f with
               | Some (_, base) => do x <- chk_sub p 64 PANIC_MODULE_OFFSET (fr_instr f) base; Ret (jhex w x)
               | None => Ret JNull end =
               Ret (match fr_module f with Some (_, base) => jhex w (fr_instr f - base) | None => JNull end)).
  { destruct (fr_module f) as [[nm base]|]; [|reflexivity]. rewrite chk_sub_ok; [reflexivity|exact (Hm nm base eq_refl)|lia]. }
  assert (E2 : match fr_function_base f with
               | Some base => do x <- chk_sub p 64 PANIC_FUNCTION_OFFSET (fr_instr f) base; Ret (jhex w x)
               | None => Ret JNull end =
               Ret (match fr_function_base f with Some base => jhex w (fr_instr f - base) | None => JNull end)).
  { destruct (fr_function_base f) as [base|]; [|reflexivity]. rewrite chk_sub_ok; [reflexivity|exact (Hf base eq_refl)|lia]. }
  rewrite E1. cbn [obind]. rewrite E2. cbn [obind].
  eexists. split; [reflexivity|]. repeat split; reflexivity.
Qed.

Lemma frame_number p w idx f j : json_of_frame p w idx f = Ret j -> jget k_frame j = Some (JNum (Z.of_nat idx)).
Proof.
  unfold json_of_frame. intro H. apply obind_ret in H. destruct H as (a & _ & H).
  apply obind_ret in H. destruct H as (b & _ & H). inversion H. reflexivity.
Qed.

Lemma frames_spec p w l : forall idx js, json_of_frames p w idx l = Ret js ->
  length js = length l /\
  forall i j, nth_error js i = Some j -> jget k_frame j = Some (JNum (Z.of_nat (idx + i))).
Proof.
  induction l as [|f t IH]; intros idx js H; cbn [json_of_frames] in H.
  - inversion H. split; [reflexivity|]. intros i j Hn. destruct i; discriminate Hn.
  - apply obind_ret in H. destruct H as (j0 & Hj0 & H). apply obind_ret in H. destruct H as (js' & Hjs & H).
    inversion H; subst. destruct (IH (S idx) js' Hjs) as [Hl Hn]. split; [cbn [length]; lia|].
    intros i j Hi. destruct i as [|i]; cbn [nth_error] in Hi.
    + inversion Hi; subst. rewrite Nat.add_0_r. exact (frame_number p w idx f j Hj0).
    + replace (idx + S i)%nat with (S idx + i)%nat by lia. exact (Hn i j Hi).
Qed.

Lemma frames_total p w l : Forall frame_ok l -> forall idx, exists js, json_of_frames p w idx l = Ret js.
Proof.
  induction 1 as [|f t Hf _ IH]; intro idx; [exists []; reflexivity|].
  destruct (frame_json p w idx f Hf) as (j & Hj & _). destruct (IH (S idx)) as (js & Hjs).
  exists (j :: js). cbn [json_of_frames]. rewrite Hj. cbn [obind]. rewrite Hjs. reflexivity.
Qed.

(* ------------------------------------------------------------------ threads *)
Lemma thread_json p w t tj : json_of_thread p w t = Ret tj ->
  exists fs, json_of_frames p w 0%nat (th_frames t) = Ret fs /\
    tj = JObj [(k_frame_count, JNum (Z.of_nat (length (th_frames t)))); (k_frames, JArr fs);
               (k_last_error_value, jopt JStr (th_last_error t));
               (k_thread_id, JNum (th_id t)); (k_thread_name, jopt JStr (th_name t))] /\
    length fs = length (th_frames t).
Proof.
  unfold json_of_thread. intro H. apply obind_ret in H. destruct H as (fs & Hfs & H). inversion H.
  exists fs. split; [exact Hfs|]. split; [reflexivity|]. exact (proj1 (frames_spec p w _ _ _ Hfs)).
Qed.

Lemma thread_counts p w t tj : json_of_thread p w t = Ret tj ->
  exists fs, jget k_frames tj = Some (JArr fs) /\
             jget k_frame_count tj = Some (JNum (Z.of_nat (length fs))) /\
             length fs = length (th_frames t) /\
             jget k_thread_id tj = Some (JNum (th_id t)) /\
             forall i fj, nth_error fs i = Some fj -> jget k_frame fj = Some (JNum (Z.of_nat i)).
Proof.
  intro H. destruct (thread_json p w t tj H) as (fs & Hfs & -> & Hl). exists fs.
  split; [reflexivity|]. split; [rewrite Hl; reflexivity|]. split; [exact Hl|]. split; [reflexivity|].
  exact (proj2 (frames_spec p w _ _ _ Hfs)).
Qed.

(* ------------------------------------------------------------------ modules *)
Definition module_ok (m : modul) : Prop := 0 <= m_base m /\ 0 <= m_size m /\ m_base m + m_size m < two64.

(* the element of "modules" for a module whose end address does not overflow *)
Definition mod_obj (w : pwidth) (certs : list (list Z * list Z)) (stats : list (list Z * symstat)) (m : modul) : json :=
  let name := basename (m_file m) in
  let st := lookup name stats in
  let had := match st with Some _ => true | None => false end in
  let s := match st with Some s => s | None => default_stat end in
  JObj [(k_base_addr, jhex w (m_base m));
        (k_cert_subject, jopt JStr (lookup name certs));
        (k_code_id, JStr (m_code_id m));
        (k_corrupt_symbols, JBool (ss_corrupt s));
        (k_debug_file, JStr (basename (match ss_extra s with Some e => fst e | None => m_debug_file m end)));
        (k_debug_id, JStr (match ss_extra s with Some e => snd e | None => m_debug_id m end));
        (k_end_addr, jhex w (m_base m + m_size m));
        (k_filename, JStr name);
        (k_loaded_symbols, JBool (ss_loaded s));
        (k_missing_symbols, JBool (had && negb (ss_loaded s)));
        (k_symbol_url, jopt JStr (ss_url s));
        (k_version, jopt JStr (m_version m))].
Definition unl_obj (w : pwidth) (certs : list (list Z * list Z)) (m : modul) : json :=
  JObj [(k_base_addr, jhex w (m_base m));
        (k_cert_subject, jopt JStr (lookup (m_file m) certs));
        (k_code_id, JStr (m_code_id m));
        (k_end_addr, jhex w (m_base m + m_size m));
        (k_filename, JStr (m_file m))].

Lemma chk_add_ok p tag a b : 0 <= a -> 0 <= b -> a + b < two64 -> chk_add p 64 tag a b = Ret (a + b).
Proof.
  intros H1 H2 H3. unfold chk_add, chk. change (2 ^ 64) with two64.
  assert (E : (0 <=? a + b) && (a + b <? two64) = true) by (apply andb_true_iff; split; [apply Z.leb_le|apply Z.ltb_lt]; lia).
  rewrite E. reflexivity.
Qed.

Lemma module_json p w certs stats m : module_ok m -> json_of_module p w certs stats m = Ret (mod_obj w certs stats m).
Proof. intros (H1 & H2 & H3). unfold json_of_module. rewrite chk_add_ok by assumption. reflexivity. Qed.
Lemma unloaded_json p w certs m : module_ok m -> json_of_unloaded p w certs m = Ret (unl_obj w certs m).
Proof. intros (H1 & H2 & H3). unfold json_of_unloaded. rewrite chk_add_ok by assumption. reflexivity. Qed.

Lemma omap_pure {A B} (f : A -> outcome B) (g : A -> B) (P : A -> Prop) l js :
  (forall a, P a -> f a = Ret (g a)) -> Forall P l -> omap f l = Ret js -> js = map g l.
Proof.
  intros Hf Hok H. apply omap_spec in H. revert Hok. induction H as [|m j t js' Hm _ IH]; intro Hok; [reflexivity|].
  inversion Hok; subst. rewrite Hf in Hm by assumption. inversion Hm. cbn [map]. f_equal. apply IH. assumption.
Qed.

(* ------------------------------------------------------------------ the crashing-thread copy *)
Lemma assoc_insert k kr v l1 l2 : k <> kr -> assoc k (l1 ++ (kr, v) :: l2) = assoc k (l1 ++ l2).
Proof.
  intro Hne. induction l1 as [|[k' v'] t IH]; cbn [app assoc].
  - destruct (list_eqb k kr) eqn:E; [apply list_eqb_eq in E; contradiction|reflexivity].
  - rewrite IH. reflexivity.
Qed.

Lemma add_registers_other regs l k : k <> k_registers ->
  jget k (add_registers regs (JObj l)) = jget k (JObj l).
Proof.
  intro Hne. cbn [add_registers jget]. rewrite assoc_insert by exact Hne. rewrite firstn_skipn. reflexivity.
Qed.

Lemma crashing_copy_spec regs i c f0 fs le id nm :
  let tj := JObj [(k_frame_count, c); (k_frames, JArr (f0 :: fs)); (k_last_error_value, le); (k_thread_id, id); (k_thread_name, nm)] in
  let cc := crashing_copy regs i tj in
  jget k_threads_index cc = Some (JNum (Z.of_nat i)) /\
  jget k_frame_count cc = jget k_frame_count tj /\
  jget k_thread_id cc = jget k_thread_id tj /\
  jget k_thread_name cc = jget k_thread_name tj /\
  jget k_last_error_value cc = jget k_last_error_value tj /\
  jget k_frames cc = Some (JArr (add_registers regs f0 :: fs)).
Proof. cbv zeta. cbn [crashing_copy]. repeat split; reflexivity. Qed.

Lemma frame_registers p w idx f j regs : json_of_frame p w idx f = Ret j ->
  jget k_registers (add_registers regs j) = Some regs /\
  forall k, k <> k_registers -> jget k (add_registers regs j) = jget k j.
Proof.
  unfold json_of_frame. intro H. apply obind_ret in H. destruct H as (a & _ & H).
  apply obind_ret in H. destruct H as (b & _ & H). inversion H. split; [reflexivity|].
  intros k Hk. apply add_registers_other. exact Hk.
Qed.

(* ------------------------------------------------------------------ the whole report *)
Definition state_ok (s : state) : Prop :=
  Forall (fun t => Forall frame_ok (th_frames t)) (s_threads s) /\
  Forall module_ok (s_modules s) /\ Forall module_ok (s_unloaded s) /\
  match s_requesting s with Some i => (i < length (s_threads s))%nat | None => True end.

Lemma Forall2_nth {A B} (R : A -> B -> Prop) l l' : Forall2 R l l' ->
  forall i a, nth_error l i = Some a -> exists b, nth_error l' i = Some b /\ R a b.
Proof.
  induction 1 as [|a b t t' Hab _ IH]; intros i x Hn; [destruct i; discriminate Hn|].
  destruct i as [|i]; cbn [nth_error] in *; [inversion Hn; subst; eauto|exact (IH i x Hn)].
Qed.

Lemma Forall2_len {A B} (R : A -> B -> Prop) l l' : Forall2 R l l' -> length l = length l'.
Proof. induction 1; cbn [length]; congruence. Qed.

Lemma state_json p s : state_ok s ->
  exists j ts, json_of_state p s = Ret j /\
    Forall2 (fun t tj => json_of_thread p (s_width s) t = Ret tj) (s_threads s) ts /\
    jget k_threads j = Some (JArr ts) /\
    jget k_thread_count j = Some (JNum (Z.of_nat (length ts))) /\
    jget k_pid j = Some (jopt JNum (s_pid s)) /\
    jget k_modules j = Some (JArr (map (mod_obj (s_width s) (s_certinfo s) (s_symstats s)) (s_modules s))) /\
    jget k_unloaded_modules j = Some (JArr (map (unl_obj (s_width s) (s_certinfo s)) (s_unloaded s))) /\
    jget k_crashing_thread j =
      match s_requesting s with
      | None => None
      | Some i => match nth_error (s_threads s) i, nth_error ts i with
                  | Some t, Some tj => match th_frames t with
                                       | [] => None
                                       | _ :: _ => Some (crashing_copy (json_registers (s_registers s)) i tj)
                                       end
                  | _, _ => None
                  end
      end.
Proof.
  intros (Ht & Hm & Hu & Hr). unfold json_of_state.
  assert (Hts : exists ts, omap (json_of_thread p (s_width s)) (s_threads s) = Ret ts).
  { apply omap_total. eapply Forall_impl; [|exact Ht]. intros t Hf. unfold json_of_thread.
    destruct (frames_total p (s_width s) (th_frames t) Hf 0%nat) as (fs & Hfs). rewrite Hfs. cbn [obind]. eauto. }
  destruct Hts as (ts & Hts). rewrite Hts. cbn [obind].
  assert (Hms : exists ms, omap (json_of_module p (s_width s) (s_certinfo s) (s_symstats s)) (s_modules s) = Ret ms).
  { apply omap_total. eapply Forall_impl; [|exact Hm]. intros m Hk. rewrite module_json by exact Hk. eauto. }
  destruct Hms as (ms & Hms). rewrite Hms. cbn [obind].
  assert (Hus : exists us, omap (json_of_unloaded p (s_width s) (s_certinfo s)) (s_unloaded s) = Ret us).
  { apply omap_total. eapply Forall_impl; [|exact Hu]. intros m Hk. rewrite unloaded_json by exact Hk. eauto. }
  destruct Hus as (us & Hus). rewrite Hus. cbn [obind].
  pose proof (omap_pure _ _ _ _ _ (fun m Hk => module_json p _ _ _ m Hk) Hm Hms) as Em.
  pose proof (omap_pure _ _ _ _ _ (fun m Hk => unloaded_json p _ _ m Hk) Hu Hus) as Eu.
  pose proof (omap_spec _ _ _ Hts) as F2. clear Hms Hus. subst ms us.
  assert (Hlen : length ts = length (s_threads s)) by (symmetry; eapply Forall2_len; exact F2).
  destruct (s_requesting s) as [i|].
  - destruct (nth_error (s_threads s) i) as [t|] eqn:Et.
    + destruct (Forall2_nth _ _ _ F2 i t Et) as (tj & Etj & _). rewrite Etj.
      destruct (th_frames t) eqn:Ef.
      * eexists; exists ts. split; [reflexivity|]. rewrite Hlen, Etj. repeat split; try reflexivity; exact F2.
      * eexists; exists ts. split; [reflexivity|]. rewrite Hlen, Etj. repeat split; try reflexivity; exact F2.
    + exfalso. apply nth_error_None in Et. lia.
  - eexists; exists ts. split; [reflexivity|]. rewrite Hlen. repeat split; try reflexivity; exact F2.
Qed.

(* ------------------------------------------------------------------ enumerations (finite check) *)
Definition subset (a b : list (list Z)) : bool := forallb (fun x => existsb (list_eqb x) b) a.
Lemma subset_In a b : subset a b = true -> forall x, In x a -> In x b.
Proof.
  unfold subset. rewrite forallb_forall. intros H x Hx. specialize (H x Hx).
  apply existsb_exists in H. destruct H as (y & Hy & E). apply list_eqb_eq in E. subst y. exact Hy.
Qed.
