(* C15/Regs.v — executable: the registers of a state come from the register file of its raw context kind
   (REGISTER_TABLES, regenerated from minidump/src/context.rs by translate/c15_regs.py): every name is one of the
   kind's general-purpose registers and the digit count is 2 * size_of::<Register>() (format_register). *)
From RM Require Export C15.Model C15.Schema C15.Widths Gen.C15Regs.
Open Scope Z_scope.

Definition table_ok (t : Z * Z * list (list Z)) : bool :=
  forallb (fun n => negb (memb n ADDRESS_KEYS)) (snd t) && nodupb (snd t) && ((snd (fst t) =? 4) || (snd (fst t) =? 8)).
Definition regs_in_table (t : Z * Z * list (list Z)) (regs : list (list Z * Z * nat)) : bool :=
  forallb (fun r : list Z * Z * nat => memb (fst (fst r)) (snd t) && (Z.of_nat (snd r) =? 2 * snd (fst t))) regs.
Definition regs_from_table (kind : Z) (regs : list (list Z * Z * nat)) : bool :=
  existsb (fun t => (fst (fst t) =? kind) && regs_in_table t regs) REGISTER_TABLES.
