(* C15/Proofs.v — serialise / parse round trip, hex widths, self-consistency of the report. *)
From Coq Require Import Lia DecimalN.
From RM Require Import C15.Model.
Open Scope Z_scope.

(* ------------------------------------------------------------------ induction on json *)
Section JsonInd.
  Variable P : json -> Prop.
  Hypothesis Hnull : P JNull.
  Hypothesis Hbool : forall b, P (JBool b).
  Hypothesis Hnum : forall n, P (JNum n).
  Hypothesis Hstr : forall s, P (JStr s).
  Hypothesis Harr : forall l, Forall P l -> P (JArr l).
  Hypothesis Hobj : forall l, Forall (fun kv => P (snd kv)) l -> P (JObj l).
  Fixpoint json_ind' (v : json) : P v :=
    match v with
    | JNull => Hnull
    | JBool b => Hbool b
    | JNum n => Hnum n
    | JStr s => Hstr s
    | JArr l => Harr l ((fix go (l : list json) : Forall P l :=
                           match l with
                           | [] => Forall_nil P
                           | x :: t => Forall_cons x (json_ind' x) (go t)
                           end) l)
    | JObj l => Hobj l ((fix go (l : list (list Z * json)) : Forall (fun kv => P (snd kv)) l :=
                           match l with
                           | [] => Forall_nil _
                           | kv :: t => Forall_cons kv (json_ind' (snd kv)) (go t)
                           end) l)
    end.
End JsonInd.

(* ------------------------------------------------------------------ strings *)
Lemma parse_esc_char c tail :
  parse_str (esc_char c ++ tail) =
  match parse_str tail with Some (t, rest) => Some (c :: t, rest) | None => None end.
Proof.
  unfold esc_char.
  destruct (c =? 34) eqn:E34; [apply Z.eqb_eq in E34; subst c; reflexivity|].
  destruct (c =? 92) eqn:E92; [apply Z.eqb_eq in E92; subst c; reflexivity|].
  destruct (c =? 8) eqn:E8; [apply Z.eqb_eq in E8; subst c; reflexivity|].
  destruct (c =? 12) eqn:E12; [apply Z.eqb_eq in E12; subst c; reflexivity|].
  destruct (c =? 10) eqn:E10; [apply Z.eqb_eq in E10; subst c; reflexivity|].
  destruct (c =? 13) eqn:E13; [apply Z.eqb_eq in E13; subst c; reflexivity|].
  destruct (c =? 9) eqn:E9; [apply Z.eqb_eq in E9; subst c; reflexivity|].
  destruct ((0 <=? c) && (c <? 32)) eqn:Ectl.
  - apply andb_true_iff in Ectl. destruct Ectl as [H0 H1]. apply Z.leb_le in H0. apply Z.ltb_lt in H1.
    assert (Hc : c = 0 \/ c = 1 \/ c = 2 \/ c = 3 \/ c = 4 \/ c = 5 \/ c = 6 \/ c = 7 \/ c = 8 \/ c = 9 \/
                 c = 10 \/ c = 11 \/ c = 12 \/ c = 13 \/ c = 14 \/ c = 15 \/ c = 16 \/ c = 17 \/ c = 18 \/
                 c = 19 \/ c = 20 \/ c = 21 \/ c = 22 \/ c = 23 \/ c = 24 \/ c = 25 \/ c = 26 \/ c = 27 \/
                 c = 28 \/ c = 29 \/ c = 30 \/ c = 31) by lia.
    repeat (destruct Hc as [Hc|Hc]; [subst c; reflexivity|]). subst c; reflexivity.
  - cbn [app parse_str]. rewrite E34, E92, Ectl. reflexivity.
Qed.

Lemma parse_esc_str s : forall rest, parse_str (esc_str s ++ 34 :: rest) = Some (s, rest).
Proof.
  induction s as [|c s IH]; intro rest; [reflexivity|].
  unfold esc_str. cbn [flat_map]. fold (esc_str s). rewrite <- app_assoc, parse_esc_char, IH. reflexivity.
Qed.

Lemma parse_ser_str s rest : parse_str (esc_str s ++ [34] ++ rest) = Some (s, rest).
Proof. apply parse_esc_str. Qed.

(* ------------------------------------------------------------------ numbers *)
Definition nodigit (rest : list Z) : Prop :=
  match rest with [] => True | c :: _ => (c <? 48) || (57 <? c) = true end.

Lemma uint_chars_rt u : forall rest, nodigit rest -> uint_of_chars (chars_of_uint u ++ rest) = (u, rest).
Proof.
  induction u as [|u IH|u IH|u IH|u IH|u IH|u IH|u IH|u IH|u IH|u IH]; intros rest Hr;
    try (cbn [chars_of_uint app uint_of_chars]; rewrite (IH rest Hr); reflexivity).
  cbn [chars_of_uint app]. destruct rest as [|c r]; [reflexivity|].
  cbn [uint_of_chars]. cbn [nodigit] in Hr. rewrite Hr. reflexivity.
Qed.

Lemma list_eqb_refl l : list_eqb l l = true.
Proof. induction l as [|x t IH]; [reflexivity|]. cbn [list_eqb]. rewrite Z.eqb_refl, IH. reflexivity. Qed.

Lemma to_uint_not_nil n : N.to_uint n <> Decimal.Nil.
Proof.
  intro H. pose proof (DecimalN.Unsigned.of_to n) as Hn. rewrite H in Hn. cbn in Hn. subst n. discriminate H.
Qed.

Lemma dec_head n : exists c t, dec_digits n = c :: t /\ 48 <= c <= 57.
Proof.
  unfold dec_digits. pose proof (to_uint_not_nil (Z.to_N n)) as H.
  destruct (N.to_uint (Z.to_N n)); [contradiction| | | | | | | | | |]; cbn [chars_of_uint]; eexists; eexists; (split; [reflexivity|lia]).
Qed.

Lemma parse_nat_rt n rest : 0 <= n -> nodigit rest -> parse_nat (dec_digits n ++ rest) = Some (n, rest).
Proof.
  intros Hn Hr. unfold parse_nat, dec_digits. rewrite (uint_chars_rt _ rest Hr).
  pose proof (to_uint_not_nil (Z.to_N n)) as Hnil.
  assert (E : N.of_uint (N.to_uint (Z.to_N n)) = Z.to_N n) by apply DecimalN.Unsigned.of_to.
  destruct (N.to_uint (Z.to_N n)) eqn:U; [contradiction| | | | | | | | | |];
    rewrite E, <- U, list_eqb_refl, Z2N.id by exact Hn; reflexivity.
Qed.

(* ------------------------------------------------------------------ values *)
Fixpoint size (v : json) : nat :=
  match v with
  | JArr l => S (list_sum (map (fun x => S (size x)) l))
  | JObj l => S (list_sum (map (fun kv => S (size (snd kv))) l))
  | _ => 1%nat
  end.

Lemma lsum_cons a l : list_sum (a :: l) = (a + list_sum l)%nat.
Proof. reflexivity. Qed.

Lemma ser_head v : exists c t, serialise v = c :: t /\ c <> 93.
Proof.
  destruct v as [|[|]|n|s|l|l]; cbn [serialise]; try (eexists; eexists; split; [reflexivity|discriminate]).
  - unfold ser_num. destruct (n <? 0); [eexists; eexists; split; [reflexivity|discriminate]|].
    destruct (dec_head n) as (c & t & H & Hc). rewrite H. exists c, t. split; [reflexivity|lia].
Qed.

Definition rt (v : json) : Prop :=
  forall fuel rest, (size v <= fuel)%nat -> nodigit rest -> parse_val fuel (serialise v ++ rest) = Some (v, rest).

Lemma nodigit_cons c r : (c <? 48) || (57 <? c) = true -> nodigit (c :: r).
Proof. intro H; exact H. Qed.

Lemma elems_rt l : Forall rt l -> l <> [] ->
  forall fuel rest, (list_sum (map (fun x => S (size x)) l) <= fuel)%nat ->
  parse_elems fuel (ser_elems serialise l ++ rest) = Some (l, rest).
Proof.
  induction l as [|x t IH]; intros HF Hne fuel rest Hfuel; [contradiction|].
  inversion HF as [|? ? Hx Ht]; subst. cbn [map] in Hfuel. rewrite lsum_cons in Hfuel.
  destruct fuel as [|f]; [lia|]. cbn [ser_elems]. rewrite <- app_assoc. cbn [parse_elems].
  destruct t as [|y t'].
  - rewrite (Hx f ([93] ++ rest)); [|lia|apply nodigit_cons; reflexivity].
    cbn [app]. reflexivity.
  - rewrite (Hx f ((44 :: ser_elems serialise (y :: t')) ++ rest)); [|lia|apply nodigit_cons; reflexivity].
    cbn [app]. change (44 =? 44) with true. cbn iota.
    assert (Hf2 : (list_sum (map (fun x => S (size x)) (y :: t')) <= f)%nat) by lia.
    assert (Hn2 : y :: t' <> []) by discriminate.
    rewrite (IH Ht Hn2 f rest Hf2). reflexivity.
Qed.

Lemma members_rt l : Forall (fun kv => rt (snd kv)) l -> l <> [] ->
  forall fuel rest, (list_sum (map (fun kv => S (size (snd kv))) l) <= fuel)%nat ->
  parse_members fuel (ser_members serialise l ++ rest) = Some (l, rest).
Proof.
  induction l as [|[k x] t IH]; intros HF Hne fuel rest Hfuel; [contradiction|].
  inversion HF as [|? ? Hx Ht]; subst. cbn [map snd] in Hfuel. rewrite lsum_cons in Hfuel. cbn [snd] in Hx.
  destruct fuel as [|f]; [lia|]. cbn [ser_members]. unfold ser_str at 1.
  cbn [app parse_members]. change (34 =? 34) with true. cbn iota.
  rewrite <- !app_assoc. rewrite parse_ser_str. cbn [app]. change (58 =? 58) with true. cbn iota.
  rewrite <- app_assoc.
  destruct t as [|y t'].
  - rewrite (Hx f ([125] ++ rest)); [|lia|apply nodigit_cons; reflexivity].
    cbn [app]. reflexivity.
  - rewrite (Hx f ((44 :: ser_members serialise (y :: t')) ++ rest)); [|lia|apply nodigit_cons; reflexivity].
    cbn [app]. change (44 =? 44) with true. cbn iota.
    assert (Hf2 : (list_sum (map (fun kv => S (size (snd kv))) (y :: t')) <= f)%nat) by lia.
    assert (Hn2 : y :: t' <> []) by discriminate.
    rewrite (IH Ht Hn2 f rest Hf2). reflexivity.
Qed.

Lemma parse_val_rt : forall v, rt v.
Proof.
  apply json_ind'; unfold rt.
  - intros fuel rest Hf _. destruct fuel; [cbn in Hf; lia|]. reflexivity.
  - intros [|] fuel rest Hf _; (destruct fuel; [cbn in Hf; lia|]); reflexivity.
  - (* numbers *)
    intros n fuel rest Hf Hr. destruct fuel as [|f]; [cbn in Hf; lia|]. cbn [serialise]. unfold ser_num.
    destruct (n <? 0) eqn:En.
    + apply Z.ltb_lt in En. cbn [app parse_val]. change (45 =? 110) with false. change (45 =? 116) with false.
      change (45 =? 102) with false. change (45 =? 34) with false. change (45 =? 91) with false.
      change (45 =? 123) with false. change (45 =? 45) with true. cbn iota.
      rewrite parse_nat_rt by (try lia; exact Hr).
      assert (E : (- n =? 0) = false) by (apply Z.eqb_neq; lia). rewrite E, Z.opp_involutive. reflexivity.
    + apply Z.ltb_ge in En. destruct (dec_head n) as (c & t & Hd & Hc).
      pose proof (parse_nat_rt n rest En Hr) as Hp. rewrite Hd in *. cbn [app] in *. cbn [parse_val].
      assert (E1 : (c =? 110) = false) by (apply Z.eqb_neq; lia).
      assert (E2 : (c =? 116) = false) by (apply Z.eqb_neq; lia).
      assert (E3 : (c =? 102) = false) by (apply Z.eqb_neq; lia).
      assert (E4 : (c =? 34) = false) by (apply Z.eqb_neq; lia).
      assert (E5 : (c =? 91) = false) by (apply Z.eqb_neq; lia).
      assert (E6 : (c =? 123) = false) by (apply Z.eqb_neq; lia).
      assert (E7 : (c =? 45) = false) by (apply Z.eqb_neq; lia).
      rewrite E1, E2, E3, E4, E5, E6, E7, Hp. reflexivity.
  - (* strings *)
    intros s fuel rest Hf _. destruct fuel as [|f]; [cbn in Hf; lia|]. cbn [serialise]. unfold ser_str.
    cbn [app parse_val]. change (34 =? 110) with false. change (34 =? 116) with false.
    change (34 =? 102) with false. change (34 =? 34) with true. cbn iota.
    rewrite <- app_assoc, parse_ser_str. reflexivity.
  - (* arrays *)
    intros l HF fuel rest Hf _. destruct fuel as [|f]; [cbn in Hf; lia|]. cbn [serialise size] in *.
    destruct l as [|x t].
    + reflexivity.
    + assert (Hh : exists c2 r', ser_elems serialise (x :: t) ++ rest = c2 :: r' /\ c2 <> 93).
      { cbn [ser_elems]. destruct (ser_head x) as (c & tl & Hs & Hne). rewrite Hs. cbn [app]. eauto. }
      destruct Hh as (c2 & r' & Hr & Hne).
      cbn [app parse_val]. change (91 =? 110) with false. change (91 =? 116) with false.
      change (91 =? 102) with false. change (91 =? 34) with false. change (91 =? 91) with true. cbn iota.
      rewrite Hr. apply Z.eqb_neq in Hne. rewrite Hne. rewrite <- Hr.
      assert (Hf2 : (list_sum (map (fun x => S (size x)) (x :: t)) <= f)%nat) by lia.
      assert (Hn2 : x :: t <> []) by discriminate.
      rewrite (elems_rt (x :: t) HF Hn2 f rest Hf2). reflexivity.
  - (* objects *)
    intros l HF fuel rest Hf _. destruct fuel as [|f]; [cbn in Hf; lia|]. cbn [serialise size] in *.
    destruct l as [|[k x] t].
    + reflexivity.
    + assert (Hh : exists r', ser_members serialise ((k, x) :: t) ++ rest = 34 :: r').
      { cbn [ser_members]. unfold ser_str. cbn [app]. eauto. }
      destruct Hh as (r' & Hr).
      cbn [app parse_val]. change (123 =? 110) with false. change (123 =? 116) with false.
      change (123 =? 102) with false. change (123 =? 34) with false. change (123 =? 91) with false.
      change (123 =? 123) with true. cbn iota.
      rewrite Hr. change (34 =? 125) with false. cbn iota. rewrite <- Hr.
      assert (Hf2 : (list_sum (map (fun kv => S (size (snd kv))) ((k, x) :: t)) <= f)%nat) by lia.
      assert (Hn2 : (k, x) :: t <> []) by discriminate.
      rewrite (members_rt ((k, x) :: t) HF Hn2 f rest Hf2). reflexivity.
Qed.

Lemma size_le_length v : (size v <= length (serialise v))%nat.
Proof.
  induction v using json_ind'; cbn [size serialise length]; try (destruct b); cbn [length]; try lia.
  - unfold ser_num. destruct (n <? 0); [cbn [length]; lia|].
    destruct (dec_head n) as (c & t & H & _). rewrite H. cbn [length]. lia.
  - unfold ser_str. cbn [length]. lia.
  - apply le_n_S. induction H as [|x t Hx Ht IH]; [cbn; lia|].
    cbn [map ser_elems]. rewrite lsum_cons, app_length.
    destruct t as [|y t']; [cbn [map list_sum fold_right length]; lia|].
    cbn [length]. lia.
  - apply le_n_S. induction H as [|[k x] t Hx Ht IH]; [cbn; lia|].
    cbn [map ser_members snd] in *. rewrite lsum_cons. unfold ser_str at 1. cbn [length app]. rewrite !app_length. cbn [length]. rewrite app_length.
    destruct t as [|y t']; [cbn [map list_sum fold_right length]; lia|].
    cbn [length]. lia.
Qed.

Lemma serialise_parse v : parse (serialise v) = Some v.
Proof.
  unfold parse. pose proof (parse_val_rt v (S (length (serialise v))) [] ) as H.
  rewrite app_nil_r in H. rewrite H; [reflexivity| |exact I].
  pose proof (size_le_length v). lia.
Qed.

(* the escaped form of a string contains no raw control character, quote or lone backslash:
   every code point of [esc_str s] outside an escape sequence is the original one *)
Lemma esc_char_no_control c x : In x (esc_char c) -> ~ (0 <= x < 32).
Proof.
  unfold esc_char.
  destruct (c =? 34); [intros [<-|[<-|[]]]; lia|].
  destruct (c =? 92); [intros [<-|[<-|[]]]; lia|].
  destruct (c =? 8); [intros [<-|[<-|[]]]; lia|].
  destruct (c =? 12); [intros [<-|[<-|[]]]; lia|].
  destruct (c =? 10); [intros [<-|[<-|[]]]; lia|].
  destruct (c =? 13); [intros [<-|[<-|[]]]; lia|].
  destruct (c =? 9); [intros [<-|[<-|[]]]; lia|].
  destruct ((0 <=? c) && (c <? 32)) eqn:E.
  - cbn [hex_fixed app]. unfold hex_digit.
    intros [<-|[<-|[<-|[<-|[<-|[<-|[]]]]]]]; try lia;
      match goal with |- context [if ?b then _ else _] => destruct b end;
      try (pose proof (Z.mod_pos_bound (c / 16) 16 ltac:(lia)); lia);
      try (pose proof (Z.mod_pos_bound c 16 ltac:(lia)); lia).
  - intros [<-|[]]. apply andb_false_iff in E. rewrite Z.leb_gt, Z.ltb_ge in E. lia.
Qed.

(* ------------------------------------------------------------------ hex widths *)
Lemma hex_fixed_length n : forall x, length (hex_fixed n x) = n.
Proof. induction n as [|n IH]; intro x; [reflexivity|]. cbn [hex_fixed]. rewrite app_length, IH. cbn. lia. Qed.

Definition is_lower_hex (c : Z) : Prop := 48 <= c <= 57 \/ 97 <= c <= 102.

Lemma hex_digit_lower d : 0 <= d < 16 -> is_lower_hex (hex_digit d).
Proof. intro H. unfold hex_digit, is_lower_hex. destruct (d <? 10) eqn:E; [apply Z.ltb_lt in E|apply Z.ltb_ge in E]; lia. Qed.

Lemma hex_fixed_lower n : forall x, Forall is_lower_hex (hex_fixed n x).
Proof.
  induction n as [|n IH]; intro x; [constructor|]. cbn [hex_fixed]. apply Forall_app. split; [apply IH|].
  constructor; [|constructor]. apply hex_digit_lower. apply Z.mod_pos_bound. lia.
Qed.

Lemma strip0_sub l : Forall is_lower_hex l -> Forall is_lower_hex (strip0 l) /\ (length (strip0 l) <= length l)%nat /\
                                           (l <> [] -> strip0 l <> []).
Proof.
  induction l as [|c t IH]; intro H; [cbn; auto|].
  inversion H as [|? ? Hc Ht]; subst. cbn [strip0].
  destruct t as [|c2 t2].
  - destruct c as [|p|p]; try (repeat split; [exact H|lia|discriminate]).
    repeat (destruct p as [p|p|]; try (repeat split; [exact H|cbn; lia|discriminate])).
  - specialize (IH Ht). destruct IH as (I1 & I2 & I3).
    assert (D : strip0 (c :: c2 :: t2) = (if c =? 48 then strip0 (c2 :: t2) else c :: c2 :: t2)).
    { destruct (c =? 48) eqn:E; [apply Z.eqb_eq in E; subst c; reflexivity|].
      cbn [strip0]. destruct c as [|p|p]; try reflexivity.
      repeat (destruct p as [p|p|]; try reflexivity). discriminate E. }
    change (match c with 48 => strip0 (c2 :: t2) | _ => c :: c2 :: t2 end) with (strip0 (c :: c2 :: t2)).
    rewrite D. destruct (c =? 48).
    + repeat split; [exact I1|cbn [length] in *; lia|intros _; apply I3; discriminate].
    + repeat split; [exact H|lia|discriminate].
Qed.

Definition hex_value (l : list Z) : Z :=
  fold_left (fun a c => a * 16 + (if c <? 58 then c - 48 else c - 87)) l 0.

Lemma hex_value_app l c : hex_value (l ++ [c]) = hex_value l * 16 + (if c <? 58 then c - 48 else c - 87).
Proof. unfold hex_value. rewrite fold_left_app. reflexivity. Qed.

Lemma hex_digit_value d : 0 <= d < 16 -> (if hex_digit d <? 58 then hex_digit d - 48 else hex_digit d - 87) = d.
Proof.
  intro H. unfold hex_digit. destruct (d <? 10) eqn:E; [apply Z.ltb_lt in E|apply Z.ltb_ge in E].
  - assert (E2 : (48 + d <? 58) = true) by (apply Z.ltb_lt; lia). rewrite E2. lia.
  - assert (E2 : (87 + d <? 58) = false) by (apply Z.ltb_ge; lia). rewrite E2. lia.
Qed.

Lemma hex_fixed_value n : forall x, 0 <= x -> hex_value (hex_fixed n x) = x mod 16 ^ Z.of_nat n.
Proof.
  induction n as [|n IH]; intros x Hx.
  - cbn. rewrite Z.mod_1_r. reflexivity.
  - cbn [hex_fixed]. rewrite hex_value_app, IH by (apply Z.div_pos; lia).
    rewrite hex_digit_value by (apply Z.mod_pos_bound; lia).
    rewrite Nat2Z.inj_succ, Z.pow_succ_r by lia.
    assert (Hp : 0 < 16 ^ Z.of_nat n) by (apply Z.pow_pos_nonneg; lia).
    rewrite Z.rem_mul_r by lia. lia.
Qed.

Lemma address_width w x : 0 <= x < two64 ->
  (w <> W32 -> length (address_str w x) = 18%nat) /\
  (w = W32 -> x < two32 -> length (address_str w x) = 10%nat) /\
  (w = W32 -> two32 <= x -> (3 <= length (address_str w x) <= 18)%nat) /\
  (exists digits, address_str w x = 48 :: 120 :: digits /\ Forall is_lower_hex digits) /\
  ((w <> W32 \/ x < two32) -> hex_value (skipn 2 (address_str w x)) = x).
Proof.
  intro Hx. unfold address_str.
  pose proof (hex_fixed_length 16 x) as L16. pose proof (hex_fixed_length 8 x) as L8.
  pose proof (strip0_sub _ (hex_fixed_lower 16 x)) as (S1 & S2 & S3).
  assert (Hne : hex_fixed 16 x <> []) by (intro E; rewrite E in L16; discriminate L16).
  specialize (S3 Hne).
  assert (V16 : hex_value (hex_fixed 16 x) = x).
  { rewrite hex_fixed_value by lia. apply Z.mod_small. change (16 ^ Z.of_nat 16) with two64. lia. }
  split; [|split; [|split; [|split]]].
  - intro Hw. destruct w; try congruence; cbn [length]; rewrite L16; reflexivity.
  - intros -> Hlt. apply Z.ltb_lt in Hlt. rewrite Hlt. cbn [length]. rewrite L8. reflexivity.
  - intros -> Hge. apply Z.ltb_ge in Hge. rewrite Hge. cbn [length]. rewrite L16 in S2.
    destruct (strip0 (hex_fixed 16 x)); [congruence|cbn [length] in *; lia].
  - destruct w; [destruct (x <? two32)|..]; eexists; (split; [reflexivity|]);
      try apply hex_fixed_lower; exact S1.
  - intros [Hw|Hlt].
    + destruct w; try congruence; cbn [skipn]; exact V16.
    + destruct w; cbn [skipn]; try exact V16. apply Z.ltb_lt in Hlt. rewrite Hlt.
      rewrite hex_fixed_value by lia. apply Z.mod_small. apply Z.ltb_lt in Hlt.
      change (16 ^ Z.of_nat 8) with two32. lia.
Qed.
