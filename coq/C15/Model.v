(* C15/Model.v — executable model of the JSON report.
   Mirrors minidump-processor/src/process_state.rs:
     Address Display (65-74) + set_print_context (1171-1175): `{:#010x}` for 32-bit pointer
       width, `{:#018x}` otherwise (64-bit and unknown CPUs);
     print_json (877-1169) for the fields the property names: thread_count / threads,
       frame_count / frames, frame, offset, module, module_offset, function, function_offset,
       file, line, missing_symbols, trust, unloaded_modules, crashing_thread copy (+ registers,
       threads_index), modules (base_addr / end_addr / filename), unloaded_modules, pid,
       crash_info.{address, crashing_thread, type};
     json_registers (509-527).
   serde_json's writer is modelled by [serialise] (compact form, object keys in the order
   given — serde_json's Map is a BTreeMap, so [json_of_state] lists keys in sorted order) with
   serde_json's string escaping: the two-character forms for quote, backslash, \b \f \n \r \t,
   \u00XX (lower-case hex) for the other control characters, everything else verbatim.
   Strings are lists of code points. Definitions only; proofs are in C15/Proofs.v. *)
From RM Require Export Base.Word Gen.C15Enums.
Open Scope Z_scope.

Inductive json :=
| JNull
| JBool (b : bool)
| JNum (n : Z)
| JStr (s : list Z)
| JArr (l : list json)
| JObj (l : list (list Z * json)).

(* ------------------------------------------------------------------ digits *)
Definition hex_digit (d : Z) : Z := if d <? 10 then 48 + d else 87 + d.   (* '0'.. / 'a'.. *)
Fixpoint hex_fixed (n : nat) (x : Z) : list Z :=
  match n with
  | O => []
  | S m => hex_fixed m (x / 16) ++ [hex_digit (x mod 16)]
  end.

(* decimal digits, most significant first: the standard library's N.to_uint (no leading zeros,
   "0" for zero) spelled as code points *)
Fixpoint chars_of_uint (u : Decimal.uint) : list Z :=
  match u with
  | Decimal.Nil => []
  | Decimal.D0 t => 48 :: chars_of_uint t | Decimal.D1 t => 49 :: chars_of_uint t
  | Decimal.D2 t => 50 :: chars_of_uint t | Decimal.D3 t => 51 :: chars_of_uint t
  | Decimal.D4 t => 52 :: chars_of_uint t | Decimal.D5 t => 53 :: chars_of_uint t
  | Decimal.D6 t => 54 :: chars_of_uint t | Decimal.D7 t => 55 :: chars_of_uint t
  | Decimal.D8 t => 56 :: chars_of_uint t | Decimal.D9 t => 57 :: chars_of_uint t
  end.
Definition dec_digits (n : Z) : list Z := chars_of_uint (N.to_uint (Z.to_N n)).
Definition ser_num (n : Z) : list Z := if n <? 0 then 45 :: dec_digits (- n) else dec_digits n.

(* ------------------------------------------------------------------ serialiser *)
Definition esc_char (c : Z) : list Z :=
  if c =? 34 then [92; 34]
  else if c =? 92 then [92; 92]
  else if c =? 8 then [92; 98]
  else if c =? 12 then [92; 102]
  else if c =? 10 then [92; 110]
  else if c =? 13 then [92; 114]
  else if c =? 9 then [92; 116]
  else if (0 <=? c) && (c <? 32) then [92; 117; 48; 48] ++ hex_fixed 2 c
  else [c].
Definition esc_str (s : list Z) : list Z := flat_map esc_char s.
Definition ser_str (s : list Z) : list Z := 34 :: esc_str s ++ [34].

Definition ser_elems (ser : json -> list Z) : list json -> list Z :=
  fix elems (l : list json) : list Z :=
    match l with
    | [] => [93]
    | x :: t => ser x ++ match t with [] => [93] | _ :: _ => 44 :: elems t end
    end.
Definition ser_members (ser : json -> list Z) : list (list Z * json) -> list Z :=
  fix members (l : list (list Z * json)) : list Z :=
    match l with
    | [] => [125]
    | (k, x) :: t => ser_str k ++ 58 :: ser x ++ match t with [] => [125] | _ :: _ => 44 :: members t end
    end.

Fixpoint serialise (v : json) : list Z :=
  match v with
  | JNull => [110; 117; 108; 108]
  | JBool true => [116; 114; 117; 101]
  | JBool false => [102; 97; 108; 115; 101]
  | JNum n => ser_num n
  | JStr s => ser_str s
  | JArr l => 91 :: ser_elems serialise l
  | JObj l => 123 :: ser_members serialise l
  end.

(* ------------------------------------------------------------------ parser *)
Definition is_digit (c : Z) : bool := (48 <=? c) && (c <=? 57).
Definition hex_val (c : Z) : option Z :=
  if (48 <=? c) && (c <=? 57) then Some (c - 48)
  else if (97 <=? c) && (c <=? 102) then Some (c - 87)
  else if (65 <=? c) && (c <=? 70) then Some (c - 55)
  else None.
Definition hex4 (a b c d : Z) : option Z :=
  match hex_val a, hex_val b, hex_val c, hex_val d with
  | Some w, Some x, Some y, Some z => Some (((w * 16 + x) * 16 + y) * 16 + z)
  | _, _, _, _ => None
  end.
Definition unescape (e : Z) : option Z :=
  if e =? 34 then Some 34 else if e =? 92 then Some 92 else if e =? 47 then Some 47
  else if e =? 98 then Some 8 else if e =? 102 then Some 12 else if e =? 110 then Some 10
  else if e =? 114 then Some 13 else if e =? 116 then Some 9 else None.

(* the input after the opening quote -> (string, rest after the closing quote) *)
Fixpoint parse_str (s : list Z) : option (list Z * list Z) :=
  match s with
  | [] => None
  | c :: r =>
      if c =? 34 then Some ([], r)
      else if c =? 92 then
        match r with
        | [] => None
        | e :: r1 =>
            if e =? 117 then
              match r1 with
              | h1 :: h2 :: h3 :: h4 :: r2 =>
                  match hex4 h1 h2 h3 h4 with
                  | Some v => match parse_str r2 with Some (t, rest) => Some (v :: t, rest) | None => None end
                  | None => None
                  end
              | _ => None
              end
            else match unescape e with
                 | Some v => match parse_str r1 with Some (t, rest) => Some (v :: t, rest) | None => None end
                 | None => None
                 end
        end
      else if (0 <=? c) && (c <? 32) then None           (* raw control character *)
      else match parse_str r with Some (t, rest) => Some (c :: t, rest) | None => None end
  end.

(* the maximal run of decimal digits as a Decimal.uint, and what follows it *)
Fixpoint uint_of_chars (s : list Z) : Decimal.uint * list Z :=
  match s with
  | [] => (Decimal.Nil, [])
  | c :: r =>
      if (c <? 48) || (57 <? c) then (Decimal.Nil, s)
      else let '(u, rest) := uint_of_chars r in
           ((if c =? 48 then Decimal.D0 else if c =? 49 then Decimal.D1 else if c =? 50 then Decimal.D2
             else if c =? 51 then Decimal.D3 else if c =? 52 then Decimal.D4 else if c =? 53 then Decimal.D5
             else if c =? 54 then Decimal.D6 else if c =? 55 then Decimal.D7 else if c =? 56 then Decimal.D8
             else Decimal.D9) u, rest)
  end.
Fixpoint list_eqb (a b : list Z) : bool :=
  match a, b with
  | [], [] => true
  | x :: a', y :: b' => (x =? y) && list_eqb a' b'
  | _, _ => false
  end.
(* RFC 8259 int: a non-empty digit run in normal form ("0" or no leading zero); no fraction /
   exponent in this grammar *)
Definition parse_nat (s : list Z) : option (Z * list Z) :=
  let '(u, rest) := uint_of_chars s in
  match u with
  | Decimal.Nil => None
  | _ => let n := N.of_uint u in
         if list_eqb (chars_of_uint u) (chars_of_uint (N.to_uint n)) then Some (Z.of_N n, rest) else None
  end.

Fixpoint parse_val (fuel : nat) (s : list Z) {struct fuel} : option (json * list Z) :=
  match fuel with
  | O => None
  | S f =>
      match s with
      | [] => None
      | c :: r =>
          if c =? 110 then match r with 117 :: 108 :: 108 :: r' => Some (JNull, r') | _ => None end
          else if c =? 116 then match r with 114 :: 117 :: 101 :: r' => Some (JBool true, r') | _ => None end
          else if c =? 102 then match r with 97 :: 108 :: 115 :: 101 :: r' => Some (JBool false, r') | _ => None end
          else if c =? 34 then match parse_str r with Some (t, rest) => Some (JStr t, rest) | None => None end
          else if c =? 91 then
            match r with
            | [] => None
            | c2 :: r' => if c2 =? 93 then Some (JArr [], r')
                          else match parse_elems f r with Some (l, rest) => Some (JArr l, rest) | None => None end
            end
          else if c =? 123 then
            match r with
            | [] => None
            | c2 :: r' => if c2 =? 125 then Some (JObj [], r')
                          else match parse_members f r with Some (l, rest) => Some (JObj l, rest) | None => None end
            end
          else if c =? 45 then
            match parse_nat r with
            | Some (n, rest) => if n =? 0 then None else Some (JNum (- n), rest)
            | None => None
            end
          else match parse_nat s with Some (n, rest) => Some (JNum n, rest) | None => None end
      end
  end
with parse_elems (fuel : nat) (s : list Z) {struct fuel} : option (list json * list Z) :=
  match fuel with
  | O => None
  | S f =>
      match parse_val f s with
      | Some (v, c :: r) =>
          if c =? 44 then match parse_elems f r with Some (l, rest) => Some (v :: l, rest) | None => None end
          else if c =? 93 then Some ([v], r) else None
      | _ => None
      end
  end
with parse_members (fuel : nat) (s : list Z) {struct fuel} : option (list (list Z * json) * list Z) :=
  match fuel with
  | O => None
  | S f =>
      match s with
      | c :: r =>
          if c =? 34 then
            match parse_str r with
            | Some (k, c1 :: r1) =>
                if c1 =? 58 then
                  match parse_val f r1 with
                  | Some (v, c2 :: r2) =>
                      if c2 =? 44 then
                        match parse_members f r2 with Some (l, rest) => Some ((k, v) :: l, rest) | None => None end
                      else if c2 =? 125 then Some ([(k, v)], r2) else None
                  | _ => None
                  end
                else None
            | _ => None
            end
          else None
      | [] => None
      end
  end.

(* whole-document parse: the value must be followed by nothing *)
Definition parse (s : list Z) : option json :=
  match parse_val (S (length s)) s with
  | Some (v, []) => Some v
  | _ => None
  end.

(* ------------------------------------------------------------------ Address display *)
Inductive pwidth := W32 | W64 | WUnknown.
Fixpoint strip0 (l : list Z) : list Z :=
  match l with
  | 48 :: (_ :: _) as t => strip0 t
  | _ => l
  end.
(* `{:#010x}` / `{:#018x}`: "0x" + at least 8 / 16 digits *)
Definition address_str (w : pwidth) (x : Z) : list Z :=
  48 :: 120 ::
    match w with
    | W32 => if x <? two32 then hex_fixed 8 x else strip0 (hex_fixed 16 x)
    | _ => hex_fixed 16 x
    end.

(* ------------------------------------------------------------------ the process state *)
Record inline := { in_function : list Z; in_file : option (list Z); in_line : option Z }.
Record frame := {
  fr_instr : Z;
  fr_module : option (list Z * Z);          (* module.name (full; print_json takes the basename), base_of_image *)
  fr_function : option (list Z);
  fr_function_base : option Z;
  fr_file : option (list Z);
  fr_line : option Z;
  fr_trust : Z;                              (* FrameTrust variant index; rendered by TRUST_NAMES *)
  fr_unloaded : list (list Z * list Z);      (* BTreeMap name -> BTreeSet offsets *)
  fr_inlines : list inline }.
Record thread := { th_id : Z; th_name : option (list Z); th_last_error : option (list Z); th_frames : list frame }.
(* a module of the module list: code_file() (full; print_json takes the basename), debug_file().unwrap_or(""),
   debug_identifier().unwrap_or_default().breakpad().to_string(), code_identifier().unwrap_or_default().as_str(), version() *)
Record modul := { m_base : Z; m_size : Z; m_file : list Z; m_debug_file : list Z; m_debug_id : list Z;
                  m_code_id : list Z; m_version : option (list Z) }.
(* SymbolStats, keyed by module basename in ProcessState::symbol_stats *)
Record symstat := { ss_url : option (list Z); ss_loaded : bool; ss_corrupt : bool;
                    ss_extra : option (list Z * list Z) }.       (* extra_debug_info: debug_file, breakpad id text *)
Record access := { a_addr : Z; a_size : option Z; a_guard : bool; a_type : Z }.   (* MemoryAccessType variant index *)
Inductive adjusted := AdjNonCanonical (a : Z) | AdjNull (off : Z).
Inductive ipupdate := IpuNone | IpuUpdate (addr : Z) (guard : bool).
Record flip := { bf_addr : Z; bf_reg : option (list Z); bf_nc : bool; bf_null : bool; bf_low : bool;
                 bf_nearby : Z; bf_poison : bool }.
Record crash := {
  cr_reason : list Z; cr_addr : Z;
  cr_adjusted : option adjusted;
  cr_instr : option (list Z);
  cr_accesses : option (list access);
  cr_ipu : option ipupdate;
  cr_flips : list flip;
  cr_incons : list Z }.                      (* CrashInconsistency variant indices *)
Record sysinfo := {
  sy_os : Z; sy_os_raw : Z;                  (* Os variant index (8 = Unknown(raw)) *)
  sy_os_ver : option (list Z);
  sy_cpu : Z;                                (* Cpu variant index *)
  sy_cpu_info : option (list Z);
  sy_cpu_count : Z;
  sy_microcode : option Z }.
Inductive lim := LErr | LUnlimited | LLimited (n : Z).
Record limit := { li_name : list Z; li_soft : lim; li_hard : lim; li_unit : list Z }.
(* RawMacCrashInfo through its accessors (0 / empty string = None) *)
Record macrec := { mc_thread : option Z; mc_dialog : option Z; mc_abort : option Z; mc_module : option (list Z);
                   mc_message : option (list Z); mc_signature : option (list Z); mc_backtrace : option (list Z);
                   mc_message2 : option (list Z) }.
Record handle := { h_handle : option Z; h_type : option (list Z); h_object : option (list Z) }.
Record state := {
  s_width : pwidth;
  s_pid : option Z;
  s_threads : list thread;
  s_requesting : option nat;
  s_registers : list (list Z * Z * nat);     (* valid general-purpose registers of the requesting
                                                thread's frame 0: name, value, hex digits *)
  s_modules : list modul;
  s_unloaded : list modul;                   (* m_file = name (no basename); debug fields / version unused *)
  s_crash : option crash;
  s_sys : sysinfo;
  s_lsb : option (list Z * list Z * list Z * list Z);   (* id, release, codename, description *)
  s_mapcount : option Z;
  s_certinfo : list (list Z * list Z);       (* cert_info: module name -> subject *)
  s_symstats : list (list Z * symstat);      (* symbol_stats: module basename -> stats *)
  s_assertion : option (list Z);
  s_limits : option (list limit);            (* linux_proc_limits, in HashMap iteration order *)
  s_mac_crash : option (list macrec);
  s_bootargs : option (list Z);              (* mac_boot_args and its bootargs, flattened *)
  s_handles : option (list handle);
  s_soft : option json }.                    (* soft_errors: whatever JSON text the dump's MozSoftErrors stream held, parsed *)

(* names of enumeration-valued members; the tables are regenerated from the source on every run *)
Definition nth_name (tbl : list (list Z)) (i : Z) : list Z := nth (Z.to_nat i) tbl [].
Definition trust_name (i : Z) : list Z := nth_name TRUST_NAMES i.
Definition access_name (i : Z) : list Z := nth_name ACCESS_NAMES i.
Definition inconsistency_name (i : Z) : list Z := nth_name INCONSISTENCY_NAMES i.
Definition cpu_name (i : Z) : list Z := nth_name CPU_NAMES i.
(* Os::long_name; Unknown(val) is format!("0x{val:#08x}"): a literal "0x" followed by "0x" and at least 6 digits *)
Definition os_name (i raw : Z) : list Z :=
  if i =? 8 then 48 :: 120 :: 48 :: 120 :: (if raw <? 16777216 then hex_fixed 6 raw else strip0 (hex_fixed 8 raw))
  else nth_name OS_NAMES i.

(* basename(): the text after the last '/' or '\' *)
Fixpoint basename_aux (s acc : list Z) : list Z :=
  match s with
  | [] => acc
  | c :: t => if (c =? 47) || (c =? 92) then basename_aux t t else basename_aux t acc
  end.
Definition basename (s : list Z) : list Z := basename_aux s s.

(* HashMap<String, _>::get *)
Fixpoint lookup {A} (k : list Z) (l : list (list Z * A)) : option A :=
  match l with
  | [] => None
  | (k', v) :: t => if list_eqb k k' then Some v else lookup k t
  end.

(* String order (UTF-8 byte order = code point order) and the stable sort of proc_limits by name *)
Fixpoint str_leb (a b : list Z) : bool :=
  match a, b with
  | [], _ => true
  | _ :: _, [] => false
  | x :: a', y :: b' => if x <? y then true else if y <? x then false else str_leb a' b'
  end.
Fixpoint insert_limit (x : limit) (l : list limit) : list limit :=
  match l with
  | [] => [x]
  | y :: t => if str_leb (li_name x) (li_name y) then x :: l else y :: insert_limit x t
  end.
Definition sort_limits (l : list limit) : list limit := fold_right insert_limit [] l.

(* key names as code points *)
Definition k_address := [97;100;100;114;101;115;115].
Definition k_base_addr := [98;97;115;101;95;97;100;100;114].
Definition k_crash_info := [99;114;97;115;104;95;105;110;102;111].
Definition k_crashing_thread := [99;114;97;115;104;105;110;103;95;116;104;114;101;97;100].
Definition k_end_addr := [101;110;100;95;97;100;100;114].
Definition k_file := [102;105;108;101].
Definition k_filename := [102;105;108;101;110;97;109;101].
Definition k_frame := [102;114;97;109;101].
Definition k_frame_count := [102;114;97;109;101;95;99;111;117;110;116].
Definition k_frames := [102;114;97;109;101;115].
Definition k_function := [102;117;110;99;116;105;111;110].
Definition k_function_offset := [102;117;110;99;116;105;111;110;95;111;102;102;115;101;116].
Definition k_line := [108;105;110;101].
Definition k_missing_symbols := [109;105;115;115;105;110;103;95;115;121;109;98;111;108;115].
Definition k_module := [109;111;100;117;108;101].
Definition k_module_offset := [109;111;100;117;108;101;95;111;102;102;115;101;116].
Definition k_modules := [109;111;100;117;108;101;115].
Definition k_offset := [111;102;102;115;101;116].
Definition k_offsets := [111;102;102;115;101;116;115].
Definition k_pid := [112;105;100].
Definition k_registers := [114;101;103;105;115;116;101;114;115].
Definition k_thread_count := [116;104;114;101;97;100;95;99;111;117;110;116].
Definition k_thread_id := [116;104;114;101;97;100;95;105;100].
Definition k_thread_name := [116;104;114;101;97;100;95;110;97;109;101].
Definition k_threads := [116;104;114;101;97;100;115].
Definition k_threads_index := [116;104;114;101;97;100;115;95;105;110;100;101;120].
Definition k_trust := [116;114;117;115;116].
Definition k_type := [116;121;112;101].
Definition k_unloaded_modules := [117;110;108;111;97;100;101;100;95;109;111;100;117;108;101;115].
Definition k_access_type := [97;99;99;101;115;115;95;116;121;112;101].
Definition k_adjusted_address := [97;100;106;117;115;116;101;100;95;97;100;100;114;101;115;115].
Definition k_assertion := [97;115;115;101;114;116;105;111;110].
Definition k_codename := [99;111;100;101;110;97;109;101].
Definition k_cpu_arch := [99;112;117;95;97;114;99;104].
Definition k_cpu_count := [99;112;117;95;99;111;117;110;116].
Definition k_cpu_info := [99;112;117;95;105;110;102;111].
Definition k_cpu_microcode_version := [99;112;117;95;109;105;99;114;111;99;111;100;101;95;118;101;114;115;105;111;110].
Definition k_crash_inconsistencies := [99;114;97;115;104;95;105;110;99;111;110;115;105;115;116;101;110;99;105;101;115].
Definition k_description := [100;101;115;99;114;105;112;116;105;111;110].
Definition k_details := [100;101;116;97;105;108;115].
Definition k_id := [105;100].
Definition k_instruction := [105;110;115;116;114;117;99;116;105;111;110].
Definition k_instruction_pointer_update := [105;110;115;116;114;117;99;116;105;111;110;95;112;111;105;110;116;101;114;95;117;112;100;97;116;101].
Definition k_is_likely_guard_page := [105;115;95;108;105;107;101;108;121;95;103;117;97;114;100;95;112;97;103;101].
Definition k_is_null := [105;115;95;110;117;108;108].
Definition k_kind := [107;105;110;100].
Definition k_linux_memory_map_count := [108;105;110;117;120;95;109;101;109;111;114;121;95;109;97;112;95;99;111;117;110;116].
Definition k_lsb_release := [108;115;98;95;114;101;108;101;97;115;101].
Definition k_main_module := [109;97;105;110;95;109;111;100;117;108;101].
Definition k_memory_accesses := [109;101;109;111;114;121;95;97;99;99;101;115;115;101;115].
Definition k_modules_contains_cert_info := [109;111;100;117;108;101;115;95;99;111;110;116;97;105;110;115;95;99;101;114;116;95;105;110;102;111].
Definition k_nearby_registers := [110;101;97;114;98;121;95;114;101;103;105;115;116;101;114;115].
Definition k_os := [111;115].
Definition k_os_ver := [111;115;95;118;101;114].
Definition k_poison_registers := [112;111;105;115;111;110;95;114;101;103;105;115;116;101;114;115].
Definition k_possible_bit_flips := [112;111;115;115;105;98;108;101;95;98;105;116;95;102;108;105;112;115].
Definition k_release := [114;101;108;101;97;115;101].
Definition k_size := [115;105;122;101].
Definition k_source_register := [115;111;117;114;99;101;95;114;101;103;105;115;116;101;114].
Definition k_status := [115;116;97;116;117;115].
Definition k_system_info := [115;121;115;116;101;109;95;105;110;102;111].
Definition k_was_low := [119;97;115;95;108;111;119].
Definition k_was_non_canonical := [119;97;115;95;110;111;110;95;99;97;110;111;110;105;99;97;108].
Definition k_inlines := [105;110;108;105;110;101;115].
Definition k_last_error_value := [108;97;115;116;95;101;114;114;111;114;95;118;97;108;117;101].
Definition k_cert_subject := [99;101;114;116;95;115;117;98;106;101;99;116].
Definition k_code_id := [99;111;100;101;95;105;100].
Definition k_corrupt_symbols := [99;111;114;114;117;112;116;95;115;121;109;98;111;108;115].
Definition k_debug_file := [100;101;98;117;103;95;102;105;108;101].
Definition k_debug_id := [100;101;98;117;103;95;105;100].
Definition k_loaded_symbols := [108;111;97;100;101;100;95;115;121;109;98;111;108;115].
Definition k_symbol_url := [115;121;109;98;111;108;95;117;114;108].
Definition k_version := [118;101;114;115;105;111;110].
Definition k_handles := [104;97;110;100;108;101;115].
Definition k_handle := [104;97;110;100;108;101].
Definition k_object_name := [111;98;106;101;99;116;95;110;97;109;101].
Definition k_type_name := [116;121;112;101;95;110;97;109;101].
Definition k_proc_limits := [112;114;111;99;95;108;105;109;105;116;115].
Definition k_limits := [108;105;109;105;116;115].
Definition k_name := [110;97;109;101].
Definition k_soft := [115;111;102;116].
Definition k_hard := [104;97;114;100].
Definition k_unit := [117;110;105;116].
Definition k_mac_crash_info := [109;97;99;95;99;114;97;115;104;95;105;110;102;111].
Definition k_num_records := [110;117;109;95;114;101;99;111;114;100;115].
Definition k_records := [114;101;99;111;114;100;115].
Definition k_abort_cause := [97;98;111;114;116;95;99;97;117;115;101].
Definition k_backtrace := [98;97;99;107;116;114;97;99;101].
Definition k_dialog_mode := [100;105;97;108;111;103;95;109;111;100;101].
Definition k_message := [109;101;115;115;97;103;101].
Definition k_message2 := [109;101;115;115;97;103;101;50].
Definition k_signature_string := [115;105;103;110;97;116;117;114;101;95;115;116;114;105;110;103].
Definition k_thread := [116;104;114;101;97;100].
Definition k_mac_boot_args := [109;97;99;95;98;111;111;116;95;97;114;103;115].
Definition k_soft_errors := [115;111;102;116;95;101;114;114;111;114;115].
Definition k_confidence := [99;111;110;102;105;100;101;110;99;101].
Definition s_non_canonical := [110;111;110;45;99;97;110;111;110;105;99;97;108].
Definition s_null_pointer := [110;117;108;108;45;112;111;105;110;116;101;114].
Definition s_OK := [79;75].
Definition s_unlimited := [117;110;108;105;109;105;116;101;100].
Definition s_err := [101;114;114].

Definition PANIC_MODULE_OFFSET : Z := 1501.
Definition PANIC_FUNCTION_OFFSET : Z := 1502.
Definition PANIC_END_ADDR : Z := 1503.

Definition jopt {A} (f : A -> json) (o : option A) : json := match o with Some a => f a | None => JNull end.
Definition jhex (w : pwidth) (x : Z) : json := JStr (address_str w x).

Fixpoint omap {A B} (f : A -> outcome B) (l : list A) : outcome (list B) :=
  match l with
  | [] => Ret []
  | a :: t => do b <- f a; do bs <- omap f t; Ret (b :: bs)
  end.

Definition json_of_inline (i : inline) : json :=
  JObj [(k_file, jopt JStr (in_file i)); (k_function, JStr (in_function i)); (k_line, jopt JNum (in_line i))].

(* one element of "frames"; [idx] is the enumerate() index *)
Definition json_of_frame (p : profile) (w : pwidth) (idx : nat) (f : frame) : outcome json :=
  do moff <- match fr_module f with
             | Some (_, base) => do x <- chk_sub p 64 PANIC_MODULE_OFFSET (fr_instr f) base; Ret (jhex w x)
             | None => Ret JNull
             end;
  do foff <- match fr_function_base f with
             | Some base => do x <- chk_sub p 64 PANIC_FUNCTION_OFFSET (fr_instr f) base; Ret (jhex w x)
             | None => Ret JNull
             end;
  Ret (JObj [
    (k_file, jopt JStr (fr_file f));
    (k_frame, JNum (Z.of_nat idx));
    (k_function, jopt JStr (fr_function f));
    (k_function_offset, foff);
    (k_inlines, match fr_inlines f with [] => JNull | l => JArr (map json_of_inline l) end);
    (k_line, jopt JNum (fr_line f));
    (k_missing_symbols, JBool (match fr_function f with Some _ => false | None => true end));
    (k_module, jopt (fun m => JStr (basename (fst m))) (fr_module f));
    (k_module_offset, moff);
    (k_offset, jhex w (fr_instr f));
    (k_trust, JStr (trust_name (fr_trust f)));
    (k_unloaded_modules,
       match fr_unloaded f with
       | [] => JNull
       | l => JArr (map (fun e => JObj [(k_module, JStr (fst e)); (k_offsets, JArr (map (jhex w) (snd e)))]) l)
       end)]).

Fixpoint json_of_frames (p : profile) (w : pwidth) (idx : nat) (l : list frame) : outcome (list json) :=
  match l with
  | [] => Ret []
  | f :: t => do j <- json_of_frame p w idx f; do js <- json_of_frames p w (S idx) t; Ret (j :: js)
  end.

Definition json_of_thread (p : profile) (w : pwidth) (t : thread) : outcome json :=
  do fs <- json_of_frames p w 0%nat (th_frames t);
  Ret (JObj [
    (k_frame_count, JNum (Z.of_nat (length (th_frames t))));
    (k_frames, JArr fs);
    (k_last_error_value, jopt JStr (th_last_error t));
    (k_thread_id, JNum (th_id t));
    (k_thread_name, jopt JStr (th_name t))]).

Definition default_stat : symstat := {| ss_url := None; ss_loaded := false; ss_corrupt := false; ss_extra := None |}.

(* one element of "modules" *)
Definition json_of_module (p : profile) (w : pwidth) (certs : list (list Z * list Z))
                          (stats : list (list Z * symstat)) (m : modul) : outcome json :=
  let name := basename (m_file m) in
  let st := lookup name stats in
  let had := match st with Some _ => true | None => false end in
  let s := match st with Some s => s | None => default_stat end in
  let dfile := match ss_extra s with Some e => fst e | None => m_debug_file m end in
  let did := match ss_extra s with Some e => snd e | None => m_debug_id m end in
  do e <- chk_add p 64 PANIC_END_ADDR (m_base m) (m_size m);
  Ret (JObj [(k_base_addr, jhex w (m_base m));
             (k_cert_subject, jopt JStr (lookup name certs));
             (k_code_id, JStr (m_code_id m));
             (k_corrupt_symbols, JBool (ss_corrupt s));
             (k_debug_file, JStr (basename dfile));
             (k_debug_id, JStr did);
             (k_end_addr, jhex w e);
             (k_filename, JStr name);
             (k_loaded_symbols, JBool (ss_loaded s));
             (k_missing_symbols, JBool (had && negb (ss_loaded s)));
             (k_symbol_url, jopt JStr (ss_url s));
             (k_version, jopt JStr (m_version m))]).

(* one element of the top-level "unloaded_modules" *)
Definition json_of_unloaded (p : profile) (w : pwidth) (certs : list (list Z * list Z)) (m : modul) : outcome json :=
  do e <- chk_add p 64 PANIC_END_ADDR (m_base m) (m_size m);
  Ret (JObj [(k_base_addr, jhex w (m_base m));
             (k_cert_subject, jopt JStr (lookup (m_file m) certs));
             (k_code_id, JStr (m_code_id m));
             (k_end_addr, jhex w e);
             (k_filename, JStr (m_file m))]).

(* insert / append a member in an object, as serde_json::Map::insert on a fresh key does for a
   key that sorts at the given place *)
Definition add_registers (regs : json) (fr : json) : json :=
  match fr with
  | JObj l => JObj (firstn 10 l ++ (k_registers, regs) :: skipn 10 l)   (* after "offset" *)
  | x => x
  end.
Definition json_registers (regs : list (list Z * Z * nat)) : json :=
  JObj (map (fun r => (fst (fst r), JStr (48 :: 120 :: hex_fixed (snd r) (snd (fst r))))) regs).

(* the "crashing_thread" copy: threads[i] with threads_index appended and registers in frame 0 *)
Definition crashing_copy (regs : json) (i : nat) (th : json) : json :=
  match th with
  | JObj [(k1, c); (k2, JArr (f0 :: fs)); (k3, le); (k4, id); (k5, nm)] =>
      JObj [(k1, c); (k2, JArr (add_registers regs f0 :: fs)); (k3, le); (k4, id); (k5, nm);
            (k_threads_index, JNum (Z.of_nat i))]
  | x => x
  end.

Definition PANIC_THREAD_INDEX : Z := 1504.

Definition json_of_access (w : pwidth) (a : access) : json :=
  JObj ((if a_type a <? 3 then [(k_access_type, JStr (access_name (a_type a)))] else []) ++
        [(k_address, jhex w (a_addr a))] ++
        (if a_guard a then [(k_is_likely_guard_page, JBool true)] else []) ++
        [(k_size, jopt JNum (a_size a))]).
Definition json_of_flip (w : pwidth) (b : flip) : json :=
  JObj [(k_address, jhex w (bf_addr b));
        (k_details, JObj [(k_is_null, JBool (bf_null b)); (k_nearby_registers, JNum (bf_nearby b));
                          (k_poison_registers, JBool (bf_poison b)); (k_was_low, JBool (bf_low b));
                          (k_was_non_canonical, JBool (bf_nc b))]);
        (k_source_register, jopt JStr (bf_reg b))].
Definition json_of_crash (w : pwidth) (c : option crash) (req : option nat) (assertion : option (list Z)) : json :=
  JObj [
    (k_address, jopt (fun c => jhex w (cr_addr c)) c);
    (k_adjusted_address,
       match c with
       | Some c => match cr_adjusted c with
                   | Some (AdjNonCanonical a) => JObj [(k_address, jhex w a); (k_kind, JStr s_non_canonical)]
                   | Some (AdjNull o) => JObj [(k_kind, JStr s_null_pointer); (k_offset, jhex w o)]
                   | None => JNull end
       | None => JNull end);
    (k_assertion, jopt JStr assertion);
    (k_crash_inconsistencies, jopt (fun c => JArr (map (fun i => JStr (inconsistency_name i)) (cr_incons c))) c);
    (k_crashing_thread, jopt (fun i => JNum (Z.of_nat i)) req);
    (k_instruction, match c with Some c => jopt JStr (cr_instr c) | None => JNull end);
    (k_instruction_pointer_update,
       match c with
       | Some c => match cr_ipu c with
                   | Some (IpuUpdate a g) =>
                       JObj ((k_address, jhex w a) :: (if g then [(k_is_likely_guard_page, JBool true)] else []))
                   | _ => JNull end
       | None => JNull end);
    (k_memory_accesses,
       match c with
       | Some c => jopt (fun l => JArr (map (json_of_access w) l)) (cr_accesses c)
       | None => JNull end);
    (k_possible_bit_flips,
       match c with
       | Some c => match cr_flips c with [] => JNull | l => JArr (map (json_of_flip w) l) end
       | None => JNull end);
    (k_type, jopt (fun c => JStr (cr_reason c)) c)].
Definition json_of_sys (y : sysinfo) : json :=
  JObj [(k_cpu_arch, JStr (cpu_name (sy_cpu y)));
        (k_cpu_count, JNum (sy_cpu_count y));
        (k_cpu_info, jopt JStr (sy_cpu_info y));
        (k_cpu_microcode_version, jopt (fun n => JStr (48 :: 120 :: strip0 (hex_fixed 16 n))) (sy_microcode y));
        (k_os, JStr (os_name (sy_os y) (sy_os_raw y)));
        (k_os_ver, jopt JStr (sy_os_ver y))].
Definition json_of_lim (l : lim) : json :=
  match l with LErr => JStr s_err | LUnlimited => JStr s_unlimited | LLimited n => JNum n end.
Definition json_of_limit (l : limit) : json :=
  JObj [(k_hard, json_of_lim (li_hard l)); (k_name, JStr (li_name l)); (k_soft, json_of_lim (li_soft l));
        (k_unit, JStr (li_unit l))].
Definition json_of_macrec (w : pwidth) (r : macrec) : json :=
  JObj [(k_abort_cause, jopt (jhex w) (mc_abort r));
        (k_backtrace, jopt JStr (mc_backtrace r));
        (k_dialog_mode, jopt (jhex w) (mc_dialog r));
        (k_message, jopt JStr (mc_message r));
        (k_message2, jopt JStr (mc_message2 r));
        (k_module, jopt JStr (mc_module r));
        (k_signature_string, jopt JStr (mc_signature r));
        (k_thread, jopt (jhex w) (mc_thread r))].
Definition json_of_handle (h : handle) : json :=
  JObj [(k_handle, jopt JNum (h_handle h)); (k_object_name, jopt JStr (h_object h)); (k_type_name, jopt JStr (h_type h))].

(* "soft_errors": the stream is free-form JSON text; print_json reports it only when it has the documented shape, an
   array of objects (anything else a damaged dump carries there is dropped: /repo fix F-C15d) *)
Definition is_obj (v : json) : bool := match v with JObj _ => true | _ => false end.
Definition soft_ok (v : json) : bool := match v with JArr l => forallb is_obj l | _ => false end.
Definition soft_value (o : option json) : json :=
  match o with Some v => if soft_ok v then v else JNull | None => JNull end.

(* the whole report except the binary32 "confidence" of each bit flip (serde_json's float writer; checked separately
   against C19's exact model) *)
Definition json_of_state (p : profile) (s : state) : outcome json :=
  let w := s_width s in
  do threads <- omap (json_of_thread p w) (s_threads s);
  do mods <- omap (json_of_module p w (s_certinfo s) (s_symstats s)) (s_modules s);
  do unl <- omap (json_of_unloaded p w (s_certinfo s)) (s_unloaded s);
  let crash_info := json_of_crash w (s_crash s) (s_requesting s) (s_assertion s) in
  let tail := [
    (k_handles, jopt (fun l => JArr (map json_of_handle l)) (s_handles s));
    (k_linux_memory_map_count, jopt JNum (s_mapcount s));
    (k_lsb_release, jopt (fun l => let '(i, r, c, d) := l in
                                   JObj [(k_codename, JStr c); (k_description, JStr d); (k_id, JStr i); (k_release, JStr r)]) (s_lsb s));
    (k_mac_boot_args, jopt JStr (s_bootargs s));
    (k_mac_crash_info, jopt (fun l => JObj [(k_num_records, JNum (Z.of_nat (length l)));
                                            (k_records, JArr (map (json_of_macrec w) l))]) (s_mac_crash s));
    (k_main_module, JNum 0);
    (k_modules, JArr mods);
    (k_modules_contains_cert_info, JBool (match s_certinfo s with [] => false | _ => true end));
    (k_pid, jopt JNum (s_pid s));
    (k_proc_limits, jopt (fun l => JObj [(k_limits, JArr (map json_of_limit (sort_limits l)))]) (s_limits s));
    (k_soft_errors, soft_value (s_soft s));
    (k_status, JStr s_OK);
    (k_system_info, json_of_sys (s_sys s));
    (k_thread_count, JNum (Z.of_nat (length (s_threads s))));
    (k_threads, JArr threads);
    (k_unloaded_modules, JArr unl)] in
  match s_requesting s with
  | None => Ret (JObj ((k_crash_info, crash_info) :: tail))
  | Some i =>
      match nth_error (s_threads s) i, nth_error threads i with
      | Some t, Some tj =>
          match th_frames t with
          | [] => Ret (JObj ((k_crash_info, crash_info) :: tail))      (* no frame: no copy *)
          | _ :: _ =>
              Ret (JObj ((k_crash_info, crash_info) ::
                         (k_crashing_thread, crashing_copy (json_registers (s_registers s)) i tj) :: tail))
          end
      | _, _ => Panic PANIC_THREAD_INDEX                               (* self.threads[requesting_thread] *)
      end
  end.
