From Coq Require Extraction.
From Coq Require Import ExtrOcamlBasic.
From RM Require Import C08.Model C11.Model C10.Stream C10.ReadFail C10.Driver C09.Grammar.
Extraction "c10_model.ml" run_case o_kind o_code o_line o_cb o_ncb o_nrd o_maxsp o_cap
  o_table o_dropped o_skind o_scode o_sline o_stable
  t_module_id t_debug_file t_files t_origins t_publics t_funcs t_cfi t_win_fd t_win_fpo t_url
  pb_addr pb_name pb_psize sf_addr sf_size sf_psize sf_name sf_lines sf_inls
  l_addr l_size l_file l_line i_depth i_addr i_size i_cfile i_cline i_origin
  cr_addr cr_rules sc_init sc_size sc_add
  wi_addr wi_size wi_prolog wi_epilog wi_params wi_saved wi_locals wi_maxstack wi_thing
  run_async run_stream run_rfail run_trace first_rest tr_hash tr_events tr_grows tr_shifts tr_discards tr_recovered tr_zero_reads tr_full_reads.
