From Coq Require Extraction.
From Coq Require Import ExtrOcamlBasic.
From RM Require Import C10.Driver.
Extraction "c10_model.ml" run_case o_kind o_code o_line o_cb o_ncb o_nrd o_maxsp o_cap
  o_files o_origins o_publics o_url o_dropped o_skind o_scode o_sline.
