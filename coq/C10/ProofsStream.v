(* C10/ProofsStream.v — parse_async over an arbitrary body (empty chunks, a body that fails at chunk k):
   every iteration of [step_stream] is an iteration of C09's [step] (SymbolFile::parse) under a one-entry
   reader schedule, so C09's invariant (no panic, termination, callback accounting) and C10's invariant
   (under [short_lines]: never in recovery, outcome = spec) carry over step by step. *)
From Coq Require Import Lia ZArith List Bool.
From RM Require Import Base.Word C09.Model C09.Proofs C10.Model C10.Proofs C10.ProofsAsync C10.Stream.
From RM Require Gen.C10Stream.
Import ListNotations.
Open Scope Z_scope.

(* ------------------------------------------------------------------ the refill block is the one in the source *)
Fixpoint next_chunk_src (pend : list sev) : option (Z * list sev) :=
  match pend with
  | [] => Some (C10Stream.src_none_len, [])
  | SChunk n :: t => if C10Stream.src_skip_chunk n then next_chunk_src t else Some (n, t)
  | SFail :: _ => if C10Stream.src_fail_is_load_error then None else Some (0, [])
  end.
Definition refill_src (cur : Z) (pend : list sev) : option (Z * list sev) :=
  if C10Stream.src_refill_guard cur then next_chunk_src pend else Some (cur, pend).

Lemma refill_is_source : forall cur pend, refill cur pend = refill_src cur pend.
Proof.
  intros cur pend. unfold refill, refill_src, C10Stream.src_refill_guard.
  destruct (cur <=? 0); [|reflexivity].
  induction pend as [|[n|] t IH]; cbn [next_chunk next_chunk_src]; try reflexivity.
  all: unfold C10Stream.src_skip_chunk; destruct (n <=? 0); [exact IH|reflexivity].
Qed.

(* ------------------------------------------------------------------ facts about the script *)
Lemma delivered_nonneg : forall p, 0 <= delivered p.
Proof. induction p as [|[n|] t IH]; cbn [delivered]; lia. Qed.

Lemma next_chunk_some : forall p c1 p1, next_chunk p = Some (c1, p1) ->
  0 <= c1 /\ c1 + delivered p1 = delivered p /\ fails p1 = fails p /\
  (c1 = 0 -> p1 = [] /\ fails p = false).
Proof.
  induction p as [|[n|] t IH]; intros c1 p1 H; cbn [next_chunk] in H.
  - inversion H; subst. cbn [delivered fails]. split; [lia|]. split; [lia|]. split; [reflexivity|]. intros _. split; reflexivity.
  - cbn [delivered fails]. destruct (n <=? 0) eqn:E.
    + apply Z.leb_le in E. destruct (IH _ _ H) as [A [B [C D]]].
      split; [exact A|]. split; [lia|]. split; [exact C|exact D].
    + apply Z.leb_gt in E. inversion H; subst.
      split; [lia|]. split; [lia|]. split; [reflexivity|]. intros Q. lia.
  - discriminate.
Qed.

Lemma next_chunk_none : forall p, next_chunk p = None -> delivered p = 0 /\ fails p = true.
Proof.
  induction p as [|[n|] t IH]; intros H; cbn [next_chunk] in H.
  - discriminate.
  - cbn [delivered fails]. destruct (n <=? 0) eqn:E; [|discriminate]. apply Z.leb_le in E.
    destruct (IH H) as [A B]. split; [lia|exact B].
  - cbn [delivered fails]. split; reflexivity.
Qed.

Lemma refill_some : forall cur p c1 p1, 0 <= cur -> refill cur p = Some (c1, p1) ->
  0 <= c1 /\ c1 + delivered p1 = cur + delivered p /\ fails p1 = fails p /\
  (c1 = 0 -> cur + delivered p = 0 /\ fails p = false).
Proof.
  intros cur p c1 p1 Hc H. unfold refill in H. destruct (cur <=? 0) eqn:E.
  - apply Z.leb_le in E. assert (cur = 0) by lia. subst cur.
    destruct (next_chunk_some _ _ _ H) as [A [B [C D]]].
    split; [exact A|]. split; [lia|]. split; [exact C|].
    intros Q. destruct (D Q) as [D1 D2]. subst p1 c1. cbn [delivered] in B. split; [lia|exact D2].
  - apply Z.leb_gt in E. inversion H; subst.
    split; [lia|]. split; [lia|]. split; [reflexivity|]. intros Q. lia.
Qed.

Lemma refill_none : forall cur p, 0 <= cur -> refill cur p = None ->
  cur + delivered p = 0 /\ fails p = true.
Proof.
  intros cur p Hc H. unfold refill in H. destruct (cur <=? 0) eqn:E; [|discriminate].
  apply Z.leb_le in E. destruct (next_chunk_none _ H). split; [lia|assumption].
Qed.

Section StreamProofs.
  Variable L : Type.
  Variable llen : L -> Z.
  Variable PS : Type.
  Variable init_ps : PS.
  Variable recog : PS -> L -> PS + Z.
  Variable bump : PS -> PS.
  Variable lineno : PS -> Z.
  Hypothesis llen_pos : forall l, 1 <= llen l.
  Variable lines : list L.
  Variable t0 : Z.

  Local Notation tail := (Z.max 0 t0).
  Local Notation ilen := (input_len L llen lines t0).
  Local Notation St := (st L PS).
  Local Notation SSt := (@sst L PS).
  Local Notation step := (step L llen PS recog bump lineno).
  Local Notation step_stream := (step_stream L llen PS recog bump lineno).
  Local Notation sar := (step_after_read L llen PS recog lineno).
  Local Notation ws := (ws L PS).
  Local Notation lift := (lift L PS).
  Local Notation mid := (mid L llen PS bump).
  Local Notation wrap := (wrap L PS).
  Local Notation phi := (phi L PS).
  Local Notation WF := (WF L llen PS init_ps recog bump lineno tail ilen lines).
  Local Notation WFm := (WFm L llen PS init_ps recog bump lineno tail ilen lines).
  Local Notation Fin := (Fin L llen PS init_ps recog bump lineno tail ilen lines).
  Local Notation spec := (spec L PS init_ps recog lineno).
  Local Notation fold_recog := (fold_recog L PS recog lineno).

  Lemma ws_nil_id : forall s : St, sched s = [] -> ws [] s = s.
  Proof. intros [] H. unfold ProofsAsync.ws. cbn in *. subst. reflexivity. Qed.

  Lemma lift_frame : forall n sp (s : St), lift (ws []) (sar n [] sp s) = sar n [] sp s.
  Proof.
    intros n sp s. pose proof (after_read_frame L llen PS recog lineno n [] sp s) as F.
    destruct (sar n [] sp s) as [s'|r s'|t]; cbn [ProofsAsync.lift]; try reflexivity;
      destruct F as [F _]; rewrite (ws_nil_id _ F); reflexivity.
  Qed.

  (* one iteration of parse_async = one iteration of parse whose reader returns what the slice gives *)
  Lemma step_stream_char : forall (x : SSt) c1 pend1,
    refill (cur x) (pend x) = Some (c1, pend1) ->
    0 <= c1 <= unread (core x) -> (c1 = 0 -> unread (core x) = 0) ->
    let n := Z.max 0 (Z.min (space (buf (mid (core x)))) c1) in
    let sch := if n =? 0 then [] else [n] in
    step_stream x = wrap (c1 - n) pend1 (lift (ws []) (step (ws sch (core x)))) /\
    match step (ws sch (core x)) with
    | Next s' | Done _ s' => unread s' = unread (core x) - n
    | StPanic _ => True
    end.
  Proof.
    intros x c1 pend1 R Hc Hz n sch. unfold Stream.step_stream. rewrite R.
    set (s0 := core x) in *.
    destruct (pr s0 && negb (geom_ok (buf s0))) eqn:Eg.
    { unfold Model.step. cbn [ProofsAsync.ws pr buf]. rewrite Eg. split; [reflexivity|exact I]. }
    change (if pr s0 then recovery L llen PS bump s0 else s0) with (mid s0).
    destruct (geom_ok (buf (mid s0))) eqn:Eg1; cbn [negb].
    2:{ unfold Model.step. cbn [ProofsAsync.ws pr buf]. rewrite Eg.
        change (if pr s0 then recovery L llen PS bump (ws sch s0) else ws sch s0) with (mid (ws sch s0)).
        rewrite mid_ws. unfold Model.step_rest. cbn [ProofsAsync.ws buf]. rewrite Eg1. split; [reflexivity|exact I]. }
    fold n.
    rewrite (step_eq L llen PS recog bump lineno s0 sch Eg Eg1).
    pose proof (geom_ok_space L PS init_ps recog bump lineno _ Eg1) as Hsp.
    destruct (mid_frame L llen PS bump s0) as [_ [Mu _]].
    set (sp := space (buf (mid s0))) in *.
    assert (Hr : read_n L PS sp (ws sch (mid s0)) = (n, [])).
    { unfold Model.read_n. cbn [ProofsAsync.ws unread sched]. rewrite Mu. subst sch.
      destruct (n =? 0) eqn:En.
      - apply Z.eqb_eq in En.
        assert (Q : (sp <=? 0) || (unread s0 <=? 0) = true).
        { apply orb_true_iff. destruct (Z.eq_dec c1 0) as [Q|Q].
          - right. apply Z.leb_le. rewrite (Hz Q). lia.
          - left. apply Z.leb_le. subst n. lia. }
        rewrite Q. rewrite En. reflexivity.
      - apply Z.eqb_neq in En.
        replace (sp <=? 0) with false by (symmetry; apply Z.leb_gt; subst n; lia).
        replace (unread s0 <=? 0) with false by (symmetry; apply Z.leb_gt; subst n; lia).
        cbn [orb]. f_equal. subst n. lia. }
    rewrite Hr. cbn [fst snd]. split.
    - rewrite <- (lift_frame n sp (mid s0)).
      apply f_equal.
      exact (after_read_ws L llen PS recog lineno n [] [] sp sch (mid s0)).
    - pose proof (after_read_frame L llen PS recog lineno n [] sp (ws sch (mid s0))) as F.
      destruct (sar n [] sp (ws sch (mid s0))); try exact I; destruct F as [_ F]; rewrite F;
        cbn [ProofsAsync.ws unread]; rewrite Mu; reflexivity.
  Qed.

  (* ---------------------------------------------------------------- C09's invariant, step by step *)
  (* the reader of parse_async accounts for exactly the bytes that are not yet in the buffer *)
  Definition RI (x : SSt) : Prop := 0 <= cur x /\ unread (core x) = cur x + delivered (pend x).

  Lemma ws_WF : forall sch s, WF s -> WF (ws sch s).
  Proof.
    intros sch s [[? ? ? ? ? ? ? ? ? ? ? ? ? ? ? ? ?] ? ? ?]. constructor; [constructor|..]; assumption.
  Qed.

  Lemma mid_wfm : forall s, WF s -> WFm (mid s).
  Proof.
    intros s W. unfold ProofsAsync.mid. destruct (pr s) eqn:E; [|exact (wf_m _ _ _ _ _ _ _ _ _ _ _ W)].
    exact (proj1 (recovery_wfm L llen PS init_ps recog bump lineno llen_pos tail ltac:(lia) ilen lines s
                    (wf_m _ _ _ _ _ _ _ _ _ _ _ W) E)).
  Qed.

  Lemma ws_WFm : forall sch s, WFm s -> WFm (ws sch s).
  Proof. intros sch s [? ? ? ? ? ? ? ? ? ? ? ? ? ? ? ? ?]. constructor; assumption. Qed.

  Lemma ws_Fin : forall sch r s, Fin r s -> Fin r (ws sch s).
  Proof. intros sch r s [Wm M]. split; [exact (ws_WFm sch s Wm)|]. destruct r; exact M. Qed.

  Lemma stream_step_wf : forall x, WF (core x) -> RI x ->
    match step_stream x with
    | SNext x' => WF (core x') /\ RI x' /\ phi (core x') < phi (core x) /\ fails (pend x') = fails (pend x)
    | SDone r x' => WFm (core x') /\ ((r = RErr LOAD_ERROR 0 /\ fails (pend x) = true) \/ Fin r (core x'))
    | SPanic _ => False
    end.
  Proof.
    intros x W [Hc Hu].
    pose proof (mid_wfm _ W) as Wm1.
    destruct (refill (cur x) (pend x)) as [[c1 pend1]|] eqn:R.
    - destruct (refill_some _ _ _ _ Hc R) as [A [B [C D]]].
      pose proof (delivered_nonneg pend1) as Hd.
      assert (Hc1 : 0 <= c1 <= unread (core x)) by lia.
      assert (Hz : c1 = 0 -> unread (core x) = 0) by (intros Q; destruct (D Q); lia).
      destruct (step_stream_char x c1 pend1 R Hc1 Hz) as [E F]. cbn zeta in E, F. rewrite E. clear E.
      set (n := Z.max 0 (Z.min (space (buf (mid (core x)))) c1)) in *.
      set (sch := if n =? 0 then [] else [n]) in *.
      pose proof (step_wf L llen PS init_ps recog bump lineno llen_pos tail ltac:(lia) ilen lines
                          (ws sch (core x)) (ws_WF sch _ W)) as SW.
      assert (Hn : 0 <= n <= c1) by (subst n; lia).
      destruct (step (ws sch (core x))) as [s'|r s'|t]; cbn [ProofsAsync.lift Stream.wrap core cur pend].
      + destruct SW as [W' P']. split; [exact (ws_WF [] _ W')|]. split; [|split].
        * unfold RI. cbn [core cur pend ProofsAsync.ws unread]. rewrite F. lia.
        * exact P'.
        * exact C.
      + split; [exact (ws_WFm [] _ (proj1 SW))|]. right. exact (ws_Fin [] _ _ SW).
      + exact SW.
    - unfold Stream.step_stream. rewrite R.
      rewrite (geom_ok_true _ (wf_geom _ _ _ _ _ _ _ _ _ _ _ (wf_m _ _ _ _ _ _ _ _ _ _ _ W))).
      cbn [negb]. rewrite andb_false_r.
      change (if pr (core x) then recovery L llen PS bump (core x) else core x) with (mid (core x)).
      cbn [core]. split; [exact Wm1|]. left. split; [reflexivity|].
      exact (proj2 (refill_none _ _ Hc R)).
  Qed.

  (* ---------------------------------------------------------------- runs *)
  Local Notation iter_stream := (iter_stream L llen PS recog bump lineno).
  Fixpoint iter_nat_s (n : nat) (x : SSt) : @sres L PS :=
    match n with
    | O => SNext x
    | S n' => match step_stream x with SNext x1 => iter_nat_s n' x1 | r => r end
    end.

  Lemma iter_nat_s_add : forall a b x,
    iter_nat_s (a + b) x = match iter_nat_s a x with SNext x1 => iter_nat_s b x1 | r => r end.
  Proof.
    induction a as [|a IH]; intros b x; cbn [iter_nat_s Nat.add]; [reflexivity|].
    destruct (step_stream x); try reflexivity. apply IH.
  Qed.

  Lemma iter_stream_nat : forall p x, iter_stream p x = iter_nat_s (Pos.to_nat p) x.
  Proof.
    induction p as [q IH|q IH|]; intros x; cbn [Stream.iter_stream].
    - rewrite Pos2Nat.inj_xI. replace (S (2 * Pos.to_nat q))%nat with (1 + (Pos.to_nat q + Pos.to_nat q))%nat by lia.
      rewrite iter_nat_s_add. cbn [iter_nat_s]. destruct (step_stream x) as [x1| |]; try reflexivity.
      rewrite iter_nat_s_add. rewrite IH. destruct (iter_nat_s (Pos.to_nat q) x1); try reflexivity. apply IH.
    - rewrite Pos2Nat.inj_xO. replace (2 * Pos.to_nat q)%nat with (Pos.to_nat q + Pos.to_nat q)%nat by lia.
      rewrite iter_nat_s_add. rewrite IH. destruct (iter_nat_s (Pos.to_nat q) x); try reflexivity. apply IH.
    - rewrite Pos2Nat.inj_1. cbn [iter_nat_s]. destruct (step_stream x); reflexivity.
  Qed.

  Lemma stream_run_wf : forall n x, WF (core x) -> RI x -> phi (core x) < Z.of_nat n ->
    exists r x', iter_nat_s n x = SDone r x' /\ WFm (core x') /\
                 ((r = RErr LOAD_ERROR 0 /\ fails (pend x) = true) \/ Fin r (core x')).
  Proof.
    induction n as [|n IH]; intros x W Ri Hphi.
    - pose proof (phi_nonneg _ _ _ _ _ _ _ _ _ _ (core x) (wf_m _ _ _ _ _ _ _ _ _ _ _ W)) as Q. cbn in Hphi. lia.
    - cbn [iter_nat_s]. pose proof (stream_step_wf x W Ri) as SW.
      destruct (step_stream x) as [x1|r x1|t].
      + destruct SW as [W1 [R1 [P1 F1]]]. destruct (IH x1 W1 R1 ltac:(lia)) as [r [x' [H1 [H2 H3]]]].
        exists r, x'. split; [exact H1|]. split; [exact H2|]. rewrite <- F1. exact H3.
      + exists r, x1. split; [reflexivity|exact SW].
      + contradiction.
  Qed.

  Local Notation init_stream := (init_stream L llen PS init_ps).
  Local Notation drive_stream := (drive_stream L llen PS init_ps recog bump lineno).

  Lemma init_RI : forall script, delivered script = ilen -> RI (init_stream lines t0 script).
  Proof. intros script H. unfold RI, Stream.init_stream, init_st. cbn [core cur pend unread]. lia. Qed.

  Lemma init_phi_s : forall script, phi (core (init_stream lines t0 script)) = 6 * ilen + 17.
  Proof.
    intros script. unfold Stream.init_stream. cbn [core].
    exact (init_phi L llen PS init_ps recog bump lineno tail ilen lines t0 [] eq_refl eq_refl).
  Qed.

  (* parse_async is total and the callback gets a prefix of what the body delivered — everything on Ok —
     whatever the body does: chunks of any size, empty chunks, a failure at any point.  All inputs. *)
  Lemma stream_total : forall script, delivered script = ilen ->
    exists r x, drive_stream lines t0 script = Ret (r, x) /\
      cbsum (core x) = total (core x) /\ 0 <= total (core x) <= ilen /\
      (forall p, r = ROk p -> cbsum (core x) = ilen).
  Proof.
    intros script Hd. unfold Stream.drive_stream. rewrite iter_stream_nat.
    destruct (stream_run_wf (Pos.to_nat (fuel_for L llen lines t0)) (init_stream lines t0 script)) as [r [x [H1 [W F]]]].
    - unfold Stream.init_stream. cbn [core]. apply init_wf'. exact llen_pos.
    - exact (init_RI script Hd).
    - rewrite init_phi_s. rewrite positive_nat_Z. unfold fuel_for.
      pose proof (input_len_nonneg L llen PS init_ps recog bump lineno llen_pos lines t0). rewrite Z2Pos.id; lia.
    - rewrite H1. exists r, x. split; [reflexivity|].
      pose proof W as W0. destruct W.
      pose proof (size_nonneg L llen PS init_ps recog bump lineno llen_pos (map snd (rev (log (core x))))).
      destruct wf_geom as [? [? ?]]. destruct wf_off as [? ?]. unfold avail in *.
      split; [exact wf_cb|]. split; [lia|].
      intros p Hp. subst r. destruct F as [[F _]|[_ [_ [F2 [F3 _]]]]]; [discriminate|]. unfold avail in F2. lia.
  Qed.

  (* ---------------------------------------------------------------- a failing body never gives a table (all inputs) *)
  Local Notation parse_phase0 := (parse_phase L llen PS recog lineno).

  Lemma parse_phase_done_err : forall s r s', parse_phase0 s = Done r s' -> exists c ln, r = RErr c ln.
  Proof.
    intros s r s' H. unfold Model.parse_phase in H.
    destruct (pr s); [discriminate|]. destruct (negb (geom_ok (buf s))); [discriminate|].
    destruct (negb (off s =? 0)); [discriminate|].
    destruct (pm L llen PS recog lineno (avail (buf s)) (ps s) (rest s) 0 (log s)) as [[[[p' r1] c'] lg']|[c ln]]; [discriminate|].
    inversion H. exists c, ln. reflexivity.
  Qed.

  Lemma sar_not_ok : forall s1 c1 r s', WFm s1 -> (fc s1 = true -> avail (buf s1) = 0) -> 0 < c1 ->
    sar (Z.max 0 (Z.min (space (buf s1)) c1)) [] (space (buf s1)) s1 = Done r s' -> forall p, r <> ROk p.
  Proof.
    intros s1 c1 r s' Wm Hfc Hc H p Hr. subst r.
    destruct Wm as [Wg Wc Wh [Wo1 Wo2] Wa Ws Wu Wpo Wpc Wtg Wcb Wms Wt Wpl Wl Wr Wd].
    pose proof (caps_bounds L PS init_ps recog bump lineno _ Wc) as Hcb.
    assert (Hsp : 0 <= space (buf s1)) by (destruct Wg as [? [? ?]]; unfold space; lia).
    set (sp := space (buf s1)) in *. set (n := Z.max 0 (Z.min sp c1)) in *.
    unfold Model.step_after_read in H.
    destruct (n =? 0) eqn:En.
    - apply Z.eqb_eq in En. assert (Hs0 : sp = 0) by (subst n; lia).
      cbn [jf fc tg total ps buf] in H.
      match type of H with (if ?c then _ else _) = _ => destruct c end.
      + destruct (parse_phase_done_err _ _ _ H) as [c [ln Q]]. discriminate.
      + destruct (fc s1) eqn:Efc.
        * specialize (Hfc eq_refl). destruct Wg as [? [? ?]]. unfold space, avail in *. subst sp. lia.
        * match type of H with (if ?c then _ else _) = _ => destruct c end.
          -- match type of H with (if ?c then _ else _) = _ => destruct c end; discriminate.
          -- match type of H with (if ?c then _ else _) = _ => destruct c end; discriminate.
    - destruct (parse_phase_done_err _ _ _ H) as [c [ln Q]]. discriminate.
  Qed.

  Lemma step_stream_unfold_gen : forall x c1 pend1, WF (core x) ->
    refill (cur x) (pend x) = Some (c1, pend1) ->
    step_stream x = wrap (c1 - Z.max 0 (Z.min (space (buf (mid (core x)))) c1)) pend1
                         (sar (Z.max 0 (Z.min (space (buf (mid (core x)))) c1)) [] (space (buf (mid (core x)))) (mid (core x))).
  Proof.
    intros x c1 pend1 W R. unfold Stream.step_stream. rewrite R.
    rewrite (geom_ok_true _ (wf_geom _ _ _ _ _ _ _ _ _ _ _ (wf_m _ _ _ _ _ _ _ _ _ _ _ W))). cbn [negb]. rewrite andb_false_r.
    change (if pr (core x) then recovery L llen PS bump (core x) else core x) with (mid (core x)).
    rewrite (geom_ok_true _ (wf_geom _ _ _ _ _ _ _ _ _ _ _ (mid_wfm _ W))). reflexivity.
  Qed.

  Lemma mid_fc : forall s, WF s -> fc (mid s) = true -> avail (buf (mid s)) = 0.
  Proof.
    intros s W. unfold ProofsAsync.mid. destruct (pr s) eqn:E.
    - exact (proj1 (proj2 (recovery_wfm L llen PS init_ps recog bump lineno llen_pos tail ltac:(lia) ilen lines s
                             (wf_m _ _ _ _ _ _ _ _ _ _ _ W) E))).
    - exact (wf_fc _ _ _ _ _ _ _ _ _ _ _ W E).
  Qed.

  Lemma stream_step_fail_not_ok : forall x r x', WF (core x) -> RI x -> fails (pend x) = true ->
    step_stream x = SDone r x' -> forall p, r <> ROk p.
  Proof.
    intros x r x' W [Hc Hu] Hf H p.
    destruct (refill (cur x) (pend x)) as [[c1 pend1]|] eqn:R.
    - destruct (refill_some _ _ _ _ Hc R) as [A [B [C D]]].
      assert (Hpos : 0 < c1).
      { destruct (Z.eq_dec c1 0) as [Q|Q]; [|lia]. destruct (D Q) as [_ D2]. congruence. }
      rewrite (step_stream_unfold_gen x c1 pend1 W R) in H.
      destruct (sar (Z.max 0 (Z.min (space (buf (mid (core x)))) c1)) [] (space (buf (mid (core x)))) (mid (core x)))
        as [s2|r2 s2|t2] eqn:S; cbn [Stream.wrap] in H; try discriminate.
      inversion H; subst r2.
      exact (sar_not_ok (mid (core x)) c1 r s2 (mid_wfm _ W) (mid_fc _ W) Hpos S p).
    - unfold Stream.step_stream in H. rewrite R in H.
      destruct (pr (core x) && negb (geom_ok (buf (core x)))); [discriminate|]. inversion H. discriminate.
  Qed.

  Lemma stream_run_fail_not_ok : forall n x r x', WF (core x) -> RI x -> fails (pend x) = true ->
    iter_nat_s n x = SDone r x' -> forall p, r <> ROk p.
  Proof.
    induction n as [|n IH]; intros x r x' W Ri Hf H; cbn [iter_nat_s] in H; [discriminate|].
    pose proof (stream_step_wf x W Ri) as SW.
    destruct (step_stream x) as [x1|r1 x1|t] eqn:E.
    - destruct SW as [W1 [R1 [_ F1]]]. apply (IH x1 r x' W1 R1); [rewrite F1; exact Hf|exact H].
    - injection H as H1 H2. subst r1. exact (stream_step_fail_not_ok x r x1 W Ri Hf E).
    - contradiction.
  Qed.

  (* ALL inputs (also with over-long lines, in or after a recovery): when the body fails parse_async returns an error *)
  Lemma stream_fail_not_ok : forall script, delivered script = ilen -> fails script = true ->
    forall r x, drive_stream lines t0 script = Ret (r, x) -> forall p, r <> ROk p.
  Proof.
    intros script Hd Hf r x H. unfold Stream.drive_stream in H. rewrite iter_stream_nat in H.
    destruct (iter_nat_s (Pos.to_nat (fuel_for L llen lines t0)) (init_stream lines t0 script)) as [x1|r1 x1|t] eqn:E;
      try discriminate.
    inversion H; subst r1 x1.
    eapply stream_run_fail_not_ok; [| | |exact E].
    - unfold Stream.init_stream. cbn [core]. apply init_wf'. exact llen_pos.
    - exact (init_RI script Hd).
    - exact Hf.
  Qed.

  (* ---------------------------------------------------------------- short lines: the outcome *)
  Hypothesis short : short_lines llen lines t0.
  Local Notation CI := (CI L llen PS init_ps recog bump lineno lines t0).
  Local Notation parse_phase := (parse_phase L llen PS recog lineno).

  Definition outcome_for (f : bool) : result PS :=
    if f then match fold_recog init_ps lines with
              | inr (c, ln) => RErr c ln
              | inl _ => RErr LOAD_ERROR 0
              end
    else spec lines t0.

  Lemma ws_CI : forall sch s, CI s -> CI (ws sch s).
  Proof. intros sch s [W ? ? ? ?]. constructor; try assumption. exact (ws_WF sch s W). Qed.

  (* a line the recogniser rejects, found while the log holds only recognised lines: the fold over all lines fails there *)
  Lemma fold_err : forall s c tk l r' p1, CI s ->
    rest s = tk ++ l :: r' -> fold_recog (ps s) tk = inl p1 -> recog p1 l = inr c ->
    fold_recog init_ps lines = inr (c, lineno p1).
  Proof.
    intros s c tk l r' p1 [W _ _ _ Hfed] Hr H1 H2.
    pose proof (wf_m _ _ _ _ _ _ _ _ _ _ _ W) as Wm.
    pose proof (spec_of_fold L llen PS init_ps recog bump lineno lines t0 s Wm Hfed) as Hs.
    rewrite (wf_lines _ _ _ _ _ _ _ _ _ _ _ Wm), Hr.
    rewrite (fold_recog_app L PS recog lineno), Hs.
    exact (fold_recog_err L PS recog lineno tk l r' (ps s) p1 c H1 H2).
  Qed.

  (* everything delivered and nothing left to read: at the head of the loop only an unterminated rest can be unparsed *)
  Lemma all_read_fold : forall s, CI s -> unread s = 0 -> fold_recog init_ps lines = inl (ps s).
  Proof.
    intros s [W Hpr _ _ Hfed] Hu.
    pose proof (wf_m _ _ _ _ _ _ _ _ _ _ _ W) as Wm.
    pose proof (wf_partial _ _ _ _ _ _ _ _ _ _ _ W Hpr) as Hp. unfold partial in Hp.
    pose proof (wf_acct _ _ _ _ _ _ _ _ _ _ _ Wm) as Wa.
    pose proof (wf_pr_off _ _ _ _ _ _ _ _ _ _ _ Wm Hpr) as Wo.
    assert (Hrest : rest s = []).
    { destruct (rest s) as [|l t]; [reflexivity|]. cbn [Model.size] in Wa.
      pose proof (size_nonneg L llen PS init_ps recog bump lineno llen_pos t). lia. }
    pose proof (spec_of_fold L llen PS init_ps recog bump lineno lines t0 s Wm Hfed) as Hs.
    rewrite (wf_lines _ _ _ _ _ _ _ _ _ _ _ Wm), Hrest, app_nil_r. exact Hs.
  Qed.

  (* a body that will fail still has a non-empty slice to read from: the iteration cannot end the parse
     except with a line the recogniser rejects *)
  Lemma sar_done_reject : forall s c1 r s', CI s -> 0 < c1 ->
    sar (Z.max 0 (Z.min (space (buf s)) c1)) [] (space (buf s)) s = Done r s' ->
    exists c tk l r' p1,
      r = RErr c (lineno p1) /\ rest s = tk ++ l :: r' /\ fold_recog (ps s) tk = inl p1 /\ recog p1 l = inr c.
  Proof.
    intros s c1 r s' [W Hpr Hf1 Hf0 Hfed] Hc H.
    pose proof (wf_m _ _ _ _ _ _ _ _ _ _ _ W) as Wm.
    pose proof (wf_jf _ _ _ _ _ _ _ _ _ _ _ W Hpr) as Hjf.
    pose proof (wf_fc _ _ _ _ _ _ _ _ _ _ _ W Hpr) as Hfca.
    destruct Wm as [Wg Wc Wh [Wo1 Wo2] Wa Ws Wu Wpo Wpc Wtg Wcb Wms Wt Wpl Wl Wr Wd].
    pose proof (caps_bounds L PS init_ps recog bump lineno _ Wc) as Hcb.
    assert (Hsp : 0 <= space (buf s)) by (destruct Wg as [? [? ?]]; unfold space; lia).
    set (sp := space (buf s)) in *. set (n := Z.max 0 (Z.min sp c1)) in *.
    unfold Model.step_after_read in H.
    destruct (n =? 0) eqn:En.
    - apply Z.eqb_eq in En. exfalso. assert (Hs0 : sp = 0) by (subst n; lia).
      cbn [jf fc tg total ps buf] in H. rewrite Hjf in H. cbn [andb] in H.
      destruct (fc s) eqn:Efc.
      + specialize (Hfca eq_refl). destruct Wg as [? [? ?]]. unfold space, avail in *. subst sp. lia.
      + replace (sp =? 0) with true in H by (symmetry; apply Z.eqb_eq; exact Hs0).
        destruct (tg s) eqn:Etg.
        * specialize (Wtg eq_refl). unfold space in *. subst sp. lia.
        * cbn [negb andb] in H. destruct (MAX_CAP <? Z.min (b_cap (fill (buf s) n) * 2) U64MAX); discriminate.
    - apply Z.eqb_neq in En.
      assert (P : pr (set_tg L PS (mkst (fill (buf s) n) (fc s) (tg s) (pr s) (jf s) (total s) (ps s) (rest s) (off s)
                                   (unread s - n) [] (ncb s) (cbsum s) (nrd s + 1) (Z.max (maxsp s) sp) (log s)) false) = false)
        by exact Hpr.
      destruct (parse_phase_done L llen PS recog bump lineno llen_pos _ r s' P H) as [c [tk [l [r' [p1 Q]]]]].
      exists c, tk, l, r', p1. exact Q.
  Qed.

  Lemma step_stream_unfold : forall x c1 pend1, WF (core x) -> pr (core x) = false ->
    refill (cur x) (pend x) = Some (c1, pend1) ->
    step_stream x = wrap (c1 - Z.max 0 (Z.min (space (buf (core x))) c1)) pend1
                         (sar (Z.max 0 (Z.min (space (buf (core x))) c1)) [] (space (buf (core x))) (core x)).
  Proof.
    intros x c1 pend1 W Hpr R. unfold Stream.step_stream. rewrite R, Hpr.
    rewrite (geom_ok_true _ (wf_geom _ _ _ _ _ _ _ _ _ _ _ (wf_m _ _ _ _ _ _ _ _ _ _ _ W))). reflexivity.
  Qed.

  Lemma stream_step_ci : forall x, CI (core x) -> RI x ->
    match step_stream x with
    | SNext x' => CI (core x')
    | SDone r x' => r = outcome_for (fails (pend x))
    | SPanic _ => False
    end.
  Proof.
    intros x Hci [Hc Hu]. pose proof Hci as [W Hpr _ _ _].
    destruct (refill (cur x) (pend x)) as [[c1 pend1]|] eqn:R.
    - destruct (refill_some _ _ _ _ Hc R) as [A [B [C D]]].
      pose proof (delivered_nonneg pend1) as Hd.
      assert (Hc1 : 0 <= c1 <= unread (core x)) by lia.
      assert (Hz : c1 = 0 -> unread (core x) = 0) by (intros Q; destruct (D Q); lia).
      destruct (step_stream_char x c1 pend1 R Hc1 Hz) as [E _]. cbn zeta in E.
      pose proof (step_stream_unfold x c1 pend1 W Hpr R) as U.
      set (n := Z.max 0 (Z.min (space (buf (mid (core x)))) c1)) in *.
      set (sch := if n =? 0 then [] else [n]) in *.
      pose proof (ci_step L llen PS init_ps recog bump lineno llen_pos lines t0 short
                          (ws sch (core x)) (ws_CI sch _ Hci)) as CS.
      rewrite E in *. clear E.
      destruct (step (ws sch (core x))) as [s'|r s'|t]; cbn [ProofsAsync.lift Stream.wrap core] in *.
      + exact (ws_CI [] _ CS).
      + subst r. unfold outcome_for. destruct (fails (pend x)) eqn:Ef; [|reflexivity].
        assert (Hpos : 0 < c1).
        { destruct (Z.eq_dec c1 0) as [Q|Q]; [|lia]. destruct (D Q) as [_ D2]. congruence. }
        destruct (sar (Z.max 0 (Z.min (space (buf (core x))) c1)) [] (space (buf (core x))) (core x)) as [s2|r2 s2|t2] eqn:S;
          cbn [Stream.wrap] in U; try discriminate.
        inversion U as [[U1 U2]].
        destruct (sar_done_reject (core x) c1 r2 s2 Hci Hpos S) as [c [tk [l [r' [p1 [Q1 [Q2 [Q3 Q4]]]]]]]].
        pose proof (fold_err (core x) c tk l r' p1 Hci Q2 Q3 Q4) as FE.
        unfold Model.spec. rewrite FE. reflexivity.
      + exact CS.
    - destruct (refill_none _ _ Hc R) as [N1 N2].
      unfold Stream.step_stream. rewrite R, Hpr.
      rewrite (geom_ok_true _ (wf_geom _ _ _ _ _ _ _ _ _ _ _ (wf_m _ _ _ _ _ _ _ _ _ _ _ W))). cbn [negb andb].
      rewrite N2. unfold outcome_for.
      pose proof (delivered_nonneg (pend x)).
      rewrite (all_read_fold (core x) Hci ltac:(lia)). reflexivity.
  Qed.

  Lemma stream_run_ci : forall n x r x', CI (core x) -> RI x -> WF (core x) ->
    iter_nat_s n x = SDone r x' -> r = outcome_for (fails (pend x)).
  Proof.
    induction n as [|n IH]; intros x r x' Hci Ri W H; cbn [iter_nat_s] in H; [discriminate|].
    pose proof (stream_step_ci x Hci Ri) as CS. pose proof (stream_step_wf x W Ri) as SW.
    destruct (step_stream x) as [x1|r1 x1|t].
    - destruct SW as [W1 [R1 [_ F1]]]. rewrite <- F1. exact (IH x1 r x' CS R1 W1 H).
    - injection H as H1 H2. rewrite <- H1. exact CS.
    - contradiction.
  Qed.

  (* chunk independence for parse_async, full strength: whatever the body does — chunks of any size, EMPTY
     chunks anywhere, a failure after any chunk — the outcome is [spec_stream]: the schedule-free verdict on
     the delivered bytes when the body is delivered in full; when the body fails, the error of the first
     delivered complete line the recogniser rejects, else the load error (never Ok). *)
  Lemma stream_is_spec : forall script, delivered script = ilen ->
    exists x, drive_stream lines t0 script
              = Ret (spec_stream L PS init_ps recog lineno lines t0 script, x).
  Proof.
    intros script Hd. destruct (stream_total script Hd) as [r [x [H _]]]. exists x. rewrite H. f_equal. f_equal.
    unfold Stream.drive_stream in H. rewrite iter_stream_nat in H.
    destruct (iter_nat_s (Pos.to_nat (fuel_for L llen lines t0)) (init_stream lines t0 script)) as [x1|r1 x1|t] eqn:E;
      try discriminate.
    inversion H; subst r1 x1.
    assert (Q : r = outcome_for (fails (pend (init_stream lines t0 script)))).
    { eapply stream_run_ci; [| |  |exact E].
      - unfold Stream.init_stream. cbn [core]. apply ci_init. exact llen_pos.
      - exact (init_RI script Hd).
      - unfold Stream.init_stream. cbn [core]. apply init_wf'. exact llen_pos. }
    rewrite Q. unfold outcome_for, Stream.spec_stream, Stream.init_stream. cbn [pend]. reflexivity.
  Qed.

  (* ---------------------------------------------------------------- what the callback (the cache writer) has seen when the body fails *)
  Local Notation size := (size L llen).

  Lemma stream_step_cb : forall x r x' p0, CI (core x) -> RI x -> fails (pend x) = true ->
    fold_recog init_ps lines = inl p0 ->
    step_stream x = SDone r x' -> r = RErr LOAD_ERROR 0 /\ cbsum (core x') = size lines.
  Proof.
    intros x r x' p0 Hci [Hc Hu] Hf Hfold H. pose proof Hci as [W Hpr _ _ Hfed].
    destruct (refill (cur x) (pend x)) as [[c1 pend1]|] eqn:R.
    - exfalso. destruct (refill_some _ _ _ _ Hc R) as [A [B [C D]]].
      assert (Hpos : 0 < c1).
      { destruct (Z.eq_dec c1 0) as [Q|Q]; [|lia]. destruct (D Q) as [_ D2]. congruence. }
      rewrite (step_stream_unfold x c1 pend1 W Hpr R) in H.
      destruct (sar (Z.max 0 (Z.min (space (buf (core x))) c1)) [] (space (buf (core x))) (core x)) as [s2|r2 s2|t2] eqn:S;
        cbn [Stream.wrap] in H; try discriminate.
      destruct (sar_done_reject (core x) c1 r2 s2 Hci Hpos S) as [c [tk [l [r' [p1 [Q1 [Q2 [Q3 Q4]]]]]]]].
      pose proof (fold_err (core x) c tk l r' p1 Hci Q2 Q3 Q4) as FE. congruence.
    - destruct (refill_none _ _ Hc R) as [N1 _].
      unfold Stream.step_stream in H. rewrite R, Hpr in H.
      rewrite (geom_ok_true _ (wf_geom _ _ _ _ _ _ _ _ _ _ _ (wf_m _ _ _ _ _ _ _ _ _ _ _ W))) in H. cbn [negb andb] in H.
      inversion H; subst r x'. split; [reflexivity|]. cbn [core].
      pose proof (wf_m _ _ _ _ _ _ _ _ _ _ _ W) as Wm.
      pose proof (wf_partial _ _ _ _ _ _ _ _ _ _ _ W Hpr) as Hp. unfold partial in Hp.
      pose proof (wf_acct _ _ _ _ _ _ _ _ _ _ _ Wm) as Wa.
      pose proof (wf_pr_off _ _ _ _ _ _ _ _ _ _ _ Wm Hpr) as Wo.
      pose proof (delivered_nonneg (pend x)).
      assert (Hrest : rest (core x) = []).
      { destruct (rest (core x)) as [|l t]; [reflexivity|]. cbn [Model.size] in Wa.
        pose proof (size_nonneg L llen PS init_ps recog bump lineno llen_pos t). lia. }
      rewrite (wf_cb _ _ _ _ _ _ _ _ _ _ _ Wm), (wf_total _ _ _ _ _ _ _ _ _ _ _ Wm), Wo.
      pose proof (wf_lines _ _ _ _ _ _ _ _ _ _ _ Wm) as Wl. rewrite Hrest, app_nil_r in Wl. rewrite <- Wl. lia.
  Qed.

  Lemma stream_run_cb : forall n x r x' p0, CI (core x) -> RI x -> WF (core x) -> fails (pend x) = true ->
    fold_recog init_ps lines = inl p0 ->
    iter_nat_s n x = SDone r x' -> r = RErr LOAD_ERROR 0 /\ cbsum (core x') = size lines.
  Proof.
    induction n as [|n IH]; intros x r x' p0 Hci Ri W Hf Hfold H; cbn [iter_nat_s] in H; [discriminate|].
    pose proof (stream_step_ci x Hci Ri) as CS. pose proof (stream_step_wf x W Ri) as SW.
    destruct (step_stream x) as [x1|r1 x1|t] eqn:E.
    - destruct SW as [W1 [R1 [_ F1]]]. apply (IH x1 r x' p0 CS R1 W1); [rewrite F1; exact Hf|exact Hfold|exact H].
    - injection H as H1 H2. subst r1 x1. exact (stream_step_cb x r x' p0 Hci Ri Hf Hfold E).
    - contradiction.
  Qed.

  (* the body fails and no delivered complete line is rejected: the outcome is the load error and the callback has been
     given exactly the complete lines that were delivered (not the unterminated rest) *)
  Lemma stream_failed_cb : forall script p0, delivered script = ilen -> fails script = true ->
    fold_recog init_ps lines = inl p0 ->
    exists x, drive_stream lines t0 script = Ret (RErr LOAD_ERROR 0, x) /\ cbsum (core x) = size lines.
  Proof.
    intros script p0 Hd Hf Hfold. destruct (stream_total script Hd) as [r [x [H _]]].
    pose proof H as H'. unfold Stream.drive_stream in H'. rewrite iter_stream_nat in H'.
    destruct (iter_nat_s (Pos.to_nat (fuel_for L llen lines t0)) (init_stream lines t0 script)) as [x1|r1 x1|t] eqn:E;
      try discriminate.
    inversion H'; subst r1 x1.
    destruct (stream_run_cb _ (init_stream lines t0 script) r x p0 (ci_init L llen PS init_ps recog bump lineno llen_pos lines t0 [])
                            (init_RI script Hd) (init_wf' L llen PS init_ps recog bump lineno llen_pos lines t0 []) Hf Hfold E) as [Q1 Q2].
    exists x. subst r. split; [exact H|exact Q2].
  Qed.
End StreamProofs.

(* ------------------------------------------------------------------ corollaries *)
(* a body that fails never yields a symbol table *)
Lemma stream_failed_never_ok :
  forall (L : Type) (llen : L -> Z) (PS : Type) (init_ps : PS)
         (recog : PS -> L -> PS + Z) (bump : PS -> PS) (lineno : PS -> Z),
    (forall l, 1 <= llen l) ->
    forall (lines : list L) (tail : Z), short_lines llen lines tail ->
    forall script, delivered script = input_len L llen lines tail -> fails script = true ->
    forall r x, drive_stream L llen PS init_ps recog bump lineno lines tail script = Ret (r, x) ->
    forall p, r <> ROk p.
Proof.
  intros L llen PS init_ps recog bump lineno Hl lines tail Hs script Hd Hf r x H p.
  destruct (stream_is_spec L llen PS init_ps recog bump lineno Hl lines tail Hs script Hd) as [x' E].
  rewrite H in E. inversion E as [[E1 E2]]. unfold spec_stream. rewrite Hf.
  destruct (fold_recog L PS recog lineno init_ps lines) as [q|[c ln]]; discriminate.
Qed.

(* bodies that deliver the same input without failing give the same outcome, however they cut it
   into chunks and wherever they put empty chunks *)
Lemma stream_two_scripts :
  forall (L : Type) (llen : L -> Z) (PS : Type) (init_ps : PS)
         (recog : PS -> L -> PS + Z) (bump : PS -> PS) (lineno : PS -> Z),
    (forall l, 1 <= llen l) ->
    forall (lines : list L) (tail : Z), short_lines llen lines tail ->
    forall s1 s2, delivered s1 = input_len L llen lines tail -> delivered s2 = input_len L llen lines tail ->
    fails s1 = false -> fails s2 = false ->
    forall r1 x1 r2 x2,
    drive_stream L llen PS init_ps recog bump lineno lines tail s1 = Ret (r1, x1) ->
    drive_stream L llen PS init_ps recog bump lineno lines tail s2 = Ret (r2, x2) ->
    r1 = r2 /\ r1 = spec L PS init_ps recog lineno lines tail.
Proof.
  intros L llen PS init_ps recog bump lineno Hl lines tail Hs s1 s2 D1 D2 F1 F2 r1 x1 r2 x2 H1 H2.
  destruct (stream_is_spec L llen PS init_ps recog bump lineno Hl lines tail Hs s1 D1) as [y1 E1].
  destruct (stream_is_spec L llen PS init_ps recog bump lineno Hl lines tail Hs s2 D2) as [y2 E2].
  rewrite H1 in E1. rewrite H2 in E2. inversion E1. inversion E2. unfold spec_stream. rewrite F1, F2. split; reflexivity.
Qed.
