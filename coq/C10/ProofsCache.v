(* C10/ProofsCache.v — appending an `INFO URL <u>` line to an accepted input gives the same symbol
   table with url = u (the parser contract that C16 assumes). *)
From Coq Require Import Lia ZArith List Bool.
From RM Require Import Base.Word C08.Model C11.Model C09.Model C09.Grammar C09.Driver C09.Proofs C09.ProofsBytes C10.Model C10.Proofs.
Import ListNotations.
Open Scope Z_scope.

(* ------------------------------------------------------------------ bytes *)
Lemma split_bytes_app : forall a c cur,
  split_bytes (a ++ c) cur =
  let '(ls, tl) := split_bytes a cur in
  let '(ls', tl') := split_bytes c (rev tl) in (ls ++ ls', tl').
Proof.
  induction a as [|x a IH]; intros c cur; cbn [app split_bytes].
  - rewrite rev_involutive. destruct (split_bytes c cur); reflexivity.
  - destruct (x =? 10).
    + rewrite IH. destruct (split_bytes a []) as [ls tl]. destruct (split_bytes c (rev tl)); reflexivity.
    + apply IH.
Qed.

Lemma split_bytes_line : forall l cur, Forall (fun b => b <> 10) l ->
  split_bytes (l ++ [10]) cur = ([rev cur ++ l], []).
Proof.
  induction l as [|x l IH]; intros cur H; cbn [app split_bytes].
  - cbn. rewrite app_nil_r. reflexivity.
  - inversion H; subst. destruct (x =? 10) eqn:E; [apply Z.eqb_eq in E; contradiction|].
    rewrite IH by assumption. cbn [rev]. rewrite <- app_assoc. reflexivity.
Qed.

Lemma ends_nl_split : forall b cur f, (f = true <-> cur = []) ->
  (ends_nl_from f b = true <-> snd (split_bytes b cur) = []).
Proof.
  induction b as [|x b IH]; intros cur f Hf; cbn [ends_nl_from split_bytes snd].
  - rewrite Hf. split; intros H.
    + subst. reflexivity.
    + destruct cur; [reflexivity|]. cbn [rev] in H. apply app_eq_nil in H. destruct H; discriminate.
  - destruct (x =? 10) eqn:E.
    + destruct (split_bytes b []) as [ls tl] eqn:S. cbn [snd].
      specialize (IH [] true ltac:(split; reflexivity)). rewrite S in IH. exact IH.
    + apply IH. split; intros H; discriminate.
Qed.

(* ------------------------------------------------------------------ strings *)
Lemma rle_expand_app : forall a b, rle_expand (a ++ b) = rle_expand a ++ rle_expand b.
Proof. induction a as [|[x c] a IH]; intros b; cbn [app rle_expand]; [reflexivity|]. rewrite IH, app_assoc. reflexivity. Qed.

Lemma rle_expand_to_rle : forall u, rle_expand (to_rle u) = u.
Proof. induction u as [|x u IH]; cbn; [reflexivity|]. unfold to_rle in IH. rewrite IH. reflexivity. Qed.

Lemma rev_append_rev : forall (A : Type) (a b : list A), rev_append a b = rev a ++ b.
Proof. intros. apply rev_append_rev. Qed.

Lemma rle_norm_acc_expand : forall s acc, Forall (fun r => 1 <= snd r) acc ->
  rle_expand (rle_norm_acc s acc) = rle_expand (rev acc) ++ rle_expand s.
Proof.
  induction s as [|[b c] s IH]; intros acc Hacc; cbn [rle_norm_acc rle_expand].
  - rewrite rev_append_rev, !app_nil_r. reflexivity.
  - destruct acc as [|[b0 c0] acc'].
    + rewrite IH by (constructor; [cbn; lia|constructor]). cbn [rev app rle_expand].
      replace (Z.max 1 (Z.max 1 c)) with (Z.max 1 c) by lia. rewrite app_nil_r. reflexivity.
    + inversion Hacc as [|x y H0 Hacc']; subst. cbn [snd] in H0.
      destruct (b0 =? b) eqn:E.
      * apply Z.eqb_eq in E. subst b0. rewrite IH by (constructor; [cbn; lia|assumption]).
        cbn [rev]. rewrite !rle_expand_app. cbn [rle_expand]. rewrite !app_nil_r, <- !app_assoc. f_equal.
        rewrite app_assoc. f_equal.
        replace (Z.max 1 (c0 + Z.max 1 c)) with (c0 + Z.max 1 c) by lia.
        replace (Z.max 1 c0) with c0 by lia.
        rewrite Z2Nat.inj_add by lia. rewrite repeat_app. reflexivity.
      * rewrite IH by (constructor; [cbn; lia|assumption]).
        cbn [rev]. rewrite !rle_expand_app. cbn [rle_expand]. rewrite !app_nil_r, <- !app_assoc.
        replace (Z.max 1 (Z.max 1 c)) with (Z.max 1 c) by lia. reflexivity.
Qed.

Lemma rle_norm_expand : forall s, rle_expand (rle_norm s) = rle_expand s.
Proof. intros s. unfold rle_norm. rewrite rle_norm_acc_expand by constructor. reflexivity. Qed.

(* ------------------------------------------------------------------ the INFO URL line *)
Definition urlline (u : list Z) : rle := to_rle (INFO_URL_SP ++ u).

Lemma skip_sp_to_rle : forall u, match u with b :: _ => is_sp b = false | [] => True end ->
  skip_while is_sp (to_rle u) = to_rle u.
Proof. intros [|b u] H; cbn; [reflexivity|]. rewrite H. reflexivity. Qed.

Lemma span_acc_none : forall stop s acc, Forall (fun r => stop (fst r) = false) s ->
  span_acc stop s acc = (rev acc ++ s, []).
Proof.
  induction s as [|[b c] s IH]; intros acc H; cbn [span_acc].
  - rewrite rev_append_rev, !app_nil_r. reflexivity.
  - inversion H; subst. cbn [fst] in *. rewrite H2. rewrite IH by assumption. cbn [rev]. rewrite <- app_assoc. reflexivity.
Qed.

Lemma name_eol_url : forall u, url_ok u -> name_eol (to_rle u) = Some (rle_norm (to_rle u)).
Proof.
  intros u [Hnl [Hutf _]]. unfold name_eol, span_not.
  rewrite span_acc_none.
  - cbn [rev app]. rewrite Hutf. reflexivity.
  - unfold to_rle. apply Forall_map. eapply Forall_impl; [|exact Hnl]. cbn. intros a [_ Ha].
    unfold is_cr. apply Z.eqb_neq. exact Ha.
Qed.

Lemma line_top_url : forall u, url_ok u -> line_top (urlline u) = Some (IUrl (rle_norm (to_rle u))).
Proof.
  intros u Hu. unfold line_top, alt, p_info_url, hdr, urlline, INFO_URL_SP, T_INFO_URL.
  cbn [app to_rle map tag uncons fst snd]. cbn.
  destruct Hu as [H1 [H2 H3]].
  change (map (fun b : Z => (b, 1)) u) with (to_rle u).
  rewrite (skip_sp_to_rle u H3). rewrite (name_eol_url u (conj H1 (conj H2 H3))). reflexivity.
Qed.

Lemma sub_func_url : forall u, sub_func (urlline u) = None.
Proof. intros u. unfold sub_func, urlline, INFO_URL_SP. cbn. reflexivity. Qed.

Lemma sub_cfi_url : forall u, sub_cfi (urlline u) = None.
Proof. intros u. unfold sub_cfi, hdr, urlline, INFO_URL_SP. cbn. reflexivity. Qed.

Lemma eol_url : forall u, eol (urlline u) = false.
Proof. intros u. unfold eol, urlline, INFO_URL_SP. cbn. reflexivity. Qed.

(* the state after the INFO URL line: the open item is closed, the url is set *)
Definition with_url (p : pst) (u : rle) : pst :=
  let q := close_cur p in
  mkp (p_lines q + 1) CNone (p_modinfo q) (p_files q) (p_origins q) (p_publics q) (p_funcs q) (p_cfis q)
      (p_win_fd q) (p_win_fpo q) (Some u).

Lemma top_url : forall p u, url_ok u -> p_cur p = CNone ->
  top p (urlline u) = inl (with_url p (rle_norm (to_rle u))).
Proof.
  intros p u Hu Hc. unfold top. rewrite eol_url, (line_top_url u Hu).
  unfold with_url, close_cur. rewrite Hc. reflexivity.
Qed.

Lemma close_cur_none : forall p, p_cur (close_cur p) = CNone.
Proof. intros p. unfold close_cur. destruct (p_cur p) eqn:E; [exact E|reflexivity|reflexivity]. Qed.

Lemma close_cur_idem : forall p, close_cur (close_cur p) = close_cur p.
Proof. intros p. unfold close_cur at 1. rewrite close_cur_none. reflexivity. Qed.

Lemma recog_url : forall p u, url_ok u ->
  recog_pst p (urlline u) = inl (with_url p (rle_norm (to_rle u))).
Proof.
  intros p u Hu. unfold recog_pst. destruct (p_cur p) eqn:E.
  - apply top_url; assumption.
  - rewrite sub_func_url. rewrite (top_url (close_cur p) u Hu (close_cur_none p)).
    unfold with_url. rewrite close_cur_idem. reflexivity.
  - rewrite sub_cfi_url. rewrite (top_url (close_cur p) u Hu (close_cur_none p)).
    unfold with_url. rewrite close_cur_idem. reflexivity.
Qed.

Lemma finish_with_url : forall p u t, finish p = Ret t -> finish (with_url p u) = Ret (set_url t (Some u)).
Proof.
  intros p u t H. unfold finish in *. unfold with_url.
  set (q := close_cur p) in *.
  change (close_cur (mkp (p_lines q + 1) CNone (p_modinfo q) (p_files q) (p_origins q) (p_publics q)
                         (p_funcs q) (p_cfis q) (p_win_fd q) (p_win_fpo q) (Some u)))
    with (mkp (p_lines q + 1) CNone (p_modinfo q) (p_files q) (p_origins q) (p_publics q)
              (p_funcs q) (p_cfis q) (p_win_fd q) (p_win_fpo q) (Some u)).
  cbn [p_funcs p_cfis p_win_fd p_win_fpo p_modinfo p_files p_origins p_publics p_url].
  destruct (finish_funcs (rev (p_funcs q))) as [fl| | |]; cbn [obind] in *; try discriminate.
  destruct (build_p sfunc_eqb fl) as [funcs| | |]; cbn [obind] in *; try discriminate.
  destruct (build_p scfi_eqb (keep_somes (map finish_cfi (rev (p_cfis q))))) as [cfis| | |]; cbn [obind] in *; try discriminate.
  destruct (win_collect [] (rev (p_win_fd q))) as [wfd| | |]; cbn [obind] in *; try discriminate.
  destruct (build_p wi_eqb wfd) as [tfd| | |]; cbn [obind] in *; try discriminate.
  destruct (win_collect [] (rev (p_win_fpo q))) as [wfpo| | |]; cbn [obind] in *; try discriminate.
  destruct (build_p wi_eqb wfpo) as [tfpo| | |]; cbn [obind] in *; try discriminate.
  inversion H; subst. reflexivity.
Qed.

(* ------------------------------------------------------------------ the contract *)
Lemma spec_c_ok_inv : forall lines tail p, spec_c lines tail = ROk p ->
  fold_recog rle pst recog_pst lineno_pst init_pst lines = inl p /\ lines <> [] /\ (0 <? tail) = false.
Proof.
  intros lines tail p H. unfold spec_c, spec in H.
  destruct (fold_recog rle pst recog_pst lineno_pst init_pst lines) as [p0|[c ln]]; [|discriminate].
  destruct lines as [|l t]; [discriminate|]. destruct (0 <? tail) eqn:E; [discriminate|].
  inversion H; subst. repeat split; discriminate || reflexivity.
Qed.

Theorem cached_form_parse : forall b u t x,
  url_ok u -> parse_bytes b = Some (t, x) -> parse_bytes (cached_form b u) = Some (t, Some u).
Proof.
  intros b u t x Hu H. unfold parse_bytes in H.
  destruct (split_bytes b []) as [ls tl] eqn:S.
  destruct (spec_c (map to_rle ls) (Z.of_nat (length tl))) as [p|c ln] eqn:Sp; [|discriminate].
  destruct (finish p) as [t0| | |] eqn:F; try discriminate. inversion H; subst t x; clear H.
  destruct (spec_c_ok_inv _ _ _ Sp) as [Hfold [Hne Htl]].
  assert (tl = []).
  { destruct tl; [reflexivity|]. cbn [length] in Htl. apply Z.ltb_ge in Htl. lia. }
  subst tl.
  assert (Hend : ends_nl b = true).
  { unfold ends_nl. apply (ends_nl_split b [] true); [split; reflexivity|]. rewrite S. reflexivity. }
  unfold cached_form, nl_sep. rewrite Hend. cbn [app]. unfold url_trailer.
  replace (INFO_URL_SP ++ u ++ [10]) with ((INFO_URL_SP ++ u) ++ [10]) by (rewrite <- app_assoc; reflexivity).
  unfold parse_bytes. rewrite split_bytes_app, S. cbn [rev].
  rewrite split_bytes_line.
  2:{ apply Forall_app. split.
      - unfold INFO_URL_SP. repeat constructor; discriminate.
      - destruct Hu as [Hnl _]. eapply Forall_impl; [|exact Hnl]. cbn. intros a [Ha _]. exact Ha. }
  cbn [rev app length]. rewrite map_app. cbn [map].
  change (to_rle (INFO_URL_SP ++ u)) with (urlline u).
  unfold spec_c, spec. rewrite (fold_recog_app rle pst recog_pst lineno_pst), Hfold.
  cbn [fold_recog]. rewrite (recog_url p u Hu).
  destruct (map to_rle ls ++ [urlline u]) as [|l0 r0] eqn:E; [apply app_eq_nil in E; destruct E; discriminate|].
  cbn [Z.of_nat Z.ltb Z.compare].
  rewrite (finish_with_url p _ t0 F). cbn [set_url t_url t_module_id t_debug_file t_files t_origins t_publics t_funcs t_cfi t_win_fd t_win_fpo option_map].
  rewrite rle_norm_expand, rle_expand_to_rle. reflexivity.
Qed.

(* what an INFO URL record inside the body means: the url of the LAST such record is the table's url
   (each one overwrites the previous); the appended line therefore always wins. *)
Lemma url_last_wins : forall p u1 u2, url_ok u2 ->
  p_url (with_url (with_url p u1) (rle_norm (to_rle u2))) = Some (rle_norm (to_rle u2)).
Proof. intros. reflexivity. Qed.

(* the concrete instance of chunk independence, on tables *)
Lemma table_chunk_independent : forall (lines : list rle) (tail : Z),
  short_lines cllen lines tail ->
  forall sch, exists r s, drive_c lines tail sch = Ret (r, s) /\ r = spec_c lines tail /\
                          table_of r = table_of (spec_c lines tail).
Proof.
  intros lines tail Hs sch.
  destruct (drive_is_spec rle cllen pst init_pst recog_pst bump_pst lineno_pst cllen_pos lines tail Hs sch) as [s E].
  exists (spec_c lines tail), s. split; [exact E|]. split; reflexivity.
Qed.
