(* C10/Proofs.v — chunk independence: under [short_lines] the driver never enters recovery and
   its outcome is [spec], whatever the schedule. *)
From Coq Require Import Lia ZArith List Bool.
From RM Require Import Base.Word C09.Model C09.Proofs C10.Model.
Import ListNotations.
Open Scope Z_scope.

Ltac Zify.zify_post_hook ::= Z.div_mod_to_equations.

Section CI.
  Variable L : Type.
  Variable llen : L -> Z.
  Variable PS : Type.
  Variable init_ps : PS.
  Variable recog : PS -> L -> PS + Z.
  Variable bump : PS -> PS.
  Variable lineno : PS -> Z.
  Hypothesis llen_pos : forall l, 1 <= llen l.
  Variable lines : list L.
  Variable t0 : Z.
  Hypothesis short : short_lines llen lines t0.

  Local Notation tail := (Z.max 0 t0).
  Local Notation ilen := (input_len L llen lines t0).
  Local Notation St := (st L PS).
  Local Notation step := (step L llen PS recog bump lineno).
  Local Notation parse_phase := (parse_phase L llen PS recog lineno).
  Local Notation pm := (pm L llen PS recog lineno).
  Local Notation size := (size L llen).
  Local Notation fold_recog := (fold_recog L PS recog lineno).
  Local Notation replay := (replay L PS recog bump lineno).
  Local Notation spec := (spec L PS init_ps recog lineno).
  Local Notation WF := (WF L llen PS init_ps recog bump lineno tail ilen lines).
  Local Notation WFm := (WFm L llen PS init_ps recog bump lineno tail ilen lines).
  Local Notation Fin := (Fin L llen PS init_ps recog bump lineno tail ilen lines).
  Local Notation size_nonneg := (size_nonneg L llen PS init_ps recog bump lineno llen_pos).

  Definition fed (d : bool * L) : Prop := fst d = false.

  Record CI (s : St) : Prop := {
    ci_wf : WF s;
    ci_pr : pr s = false;
    ci_fc1 : fc s = true -> log s <> [];
    ci_fc0 : fc s = false -> avail (buf s) <> 0 \/ total s = 0;
    ci_fed : Forall fed (log s)
  }.

  Lemma replay_fed_all : forall ds p, Forall fed ds -> replay p ds = fold_recog p (map snd ds).
  Proof.
    induction ds as [|[d l] t IH]; intros p H; cbn [map snd Model.replay Model.fold_recog]; [reflexivity|].
    inversion H as [|x y Hd Ht]; subst. unfold fed in Hd. cbn [fst] in Hd. subst d.
    destruct (recog p l); [apply IH; exact Ht|reflexivity].
  Qed.

  Lemma size_zero_nil : forall ls, size ls = 0 -> ls = [].
  Proof.
    intros [|l t] H; [reflexivity|]. cbn [Model.size] in H. pose proof (llen_pos l). pose proof (size_nonneg t). lia.
  Qed.

  Lemma in_lines_short : forall a l b, lines = a ++ l :: b -> llen l <= HALF_CAP.
  Proof.
    intros a l b H. destruct short as [S _]. rewrite H in S. apply Forall_app in S. destruct S as [_ S].
    inversion S; assumption.
  Qed.

  Lemma parse_phase_ci : forall s2 s', geom (buf s2) -> off s2 = 0 -> pr s2 = false -> 0 < avail (buf s2) ->
    Forall fed (log s2) -> parse_phase s2 = Next s' ->
    pr s' = false /\ (fc s' = true -> log s' <> []) /\ (fc s' = false -> avail (buf s') <> 0) /\ Forall fed (log s').
  Proof.
    intros s s' Wg Hoff Hpr Hav Hfed H.
    unfold Model.parse_phase in H. rewrite Hpr, (geom_ok_true _ Wg) in H. cbn [negb] in H.
    rewrite Hoff in H. cbn [Z.eqb negb] in H.
    destruct (pm (avail (buf s)) (ps s) (rest s) 0 (log s)) as [[[[p' r'] c'] lg']|[c ln]] eqn:P; [|discriminate].
    inversion H; subst s'; clear H.
    apply (pm_inl L llen PS recog bump lineno llen_pos) in P; [|lia].
    destruct P as [tk [H1 [H2 [H3 [H4 [H5 [H6 H7]]]]]]].
    pose proof (size_nonneg tk) as Hsz.
    assert (K : 0 <= c' <= avail (buf s)) by lia.
    destruct (consume_spec (buf s) c' Wg K) as [G [A [C [P E]]]].
    cbn [fc log buf pr]. split; [reflexivity|]. split; [|split].
    - intros Hf. apply Z.eqb_eq in Hf. destruct tk as [|l t]; [cbn [Model.size] in H2; lia|].
      rewrite H4. cbn [map rev]. intros Hn. apply app_eq_nil in Hn. destruct Hn as [Hn _].
      apply app_eq_nil in Hn. destruct Hn as [_ Hn]. discriminate.
    - intros Hf. apply Z.eqb_neq in Hf. rewrite A. lia.
    - rewrite H4. apply Forall_app. split; [|exact Hfed]. apply Forall_rev. apply Forall_map.
      apply Forall_forall. intros x _. reflexivity.
  Qed.

  Lemma parse_phase_done : forall s2 r s', pr s2 = false -> parse_phase s2 = Done r s' ->
    exists c tk l r' p1,
      r = RErr c (lineno p1) /\ rest s2 = tk ++ l :: r' /\ fold_recog (ps s2) tk = inl p1 /\ recog p1 l = inr c.
  Proof.
    intros s r s' Hpr H. unfold Model.parse_phase in H. rewrite Hpr in H.
    destruct (negb (geom_ok (buf s))); [discriminate|].
    destruct (negb (off s =? 0)); [discriminate|].
    destruct (pm (avail (buf s)) (ps s) (rest s) 0 (log s)) as [[[[p' r1] c'] lg']|[c ln]] eqn:P; [discriminate|].
    inversion H; subst. apply (pm_inr L llen PS recog bump lineno llen_pos) in P.
    destruct P as [tk [l [r' [p1 [H1 [H2 [H3 [H4 H5]]]]]]]]. cbn [fst snd] in *.
    exists c, tk, l, r', p1. subst ln. repeat split; assumption.
  Qed.

  (* how [spec] is computed from a state that has disposed of [rev (log s)] *)
  Lemma spec_of_fold : forall s, WFm s -> Forall fed (log s) ->
    fold_recog init_ps (map snd (rev (log s))) = inl (ps s).
  Proof.
    intros s W Hf. rewrite <- replay_fed_all; [exact (wf_replay _ _ _ _ _ _ _ _ _ _ _ W)|]. apply Forall_rev. exact Hf.
  Qed.

  Lemma spec_err : forall s c tk l r' p1, WFm s -> Forall fed (log s) ->
    rest s = tk ++ l :: r' -> fold_recog (ps s) tk = inl p1 -> recog p1 l = inr c ->
    spec lines t0 = RErr c (lineno p1).
  Proof.
    intros s c tk l r' p1 W Hf Hr H1 H2. pose proof (spec_of_fold s W Hf) as Hs.
    unfold Model.spec. rewrite (wf_lines _ _ _ _ _ _ _ _ _ _ _ W), Hr.
    rewrite (fold_recog_app L PS recog lineno), Hs.
    rewrite (fold_recog_err L PS recog lineno tk l r' (ps s) p1 c H1 H2). reflexivity.
  Qed.

  Lemma ci_step : forall s, CI s ->
    match step s with
    | Next s' => CI s'
    | Done r s' => r = spec lines t0
    | StPanic _ => False
    end.
  Proof.
    intros s [W Hpr Hf1 Hf0 Hfed].
    pose proof (step_wf L llen PS init_ps recog bump lineno llen_pos tail ltac:(lia) ilen lines s W) as SW.
    pose proof (wf_m _ _ _ _ _ _ _ _ _ _ _ W) as Wm. pose proof Wm as Wm0.
    pose proof (wf_jf _ _ _ _ _ _ _ _ _ _ _ W Hpr) as Hjf.
    pose proof (wf_partial _ _ _ _ _ _ _ _ _ _ _ W Hpr) as Hpart.
    pose proof (wf_fc _ _ _ _ _ _ _ _ _ _ _ W Hpr) as Hfca.
    destruct Wm as [Wg Wc Wh [Wo1 Wo2] Wa Ws Wu Wpo Wpc Wtg Wcb Wms Wt Wpl Wl Wr Wd].
    specialize (Wpo Hpr).
    revert SW. unfold Model.step. rewrite (geom_ok_true _ Wg). cbn [negb]. rewrite andb_false_r, Hpr.
    unfold Model.step_rest, Model.step_after_read. rewrite (geom_ok_true _ Wg). cbn [negb].
    assert (Hsp : 0 <= space (buf s)) by (destruct Wg as [? [? ?]]; unfold space; lia).
    assert (Hav : 0 <= avail (buf s)) by (destruct Wg as [? [? ?]]; unfold avail; lia).
    destruct (read_n L PS (space (buf s)) s) as [n sch'] eqn:R.
    destruct (read_n_spec L PS init_ps recog bump lineno _ _ _ _ R Hsp Wu) as [Hn1 [Hn2 Hn0]].
    destruct (fill_spec (buf s) n Wg Hn1) as [G [A [C [P E]]]].
    pose proof (caps_bounds L PS init_ps recog bump lineno _ Wc) as Hcb.
    destruct short as [Sl St].
    destruct (n =? 0) eqn:En.
    - apply Z.eqb_eq in En. subst n. cbn [jf fc tg total ps buf]. rewrite Hjf. cbn [andb].
      destruct (fc s) eqn:Efc.
      + (* Ok *)
        intros [W' [_ [Fa [Fu _]]]]. cbn [buf unread] in Fa, Fu.
        assert (Hrest : rest s = []).
        { destruct (rest s) as [|l t]; [reflexivity|]. cbn [Model.size] in Wa. pose proof (size_nonneg t).
          pose proof (llen_pos l). rewrite A in Fa. lia. }
        rewrite Hrest in *. cbn [Model.size] in Wa. rewrite app_nil_r in Wl.
        unfold Model.spec. rewrite Wl. rewrite (spec_of_fold s Wm0 Hfed).
        specialize (Hf1 eq_refl).
        destruct (map snd (rev (log s))) as [|l t] eqn:Em.
        { exfalso. apply Hf1. apply map_eq_nil in Em. destruct (log s); [reflexivity|].
          cbn [rev] in Em. apply app_eq_nil in Em. destruct Em; discriminate. }
        replace (0 <? t0) with false by (symmetry; apply Z.ltb_ge; rewrite A in Fa; lia).
        reflexivity.
      + destruct ((space (buf s) =? 0) && negb (tg s)) eqn:Eb.
        * apply andb_true_iff in Eb. destruct Eb as [Eb1 Eb2]. apply Z.eqb_eq in Eb1.
          destruct (MAX_CAP <? Z.min (b_cap (fill (buf s) 0) * 2) U64MAX) eqn:Em.
          -- (* recovery cannot start: the unparsed part would have to be >= 80 KiB *)
             exfalso. apply Z.ltb_lt in Em. rewrite C in Em. unfold MAX_CAP, U64MAX in Em.
             assert (Hc : b_cap (buf s) = 163840) by (unfold caps in Wc; lia).
             unfold partial in Hpart. unfold space, avail in *. destruct Wg as [? [? ?]].
             destruct (rest s) as [|l t] eqn:Er.
             ++ cbn [Model.size] in Wa. unfold HALF_CAP in St. lia.
             ++ pose proof (in_lines_short _ _ _ Wl). unfold HALF_CAP in *. lia.
          -- (* grow *)
             intros [W' _]. constructor.
             ++ exact W'.
             ++ cbn [set_buf_tg pr]. exact Hpr.
             ++ cbn [set_buf_tg fc log]. intros Q; congruence.
             ++ cbn [set_buf_tg fc buf total]. intros _.
                apply Z.ltb_ge in Em. rewrite C in Em. unfold MAX_CAP, U64MAX in Em.
                unfold grow. rewrite C.
                replace (Z.min (b_cap (buf s) * 2) U64MAX <=? b_cap (buf s)) with false
                  by (symmetry; apply Z.leb_gt; unfold U64MAX; lia).
                unfold avail in *. cbn [b_pos b_end]. destruct (Hf0 eq_refl) as [Q|Q]; [left; lia|right; exact Q].
             ++ cbn [set_buf_tg log]. exact Hfed.
        * (* end of input with a partial line (or nothing at all) left *)
          intros _.
          assert (Hu : unread s = 0).
          { apply andb_false_iff in Eb. destruct Eb as [Eb|Eb].
            - apply Z.eqb_neq in Eb. lia.
            - apply negb_false_iff in Eb. specialize (Wtg Eb). unfold space in *. lia. }
          assert (Hrest : rest s = []).
          { unfold partial in Hpart. destruct (rest s) as [|l t]; [reflexivity|]. cbn [Model.size] in Wa.
            pose proof (size_nonneg t). lia. }
          rewrite Hrest in *. cbn [Model.size] in Wa. rewrite app_nil_r in Wl.
          unfold Model.spec. rewrite Wl. rewrite (spec_of_fold s Wm0 Hfed).
          destruct (total s =? 0) eqn:Et.
          -- apply Z.eqb_eq in Et.
             assert (Hlog : map snd (rev (log s)) = []).
             { apply size_zero_nil. pose proof (size_nonneg (map snd (rev (log s)))). lia. }
             rewrite Hlog. reflexivity.
          -- apply Z.eqb_neq in Et.
             destruct (map snd (rev (log s))) as [|l t] eqn:Em; [cbn [Model.size] in Wt; lia|].
             replace (0 <? t0) with true; [reflexivity|]. symmetry. apply Z.ltb_lt.
             destruct (Hf0 eq_refl) as [Q|Q]; [lia|contradiction].
    - (* n > 0 *)
      apply Z.eqb_neq in En. unfold set_tg. cbn [buf fc tg pr jf total ps rest off unread sched ncb cbsum nrd maxsp log].
      set (s2 := mkst (fill (buf s) n) (fc s) false (pr s) (jf s) (total s) (ps s) (rest s) (off s)
                      (unread s - n) sch' (ncb s) (cbsum s) (nrd s + 1)
                      (Z.max (maxsp s) (space (buf s))) (log s)).
      assert (Hp2 : pr s2 = false) by exact Hpr.
      destruct (parse_phase s2) as [s'|r s'|t] eqn:PP.
      + intros [W' _].
        destruct (parse_phase_ci s2 s' G Wpo Hp2 ltac:(subst s2; cbn [buf]; lia) Hfed PP) as [Q1 [Q2 [Q3 Q4]]].
        constructor; try assumption. intros Q. left. exact (Q3 Q).
      + intros _. destruct (parse_phase_done s2 r s' Hp2 PP) as [c [tk [l [r' [p1 [Q1 [Q2 [Q3 Q4]]]]]]]].
        subst r. symmetry. exact (spec_err s c tk l r' p1 Wm0 Hfed Q2 Q3 Q4).
      + intros F. exact F.
  Qed.

  Local Notation iter_nat := (iter_nat L llen PS recog bump lineno).
  Local Notation init_st := (init_st L llen PS init_ps).
  Local Notation drive := (drive L llen PS init_ps recog bump lineno).

  Lemma ci_run : forall n s r s', CI s -> iter_nat n s = Done r s' -> r = spec lines t0.
  Proof.
    induction n as [|n IH]; intros s r s' H R; cbn [Proofs.iter_nat] in R; [discriminate|].
    pose proof (ci_step s H) as CS. destruct (step s) as [s1|r1 s1|t].
    - eapply IH; eauto.
    - injection R as R1 R2. rewrite <- R1. exact CS.
    - contradiction.
  Qed.

  Lemma ci_init : forall sch, CI (init_st lines t0 sch).
  Proof.
    intros sch. constructor.
    - apply init_wf'. exact llen_pos.
    - reflexivity.
    - cbn [Model.init_st fc]. discriminate.
    - intros _. right. reflexivity.
    - constructor.
  Qed.

  Lemma drive_is_spec : forall sch, exists s, drive lines t0 sch = Ret (spec lines t0, s).
  Proof.
    intros sch.
    destruct (drive_fin L llen PS init_ps recog bump lineno llen_pos lines t0 sch) as [r [s [H _]]].
    exists s. rewrite H. f_equal. f_equal.
    unfold Model.drive in H. rewrite iter_pos_nat in H.
    destruct (iter_nat (Pos.to_nat (fuel_for L llen lines t0)) (init_st lines t0 sch)) as [s1|r1 s1|t] eqn:E;
      try discriminate.
    inversion H; subst. eapply ci_run; [apply ci_init|exact E].
  Qed.
  Lemma two_schedules : forall (s1 s2 : list Z) r1 st1 r2 st2,
    drive lines t0 s1 = Ret (r1, st1) -> drive lines t0 s2 = Ret (r2, st2) -> r1 = r2.
  Proof.
    intros s1 s2 r1 st1 r2 st2 H1 H2.
    destruct (drive_is_spec s1) as [x1 E1]. destruct (drive_is_spec s2) as [x2 E2].
    rewrite H1 in E1. rewrite H2 in E2. inversion E1. inversion E2. reflexivity.
  Qed.
End CI.
