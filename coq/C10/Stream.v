(* C10/Stream.v — SymbolFile::parse_async as a model of its own: the loop of C09/Model.v fed by the
   body of a reqwest::Response.  Definitions only (this file is extracted).

   The body is a script of events, in the order in which `response.chunk().await` produces them:
   [SChunk n] = Ok(Some(bytes)) with n bytes (n <= 0: an EMPTY chunk), [SFail] = Err(_); when the script is
   used up the body has ended: Ok(None), again and again.  The refill block of parse_async (since the F-C10c fix)

       if input_reader.is_empty() {
           chunk = loop { match response.chunk().await.map_err(io::Error::other)? {
                              Some(bytes) if bytes.is_empty() => continue,
                              next => break next.unwrap_or_default() } };
           slice = &chunk[..]; input_reader = &mut slice; }

   is [refill]: skip empty chunks; `?` on a failed chunk ends parse_async with SymbolError::LoadError (result
   code 8 here); the end of the body gives the empty slice.  Its guard and its two arms are regenerated from the
   source by translate/c10_stream.py (coq/Gen/C10Stream.v) and proved to be the ones used here (ProofsStream.v).
   Everything else in the loop body is C09's [recovery] / [step_after_read], shared with [step] (parse). *)
From Coq Require Import ZArith List Bool.
From RM Require Import Base.Word C09.Model.
Import ListNotations.
Open Scope Z_scope.

Inductive sev := SChunk (n : Z) | SFail.

(* result code of `Err(SymbolError::LoadError(_))`: the body failed *)
Definition LOAD_ERROR : Z := 8.

(* the `loop { match response.chunk() ... }`: first non-empty chunk and what is left of the script,
   [Some (0, [])] at the end of the body, [None] when the body fails first *)
Fixpoint next_chunk (pend : list sev) : option (Z * list sev) :=
  match pend with
  | [] => Some (0, [])
  | SChunk n :: t => if n <=? 0 then next_chunk t else Some (n, t)
  | SFail :: _ => None
  end.

(* `if input_reader.is_empty() { ... }`: [cur] bytes are left in the current slice *)
Definition refill (cur : Z) (pend : list sev) : option (Z * list sev) :=
  if cur <=? 0 then next_chunk pend else Some (cur, pend).

Section Stream.
  Variable L : Type.
  Variable llen : L -> Z.
  Variable PS : Type.
  Variable init_ps : PS.
  Variable recog : PS -> L -> PS + Z.
  Variable bump : PS -> PS.
  Variable lineno : PS -> Z.

  (* the loop state of C09 (its reader fields: [sched] unused = [], [unread] = bytes of the input not yet
     in the buffer) + the reader of parse_async *)
  Record sst := mk_sst {
    core : st L PS;
    cur : Z;                (* bytes left in `slice` *)
    pend : list sev         (* what the body will still produce *)
  }.

  Inductive sres :=
  | SNext (x : sst)
  | SDone (r : result PS) (x : sst)
  | SPanic (tag : Z).

  Definition wrap (c : Z) (p : list sev) (r : stepres L PS) : sres :=
    match r with
    | Next s => SNext (mk_sst s c p)
    | Done res s => SDone res (mk_sst s c p)
    | StPanic t => SPanic t
    end.

  (* one iteration of parse_async's `loop { ... }` *)
  Definition step_stream (x : sst) : sres :=
    let s0 := core x in
    if pr s0 && negb (geom_ok (buf s0)) then SPanic 2 else
    let s1 := if pr s0 then recovery L llen PS bump s0 else s0 in
    match refill (cur x) (pend x) with
    | None => SDone (RErr LOAD_ERROR 0) (mk_sst s1 0 [])          (* `?` *)
    | Some (c1, pend1) =>
        let b := buf s1 in
        if negb (geom_ok b) then SPanic 1 else
        let sp := space b in
        let n := Z.max 0 (Z.min sp c1) in                          (* <&[u8] as Read>::read(buf.space()) *)
        wrap (c1 - n) pend1 (step_after_read L llen PS recog lineno n [] sp s1)
    end.

  Fixpoint iter_stream (p : positive) (x : sst) : sres :=
    match p with
    | xH => step_stream x
    | xO q => match iter_stream q x with SNext x1 => iter_stream q x1 | r => r end
    | xI q => match step_stream x with
              | SNext x1 => match iter_stream q x1 with SNext x2 => iter_stream q x2 | r => r end
              | r => r
              end
    end.

  (* the bytes the body delivers: everything before the first failure *)
  Fixpoint delivered (pend : list sev) : Z :=
    match pend with
    | [] => 0
    | SChunk n :: t => Z.max 0 n + delivered t
    | SFail :: _ => 0
    end.

  Fixpoint fails (pend : list sev) : bool :=
    match pend with
    | [] => false
    | SChunk _ :: t => fails t
    | SFail :: _ => true
    end.

  (* `slice = &[][..]` before the loop; the input IS what the body delivers *)
  Definition init_stream (lines : list L) (tail : Z) (script : list sev) : sst :=
    mk_sst (init_st L llen PS init_ps lines tail []) 0 script.

  Definition drive_stream (lines : list L) (tail : Z) (script : list sev) : outcome (result PS * sst) :=
    match iter_stream (fuel_for L llen lines tail) (init_stream lines tail script) with
    | SNext _ => OutOfFuel
    | SDone r x => Ret (r, x)
    | SPanic t => Panic t
    end.

  (* what the outcome should be, with no buffer and no chunks: [spec] when the body is delivered in full;
     when the body fails, the error of the first line the recogniser rejects among the delivered complete
     lines, else the load error *)
  Definition spec_stream (lines : list L) (tail : Z) (script : list sev) : result PS :=
    if fails script then
      match fold_recog L PS recog lineno init_ps lines with
      | inr (c, ln) => RErr c ln
      | inl _ => RErr LOAD_ERROR 0
      end
    else spec L PS init_ps recog lineno lines tail.
End Stream.

Arguments core {L PS} s.
Arguments cur {L PS} s.
Arguments pend {L PS} s.
Arguments mk_sst {L PS}.
Arguments SNext {L PS} x.
Arguments SDone {L PS} r x.
Arguments SPanic {L PS} tag.
