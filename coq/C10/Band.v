(* C10/Band.v — definitions for the 80..160 KiB band (no proofs).
   [wide_lines]: every complete line fits the largest buffer (at most MAX_CAP bytes with its '\n', i.e. content
   < 160 KiB) and so does the unterminated rest.  [fine_sched]: a reader whose reads never return more than
   80 KiB (HALF_CAP bytes) at once and which does not run out of schedule entries before the input is read
   (a used-up schedule is the whole-slice reader, which returns as much as fits).
   [fine_body]: a response body whose chunks are at most 80 KiB each. *)
From Coq Require Import ZArith List Bool.
From RM Require Import Base.Word C09.Model C10.Stream.
Import ListNotations.
Open Scope Z_scope.

Definition wide_lines {L : Type} (llen : L -> Z) (lines : list L) (tail : Z) : Prop :=
  Forall (fun l => llen l <= MAX_CAP) lines /\ tail < MAX_CAP.

Definition fine_sched (sch : list Z) (unread : Z) : Prop :=
  Forall (fun c => c <= HALF_CAP) sch /\ unread <= Z.of_nat (length sch).

Definition fine_ev (e : sev) : Prop := match e with SChunk n => n <= HALF_CAP | SFail => True end.
Definition fine_body (script : list sev) : Prop := Forall fine_ev script.
