(* C10/ProofsAsync.v — SymbolFile::parse_async is SymbolFile::parse under the schedule of the
   reads it actually performs: for every sequence of (non-empty) HTTP chunks there is a reader
   schedule under which [drive] ends with the same result and the same final state (reader state
   aside).  Hence every theorem about [drive] for all schedules also holds for [drive_async]. *)
From Coq Require Import Lia ZArith List Bool.
From RM Require Import Base.Word C09.Model C09.Proofs C10.Model C10.Proofs.
Import ListNotations.
Open Scope Z_scope.

Section Async.
  Variable L : Type.
  Variable llen : L -> Z.
  Variable PS : Type.
  Variable init_ps : PS.
  Variable recog : PS -> L -> PS + Z.
  Variable bump : PS -> PS.
  Variable lineno : PS -> Z.
  Hypothesis llen_pos : forall l, 1 <= llen l.

  Local Notation St := (st L PS).
  Local Notation step := (step L llen PS recog bump lineno).
  Local Notation step_async := (step_async L llen PS recog bump lineno).
  Local Notation step_after_read := (step_after_read L llen PS recog lineno).
  Local Notation recovery := (recovery L llen PS bump).
  Local Notation read_n := (read_n L PS).
  Local Notation read_async := (read_async L PS).
  Local Notation iter_nat := (iter_nat L llen PS recog bump lineno).

  (* replace the reader state *)
  Definition ws (x : list Z) (s : St) : St :=
    mkst (buf s) (fc s) (tg s) (pr s) (jf s) (total s) (ps s) (rest s) (off s) (unread s) x
         (ncb s) (cbsum s) (nrd s) (maxsp s) (log s).
  Definition erase (s : St) : St := ws [] s.
  Definition lift (f : St -> St) (r : stepres L PS) : stepres L PS :=
    match r with Next s => Next (f s) | Done x s => Done x (f s) | StPanic t => StPanic t end.

  Ltac crush :=
    repeat match goal with
           | |- context [if ?c then _ else _] => destruct c
           end;
    repeat match goal with
           | |- context [Model.pm ?a ?b ?c ?d ?e ?f ?g ?h ?i ?j] =>
               destruct (Model.pm a b c d e f g h i j) as [[[[? ?] ?] ?]|[? ?]]
           end;
    try reflexivity.

  Lemma erase_eq : forall a b : St, erase a = erase b -> b = ws (sched b) a.
  Proof. intros [] [] H. unfold erase, ws in *. cbn in *. inversion H; subst. reflexivity. Qed.

  Lemma recovery_ws : forall x s, recovery (ws x s) = ws x (recovery s).
  Proof.
    intros x s. destruct s. unfold Model.recovery, Model.first_nl, Model.discard_all, ws. cbn.
    destruct rest; [reflexivity|]. crush.
  Qed.

  (* the part of the loop body after the read does not look at the reader state *)
  Lemma after_read_ws : forall n y y' sp x s,
    lift erase (step_after_read n y sp s) = lift erase (step_after_read n y' sp (ws x s)).
  Proof.
    intros n y y' sp x s. destruct s.
    unfold Model.step_after_read, Model.parse_phase, set_pr, set_tg, set_buf_tg, ws, erase, lift. cbn.
    crush.
  Qed.

  Lemma after_read_frame : forall n y sp s,
    match step_after_read n y sp s with
    | Next s' | Done _ s' => sched s' = y /\ unread s' = unread s - n
    | StPanic _ => True
    end.
  Proof.
    intros n y sp s. destruct s.
    unfold Model.step_after_read, Model.parse_phase, set_pr, set_tg, set_buf_tg. cbn.
    crush; cbn; auto.
  Qed.
  Definition mid (s : St) : St := if pr s then recovery s else s.

  Fixpoint zsum (l : list Z) : Z := match l with [] => 0 | x :: t => x + zsum t end.

  (* the async reader: bytes left in the current slice, then the chunks still to come (all non-empty);
     together they are the bytes not yet read *)
  Definition AIp (sch : list Z) (u : Z) : Prop :=
    exists cur more, sch = cur :: more /\ 0 <= cur /\ Forall (fun c => 0 < c) more /\ cur + zsum more = u.
  Definition AI (s : St) : Prop := AIp (sched s) (unread s).

  Lemma mid_ws : forall x s, mid (ws x s) = ws x (mid s).
  Proof. intros x s. unfold mid. cbn [ws pr]. destruct (pr s); [apply recovery_ws|reflexivity]. Qed.

  Lemma recovery_frame : forall s, sched (recovery s) = sched s /\ unread (recovery s) = unread s.
  Proof.
    intros s. destruct s. unfold Model.recovery, Model.first_nl, Model.discard_all. cbn.
    destruct rest; [split; reflexivity|]. crush; split; reflexivity.
  Qed.

  Lemma mid_frame : forall s, sched (mid s) = sched s /\ unread (mid s) = unread s /\ buf (mid (ws [] s)) = buf (mid s).
  Proof.
    intros s. unfold mid. cbn [ws pr]. destruct (pr s).
    - destruct (recovery_frame s) as [A B]. rewrite recovery_ws. split; [exact A|]. split; [exact B|reflexivity].
    - repeat split.
  Qed.

  (* the reads parse_async performs, in order (zero-byte reads left out) *)
  Fixpoint areads (fuel : nat) (s : St) : list Z :=
    match fuel with
    | O => []
    | S f =>
        let n := fst (read_async (space (buf (mid s))) (mid s)) in
        let pre := if n =? 0 then [] else [n] in
        match step_async s with
        | Next s' => pre ++ areads f s'
        | _ => pre
        end
    end.

  Fixpoint iter_nat_async (n : nat) (s : St) : stepres L PS :=
    match n with
    | O => Next s
    | S n' => match step_async s with Next s1 => iter_nat_async n' s1 | r => r end
    end.

  Lemma iter_nat_async_add : forall a b s,
    iter_nat_async (a + b) s = match iter_nat_async a s with Next s1 => iter_nat_async b s1 | r => r end.
  Proof.
    induction a as [|a IH]; intros b s; cbn [iter_nat_async Nat.add]; [reflexivity|].
    destruct (step_async s); try reflexivity. apply IH.
  Qed.

  Lemma iter_pos_async_nat : forall p s,
    iter_pos_async L llen PS recog bump lineno p s = iter_nat_async (Pos.to_nat p) s.
  Proof.
    induction p as [q IH|q IH|]; intros s; cbn [Model.iter_pos_async].
    - rewrite Pos2Nat.inj_xI. replace (S (2 * Pos.to_nat q))%nat with (1 + (Pos.to_nat q + Pos.to_nat q))%nat by lia.
      rewrite iter_nat_async_add. cbn [iter_nat_async]. destruct (step_async s) as [s1| |]; try reflexivity.
      rewrite iter_nat_async_add. rewrite IH. destruct (iter_nat_async (Pos.to_nat q) s1); try reflexivity. apply IH.
    - rewrite Pos2Nat.inj_xO. replace (2 * Pos.to_nat q)%nat with (Pos.to_nat q + Pos.to_nat q)%nat by lia.
      rewrite iter_nat_async_add. rewrite IH. destruct (iter_nat_async (Pos.to_nat q) s); try reflexivity. apply IH.
    - rewrite Pos2Nat.inj_1. cbn [iter_nat_async]. destruct (step_async s); reflexivity.
  Qed.

  (* one read: what the chunked reader gives is what the scheduled reader gives when the schedule
     starts with that amount *)
  Lemma read_agree : forall s sp X, AI s -> 0 <= sp ->
    let n := fst (read_async sp s) in
    read_n sp (ws ((if n =? 0 then [] else [n]) ++ X) s) = (n, X) /\
    (0 <= n) /\ AIp (snd (read_async sp s)) (unread s - n).
  Proof.
    intros s sp X [cur [more [Hs [Hc [Hm Hsum]]]]] Hsp.
    unfold Model.read_async. rewrite Hs.
    destruct (cur <=? 0) eqn:Ec.
    - apply Z.leb_le in Ec. assert (cur = 0) by lia. subst cur.
      destruct more as [|c t].
      + cbn [fst snd zsum] in *. replace (Z.max 0 (Z.min sp 0)) with 0 by lia. cbn [Z.eqb app].
        split; [|split; [lia|]].
        * unfold Model.read_n. cbn [ws unread sched]. replace (unread s <=? 0) with true by (symmetry; apply Z.leb_le; lia).
          rewrite orb_true_r. reflexivity.
        * exists 0, []. cbn [zsum]. repeat split; try lia. constructor.
      + inversion Hm as [|x y Hc0 Hm']; subst. cbn [fst snd zsum] in *.
        pose proof (Z.le_refl 0) as _.
        assert (Hz : forall l, Forall (fun c => 0 < c) l -> 0 <= zsum l).
        { induction l as [|a l IHl]; intros Hl; cbn [zsum]; [lia|]. inversion Hl; subst. specialize (IHl H2). lia. }
        pose proof (Hz t Hm') as Ht.
        set (n := Z.max 0 (Z.min sp c)). split; [|split; [subst n; lia|]].
        * unfold Model.read_n. cbn [ws unread sched].
          destruct (n =? 0) eqn:En.
          -- apply Z.eqb_eq in En. cbn [app]. assert (sp = 0) by (subst n; lia). subst sp. cbn [Z.leb Z.compare orb].
             rewrite En. reflexivity.
          -- apply Z.eqb_neq in En. cbn [app].
             replace (sp <=? 0) with false by (symmetry; apply Z.leb_gt; subst n; lia).
             replace (unread s <=? 0) with false by (symmetry; apply Z.leb_gt; subst n; lia).
             cbn [orb]. f_equal. subst n. lia.
        * exists (c - n), t. repeat split; try assumption; subst n; lia.
    - apply Z.leb_gt in Ec. cbn [fst snd].
      assert (Hz : forall l, Forall (fun c => 0 < c) l -> 0 <= zsum l).
      { induction l as [|a l IHl]; intros Hl; cbn [zsum]; [lia|]. inversion Hl; subst. specialize (IHl H2). lia. }
      pose proof (Hz more Hm) as Ht.
      set (n := Z.max 0 (Z.min sp cur)). split; [|split; [subst n; lia|]].
      + unfold Model.read_n. cbn [ws unread sched].
        destruct (n =? 0) eqn:En.
        * apply Z.eqb_eq in En. cbn [app]. assert (sp = 0) by (subst n; lia). subst sp. cbn [Z.leb Z.compare orb].
          rewrite En. reflexivity.
        * apply Z.eqb_neq in En. cbn [app].
          replace (sp <=? 0) with false by (symmetry; apply Z.leb_gt; subst n; lia).
          replace (unread s <=? 0) with false by (symmetry; apply Z.leb_gt; subst n; lia).
          cbn [orb]. f_equal. subst n. lia.
      + exists (cur - n), more. repeat split; try assumption; subst n; lia.
  Qed.
  Lemma geom_ok_space : forall b, geom_ok b = true -> 0 <= space b.
  Proof.
    intros b H. unfold geom_ok in H. apply andb_true_iff in H. destruct H as [_ H]. apply Z.leb_le in H.
    unfold space. lia.
  Qed.

  Lemma lift_next : forall f a b s, lift f a = lift f b -> a = Next s -> exists s', b = Next s' /\ f s = f s'.
  Proof. intros f a b s H E. subst a. destruct b; cbn in H; inversion H. eauto. Qed.

  Lemma step_async_eq : forall sa,
    pr sa && negb (geom_ok (buf sa)) = false -> geom_ok (buf (mid sa)) = true ->
    step_async sa = step_after_read (fst (read_async (space (buf (mid sa))) (mid sa)))
                                    (snd (read_async (space (buf (mid sa))) (mid sa)))
                                    (space (buf (mid sa))) (mid sa).
  Proof.
    intros sa E1 E2. unfold Model.step_async. rewrite E1. fold (mid sa). unfold Model.step_rest_async.
    rewrite E2. cbn [negb]. destruct (read_async (space (buf (mid sa))) (mid sa)); reflexivity.
  Qed.

  Lemma step_eq : forall sa x,
    pr sa && negb (geom_ok (buf sa)) = false -> geom_ok (buf (mid sa)) = true ->
    step (ws x sa) = step_after_read (fst (read_n (space (buf (mid sa))) (ws x (mid sa))))
                                     (snd (read_n (space (buf (mid sa))) (ws x (mid sa))))
                                     (space (buf (mid sa))) (ws x (mid sa)).
  Proof.
    intros sa x E1 E2. unfold Model.step. cbn [ws pr buf]. rewrite E1.
    change (if pr sa then recovery (ws x sa) else ws x sa) with (mid (ws x sa)). rewrite mid_ws.
    unfold Model.step_rest. cbn [ws buf]. rewrite E2. cbn [negb].
    destruct (read_n (space (buf (mid sa))) (ws x (mid sa))); reflexivity.
  Qed.

  Lemma sim : forall fuel sa x, AI sa -> x = areads fuel sa ->
    lift erase (iter_nat_async fuel sa) = lift erase (iter_nat fuel (ws x sa)).
  Proof.
    induction fuel as [|f IH]; intros sa x Hai Hx; cbn [iter_nat_async Proofs.iter_nat]; [reflexivity|].
    destruct (pr sa && negb (geom_ok (buf sa))) eqn:Eg.
    { unfold Model.step_async, Model.step. cbn [ws pr buf]. rewrite Eg. reflexivity. }
    destruct (geom_ok (buf (mid sa))) eqn:Eg1.
    2:{ unfold Model.step_async, Model.step. cbn [ws pr buf]. rewrite Eg.
        change (if pr sa then recovery (ws x sa) else ws x sa) with (mid (ws x sa)). rewrite mid_ws.
        fold (mid sa). unfold Model.step_rest_async, Model.step_rest. cbn [ws buf]. rewrite Eg1. reflexivity. }
    pose proof (geom_ok_space _ Eg1) as Hsp.
    destruct (mid_frame sa) as [Ms [Mu _]].
    assert (Hai1 : AI (mid sa)) by (unfold AI; rewrite Ms, Mu; exact Hai).
    pose proof (step_async_eq sa Eg Eg1) as HA.
    cbn [areads] in Hx.
    set (sp := space (buf (mid sa))) in *.
    set (n := fst (read_async sp (mid sa))) in *.
    set (y := snd (read_async sp (mid sa))) in *.
    set (X := match step_async sa with Next s' => areads f s' | _ => [] end).
    assert (Hxx : x = (if n =? 0 then [] else [n]) ++ X).
    { rewrite Hx. subst X. destruct (step_async sa); [reflexivity|rewrite app_nil_r; reflexivity..]. }
    destruct (read_agree (mid sa) sp X Hai1 Hsp) as [Hr [Hn Hai2]]. fold n in Hr, Hai2. fold y in Hai2.
    assert (Hr' : read_n sp (ws x (mid sa)) = (n, X)) by (rewrite Hxx; exact Hr).
    pose proof (step_eq sa x Eg Eg1) as HS. fold sp in HS. rewrite Hr' in HS. cbn [fst snd] in HS.
    pose proof (after_read_ws n y X sp x (mid sa)) as HW.
    pose proof (after_read_frame n y sp (mid sa)) as FA.
    pose proof (after_read_frame n X sp (ws x (mid sa))) as FS.
    rewrite <- HA in HW, FA. rewrite <- HS in HW, FS.
    destruct (step_async sa) as [sa'| ra sa'|ta] eqn:EA.
    - destruct (lift_next erase _ _ sa' HW eq_refl) as [ss' [ES Ee]]. rewrite ES in *.
      destruct FA as [FA1 FA2]. destruct FS as [FS1 FS2].
      pose proof (erase_eq _ _ Ee) as Hss. rewrite Hss. apply IH.
      + unfold AI. rewrite FA1, FA2. exact Hai2.
      + rewrite FS1. reflexivity.
    - destruct (step (ws x sa)); cbn [lift] in *; try discriminate; exact HW.
    - destruct (step (ws x sa)); cbn [lift] in *; try discriminate; exact HW.
  Qed.

  Lemma done_inj : forall (r r' : result PS) (a b : St), Done r a = Done r' b -> r = r' /\ a = b.
  Proof. intros r r' a b H. inversion H. split; reflexivity. Qed.

  Definition init_async (lines : list L) (tail : Z) (chunks : list Z) : St :=
    init_st L llen PS init_ps lines tail (0 :: chunks).

  (* parse_async over chunks = parse under the schedule of the reads it performs *)
  Theorem async_is_sync : forall lines tail chunks,
    Forall (fun c => 0 < c) chunks -> zsum chunks = input_len L llen lines tail ->
    exists sch r s1 s2,
      drive_async L llen PS init_ps recog bump lineno lines tail chunks = Ret (r, s1) /\
      drive L llen PS init_ps recog bump lineno lines tail sch = Ret (r, s2) /\
      erase s1 = erase s2.
  Proof.
    intros lines tail chunks Hc Hsum.
    set (fuel := Pos.to_nat (fuel_for L llen lines tail)).
    set (sa := init_async lines tail chunks).
    exists (areads fuel sa).
    destruct (drive_fin L llen PS init_ps recog bump lineno llen_pos lines tail (areads fuel sa)) as [r [s2 [H2 _]]].
    assert (Hai : AI sa).
    { exists 0, chunks. subst sa. unfold init_async, init_st. cbn [sched unread]. repeat split; try lia; assumption. }
    pose proof (sim fuel sa (areads fuel sa) Hai eq_refl) as S.
    assert (Hw : ws (areads fuel sa) sa = init_st L llen PS init_ps lines tail (areads fuel sa)) by reflexivity.
    rewrite Hw in S.
    unfold Model.drive in H2. rewrite iter_pos_nat in H2. fold fuel in H2.
    destruct (Proofs.iter_nat L llen PS recog bump lineno fuel (init_st L llen PS init_ps lines tail (areads fuel sa)))
      as [sx|rx sx|tx] eqn:E2; try discriminate.
    inversion H2; subst rx sx. cbn [lift] in S.
    unfold Model.drive_async. rewrite iter_pos_async_nat. fold fuel. fold (init_async lines tail chunks). fold sa.
    destruct (iter_nat_async fuel sa) as [s1|r1 s1|t1]; cbn [lift] in S; try discriminate.
    destruct (done_inj _ _ _ _ S) as [S1 S2]. subst r1.
    exists r, s1, s2. split; [reflexivity|]. split; [|exact S2].
    unfold Model.drive. rewrite iter_pos_nat. fold fuel. rewrite E2. reflexivity.
  Qed.
  (* chunk independence for parse_async: whatever the HTTP chunking, the result is [spec] *)
  Lemma async_is_spec : forall lines tail chunks,
    short_lines llen lines tail ->
    Forall (fun c => 0 < c) chunks -> zsum chunks = input_len L llen lines tail ->
    exists s, drive_async L llen PS init_ps recog bump lineno lines tail chunks
              = Ret (spec L PS init_ps recog lineno lines tail, s).
  Proof.
    intros lines tail chunks Hs Hc Hsum.
    destruct (async_is_sync lines tail chunks Hc Hsum) as [sch [r [s1 [s2 [H1 [H2 _]]]]]].
    destruct (drive_is_spec L llen PS init_ps recog bump lineno llen_pos lines tail Hs sch) as [s3 H3].
    rewrite H2 in H3. inversion H3; subst. exists s1. exact H1.
  Qed.
End Async.
