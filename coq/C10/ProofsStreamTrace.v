(* C10/ProofsStreamTrace.v — the traced stream run is the run: [iter_tr_stream] goes through exactly the
   states of [iter_stream], so [run_stream] (what the correspondence compares) reports [drive_stream]. *)
From Coq Require Import ZArith List Bool.
From RM Require Import Base.Word C08.Model C11.Model C09.Model C09.Grammar C10.Stream C10.Driver.
Import ListNotations.
Open Scope Z_scope.

Lemma iter_tr_stream_run : forall p x a,
  fst (iter_tr_stream p x a) = iter_stream rle cllen pst recog_pst bump_pst lineno_pst p x.
Proof.
  induction p as [q IH|q IH|]; intros x a; cbn [iter_tr_stream iter_stream].
  - unfold cstep_stream. destruct (step_stream rle cllen pst recog_pst bump_pst lineno_pst x) as [x1|r x1|t] eqn:E; try reflexivity.
    pose proof (IH x1 (tr_step_cb a (core x) (unwrap (SNext x1)))) as H1.
    destruct (iter_tr_stream q x1 (tr_step_cb a (core x) (unwrap (SNext x1)))) as [r1 a1] eqn:E1. cbn [fst] in H1. rewrite <- H1.
    destruct r1 as [x2|r2 x2|t2]; try reflexivity. apply IH.
  - pose proof (IH x a) as H1. destruct (iter_tr_stream q x a) as [r1 a1] eqn:E1. cbn [fst] in H1. rewrite <- H1.
    destruct r1 as [x2|r2 x2|t2]; try reflexivity. apply IH.
  - reflexivity.
Qed.

Lemma run_stream_is_drive_stream : forall lines tail script,
  drive_stream_c lines tail script =
  match fst (iter_tr_stream (fuel_for rle cllen lines tail)
                            (init_stream rle cllen pst init_pst lines tail script) init_tr) with
  | SNext _ => OutOfFuel
  | SDone r x => Ret (r, x)
  | SPanic t => Panic t
  end.
Proof. intros. rewrite iter_tr_stream_run. reflexivity. Qed.

(* ------------------------------------------------------------------ on the real symbol table *)
From RM Require Import C09.Proofs C09.ProofsBytes C09.ProofsFinish C09.ProofsFinal C10.Model C10.Proofs C10.ProofsCache C10.ProofsStream.

(* parse_async over any non-failing body that delivers an input whose lines are shorter than 80 KiB ends with the verdict of
   the schedule-free specification; that verdict is a symbol table or an error (finish cannot panic); the callback got a
   prefix, and everything when it is a table *)
Lemma stream_table : forall (lines : list rle) (tail : Z) (script : list sev),
  short_lines cllen lines tail -> delivered script = input_len rle cllen lines tail -> fails script = false ->
  exists t x, table_of (spec_c lines tail) = Ret t /\
              drive_stream_c lines tail script = Ret (spec_c lines tail, x) /\
              cbsum (core x) = total (core x) /\ (t <> None -> cbsum (core x) = input_len rle cllen lines tail).
Proof.
  intros lines tail script Hs Hd Hf.
  destruct (parse_total lines tail []) as [r0 [s0 [t [H0 T0]]]].
  destruct (table_chunk_independent lines tail Hs []) as [r1 [s1 [H1 [E1 _]]]].
  rewrite H0 in H1. inversion H1; subst r1 s1. subst r0.
  destruct (stream_is_spec rle cllen pst init_pst recog_pst bump_pst lineno_pst ProofsBytes.cllen_pos lines tail Hs script Hd) as [x E].
  unfold spec_stream in E. rewrite Hf in E.
  destruct (stream_total rle cllen pst init_pst recog_pst bump_pst lineno_pst ProofsBytes.cllen_pos lines tail script Hd)
    as [r [x' [E' [C [_ A]]]]].
  rewrite E in E'. inversion E'; subst r x'.
  exists t, x. split; [exact T0|]. split; [exact E|]. split; [exact C|].
  intros Ht. unfold spec_c in T0.
  destruct (spec rle pst init_pst recog_pst lineno_pst lines tail) as [p|c ln] eqn:S; [apply (A p); reflexivity|].
  cbn [table_of] in T0. inversion T0; subst t. contradiction Ht; reflexivity.
Qed.
