(* C10/ProofsStreamTrace.v — the traced stream run is the run: [iter_tr_stream] goes through exactly the
   states of [iter_stream], so [run_stream] (what the correspondence compares) reports [drive_stream]. *)
From Coq Require Import ZArith List Bool.
From RM Require Import Base.Word C08.Model C11.Model C09.Model C09.Grammar C10.Stream C10.Driver.
Import ListNotations.
Open Scope Z_scope.

Lemma iter_tr_stream_run : forall p x a,
  fst (iter_tr_stream p x a) = iter_stream rle cllen pst recog_pst bump_pst lineno_pst p x.
Proof.
  induction p as [q IH|q IH|]; intros x a; cbn [iter_tr_stream iter_stream].
  - unfold cstep_stream. destruct (step_stream rle cllen pst recog_pst bump_pst lineno_pst x) as [x1|r x1|t] eqn:E; try reflexivity.
    pose proof (IH x1 (tr_step_cb a (core x) (unwrap (SNext x1)))) as H1.
    destruct (iter_tr_stream q x1 (tr_step_cb a (core x) (unwrap (SNext x1)))) as [r1 a1] eqn:E1. cbn [fst] in H1. rewrite <- H1.
    destruct r1 as [x2|r2 x2|t2]; try reflexivity. apply IH.
  - pose proof (IH x a) as H1. destruct (iter_tr_stream q x a) as [r1 a1] eqn:E1. cbn [fst] in H1. rewrite <- H1.
    destruct r1 as [x2|r2 x2|t2]; try reflexivity. apply IH.
  - reflexivity.
Qed.

Lemma run_stream_is_drive_stream : forall lines tail script,
  drive_stream_c lines tail script =
  match fst (iter_tr_stream (fuel_for rle cllen lines tail)
                            (init_stream rle cllen pst init_pst lines tail script) init_tr) with
  | SNext _ => OutOfFuel
  | SDone r x => Ret (r, x)
  | SPanic t => Panic t
  end.
Proof. intros. rewrite iter_tr_stream_run. reflexivity. Qed.
