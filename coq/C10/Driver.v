(* C10/Driver.v — C10 runs the same extracted driver as C09 (the model is shared); the answer
   additionally carries what [spec] (C09/Model.v) says, which the check compares too. *)
From RM Require Export C09.Driver.
