(* C10/Driver.v — C10 runs the same extracted driver as C09 (the model is shared); the answer
   additionally carries what [spec] (C09/Model.v) says, which the check compares too.
   Round 5: [run_stream] — parse_async over a scripted body (C10/Stream.v), run for the correspondence. *)
From RM Require Export C09.Driver.
From Coq Require Import ZArith List Bool.
From RM Require Import Base.Word C08.Model C11.Model C09.Model C09.Grammar C10.Stream C10.ReadFail C09.Driver.
Import ListNotations.
Open Scope Z_scope.

Definition cstream := @sst rle pst.
Definition cstep_stream : cstream -> @sres rle pst := step_stream rle cllen pst recog_pst bump_pst lineno_pst.

Definition drive_stream_c (lines : list rle) (tail : Z) (script : list sev) : outcome (result pst * cstream) :=
  drive_stream rle cllen pst init_pst recog_pst bump_pst lineno_pst lines tail script.
Definition spec_stream_c (lines : list rle) (tail : Z) (script : list sev) : result pst :=
  spec_stream rle pst init_pst recog_pst lineno_pst lines tail script.

(* the loop-level view of a stream step, for the callback trace of C09/Driver.v ([tr_step_cb]) *)
Definition unwrap (r : @sres rle pst) : stepres rle pst :=
  match r with
  | SNext x => Next (core x)
  | SDone res x => Done res (core x)
  | SPanic t => StPanic t
  end.

(* runs the SAME [step_stream] as [iter_stream] and only looks at the states it goes through ([iter_tr_stream_run]) *)
Fixpoint iter_tr_stream (p : positive) (x : cstream) (a : tracc) : @sres rle pst * tracc :=
  match p with
  | xH => let r := cstep_stream x in (r, tr_step_cb a (core x) (unwrap r))
  | xO q => match iter_tr_stream q x a with
            | (SNext x1, a1) => iter_tr_stream q x1 a1
            | ra => ra
            end
  | xI q => let r := cstep_stream x in
            let a0 := tr_step_cb a (core x) (unwrap r) in
            match r with
            | SNext x1 => match iter_tr_stream q x1 a0 with
                          | (SNext x2, a2) => iter_tr_stream q x2 a2
                          | ra => ra
                          end
            | _ => (r, a0)
            end
  end.

(* the outcome (same record as run_case; error code 8 = the body failed: SymbolError::LoadError) + callback trace *)
Definition run_stream (lines : list rle) (tail : Z) (script : list sev) : sym_out * tracc :=
  let '(res, tr) := iter_tr_stream (fuel_for rle cllen lines tail)
                                   (init_stream rle cllen pst init_pst lines tail script) init_tr in
  let none k c l := Build_sym_out k c l 0 0 0 0 0 None 0 0 0 0 None in
  (match res with
   | SDone r x =>
       let s := core x in
       let '(sk, sc, sl) := match spec_stream_c lines tail script with
                            | ROk _ => (0, 0, 0)
                            | RErr c l => (1, c, l)
                            end in
       let mk k c l t :=
         Build_sym_out k c l (cbsum s) (ncb s) (nrd s) (maxsp s) (b_cap (buf s)) t (count_dropped (log s)) sk sc sl None in
       match r, table_of r with
       | ROk _, Ret t => mk 0 0 0 t
       | ROk _, Panic tag => mk 2 tag 0 None
       | ROk _, _ => mk 2 (-2) 0 None
       | RErr c l, _ => mk 1 c l None
       end
   | SNext _ => none 3 0 0
   | SPanic t => none 2 t 0
   end, tr).

(* Round 5, second pass: SymbolFile::parse over a reader whose k-th read() call fails (C10/ReadFail.v), run for the
   correspondence.  [o_nrd] = read() calls that returned (the failing call is not counted). *)
Definition drive_rf_c (lines : list rle) (tail : Z) (sch : list Z) (k : Z) : outcome (result pst * st rle pst) :=
  drive_rf rle cllen pst init_pst recog_pst bump_pst lineno_pst lines tail sch k.

Definition run_rfail (lines : list rle) (tail : Z) (sch : list Z) (k : Z) : sym_out :=
  let none k c l := Build_sym_out k c l 0 0 0 0 0 None 0 0 0 0 None in
  match drive_rf_c lines tail sch k with
  | Ret (r, s) =>
      let mk kk c l t :=
        Build_sym_out kk c l (cbsum s) (ncb s) (nrd s) (maxsp s) (b_cap (buf s)) t (count_dropped (log s)) 0 0 0 None in
      match r, table_of r with
      | ROk _, Ret t => mk 0 0 0 t
      | ROk _, Panic tag => mk 2 tag 0 None
      | ROk _, _ => mk 2 (-2) 0 None
      | RErr c l, _ => mk 1 c l None
      end
  | Panic t => none 2 t 0
  | OutOfFuel => none 3 0 0
  | Fail => none 2 (-1) 0
  end.
