(* C10/ProofsReadFail.v — a failing read() cuts the run: [drive_rf k] is [drive] stopped at the head of the iteration
   whose read would have been the k-th, with the load error.  Consequences: total, callback prefix (all inputs);
   lines < 80 KiB: the outcome is [spec] or the load error, and the callback has then been given complete lines only. *)
From Coq Require Import Lia ZArith List Bool.
From RM Require Import Base.Word C09.Model C09.Proofs C10.Model C10.Proofs C10.ProofsAsync C10.Stream.
From RM Require Import C10.ReadFail.
Import ListNotations.
Open Scope Z_scope.

Section RF.
  Variable L : Type.
  Variable llen : L -> Z.
  Variable PS : Type.
  Variable init_ps : PS.
  Variable recog : PS -> L -> PS + Z.
  Variable bump : PS -> PS.
  Variable lineno : PS -> Z.
  Hypothesis llen_pos : forall l, 1 <= llen l.

  Local Notation St := (st L PS).
  Local Notation step := (step L llen PS recog bump lineno).
  Local Notation step_rf := (step_rf L llen PS recog bump lineno).
  Local Notation iter_rf := (iter_rf L llen PS recog bump lineno).
  Local Notation iter_nat := (iter_nat L llen PS recog bump lineno).
  Local Notation mid := (mid L llen PS bump).
  Local Notation recovery := (recovery L llen PS bump).
  Local Notation step_after_read := (step_after_read L llen PS recog lineno).

  Fixpoint iter_rf_nat (k : Z) (n : nat) (s : St) : stepres L PS :=
    match n with
    | O => Next s
    | S n' => match step_rf k s with Next s1 => iter_rf_nat k n' s1 | r => r end
    end.

  Lemma iter_rf_nat_add : forall k a b s,
    iter_rf_nat k (a + b) s = match iter_rf_nat k a s with Next s1 => iter_rf_nat k b s1 | r => r end.
  Proof.
    induction a as [|a IH]; intros b s; cbn [iter_rf_nat Nat.add]; [reflexivity|].
    destruct (step_rf k s); try reflexivity. apply IH.
  Qed.

  Lemma iter_rf_is_nat : forall k p s, iter_rf k p s = iter_rf_nat k (Pos.to_nat p) s.
  Proof.
    induction p as [q IH|q IH|]; intros s; cbn [ReadFail.iter_rf].
    - rewrite Pos2Nat.inj_xI. replace (S (2 * Pos.to_nat q))%nat with (1 + (Pos.to_nat q + Pos.to_nat q))%nat by lia.
      rewrite iter_rf_nat_add. cbn [iter_rf_nat]. destruct (step_rf k s) as [s1| |]; try reflexivity.
      rewrite iter_rf_nat_add. rewrite IH. destruct (iter_rf_nat k (Pos.to_nat q) s1); try reflexivity. apply IH.
    - rewrite Pos2Nat.inj_xO. replace (2 * Pos.to_nat q)%nat with (Pos.to_nat q + Pos.to_nat q)%nat by lia.
      rewrite iter_rf_nat_add. rewrite IH. destruct (iter_rf_nat k (Pos.to_nat q) s); try reflexivity. apply IH.
    - rewrite Pos2Nat.inj_1. cbn [iter_rf_nat]. destruct (step_rf k s); reflexivity.
  Qed.

  Ltac crush :=
    repeat match goal with
           | |- context [if ?c then _ else _] => destruct c
           end;
    repeat match goal with
           | |- context [Model.pm ?a ?b ?c ?d ?e ?f ?g ?h ?i ?j] =>
               destruct (Model.pm a b c d e f g h i j) as [[[[? ?] ?] ?]|[? ?]]
           end;
    try reflexivity.

  (* every iteration performs exactly one read() *)
  Lemma after_read_nrd : forall n y sp s,
    match step_after_read n y sp s with
    | Next s' | Done _ s' => nrd s' = nrd s + 1
    | StPanic _ => True
    end.
  Proof.
    intros n y sp s. destruct s.
    unfold Model.step_after_read, Model.parse_phase, set_pr, set_tg, set_buf_tg. cbn.
    crush; cbn; auto.
  Qed.

  Lemma recovery_nrd : forall s, nrd (recovery s) = nrd s.
  Proof.
    intros s. destruct s. unfold Model.recovery, Model.first_nl, Model.discard_all. cbn.
    destruct rest; [reflexivity|]. crush.
  Qed.

  Lemma mid_nrd : forall s, nrd (mid s) = nrd s.
  Proof. intros s. unfold ProofsAsync.mid. destruct (pr s); [apply recovery_nrd|reflexivity]. Qed.

  Lemma step_nrd : forall s,
    match step s with
    | Next s' | Done _ s' => nrd s' = nrd s + 1
    | StPanic _ => True
    end.
  Proof.
    intros s. unfold Model.step. destruct (pr s && negb (geom_ok (buf s))); [exact I|].
    change (if pr s then recovery s else s) with (mid s).
    unfold Model.step_rest. destruct (negb (geom_ok (buf (mid s)))); [exact I|].
    destruct (read_n L PS (space (buf (mid s))) (mid s)) as [n sch'].
    pose proof (after_read_nrd n sch' (space (buf (mid s))) (mid s)) as H.
    destruct (step_after_read n sch' (space (buf (mid s))) (mid s)); try exact I; rewrite H; rewrite mid_nrd; reflexivity.
  Qed.

  (* the failing iteration, or the ordinary one *)
  Lemma step_rf_char : forall k s,
    (nrd s <> k /\ step_rf k s = step s) \/
    (nrd s = k /\ (step_rf k s = Done (RErr LOAD_ERROR 0) (mid s) \/ exists t, step_rf k s = StPanic t /\ step s = StPanic t)).
  Proof.
    intros k s. unfold ReadFail.step_rf, Model.step.
    destruct (pr s && negb (geom_ok (buf s))) eqn:E1.
    - destruct (Z.eq_dec (nrd s) k) as [Q|Q]; [right|left]; split; try assumption; [|reflexivity].
      right. exists 2. split; reflexivity.
    - change (if pr s then recovery s else s) with (mid s). unfold Model.step_rest.
      destruct (negb (geom_ok (buf (mid s)))) eqn:E2.
      + destruct (Z.eq_dec (nrd s) k) as [Q|Q]; [right|left]; split; try assumption; [|reflexivity].
        right. exists 1. split; reflexivity.
      + rewrite mid_nrd. destruct (nrd s =? k) eqn:E3.
        * apply Z.eqb_eq in E3. right. split; [exact E3|]. left. reflexivity.
        * apply Z.eqb_neq in E3. left. split; [exact E3|reflexivity].
  Qed.

  (* the cut: the run with the failing reader is the ordinary run, or the ordinary run stopped at the head of the
     iteration that would have issued read number k *)
  Lemma rf_cut : forall k n s, nrd s <= k ->
    iter_rf_nat k n s = iter_nat n s \/
    exists (j : nat) sj, (j < n)%nat /\ iter_nat j s = Next sj /\ nrd sj = k /\
                         iter_rf_nat k n s = Done (RErr LOAD_ERROR 0) (mid sj).
  Proof.
    induction n as [|n IH]; intros s Hk; cbn [iter_rf_nat Proofs.iter_nat]; [left; reflexivity|].
    destruct (step_rf_char k s) as [[Q E]|[Q [E|[t [E1 E2]]]]].
    - rewrite E. pose proof (step_nrd s) as N. destruct (step s) as [s1|r s1|t] eqn:Es; try (left; reflexivity).
      destruct (IH s1 ltac:(lia)) as [H|[j [sj [H1 [H2 [H3 H4]]]]]]; [left; exact H|].
      right. exists (S j), sj. split; [lia|]. cbn [Proofs.iter_nat]. rewrite Es.
      split; [exact H2|]. split; assumption.
    - right. exists 0%nat, s. split; [lia|]. split; [reflexivity|]. split; [exact Q|]. rewrite E. reflexivity.
    - left. rewrite E1, E2. reflexivity.
  Qed.
End RF.

Section RFTop.
  Variable L : Type.
  Variable llen : L -> Z.
  Variable PS : Type.
  Variable init_ps : PS.
  Variable recog : PS -> L -> PS + Z.
  Variable bump : PS -> PS.
  Variable lineno : PS -> Z.
  Hypothesis llen_pos : forall l, 1 <= llen l.
  Variable lines : list L.
  Variable t0 : Z.

  Local Notation tail := (Z.max 0 t0).
  Local Notation ilen := (input_len L llen lines t0).
  Local Notation St := (st L PS).
  Local Notation step := (step L llen PS recog bump lineno).
  Local Notation iter_nat := (iter_nat L llen PS recog bump lineno).
  Local Notation mid := (mid L llen PS bump).
  Local Notation init_st := (init_st L llen PS init_ps).
  Local Notation drive := (drive L llen PS init_ps recog bump lineno).
  Local Notation drive_rf := (drive_rf L llen PS init_ps recog bump lineno).
  Local Notation spec := (spec L PS init_ps recog lineno).
  Local Notation size := (size L llen).
  Local Notation WF := (WF L llen PS init_ps recog bump lineno tail ilen lines).
  Local Notation WFm := (WFm L llen PS init_ps recog bump lineno tail ilen lines).
  Local Notation CI := (CI L llen PS init_ps recog bump lineno lines t0).

  Lemma rf_drive_cut : forall sch k, 0 <= k ->
    drive_rf lines t0 sch k = drive lines t0 sch \/
    exists (j : nat) sj, iter_nat j (init_st lines t0 sch) = Next sj /\ nrd sj = k /\
                         drive_rf lines t0 sch k = Ret (RErr LOAD_ERROR 0, mid sj).
  Proof.
    intros sch k Hk. unfold ReadFail.drive_rf, Model.drive.
    rewrite (iter_rf_is_nat L llen PS recog bump lineno), iter_pos_nat.
    destruct (rf_cut L llen PS recog bump lineno k (Pos.to_nat (fuel_for L llen lines t0)) (init_st lines t0 sch))
      as [H|[j [sj [H1 [H2 [H3 H4]]]]]].
    - unfold Model.init_st. cbn [nrd]. exact Hk.
    - left. rewrite H. reflexivity.
    - right. exists j, sj. split; [exact H2|]. split; [exact H3|]. rewrite H4. reflexivity.
  Qed.

  Lemma mid_wfm' : forall s, WF s -> WFm (mid s).
  Proof.
    intros s W. unfold ProofsAsync.mid. destruct (pr s) eqn:E; [|exact (wf_m _ _ _ _ _ _ _ _ _ _ _ W)].
    exact (proj1 (recovery_wfm L llen PS init_ps recog bump lineno llen_pos tail ltac:(lia) ilen lines s
                    (wf_m _ _ _ _ _ _ _ _ _ _ _ W) E)).
  Qed.

  (* all inputs, all schedules, a failure at any read: the parse returns, the callback has been given a prefix of the
     input, and an Ok result is the Ok of the undisturbed run (the failing read was never issued) *)
  Lemma rf_total : forall sch k, 0 <= k ->
    exists r s, drive_rf lines t0 sch k = Ret (r, s) /\
      cbsum s = total s /\ 0 <= total s <= ilen /\
      (forall p, r = ROk p -> cbsum s = ilen /\ drive lines t0 sch = Ret (ROk p, s)) /\
      (drive lines t0 sch = Ret (r, s) \/ (r = RErr LOAD_ERROR 0 /\ nrd s = k)).
  Proof.
    intros sch k Hk. destruct (rf_drive_cut sch k Hk) as [H|[j [sj [H1 [H2 H3]]]]].
    - destruct (drive_fin L llen PS init_ps recog bump lineno llen_pos lines t0 sch) as [r [s [D _]]].
      exists r, s. rewrite H. split; [exact D|].
      destruct (drive_callback L llen PS init_ps recog bump lineno llen_pos lines t0 sch r s D) as [A [B C]].
      split; [exact A|]. split; [exact B|]. split; [|left; exact D].
      intros p Hp. split; [exact (C p Hp)|]. subst r. exact D.
    - exists (RErr LOAD_ERROR 0), (mid sj). split; [exact H3|].
      assert (W : WF sj).
      { eapply (reach_wf L llen PS init_ps recog bump lineno llen_pos tail ltac:(lia) ilen lines); [|exact H1].
        apply init_wf'. exact llen_pos. }
      pose proof (mid_wfm' sj W) as Wm. destruct Wm.
      pose proof (size_nonneg L llen PS init_ps recog bump lineno llen_pos (map snd (rev (log (mid sj))))).
      destruct wf_geom as [? [? ?]]. destruct wf_off as [? ?]. unfold avail in *.
      split; [exact wf_cb|]. split; [lia|]. split; [intros p Hp; discriminate|].
      right. split; [reflexivity|]. rewrite (mid_nrd L llen PS bump). exact H2.
  Qed.

  (* ---------------------------------------------------------------- lines shorter than 80 KiB *)
  Hypothesis short : short_lines llen lines t0.

  Lemma reach_ci : forall n s0 s, CI s0 -> iter_nat n s0 = Next s -> CI s.
  Proof.
    induction n as [|n IH]; intros s0 s C H; cbn [Proofs.iter_nat] in H.
    - inversion H; subst; exact C.
    - pose proof (ci_step L llen PS init_ps recog bump lineno llen_pos lines t0 short s0 C) as CS.
      destruct (step s0) as [s1|r s1|t]; try discriminate. eapply IH; eauto.
  Qed.

  (* the outcome is the schedule-free verdict, or the load error; in the second case the callback (the cache writer)
     has been given complete lines only: the lines disposed of so far, not the unterminated rest in the buffer *)
  Lemma rf_short : forall sch k, 0 <= k ->
    exists s,
      drive_rf lines t0 sch k = Ret (spec lines t0, s) \/
      (drive_rf lines t0 sch k = Ret (RErr LOAD_ERROR 0, s) /\ nrd s = k /\
       exists done todo, lines = done ++ todo /\ cbsum s = size done).
  Proof.
    intros sch k Hk. destruct (rf_drive_cut sch k Hk) as [H|[j [sj [H1 [H2 H3]]]]].
    - destruct (drive_is_spec L llen PS init_ps recog bump lineno llen_pos lines t0 short sch) as [s D].
      exists s. left. rewrite H. exact D.
    - assert (C : CI sj).
      { eapply reach_ci; [|exact H1]. apply ci_init. exact llen_pos. }
      destruct C as [W Hpr _ _ _].
      assert (Hm : mid sj = sj) by (unfold ProofsAsync.mid; rewrite Hpr; reflexivity).
      rewrite Hm in H3. exists sj. right. split; [exact H3|]. split; [exact H2|].
      pose proof (wf_m _ _ _ _ _ _ _ _ _ _ _ W) as Wm. destruct Wm.
      exists (map snd (rev (log sj))), (rest sj). split; [exact wf_lines|].
      rewrite wf_cb, wf_total, (wf_pr_off Hpr). lia.
  Qed.
End RFTop.
