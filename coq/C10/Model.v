(* C10/Model.v — C10 shares its executable model with C09: the driver [drive] and the
   schedule-free specification [spec] are in C09/Model.v, the line recogniser in C09/Grammar.v.
   This file only names the class of inputs C10 speaks about. Definitions only. *)
From Coq Require Import ZArith List.
From RM Require Import Base.Word C09.Model.
Open Scope Z_scope.

(* "every line is shorter than 80 KiB": a complete line has at most 81919 content bytes
   (81920 with its '\n'), and so has the unterminated rest *)
Definition short_lines {L : Type} (llen : L -> Z) (lines : list L) (tail : Z) : Prop :=
  Forall (fun l => llen l <= HALF_CAP) lines /\ tail < HALF_CAP.
