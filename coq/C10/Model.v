(* C10/Model.v — C10 shares its executable model with C09: the driver [drive] and the
   schedule-free specification [spec] are in C09/Model.v, the line recogniser in C09/Grammar.v.
   This file only names the class of inputs C10 speaks about. Definitions only. *)
From Coq Require Import ZArith List.
From RM Require Import Base.Word C08.Model C11.Model C09.Model C09.Grammar C09.Driver.
Import ListNotations.
Open Scope Z_scope.

(* "every line is shorter than 80 KiB": a complete line has at most 81919 content bytes
   (81920 with its '\n'), and so has the unterminated rest *)
Definition short_lines {L : Type} (llen : L -> Z) (lines : list L) (tail : Z) : Prop :=
  Forall (fun l => llen l <= HALF_CAP) lines /\ tail < HALF_CAP.

(* ------------------------------------------------------------------ the parser contract used by C16 *)

(* a String back to its bytes *)
Fixpoint rle_expand (s : rle) : list Z :=
  match s with
  | [] => []
  | (b, c) :: t => repeat b (Z.to_nat (Z.max 1 c)) ++ rle_expand t
  end.

Definition set_url (t : table) (u : option rle) : table :=
  mk_table (t_module_id t) (t_debug_file t) (t_files t) (t_origins t) (t_publics t) (t_funcs t)
           (t_cfi t) (t_win_fd t) (t_win_fpo t) u.

(* The whole-input verdict on a byte string (schedule-free, [spec_c]; for inputs whose lines
   are shorter than 80 KiB it is what SymbolFile::parse answers under every chunking:
   c10_chunk_independent): the symbol table without its url, and the url of the last INFO URL record. *)
Definition parse_bytes (b : list Z) : option (table * option (list Z)) :=
  let '(ls, tl) := split_bytes b [] in
  match spec_c (map to_rle ls) (Z.of_nat (length tl)) with
  | ROk p => match finish p with
             | Ret t => Some (set_url t None, option_map rle_expand (t_url t))
             | _ => None
             end
  | RErr _ _ => None
  end.

(* what fetch_symbol_file leaves in the cache: the body, a '\n' if it did not end with one,
   and an `INFO URL <url>` line (the same definitions as in C16/Model.v) *)
Definition INFO_URL_SP : list Z := [73; 78; 70; 79; 32; 85; 82; 76; 32].
Definition url_trailer (u : list Z) : list Z := INFO_URL_SP ++ u ++ [10].
Fixpoint ends_nl_from (last_is_nl : bool) (b : list Z) : bool :=
  match b with [] => last_is_nl | c :: r => ends_nl_from (c =? 10) r end.
Definition ends_nl (b : list Z) : bool := ends_nl_from true b.
Definition nl_sep (b : list Z) : list Z := if ends_nl b then [] else [10].
Definition cached_form (body u : list Z) : list Z := body ++ nl_sep body ++ url_trailer u.

(* urls that survive the round trip through an INFO URL line: one line, valid UTF-8, and not
   starting with a blank (the separator after "INFO URL" is space1, it would swallow it) *)
Definition url_ok (u : list Z) : Prop :=
  Forall (fun b => b <> 10 /\ b <> 13) u /\ utf8_ok (to_rle u) = true /\
  match u with b :: _ => is_sp b = false | [] => True end.
