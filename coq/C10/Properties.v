(* C10/Properties.v — streamed parsing ignores chunking; the callback gets every byte.
   Statements only; proofs in C09/Proofs.v and C10/Proofs.v.  [drive], [spec]: C09/Model.v. *)
From Coq Require Import ZArith List Bool.
From RM Require Import Base.Word C08.Model C11.Model C09.Model C09.Grammar C09.Driver C09.Proofs C09.ProofsBytes C10.Model C10.Proofs C10.ProofsCache C10.ProofsAsync C09.ProofsFinish C09.ProofsFinal C10.Stream C10.ProofsStream C10.Driver C10.ProofsStreamTrace C10.ProofsBound C10.OldRefill C10.Band C10.ProofsFine C10.ProofsBandAll C10.ReadFail C10.ProofsReadFail.
From RM Require Gen.C10Stream.
From RM Require C09.Pins.
Import ListNotations.
Open Scope Z_scope.

(* All inputs, all schedules, any recogniser.  The model hands the callback data()[..amount]
   where data() starts at input offset total_consumed; [cbsum] adds up the amounts passed to the
   callback and [total] the amounts consumed from the buffer (they are separate in the code):
   they agree, so the concatenated callback bytes are input[0 .. cbsum): a prefix of the input —
   and all of it when the result is Ok. *)
Theorem c10_callback_prefix :
  forall (L : Type) (llen : L -> Z) (PS : Type) (init_ps : PS)
         (recog : PS -> L -> PS + Z) (bump : PS -> PS) (lineno : PS -> Z),
    (forall l, 1 <= llen l) ->
    forall (lines : list L) (tail : Z) (sch : list Z) r s,
    drive L llen PS init_ps recog bump lineno lines tail sch = Ret (r, s) ->
    cbsum s = total s /\ 0 <= total s <= input_len L llen lines tail /\
    (forall p, r = ROk p -> cbsum s = input_len L llen lines tail).
Proof. exact drive_callback. Qed.
Print Assumptions c10_callback_prefix.

(* If every line (and the unterminated rest) is shorter than 80 KiB, the outcome under ANY
   schedule is [spec]: the fold of the recogniser over the lines, then the end-of-input rule. *)
Theorem c10_chunk_independent :
  forall (L : Type) (llen : L -> Z) (PS : Type) (init_ps : PS)
         (recog : PS -> L -> PS + Z) (bump : PS -> PS) (lineno : PS -> Z),
    (forall l, 1 <= llen l) ->
    forall (lines : list L) (tail : Z),
    short_lines llen lines tail ->
    forall sch : list Z,
    exists s, drive L llen PS init_ps recog bump lineno lines tail sch
              = Ret (spec L PS init_ps recog lineno lines tail, s).
Proof. exact drive_is_spec. Qed.
Print Assumptions c10_chunk_independent.

(* ... hence any two schedules (in particular a chunked reader and the whole slice, [sch = []])
   give the same result: the same parser state or the same error. *)
Theorem c10_any_two_schedules :
  forall (L : Type) (llen : L -> Z) (PS : Type) (init_ps : PS)
         (recog : PS -> L -> PS + Z) (bump : PS -> PS) (lineno : PS -> Z),
    (forall l, 1 <= llen l) ->
    forall (lines : list L) (tail : Z),
    short_lines llen lines tail ->
    forall (s1 s2 : list Z) r1 st1 r2 st2,
    drive L llen PS init_ps recog bump lineno lines tail s1 = Ret (r1, st1) ->
    drive L llen PS init_ps recog bump lineno lines tail s2 = Ret (r2, st2) ->
    r1 = r2.
Proof. exact two_schedules. Qed.
Print Assumptions c10_any_two_schedules.

(* The same on the real symbol table (concrete recogniser + finish): under any schedule the
   result and its table are those of the schedule-free specification. *)
Theorem c10_table_chunk_independent :
  forall (lines : list rle) (tail : Z),
    short_lines cllen lines tail ->
    forall sch, exists r s, drive_c lines tail sch = Ret (r, s) /\ r = spec_c lines tail /\
                            table_of r = table_of (spec_c lines tail).
Proof. exact table_chunk_independent. Qed.
Print Assumptions c10_table_chunk_independent.

Definition bl (bs : list Z) : rle := map (fun b => (b, 1)) bs.
Definition ex_lines : list rle :=
  [ bl [77;79;68;85;76;69;32;97;32;98;32;99;32;100];                 (* MODULE a b c d *)
    bl [70;73;76;69;32;49;32;120];                                   (* FILE 1 x *)
    bl [70;85;78;67;32;49;48;32;52;32;48;32;102];                    (* FUNC 10 4 0 f *)
    bl [49;48;32;52;32;49;32;49];                                    (* 10 4 1 1 *)
    bl [80;85;66;76;73;67;32;50;48;32;48;32;103;13] ].               (* PUBLIC 20 0 g\r *)

(* parse_async ([drive_async]: the same loop, reading from the current HTTP chunk and fetching the
   next one when it is used up) over any sequence of non-empty chunks that make up the input ends
   like parse ([drive]) under the schedule of the reads it performs: same result, same final
   state apart from the reader.  So everything proved about [drive] for all schedules holds for it. *)
Theorem c10_async_is_sync :
  forall (L : Type) (llen : L -> Z) (PS : Type) (init_ps : PS)
         (recog : PS -> L -> PS + Z) (bump : PS -> PS) (lineno : PS -> Z),
    (forall l, 1 <= llen l) ->
    forall (lines : list L) (tail : Z) (chunks : list Z),
    Forall (fun c => 0 < c) chunks -> zsum chunks = input_len L llen lines tail ->
    exists sch r s1 s2,
      drive_async L llen PS init_ps recog bump lineno lines tail chunks = Ret (r, s1) /\
      drive L llen PS init_ps recog bump lineno lines tail sch = Ret (r, s2) /\
      erase L PS s1 = erase L PS s2.
Proof. exact async_is_sync. Qed.
Print Assumptions c10_async_is_sync.

Theorem c10_async_chunk_independent :
  forall (L : Type) (llen : L -> Z) (PS : Type) (init_ps : PS)
         (recog : PS -> L -> PS + Z) (bump : PS -> PS) (lineno : PS -> Z),
    (forall l, 1 <= llen l) ->
    forall (lines : list L) (tail : Z) (chunks : list Z),
    short_lines llen lines tail ->
    Forall (fun c => 0 < c) chunks -> zsum chunks = input_len L llen lines tail ->
    exists s, drive_async L llen PS init_ps recog bump lineno lines tail chunks
              = Ret (spec L PS init_ps recog lineno lines tail, s).
Proof. exact async_is_spec. Qed.
Print Assumptions c10_async_chunk_independent.

(* The parser contract assumed by C16 (symbol cache): [parse_bytes] is the whole-input verdict
   (table without url, url of the last INFO URL record).  Appending `INFO URL <u>` (after a '\n'
   if the body lacks one: an accepted body never does) to an accepted body gives the same table
   with url = u — also when the body already contains INFO URL records (the last one wins). *)
Theorem c10_cached_form_parse :
  forall (b u : list Z) (t : table) (x : option (list Z)),
    url_ok u -> parse_bytes b = Some (t, x) -> parse_bytes (cached_form b u) = Some (t, Some u).
Proof. exact cached_form_parse. Qed.
Print Assumptions c10_cached_form_parse.

(* parse_async on 3 HTTP chunks of a 62-byte file (sizes 20, 1, 41) *)
Example c10_nonvacuous_async :
  match drive_async rle cllen pst init_pst recog_pst bump_pst lineno_pst ex_lines 0 [20; 1; 41] with
  | Ret (ROk p, s) => (zlen (p_files p), cbsum s, nrd s)
  | _ => (-1, 0, 0)
  end = (1, 62, 4).
Proof. vm_compute. reflexivity. Qed.

Example c10_nonvacuous_cached :
  let body := [77;79;68;85;76;69;32;97;32;98;32;99;32;100;10; 73;78;70;79;32;85;82;76;32;111;108;100;10;
               70;85;78;67;32;49;48;32;52;32;48;32;102;10] in        (* MODULE a b c d / INFO URL old / FUNC 10 4 0 f *)
  let u := [104;116;116;112;58;47;47;120] in                        (* http://x *)
  (match parse_bytes body with Some (t, x) => (zlen (t_funcs t), x) | None => (-1, None) end,
   match parse_bytes (cached_form body u) with Some (t, x) => (zlen (t_funcs t), x) | None => (-1, None) end)
  = ((1, Some [111;108;100]), (1, Some u)).
Proof. vm_compute. reflexivity. Qed.

(* non-vacuity: a file with a FUNC group and a CFI group, read 1 byte / 7 bytes at a time and
   whole: short_lines holds and the three runs agree with spec (Ok, 1 file, 1 public) *)
Example c10_nonvacuous_short : short_lines cllen ex_lines 0.
Proof.
  unfold short_lines, ex_lines. split; [|apply Z.ltb_lt; vm_compute; reflexivity].
  repeat (apply Forall_cons; [apply Z.leb_le; vm_compute; reflexivity|]). apply Forall_nil.
Qed.
Example c10_nonvacuous_runs :
  let o1 := run_case ex_lines 0 (repeat 1 80) in
  let o2 := run_case ex_lines 0 [7; 7; 7; 7; 7; 7; 7; 7; 7] in
  let o3 := run_case ex_lines 0 [] in
  (o_kind o1, o_files o1, o_publics o1, o_cb o1, o_skind o1) = (0, 1, 1, 62, 0) /\
  (o_kind o2, o_files o2, o_publics o2, o_cb o2) = (0, 1, 1, 62) /\
  (o_kind o3, o_files o3, o_publics o3, o_cb o3) = (0, 1, 1, 62) /\
  o_ncb o1 <> o_ncb o3.
Proof. vm_compute. repeat split; try reflexivity; discriminate. Qed.
(* and an unterminated last line is an error under every schedule (F-C10b, fixed) *)
Example c10_nonvacuous_unterminated :
  let o1 := run_case ex_lines 3 [5; 5; 5] in
  let o3 := run_case ex_lines 3 [] in
  (o_kind o1, o_code o1, o_line o1, o_skind o1, o_scode o1) = (1, 4, 5, 1, 4) /\
  (o_kind o3, o_code o3, o_line o3) = (1, 4, 5).
Proof. vm_compute. split; reflexivity. Qed.

(* ================================================================== round 4 *)

(* Streamed = whole, on the real table, with the table known to EXIST: under any schedule the streamed parse of an
   input whose lines are shorter than 80 KiB ends with the verdict of the schedule-free specification, and that
   verdict is a symbol table or an error — SymbolParser::finish cannot panic (C09.ProofsFinish). *)
Theorem c10_streamed_equals_whole_defined :
  forall (lines : list rle) (tail : Z),
    short_lines cllen lines tail ->
    exists t, table_of (spec_c lines tail) = Ret t /\
      forall sch, exists s, drive_c lines tail sch = Ret (spec_c lines tail, s) /\
                            cbsum s = total s /\ (t <> None -> cbsum s = input_len rle cllen lines tail).
Proof.
  intros lines tail Hs.
  destruct (parse_total lines tail []) as [r0 [s0 [t [H0 T0]]]].
  destruct (table_chunk_independent lines tail Hs []) as [r1 [s1 [H1 [E1 _]]]].
  rewrite H0 in H1. inversion H1; subst r1 s1. subst r0.
  exists t. split; [exact T0|]. intros sch.
  destruct (table_chunk_independent lines tail Hs sch) as [r [s [H [E _]]]]. subst r.
  exists s. split; [exact H|].
  destruct (drive_callback rle cllen pst init_pst recog_pst bump_pst lineno_pst ProofsBytes.cllen_pos lines tail sch _ s H) as [C [_ A]].
  split; [exact C|]. intros Ht.
  destruct (spec_c lines tail) as [p|c ln] eqn:S; [apply (A p); reflexivity|].
  cbn [table_of] in T0. inversion T0; subst t. contradiction Ht; reflexivity.
Qed.
Print Assumptions c10_streamed_equals_whole_defined.

(* parse_async's loop in the model is the loop assembled from the conditions the translator extracts from
   parse_async's own source text (translate/symfile_loop.py; coq/Gen/SymFileLoop.v, the async_ definitions). *)
Theorem c10_async_loop_is_source :
  forall (L : Type) (llen : L -> Z) (PS : Type) (recog : PS -> L -> PS + Z) (bump : PS -> PS) (lineno : PS -> Z) s,
    step_async L llen PS recog bump lineno s = Pins.step_async_src L llen PS recog bump lineno s.
Proof. intros. apply Pins.pin_step. Qed.
Print Assumptions c10_async_loop_is_source.

(* non-vacuity: the async run the correspondence uses (run_async = drive_async + callback trace) on 3 chunks, and the
   loop assembled from parse_async's extracted conditions takes the same first step as the model *)
Example c10_nonvacuous_async_run :
  let '(o, t) := run_async ex_lines 0 [20; 1; 41] in
  (o_kind o, o_cb o, o_files o, 0 <? tr_events t) = (0, 62, 1, true).
Proof. vm_compute. reflexivity. Qed.

(* ================================================================== round 5: parse_async over ANY body.
   [drive_stream] (C10/Stream.v) is parse_async as a model of its own: the body of the reqwest::Response is a script of
   events — chunks of any size, EMPTY chunks, a failure at any point ([SFail]: response.chunk() returns Err) — and the
   refill block in front of the read is modelled as it is in the source since the F-C10c fix (empty chunks are skipped;
   before the fix an empty chunk read as 0 bytes = end of input: the parse ended early with Ok and a truncated table).
   [delivered script] = the bytes the body hands over before it ends or fails; the input IS those bytes. *)

(* All inputs, all bodies: parse_async returns (no panic, within the linear fuel), the callback got exactly the first
   total_consumed bytes of what was delivered, and all of it when the result is Ok. *)
Theorem c10_stream_total_prefix :
  forall (L : Type) (llen : L -> Z) (PS : Type) (init_ps : PS)
         (recog : PS -> L -> PS + Z) (bump : PS -> PS) (lineno : PS -> Z),
    (forall l, 1 <= llen l) ->
    forall (lines : list L) (tail : Z) (script : list sev),
    delivered script = input_len L llen lines tail ->
    exists r x, drive_stream L llen PS init_ps recog bump lineno lines tail script = Ret (r, x) /\
      cbsum (core x) = total (core x) /\ 0 <= total (core x) <= input_len L llen lines tail /\
      (forall p, r = ROk p -> cbsum (core x) = input_len L llen lines tail).
Proof. exact stream_total. Qed.
Print Assumptions c10_stream_total_prefix.

(* Chunk independence of parse_async at full strength: lines shorter than 80 KiB => for EVERY body the outcome is
   [spec_stream]: the schedule-free [spec] when the body is delivered in full (whatever the chunk sizes, wherever the
   empty chunks), and when the body fails: the error of the first delivered complete line the recogniser rejects,
   else the load error — never Ok. *)
Theorem c10_stream_chunk_independent :
  forall (L : Type) (llen : L -> Z) (PS : Type) (init_ps : PS)
         (recog : PS -> L -> PS + Z) (bump : PS -> PS) (lineno : PS -> Z),
    (forall l, 1 <= llen l) ->
    forall (lines : list L) (tail : Z),
    short_lines llen lines tail ->
    forall script : list sev, delivered script = input_len L llen lines tail ->
    exists x, drive_stream L llen PS init_ps recog bump lineno lines tail script
              = Ret (spec_stream L PS init_ps recog lineno lines tail script, x).
Proof. exact stream_is_spec. Qed.
Print Assumptions c10_stream_chunk_independent.

Theorem c10_stream_any_two_bodies :
  forall (L : Type) (llen : L -> Z) (PS : Type) (init_ps : PS)
         (recog : PS -> L -> PS + Z) (bump : PS -> PS) (lineno : PS -> Z),
    (forall l, 1 <= llen l) ->
    forall (lines : list L) (tail : Z), short_lines llen lines tail ->
    forall s1 s2, delivered s1 = input_len L llen lines tail -> delivered s2 = input_len L llen lines tail ->
    fails s1 = false -> fails s2 = false ->
    forall r1 x1 r2 x2,
    drive_stream L llen PS init_ps recog bump lineno lines tail s1 = Ret (r1, x1) ->
    drive_stream L llen PS init_ps recog bump lineno lines tail s2 = Ret (r2, x2) ->
    r1 = r2 /\ r1 = spec L PS init_ps recog lineno lines tail.
Proof. exact stream_two_scripts. Qed.
Print Assumptions c10_stream_any_two_bodies.

(* ALL inputs (over-long lines, recovery in progress, anything): a body that fails never yields a symbol table. *)
Theorem c10_stream_failed_body_never_ok :
  forall (L : Type) (llen : L -> Z) (PS : Type) (init_ps : PS)
         (recog : PS -> L -> PS + Z) (bump : PS -> PS) (lineno : PS -> Z),
    (forall l, 1 <= llen l) ->
    forall (lines : list L) (tail : Z) (script : list sev),
    delivered script = input_len L llen lines tail -> fails script = true ->
    forall r x, drive_stream L llen PS init_ps recog bump lineno lines tail script = Ret (r, x) ->
    forall p, r <> ROk p.
Proof. exact stream_fail_not_ok. Qed.
Print Assumptions c10_stream_failed_body_never_ok.

(* The refill block of the model is the one assembled from the guard and the match arms that translate/c10_stream.py
   extracts from parse_async's source (coq/Gen/C10Stream.v): which chunks are skipped, what the end of the body gives,
   that a failed chunk ends the parse. *)
Theorem c10_stream_refill_is_source :
  forall (cur : Z) (pend : list sev), refill cur pend = refill_src cur pend.
Proof. exact refill_is_source. Qed.
Print Assumptions c10_stream_refill_is_source.

(* What the correspondence run executes ([run_stream], with the callback trace) reports [drive_stream]. *)
Theorem c10_run_stream_is_drive_stream :
  forall lines tail script,
    drive_stream_c lines tail script =
    match fst (iter_tr_stream (fuel_for rle cllen lines tail)
                              (init_stream rle cllen pst init_pst lines tail script) init_tr) with
    | SNext _ => OutOfFuel
    | SDone r x => Ret (r, x)
    | SPanic t => Panic t
    end.
Proof. exact run_stream_is_drive_stream. Qed.
Print Assumptions c10_run_stream_is_drive_stream.

(* non-vacuity.  The 62-byte file of ex_lines; bodies: [20; EMPTY; 1; EMPTY; EMPTY; 41], then the same with a failure
   after 21 bytes (only `MODULE a b c d` is complete by then), and a failure before anything is delivered. *)
Example c10_nonvacuous_stream_empty_chunks :
  let script := [SChunk 20; SChunk 0; SChunk 1; SChunk 0; SChunk 0; SChunk 41] in
  delivered script = input_len rle cllen ex_lines 0 /\ fails script = false /\
  match run_stream ex_lines 0 script with
  | (o, t) => (o_kind o, o_cb o, o_files o, o_publics o, o_skind o)
  end = (0, 62, 1, 1, 0).
Proof. vm_compute. repeat split; reflexivity. Qed.

Definition ex_lines_21 : list rle := [ bl [77;79;68;85;76;69;32;97;32;98;32;99;32;100] ].   (* MODULE a b c d *)
Example c10_nonvacuous_stream_failure :
  let script := [SChunk 15; SChunk 0; SChunk 6; SFail; SChunk 41] in
  delivered script = input_len rle cllen ex_lines_21 6 /\ fails script = true /\
  short_lines cllen ex_lines_21 6 /\
  match run_stream ex_lines_21 6 script with
  | (o, t) => (o_kind o, o_code o, o_cb o, o_skind o, o_scode o)
  end = (1, 8, 15, 1, 8).
Proof.
  split; [vm_compute; reflexivity|]. split; [vm_compute; reflexivity|]. split.
  - unfold short_lines, ex_lines_21. split; [|apply Z.ltb_lt; vm_compute; reflexivity].
    repeat (apply Forall_cons; [apply Z.leb_le; vm_compute; reflexivity|]). apply Forall_nil.
  - vm_compute. reflexivity.
Qed.

(* a rejected line among the delivered ones wins over the failure of the body: `FOO` is not a record *)
Example c10_nonvacuous_stream_failure_after_bad_line :
  let lines := [ bl [77;79;68;85;76;69;32;97;32;98;32;99;32;100]; bl [70;79;79] ] in
  let script := [SChunk 19; SFail] in
  delivered script = input_len rle cllen lines 0 /\
  match run_stream lines 0 script with
  | (o, t) => (o_kind o, o_code o, o_line o, o_skind o, o_scode o, o_sline o)
  end = (1, 1, 1, 1, 1, 1).
Proof. vm_compute. split; reflexivity. Qed.

(* ================================================================== round 5: the class is exactly as wide as it can be.
   c10_chunk_independent needs every line to have at most HALF_CAP = 81920 bytes with its '\n' (content < 80 KiB).
   With a single line of HALF_CAP + 1 bytes (content = 80 KiB exactly) and every other line inside the class there
   are two schedules with different symbol tables: 10240-byte reads keep the line (5 FILE records), the whole-slice
   read (from_bytes) discards it as an "enormous line" (4 FILE records).  Replayed on the real code (corpus). *)
Theorem c10_bound_is_tight :
  exists (lines : list rle) (s1 s2 : list Z) r1 x1 r2 x2 t1 t2,
    Forall (fun l => cllen l <= HALF_CAP + 1) lines /\
    drive_c lines 0 s1 = Ret (r1, x1) /\ drive_c lines 0 s2 = Ret (r2, x2) /\
    table_of r1 = Ret (Some t1) /\ table_of r2 = Ret (Some t2) /\
    zlen (t_files t1) = 5 /\ zlen (t_files t2) = 4 /\ t1 <> t2.
Proof. exact bound_tight. Qed.
Print Assumptions c10_bound_is_tight.

(* The other end of the alignment-dependent band: a line of MAX_CAP = 163840 bytes with its '\n' (content 160 KiB - 1)
   is kept under one schedule and discarded under another; from MAX_CAP + 1 on it is discarded under every schedule
   (c09_long_line_dropped).  So the band is exactly 80 KiB <= content < 160 KiB at both ends. *)
Theorem c10_band_top_dependent :
  exists (lines : list rle) (s1 s2 : list Z) r1 x1 r2 x2 t1 t2,
    Forall (fun l => cllen l <= MAX_CAP) lines /\
    drive_c lines 0 s1 = Ret (r1, x1) /\ drive_c lines 0 s2 = Ret (r2, x2) /\
    table_of r1 = Ret (Some t1) /\ table_of r2 = Ret (Some t2) /\
    zlen (t_files t1) <> zlen (t_files t2).
Proof. exact band_top_dependent. Qed.
Print Assumptions c10_band_top_dependent.

(* parse_async on the real symbol table: any non-failing body (chunks of any size, empty chunks anywhere) delivering an input
   whose lines are shorter than 80 KiB ends with the schedule-free verdict; the verdict is a table or an error, never a
   panic of finish(); the callback got a prefix and, when it is a table, everything. *)
Theorem c10_stream_table_chunk_independent :
  forall (lines : list rle) (tail : Z) (script : list sev),
    short_lines cllen lines tail -> delivered script = input_len rle cllen lines tail -> fails script = false ->
    exists t x, table_of (spec_c lines tail) = Ret t /\
                drive_stream_c lines tail script = Ret (spec_c lines tail, x) /\
                cbsum (core x) = total (core x) /\ (t <> None -> cbsum (core x) = input_len rle cllen lines tail).
Proof. exact stream_table. Qed.
Print Assumptions c10_stream_table_chunk_independent.

(* F-C10c, stated on the model of the loop as it was before the fix ([step_stream_old]: the refill block takes one chunk,
   empty or not): `MODULE a b c d / FILE 1 x / PUBLIC 20 0 g` as chunks [15; EMPTY; 23] — old loop: Ok, callback 15 of 38
   bytes, no FILE, no PUBLIC; fixed loop ([drive_stream]): Ok, 38 bytes, both records.  The same witness was replayed on the
   real parse_async before and after the fix (corpus/C10/cases.txt). *)
Theorem c10_old_refill_refuted :
  let script := [SChunk 15; SChunk 0; SChunk 23] in
  short_lines cllen f10c_lines 0 /\ delivered script = input_len rle cllen f10c_lines 0 /\ fails script = false /\
  (exists p x t, iter_old 20 (init_stream rle cllen pst init_pst f10c_lines 0 script) = SDone (ROk p) x /\
                 cbsum (core x) = 15 /\ table_of (ROk p) = Ret (Some t) /\ zlen (t_files t) = 0 /\ zlen (t_publics t) = 0) /\
  (exists p x t, drive_stream rle cllen pst init_pst recog_pst bump_pst lineno_pst f10c_lines 0 script = Ret (ROk p, x) /\
                 cbsum (core x) = 38 /\ table_of (ROk p) = Ret (Some t) /\ zlen (t_files t) = 1 /\ zlen (t_publics t) = 1).
Proof. exact old_refill_refuted. Qed.
Print Assumptions c10_old_refill_refuted.

(* What the callback (in fetch_symbol_file: the symbol-cache writer) has been given when the body fails and no delivered
   complete line is rejected: exactly the complete lines that were delivered, not the unterminated rest; the outcome is the
   load error.  (Lines shorter than 80 KiB, any body that fails.) *)
Theorem c10_stream_failed_body_callback :
  forall (L : Type) (llen : L -> Z) (PS : Type) (init_ps : PS)
         (recog : PS -> L -> PS + Z) (bump : PS -> PS) (lineno : PS -> Z),
    (forall l, 1 <= llen l) ->
    forall (lines : list L) (tail : Z), short_lines llen lines tail ->
    forall (script : list sev) (p0 : PS),
    delivered script = input_len L llen lines tail -> fails script = true ->
    fold_recog L PS recog lineno init_ps lines = inl p0 ->
    exists x, drive_stream L llen PS init_ps recog bump lineno lines tail script = Ret (RErr LOAD_ERROR 0, x) /\
              cbsum (core x) = size L llen lines.
Proof. exact stream_failed_cb. Qed.
Print Assumptions c10_stream_failed_body_callback.

(* ------------------------------------------------------------------ round 5, second pass: the interior of the band *)

(* Lines of 80 KiB and more are chunk-dependent ONLY through reads of more than 80 KiB.  All inputs whose lines
   fit the largest buffer (content < 160 KiB: [wide_lines]), every reader whose read() calls never return more
   than HALF_CAP = 81920 bytes ([fine_sched]; the schedule must not run out before the input does, because a
   used-up schedule is the whole-slice reader): the outcome is [spec], the schedule-free verdict, exactly as for
   lines shorter than 80 KiB (recovery needs ONE read of at least 81921 bytes that fills the 160 KiB buffer). *)
Theorem c10_fine_reads_exact :
  forall (L : Type) (llen : L -> Z) (PS : Type) (init_ps : PS)
         (recog : PS -> L -> PS + Z) (bump : PS -> PS) (lineno : PS -> Z),
    (forall l, 1 <= llen l) ->
    forall (lines : list L) (tail : Z),
    wide_lines llen lines tail ->
    forall sch : list Z, fine_sched sch (input_len L llen lines tail) ->
    exists s, drive L llen PS init_ps recog bump lineno lines tail sch
              = Ret (spec L PS init_ps recog lineno lines tail, s).
Proof. exact fine_drive_is_spec. Qed.
Print Assumptions c10_fine_reads_exact.

(* The same for parse_async: a body whose chunks are at most 80 KiB each (empty chunks anywhere, a failure
   anywhere) gives [spec_stream] on every input whose lines are shorter than 160 KiB. *)
Theorem c10_stream_fine_chunks_exact :
  forall (L : Type) (llen : L -> Z) (PS : Type) (init_ps : PS)
         (recog : PS -> L -> PS + Z) (bump : PS -> PS) (lineno : PS -> Z),
    (forall l, 1 <= llen l) ->
    forall (lines : list L) (tail : Z),
    wide_lines llen lines tail ->
    forall script : list sev,
    delivered script = input_len L llen lines tail -> fine_body script ->
    exists x, drive_stream L llen PS init_ps recog bump lineno lines tail script
              = Ret (spec_stream L PS init_ps recog lineno lines tail script, x).
Proof. exact fine_stream_is_spec. Qed.
Print Assumptions c10_stream_fine_chunks_exact.

(* EVERY line length in the band is chunk-dependent, for every recogniser: |A| = |A'| = 80 KiB exactly (the
   longest lines of the class), B any line of at most 40 KiB, X any line with 81920 < |X| <= 163840, A, B, A'
   accepted.  Read from a slice (schedule [] = from_bytes) the file A/B/A'/X is Ok with X DROPPED (line counter
   bumped, the recogniser never sees X); under every fine reader the outcome is what the recogniser says about X.
   The two differ whenever [recog p3 X <> inl (bump p3)], e.g. for every FILE/PUBLIC/FUNC record and for every
   malformed line.  ([c10_bound_is_tight] / [c10_band_top_dependent] were the two end points.) *)
Theorem c10_band_everywhere_dependent :
  forall (L : Type) (llen : L -> Z) (PS : Type) (init_ps : PS)
         (recog : PS -> L -> PS + Z) (bump : PS -> PS) (lineno : PS -> Z),
    (forall l, 1 <= llen l) ->
    forall (A B A' X : L) (p1 p2 p3 : PS),
    llen A = 81920 -> 1 <= llen B <= 40960 -> llen A' = 81920 -> 81920 < llen X <= 163840 ->
    recog init_ps A = inl p1 -> recog p1 B = inl p2 -> recog p2 A' = inl p3 ->
    (exists s, drive L llen PS init_ps recog bump lineno [A; B; A'; X] 0 [] = Ret (ROk (bump p3), s) /\
               log s = [(true, X); (false, A'); (false, B); (false, A)]) /\
    (forall sch, fine_sched sch (input_len L llen [A; B; A'; X] 0) ->
       exists s, drive L llen PS init_ps recog bump lineno [A; B; A'; X] 0 sch
                 = Ret (match recog p3 X with inl p4 => ROk p4 | inr c => RErr c (lineno p3) end, s)).
Proof. exact band_everywhere. Qed.
Print Assumptions c10_band_everywhere_dependent.

(* non-vacuity on the real recogniser: MODULE Linux x86 0 a{81900} / FILE 1 aaa / FILE 2 a{81912} / FILE 3 a{n}
   with a band line of 100000 bytes; 4096-byte reads keep FILE 3, the whole-slice read drops it *)
Definition band_ex (n : Z) : list rle :=
  [ lit [77;79;68;85;76;69;32;76;105;110;117;120;32;120;56;54;32;48;32] ++ [(97, 81900)];
    file_line [49] 3; file_line [50] 81912; file_line [51] n ].
Example c10_nonvacuous_band_file :
  map cllen (band_ex 99992) = [81920; 11; 81920; 100000] /\
  wide_lines cllen (band_ex 99992) 0 /\
  fine_sched (repeat 4096 (Z.to_nat 263851)) (input_len rle cllen (band_ex 99992) 0).
Proof.
  split; [vm_compute; reflexivity|]. split.
  - split; [|reflexivity]. unfold band_ex. repeat (apply Forall_cons; [apply Z.leb_le; vm_compute; reflexivity|]). apply Forall_nil.
  - split; [apply Forall_forall; intros c Hc; apply repeat_spec in Hc; subst c; apply Z.leb_le; reflexivity|].
    rewrite repeat_length. vm_compute. discriminate.
Qed.
Example c10_nonvacuous_band_runs :
  exists r1 x1 r2 x2 t1 t2,
    drive_c (band_ex 99992) 0 (repeat 4096 100) = Ret (r1, x1) /\ drive_c (band_ex 99992) 0 [] = Ret (r2, x2) /\
    table_of r1 = Ret (Some t1) /\ table_of r2 = Ret (Some t2) /\
    zlen (t_files t1) = 3 /\ zlen (t_files t2) = 2.
Proof.
  do 6 eexists.
  split; [vm_compute; reflexivity|]. split; [vm_compute; reflexivity|].
  split; [vm_compute; reflexivity|]. split; [vm_compute; reflexivity|].
  split; vm_compute; reflexivity.
Qed.

(* ------------------------------------------------------------------ a sync reader whose read() fails (C10/ReadFail.v) *)

(* The run with a reader whose k-th read() call returns Err is the undisturbed run, or the undisturbed run stopped
   at the head of the iteration that would have issued read number k (after its recovery block), ending with
   SymbolError::LoadError.  All inputs, all schedules, any k. *)
Theorem c10_read_error_is_cut :
  forall (L : Type) (llen : L -> Z) (PS : Type) (init_ps : PS)
         (recog : PS -> L -> PS + Z) (bump : PS -> PS) (lineno : PS -> Z)
         (lines : list L) (tail : Z) (sch : list Z) (k : Z), 0 <= k ->
    drive_rf L llen PS init_ps recog bump lineno lines tail sch k
      = drive L llen PS init_ps recog bump lineno lines tail sch \/
    exists (j : nat) sj,
      iter_nat L llen PS recog bump lineno j (init_st L llen PS init_ps lines tail sch) = Next sj /\ nrd sj = k /\
      drive_rf L llen PS init_ps recog bump lineno lines tail sch k
        = Ret (RErr LOAD_ERROR 0, mid L llen PS bump sj).
Proof. exact rf_drive_cut. Qed.
Print Assumptions c10_read_error_is_cut.

(* ... hence (all inputs): it returns within the fuel without a panic, the callback has been given a prefix of the
   input, an Ok result is the Ok of the undisturbed run with everything handed to the callback (the failing read was
   never issued), and otherwise the result is the undisturbed one or the load error: a failed read never yields a
   table (the analogue of c10_stream_failed_body_never_ok for SymbolFile::parse). *)
Theorem c10_read_error_total_prefix :
  forall (L : Type) (llen : L -> Z) (PS : Type) (init_ps : PS)
         (recog : PS -> L -> PS + Z) (bump : PS -> PS) (lineno : PS -> Z),
    (forall l, 1 <= llen l) ->
    forall (lines : list L) (tail : Z) (sch : list Z) (k : Z), 0 <= k ->
    exists r s, drive_rf L llen PS init_ps recog bump lineno lines tail sch k = Ret (r, s) /\
      cbsum s = total s /\ 0 <= total s <= input_len L llen lines tail /\
      (forall p, r = ROk p -> cbsum s = input_len L llen lines tail /\
                              drive L llen PS init_ps recog bump lineno lines tail sch = Ret (ROk p, s)) /\
      (drive L llen PS init_ps recog bump lineno lines tail sch = Ret (r, s) \/ (r = RErr LOAD_ERROR 0 /\ nrd s = k)).
Proof. exact rf_total. Qed.
Print Assumptions c10_read_error_total_prefix.

(* Lines shorter than 80 KiB: whatever the schedule and wherever the reader fails, the outcome is the schedule-free
   verdict or the load error; in the second case the callback has been given complete lines only. *)
Theorem c10_read_error_chunk_independent :
  forall (L : Type) (llen : L -> Z) (PS : Type) (init_ps : PS)
         (recog : PS -> L -> PS + Z) (bump : PS -> PS) (lineno : PS -> Z),
    (forall l, 1 <= llen l) ->
    forall (lines : list L) (tail : Z),
    short_lines llen lines tail ->
    forall (sch : list Z) (k : Z), 0 <= k ->
    exists s,
      drive_rf L llen PS init_ps recog bump lineno lines tail sch k
        = Ret (spec L PS init_ps recog lineno lines tail, s) \/
      (drive_rf L llen PS init_ps recog bump lineno lines tail sch k = Ret (RErr LOAD_ERROR 0, s) /\ nrd s = k /\
       exists done todo, lines = done ++ todo /\ cbsum s = size L llen done).
Proof. exact rf_short. Qed.
Print Assumptions c10_read_error_chunk_independent.

(* non-vacuity: the 62-byte example read 7 bytes at a time: 10 reads (9 with data, 1 EOF); a failure at read 0..9 is
   the load error with 0 .. 55 callback bytes (complete lines), a failure at read 10 is never reached: Ok, 62 bytes *)
Example c10_nonvacuous_read_error :
  let o3 := run_rfail ex_lines 0 (repeat 7 20) 3 in
  let o9 := run_rfail ex_lines 0 (repeat 7 20) 9 in
  let o10 := run_rfail ex_lines 0 (repeat 7 20) 10 in
  (o_kind o3, o_code o3, o_cb o3, o_nrd o3) = (1, 8, 15, 3) /\
  (o_kind o9, o_code o9, o_nrd o9) = (1, 8, 9) /\
  (o_kind o10, o_cb o10, o_nrd o10, o_files o10) = (0, 62, 10, 1).
Proof. vm_compute. repeat split; reflexivity. Qed.
