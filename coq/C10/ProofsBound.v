(* C10/ProofsBound.v — the class of C10 cannot be widened: with ONE line of exactly 80 KiB of content
   (81921 bytes with its '\n' = HALF_CAP + 1, every other line within the class) the outcome depends on
   the chunking.  Witness (found by random search on the real code, replayed there: corpus/C10/cases.txt):
     MODULE Linux x86 ABC name / FILE 0 a{81912} / FILE 1 aaa / FILE 2 a{81912} / FILE 99 a{81912} / FILE 100 a{10}
   read in 10240-byte chunks: all five FILE records; read from a slice (from_bytes): `FILE 99 ...` is
   discarded as an "enormous line" (the buffer is at 160 KiB, full, 80 KiB of it consumed). *)
From Coq Require Import ZArith List Bool.
From RM Require Import Base.Word C08.Model C11.Model C09.Model C09.Grammar C09.Driver C10.Model.
Import ListNotations.
Open Scope Z_scope.

Definition lit (bs : list Z) : rle := map (fun b => (b, 1)) bs.
(* `FILE <digits> a{n}` *)
Definition file_line (d : list Z) (n : Z) : rle := lit ([70;73;76;69;32] ++ d ++ [32]) ++ [(97, n)].
Definition bound_witness : list rle :=
  [ lit [77;79;68;85;76;69;32;76;105;110;117;120;32;120;56;54;32;65;66;67;32;110;97;109;101];
    file_line [48] 81912; file_line [49] 3; file_line [50] 81912; file_line [57;57] 81912; file_line [49;48;48] 10 ].

Lemma bound_witness_lengths : map cllen bound_witness = [26; 81920; 11; 81920; HALF_CAP + 1; 20].
Proof. vm_compute. reflexivity. Qed.

Lemma bound_tight :
  exists (lines : list rle) (s1 s2 : list Z) r1 x1 r2 x2 t1 t2,
    Forall (fun l => cllen l <= HALF_CAP + 1) lines /\
    drive_c lines 0 s1 = Ret (r1, x1) /\ drive_c lines 0 s2 = Ret (r2, x2) /\
    table_of r1 = Ret (Some t1) /\ table_of r2 = Ret (Some t2) /\
    zlen (t_files t1) = 5 /\ zlen (t_files t2) = 4 /\ t1 <> t2.
Proof.
  exists bound_witness, (repeat 10240 26), []. do 6 eexists.
  split.
  { unfold bound_witness. repeat (apply Forall_cons; [apply Z.leb_le; vm_compute; reflexivity|]). apply Forall_nil. }
  split; [vm_compute; reflexivity|]. split; [vm_compute; reflexivity|].
  split; [vm_compute; reflexivity|]. split; [vm_compute; reflexivity|].
  split; [vm_compute; reflexivity|]. split; [vm_compute; reflexivity|].
  intros H. apply (f_equal (fun t => zlen (t_files t))) in H. vm_compute in H. discriminate.
Qed.

(* ... and so is the other end of the band: a line of 160 KiB - 1 bytes of content (163840 with its '\n' = MAX_CAP:
   it fits the largest buffer exactly).  One more byte and it is dropped under EVERY schedule (c09_long_line_dropped). *)
Definition band_top_witness : list rle :=
  [ lit [77;79;68;85;76;69;32;76;105;110;117;120;32;120;56;54;32;65;66;67;32;110;97;109;101];
    file_line [48] 81912; file_line [49] 3; file_line [50] 81912; file_line [57;57] 163831 ].

Lemma band_top_dependent :
  exists (lines : list rle) (s1 s2 : list Z) r1 x1 r2 x2 t1 t2,
    Forall (fun l => cllen l <= MAX_CAP) lines /\
    drive_c lines 0 s1 = Ret (r1, x1) /\ drive_c lines 0 s2 = Ret (r2, x2) /\
    table_of r1 = Ret (Some t1) /\ table_of r2 = Ret (Some t2) /\
    zlen (t_files t1) <> zlen (t_files t2).
Proof.
  exists band_top_witness, (repeat 40960 10), []. do 6 eexists.
  split.
  { unfold band_top_witness. repeat (apply Forall_cons; [apply Z.leb_le; vm_compute; reflexivity|]). apply Forall_nil. }
  split; [vm_compute; reflexivity|]. split; [vm_compute; reflexivity|].
  split; [vm_compute; reflexivity|]. split; [vm_compute; reflexivity|].
  vm_compute. discriminate.
Qed.
