(* C10/OldRefill.v — parse_async as it was BEFORE the F-C10c fix (/repo 29e7bfd), kept only to state the defect:
   the refill block took ONE chunk, `response.chunk().await?.unwrap_or_default()`, so an empty chunk left the
   slice empty, the read returned 0 bytes into a non-empty buffer slice, and the loop took that for the end of the
   input.  [step_stream_old] is [step_stream] (C10/Stream.v) with that refill block; nothing else differs. *)
From Coq Require Import ZArith List Bool.
From RM Require Import Base.Word C08.Model C11.Model C09.Model C09.Grammar C09.Driver C10.Model C10.Stream.
Import ListNotations.
Open Scope Z_scope.

Definition refill_old (cur : Z) (pend : list sev) : option (Z * list sev) :=
  if cur <=? 0 then
    match pend with
    | [] => Some (0, [])
    | SChunk n :: t => Some (Z.max 0 n, t)          (* an empty chunk is handed to the reader as it is *)
    | SFail :: _ => None
    end
  else Some (cur, pend).

Definition step_stream_old (x : @sst rle pst) : @sres rle pst :=
  let s0 := core x in
  if pr s0 && negb (geom_ok (buf s0)) then SPanic 2 else
  let s1 := if pr s0 then recovery rle cllen pst bump_pst s0 else s0 in
  match refill_old (cur x) (pend x) with
  | None => SDone (RErr LOAD_ERROR 0) (mk_sst s1 0 [])
  | Some (c1, pend1) =>
      let b := buf s1 in
      if negb (geom_ok b) then SPanic 1 else
      let sp := space b in
      let n := Z.max 0 (Z.min sp c1) in
      wrap rle pst (c1 - n) pend1 (step_after_read rle cllen pst recog_pst lineno_pst n [] sp s1)
  end.

Fixpoint iter_old (n : nat) (x : @sst rle pst) : @sres rle pst :=
  match n with
  | O => SNext x
  | S n' => match step_stream_old x with SNext x1 => iter_old n' x1 | r => r end
  end.

Definition lit (bs : list Z) : rle := map (fun b => (b, 1)) bs.
(* MODULE a b c d / FILE 1 x / PUBLIC 20 0 g : 15 + 9 + 14 = 38 bytes *)
Definition f10c_lines : list rle :=
  [ lit [77;79;68;85;76;69;32;97;32;98;32;99;32;100];
    lit [70;73;76;69;32;49;32;120];
    lit [80;85;66;76;73;67;32;50;48;32;48;32;103] ].

(* the same three chunks with an empty one after the first line: the old loop returns Ok after 15 of the 38 bytes with a
   table that has no FILE and no PUBLIC record; the schedule-free verdict (and the fixed loop) has both *)
Lemma old_refill_refuted :
  let script := [SChunk 15; SChunk 0; SChunk 23] in
  short_lines cllen f10c_lines 0 /\ delivered script = input_len rle cllen f10c_lines 0 /\ fails script = false /\
  (exists p x t, iter_old 20 (init_stream rle cllen pst init_pst f10c_lines 0 script) = SDone (ROk p) x /\
                 cbsum (core x) = 15 /\ table_of (ROk p) = Ret (Some t) /\ zlen (t_files t) = 0 /\ zlen (t_publics t) = 0) /\
  (exists p x t, drive_stream rle cllen pst init_pst recog_pst bump_pst lineno_pst f10c_lines 0 script = Ret (ROk p, x) /\
                 cbsum (core x) = 38 /\ table_of (ROk p) = Ret (Some t) /\ zlen (t_files t) = 1 /\ zlen (t_publics t) = 1).
Proof.
  cbn zeta. split.
  { unfold short_lines, f10c_lines. split; [|apply Z.ltb_lt; vm_compute; reflexivity].
    repeat (apply Forall_cons; [apply Z.leb_le; vm_compute; reflexivity|]). apply Forall_nil. }
  split; [vm_compute; reflexivity|]. split; [reflexivity|]. split.
  - do 3 eexists. split; [vm_compute; reflexivity|]. repeat split; vm_compute; reflexivity.
  - do 3 eexists. split; [vm_compute; reflexivity|]. repeat split; vm_compute; reflexivity.
Qed.
