(* C10/ReadFail.v — SymbolFile::parse over a reader whose read() FAILS: `let size = input_reader.read(buf.space())?;`
   returns Err(io::Error) at the k-th call (k = 0 for the first call; calls into an empty slice count: [nrd] counts
   every call).  `?` converts it with `#[from] io::Error` into SymbolError::LoadError: result code LOAD_ERROR = 8.
   Everything else is C09's loop.  Definitions only (this file is extracted). *)
From Coq Require Import ZArith List Bool.
From RM Require Import Base.Word C09.Model C10.Stream.
Import ListNotations.
Open Scope Z_scope.

Section ReadFail.
  Variable L : Type.
  Variable llen : L -> Z.
  Variable PS : Type.
  Variable init_ps : PS.
  Variable recog : PS -> L -> PS + Z.
  Variable bump : PS -> PS.
  Variable lineno : PS -> Z.

  (* one iteration of `loop { ... }`: the recovery block, then `buf.space()` (index-checked), then the read *)
  Definition step_rf (k : Z) (s0 : st L PS) : stepres L PS :=
    if pr s0 && negb (geom_ok (buf s0)) then StPanic 2 else
    let s1 := if pr s0 then recovery L llen PS bump s0 else s0 in
    if negb (geom_ok (buf s1)) then StPanic 1 else
    if nrd s1 =? k then Done (RErr LOAD_ERROR 0) s1            (* `?` *)
    else step_rest L llen PS recog lineno s1.

  Fixpoint iter_rf (k : Z) (p : positive) (s : st L PS) : stepres L PS :=
    match p with
    | xH => step_rf k s
    | xO q => match iter_rf k q s with Next s1 => iter_rf k q s1 | r => r end
    | xI q => match step_rf k s with
              | Next s1 => match iter_rf k q s1 with Next s2 => iter_rf k q s2 | r => r end
              | r => r
              end
    end.

  Definition drive_rf (lines : list L) (tail : Z) (sch : list Z) (k : Z) : outcome (result PS * st L PS) :=
    match iter_rf k (fuel_for L llen lines tail) (init_st L llen PS init_ps lines tail sch) with
    | Next _ => OutOfFuel
    | Done r s => Ret (r, s)
    | StPanic t => Panic t
    end.
End ReadFail.
