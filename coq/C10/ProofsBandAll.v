(* C10/ProofsBandAll.v — the 80..160 KiB band is chunk-dependent at EVERY line length, for every recogniser.
   The file  A / B / A' / X  with |A| = |A'| = 81920 bytes (the longest lines of C10's class), 1 <= |B| <= 40960 and
   81920 < |X| <= 163840 (any length in the band):  read from a slice (from_bytes: every read fills all of space())
   X is discarded as an "enormous line" ([whole_slice_drops], by running the 13 loop iterations symbolically in |B|
   and |X|); under any reader whose reads return at most 80 KiB X is handed to the recogniser ([fine_keeps], a
   corollary of ProofsFine.fine_drive_is_spec). *)
From Coq Require Import Lia ZArith List Bool.
From RM Require Import Base.Word C09.Model C09.Proofs C10.Model C10.Proofs.
From RM Require Import C10.Band C10.ProofsFine.
Import ListNotations.
Open Scope Z_scope.

Ltac Zify.zify_post_hook ::= Z.div_mod_to_equations.

Ltac zb1 :=
  match goal with
  | |- context [Z.min ?a ?b] => first [rewrite (Z.min_l a b) by lia | rewrite (Z.min_r a b) by lia]
  | |- context [Z.max ?a ?b] => first [rewrite (Z.max_l a b) by lia | rewrite (Z.max_r a b) by lia]
  | |- context [?a <=? ?b] =>
      first [ replace (a <=? b) with true by (symmetry; apply Z.leb_le; lia)
            | replace (a <=? b) with false by (symmetry; apply Z.leb_gt; lia) ]
  | |- context [?a <? ?b] =>
      first [ replace (a <? b) with true by (symmetry; apply Z.ltb_lt; lia)
            | replace (a <? b) with false by (symmetry; apply Z.ltb_ge; lia) ]
  | |- context [?a =? ?b] =>
      first [ replace (a =? b) with true by (symmetry; apply Z.eqb_eq; lia)
            | replace (a =? b) with false by (symmetry; apply Z.eqb_neq; lia) ]
  end.
Ltac zb := repeat (zb1; cbn [andb orb negb]).

Section BandAll.
  Variable L : Type.
  Variable llen : L -> Z.
  Variable PS : Type.
  Variable init_ps : PS.
  Variable recog : PS -> L -> PS + Z.
  Variable bump : PS -> PS.
  Variable lineno : PS -> Z.
  Hypothesis llen_pos : forall l, 1 <= llen l.
  Variables A B A' X : L.
  Variables p1 p2 p3 : PS.
  Hypothesis HA : llen A = 81920.
  Hypothesis HB : 1 <= llen B <= 40960.
  Hypothesis HA' : llen A' = 81920.
  Hypothesis HX : 81920 < llen X <= 163840.
  Hypothesis RA : recog init_ps A = inl p1.
  Hypothesis RB : recog p1 B = inl p2.
  Hypothesis RA' : recog p2 A' = inl p3.

  Local Notation step := (step L llen PS recog bump lineno).
  Local Notation iter_nat := (iter_nat L llen PS recog bump lineno).
  Local Notation init_st := (init_st L llen PS init_ps).

  Lemma iter_nat_S : forall n s, iter_nat (S n) s = match step s with Next s1 => iter_nat n s1 | r => r end.
  Proof. reflexivity. Qed.

  Ltac projs := cbn [buf fc tg pr jf total ps rest off unread sched ncb cbsum nrd maxsp log b_pos b_end b_cap].
  Ltac norm :=
    match goal with
    | |- context [@mkst _ _ (mkbuf ?p ?e ?c) _ _ _ _ ?tot _ _ ?o ?unr _ ?nc ?cb ?nr ?ms _] =>
        ring_simplify p e c tot o unr nc cb nr ms
    end.
  Ltac stp :=
    rewrite iter_nat_S;
    unfold Model.step at 1; projs; cbn [andb negb];
    unfold geom_ok; projs; zb;
    unfold Model.recovery, Model.first_nl, Model.discard_all, avail; projs; rewrite ?HA, ?HA'; zb; projs;
    unfold consume, shift, avail; projs; zb; projs; zb; try norm;
    unfold Model.step_rest, geom_ok, space, avail, Model.read_n; projs;
    rewrite ?HA, ?HA'; zb;
    unfold Model.step_after_read, fill, shift, space, avail, grow, set_pr, set_tg, set_buf_tg, MAX_CAP, U64MAX; projs;
    rewrite ?HA, ?HA'; zb; projs; zb;
    try (unfold Model.parse_phase, geom_ok, avail, consume, shift, avail; projs; zb; cbn [Model.pm];
         rewrite ?HA, ?HA', ?RA, ?RB, ?RA'; zb; cbn [Model.pm]; rewrite ?HA, ?HA', ?RA, ?RB, ?RA'; zb; projs; zb);
    try norm.

  Definition band_file : list L := [A; B; A'; X].
  Definition band_log : list (bool * L) := [(true, X); (false, A'); (false, B); (false, A)].

  (* 13 iterations of the loop under the whole-slice reader ([sched = []]: every read fills all of space()):
     10-20-40-80 KiB until A fits exactly and is consumed; the next read holds B and the first 81920 - |B| bytes of
     A': B is consumed, the buffer is full -> 160 KiB; the read that fills it holds A' and 81920 bytes of X; A' is
     consumed (exactly half of the buffer: no shift), the buffer is full, cannot grow: X is an "enormous line". *)
  Lemma whole_slice_run : exists s,
    iter_nat 13 (init_st band_file 0 []) = Done (ROk (bump p3)) s /\ log s = band_log.
  Proof.
    unfold band_file, band_log, Model.init_st, input_len, INITIAL_CAP. cbn [Model.size]. rewrite HA, HA'.
    stp. stp. stp. stp. stp. stp. stp. stp. stp. stp. stp. stp.
    match goal with |- context [if ?c then _ else _] => destruct c end.
    - stp. eexists. split; reflexivity.
    - stp. eexists. split; reflexivity.
  Qed.

  Lemma iter_nat_done_mono : forall n m s r s', (n <= m)%nat ->
    iter_nat n s = Done r s' -> iter_nat m s = Done r s'.
  Proof.
    induction n as [|n IH]; intros m s r s' Hm H; [discriminate|].
    destruct m as [|m]; [lia|]. cbn [Proofs.iter_nat] in *.
    destruct (step s) as [s1|r1 s1|t]; try exact H. apply IH; [lia|exact H].
  Qed.

  Local Notation drive := (drive L llen PS init_ps recog bump lineno).
  Local Notation spec := (spec L PS init_ps recog lineno).

  Lemma whole_slice_drops : exists s,
    drive band_file 0 [] = Ret (ROk (bump p3), s) /\ log s = band_log.
  Proof.
    destruct whole_slice_run as [s [H1 H2]]. exists s. split; [|exact H2].
    assert (Hfuel : (13 <= Pos.to_nat (fuel_for L llen band_file 0))%nat).
    { unfold fuel_for, input_len, band_file. cbn [Model.size]. rewrite HA, HA'.
      match goal with |- (_ <= Pos.to_nat (Z.to_pos ?e))%nat => set (z := e) end.
      assert (Hz : 13 <= z) by (subst z; lia).
      clearbody z. destruct z as [|p|p]; try lia. }
    unfold Model.drive. rewrite iter_pos_nat.
    rewrite (iter_nat_done_mono 13 _ _ _ _ Hfuel H1). reflexivity.
  Qed.

  Definition band_spec : result PS :=
    match recog p3 X with inl p4 => ROk p4 | inr c => RErr c (lineno p3) end.

  Lemma band_spec_is_spec : spec band_file 0 = band_spec.
  Proof.
    unfold Model.spec, band_file, band_spec. cbn [Model.fold_recog]. rewrite RA, RB, RA'.
    destruct (recog p3 X); reflexivity.
  Qed.

  Lemma band_file_wide : wide_lines llen band_file 0.
  Proof.
    split; [|unfold MAX_CAP; lia]. unfold band_file, MAX_CAP.
    repeat (apply Forall_cons; [lia|]). apply Forall_nil.
  Qed.

  Lemma fine_keeps : forall sch, fine_sched sch (input_len L llen band_file 0) ->
    exists s, drive band_file 0 sch = Ret (band_spec, s).
  Proof.
    intros sch Hf. rewrite <- band_spec_is_spec.
    exact (fine_drive_is_spec L llen PS init_ps recog bump lineno llen_pos band_file 0 band_file_wide sch Hf).
  Qed.
End BandAll.

Lemma band_everywhere :
  forall (L : Type) (llen : L -> Z) (PS : Type) (init_ps : PS)
         (recog : PS -> L -> PS + Z) (bump : PS -> PS) (lineno : PS -> Z),
    (forall l, 1 <= llen l) ->
    forall (A B A' X : L) (p1 p2 p3 : PS),
    llen A = 81920 -> 1 <= llen B <= 40960 -> llen A' = 81920 -> 81920 < llen X <= 163840 ->
    recog init_ps A = inl p1 -> recog p1 B = inl p2 -> recog p2 A' = inl p3 ->
    (exists s, drive L llen PS init_ps recog bump lineno [A; B; A'; X] 0 [] = Ret (ROk (bump p3), s) /\
               log s = [(true, X); (false, A'); (false, B); (false, A)]) /\
    (forall sch, fine_sched sch (input_len L llen [A; B; A'; X] 0) ->
       exists s, drive L llen PS init_ps recog bump lineno [A; B; A'; X] 0 sch
                 = Ret (match recog p3 X with inl p4 => ROk p4 | inr c => RErr c (lineno p3) end, s)).
Proof.
  intros L llen PS init_ps recog bump lineno Hl A B A' X p1 p2 p3 HA HB HA' HX RA RB RA'. split.
  - eapply whole_slice_drops; eassumption.
  - eapply fine_keeps; eassumption.
Qed.
