(* C10/ProofsFine.v — the 80..160 KiB band, general part.  A line is dropped ("enormous line" recovery) only when
   ONE read of more than 80 KiB fills the 160 KiB buffer completely: if no single read returns more than
   HALF_CAP = 81920 bytes, recovery never starts for any input whose lines fit the largest buffer (content
   < 160 KiB), and the outcome is [spec] — the schedule-free verdict — exactly as for short lines.
   So chunk dependence inside the band is caused by reads larger than 80 KiB and by nothing else. *)
From Coq Require Import Lia ZArith List Bool.
From RM Require Import Base.Word C09.Model C09.Proofs C10.Model C10.Proofs C10.ProofsAsync C10.Stream C10.ProofsStream.
From RM Require Import C10.Band.
Import ListNotations.
Open Scope Z_scope.

Ltac Zify.zify_post_hook ::= Z.div_mod_to_equations.

(* a fill of n > 0 bytes followed by a consume leaves the buffer full only if the fill made the window the
   whole buffer and at most half of it was consumed *)
Lemma fill_consume_full : forall b n c, geom b -> 0 < n <= space b -> 0 <= c <= avail b + n ->
  space (consume (fill b n) c) = 0 -> avail b + n = b_cap b /\ c <= b_cap b / 2.
Proof.
  intros [p e cp] n c [H1 [H2 H3]] Hn Hc. unfold fill. unfold space, avail in *. cbn [b_pos b_end b_cap] in *.
  rewrite (Z.min_l n (cp - e)) by lia.
  destruct (cp - (e + n) <? e + n - p + n) eqn:E1.
  - apply Z.ltb_lt in E1. unfold shift. cbn [b_pos b_end b_cap].
    destruct (0 <? p) eqn:E0; cbn [b_pos b_end b_cap].
    + unfold consume, avail. cbn [b_pos b_end b_cap]. rewrite (Z.min_l c) by lia.
      destruct (cp / 2 <? 0 + c) eqn:E2; cbn [b_pos b_end b_cap].
      * apply Z.ltb_lt in E2. unfold shift. cbn [b_pos b_end b_cap].
        destruct (0 <? 0 + c) eqn:E3; cbn [b_pos b_end b_cap]; [|apply Z.ltb_ge in E3; lia].
        intros Q. lia.
      * apply Z.ltb_ge in E2. intros Q. lia.
    + apply Z.ltb_ge in E0. assert (p = 0) by lia. subst p.
      unfold consume, avail. cbn [b_pos b_end b_cap]. rewrite (Z.min_l c) by lia.
      destruct (cp / 2 <? 0 + c) eqn:E2; cbn [b_pos b_end b_cap].
      * apply Z.ltb_lt in E2. unfold shift. cbn [b_pos b_end b_cap].
        destruct (0 <? 0 + c) eqn:E3; cbn [b_pos b_end b_cap]; [|apply Z.ltb_ge in E3; lia].
        intros Q. lia.
      * apply Z.ltb_ge in E2. intros Q. lia.
  - apply Z.ltb_ge in E1.
    unfold consume, avail. cbn [b_pos b_end b_cap]. rewrite (Z.min_l c) by lia.
    destruct (cp / 2 <? p + c) eqn:E2; cbn [b_pos b_end b_cap].
    + unfold shift. cbn [b_pos b_end b_cap].
      destruct (0 <? p + c) eqn:E3; cbn [b_pos b_end b_cap]; intros Q; lia.
    + intros Q. lia.
Qed.

Section Fine.
  Variable L : Type.
  Variable llen : L -> Z.
  Variable PS : Type.
  Variable init_ps : PS.
  Variable recog : PS -> L -> PS + Z.
  Variable bump : PS -> PS.
  Variable lineno : PS -> Z.
  Hypothesis llen_pos : forall l, 1 <= llen l.
  Variable lines : list L.
  Variable t0 : Z.
  Hypothesis wide : wide_lines llen lines t0.

  Local Notation tail := (Z.max 0 t0).
  Local Notation ilen := (input_len L llen lines t0).
  Local Notation St := (st L PS).
  Local Notation step := (step L llen PS recog bump lineno).
  Local Notation parse_phase := (parse_phase L llen PS recog lineno).
  Local Notation pm := (pm L llen PS recog lineno).
  Local Notation size := (size L llen).
  Local Notation fold_recog := (fold_recog L PS recog lineno).
  Local Notation spec := (spec L PS init_ps recog lineno).
  Local Notation WF := (WF L llen PS init_ps recog bump lineno tail ilen lines).
  Local Notation WFm := (WFm L llen PS init_ps recog bump lineno tail ilen lines).
  Local Notation CI := (CI L llen PS init_ps recog bump lineno lines t0).
  Local Notation size_nonneg := (size_nonneg L llen PS init_ps recog bump lineno llen_pos).
  Local Notation read_n := (read_n L PS).

  (* at the head of the loop the 160 KiB buffer always has room *)
  Definition room (s : St) : Prop := b_cap (buf s) = MAX_CAP -> 0 < space (buf s).
  Definition FI (s : St) : Prop := CI s /\ room s.

  Lemma in_lines_wide : forall a l b, lines = a ++ l :: b -> llen l <= MAX_CAP.
  Proof.
    intros a l b H. destruct wide as [S _]. rewrite H in S. apply Forall_app in S. destruct S as [_ S].
    inversion S; assumption.
  Qed.

  (* the new part: a read of at most 80 KiB cannot leave the 160 KiB buffer full *)
  Lemma parse_phase_room : forall s n sch' s',
    WFm s -> pr s = false -> partial L llen PS s -> 0 < n <= space (buf s) -> n <= unread s -> n <= HALF_CAP ->
    parse_phase (mkst (fill (buf s) n) (fc s) false (pr s) (jf s) (total s) (ps s) (rest s) (off s)
                      (unread s - n) sch' (ncb s) (cbsum s) (nrd s + 1)
                      (Z.max (maxsp s) (space (buf s))) (log s)) = Next s' ->
    room s'.
  Proof.
    intros s n sch' s' Wm Hpr Hpart Hn Hnu Hfine H.
    destruct Wm as [Wg Wc Wh [Wo1 Wo2] Wa Ws Wu Wpo Wpc Wtg Wcb Wms Wt Wpl Wl Wr Wd].
    specialize (Wpo Hpr).
    assert (Hn1 : 0 <= n <= space (buf s)) by lia.
    destruct (fill_spec (buf s) n Wg Hn1) as [G [A [C [P E]]]].
    unfold Model.parse_phase in H. cbn [pr buf off ps rest log fc tg jf total unread sched ncb cbsum nrd maxsp] in H.
    rewrite Hpr, (geom_ok_true _ G) in H. cbn [negb] in H. rewrite Wpo in H. cbn [Z.eqb negb] in H.
    destruct (pm (avail (fill (buf s) n)) (ps s) (rest s) 0 (log s)) as [[[[p' r'] c'] lg']|[c ln]] eqn:Pm; [|discriminate].
    inversion H; subst s'; clear H.
    assert (Hav : 0 <= avail (buf s)) by (destruct Wg as [? [? ?]]; unfold avail; lia).
    apply (pm_inl L llen PS recog bump lineno llen_pos) in Pm; [|lia].
    destruct Pm as [tk [H1 [H2 [H3 [H4 [H5 [H6 H7]]]]]]].
    pose proof (size_nonneg tk) as Hsz.
    unfold room. cbn [buf]. intros Hcap.
    assert (K : 0 <= c' <= avail (buf s) + n) by lia.
    assert (G' : geom (consume (fill (buf s) n) c')).
    { apply consume_spec; [exact G|lia]. }
    destruct (Z_lt_le_dec 0 (space (consume (fill (buf s) n) c'))) as [Q|Q]; [exact Q|exfalso].
    assert (Q0 : space (consume (fill (buf s) n) c') = 0).
    { destruct G' as [? [? ?]]. unfold space in *. lia. }
    destruct (fill_consume_full (buf s) n c' Wg Hn K Q0) as [F1 F2].
    assert (Hc : b_cap (buf s) = MAX_CAP).
    { assert (b_cap (consume (fill (buf s) n) c') = b_cap (buf s)).
      { destruct (consume_spec (fill (buf s) n) c' G ltac:(lia)) as [_ [_ [C2 _]]]. rewrite C2. exact C. }
      lia. }
    rewrite Hc in *. unfold MAX_CAP, HALF_CAP in *.
    change (163840 / 2) with 81920 in F2.
    destruct tk as [|l t].
    - cbn [Model.size app] in *. subst r'.
      destruct (rest s) as [|l r] eqn:Er.
      + cbn [Model.size] in Wa. destruct wide as [_ Wt0]. unfold MAX_CAP in Wt0. lia.
      + pose proof (in_lines_wide _ _ _ Wl). unfold MAX_CAP in *. lia.
    - cbn [app] in H1. unfold partial in Hpart. rewrite H1 in Hpart.
      cbn [Model.size] in H2. pose proof (size_nonneg t). lia.
  Qed.

  (* one iteration whose read returns at most 80 KiB *)
  Lemma fi_step : forall s, FI s ->
    (forall n sch', read_n (space (buf s)) s = (n, sch') -> n <= HALF_CAP) ->
    match step s with
    | Next s' => FI s'
    | Done r s' => r = spec lines t0
    | StPanic _ => False
    end.
  Proof.
    intros s [[W Hpr Hf1 Hf0 Hfed] Hroom] Hfine.
    pose proof (step_wf L llen PS init_ps recog bump lineno llen_pos tail ltac:(lia) ilen lines s W) as SW.
    pose proof (wf_m _ _ _ _ _ _ _ _ _ _ _ W) as Wm. pose proof Wm as Wm0.
    pose proof (wf_jf _ _ _ _ _ _ _ _ _ _ _ W Hpr) as Hjf.
    pose proof (wf_partial _ _ _ _ _ _ _ _ _ _ _ W Hpr) as Hpart.
    pose proof (wf_fc _ _ _ _ _ _ _ _ _ _ _ W Hpr) as Hfca.
    destruct Wm as [Wg Wc Wh [Wo1 Wo2] Wa Ws Wu Wpo Wpc Wtg Wcb Wms Wt Wpl Wl Wr Wd].
    specialize (Wpo Hpr).
    revert SW. unfold Model.step. rewrite (geom_ok_true _ Wg). cbn [negb]. rewrite andb_false_r, Hpr.
    unfold Model.step_rest, Model.step_after_read. rewrite (geom_ok_true _ Wg). cbn [negb].
    assert (Hsp : 0 <= space (buf s)) by (destruct Wg as [? [? ?]]; unfold space; lia).
    assert (Hav : 0 <= avail (buf s)) by (destruct Wg as [? [? ?]]; unfold avail; lia).
    destruct (read_n (space (buf s)) s) as [n sch'] eqn:R.
    specialize (Hfine n sch' eq_refl).
    destruct (read_n_spec L PS init_ps recog bump lineno _ _ _ _ R Hsp Wu) as [Hn1 [Hn2 Hn0]].
    destruct (fill_spec (buf s) n Wg Hn1) as [G [A [C [P E]]]].
    pose proof (caps_bounds L PS init_ps recog bump lineno _ Wc) as Hcb.
    destruct (n =? 0) eqn:En.
    - apply Z.eqb_eq in En. subst n. cbn [jf fc tg total ps buf]. rewrite Hjf. cbn [andb].
      destruct (fc s) eqn:Efc.
      + (* Ok *)
        intros [W' [_ [Fa [Fu _]]]]. cbn [buf unread] in Fa, Fu.
        assert (Hrest : rest s = []).
        { destruct (rest s) as [|l t]; [reflexivity|]. cbn [Model.size] in Wa. pose proof (size_nonneg t).
          pose proof (llen_pos l). rewrite A in Fa. lia. }
        rewrite Hrest in *. cbn [Model.size] in Wa. rewrite app_nil_r in Wl.
        unfold Model.spec. rewrite Wl.
        rewrite (spec_of_fold L llen PS init_ps recog bump lineno lines t0 s Wm0 Hfed).
        specialize (Hf1 eq_refl).
        destruct (map snd (rev (log s))) as [|l t] eqn:Em.
        { exfalso. apply Hf1. apply map_eq_nil in Em. destruct (log s); [reflexivity|].
          cbn [rev] in Em. apply app_eq_nil in Em. destruct Em; discriminate. }
        replace (0 <? t0) with false by (symmetry; apply Z.ltb_ge; rewrite A in Fa; lia).
        reflexivity.
      + destruct ((space (buf s) =? 0) && negb (tg s)) eqn:Eb.
        * apply andb_true_iff in Eb. destruct Eb as [Eb1 Eb2]. apply Z.eqb_eq in Eb1.
          destruct (MAX_CAP <? Z.min (b_cap (fill (buf s) 0) * 2) U64MAX) eqn:Em.
          -- (* recovery cannot start: at 160 KiB the buffer has room at the head of the loop *)
             exfalso. apply Z.ltb_lt in Em. rewrite C in Em. unfold MAX_CAP, U64MAX in Em.
             assert (Hc : b_cap (buf s) = MAX_CAP) by (unfold caps, MAX_CAP in *; lia).
             specialize (Hroom Hc). lia.
          -- (* grow *)
             intros [W' _].
             apply Z.ltb_ge in Em. rewrite C in Em. unfold MAX_CAP, U64MAX in Em.
             split; [constructor|].
             ++ exact W'.
             ++ cbn [set_buf_tg pr]. exact Hpr.
             ++ cbn [set_buf_tg fc log]. intros Q; congruence.
             ++ cbn [set_buf_tg fc buf total]. intros _.
                unfold grow. rewrite C.
                replace (Z.min (b_cap (buf s) * 2) U64MAX <=? b_cap (buf s)) with false
                  by (symmetry; apply Z.leb_gt; unfold U64MAX; lia).
                unfold avail in *. cbn [b_pos b_end]. destruct (Hf0 eq_refl) as [Q|Q]; [left; lia|right; exact Q].
             ++ cbn [set_buf_tg log]. exact Hfed.
             ++ unfold room. cbn [set_buf_tg buf]. intros _.
                unfold grow. rewrite C.
                replace (Z.min (b_cap (buf s) * 2) U64MAX <=? b_cap (buf s)) with false
                  by (symmetry; apply Z.leb_gt; unfold U64MAX; lia).
                unfold space. cbn [b_cap b_end]. destruct G as [? [? ?]]. unfold U64MAX. lia.
        * (* end of input with a partial line (or nothing at all) left *)
          intros _.
          assert (Hu : unread s = 0).
          { apply andb_false_iff in Eb. destruct Eb as [Eb|Eb].
            - apply Z.eqb_neq in Eb. lia.
            - apply negb_false_iff in Eb. specialize (Wtg Eb). unfold space in *. lia. }
          assert (Hrest : rest s = []).
          { unfold partial in Hpart. destruct (rest s) as [|l t]; [reflexivity|]. cbn [Model.size] in Wa.
            pose proof (size_nonneg t). lia. }
          rewrite Hrest in *. cbn [Model.size] in Wa. rewrite app_nil_r in Wl.
          unfold Model.spec. rewrite Wl.
          rewrite (spec_of_fold L llen PS init_ps recog bump lineno lines t0 s Wm0 Hfed).
          destruct (total s =? 0) eqn:Et.
          -- apply Z.eqb_eq in Et.
             assert (Hlog : map snd (rev (log s)) = []).
             { apply (size_zero_nil L llen PS init_ps recog bump lineno llen_pos). pose proof (size_nonneg (map snd (rev (log s)))). lia. }
             rewrite Hlog. reflexivity.
          -- apply Z.eqb_neq in Et.
             destruct (map snd (rev (log s))) as [|l t] eqn:Em; [cbn [Model.size] in Wt; lia|].
             replace (0 <? t0) with true; [reflexivity|]. symmetry. apply Z.ltb_lt.
             destruct (Hf0 eq_refl) as [Q|Q]; [lia|contradiction].
    - (* n > 0 *)
      apply Z.eqb_neq in En. unfold set_tg. cbn [buf fc tg pr jf total ps rest off unread sched ncb cbsum nrd maxsp log].
      set (s2 := mkst (fill (buf s) n) (fc s) false (pr s) (jf s) (total s) (ps s) (rest s) (off s)
                      (unread s - n) sch' (ncb s) (cbsum s) (nrd s + 1)
                      (Z.max (maxsp s) (space (buf s))) (log s)).
      assert (Hp2 : pr s2 = false) by exact Hpr.
      destruct (parse_phase s2) as [s'|r s'|t] eqn:PP.
      + intros [W' _].
        destruct (parse_phase_ci L llen PS init_ps recog bump lineno llen_pos s2 s' G Wpo Hp2
                    ltac:(subst s2; cbn [buf]; lia) Hfed PP) as [Q1 [Q2 [Q3 Q4]]].
        split.
        * constructor; try assumption. intros Q. left. exact (Q3 Q).
        * exact (parse_phase_room s n sch' s' Wm0 Hpr Hpart ltac:(lia) Hn2 Hfine PP).
      + intros _. destruct (parse_phase_done L llen PS recog bump lineno llen_pos s2 r s' Hp2 PP)
          as [c [tk [l [r' [p1 [Q1 [Q2 [Q3 Q4]]]]]]]].
        subst r. symmetry.
        exact (spec_err L llen PS init_ps recog bump lineno lines t0 s c tk l r' p1 Wm0 Hfed Q2 Q3 Q4).
      + intros F. exact F.
  Qed.

  (* ---------------------------------------------------------------- SymbolFile::parse under a fine schedule *)
  Local Notation iter_nat := (iter_nat L llen PS recog bump lineno).
  Local Notation init_st := (init_st L llen PS init_ps).
  Local Notation drive := (drive L llen PS init_ps recog bump lineno).

  Definition FS (s : St) : Prop := FI s /\ fine_sched (sched s) (unread s).

  Lemma read_n_fine : forall (s : St) sp n sch', fine_sched (sched s) (unread s) -> 0 <= sp ->
    read_n sp s = (n, sch') -> n <= HALF_CAP /\ fine_sched sch' (unread s - n).
  Proof.
    intros s sp n sch' [F1 F2] Hsp H. unfold Model.read_n in H.
    destruct ((sp <=? 0) || (unread s <=? 0)) eqn:E.
    - inversion H; subst. split; [unfold HALF_CAP; lia|]. split; [exact F1|]. replace (unread s - 0) with (unread s) by lia. exact F2.
    - apply orb_false_iff in E. destruct E as [E1 E2]. apply Z.leb_gt in E1. apply Z.leb_gt in E2.
      destruct (sched s) as [|c t] eqn:Es.
      + cbn [length] in F2. lia.
      + inversion H; subst. inversion F1 as [|x y Fc Ft]; subst. cbn [length] in F2.
        split; [unfold HALF_CAP in *; lia|]. split; [exact Ft|]. lia.
  Qed.

  Lemma fs_step : forall s, FS s ->
    match step s with
    | Next s' => FS s'
    | Done r s' => r = spec lines t0
    | StPanic _ => False
    end.
  Proof.
    intros s [Hfi Hfs]. pose proof Hfi as [[W Hpr _ _ _] _].
    pose proof (wf_geom _ _ _ _ _ _ _ _ _ _ _ (wf_m _ _ _ _ _ _ _ _ _ _ _ W)) as Wg.
    assert (Hsp : 0 <= space (buf s)) by (destruct Wg as [? [? ?]]; unfold space; lia).
    pose proof (fi_step s Hfi) as FSt.
    destruct (read_n (space (buf s)) s) as [n sch'] eqn:R.
    destruct (read_n_fine s _ n sch' Hfs Hsp R) as [Hn Hs'].
    specialize (FSt ltac:(intros n0 sch0 Q; inversion Q; subst; exact Hn)).
    assert (E : step s = step_after_read L llen PS recog lineno n sch' (space (buf s)) s).
    { unfold Model.step. rewrite Hpr. cbn [andb]. unfold Model.step_rest.
      rewrite (geom_ok_true _ Wg). cbn [negb]. rewrite R. reflexivity. }
    pose proof (after_read_frame L llen PS recog lineno n sch' (space (buf s)) s) as F.
    rewrite <- E in F.
    destruct (step s) as [s'|r s'|t]; try exact FSt.
    destruct F as [F1 F2]. split; [exact FSt|]. rewrite F1, F2. exact Hs'.
  Qed.

  Lemma fs_run : forall n s r s', FS s -> iter_nat n s = Done r s' -> r = spec lines t0.
  Proof.
    induction n as [|n IH]; intros s r s' H R; cbn [Proofs.iter_nat] in R; [discriminate|].
    pose proof (fs_step s H) as CS. destruct (step s) as [s1|r1 s1|t].
    - eapply IH; eauto.
    - injection R as R1 R2. rewrite <- R1. exact CS.
    - contradiction.
  Qed.

  Lemma fi_init : forall sch, FI (init_st lines t0 sch).
  Proof.
    intros sch. split; [apply ci_init; exact llen_pos|].
    unfold room, Model.init_st. cbn [buf b_cap]. unfold INITIAL_CAP, MAX_CAP. lia.
  Qed.

  Lemma fine_drive_is_spec : forall sch, fine_sched sch ilen ->
    exists s, drive lines t0 sch = Ret (spec lines t0, s).
  Proof.
    intros sch Hf.
    destruct (drive_fin L llen PS init_ps recog bump lineno llen_pos lines t0 sch) as [r [s [H _]]].
    exists s. rewrite H. f_equal. f_equal.
    unfold Model.drive in H. rewrite iter_pos_nat in H.
    destruct (iter_nat (Pos.to_nat (fuel_for L llen lines t0)) (init_st lines t0 sch)) as [s1|r1 s1|t] eqn:E;
      try discriminate.
    inversion H; subst. eapply fs_run; [|exact E].
    split; [apply fi_init|]. unfold Model.init_st. cbn [sched unread]. exact Hf.
  Qed.

  (* ---------------------------------------------------------------- SymbolFile::parse_async over a body of chunks <= 80 KiB *)
  Local Notation SSt := (@sst L PS).
  Local Notation step_stream := (step_stream L llen PS recog bump lineno).
  Local Notation sar := (step_after_read L llen PS recog lineno).
  Local Notation ws := (ws L PS).
  Local Notation mid := (mid L llen PS bump).
  Local Notation RI := (RI L PS).
  Local Notation iter_nat_s := (iter_nat_s L llen PS recog bump lineno).
  Local Notation init_stream := (init_stream L llen PS init_ps).
  Local Notation drive_stream := (drive_stream L llen PS init_ps recog bump lineno).

  Lemma next_chunk_fine : forall p c1 p1, fine_body p -> next_chunk p = Some (c1, p1) ->
    c1 <= HALF_CAP /\ fine_body p1.
  Proof.
    induction p as [|[n|] t IH]; intros c1 p1 F H; cbn [next_chunk] in H.
    - inversion H; subst. split; [unfold HALF_CAP; lia|constructor].
    - inversion F as [|x y Fn Ft]; subst. cbn [fine_ev] in Fn. destruct (n <=? 0).
      + exact (IH _ _ Ft H).
      + inversion H; subst. split; assumption.
    - discriminate.
  Qed.

  Lemma refill_fine : forall cur p c1 p1, cur <= HALF_CAP -> fine_body p -> refill cur p = Some (c1, p1) ->
    c1 <= HALF_CAP /\ fine_body p1.
  Proof.
    intros cur p c1 p1 Hc F H. unfold refill in H. destruct (cur <=? 0).
    - exact (next_chunk_fine _ _ _ F H).
    - inversion H; subst. split; assumption.
  Qed.

  Definition SF (x : SSt) : Prop := FI (core x) /\ cur x <= HALF_CAP /\ fine_body (pend x).

  Lemma ws_FI : forall sch s, FI s -> FI (ws sch s).
  Proof.
    intros sch s [C R]. split; [|exact R].
    exact (ws_CI L llen PS init_ps recog bump lineno lines t0 sch s C).
  Qed.

  Definition outcome_f (f : bool) : result PS :=
    if f then match fold_recog init_ps lines with
              | inr (c, ln) => RErr c ln
              | inl _ => RErr LOAD_ERROR 0
              end
    else spec lines t0.

  Lemma stream_step_fi : forall x, SF x -> RI x ->
    match step_stream x with
    | SNext x' => SF x'
    | SDone r x' => r = outcome_f (fails (pend x))
    | SPanic _ => False
    end.
  Proof.
    intros x [Hfi [Hcur Hbody]] [Hc Hu]. pose proof Hfi as [Hci Hroom]. pose proof Hci as [W Hpr _ _ _].
    destruct (refill (cur x) (pend x)) as [[c1 pend1]|] eqn:R.
    - destruct (refill_some _ _ _ _ Hc R) as [A [B [C D]]].
      destruct (refill_fine _ _ _ _ Hcur Hbody R) as [Hc1f Hp1f].
      pose proof (delivered_nonneg pend1) as Hd.
      assert (Hc1 : 0 <= c1 <= unread (core x)) by lia.
      assert (Hz : c1 = 0 -> unread (core x) = 0) by (intros Q; destruct (D Q); lia).
      destruct (step_stream_char L llen PS init_ps recog bump lineno x c1 pend1 R Hc1 Hz) as [E _]. cbn zeta in E.
      pose proof (step_stream_unfold L llen PS init_ps recog bump lineno lines t0 x c1 pend1 W Hpr R) as U.
      assert (Hmid : mid (core x) = core x) by (unfold ProofsAsync.mid; rewrite Hpr; reflexivity).
      set (n := Z.max 0 (Z.min (space (buf (mid (core x)))) c1)) in *.
      set (sch := if n =? 0 then [] else [n]) in *.
      assert (Hneq : n = Z.max 0 (Z.min (space (buf (core x))) c1)) by (subst n; rewrite Hmid; reflexivity).
      pose proof (wf_geom _ _ _ _ _ _ _ _ _ _ _ (wf_m _ _ _ _ _ _ _ _ _ _ _ W)) as Wg.
      assert (Hsp : 0 <= space (buf (core x))) by (destruct Wg as [? [? ?]]; unfold space; lia).
      assert (Hrd : forall n0 sch0, read_n (space (buf (ws sch (core x)))) (ws sch (core x)) = (n0, sch0) -> n0 <= HALF_CAP).
      { intros n0 sch0 Q. cbn [ProofsAsync.ws buf] in Q. unfold Model.read_n in Q. cbn [ProofsAsync.ws unread sched] in Q.
        destruct ((space (buf (core x)) <=? 0) || (unread (core x) <=? 0)) eqn:Eo.
        - inversion Q; subst. unfold HALF_CAP; lia.
        - apply orb_false_iff in Eo. destruct Eo as [E1 E2]. apply Z.leb_gt in E1. apply Z.leb_gt in E2.
          subst sch. destruct (n =? 0) eqn:En.
          + apply Z.eqb_eq in En. exfalso.
            destruct (Z.eq_dec c1 0) as [Q0|Q0]; [specialize (Hz Q0); lia|lia].
          + inversion Q; subst n0. lia. }
      pose proof (fi_step (ws sch (core x)) (ws_FI sch _ Hfi) Hrd) as CS.
      rewrite E in *. clear E.
      destruct (step (ws sch (core x))) as [s'|r s'|t]; cbn [ProofsAsync.lift Stream.wrap core cur pend] in *.
      + unfold SF. cbn [core cur pend]. split; [exact (ws_FI [] _ CS)|]. split; [lia|exact Hp1f].
      + subst r. unfold outcome_f. destruct (fails (pend x)) eqn:Ef; [|reflexivity].
        assert (Hpos : 0 < c1).
        { destruct (Z.eq_dec c1 0) as [Q|Q]; [|lia]. destruct (D Q) as [_ D2]. congruence. }
        destruct (sar (Z.max 0 (Z.min (space (buf (core x))) c1)) [] (space (buf (core x))) (core x)) as [s2|r2 s2|t2] eqn:S;
          cbn [Stream.wrap] in U; try discriminate.
        inversion U as [[U1 U2]].
        destruct (sar_done_reject L llen PS init_ps recog bump lineno llen_pos lines t0 (core x) c1 r2 s2 Hci Hpos S)
          as [c [tk [l [r' [p1 [Q1 [Q2 [Q3 Q4]]]]]]]].
        pose proof (fold_err L llen PS init_ps recog bump lineno lines t0 (core x) c tk l r' p1 Hci Q2 Q3 Q4) as FE.
        unfold Model.spec. rewrite FE. reflexivity.
      + exact CS.
    - destruct (refill_none _ _ Hc R) as [N1 N2].
      unfold Stream.step_stream. rewrite R, Hpr.
      rewrite (geom_ok_true _ (wf_geom _ _ _ _ _ _ _ _ _ _ _ (wf_m _ _ _ _ _ _ _ _ _ _ _ W))). cbn [negb andb].
      rewrite N2. unfold outcome_f.
      pose proof (delivered_nonneg (pend x)).
      rewrite (all_read_fold L llen PS init_ps recog bump lineno llen_pos lines t0 (core x) Hci ltac:(lia)). reflexivity.
  Qed.

  Lemma stream_run_fi : forall n x r x', SF x -> RI x -> WF (core x) ->
    iter_nat_s n x = SDone r x' -> r = outcome_f (fails (pend x)).
  Proof.
    induction n as [|n IH]; intros x r x' Hsf Ri W H; cbn [ProofsStream.iter_nat_s] in H; [discriminate|].
    pose proof (stream_step_fi x Hsf Ri) as CS.
    pose proof (stream_step_wf L llen PS init_ps recog bump lineno llen_pos lines t0 x W Ri) as SW.
    destruct (step_stream x) as [x1|r1 x1|t].
    - destruct SW as [W1 [R1 [_ F1]]]. rewrite <- F1. exact (IH x1 r x' CS R1 W1 H).
    - injection H as H1 H2. rewrite <- H1. exact CS.
    - contradiction.
  Qed.

  Lemma fine_stream_is_spec : forall script, delivered script = ilen -> fine_body script ->
    exists x, drive_stream lines t0 script
              = Ret (spec_stream L PS init_ps recog lineno lines t0 script, x).
  Proof.
    intros script Hd Hf.
    destruct (stream_total L llen PS init_ps recog bump lineno llen_pos lines t0 script Hd) as [r [x [H _]]].
    exists x. rewrite H. f_equal. f_equal.
    unfold Stream.drive_stream in H. rewrite (iter_stream_nat L llen PS recog bump lineno) in H.
    destruct (iter_nat_s (Pos.to_nat (fuel_for L llen lines t0)) (init_stream lines t0 script)) as [x1|r1 x1|t] eqn:E;
      try discriminate.
    inversion H; subst r1 x1.
    assert (Q : r = outcome_f (fails (pend (init_stream lines t0 script)))).
    { eapply stream_run_fi; [| |  |exact E].
      - unfold Stream.init_stream. split; [cbn [core]; apply fi_init|]. cbn [cur pend]. split; [unfold HALF_CAP; lia|exact Hf].
      - exact (init_RI L llen PS init_ps recog bump lineno lines t0 script Hd).
      - unfold Stream.init_stream. cbn [core]. apply init_wf'. exact llen_pos. }
    rewrite Q. unfold outcome_f, Stream.spec_stream, Stream.init_stream. cbn [pend]. reflexivity.
  Qed.
End Fine.
