(* C19/Source.v — the bit-flip path assembled from the function bodies COMPILED from the Rust source
   (RM.Gen.C19Src, written by translate/c19_src.py on every run).  Definitions only.
   This file is the reading of the translator's small grammar: how a list of guards / items / gates / compiled
   expressions is executed.  C19/Proofs3.v proves that, for the source as it is, everything here equals the
   hand-written model of Model.v / Pipeline.v (so every theorem of Properties.v is a theorem about the compiled
   code), and proves the property clauses directly on the generic form.  The correspondence run (Driver.v) executes
   THIS file, so an edit of the Rust functions inside the grammar changes what is compared and proved. *)
From RM Require Export C19.Pipeline Gen.C19Src.
Open Scope Z_scope.

(* ------------------------------------------------------------ bitflip::try_bit_flips *)
Section TryGen.
  Context {R F : Type}.
  Variable early : list tguard.
  Variable items : list (list tguard).
  Variable lookup : Z -> option R.          (* memory_info.memory_info_at_address *)
  Variable allowed : R -> bool.             (* memory_operation.is_possibly_allowed_for *)
  Variable mk : Z -> Z -> F.                (* address, possible_address -> create_possible_address(possible_address) *)

  Definition guard_holds (g : tguard) (x : Z) : bool :=
    match g with
    | TgEq k => x =? k
    | TgMapped => match lookup x with Some mi => allowed mi | None => false end
    end.
  (* one if / else-if chain: pushes once when any guard holds *)
  Definition item_out (a pa : Z) (chain : list tguard) : list F :=
    if existsb (fun g => guard_holds g pa) chain then [mk a pa] else [].
  (* for i in lo..hi ([n] iterations left): possible_address = address ^ (1 << i) *)
  Fixpoint try_loop (n : nat) (i : Z) (a : Z) : list F :=
    match n with
    | O => []
    | S n' => let pa := Z.lxor a (2 ^ i) in flat_map (item_out a pa) items ++ try_loop n' (i + 1) a
    end.
  Definition try_gen (a lo hi : Z) : list F :=
    if existsb (fun g => guard_holds g a) early then [] else try_loop (Z.to_nat (hi - lo)) lo a.
End TryGen.

(* the checkable side conditions under which the property clauses hold for ANY body in the grammar *)
Definition items_ok (items : list (list tguard)) : bool :=
  forallb (forallb (fun g => match g with TgEq k => k =? 0 | TgMapped => true end)) items.
Definition early_ok (early : list tguard) : bool :=
  existsb (fun g => match g with TgMapped => true | TgEq _ => false end) early.

Definition items_complete (items : list (list tguard)) : bool :=
  existsb (existsb (fun g => match g with TgMapped => true | TgEq _ => false end)) items &&
  existsb (existsb (fun g => match g with TgEq k => k =? 0 | TgMapped => false end)) items.
Definition early_only_mapped (early : list tguard) : bool :=
  forallb (fun g => match g with TgMapped => true | TgEq _ => false end) early.

(* ------------------------------------------------------------ PossibleBitFlip::calculate_heuristics *)
Definition is_repeated_src (regsize addr : Z) : bool :=
  match find (fun e => fst e =? regsize) G_REPEAT with
  | Some e => addr =? (Z.land addr 255) * snd e
  | None => false
  end.
Definition is_poison_byte_src (b : Z) : bool := existsb (Z.eqb b) G_POISON_BYTES.

Definition heuristics_src (new orig : Z) (nc0 : bool) (ctx : option context) : details :=
  let is_null := g_h_is_null new orig nc0 in
  let was_low := g_h_was_low new orig nc0 is_null in
  let nc := g_h_nc new orig nc0 is_null was_low in
  match ctx with
  | None => {| d_nc := nc; d_null := is_null; d_low := was_low; d_nearby := 0; d_poison := false |}
  | Some (rs, regs) =>
      let calc := g_h_calc new orig nc0 is_null was_low in
      let st := fold_left (fun (st : Z * bool) addr =>
                             (if g_h_nearby new orig nc0 is_null was_low calc addr then fst st + 1 else fst st,
                              if g_h_poison_try (is_repeated_src rs) new orig nc0 is_null was_low calc (snd st) addr
                              then (if is_poison_byte_src (Z.land addr 255) then true else snd st)
                              else snd st))
                          regs (0, false) in
      {| d_nc := nc; d_null := is_null; d_low := was_low; d_nearby := fst st; d_poison := snd st |}
  end.

Definition mk_flip_src (reg : option Z) (br : gbr) (ctx : option context) (a pa : Z) : flip :=
  {| f_addr := pa; f_reg := reg;
     f_det := heuristics_src pa (if TRY_ORIG_IS_ADDRESS then a else pa) (g_try_nc br) ctx |}.

Definition try_bit_flips_src (a : Z) (reg : option Z) (br : gbr) (ctx : option context)
           (rs : list region) (op : memop) : list flip :=
  try_gen TRY_EARLY TRY_ITEMS (lookup_region rs) (possibly_allowed op) (mk_flip_src reg br ctx)
          a (fst (br_bounds (br_of br))) (snd (br_bounds (br_of br))).

(* check_for_bitflips (Gen.C19Check.g_check) over the compiled try_bit_flips *)
Definition check_src2 (c : gcpu) (address : Z) (adj : gadj) (op : memop) (ctx : option context)
           (iregs : list (Z * Z)) (rs : list region) : list flip :=
  g_check (fun a reg br => try_bit_flips_src a reg br ctx rs op) c address adj (has_ctx ctx) iregs.

(* ------------------------------------------------------------ adjusted address *)
Definition detect_null_src (addrs : option (list addr_info)) : option Z :=
  match addrs with
  | Some l => option_map ai_addr (find (fun ai => g_null_pred (ai_addr ai) (ai_null ai)) l)
  | None => None
  end.
Definition has_addrs (addrs : option (list addr_info)) : bool := match addrs with Some _ => true | None => false end.
(* the None branch of the second match is `memory_addresses.unwrap()` on None: the translator aborts unless an
   is_none() gate precedes the loop, so it is never taken *)
Definition non_canonical_src (c : gcpu) (gpf : bool) (addrs : option (list addr_info)) : option Z :=
  if existsb (fun b : bool => b) (g_nc_gates c gpf (has_addrs addrs)) then None
  else match addrs with
       | Some l => option_map ai_addr (find (fun ai => g_nc_pred (ai_addr ai) (ai_null ai)) l)
       | None => None
       end.
Definition adjusted_src (c : gcpu) (o : gosx) (r : greason) (address : Z) (oa : option op_analysis) : gadj :=
  match oa with
  | None => GAdjNone
  | Some oa =>
      let addrs := oa_addresses oa in
      let cand := fun k : Z =>
        if k =? 0 then option_map GAdjNullPointerWithOffset (detect_null_src addrs)
        else option_map GAdjNonCanonical (non_canonical_src c (g_gpf o r address) addrs) in
      fold_right (fun k acc => match cand k with Some a => a | None => acc end) GAdjNone G_ADJ_ORDER
  end.

(* ------------------------------------------------------------ op_analysis.rs: operand evaluation, implicit accesses, ip update *)
(* MemoryAddressInfo::try_from_operand with the compiled constants / null-flag tests; None = Err(RegisterInvalid) *)
Definition operand_address_src (pc : pcontext) (m : memoperand) : option addr_info :=
  let st := match mo_base m with
            | Some b => option_map (fun v => (v, g_op_base_null v)) (get_register pc b)
            | None => Some (G_OP_INIT, false)
            end in
  match st with
  | None => None
  | Some (a0, nul) =>
      let st2 := match mo_index m with
                 | Some i => option_map (fun v =>
                               let a1 := wrap64 (a0 + wrap64 (v * match mo_scale m with Some s => s | None => G_OP_DEFAULT_SCALE end)) in
                               (a1, nul || g_op_index_null v a1))
                             (get_register pc i)
                 | None => Some (a0, nul)
                 end in
      match st2 with
      | None => None
      | Some (a1, nul2) =>
          Some {| ai_addr := wrap64 (a1 + wrap64 (match mo_disp m with Some d => d | None => G_OP_DEFAULT_DISP end)); ai_null := nul2 |}
      end
  end.
Definition implicit_access_src (k : implicit_kind) (pc : pcontext) : list addr_info :=
  let mk := fun a => {| ai_addr := a; ai_null := g_implicit_null a |} in
  match k with
  | ImpNone => []
  | ImpPushCall => match get_register pc RSP_ID with Some v => [mk (wrap64 (v + G_IMPLICIT_PUSHCALL_OFF))] | None => [] end
  | ImpPopRet => match get_register pc RSP_ID with Some v => [mk (wrap64 (v + G_IMPLICIT_POPRET_OFF))] | None => [] end
  end.
Definition ip_of_src (k : ip_kind) (pc : pcontext) : option ip_update :=
  let mk := fun a => IpUpdate {| ai_addr := a; ai_null := g_ip_null a |} in
  match k with
  | IpkNoUpdate => Some IpNoUpdate
  | IpkUndetermined => None
  | IpkReg id => option_map mk (get_register pc id)
  | IpkRead v => option_map mk v
  end.
(* get_registers with the compiled choice of operand registers (set semantics: insertion order does not matter) *)
Definition operand_regs_src (m : memoperand) : list Z :=
  (if G_GETREGS_BASE then match mo_base m with Some b => [b] | None => [] end else []) ++
  (if G_GETREGS_INDEX then match mo_index m with Some i => [i] | None => [] end else []).
Definition instr_regs_src (ops : list memoperand) : list Z :=
  fold_left (fun acc id => insert_reg id acc) (flat_map operand_regs_src ops) [].
Definition analyze_dinstr_src (di : dinstr) (pc : pcontext) : option op_analysis :=
  Some {| oa_accesses := if negb (di_memsize di) then Some []
                         else option_map (fun l => l ++ implicit_access_src (di_implicit di) pc)
                                         (if di_lea di then Some [] else sequence (map (operand_address_src pc) (di_ops di)));
          oa_ip := ip_of_src (di_ip di) pc;
          oa_regs := instr_regs_src (di_ops di) |}.

(* ------------------------------------------------------------ MINIDUMP_MEMORY_INFO records -> regions, with the compiled permission masks *)
(* protection = MemoryProtection::from_bits_truncate(raw.protection); is_X = protection.intersects(mask) *)
Definition prot_src (mask p : Z) : bool := negb (Z.land (Z.land p G_PROT_KNOWN) mask =? 0).
Definition region_of_info_src (base size prot : Z) : region :=
  {| rg_range := mk_range base size; rg_r := prot_src G_PROT_R_MASK prot; rg_w := prot_src G_PROT_W_MASK prot;
     rg_x := prot_src G_PROT_X_MASK prot |}.
Definition regions_of_info_src (l : list (Z * Z * Z)) : list region :=
  map (fun e => let '(a, b, p) := e in region_of_info_src a b p) l.

(* Linux maps lines (start, end, rwx bits) -> regions, with the compiled choice of permission bit *)
Definition regions_of_maps_src (l : list (Z * Z * Z)) : list region :=
  map (fun e => let '(a, b, p) := e in
                region_of_map a b (Z.testbit p G_MAPS_R_BIT) (Z.testbit p G_MAPS_W_BIT) (Z.testbit p G_MAPS_X_BIT)) l.

(* ------------------------------------------------------------ from the raw records *)
(* CrashReason::from_exception as far as the compiled GPF patterns and MemoryOperation::from_crash_reason look *)
Definition greason_of (c : gcpu) (o : gosx) (code flags nparams info0 : Z) : greason :=
  let fam := g_reason_family o in
  if fam =? 0 then
    (if (code =? WIN_EXCEPTION_ACCESS_VIOLATION) && g_win_av_guard nparams && existsb (Z.eqb info0) WIN_ACCESS_TYPES
     then GRWindowsAccessViolation info0 else GROther)
  else if fam =? 1 then
    (if (code =? MAC_EXC_BAD_ACCESS) && negb (existsb (Z.eqb flags) MAC_BAD_ACCESS_KERN_TYPES) &&
        (gcpu_eqb c GX86 || gcpu_eqb c GX86_64) && existsb (Z.eqb flags) MAC_BAD_ACCESS_X86_TYPES
     then GRMacBadAccessX86 flags else GROther)
  else if fam =? 2 then
    (if (code =? LINUX_SIGSEGV) && negb (existsb (Z.eqb flags) LINUX_SIGSEGV_KINDS) then GRLinuxGeneral code flags
     else if (code =? LINUX_SIGBUS) && negb (existsb (Z.eqb flags) LINUX_SIGBUS_KINDS) then GRLinuxGeneral code flags
     else GROther)
  else GROther.
Definition memop_of_greason (r : greason) : memop :=
  match r with GRWindowsAccessViolation k => mk_memop (g_memop_of_access k) | _ => Undetermined end.

Definition info_of (e : exc_record) (k : Z) : Z := if k =? 0 then er_info0 e else if k =? 1 then er_info1 e else 0.

Section DumpSrc.
  Variable analysis : pcontext -> option op_analysis.
  Definition src_reason (arch platform_id : Z) (e : exc_record) : greason :=
    greason_of (cpu_of_arch arch) (os_of_platform_id platform_id) (er_code e) (er_flags e) (er_nparams e) (er_info0 e).
  Definition src_address (arch platform_id : Z) (e : exc_record) : Z :=
    g_crash_address (cpu_of_arch arch) (os_of_platform_id platform_id) (er_code e) (er_nparams e) (info_of e) (er_address e).
  Definition dump_adj_src (arch platform_id : Z) (e : exc_record) (pc : option pcontext) : gadj :=
    adjusted_src (cpu_of_arch arch) (os_of_platform_id platform_id) (src_reason arch platform_id e)
                 (src_address arch platform_id e) (the_analysis analysis pc).
  Definition dump_pipeline_src (arch platform_id : Z) (e : exc_record) (pc : option pcontext) (rs : list region) : list flip :=
    check_src2 (cpu_of_arch arch) (src_address arch platform_id e) (dump_adj_src arch platform_id e pc)
               (memop_of_greason (src_reason arch platform_id e)) (option_map to_context pc)
               (pipeline_iregs analysis pc) rs.
End DumpSrc.
