(* C19/Properties.v — property theorems only. *)
From Flocq Require Import IEEE754.Bits.
From Coq Require Import Lia.
From RM Require Import C08.Proofs C19.Model C19.Proofs.
Open Scope Z_scope.

(* Every reported flip differs from the examined value in exactly one bit inside the
   platform's bit range, is null or lies in a mapped region permitting the access, and
   carries the source register it was derived from. *)
Theorem c19_one_bit_in_range : forall a reg br ctx rs op f,
  In f (try_bit_flips a reg br ctx rs op) ->
  exists j, br_lo br <= j < br_hi br /\ 0 <= br_lo br /\ br_hi br <= 64 /\
            f_addr f = Z.lxor a (2 ^ j) /\
            (forall k, 0 <= k -> Z.testbit (f_addr f) k = xorb (Z.testbit a k) (j =? k)).
Proof. exact one_bit_in_range. Qed.
Print Assumptions c19_one_bit_in_range.

Theorem c19_flip_is_u64 : forall a reg br ctx rs op f,
  0 <= a < two64 -> In f (try_bit_flips a reg br ctx rs op) -> 0 <= f_addr f < two64.
Proof. exact flip_is_u64. Qed.
Print Assumptions c19_flip_is_u64.

Theorem c19_null_or_mapped_allowed : forall a reg br ctx rs op f,
  wf_regions rs -> In f (try_bit_flips a reg br ctx rs op) ->
  f_addr f = 0 \/
  exists mi r, In mi rs /\ rg_range mi = Some r /\ contains r (f_addr f) = true /\ possibly_allowed op mi = true.
Proof. exact null_or_mapped_allowed. Qed.
Print Assumptions c19_null_or_mapped_allowed.

Theorem c19_none_when_accessible : forall a reg br ctx rs op mi,
  lookup_region rs a = Some mi -> possibly_allowed op mi = true ->
  try_bit_flips a reg br ctx rs op = [].
Proof. exact none_when_accessible. Qed.
Print Assumptions c19_none_when_accessible.

(* whole check: which value each flip was derived from, its bit range by platform *)
Theorem c19_check_examined : forall c address adj op ctx iregs rs f,
  In f (check_for_bitflips c address adj op ctx iregs rs) ->
  exists a, examined c address adj ctx iregs f a /\
            flip_ok a (f_reg f) rs op (br_lo (expected_br c adj)) (br_hi (expected_br c adj)) f.
Proof. exact check_ok. Qed.
Print Assumptions c19_check_examined.

(* none for 32-bit dumps, ARM64 dumps, or a recognised null pointer plus offset *)
Theorem c19_none_32bit_arm64_nulloffset : forall c address adj op ctx iregs rs,
  c = Cpu32 \/ c = CpuArm64 \/ adj = AdjNullOffset ->
  check_for_bitflips c address adj op ctx iregs rs = [].
Proof. exact gating_none. Qed.
Print Assumptions c19_none_32bit_arm64_nulloffset.

(* none when the examined address and registers are themselves accessible *)
Theorem c19_check_none_when_accessible : forall c address op ctx iregs rs mi,
  (forall rid v, In (rid, v) iregs -> exists m, lookup_region rs v = Some m /\ possibly_allowed op m = true) ->
  lookup_region rs address = Some mi -> possibly_allowed op mi = true ->
  check_for_bitflips c address AdjNone op ctx iregs rs = [].
Proof. exact gating_accessible. Qed.
Print Assumptions c19_check_none_when_accessible.

(* 0 <= confidence <= 1 in binary32, for every details value (any register count) *)
Theorem c19_confidence_01 : forall d : details,
  le_b32 (f32 0) (confidence d) = true /\ le_b32 (confidence d) (f32 F32_ONE_bits) = true.
Proof. exact confidence_01_split. Qed.
Print Assumptions c19_confidence_01.

Theorem c19_confidence_index_ok : forall n, 0 < n ->
  nth_error NEARBY_REGISTER_c (Z.to_nat (Z.min n (Z.of_nat (length NEARBY_REGISTER_c)) - 1)) <> None.
Proof. exact confidence_index_ok. Qed.
Print Assumptions c19_confidence_index_ok.

(* the platform bit ranges (amd64 canonical addresses are 48 bits wide); the constants are
   regenerated from processor.rs on every run, so an edited range breaks this obligation *)
Theorem c19_platform_ranges :
  BR_ALL = (0, 64) /\ BR_CANONICAL = (0, 48) /\ BR_NONCANONICAL = (48, 64).
Proof. exact platform_ranges. Qed.
Print Assumptions c19_platform_ranges.

(* ---- non-vacuity ---- *)
Example c19_nonvacuous_flip :
  let rs := [region_of_info 524288 8 0] in
  wf_regions rs /\
  map f_addr (check_for_bitflips CpuAmd64 525312 AdjNone Undetermined None [] rs) = [524288].
Proof.
  split; [|vm_compute; reflexivity].
  unfold wf_regions. constructor; [|constructor]. vm_compute. intuition discriminate.
Qed.

Example c19_nonvacuous_conf :
  confidence_bits {| d_nc := false; d_null := false; d_low := false; d_nearby := 0; d_poison := false |} = 1048576000.
Proof. vm_compute. reflexivity. Qed.
