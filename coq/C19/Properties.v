(* C19/Properties.v — property theorems only. *)
From Flocq Require Import IEEE754.Bits.
From Coq Require Import Lia Sorting.Sorted.
From RM Require Import C08.Proofs C19.Model C19.Proofs C19.Pipeline C19.Proofs2 C19.Source C19.Proofs3.
Open Scope Z_scope.

(* Every reported flip differs from the examined value in exactly one bit inside the
   platform's bit range, is null or lies in a mapped region permitting the access, and
   carries the source register it was derived from. *)
Theorem c19_one_bit_in_range : forall a reg br ctx rs op f,
  In f (try_bit_flips a reg br ctx rs op) ->
  exists j, br_lo br <= j < br_hi br /\ 0 <= br_lo br /\ br_hi br <= 64 /\
            f_addr f = Z.lxor a (2 ^ j) /\
            (forall k, 0 <= k -> Z.testbit (f_addr f) k = xorb (Z.testbit a k) (j =? k)).
Proof. exact one_bit_in_range. Qed.
Print Assumptions c19_one_bit_in_range.

Theorem c19_flip_is_u64 : forall a reg br ctx rs op f,
  0 <= a < two64 -> In f (try_bit_flips a reg br ctx rs op) -> 0 <= f_addr f < two64.
Proof. exact flip_is_u64. Qed.
Print Assumptions c19_flip_is_u64.

Theorem c19_null_or_mapped_allowed : forall a reg br ctx rs op f,
  wf_regions rs -> In f (try_bit_flips a reg br ctx rs op) ->
  f_addr f = 0 \/
  exists mi r, In mi rs /\ rg_range mi = Some r /\ contains r (f_addr f) = true /\ possibly_allowed op mi = true.
Proof. exact null_or_mapped_allowed. Qed.
Print Assumptions c19_null_or_mapped_allowed.

Theorem c19_none_when_accessible : forall a reg br ctx rs op mi,
  lookup_region rs a = Some mi -> possibly_allowed op mi = true ->
  try_bit_flips a reg br ctx rs op = [].
Proof. exact none_when_accessible. Qed.
Print Assumptions c19_none_when_accessible.

(* whole check: which value each flip was derived from, its bit range by platform *)
Theorem c19_check_examined : forall c address adj op ctx iregs rs f,
  In f (check_for_bitflips c address adj op ctx iregs rs) ->
  exists a, examined c address adj ctx iregs f a /\
            flip_ok a (f_reg f) rs op (br_lo (expected_br c adj)) (br_hi (expected_br c adj)) f.
Proof. exact check_ok. Qed.
Print Assumptions c19_check_examined.

(* none for 32-bit dumps, ARM64 dumps, or a recognised null pointer plus offset *)
Theorem c19_none_32bit_arm64_nulloffset : forall c address adj op ctx iregs rs,
  c = Cpu32 \/ c = CpuArm64 \/ adj = AdjNullOffset ->
  check_for_bitflips c address adj op ctx iregs rs = [].
Proof. exact gating_none. Qed.
Print Assumptions c19_none_32bit_arm64_nulloffset.

(* none when the examined address and registers are themselves accessible *)
Theorem c19_check_none_when_accessible : forall c address op ctx iregs rs mi,
  (forall rid v, In (rid, v) iregs -> exists m, lookup_region rs v = Some m /\ possibly_allowed op m = true) ->
  lookup_region rs address = Some mi -> possibly_allowed op mi = true ->
  check_for_bitflips c address AdjNone op ctx iregs rs = [].
Proof. exact gating_accessible. Qed.
Print Assumptions c19_check_none_when_accessible.

(* 0 <= confidence <= 1 in binary32, for every details value (any register count) *)
Theorem c19_confidence_01 : forall d : details,
  le_b32 (f32 0) (confidence d) = true /\ le_b32 (confidence d) (f32 F32_ONE_bits) = true.
Proof. exact confidence_01_split. Qed.
Print Assumptions c19_confidence_01.

(* NEARBY_REGISTER[nearby]: guard and index expression are REGENERATED from confidence() on every run
   (Gen.C19Check.NEARBY_GUARD / NEARBY_INDEX); for every count that passes the guard the index is inside
   the table: no usize underflow, no index panic *)
Theorem c19_confidence_index_ok : forall n, NEARBY_GUARD n = true ->
  0 <= NEARBY_INDEX (Z.of_nat (length NEARBY_REGISTER_c)) n < Z.of_nat (length NEARBY_REGISTER_c) /\
  nth_index NEARBY_REGISTER_c (NEARBY_INDEX (Z.of_nat (length NEARBY_REGISTER_c)) n) <> None.
Proof. exact confidence_index_ok. Qed.
Print Assumptions c19_confidence_index_ok.

(* the platform bit ranges (amd64 canonical addresses are 48 bits wide); the constants are
   regenerated from processor.rs on every run, so an edited range breaks this obligation *)
Theorem c19_platform_ranges :
  BR_ALL = (0, 64) /\ BR_CANONICAL = (0, 48) /\ BR_NONCANONICAL = (48, 64).
Proof. exact platform_ranges. Qed.
Print Assumptions c19_platform_ranges.

(* ================================================================ round 5 *)
(* check_for_bitflips as REGENERATED from processor.rs (gates, adjusted-address arms, address pass then
   register pass; Gen.C19Check.g_check) is the hand-written model on the 4 behaviour classes; an edited
   gate / arm / bit range changes Gen/C19Check.v and breaks this obligation *)
Theorem c19_check_src_refines : forall c address adj op ctx iregs rs,
  check_src c address adj op ctx iregs rs =
  check_for_bitflips (cpu_class c) address (adj_class adj) op ctx iregs rs.
Proof. exact check_src_refines. Qed.
Print Assumptions c19_check_src_refines.

(* platform gating, every Cpu variant and every crash address: nothing unless the pointer width is 64
   bits, nothing for Arm64 — whatever the adjusted address, context, instruction registers and map *)
Theorem c19_none_platform : forall c address adj op ctx iregs rs,
  pointer_width c <> WBits64 \/ c = GArm64 ->
  check_src c address adj op ctx iregs rs = [].
Proof. exact none_platform. Qed.
Print Assumptions c19_none_platform.

(* ... on MINIDUMP_SYSTEM_INFO.processor_architecture (Cpu::from_processor_architecture and the numeric
   values are regenerated): only AMD64 (9), PPC64 (0x8002) and MIPS64 (0x8004) can ever yield a flip;
   ARM64 (12), ARM64_OLD (0x8003), every 32-bit and every unknown value never do — for every os, reason,
   crash address, context, instruction analysis and map *)
Theorem c19_none_platform_arch : forall analysis arch os r address pc rs,
  ~ (arch = 9 \/ arch = 32770 \/ arch = 32772) ->
  pipeline analysis (cpu_of_arch arch) os r address pc rs = [].
Proof. exact none_platform_arch. Qed.
Print Assumptions c19_none_platform_arch.

Theorem c19_arch_arm64 : forall arch, cpu_of_arch arch = GArm64 <-> (arch = 12 \/ arch = 32771).
Proof. exact arch_arm64. Qed.
Print Assumptions c19_arch_arm64.

(* the instruction analysis is an ARBITRARY function of the exception context (decoder and operand
   evaluation unconstrained).  Whenever one of the addresses it reports (memory accesses, plus the
   instruction-pointer update when the accesses are known) is flagged "likely null pointer dereference",
   NOTHING is reported: neither by the address pass nor by the register pass *)
Theorem c19_none_nulloffset_both_passes : forall analysis c os r address x rs oa,
  analysis x = Some oa -> has_null_flag oa ->
  pipeline analysis c os r address (Some x) rs = [].
Proof. exact pipeline_none_null. Qed.
Print Assumptions c19_none_nulloffset_both_passes.

(* what get_exception_details' adjusted address can be: null+offset exactly for a flagged address (first
   one wins); non-canonical only on amd64, only for a general-protection fault, only an address the
   instruction accesses inside 0x0000_8000_0000_0000..=0xffff_7fff_ffff_ffff, and only if nothing is flagged *)
Theorem c19_adjusted_sound : forall c os r address oa,
  match adjusted_of c os r address oa with
  | GAdjNullPointerWithOffset off =>
      exists o l ai, oa = Some o /\ oa_addresses o = Some l /\ In ai l /\ ai_null ai = true /\ ai_addr ai = off
  | GAdjNonCanonical v =>
      c = GX86_64 /\ is_gpf os r address = true /\
      exists o l ai, oa = Some o /\ oa_addresses o = Some l /\ In ai l /\ ai_addr ai = v /\
                     in_non_canonical v = true /\ (forall ai', In ai' l -> ai_null ai' = false)
  | GAdjNone => oa = None \/ exists o, oa = Some o /\ ~ has_null_flag o
  end.
Proof. exact adjusted_sound. Qed.
Print Assumptions c19_adjusted_sound.

Theorem c19_non_canonical_range : NON_CANONICAL_LO = 2 ^ 47 /\ NON_CANONICAL_HI = two64 - 2 ^ 47 - 1.
Proof. exact non_canonical_range. Qed.
Print Assumptions c19_non_canonical_range.

(* the whole path, exception record + arbitrary instruction analysis -> flips: every flip comes from a
   64-bit non-ARM64 dump without null+offset recognition, derives from the crash address (or the recovered
   non-canonical address) or from a register the analysis named and the context can read, differs from it
   in one bit of the platform's range and is null or in a region (as the lookup sees it) permitting the access *)
Theorem c19_pipeline_examined : forall analysis c os r address pc rs f,
  In f (pipeline analysis c os r address pc rs) ->
  pointer_width c = WBits64 /\ c <> GArm64 /\
  (forall off, pipeline_adj analysis c os r address pc <> GAdjNullPointerWithOffset off) /\
  exists a, examined_by analysis c os r address pc f a /\
            flip_ok a (f_reg f) rs (memop_of_reason r)
                    (br_lo (pipeline_br analysis c os r address pc)) (br_hi (pipeline_br analysis c os r address pc)) f.
Proof. exact pipeline_examined. Qed.
Print Assumptions c19_pipeline_examined.

Theorem c19_pipeline_bit_range : forall analysis c os r address pc,
  pointer_width c = WBits64 -> c <> GArm64 ->
  (exists v, pipeline_adj analysis c os r address pc = GAdjNonCanonical v /\ c = GX86_64 /\
             pipeline_br analysis c os r address pc = Amd64NonCanonical) \/
  ((forall v, pipeline_adj analysis c os r address pc <> GAdjNonCanonical v) /\
   pipeline_br analysis c os r address pc = if gcpu_eqb c GX86_64 then Amd64Canonical else AllBits).
Proof. exact pipeline_br_cases. Qed.
Print Assumptions c19_pipeline_bit_range.

Theorem c19_pipeline_none_when_accessible : forall analysis c os r address pc rs mi,
  pipeline_adj analysis c os r address pc = GAdjNone ->
  lookup_region rs address = Some mi -> possibly_allowed (memop_of_reason r) mi = true ->
  (forall id v, In (id, v) (pipeline_iregs analysis pc) ->
                exists m, lookup_region rs v = Some m /\ possibly_allowed (memop_of_reason r) m = true) ->
  pipeline analysis c os r address pc rs = [].
Proof. exact pipeline_none_accessible. Qed.
Print Assumptions c19_pipeline_none_when_accessible.

(* operand evaluation (MemoryAddressInfo::try_from_operand): the address is a u64 and the null flag is set
   exactly when the operand has a base register that reads 0 *)
Theorem c19_operand_null_iff_base_zero : forall pc m ai,
  operand_address pc m = Some ai ->
  0 <= ai_addr ai < two64 /\
  (ai_null ai = true <-> exists b, mo_base m = Some b /\ get_register pc b = Some 0).
Proof. exact operand_address_spec. Qed.
Print Assumptions c19_operand_null_iff_base_zero.

(* a decoded non-LEA instruction with a memory operand whose base register reads 0 (every operand register
   readable): recognised as null pointer plus offset — nothing is reported by either pass *)
Theorem c19_null_base_no_flips : forall di pc c os r address rs m b,
  di_lea di = false -> di_memsize di = true ->
  (forall m', In m' (di_ops di) -> operand_address pc m' <> None) ->
  In m (di_ops di) -> mo_base m = Some b -> get_register pc b = Some 0 ->
  pipeline (analyze_dinstr di) c os r address (Some pc) rs = [].
Proof. exact null_base_no_flips. Qed.
Print Assumptions c19_null_base_no_flips.

(* a call / jmp through a register that reads 0: recognised as a null pointer, nothing reported *)
Theorem c19_null_target_no_flips : forall di pc c os r address rs id,
  di_ip di = IpkReg id -> get_register pc id = Some 0 ->
  (di_memsize di = true -> explicit_accesses di pc <> None) ->
  pipeline (analyze_dinstr di) c os r address (Some pc) rs = [].
Proof. exact null_target_no_flips. Qed.
Print Assumptions c19_null_target_no_flips.

(* get_registers (the register pass iterates over it): strictly increasing in the order of the register NAMES — the
   rank table is regenerated from CONTEXT_AMD64::REGISTERS — hence duplicate-free, and it holds exactly the base / index
   registers of the instruction's memory operands *)
Theorem c19_instr_regs_spec : forall ops,
  StronglySorted rank_lt (instr_regs ops) /\
  (forall id, In id (instr_regs ops) -> exists m, In m ops /\ (mo_base m = Some id \/ mo_index m = Some id)) /\
  (forall m id, In m ops -> (mo_base m = Some id \/ mo_index m = Some id) -> 0 <= id <= 16 ->
                (forall m' id', In m' ops -> (mo_base m' = Some id' \/ mo_index m' = Some id') -> 0 <= id' <= 16) ->
                In id (instr_regs ops)).
Proof. exact instr_regs_spec. Qed.
Print Assumptions c19_instr_regs_spec.

(* MemoryOperation::from_crash_reason / is_possibly_allowed_for (regenerated tables) are the model's *)
Theorem c19_memop_tables : forall rg,
  g_allowed_undetermined = true /\
  possibly_allowed (mk_memop 0) rg = g_allowed_undetermined /\
  (forall o, 1 <= o <= 3 ->
     possibly_allowed (mk_memop o) rg = nth (Z.to_nat (g_allowed_perm o)) [rg_r rg; rg_w rg; rg_x rg] false) /\
  mk_memop (g_memop_of_access 0) = MRead /\ mk_memop (g_memop_of_access 1) = MWrite /\
  mk_memop (g_memop_of_access 8) = MExec /\
  (forall k, k <> 0 -> k <> 1 -> k <> 8 -> mk_memop (g_memop_of_access k) = Undetermined).
Proof. exact memop_tables. Qed.
Print Assumptions c19_memop_tables.

(* THE PROPERTY END TO END, in plain arithmetic on the stream records, for an arbitrary instruction analysis:
   every flip reported for a dump with a MemoryInfoList (base, size, protection records, any u64 values, any
   overlaps) is [examined value] xor 2^j with j in the platform's range, is a u64, and is 0 or lies inside
   [base, base+size) of a record whose protection permits the crashing kind of access *)
Theorem c19_pipeline_flip_info : forall analysis c os r address pc l f,
  u64_recs l -> 0 <= address < two64 ->
  (forall x id v, pc = Some x -> get_register x id = Some v -> 0 <= v < two64) ->
  (forall x oa ai, analysis x = Some oa -> (exists a, oa_addresses oa = Some a /\ In ai a) -> 0 <= ai_addr ai < two64) ->
  In f (pipeline analysis c os r address pc (regions_of_info l)) ->
  exists a j, examined_by analysis c os r address pc f a /\
              br_lo (pipeline_br analysis c os r address pc) <= j < br_hi (pipeline_br analysis c os r address pc) /\
              f_addr f = Z.lxor a (2 ^ j) /\ 0 <= f_addr f < two64 /\
              (f_addr f = 0 \/
               exists base size prot, In (base, size, prot) l /\ size <> 0 /\ base + size < two64 /\
                                      base <= f_addr f < base + size /\ info_allows (memop_of_reason r) prot = true).
Proof. exact pipeline_flip_info. Qed.
Print Assumptions c19_pipeline_flip_info.

(* ... and with Linux maps (start, end, rwx) lines *)
Theorem c19_pipeline_flip_maps : forall analysis c os r address pc l f,
  u64_recs l ->
  In f (pipeline analysis c os r address pc (regions_of_maps l)) ->
  exists a j, examined_by analysis c os r address pc f a /\
              br_lo (pipeline_br analysis c os r address pc) <= j < br_hi (pipeline_br analysis c os r address pc) /\
              f_addr f = Z.lxor a (2 ^ j) /\
              (f_addr f = 0 \/
               exists lo hi p, In (lo, hi, p) l /\ lo <= f_addr f <= hi /\ maps_allows (memop_of_reason r) p = true).
Proof. exact pipeline_flip_maps. Qed.
Print Assumptions c19_pipeline_flip_maps.

(* the detail flags attached to a reported flip say what they claim: is_null iff the candidate is 0, was_low only for a
   null candidate of a low original, was_non_canonical iff the bit range is 48..64, the nearby-register count is
   between 0 and the number of valid registers and positive only above the low-address cutoff *)
Theorem c19_details_consistent : forall a reg br ctx rs op f,
  In f (try_bit_flips a reg br ctx rs op) ->
  d_null (f_det f) = (f_addr f =? 0) /\
  (d_low (f_det f) = true -> f_addr f = 0 /\ a <= LOW_ADDRESS_CUTOFF) /\
  d_nc (f_det f) = (match br with Amd64NonCanonical => true | _ => false end) /\
  0 <= d_nearby (f_det f) <= ctx_count ctx /\
  (0 < d_nearby (f_det f) -> LOW_ADDRESS_CUTOFF < f_addr f) /\
  (ctx = None -> d_nearby (f_det f) = 0 /\ d_poison (f_det f) = false).
Proof. exact details_consistent. Qed.
Print Assumptions c19_details_consistent.

(* "none when the examined address is itself accessible", on the map itself: the examined value lies in the range of
   a region that intersects no other region and permits the operation (any position in the list, any other
   regions, overlapping among themselves or not) — the lookup finds that region (C08 completeness) and nothing
   is reported.  (With overlapping regions the lookup table drops entries, see design/C19.md.) *)
Theorem c19_none_when_accessible_isolated : forall rs1 mi rs2 r a reg br ctx op,
  wf_regions (rs1 ++ mi :: rs2) -> rg_range mi = Some r -> contains r a = true ->
  (forall mi' r', In mi' (rs1 ++ rs2) -> rg_range mi' = Some r' -> intersects r r' = false) ->
  possibly_allowed op mi = true ->
  try_bit_flips a reg br ctx (rs1 ++ mi :: rs2) op = [].
Proof. exact none_when_accessible_isolated. Qed.
Print Assumptions c19_none_when_accessible_isolated.

(* completeness (the converse of c19_one_bit_in_range / c19_null_or_mapped_allowed): when the examined value is not
   itself accessible, EVERY single-bit neighbour inside the bit range that is null or that the lookup places in a region
   permitting the access is reported, with the source register it was asked for *)
Theorem c19_flips_complete : forall a reg br ctx rs op j,
  (forall mi, lookup_region rs a = Some mi -> possibly_allowed op mi = false) ->
  br_lo br <= j < br_hi br ->
  (Z.lxor a (2 ^ j) = 0 \/
   exists mi, lookup_region rs (Z.lxor a (2 ^ j)) = Some mi /\ possibly_allowed op mi = true) ->
  exists f, In f (try_bit_flips a reg br ctx rs op) /\ f_addr f = Z.lxor a (2 ^ j) /\ f_reg f = reg.
Proof. exact try_bit_flips_complete. Qed.
Print Assumptions c19_flips_complete.

(* completeness of the whole path (with c19_pipeline_examined this characterises the report exactly, as a set): on a live
   platform without null+offset recognition, for the crash address (or the recovered non-canonical address) and for every
   register the analysis names and the context can read — if that value is not itself accessible, every single-bit
   neighbour inside the platform's range that is null or in a region permitting the access is reported *)
Theorem c19_pipeline_complete : forall analysis c os r address pc rs a reg j,
  pointer_width c = WBits64 -> c <> GArm64 ->
  (forall off, pipeline_adj analysis c os r address pc <> GAdjNullPointerWithOffset off) ->
  ((reg = None /\ a = match pipeline_adj analysis c os r address pc with GAdjNonCanonical v => v | _ => address end) \/
   (exists id x oa, reg = Some id /\ pc = Some x /\ analysis x = Some oa /\ In id (oa_regs oa) /\ get_register x id = Some a)) ->
  inaccessible rs (memop_of_reason r) a ->
  br_lo (pipeline_br analysis c os r address pc) <= j < br_hi (pipeline_br analysis c os r address pc) ->
  qualifies rs (memop_of_reason r) (Z.lxor a (2 ^ j)) ->
  exists f, In f (pipeline analysis c os r address pc rs) /\ f_addr f = Z.lxor a (2 ^ j) /\ f_reg f = reg.
Proof. exact pipeline_complete. Qed.
Print Assumptions c19_pipeline_complete.

(* ---- from the raw records of the dump: processor_architecture, platform_id, the exception record ---- *)
(* (Os / PlatformId / Cpu tables, the per-OS dispatch of CrashReason::from_exception and the error enums are regenerated;
   get_crash_address and the relevant fragments of from_{windows,linux,mac}_exception are pinned by the translator) *)
Theorem c19_dump_none_platform : forall analysis arch platform_id e pc rs,
  ~ (arch = 9 \/ arch = 32770 \/ arch = 32772) ->
  dump_pipeline analysis arch platform_id e pc rs = [].
Proof. exact dump_none_platform. Qed.
Print Assumptions c19_dump_none_platform.

(* bits 48..64 (a recovered non-canonical address) are examined only for an AMD64 dump whose exception record has one
   of the three general-protection-fault shapes: Windows EXCEPTION_ACCESS_VIOLATION/read at 0xffff_ffff_ffff_ffff, macOS
   EXC_BAD_ACCESS/EXC_I386_GPFLT at 0, Linux SIGSEGV|SIGBUS/SI_KERNEL at 0 — for every instruction analysis *)
Theorem c19_dump_noncanonical_shape : forall analysis arch platform_id e pc v,
  dump_adj analysis arch platform_id e pc = GAdjNonCanonical v ->
  arch = 9 /\ in_non_canonical v = true /\
  let o := dump_os platform_id in
  let address := dump_address arch platform_id e in
  (o = GOsWindows /\ er_code e = WIN_EXCEPTION_ACCESS_VIOLATION /\ 1 <= er_nparams e /\ er_info0 e = WIN_ACCESS_READ /\ address = two64 - 1) \/
  (o = GOsMacOs /\ er_code e = MAC_EXC_BAD_ACCESS /\ er_flags e = MAC_EXC_I386_GPFLT /\ address = 0) \/
  (o = GOsLinux /\ (er_code e = LINUX_SIGSEGV \/ er_code e = LINUX_SIGBUS) /\ er_flags e = LINUX_SI_KERNEL /\ address = 0).
Proof. exact dump_noncanonical_shape. Qed.
Print Assumptions c19_dump_noncanonical_shape.

(* ... in particular only for platform ids 2/3 (Windows), 0x8101 (macOS), 0x8201 (Linux): never Android, iOS, Solaris, ... *)
Theorem c19_dump_noncanonical_os : forall analysis arch platform_id e pc v,
  dump_adj analysis arch platform_id e pc = GAdjNonCanonical v ->
  platform_id = 2 \/ platform_id = 3 \/ platform_id = 33025 \/ platform_id = 33281.
Proof. exact dump_noncanonical_os. Qed.
Print Assumptions c19_dump_noncanonical_os.

(* no arithmetic trap in calculate_heuristics' is_repeated: `(addr & 0xff) * 0x0101..01` (a plain u64 multiplication, which
   panics on overflow in a debug build) never overflows, for the multipliers regenerated from the source — so the model's
   unbounded product is the code's in both profiles *)
Theorem c19_is_repeated_no_overflow : forall a,
  0 <= Z.land a 255 * REPEAT_MUL_2 < two64 /\ 0 <= Z.land a 255 * REPEAT_MUL_4 < two64 /\
  0 <= Z.land a 255 * REPEAT_MUL_8 < two64.
Proof. exact is_repeated_no_overflow. Qed.
Print Assumptions c19_is_repeated_no_overflow.

(* closed form of try_bit_flips — order and multiplicity included: nothing when the examined value is accessible; otherwise,
   for the bits lo, lo+1, .., hi-1 of the range in this order, the null candidate (if the neighbour is 0) followed by the
   mapped candidate (if the lookup places the neighbour in a region permitting the access) *)
Theorem c19_try_bit_flips_exact : forall a reg br ctx rs op,
  try_bit_flips a reg br ctx rs op =
  if (match lookup_region rs a with Some mi => possibly_allowed op mi | None => false end) then []
  else flat_map (flips_at a reg br ctx rs op) (zrange (br_lo br) (Z.to_nat (br_hi br - br_lo br))).
Proof. exact try_bit_flips_exact. Qed.
Print Assumptions c19_try_bit_flips_exact.

(* ================================================================ THE PROPERTY, clause by clause *)
(* From the raw records of a dump with a MemoryInfoList (processor_architecture, platform_id, exception record, records
   (base, size, protection) with any u64 values and any overlaps) and for an ARBITRARY instruction analysis:
   - each reported flip differs in exactly one bit, inside the platform's range, from an examined value (the crash address,
     the recovered non-canonical address, or a register the analysis named and the context can read) that is NOT itself
     accessible; it is a u64, and it is 0 or lies inside a record whose protection permits the crashing kind of access;
     its confidence lies between 0 and 1 (binary32);
   - nothing is reported when the access was recognised as a null pointer plus offset;
   - nothing is reported for 32-bit, ARM64 / ARM64_OLD and unknown architectures.
   ("not accessible" is what the region lookup says; c19_record_accessible below: a value inside a record that intersects no
   other record and permits the access is accessible — with overlapping records the lookup table drops entries, design/C19.md) *)
Theorem c19_the_property : forall analysis arch platform_id e pc l,
  u64_recs l ->
  0 <= er_address e < two64 -> 0 <= er_info1 e < two64 ->
  (forall x id v, pc = Some x -> get_register x id = Some v -> 0 <= v < two64) ->
  (forall x oa ai, analysis x = Some oa -> (exists a, oa_addresses oa = Some a /\ In ai a) -> 0 <= ai_addr ai < two64) ->
  let c := dump_cpu arch in
  let os := os_class (dump_os platform_id) in
  let r := dump_reason arch platform_id e in
  let address := dump_address arch platform_id e in
  let flips := dump_pipeline analysis arch platform_id e pc (regions_of_info l) in
  (forall f, In f flips ->
     exists a j, examined_by analysis c os r address pc f a /\
                 inaccessible (regions_of_info l) (memop_of_reason r) a /\
                 br_lo (pipeline_br analysis c os r address pc) <= j < br_hi (pipeline_br analysis c os r address pc) /\
                 f_addr f = Z.lxor a (2 ^ j) /\ 0 <= f_addr f < two64 /\
                 (f_addr f = 0 \/
                  exists base size prot, In (base, size, prot) l /\ size <> 0 /\ base + size < two64 /\
                                         base <= f_addr f < base + size /\ info_allows (memop_of_reason r) prot = true) /\
                 le_b32 (f32 0) (confidence (f_det f)) = true /\ le_b32 (confidence (f_det f)) (f32 F32_ONE_bits) = true) /\
  (forall x oa, pc = Some x -> analysis x = Some oa -> has_null_flag oa -> flips = []) /\
  (~ (arch = 9 \/ arch = 32770 \/ arch = 32772) -> flips = []).
Proof. exact the_property. Qed.
Print Assumptions c19_the_property.

(* ... and for a dump with Linux maps lines (start, end, rwx bits) *)
Theorem c19_the_property_maps : forall analysis arch platform_id e pc l,
  u64_recs l ->
  let c := dump_cpu arch in
  let os := os_class (dump_os platform_id) in
  let r := dump_reason arch platform_id e in
  let address := dump_address arch platform_id e in
  let flips := dump_pipeline analysis arch platform_id e pc (regions_of_maps l) in
  (forall f, In f flips ->
     exists a j, examined_by analysis c os r address pc f a /\
                 inaccessible (regions_of_maps l) (memop_of_reason r) a /\
                 br_lo (pipeline_br analysis c os r address pc) <= j < br_hi (pipeline_br analysis c os r address pc) /\
                 f_addr f = Z.lxor a (2 ^ j) /\
                 (f_addr f = 0 \/
                  exists lo hi p, In (lo, hi, p) l /\ lo <= f_addr f <= hi /\ maps_allows (memop_of_reason r) p = true) /\
                 le_b32 (f32 0) (confidence (f_det f)) = true /\ le_b32 (confidence (f_det f)) (f32 F32_ONE_bits) = true) /\
  (forall x oa, pc = Some x -> analysis x = Some oa -> has_null_flag oa -> flips = []) /\
  (~ (arch = 9 \/ arch = 32770 \/ arch = 32772) -> flips = []).
Proof. exact the_property_maps. Qed.
Print Assumptions c19_the_property_maps.

Theorem c19_record_accessible : forall op l1 base size prot l2 a,
  u64_recs (l1 ++ (base, size, prot) :: l2) ->
  size <> 0 -> base + size < two64 -> base <= a < base + size ->
  info_allows op prot = true ->
  (forall b s p, In (b, s, p) (l1 ++ l2) -> s <> 0 -> b + s < two64 -> b + s <= base \/ base + size <= b) ->
  ~ inaccessible (regions_of_info (l1 ++ (base, size, prot) :: l2)) op a.
Proof. exact record_accessible. Qed.
Print Assumptions c19_record_accessible.

(* ---- non-vacuity ---- *)
Example c19_nonvacuous_flip :
  let rs := [region_of_info 524288 8 0] in
  wf_regions rs /\
  map f_addr (check_for_bitflips CpuAmd64 525312 AdjNone Undetermined None [] rs) = [524288].
Proof.
  split; [|vm_compute; reflexivity].
  unfold wf_regions. constructor; [|constructor]. vm_compute. intuition discriminate.
Qed.

Example c19_nonvacuous_conf :
  confidence_bits {| d_nc := false; d_null := false; d_low := false; d_nearby := 0; d_poison := false |} = 1048576000.
Proof. vm_compute. reflexivity. Qed.

(* round 5: a null dereference through rbx (= 0) with a mapped power-of-two address: recognised, nothing
   reported; the same instruction with rbx = 0x80400 (one bit from the mapped 0x80000): the register pass
   reports the flip with source register rbx (id 3) *)
Definition nv_di := {| di_lea := false; di_memsize := true;
                       di_ops := [{| mo_base := Some 3; mo_index := None; mo_scale := None; mo_disp := Some 8 |}];
                       di_implicit := ImpNone; di_ip := IpkNoUpdate |}.
Definition nv_pc (rbx : Z) := {| pc_size := 8; pc_regs := [(0, 5); (3, rbx); (16, 4096)] |}.
Example c19_nonvacuous_null_base :
  let rs := [region_of_info 524288 16 4] in
  has_null_flag (match analyze_dinstr nv_di (nv_pc 0) with Some oa => oa | None => {| oa_accesses := None; oa_ip := None; oa_regs := [] |} end) /\
  pipeline (analyze_dinstr nv_di) GX86_64 OsLinux ROther 8 (Some (nv_pc 0)) rs = [] /\
  map (fun f => (f_addr f, f_reg f)) (pipeline (analyze_dinstr nv_di) GX86_64 OsLinux ROther 525320 (Some (nv_pc 525312)) rs)
    = [(524296, None); (524288, Some 3)].
Proof.
  split; [|split; vm_compute; reflexivity].
  exists [{| ai_addr := 8; ai_null := true |}], {| ai_addr := 8; ai_null := true |}.
  split; [vm_compute; reflexivity|]. split; [left; reflexivity|reflexivity].
Qed.

(* a general-protection fault on Windows/amd64 whose instruction accesses a non-canonical address one bit
   (bit 48) away from a mapped one: the recovered address is examined in bits 48..64 *)
Example c19_nonvacuous_noncanonical :
  let rs := [region_of_info 140737488351232 4096 4] in     (* 0x7ffffffff000 *)
  let pc := nv_pc (140737488351232 + 281474976710656 - 8) in
  pipeline_adj (analyze_dinstr nv_di) GX86_64 OsWindows (RWinAccessViolation 0) (two64 - 1) (Some pc)
    = GAdjNonCanonical (140737488351232 + 281474976710656) /\
  map (fun f => (f_addr f, f_reg f, d_nc (f_det f)))
      (pipeline (analyze_dinstr nv_di) GX86_64 OsWindows (RWinAccessViolation 0) (two64 - 1) (Some pc) rs)
    = [(140737488351232, None, true)].
Proof. split; vm_compute; reflexivity. Qed.

(* the raw-record path: an AMD64 / Linux dump with SIGSEGV / SI_KERNEL at address 0 whose instruction accesses a
   non-canonical address: adjusted, bit 48 flipped back *)
Example c19_nonvacuous_dump :
  let rs := [region_of_info 140737488351232 4096 4] in
  let pc := nv_pc (140737488351232 + 281474976710656 - 8) in
  let e := {| er_code := 11; er_flags := 128; er_nparams := 0; er_info0 := 0; er_info1 := 0; er_address := 0 |} in
  dump_adj (analyze_dinstr nv_di) 9 33281 e (Some pc) = GAdjNonCanonical (140737488351232 + 281474976710656) /\
  map f_addr (dump_pipeline (analyze_dinstr nv_di) 9 33281 e (Some pc) rs) = [140737488351232] /\
  dump_adj (analyze_dinstr nv_di) 9 33283 e (Some pc) = GAdjNone.      (* the same record from Android: no adjustment *)
Proof. repeat split; vm_compute; reflexivity. Qed.

(* ======================================================================================================
   Round 5, second pass: the function bodies COMPILED from the Rust source (translate/c19_src.py -> Gen.C19Src,
   executed by C19/Source.v, which is what the correspondence run executes).  Until now try_bit_flips,
   calculate_heuristics, the adjusted-address helpers, the GPF arms and get_crash_address were pinned textually. *)

(* (1) For ANY try_bit_flips body inside the translator's grammar (early exits; loop items that push under
   `possible_address == k` / `lookup + permission` guards, as if / else-if chains) whose `== k` guards all have k = 0:
   every candidate is the examined value with one bit of lo..hi flipped, and is 0 or mapped with the access allowed *)
Theorem c19_try_grammar_sound : forall (R F : Type) early items (lookup : Z -> option R) allowed (mk : Z -> Z -> F),
  items_ok items = true -> forall a lo hi f,
  In f (try_gen early items lookup allowed mk a lo hi) ->
  exists j, lo <= j < hi /\ f = mk a (Z.lxor a (2 ^ j)) /\
            (Z.lxor a (2 ^ j) = 0 \/ exists mi, lookup (Z.lxor a (2 ^ j)) = Some mi /\ allowed mi = true).
Proof. exact (@try_gen_sound). Qed.
Print Assumptions c19_try_grammar_sound.

(* ... and if one of the early exits is the lookup + permission test on the examined value itself, nothing is reported
   for an accessible examined value *)
Theorem c19_try_grammar_none_when_accessible : forall (R F : Type) early items (lookup : Z -> option R) allowed (mk : Z -> Z -> F),
  early_ok early = true -> forall a lo hi,
  (exists mi, lookup a = Some mi /\ allowed mi = true) -> try_gen early items lookup allowed mk a lo hi = [].
Proof. exact (@try_gen_none_when_accessible). Qed.
Print Assumptions c19_try_grammar_none_when_accessible.

(* ... and if some item carries the lookup + permission guard, some item the `== 0` guard, and every early exit is the
   lookup + permission test on the examined value: every qualifying neighbour of an inaccessible examined value IS reported
   (with c19_try_grammar_sound: the reported SET is characterised exactly for any such body) *)
Theorem c19_try_grammar_complete : forall (R F : Type) early items (lookup : Z -> option R) allowed (mk : Z -> Z -> F),
  items_complete items = true -> early_only_mapped early = true ->
  forall a lo hi j, lo <= j < hi -> ~ (exists mi, lookup a = Some mi /\ allowed mi = true) ->
  (Z.lxor a (2 ^ j) = 0 \/ exists mi, lookup (Z.lxor a (2 ^ j)) = Some mi /\ allowed mi = true) ->
  In (mk a (Z.lxor a (2 ^ j))) (try_gen early items lookup allowed mk a lo hi).
Proof. exact (@try_gen_complete). Qed.
Print Assumptions c19_try_grammar_complete.

(* the body as it is in the source passes all four side conditions (re-checked on the regenerated lists on every run) *)
Theorem c19_try_src_side_conditions : items_ok TRY_ITEMS = true /\ early_ok TRY_EARLY = true /\
                                      items_complete TRY_ITEMS = true /\ early_only_mapped TRY_EARLY = true.
Proof. exact try_side_conditions. Qed.
Print Assumptions c19_try_src_side_conditions.

(* hence, on the compiled try_bit_flips (no hand-written model involved): *)
Theorem c19_try_src_sound : forall a reg br ctx rs op f,
  In f (try_bit_flips_src a reg br ctx rs op) ->
  exists j, fst (br_bounds (br_of br)) <= j < snd (br_bounds (br_of br)) /\
            f_addr f = Z.lxor a (2 ^ j) /\ f_reg f = reg /\
            (f_addr f = 0 \/ exists mi, lookup_region rs (f_addr f) = Some mi /\ possibly_allowed op mi = true).
Proof. exact try_src_sound. Qed.
Print Assumptions c19_try_src_sound.

Theorem c19_try_src_none_when_accessible : forall a reg br ctx rs op mi,
  lookup_region rs a = Some mi -> possibly_allowed op mi = true -> try_bit_flips_src a reg br ctx rs op = [].
Proof. exact try_src_none_when_accessible. Qed.
Print Assumptions c19_try_src_none_when_accessible.

Theorem c19_try_src_complete : forall a reg br ctx rs op j,
  fst (br_bounds (br_of br)) <= j < snd (br_bounds (br_of br)) ->
  ~ (exists mi, lookup_region rs a = Some mi /\ possibly_allowed op mi = true) ->
  (Z.lxor a (2 ^ j) = 0 \/ exists mi, lookup_region rs (Z.lxor a (2 ^ j)) = Some mi /\ possibly_allowed op mi = true) ->
  exists f, In f (try_bit_flips_src a reg br ctx rs op) /\ f_addr f = Z.lxor a (2 ^ j) /\ f_reg f = reg.
Proof. exact try_src_complete. Qed.
Print Assumptions c19_try_src_complete.

(* (2) generated = model: for the source as it is, the compiled bodies ARE the hand-written model all theorems above
   are about (an edit of the Rust functions changes the left-hand sides; an edit that changes behaviour breaks these) *)
Theorem c19_try_src_refines : forall a reg br ctx rs op,
  try_bit_flips_src a reg br ctx rs op = try_bit_flips a reg (br_of br) ctx rs op.
Proof. exact try_src_refines. Qed.
Print Assumptions c19_try_src_refines.

Theorem c19_heuristics_src_refines : forall new orig nc ctx, heuristics_src new orig nc ctx = heuristics new orig nc ctx.
Proof. exact heuristics_src_refines. Qed.
Print Assumptions c19_heuristics_src_refines.

(* panic site `self.details.nearby_registers += 1` (u32): whatever the compiled tests of calculate_heuristics are, the count is
   between 0 and the number of valid registers — no overflow *)
Theorem c19_heuristics_src_nearby_bound : forall new orig nc ctx,
  0 <= d_nearby (heuristics_src new orig nc ctx) <= match ctx with Some (_, regs) => Z.of_nat (length regs) | None => 0 end.
Proof. exact heuristics_src_nearby_bound. Qed.
Print Assumptions c19_heuristics_src_nearby_bound.

Theorem c19_check_src2_refines : forall c address adj op ctx iregs rs,
  check_src2 c address adj op ctx iregs rs = check_src c address adj op ctx iregs rs.
Proof. exact check_src2_refines. Qed.
Print Assumptions c19_check_src2_refines.

(* represents_general_protection_fault (match arms, first match wins) over the crash reason of the raw record *)
Theorem c19_gpf_src_refines : forall c o code flags nparams info0 a,
  g_gpf o (greason_of c o code flags nparams info0) a = is_gpf (os_class o) (reason_of c o code flags nparams info0) a.
Proof. exact gpf_src_refines. Qed.
Print Assumptions c19_gpf_src_refines.

(* MinidumpException::get_crash_address *)
Theorem c19_crash_address_src_refines : forall c o code nparams info0 info1 excaddr,
  g_crash_address c o code nparams (fun k => if k =? 0 then info0 else if k =? 1 then info1 else 0) excaddr
  = crash_address c o code nparams info1 excaddr.
Proof. exact crash_address_src_refines. Qed.
Print Assumptions c19_crash_address_src_refines.

(* try_detect_null_pointer_in_disguise, try_get_non_canonical_crash_address and the order of the two recoveries *)
Theorem c19_adjusted_src_refines : forall c o code flags nparams info0 address oa,
  adjusted_src c o (greason_of c o code flags nparams info0) address oa
  = adjusted_of c (os_class o) (reason_of c o code flags nparams info0) address oa.
Proof. exact adjusted_src_refines. Qed.
Print Assumptions c19_adjusted_src_refines.

(* op_analysis.rs: operand evaluation (MemoryAddressInfo::try_from_operand: initial value, null-flag tests, default scale /
   displacement, all arithmetic wrapping), the implicit stack access of {CALL, PUSH} / {POP, RETF, RETURN} (offset from rsp,
   null flag) and the null flag of an ip-update target, compiled from the source; the decoder stays an input (dinstr) *)
Theorem c19_analyze_dinstr_src_refines : forall di pc,
  (forall v, get_register pc RSP_ID = Some v -> 0 <= v < two64) ->
  analyze_dinstr_src di pc = analyze_dinstr di pc.
Proof. exact analyze_dinstr_src_refines. Qed.
Print Assumptions c19_analyze_dinstr_src_refines.

(* MinidumpMemoryInfo::is_readable / is_writable / is_executable: the flag sets are compiled to masks over the numeric
   MemoryProtection bits of minidump-common (protection = from_bits_truncate(raw.protection)) *)
Theorem c19_regions_of_info_src_refines : forall l, regions_of_info_src l = regions_of_info l.
Proof. exact regions_of_info_src_refines. Qed.
Print Assumptions c19_regions_of_info_src_refines.

(* MinidumpLinuxMapInfo::is_readable / is_writable / is_executable: which rwx bit each predicate asks for, compiled *)
Theorem c19_regions_of_maps_src_refines : forall l, regions_of_maps_src l = regions_of_maps l.
Proof. exact regions_of_maps_src_refines. Qed.
Print Assumptions c19_regions_of_maps_src_refines.

(* the whole path from the raw records, for an arbitrary instruction analysis: c19_the_property and every other
   theorem about dump_pipeline / dump_adj is a theorem about what the correspondence run executes *)
Theorem c19_dump_pipeline_src_refines : forall analysis arch pid e pc rs,
  dump_pipeline_src analysis arch pid e pc rs = dump_pipeline analysis arch pid e pc rs.
Proof. exact dump_pipeline_src_refines. Qed.
Print Assumptions c19_dump_pipeline_src_refines.

Theorem c19_dump_adj_src_refines : forall analysis arch pid e pc,
  dump_adj_src analysis arch pid e pc = dump_adj analysis arch pid e pc.
Proof. exact dump_adj_src_refines. Qed.
Print Assumptions c19_dump_adj_src_refines.

(* THE PROPERTY (c19_the_property above, clause by clause) for the flips computed by the COMPILED path — the function the
   correspondence run executes and compares with process_minidump *)
Theorem c19_the_property_src : forall analysis arch platform_id e pc l,
  u64_recs l ->
  0 <= er_address e < two64 -> 0 <= er_info1 e < two64 ->
  (forall x id v, pc = Some x -> get_register x id = Some v -> 0 <= v < two64) ->
  (forall x oa ai, analysis x = Some oa -> (exists a, oa_addresses oa = Some a /\ In ai a) -> 0 <= ai_addr ai < two64) ->
  let c := dump_cpu arch in
  let os := os_class (dump_os platform_id) in
  let r := dump_reason arch platform_id e in
  let address := dump_address arch platform_id e in
  let flips := dump_pipeline_src analysis arch platform_id e pc (regions_of_info_src l) in
  (forall f, In f flips ->
     exists a j, examined_by analysis c os r address pc f a /\
                 inaccessible (regions_of_info l) (memop_of_reason r) a /\
                 br_lo (pipeline_br analysis c os r address pc) <= j < br_hi (pipeline_br analysis c os r address pc) /\
                 f_addr f = Z.lxor a (2 ^ j) /\ 0 <= f_addr f < two64 /\
                 (f_addr f = 0 \/
                  exists base size prot, In (base, size, prot) l /\ size <> 0 /\ base + size < two64 /\
                                         base <= f_addr f < base + size /\ info_allows (memop_of_reason r) prot = true) /\
                 le_b32 (f32 0) (confidence (f_det f)) = true /\ le_b32 (confidence (f_det f)) (f32 F32_ONE_bits) = true) /\
  (forall x oa, pc = Some x -> analysis x = Some oa -> has_null_flag oa -> flips = []) /\
  (~ (arch = 9 \/ arch = 32770 \/ arch = 32772) -> flips = []).
Proof. exact the_property_src. Qed.
Print Assumptions c19_the_property_src.

Theorem c19_the_property_maps_src : forall analysis arch platform_id e pc l,
  u64_recs l ->
  let c := dump_cpu arch in
  let os := os_class (dump_os platform_id) in
  let r := dump_reason arch platform_id e in
  let address := dump_address arch platform_id e in
  let flips := dump_pipeline_src analysis arch platform_id e pc (regions_of_maps_src l) in
  (forall f, In f flips ->
     exists a j, examined_by analysis c os r address pc f a /\
                 inaccessible (regions_of_maps l) (memop_of_reason r) a /\
                 br_lo (pipeline_br analysis c os r address pc) <= j < br_hi (pipeline_br analysis c os r address pc) /\
                 f_addr f = Z.lxor a (2 ^ j) /\
                 (f_addr f = 0 \/
                  exists lo hi p, In (lo, hi, p) l /\ lo <= f_addr f <= hi /\ maps_allows (memop_of_reason r) p = true) /\
                 le_b32 (f32 0) (confidence (f_det f)) = true /\ le_b32 (confidence (f_det f)) (f32 F32_ONE_bits) = true) /\
  (forall x oa, pc = Some x -> analysis x = Some oa -> has_null_flag oa -> flips = []) /\
  (~ (arch = 9 \/ arch = 32770 \/ arch = 32772) -> flips = []).
Proof. exact the_property_maps_src. Qed.
Print Assumptions c19_the_property_maps_src.

Example c19_nonvacuous_src :
  let rs := [region_of_info 140737488351232 4096 4] in
  let pc := nv_pc (140737488351232 + 281474976710656 - 8) in
  let e := {| er_code := 11; er_flags := 128; er_nparams := 0; er_info0 := 0; er_info1 := 0; er_address := 0 |} in
  dump_adj_src (analyze_dinstr nv_di) 9 33281 e (Some pc) = GAdjNonCanonical (140737488351232 + 281474976710656) /\
  map f_addr (dump_pipeline_src (analyze_dinstr nv_di) 9 33281 e (Some pc) rs) = [140737488351232] /\
  map f_addr (try_bit_flips_src 4112 None GBrAmd64Canononical None [region_of_info 8192 8192 4] MRead) = [12304].
Proof. repeat split; vm_compute; reflexivity. Qed.
