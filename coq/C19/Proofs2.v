(* C19/Proofs2.v — the source-derived check (Gen.C19Check.g_check) refines the hand-written model;
   platform gating for every Cpu / processor_architecture; the adjusted-address computation; the
   gating of BOTH passes on "null pointer plus offset" for an arbitrary instruction analysis;
   operand evaluation (null base register). *)
From Coq Require Import Lia Sorting.Sorted.
From RM Require Import C08.Proofs C19.Model C19.Proofs C19.Pipeline.
Open Scope Z_scope.

(* ------------------------------------------------------------ g_check vs the hand-written model *)
Lemma check_src_refines c address adj op ctx iregs rs :
  check_src c address adj op ctx iregs rs =
  check_for_bitflips (cpu_class c) address (adj_class adj) op ctx iregs rs.
Proof.
  unfold check_src, g_check, g_gate, g_gates, g_select, check_for_bitflips, cpu_class, has_ctx.
  destruct c; cbn; destruct adj; cbn; destruct ctx; reflexivity.
Qed.

Lemma cpu_class_32 c : pointer_width c <> WBits64 -> cpu_class c = Cpu32.
Proof. destruct c; cbn; intros H; try reflexivity; exfalso; apply H; reflexivity. Qed.

Lemma cpu_class_live c : pointer_width c = WBits64 -> c <> GArm64 ->
  cpu_class c = CpuAmd64 \/ cpu_class c = CpuOther64.
Proof. destruct c; cbn; intros H1 H2; try discriminate; try (left; reflexivity); try (right; reflexivity). exfalso; apply H2; reflexivity. Qed.

Lemma cpu_class_dead c : cpu_class c = Cpu32 \/ cpu_class c = CpuArm64 -> pointer_width c <> WBits64 \/ c = GArm64.
Proof. destruct c; cbn; intros [H|H]; try discriminate; try (left; discriminate); right; reflexivity. Qed.

Lemma none_platform c address adj op ctx iregs rs :
  pointer_width c <> WBits64 \/ c = GArm64 ->
  check_src c address adj op ctx iregs rs = [].
Proof.
  intros H. rewrite check_src_refines. apply gating_none.
  destruct H as [H| ->]; [left; apply cpu_class_32; exact H|right; left; reflexivity].
Qed.

Lemma none_nulloffset c address off op ctx iregs rs :
  check_src c address (GAdjNullPointerWithOffset off) op ctx iregs rs = [].
Proof. rewrite check_src_refines. apply gating_none. right; right; reflexivity. Qed.

(* processor_architecture values *)
Ltac arch_cases :=
  unfold cpu_of_arch;
  repeat (match goal with |- context [?a =? ?k] => destruct (Z.eqb_spec a k) as [->|?] end;
          [cbn; split; intros ?; first [discriminate | reflexivity | lia | (exfalso; lia)] | ]);
  cbn; split; intros ?; first [discriminate | reflexivity | lia | (exfalso; lia)].

Lemma arch_width64 arch :
  pointer_width (cpu_of_arch arch) = WBits64 <->
  (arch = 9 \/ arch = 32770 \/ arch = 12 \/ arch = 32771 \/ arch = 32772).
Proof. arch_cases. Qed.

Lemma arch_arm64 arch : cpu_of_arch arch = GArm64 <-> (arch = 12 \/ arch = 32771).
Proof. arch_cases. Qed.

Lemma arch_amd64 arch : cpu_of_arch arch = GX86_64 <-> arch = 9.
Proof. arch_cases. Qed.

(* ------------------------------------------------------------ adjusted address *)
Lemma find_some_in {A} (p : A -> bool) l x : find p l = Some x -> In x l /\ p x = true.
Proof. apply find_some. Qed.

Lemma find_exists {A} (p : A -> bool) l x : In x l -> p x = true -> exists y, find p l = Some y.
Proof.
  intros Hin Hp. destruct (find p l) as [y|] eqn:E; [exists y; reflexivity|].
  exfalso. pose proof (find_none p l E x Hin) as Hn. rewrite Hp in Hn. discriminate.
Qed.

Definition has_null_flag (oa : op_analysis) : Prop :=
  exists l ai, oa_addresses oa = Some l /\ In ai l /\ ai_null ai = true.

Lemma adjusted_null c os r address oa :
  has_null_flag oa -> exists off, adjusted_of c os r address (Some oa) = GAdjNullPointerWithOffset off.
Proof.
  intros [l [ai [Hl [Hin Hn]]]]. unfold adjusted_of, detect_null. rewrite Hl.
  destruct (find_exists ai_null l ai Hin Hn) as [y Hy]. rewrite Hy. cbn. eexists; reflexivity.
Qed.

Lemma adjusted_sound c os r address oa :
  match adjusted_of c os r address oa with
  | GAdjNullPointerWithOffset off =>
      exists o l ai, oa = Some o /\ oa_addresses o = Some l /\ In ai l /\ ai_null ai = true /\ ai_addr ai = off
  | GAdjNonCanonical v =>
      c = GX86_64 /\ is_gpf os r address = true /\
      exists o l ai, oa = Some o /\ oa_addresses o = Some l /\ In ai l /\ ai_addr ai = v /\
                     in_non_canonical v = true /\ (forall ai', In ai' l -> ai_null ai' = false)
  | GAdjNone => oa = None \/ exists o, oa = Some o /\ ~ has_null_flag o
  end.
Proof.
  unfold adjusted_of. destruct oa as [o|]; [|left; reflexivity].
  unfold detect_null. destruct (oa_addresses o) as [l|] eqn:El.
  - destruct (find ai_null l) as [ai|] eqn:Ef; cbn [option_map].
    + apply find_some in Ef. destruct Ef as [Hin Hn]. exists o, l, ai. repeat split; assumption.
    + assert (Hnn : forall ai', In ai' l -> ai_null ai' = false) by (intros ai' Hi; apply (find_none _ _ Ef ai' Hi)).
      assert (Hno : ~ has_null_flag o).
      { intros [l' [ai [Hl' [Hin Hn]]]]. rewrite El in Hl'. inversion Hl'; subst l'. rewrite (Hnn ai Hin) in Hn. discriminate. }
      unfold non_canonical.
      destruct (gcpu_eqb c GX86_64) eqn:Ec; cbn [negb]; [|right; exists o; split; [reflexivity|exact Hno]].
      destruct (is_gpf os r address) eqn:Eg; cbn [negb]; [|right; exists o; split; [reflexivity|exact Hno]].
      destruct (find (fun ai => in_non_canonical (ai_addr ai)) l) as [ai|] eqn:Ef2; cbn [option_map];
        [|right; exists o; split; [reflexivity|exact Hno]].
      apply find_some in Ef2. destruct Ef2 as [Hin Hr].
      split; [destruct c; cbn in Ec; try discriminate; reflexivity|]. split; [reflexivity|].
      exists o, l, ai. repeat split; try assumption.
  - unfold non_canonical. cbv iota.
    assert (Hno : ~ has_null_flag o).
    { intros [l' [ai [Hl' _]]]. rewrite El in Hl'. discriminate. }
    destruct (negb (gcpu_eqb c GX86_64)); [right; exists o; split; [reflexivity|exact Hno]|].
    destruct (negb (is_gpf os r address)); right; exists o; (split; [reflexivity|exact Hno]).
Qed.

(* only amd64 ever gets a non-canonical adjustment *)
Lemma adjusted_nc_amd64 c os r address oa v :
  adjusted_of c os r address oa = GAdjNonCanonical v -> c = GX86_64.
Proof. intros H. pose proof (adjusted_sound c os r address oa) as S. rewrite H in S. apply S. Qed.

(* ------------------------------------------------------------ the pipeline *)
Lemma iregs_of_in pc regs id v :
  In (id, v) (iregs_of pc regs) -> In id regs /\ get_register pc id = Some v.
Proof.
  unfold iregs_of. intros H. apply in_flat_map in H. destruct H as [x [Hx Hin]].
  destruct (get_register pc x) as [w|] eqn:E; [|destruct Hin].
  destruct Hin as [Heq|[]]. inversion Heq; subst. split; assumption.
Qed.

Section PipelineProofs.
  Variable analysis : pcontext -> option op_analysis.

  (* BOTH passes are gated on "null pointer plus offset", whatever the instruction analysis returned *)
  Lemma pipeline_none_null c os r address x rs oa :
    analysis x = Some oa -> has_null_flag oa ->
    pipeline analysis c os r address (Some x) rs = [].
  Proof.
    intros Ha Hn. unfold pipeline, pipeline_adj, the_analysis. rewrite Ha.
    destruct (adjusted_null c os r address oa Hn) as [off ->]. apply none_nulloffset.
  Qed.

  Lemma pipeline_none_platform c os r address pc rs :
    pointer_width c <> WBits64 \/ c = GArm64 ->
    pipeline analysis c os r address pc rs = [].
  Proof. intros H. unfold pipeline. apply none_platform. exact H. Qed.

  (* without an exception context there is no analysis, no adjustment and no register pass *)
  Lemma pipeline_no_context c os r address rs :
    pipeline analysis c os r address None rs =
    check_src c address GAdjNone (memop_of_reason r) None [] rs.
  Proof. reflexivity. Qed.

  Definition examined_by (c : gcpu) (os : gos) (r : reason) (address : Z) (pc : option pcontext) (f : flip) (a : Z) : Prop :=
    (f_reg f = None /\
     a = match pipeline_adj analysis c os r address pc with GAdjNonCanonical v => v | _ => address end) \/
    (exists id x oa, f_reg f = Some id /\ pc = Some x /\ analysis x = Some oa /\ In id (oa_regs oa) /\
                     get_register x id = Some a).

  Definition pipeline_br (c : gcpu) (os : gos) (r : reason) (address : Z) (pc : option pcontext) : bitrange :=
    expected_br (cpu_class c) (adj_class (pipeline_adj analysis c os r address pc)).

  Lemma pipeline_examined c os r address pc rs f :
    In f (pipeline analysis c os r address pc rs) ->
    pointer_width c = WBits64 /\ c <> GArm64 /\
    (forall off, pipeline_adj analysis c os r address pc <> GAdjNullPointerWithOffset off) /\
    exists a, examined_by c os r address pc f a /\
              flip_ok a (f_reg f) rs (memop_of_reason r)
                      (br_lo (pipeline_br c os r address pc)) (br_hi (pipeline_br c os r address pc)) f.
  Proof.
    unfold pipeline. rewrite check_src_refines. intros Hin.
    apply check_ok in Hin. destruct Hin as [a [[Hc [Hadj Hex]] Hok]].
    assert (Hlive : pointer_width c = WBits64 /\ c <> GArm64).
    { destruct c; cbn in Hc; destruct Hc as [Hc|Hc]; try discriminate; split; try reflexivity; discriminate. }
    destruct Hlive as [Hw Hna]. split; [exact Hw|]. split; [exact Hna|]. split.
    { intros off Heq. apply Hadj. rewrite Heq. reflexivity. }
    exists a. split; [|exact Hok].
    destruct Hex as [[Hr Ha]|[rid [Hr [Hin Hctx]]]].
    - left. split; [exact Hr|]. rewrite Ha. destruct (pipeline_adj analysis c os r address pc); reflexivity.
    - right. unfold pipeline_iregs, the_analysis in Hin. destruct pc as [x|]; [|destruct Hin].
      destruct (analysis x) as [oa|] eqn:Ea; [|destruct Hin].
      apply iregs_of_in in Hin. destruct Hin as [Hi Hg].
      exists rid, x, oa. repeat split; assumption.
  Qed.

  (* the bit range of every reported flip: 48..64 exactly when a non-canonical address was recovered
     (amd64 only), 0..48 on amd64 otherwise, 0..64 on the other 64-bit CPUs *)
  Lemma pipeline_br_cases c os r address pc :
    pointer_width c = WBits64 -> c <> GArm64 ->
    (exists v, pipeline_adj analysis c os r address pc = GAdjNonCanonical v /\ c = GX86_64 /\
               pipeline_br c os r address pc = Amd64NonCanonical) \/
    ((forall v, pipeline_adj analysis c os r address pc <> GAdjNonCanonical v) /\
     pipeline_br c os r address pc = if gcpu_eqb c GX86_64 then Amd64Canonical else AllBits).
  Proof.
    intros Hw Hna. unfold pipeline_br.
    destruct (pipeline_adj analysis c os r address pc) as [|v|off] eqn:E.
    - right. split; [discriminate|]. destruct c; cbn in *; try discriminate; try reflexivity; exfalso; apply Hna; reflexivity.
    - left. exists v. split; [reflexivity|]. split; [|reflexivity].
      unfold pipeline_adj in E. eapply adjusted_nc_amd64. exact E.
    - right. split; [discriminate|]. destruct c; cbn in *; try discriminate; try reflexivity; exfalso; apply Hna; reflexivity.
  Qed.

  (* nothing when the crash address and every examined instruction register are accessible *)
  Lemma pipeline_none_accessible c os r address pc rs mi :
    pipeline_adj analysis c os r address pc = GAdjNone ->
    lookup_region rs address = Some mi -> possibly_allowed (memop_of_reason r) mi = true ->
    (forall id v, In (id, v) (pipeline_iregs analysis pc) ->
                  exists m, lookup_region rs v = Some m /\ possibly_allowed (memop_of_reason r) m = true) ->
    pipeline analysis c os r address pc rs = [].
  Proof.
    intros Hadj Hl Ha Hregs. unfold pipeline. rewrite Hadj, check_src_refines. cbn [adj_class].
    eapply gating_accessible; eassumption.
  Qed.
End PipelineProofs.

(* ------------------------------------------------------------ operand evaluation *)
Lemma wrap64_range x : 0 <= wrap64 x < two64.
Proof. unfold wrap64. apply Z.mod_pos_bound. rewrite two64_val. lia. Qed.

Lemma operand_address_spec pc m ai :
  operand_address pc m = Some ai ->
  0 <= ai_addr ai < two64 /\
  (ai_null ai = true <-> exists b, mo_base m = Some b /\ get_register pc b = Some 0).
Proof.
  unfold operand_address. intros H.
  destruct (mo_base m) as [b|] eqn:Eb.
  - destruct (get_register pc b) as [v|] eqn:Eg; cbn [option_map] in H; [|discriminate].
    destruct (mo_index m) as [i|]; [destruct (get_register pc i) as [w|]; cbn [option_map] in H; [|discriminate]|];
      inversion H; subst ai; cbn [ai_addr ai_null]; (split; [apply wrap64_range|]);
      (split; [intros Hz; exists b; split; [reflexivity|]; apply Z.eqb_eq in Hz; subst v; exact Eg
              |intros [b' [Hb' Hg']]; inversion Hb'; subst b'; rewrite Hg' in Eg; inversion Eg; reflexivity]).
  - destruct (mo_index m) as [i|]; [destruct (get_register pc i) as [w|]; cbn [option_map] in H; [|discriminate]|];
      inversion H; subst ai; cbn [ai_addr ai_null]; (split; [apply wrap64_range|]);
      (split; [discriminate|intros [b' [Hb' _]]; discriminate]).
Qed.

Lemma sequence_in {A} (l : list (option A)) l' x :
  sequence l = Some l' -> In (Some x) l -> In x l'.
Proof.
  revert l'. induction l as [|o t IH]; intros l' Hs Hin; [destruct Hin|].
  destruct o as [y|]; cbn [sequence] in Hs; [|discriminate].
  destruct (sequence t) as [t'|]; cbn [option_map] in Hs; [|discriminate]. inversion Hs; subst l'.
  destruct Hin as [Heq|Hin]; [inversion Heq; left; reflexivity|right; apply IH; [reflexivity|exact Hin]].
Qed.

Lemma sequence_some {A} (l : list (option A)) :
  (forall o, In o l -> o <> None) -> exists l', sequence l = Some l'.
Proof.
  induction l as [|o t IH]; intros H; [exists []; reflexivity|].
  destruct o as [y|]; [|exfalso; apply (H None); [left; reflexivity|reflexivity]].
  destruct IH as [t' Ht]; [intros o Ho; apply H; right; exact Ho|].
  exists (y :: t'). cbn [sequence]. rewrite Ht. reflexivity.
Qed.

(* a non-LEA instruction with a memory operand whose BASE register reads 0: recognised as null pointer
   plus offset, so neither the address pass nor the register pass reports anything *)
Lemma oa_addresses_in oa l ai : oa_accesses oa = Some l -> In ai l ->
  exists l', oa_addresses oa = Some l' /\ In ai l'.
Proof.
  intros Hl Hin. unfold oa_addresses. rewrite Hl. eexists. split; [reflexivity|].
  destruct (oa_ip oa) as [[u|]|]; try exact Hin. apply in_or_app. left. exact Hin.
Qed.

Lemma null_base_no_flips di pc c os r address rs m b :
  di_lea di = false -> di_memsize di = true ->
  (forall m', In m' (di_ops di) -> operand_address pc m' <> None) ->
  In m (di_ops di) -> mo_base m = Some b -> get_register pc b = Some 0 ->
  pipeline (analyze_dinstr di) c os r address (Some pc) rs = [].
Proof.
  intros Hlea Hms Hall Hin Hb Hg.
  destruct (operand_address pc m) as [ai|] eqn:Eo; [|exfalso; apply (Hall m Hin); exact Eo].
  destruct (sequence_some (map (operand_address pc) (di_ops di))) as [l Hl].
  { intros o Ho. apply in_map_iff in Ho. destruct Ho as [m' [<- Hm']]. apply Hall. exact Hm'. }
  eapply pipeline_none_null; [reflexivity|].
  assert (Hai : In ai l) by (eapply sequence_in; [exact Hl|]; rewrite <- Eo; apply in_map; exact Hin).
  destruct (oa_addresses_in
              {| oa_accesses := Some (l ++ implicit_access (di_implicit di) pc); oa_ip := ip_of (di_ip di) pc;
                 oa_regs := instr_regs (di_ops di) |} _ ai eq_refl (in_or_app _ _ _ (or_introl Hai))) as [l' [Hl' Hin']].
  exists l', ai. split.
  - unfold analyze_dinstr, explicit_accesses. rewrite Hlea, Hms, Hl. cbn [negb option_map]. exact Hl'.
  - split; [exact Hin'|]. apply (operand_address_spec pc m ai Eo). exists b. split; assumption.
Qed.

(* a call / jmp through a register that reads 0 (memory accesses determined): the target is flagged, the
   access is recognised as a null pointer (offset 0) and nothing is reported *)
Lemma null_target_no_flips di pc c os r address rs id :
  di_ip di = IpkReg id -> get_register pc id = Some 0 ->
  (di_memsize di = true -> explicit_accesses di pc <> None) ->
  pipeline (analyze_dinstr di) c os r address (Some pc) rs = [].
Proof.
  intros Hip Hg Hex. eapply pipeline_none_null; [reflexivity|].
  unfold has_null_flag, oa_addresses, analyze_dinstr. cbn [oa_accesses oa_ip]. rewrite Hip. cbn [ip_of]. rewrite Hg. cbn [option_map].
  destruct (di_memsize di); cbn [negb].
  - destruct (explicit_accesses di pc) as [l|]; [|exfalso; apply Hex; reflexivity]. cbn [option_map].
    eexists; exists (plain_info 0). split; [reflexivity|]. split; [apply in_or_app; right; left; reflexivity|reflexivity].
  - eexists; exists (plain_info 0). split; [reflexivity|]. split; [left; reflexivity|reflexivity].
Qed.

(* every register examined by the register pass is the base or index register of a memory operand *)
Lemma insert_reg_in id x l : In x (insert_reg id l) -> x = id \/ In x l.
Proof.
  induction l as [|h t IH]; cbn [insert_reg]; intros H.
  - destruct H as [H|[]]; left; symmetry; exact H.
  - destruct (name_rank id <? name_rank h).
    + destruct H as [H|H]; [left; symmetry; exact H|right; exact H].
    + destruct (name_rank id =? name_rank h); [right; exact H|].
      destruct H as [H|H]; [right; left; exact H|]. apply IH in H. destruct H as [H|H]; [left; exact H|right; right; exact H].
Qed.

Lemma fold_insert_in ids : forall acc x,
  In x (fold_left (fun acc id => insert_reg id acc) ids acc) -> In x ids \/ In x acc.
Proof.
  induction ids as [|i t IH]; intros acc x H; cbn [fold_left] in H; [right; exact H|].
  apply IH in H. destruct H as [H|H]; [left; right; exact H|].
  apply insert_reg_in in H. destruct H as [->|H]; [left; left; reflexivity|right; exact H].
Qed.

Lemma instr_regs_sound ops id :
  In id (instr_regs ops) -> exists m, In m ops /\ (mo_base m = Some id \/ mo_index m = Some id).
Proof.
  unfold instr_regs. intros H. apply fold_insert_in in H. destruct H as [H|[]].
  apply in_flat_map in H. destruct H as [m [Hm Hin]]. exists m. split; [exact Hm|].
  unfold operand_regs in Hin. apply in_app_or in Hin.
  destruct Hin as [Hin|Hin]; [destruct (mo_base m) as [b|]|destruct (mo_index m) as [i|]]; try destruct Hin as [Hin|[]]; try destruct Hin;
    subst; [left|right]; reflexivity.
Qed.

(* ------------------------------------------------------------ pins of generated tables *)
Lemma memop_tables rg :
  g_allowed_undetermined = true /\
  possibly_allowed (mk_memop 0) rg = g_allowed_undetermined /\
  (forall o, 1 <= o <= 3 ->
     possibly_allowed (mk_memop o) rg = nth (Z.to_nat (g_allowed_perm o)) [rg_r rg; rg_w rg; rg_x rg] false) /\
  mk_memop (g_memop_of_access 0) = MRead /\ mk_memop (g_memop_of_access 1) = MWrite /\
  mk_memop (g_memop_of_access 8) = MExec /\
  (forall k, k <> 0 -> k <> 1 -> k <> 8 -> mk_memop (g_memop_of_access k) = Undetermined).
Proof.
  split; [reflexivity|]. split; [reflexivity|]. split.
  { intros o Ho. assert (H : o = 1 \/ o = 2 \/ o = 3) by lia. destruct H as [->|[->| ->]]; reflexivity. }
  repeat split. intros k H0 H1 H8. unfold g_memop_of_access.
  destruct (Z.eqb_spec k 0); [contradiction|]. destruct (Z.eqb_spec k 1); [contradiction|].
  destruct (Z.eqb_spec k 8); [contradiction|]. reflexivity.
Qed.

Lemma non_canonical_range :
  NON_CANONICAL_LO = 2 ^ 47 /\ NON_CANONICAL_HI = two64 - 2 ^ 47 - 1.
Proof. split; vm_compute; reflexivity. Qed.

Lemma none_platform_arch analysis arch os r address pc rs :
  ~ (arch = 9 \/ arch = 32770 \/ arch = 32772) ->
  pipeline analysis (cpu_of_arch arch) os r address pc rs = [].
Proof.
  intros H. apply pipeline_none_platform.
  destruct (Z.eq_dec arch 12) as [->|H12]; [right; reflexivity|].
  destruct (Z.eq_dec arch 32771) as [->|H3]; [right; reflexivity|].
  left. intros Hw. apply arch_width64 in Hw. lia.
Qed.

(* ------------------------------------------------------------ the property in plain arithmetic on the stream records *)
Definition u64_recs (l : list (Z * Z * Z)) : Prop :=
  Forall (fun e => 0 <= fst (fst e) < two64 /\ 0 <= snd (fst e) < two64) l.

Lemma wf_regions_info l : u64_recs l -> wf_regions (regions_of_info l).
Proof.
  unfold u64_recs, wf_regions, regions_of_info. induction 1 as [|[[a b] p] t [Ha Hb] _ IH]; cbn [map]; constructor; [|exact IH].
  cbn [fst snd] in Ha, Hb. unfold region_of_info. cbn [rg_range].
  destruct (mk_range a b) as [r|] eqn:E; [|exact I]. eapply mk_range_wf; [| |exact E]; lia.
Qed.

Lemma wf_regions_maps l : u64_recs l -> wf_regions (regions_of_maps l).
Proof.
  unfold u64_recs, wf_regions, regions_of_maps. induction 1 as [|[[a b] p] t [Ha Hb] _ IH]; cbn [map]; constructor; [|exact IH].
  cbn [fst snd] in Ha, Hb. unfold region_of_map. cbn [rg_range].
  destruct (mk_range_maps a b) as [r|] eqn:E; [|exact I]. eapply mk_range_maps_wf; [| |exact E]; lia.
Qed.

(* the permission an operation asks of a MINIDUMP_MEMORY_INFO protection word / of a maps line *)
Definition info_allows (op : memop) (prot : Z) : bool :=
  match op with Undetermined => true | MRead => prot_r prot | MWrite => prot_w prot | MExec => prot_x prot end.
Definition maps_allows (op : memop) (p : Z) : bool :=
  match op with Undetermined => true | MRead => Z.testbit p 2 | MWrite => Z.testbit p 1 | MExec => Z.testbit p 0 end.

Lemma flip_in_info_record l op x mi :
  In mi (regions_of_info l) -> (exists r, rg_range mi = Some r /\ contains r x = true) -> possibly_allowed op mi = true ->
  exists base size prot, In (base, size, prot) l /\ size <> 0 /\ base + size < two64 /\
                         base <= x < base + size /\ info_allows op prot = true.
Proof.
  unfold regions_of_info. intros Hin [r [Hr Hc]] Hp. apply in_map_iff in Hin. destruct Hin as [[[a b] p] [<- Hin]].
  exists a, b, p. split; [exact Hin|]. unfold region_of_info in *. cbn [rg_range] in Hr.
  unfold mk_range, checked_add in Hr. destruct (b =? 0) eqn:E0; [discriminate|].
  destruct (a + b <? 2 ^ 64) eqn:E1; [|discriminate]. inversion Hr; subst r.
  unfold contains in Hc. cbn [fst snd] in Hc. apply andb_prop in Hc. destruct Hc as [C1 C2].
  rewrite two64_val. repeat split; try lia.
  destruct op; cbn in Hp |- *; exact Hp.
Qed.

Lemma flip_in_maps_record l op x mi :
  In mi (regions_of_maps l) -> (exists r, rg_range mi = Some r /\ contains r x = true) -> possibly_allowed op mi = true ->
  exists lo hi p, In (lo, hi, p) l /\ lo <= x <= hi /\ maps_allows op p = true.
Proof.
  unfold regions_of_maps. intros Hin [r [Hr Hc]] Hp. apply in_map_iff in Hin. destruct Hin as [[[a b] p] [<- Hin]].
  exists a, b, p. split; [exact Hin|]. unfold region_of_map in *. cbn [rg_range] in Hr.
  unfold mk_range_maps in Hr. destruct (a >? b) eqn:E0; [discriminate|]. inversion Hr; subst r.
  unfold contains in Hc. cbn [fst snd] in Hc. apply andb_prop in Hc. destruct Hc as [C1 C2].
  split; [lia|]. destruct op; cbn in Hp |- *; exact Hp.
Qed.

Lemma flip_ok_mapped rs op a reg lo hi f :
  wf_regions rs -> flip_ok a reg rs op lo hi f ->
  f_addr f = 0 \/ exists mi, In mi rs /\ (exists r, rg_range mi = Some r /\ contains r (f_addr f) = true) /\ possibly_allowed op mi = true.
Proof.
  intros Hwf [_ [[H0|[mi [Hl Ha]]] _]]; [left; exact H0|right].
  destruct (lookup_region_sound rs _ mi Hwf Hl) as [Hin Hr]. exists mi. repeat split; assumption.
Qed.

Section EndToEnd.
  Variable analysis : pcontext -> option op_analysis.

  (* the whole property for one flip, on the records of a MemoryInfoList stream *)
  Lemma pipeline_flip_info c os r address pc l f :
    u64_recs l -> 0 <= address < two64 ->
    (forall x id v, pc = Some x -> get_register x id = Some v -> 0 <= v < two64) ->
    (forall x oa ai, analysis x = Some oa -> (exists a, oa_addresses oa = Some a /\ In ai a) -> 0 <= ai_addr ai < two64) ->
    In f (pipeline analysis c os r address pc (regions_of_info l)) ->
    exists a j, examined_by analysis c os r address pc f a /\
                br_lo (pipeline_br analysis c os r address pc) <= j < br_hi (pipeline_br analysis c os r address pc) /\
                f_addr f = Z.lxor a (2 ^ j) /\ 0 <= f_addr f < two64 /\
                (f_addr f = 0 \/
                 exists base size prot, In (base, size, prot) l /\ size <> 0 /\ base + size < two64 /\
                                        base <= f_addr f < base + size /\ info_allows (memop_of_reason r) prot = true).
  Proof.
    intros Hl Haddr Hregs Hacc Hin. pose proof (pipeline_examined analysis c os r address pc _ f Hin) as [Hw [Hna [Hnn [a [Hex Hok]]]]].
    pose proof Hok as [[j [Hj Hf]] _]. exists a, j. split; [exact Hex|]. split; [exact Hj|]. split; [exact Hf|].
    assert (Ha : 0 <= a < two64).
    { destruct Hex as [[_ Ha]|[id [x [oa [_ [Hpc [_ [_ Hg]]]]]]]]; [|eapply Hregs; eassumption].
      subst a. destruct (pipeline_adj analysis c os r address pc) as [|v|off] eqn:E; try exact Haddr.
      unfold pipeline_adj in E. pose proof (adjusted_sound c os r address (the_analysis analysis pc)) as S. rewrite E in S.
      destruct S as [_ [_ [o [la [ai [Ho [Hla [Hi [Hv _]]]]]]]]]. subst v.
      unfold the_analysis in Ho. destruct pc as [x|]; [|discriminate]. eapply Hacc; [exact Ho|]. exists la. split; assumption. }
    split.
    { rewrite Hf. apply lxor_pow2_u64; [exact Ha|]. pose proof (br_bounds_in_64 (pipeline_br analysis c os r address pc)). lia. }
    destruct (flip_ok_mapped _ _ _ _ _ _ _ (wf_regions_info l Hl) Hok) as [H0|[mi [Hmi [Hr Hp]]]]; [left; exact H0|right].
    eapply flip_in_info_record; eassumption.
  Qed.

  Lemma pipeline_flip_maps c os r address pc l f :
    u64_recs l ->
    In f (pipeline analysis c os r address pc (regions_of_maps l)) ->
    exists a j, examined_by analysis c os r address pc f a /\
                br_lo (pipeline_br analysis c os r address pc) <= j < br_hi (pipeline_br analysis c os r address pc) /\
                f_addr f = Z.lxor a (2 ^ j) /\
                (f_addr f = 0 \/
                 exists lo hi p, In (lo, hi, p) l /\ lo <= f_addr f <= hi /\ maps_allows (memop_of_reason r) p = true).
  Proof.
    intros Hl Hin. pose proof (pipeline_examined analysis c os r address pc _ f Hin) as [Hw [Hna [Hnn [a [Hex Hok]]]]].
    pose proof Hok as [[j [Hj Hf]] _]. exists a, j. split; [exact Hex|]. split; [exact Hj|]. split; [exact Hf|].
    destruct (flip_ok_mapped _ _ _ _ _ _ _ (wf_regions_maps l Hl) Hok) as [H0|[mi [Hmi [Hr Hp]]]]; [left; exact H0|right].
    eapply flip_in_maps_record; eassumption.
  Qed.
End EndToEnd.

(* ------------------------------------------------------------ the heuristics flags of a reported flip *)
Lemma flips_loop_shape n : forall i a reg br ctx rs op f,
  In f (flips_loop n i a reg br ctx rs op) -> exists pa, f = mk_flip a pa reg br ctx.
Proof.
  induction n as [|n IH]; intros i a reg br ctx rs op f Hin; cbn [flips_loop] in Hin; [destruct Hin|].
  apply in_app_or in Hin. destruct Hin as [Hin|Hin].
  - destruct (Z.lxor a (2 ^ i) =? 0); [|destruct Hin]. destruct Hin as [<-|[]]. eexists; reflexivity.
  - apply in_app_or in Hin. destruct Hin as [Hin|Hin]; [|eapply IH; exact Hin].
    destruct (lookup_region rs (Z.lxor a (2 ^ i))) as [mi|]; [|destruct Hin].
    destruct (possibly_allowed op mi); [|destruct Hin]. destruct Hin as [<-|[]]. eexists; reflexivity.
Qed.

Lemma filter_length_le {A} (p : A -> bool) l : (length (filter p l) <= length l)%nat.
Proof. induction l as [|x t IH]; cbn; [lia|]. destruct (p x); cbn; lia. Qed.

Definition ctx_count (ctx : option context) : Z :=
  match ctx with Some (_, regs) => Z.of_nat (length regs) | None => 0 end.

Lemma details_consistent a reg br ctx rs op f :
  In f (try_bit_flips a reg br ctx rs op) ->
  d_null (f_det f) = (f_addr f =? 0) /\
  (d_low (f_det f) = true -> f_addr f = 0 /\ a <= LOW_ADDRESS_CUTOFF) /\
  d_nc (f_det f) = (match br with Amd64NonCanonical => true | _ => false end) /\
  0 <= d_nearby (f_det f) <= ctx_count ctx /\
  (0 < d_nearby (f_det f) -> LOW_ADDRESS_CUTOFF < f_addr f) /\
  (ctx = None -> d_nearby (f_det f) = 0 /\ d_poison (f_det f) = false).
Proof.
  unfold try_bit_flips.
  destruct (match lookup_region rs a with Some mi => possibly_allowed op mi | None => false end); [intros []|].
  destruct (br_bounds br) as [lo hi]. intros Hin. apply flips_loop_shape in Hin. destruct Hin as [pa ->].
  unfold mk_flip, heuristics. cbn [f_addr f_det].
  destruct ctx as [[sz regs]|]; cbn [d_null d_low d_nc d_nearby d_poison ctx_count].
  - split; [reflexivity|]. split.
    { intros H. apply andb_prop in H. destruct H as [H1 H2]. split; lia. }
    split; [reflexivity|]. split.
    { destruct (pa >? LOW_ADDRESS_CUTOFF); [|lia].
      pose proof (filter_length_le (fun a0 => abs_diff pa a0 <=? NEARBY_REGISTER_DISTANCE) regs). lia. }
    split; [|discriminate]. destruct (pa >? LOW_ADDRESS_CUTOFF) eqn:E; lia.
  - split; [reflexivity|]. split.
    { intros H. apply andb_prop in H. destruct H as [H1 H2]. split; lia. }
    split; [reflexivity|]. split; [lia|]. split; [lia|]. intros _. split; reflexivity.
Qed.

(* ------------------------------------------------------------ "accessible => none" on the records themselves *)
Lemma enumerate_app {A} (l1 l2 : list A) i :
  enumerate_from i (l1 ++ l2) = enumerate_from i l1 ++ enumerate_from (i + Z.of_nat (length l1)) l2.
Proof.
  revert i. induction l1 as [|x t IH]; intros i; cbn [app enumerate_from length].
  - replace (i + Z.of_nat 0) with i by lia. reflexivity.
  - rewrite IH. replace (i + 1 + Z.of_nat (length t)) with (i + Z.of_nat (S (length t))) by lia. reflexivity.
Qed.

Lemma enumerate_in_list {A} (l : list A) i a k : In (a, k) (enumerate_from i l) -> In a l.
Proof. intros H. apply enumerate_in in H. destruct H as [_ H]. eapply nth_error_In. exact H. Qed.

(* the examined value lies in a region that intersects no other region and permits the operation: the lookup
   finds exactly that region (C08 completeness) and nothing is reported *)
Lemma lookup_isolated rs1 mi rs2 r a :
  wf_regions (rs1 ++ mi :: rs2) -> rg_range mi = Some r -> contains r a = true ->
  (forall mi' r', In mi' (rs1 ++ rs2) -> rg_range mi' = Some r' -> intersects r r' = false) ->
  lookup_region (rs1 ++ mi :: rs2) a = Some mi.
Proof.
  intros Hwf Hr Hc Hiso. unfold lookup_region, region_table.
  rewrite map_app. cbn [map]. rewrite enumerate_app. cbn [enumerate_from]. rewrite Hr.
  rewrite (isolated_complete Z.eqb Z.eqb_eq _ r (0 + Z.of_nat (length (map rg_range rs1))) _ a).
  - rewrite map_length. replace (Z.to_nat (0 + Z.of_nat (length rs1))) with (length rs1) by lia.
    rewrite nth_error_app2 by lia. rewrite Nat.sub_diag. reflexivity.
  - pose proof (enumerate_wf (rs1 ++ mi :: rs2) 0 Hwf) as H.
    rewrite map_app in H. cbn [map] in H. rewrite enumerate_app in H. cbn [enumerate_from] in H. rewrite Hr in H. exact H.
  - intros r' v' Hin. apply in_app_or in Hin.
    assert (Hm : In (Some r') (map rg_range (rs1 ++ rs2))).
    { rewrite map_app. apply in_or_app. destruct Hin as [Hin|Hin]; [left|right]; eapply enumerate_in_list; exact Hin. }
    apply in_map_iff in Hm. destruct Hm as [mi' [Hr' Hmi']]. eapply Hiso; eassumption.
  - exact Hc.
Qed.

Lemma none_when_accessible_isolated rs1 mi rs2 r a reg br ctx op :
  wf_regions (rs1 ++ mi :: rs2) -> rg_range mi = Some r -> contains r a = true ->
  (forall mi' r', In mi' (rs1 ++ rs2) -> rg_range mi' = Some r' -> intersects r r' = false) ->
  possibly_allowed op mi = true ->
  try_bit_flips a reg br ctx (rs1 ++ mi :: rs2) op = [].
Proof.
  intros Hwf Hr Hc Hiso Hp. eapply none_when_accessible; [|exact Hp]. eapply lookup_isolated; eassumption.
Qed.

(* ------------------------------------------------------------ completeness: try_bit_flips reports EVERY qualifying neighbour *)
Lemma flips_loop_complete n : forall i a reg br ctx rs op j,
  i <= j < i + Z.of_nat n ->
  (Z.lxor a (2 ^ j) = 0 \/
   exists mi, lookup_region rs (Z.lxor a (2 ^ j)) = Some mi /\ possibly_allowed op mi = true) ->
  In (mk_flip a (Z.lxor a (2 ^ j)) reg br ctx) (flips_loop n i a reg br ctx rs op).
Proof.
  induction n as [|n IH]; intros i a reg br ctx rs op j Hj Hq; [lia|].
  cbn [flips_loop]. destruct (Z.eq_dec j i) as [->|Hne].
  - destruct Hq as [H0|[mi [Hl Hp]]].
    + apply in_or_app. left. rewrite H0. cbn. left. reflexivity.
    + apply in_or_app. right. apply in_or_app. left. rewrite Hl, Hp. left. reflexivity.
  - apply in_or_app. right. apply in_or_app. right. apply IH; [lia|exact Hq].
Qed.

Lemma try_bit_flips_complete a reg br ctx rs op j :
  (forall mi, lookup_region rs a = Some mi -> possibly_allowed op mi = false) ->
  br_lo br <= j < br_hi br ->
  (Z.lxor a (2 ^ j) = 0 \/
   exists mi, lookup_region rs (Z.lxor a (2 ^ j)) = Some mi /\ possibly_allowed op mi = true) ->
  exists f, In f (try_bit_flips a reg br ctx rs op) /\ f_addr f = Z.lxor a (2 ^ j) /\ f_reg f = reg.
Proof.
  intros Hna Hj Hq. unfold try_bit_flips, br_lo, br_hi in *.
  destruct (lookup_region rs a) as [mi|] eqn:El.
  - rewrite (Hna mi eq_refl). destruct (br_bounds br) as [lo hi] eqn:Eb. cbn [fst snd] in Hj.
    eexists. split; [apply (flips_loop_complete _ lo a reg br ctx rs op j); [lia|exact Hq]|]. split; reflexivity.
  - destruct (br_bounds br) as [lo hi] eqn:Eb. cbn [fst snd] in Hj.
    eexists. split; [apply (flips_loop_complete _ lo a reg br ctx rs op j); [lia|exact Hq]|]. split; reflexivity.
Qed.

(* ------------------------------------------------------------ get_registers: a set ordered by register name *)
Definition rank_lt (a b : Z) : Prop := name_rank a < name_rank b.

Lemma insert_reg_forall id l (P : Z -> Prop) : P id -> Forall P l -> Forall P (insert_reg id l).
Proof.
  induction l as [|h t IH]; cbn [insert_reg]; intros Hp Hf; [constructor; [exact Hp|constructor]|].
  inversion Hf; subst. destruct (name_rank id <? name_rank h); [constructor; assumption|].
  destruct (name_rank id =? name_rank h); [exact Hf|]. constructor; [assumption|apply IH; assumption].
Qed.

Lemma insert_reg_sorted id l : StronglySorted rank_lt l -> StronglySorted rank_lt (insert_reg id l).
Proof.
  induction l as [|h t IH]; cbn [insert_reg]; intros Hs; [constructor; constructor|].
  inversion Hs as [|? ? Hst Hf]; subst.
  destruct (name_rank id <? name_rank h) eqn:E1.
  - constructor; [exact Hs|]. constructor; [unfold rank_lt; lia|].
    eapply Forall_impl; [|exact Hf]. unfold rank_lt. intros x Hx. lia.
  - destruct (name_rank id =? name_rank h) eqn:E2; [exact Hs|].
    constructor; [apply IH; exact Hst|]. apply insert_reg_forall; [unfold rank_lt; lia|exact Hf].
Qed.

Lemma insert_reg_keeps id l x : In x l -> In x (insert_reg id l).
Proof.
  induction l as [|h t IH]; cbn [insert_reg]; intros H; [destruct H|].
  destruct (name_rank id <? name_rank h); [right; exact H|].
  destruct (name_rank id =? name_rank h); [exact H|].
  destruct H as [H|H]; [left; exact H|right; apply IH; exact H].
Qed.

Lemma insert_reg_has id l : exists id', In id' (insert_reg id l) /\ name_rank id' = name_rank id.
Proof.
  induction l as [|h t [id' [Hin Hr]]]; cbn [insert_reg]; [exists id; split; [left; reflexivity|reflexivity]|].
  destruct (name_rank id <? name_rank h); [exists id; split; [left; reflexivity|reflexivity]|].
  destruct (name_rank id =? name_rank h) eqn:E; [exists h; split; [left; reflexivity|lia]|].
  exists id'. split; [right; exact Hin|exact Hr].
Qed.

Lemma fold_insert_sorted ids : forall acc, StronglySorted rank_lt acc ->
  StronglySorted rank_lt (fold_left (fun acc id => insert_reg id acc) ids acc).
Proof. induction ids as [|i t IH]; intros acc H; cbn [fold_left]; [exact H|]. apply IH. apply insert_reg_sorted. exact H. Qed.

Lemma fold_insert_keeps ids : forall acc x, In x acc -> In x (fold_left (fun acc id => insert_reg id acc) ids acc).
Proof. induction ids as [|i t IH]; intros acc x H; cbn [fold_left]; [exact H|]. apply IH. apply insert_reg_keeps. exact H. Qed.

Lemma fold_insert_has ids : forall acc id, In id ids ->
  exists id', In id' (fold_left (fun acc id => insert_reg id acc) ids acc) /\ name_rank id' = name_rank id.
Proof.
  induction ids as [|i t IH]; intros acc id H; [destruct H|]. cbn [fold_left]. destruct H as [->|H].
  - destruct (insert_reg_has id acc) as [id' [Hin Hr]]. exists id'. split; [apply fold_insert_keeps; exact Hin|exact Hr].
  - apply IH. exact H.
Qed.

Lemma name_rank_inj a b : 0 <= a <= 16 -> 0 <= b <= 16 -> name_rank a = name_rank b -> a = b.
Proof.
  intros Ha Hb.
  assert (Ha' : a = 0 \/ a = 1 \/ a = 2 \/ a = 3 \/ a = 4 \/ a = 5 \/ a = 6 \/ a = 7 \/ a = 8 \/ a = 9 \/ a = 10 \/
                a = 11 \/ a = 12 \/ a = 13 \/ a = 14 \/ a = 15 \/ a = 16) by lia.
  assert (Hb' : b = 0 \/ b = 1 \/ b = 2 \/ b = 3 \/ b = 4 \/ b = 5 \/ b = 6 \/ b = 7 \/ b = 8 \/ b = 9 \/ b = 10 \/
                b = 11 \/ b = 12 \/ b = 13 \/ b = 14 \/ b = 15 \/ b = 16) by lia.
  clear Ha Hb.
  repeat (destruct Ha' as [->|Ha']); try subst a;
    repeat (destruct Hb' as [->|Hb']); try subst b; vm_compute; intros H; first [reflexivity | discriminate H].
Qed.

(* get_registers: strictly increasing in the name order (hence duplicate-free), contains exactly the base / index
   registers of the memory operands (for the 17 registers of the amd64 context) *)
Lemma instr_regs_spec ops :
  StronglySorted rank_lt (instr_regs ops) /\
  (forall id, In id (instr_regs ops) -> exists m, In m ops /\ (mo_base m = Some id \/ mo_index m = Some id)) /\
  (forall m id, In m ops -> (mo_base m = Some id \/ mo_index m = Some id) -> 0 <= id <= 16 ->
                (forall m' id', In m' ops -> (mo_base m' = Some id' \/ mo_index m' = Some id') -> 0 <= id' <= 16) ->
                In id (instr_regs ops)).
Proof.
  split; [apply fold_insert_sorted; constructor|]. split; [apply instr_regs_sound|].
  intros m id Hm Hid Hr Hall.
  assert (Hin : In id (flat_map operand_regs ops)).
  { apply in_flat_map. exists m. split; [exact Hm|]. unfold operand_regs.
    destruct Hid as [Hb|Hi]; [rewrite Hb; apply in_or_app; left; left; reflexivity|rewrite Hi; apply in_or_app; right; left; reflexivity]. }
  destruct (fold_insert_has _ [] id Hin) as [id' [Hin' Hrk]].
  assert (Hr' : 0 <= id' <= 16).
  { destruct (instr_regs_sound ops id' Hin') as [m' [Hm' Hid']]. eapply Hall; eassumption. }
  rewrite <- (name_rank_inj id' id Hr' Hr Hrk). exact Hin'.
Qed.

(* ------------------------------------------------------------ completeness of the whole check *)
Definition qualifies (rs : list region) (op : memop) (x : Z) : Prop :=
  x = 0 \/ exists mi, lookup_region rs x = Some mi /\ possibly_allowed op mi = true.
Definition inaccessible (rs : list region) (op : memop) (a : Z) : Prop :=
  forall mi, lookup_region rs a = Some mi -> possibly_allowed op mi = false.

Lemma check_complete c address adj op ctx iregs rs a reg j :
  c = CpuAmd64 \/ c = CpuOther64 -> adj <> AdjNullOffset ->
  ((reg = None /\ a = match adj with AdjNonCanonical v => v | _ => address end) \/
   (exists rid, reg = Some rid /\ In (rid, a) iregs /\ ctx <> None)) ->
  inaccessible rs op a ->
  br_lo (expected_br c adj) <= j < br_hi (expected_br c adj) ->
  qualifies rs op (Z.lxor a (2 ^ j)) ->
  exists f, In f (check_for_bitflips c address adj op ctx iregs rs) /\ f_addr f = Z.lxor a (2 ^ j) /\ f_reg f = reg.
Proof.
  intros Hc Hadj Hex Hin Hj Hq.
  assert (Hgen : forall a0 br, br = expected_br c adj ->
            a0 = match adj with AdjNonCanonical v => v | _ => address end ->
            exists f, In f (try_bit_flips a0 None br ctx rs op ++
                            match ctx with None => [] | Some _ => flat_map (fun rv => try_bit_flips (snd rv) (Some (fst rv)) br ctx rs op) iregs end) /\
                      f_addr f = Z.lxor a (2 ^ j) /\ f_reg f = reg).
  { intros a0 br -> ->. destruct Hex as [[-> ->]|[rid [-> [Hi Hctx]]]].
    - destruct (try_bit_flips_complete _ None (expected_br c adj) ctx rs op j Hin Hj Hq) as [f [Hf Hfa]].
      exists f. split; [apply in_or_app; left; exact Hf|exact Hfa].
    - destruct (try_bit_flips_complete a (Some rid) (expected_br c adj) ctx rs op j Hin Hj Hq) as [f [Hf Hfa]].
      exists f. split; [|exact Hfa]. apply in_or_app. right. destruct ctx as [cx|]; [|exfalso; apply Hctx; reflexivity].
      apply in_flat_map. exists (rid, a). split; [exact Hi|exact Hf]. }
  unfold check_for_bitflips.
  destruct Hc as [-> | ->]; destruct adj as [|v|]; try (exfalso; apply Hadj; reflexivity);
    (eapply Hgen; reflexivity).
Qed.

Lemma iregs_of_complete pc regs id v : In id regs -> get_register pc id = Some v -> In (id, v) (iregs_of pc regs).
Proof.
  intros Hin Hg. unfold iregs_of. apply in_flat_map. exists id. split; [exact Hin|]. rewrite Hg. left. reflexivity.
Qed.

Section PipelineComplete.
  Variable analysis : pcontext -> option op_analysis.

  (* every qualifying single-bit neighbour of every examined value IS reported *)
  Lemma pipeline_complete c os r address pc rs a reg j :
    pointer_width c = WBits64 -> c <> GArm64 ->
    (forall off, pipeline_adj analysis c os r address pc <> GAdjNullPointerWithOffset off) ->
    ((reg = None /\ a = match pipeline_adj analysis c os r address pc with GAdjNonCanonical v => v | _ => address end) \/
     (exists id x oa, reg = Some id /\ pc = Some x /\ analysis x = Some oa /\ In id (oa_regs oa) /\ get_register x id = Some a)) ->
    inaccessible rs (memop_of_reason r) a ->
    br_lo (pipeline_br analysis c os r address pc) <= j < br_hi (pipeline_br analysis c os r address pc) ->
    qualifies rs (memop_of_reason r) (Z.lxor a (2 ^ j)) ->
    exists f, In f (pipeline analysis c os r address pc rs) /\ f_addr f = Z.lxor a (2 ^ j) /\ f_reg f = reg.
  Proof.
    intros Hw Hna Hnn Hex Hin Hj Hq. unfold pipeline. rewrite check_src_refines.
    apply check_complete; try assumption.
    - apply cpu_class_live; assumption.
    - destruct (pipeline_adj analysis c os r address pc) as [|v|off] eqn:E; cbn; try discriminate.
      exfalso. apply (Hnn off). reflexivity.
    - destruct Hex as [[Hr Ha]|[id [x [oa [Hr [Hpc [Han [Hi Hg]]]]]]]].
      + left. split; [exact Hr|]. rewrite Ha. destruct (pipeline_adj analysis c os r address pc); reflexivity.
      + right. exists id. split; [exact Hr|]. subst pc. split.
        * unfold pipeline_iregs, the_analysis. rewrite Han. apply iregs_of_complete; assumption.
        * discriminate.
  Qed.
End PipelineComplete.

(* ------------------------------------------------------------ from the raw records *)
Lemma is_gpf_shape c o code flags nparams info0 address :
  is_gpf (os_class o) (reason_of c o code flags nparams info0) address = true ->
  (o = GOsWindows /\ code = WIN_EXCEPTION_ACCESS_VIOLATION /\ 1 <= nparams /\ info0 = WIN_ACCESS_READ /\ address = two64 - 1) \/
  (o = GOsMacOs /\ code = MAC_EXC_BAD_ACCESS /\ flags = MAC_EXC_I386_GPFLT /\ address = 0 /\ (c = GX86 \/ c = GX86_64)) \/
  (o = GOsLinux /\ (code = LINUX_SIGSEGV \/ code = LINUX_SIGBUS) /\ flags = LINUX_SI_KERNEL /\ address = 0).
Proof.
  destruct o; unfold reason_of; cbn [os_class g_reason_family Z.eqb Pos.eqb]; cbv iota;
    try (intros H; match type of H with is_gpf OsOther _ _ = true => destruct (_ : reason) in H; discriminate H end).
  - (* Windows *)
    destruct ((code =? WIN_EXCEPTION_ACCESS_VIOLATION) && (1 <=? nparams) && existsb (Z.eqb info0) WIN_ACCESS_TYPES) eqn:E;
      [|intros H; discriminate H].
    cbn [is_gpf]. intros H. apply andb_prop in H. destruct H as [H1 H2].
    apply andb_prop in E. destruct E as [E _]. apply andb_prop in E. destruct E as [E1 E2].
    left. repeat split; lia.
  - (* macOS *)
    destruct ((code =? MAC_EXC_BAD_ACCESS) && negb (existsb (Z.eqb flags) MAC_BAD_ACCESS_KERN_TYPES) &&
              (gcpu_eqb c GX86 || gcpu_eqb c GX86_64) && (flags =? MAC_EXC_I386_GPFLT)) eqn:E; [|intros H; discriminate H].
    cbn [is_gpf]. intros H.
    apply andb_prop in E. destruct E as [E E4]. apply andb_prop in E. destruct E as [E E3]. apply andb_prop in E. destruct E as [E1 _].
    right. left. repeat split; try lia.
    apply orb_prop in E3. destruct E3 as [E3|E3]; destruct c; cbn in E3; try discriminate; first [left; reflexivity | right; reflexivity].
  - (* Linux *)
    destruct ((code =? LINUX_SIGSEGV) && negb (existsb (Z.eqb flags) LINUX_SIGSEGV_KINDS)) eqn:E1.
    + cbn [is_gpf]. intros H. apply andb_prop in H. destruct H as [H H3]. apply andb_prop in H. destruct H as [_ H2].
      apply andb_prop in E1. destruct E1 as [E1 _]. right. right. repeat split; lia.
    + destruct ((code =? LINUX_SIGBUS) && negb (existsb (Z.eqb flags) LINUX_SIGBUS_KINDS)) eqn:E2; [|intros H; discriminate H].
      cbn [is_gpf]. intros H. apply andb_prop in H. destruct H as [H H3]. apply andb_prop in H. destruct H as [_ H2].
      apply andb_prop in E2. destruct E2 as [E2 _]. right. right. repeat split; lia.
Qed.

Section DumpProofs.
  Variable analysis : pcontext -> option op_analysis.

  Lemma dump_none_platform arch platform_id e pc rs :
    ~ (arch = 9 \/ arch = 32770 \/ arch = 32772) ->
    dump_pipeline analysis arch platform_id e pc rs = [].
  Proof. intros H. unfold dump_pipeline, dump_cpu. apply none_platform_arch. exact H. Qed.

  (* bits 48..64 are searched only for an AMD64 dump whose exception record has one of the three GPF shapes *)
  Lemma dump_noncanonical_shape arch platform_id e pc v :
    dump_adj analysis arch platform_id e pc = GAdjNonCanonical v ->
    arch = 9 /\ in_non_canonical v = true /\
    let o := dump_os platform_id in
    let address := dump_address arch platform_id e in
    (o = GOsWindows /\ er_code e = WIN_EXCEPTION_ACCESS_VIOLATION /\ 1 <= er_nparams e /\ er_info0 e = WIN_ACCESS_READ /\ address = two64 - 1) \/
    (o = GOsMacOs /\ er_code e = MAC_EXC_BAD_ACCESS /\ er_flags e = MAC_EXC_I386_GPFLT /\ address = 0) \/
    (o = GOsLinux /\ (er_code e = LINUX_SIGSEGV \/ er_code e = LINUX_SIGBUS) /\ er_flags e = LINUX_SI_KERNEL /\ address = 0).
  Proof.
    unfold dump_adj, pipeline_adj. intros H.
    pose proof (adjusted_sound (dump_cpu arch) (os_class (dump_os platform_id)) (dump_reason arch platform_id e)
                               (dump_address arch platform_id e) (the_analysis analysis pc)) as S.
    rewrite H in S. destruct S as [Hc [Hg [o [l [ai [_ [_ [_ [_ [Hr _]]]]]]]]]].
    split; [apply arch_amd64; exact Hc|]. split; [exact Hr|].
    unfold dump_reason in Hg. apply is_gpf_shape in Hg.
    destruct Hg as [H1|[H2|H3]]; [left; exact H1|right; left|right; right; exact H3].
    destruct H2 as [A [B [C [D _]]]]. repeat split; assumption.
  Qed.

  (* Android, iOS, Solaris, ... : never a non-canonical adjustment *)
  Lemma dump_noncanonical_os arch platform_id e pc v :
    dump_adj analysis arch platform_id e pc = GAdjNonCanonical v ->
    platform_id = 2 \/ platform_id = 3 \/ platform_id = 33025 \/ platform_id = 33281.
  Proof.
    intros H. apply dump_noncanonical_shape in H. destruct H as [_ [_ H]]. cbv zeta in H. unfold dump_os, os_of_platform_id in H.
    repeat match type of H with context [platform_id =? ?k] =>
             destruct (Z.eqb_spec platform_id k);
             [first [lia | (cbv iota in H; destruct H as [[H _]|[[H _]|[H _]]]; discriminate H)]|] end.
    cbv iota in H. destruct H as [[H _]|[[H _]|[H _]]]; discriminate H.
  Qed.
End DumpProofs.

(* ------------------------------------------------------------ no arithmetic trap in is_repeated *)
(* `(addr & 0xff) * 0x0101..01` is a plain u64 multiplication (traps on overflow in a debug build): it cannot overflow *)
Lemma land_255_range a : 0 <= Z.land a 255 <= 255.
Proof.
  split; [apply Z.land_nonneg; right; lia|].
  assert (H : Z.land a 255 = a mod 2 ^ 8) by (change 255 with (Z.ones 8); apply Z.land_ones; lia).
  rewrite H. pose proof (Z.mod_pos_bound a (2 ^ 8) ltac:(lia)). lia.
Qed.

Lemma is_repeated_no_overflow a :
  0 <= Z.land a 255 * REPEAT_MUL_2 < two64 /\ 0 <= Z.land a 255 * REPEAT_MUL_4 < two64 /\
  0 <= Z.land a 255 * REPEAT_MUL_8 < two64.
Proof.
  pose proof (land_255_range a) as H. rewrite two64_val.
  assert (B2 : 0 <= REPEAT_MUL_2 /\ 255 * REPEAT_MUL_2 < 2 ^ 64) by (vm_compute; split; [discriminate|reflexivity]).
  assert (B4 : 0 <= REPEAT_MUL_4 /\ 255 * REPEAT_MUL_4 < 2 ^ 64) by (vm_compute; split; [discriminate|reflexivity]).
  assert (B8 : 0 <= REPEAT_MUL_8 /\ 255 * REPEAT_MUL_8 < 2 ^ 64) by (vm_compute; split; [discriminate|reflexivity]).
  generalize dependent REPEAT_MUL_2. generalize dependent REPEAT_MUL_4. generalize dependent REPEAT_MUL_8.
  intros m8 B8 m4 B4 m2 B2. nia.
Qed.

(* ------------------------------------------------------------ closed form of try_bit_flips: order and multiplicity *)
Definition flips_at (a : Z) (reg : option Z) (br : bitrange) (ctx : option context) (rs : list region) (op : memop) (i : Z) : list flip :=
  let pa := Z.lxor a (2 ^ i) in
  (if pa =? 0 then [mk_flip a pa reg br ctx] else []) ++
  match lookup_region rs pa with
  | Some mi => if possibly_allowed op mi then [mk_flip a pa reg br ctx] else []
  | None => []
  end.
Fixpoint zrange (lo : Z) (n : nat) : list Z := match n with O => [] | S n' => lo :: zrange (lo + 1) n' end.

Lemma flips_loop_exact n : forall i a reg br ctx rs op,
  flips_loop n i a reg br ctx rs op = flat_map (flips_at a reg br ctx rs op) (zrange i n).
Proof.
  induction n as [|n IH]; intros i a reg br ctx rs op; [reflexivity|].
  cbn [flips_loop zrange flat_map]. unfold flips_at at 1. rewrite IH. rewrite <- app_assoc. reflexivity.
Qed.

Lemma try_bit_flips_exact a reg br ctx rs op :
  try_bit_flips a reg br ctx rs op =
  if (match lookup_region rs a with Some mi => possibly_allowed op mi | None => false end) then []
  else flat_map (flips_at a reg br ctx rs op) (zrange (br_lo br) (Z.to_nat (br_hi br - br_lo br))).
Proof.
  unfold try_bit_flips, br_lo, br_hi.
  destruct (match lookup_region rs a with Some mi => possibly_allowed op mi | None => false end); [reflexivity|].
  destruct (br_bounds br) as [lo hi]. cbn [fst snd]. apply flips_loop_exact.
Qed.

Lemma zrange_spec lo n : forall j, In j (zrange lo n) <-> lo <= j < lo + Z.of_nat n.
Proof.
  revert lo. induction n as [|n IH]; intros lo j; cbn [zrange In]; [lia|].
  rewrite IH. lia.
Qed.

(* ------------------------------------------------------------ every flip derives from a value that is NOT accessible *)
Lemma try_bit_flips_inaccessible a reg br ctx rs op f :
  In f (try_bit_flips a reg br ctx rs op) -> inaccessible rs op a.
Proof.
  unfold try_bit_flips, inaccessible. intros Hin mi Hl. rewrite Hl in Hin.
  destruct (possibly_allowed op mi); [destruct Hin|reflexivity].
Qed.

Lemma check_ok_strong c address adj op ctx iregs rs f :
  In f (check_for_bitflips c address adj op ctx iregs rs) ->
  exists a, examined c address adj ctx iregs f a /\
            flip_ok a (f_reg f) rs op (br_lo (expected_br c adj)) (br_hi (expected_br c adj)) f /\
            inaccessible rs op a.
Proof.
  unfold check_for_bitflips, examined.
  assert (Hgen : forall a br, (br = expected_br c adj) ->
     (a = match adj with AdjNonCanonical v => v | _ => address end) ->
     (c = CpuAmd64 \/ c = CpuOther64) -> adj <> AdjNullOffset ->
     In f (try_bit_flips a None br ctx rs op ++
           match ctx with None => [] | Some _ => flat_map (fun rv => try_bit_flips (snd rv) (Some (fst rv)) br ctx rs op) iregs end) ->
     exists a0, ((c = CpuAmd64 \/ c = CpuOther64) /\ adj <> AdjNullOffset /\
       ((f_reg f = None /\ a0 = match adj with AdjNonCanonical v => v | _ => address end) \/
        (exists rid, f_reg f = Some rid /\ In (rid, a0) iregs /\ ctx <> None))) /\
       flip_ok a0 (f_reg f) rs op (br_lo (expected_br c adj)) (br_hi (expected_br c adj)) f /\ inaccessible rs op a0).
  { intros a br Hbr Ha Hc Hadj Hin. apply in_app_or in Hin. destruct Hin as [Hin|Hin].
    - pose proof (try_bit_flips_inaccessible _ _ _ _ _ _ _ Hin) as Hna.
      apply try_bit_flips_ok in Hin. pose proof Hin as [_ [_ Hr]]. exists a. rewrite Hr. subst br.
      split; [|split; assumption]. repeat split; try assumption. left. split; [reflexivity|assumption].
    - destruct ctx as [cx|]; [|destruct Hin]. apply in_flat_map in Hin. destruct Hin as [[rid v] [Hiv Hin]].
      cbn [fst snd] in Hin. pose proof (try_bit_flips_inaccessible _ _ _ _ _ _ _ Hin) as Hna.
      apply try_bit_flips_ok in Hin. pose proof Hin as [_ [_ Hr]]. exists v. rewrite Hr. subst br.
      split; [|split; assumption]. repeat split; try assumption. right. exists rid. repeat split; [assumption|discriminate]. }
  destruct c; try (intros []).
  - destruct adj as [|v|]; try (intros []); intros Hin;
      (eapply Hgen; [reflexivity|reflexivity|left; reflexivity|discriminate|exact Hin]).
  - destruct adj as [|v|]; try (intros []); intros Hin;
      (eapply Hgen; [reflexivity|reflexivity|right; reflexivity|discriminate|exact Hin]).
Qed.

Section PipelineInaccessible.
  Variable analysis : pcontext -> option op_analysis.

  Lemma pipeline_examined_inaccessible c os r address pc rs f :
    In f (pipeline analysis c os r address pc rs) ->
    exists a, examined_by analysis c os r address pc f a /\ inaccessible rs (memop_of_reason r) a.
  Proof.
    unfold pipeline. rewrite check_src_refines. intros Hin.
    apply check_ok_strong in Hin. destruct Hin as [a [[Hc [Hadj Hex]] [_ Hna]]].
    exists a. split; [|exact Hna].
    destruct Hex as [[Hr Ha]|[rid [Hr [Hin Hctx]]]].
    - left. split; [exact Hr|]. rewrite Ha. destruct (pipeline_adj analysis c os r address pc); reflexivity.
    - right. unfold pipeline_iregs, the_analysis in Hin. destruct pc as [x|]; [|destruct Hin].
      destruct (analysis x) as [oa|] eqn:Ea; [|destruct Hin].
      apply iregs_of_in in Hin. destruct Hin as [Hi Hg].
      exists rid, x, oa. repeat split; assumption.
  Qed.

End PipelineInaccessible.

(* a value inside a MemoryInfoList record that intersects no other record and whose protection permits the access IS accessible *)
Lemma record_accessible op l1 base size prot l2 a :
  u64_recs (l1 ++ (base, size, prot) :: l2) ->
  size <> 0 -> base + size < two64 -> base <= a < base + size ->
  info_allows op prot = true ->
  (forall b s p, In (b, s, p) (l1 ++ l2) -> s <> 0 -> b + s < two64 -> b + s <= base \/ base + size <= b) ->
  ~ inaccessible (regions_of_info (l1 ++ (base, size, prot) :: l2)) op a.
Proof.
  intros Hl Hs Hb Ha Hp Hiso Hna.
  set (mi := region_of_info base size prot).
  assert (Hr : rg_range mi = Some (base, base + size - 1)).
  { unfold mi, region_of_info. cbn [rg_range]. unfold mk_range, checked_add.
    destruct (size =? 0) eqn:E0; [lia|]. rewrite two64_val in Hb. destruct (base + size <? 2 ^ 64) eqn:E1; [reflexivity|lia]. }
  assert (Hlk : lookup_region (regions_of_info (l1 ++ (base, size, prot) :: l2)) a = Some mi).
  { unfold regions_of_info. rewrite map_app. cbn [map].
    apply (lookup_isolated _ mi _ (base, base + size - 1)).
    - pose proof (wf_regions_info _ Hl) as W. unfold regions_of_info in W. rewrite map_app in W. exact W.
    - exact Hr.
    - unfold contains. cbn [fst snd]. apply andb_true_intro. split; lia.
    - intros mi' r' Hin' Hr'. rewrite <- map_app in Hin'. apply in_map_iff in Hin'. destruct Hin' as [[[b s] p] [<- Hin']].
      unfold region_of_info in Hr'. cbn [rg_range] in Hr'. unfold mk_range, checked_add in Hr'.
      destruct (s =? 0) eqn:E0; [discriminate|]. destruct (b + s <? 2 ^ 64) eqn:E1; [|discriminate].
      inversion Hr'; subst r'. unfold intersects. cbn [fst snd].
      assert (Hs0 : s <> 0) by lia.
      assert (Hb0 : b + s < two64) by (rewrite two64_val; lia).
      pose proof (Hiso b s p Hin' Hs0 Hb0) as Hd.
      apply andb_false_iff. destruct Hd; [left|right]; lia. }
  specialize (Hna mi Hlk). unfold mi in Hna. destruct op; cbn in Hna, Hp; congruence.
Qed.

(* ------------------------------------------------------------ the property, clause by clause, at the raw-record level *)
Section TheProperty.
  Variable analysis : pcontext -> option op_analysis.

  Lemma the_property arch platform_id e pc l :
    u64_recs l ->
    0 <= er_address e < two64 -> 0 <= er_info1 e < two64 ->
    (forall x id v, pc = Some x -> get_register x id = Some v -> 0 <= v < two64) ->
    (forall x oa ai, analysis x = Some oa -> (exists a, oa_addresses oa = Some a /\ In ai a) -> 0 <= ai_addr ai < two64) ->
    let c := dump_cpu arch in
    let os := os_class (dump_os platform_id) in
    let r := dump_reason arch platform_id e in
    let address := dump_address arch platform_id e in
    let flips := dump_pipeline analysis arch platform_id e pc (regions_of_info l) in
    (* each reported flip: one bit of the platform's range away from an examined value that is not itself accessible;
       null or inside a record permitting the access; confidence in [0,1] *)
    (forall f, In f flips ->
       exists a j, examined_by analysis c os r address pc f a /\
                   inaccessible (regions_of_info l) (memop_of_reason r) a /\
                   br_lo (pipeline_br analysis c os r address pc) <= j < br_hi (pipeline_br analysis c os r address pc) /\
                   f_addr f = Z.lxor a (2 ^ j) /\ 0 <= f_addr f < two64 /\
                   (f_addr f = 0 \/
                    exists base size prot, In (base, size, prot) l /\ size <> 0 /\ base + size < two64 /\
                                           base <= f_addr f < base + size /\ info_allows (memop_of_reason r) prot = true) /\
                   le_b32 (f32 0) (confidence (f_det f)) = true /\ le_b32 (confidence (f_det f)) (f32 F32_ONE_bits) = true) /\
    (* none for a recognised null pointer plus offset *)
    (forall x oa, pc = Some x -> analysis x = Some oa -> has_null_flag oa -> flips = []) /\
    (* none for 32-bit, ARM64 / ARM64_OLD and unknown architectures *)
    (~ (arch = 9 \/ arch = 32770 \/ arch = 32772) -> flips = []).
  Proof.
    intros Hl Hea Hei Hregs Hacc c os r address flips.
    assert (Haddr : 0 <= address < two64).
    { unfold address, dump_address, crash_address.
      assert (H0 : 0 <= (match dump_os platform_id with
                         | GOsWindows => if ((er_code e =? WIN_EXCEPTION_ACCESS_VIOLATION) || (er_code e =? WIN_EXCEPTION_IN_PAGE_ERROR)) && (2 <=? er_nparams e)
                                         then er_info1 e else er_address e
                         | _ => er_address e end) < two64).
      { destruct (dump_os platform_id); try exact Hea.
        destruct (((er_code e =? WIN_EXCEPTION_ACCESS_VIOLATION) || (er_code e =? WIN_EXCEPTION_IN_PAGE_ERROR)) && (2 <=? er_nparams e)); assumption. }
      destruct (pointer_width (dump_cpu arch)); try exact H0.
      pose proof (Z.mod_pos_bound (match dump_os platform_id with
                         | GOsWindows => if ((er_code e =? WIN_EXCEPTION_ACCESS_VIOLATION) || (er_code e =? WIN_EXCEPTION_IN_PAGE_ERROR)) && (2 <=? er_nparams e)
                                         then er_info1 e else er_address e
                         | _ => er_address e end) 4294967296 ltac:(lia)) as Hm.
      rewrite two64_val. lia. }
    split; [|split].
    - intros f Hin. unfold flips, dump_pipeline in Hin. fold c os r address in Hin.
      destruct (pipeline_examined_inaccessible analysis _ _ _ _ _ _ _ Hin) as [a0 [Hex0 Hna0]].
      destruct (pipeline_flip_info analysis c os r address pc l f Hl Haddr Hregs Hacc Hin)
        as [a [j [Hex [Hj [Hf [Hu Hm]]]]]].
      (* the two witnesses are the same value: both are determined by f_reg f *)
      assert (Heq : a0 = a).
      { destruct Hex0 as [[Hr0 Ha0]|[id0 [x0 [oa0 [Hr0 [Hp0 [Han0 [_ Hg0]]]]]]]];
        destruct Hex as [[Hr1 Ha1]|[id1 [x1 [oa1 [Hr1 [Hp1 [Han1 [_ Hg1]]]]]]]].
        - congruence.
        - rewrite Hr0 in Hr1. discriminate.
        - rewrite Hr0 in Hr1. discriminate.
        - rewrite Hr0 in Hr1. inversion Hr1; subst id1. rewrite Hp0 in Hp1. inversion Hp1; subst x1. congruence. }
      subst a0. exists a, j. repeat split; try assumption; try apply Hj; try apply Hu; apply (confidence_01_split (f_det f)).
    - intros x oa Hpc Han Hn. unfold flips, dump_pipeline. subst pc. eapply pipeline_none_null; eassumption.
    - intros Ha. unfold flips. apply dump_none_platform. exact Ha.
  Qed.
End TheProperty.

(* the same for a dump with Linux maps lines (start, end, rwx) *)
Section ThePropertyMaps.
  Variable analysis : pcontext -> option op_analysis.

  Lemma the_property_maps arch platform_id e pc l :
    u64_recs l ->
    let c := dump_cpu arch in
    let os := os_class (dump_os platform_id) in
    let r := dump_reason arch platform_id e in
    let address := dump_address arch platform_id e in
    let flips := dump_pipeline analysis arch platform_id e pc (regions_of_maps l) in
    (forall f, In f flips ->
       exists a j, examined_by analysis c os r address pc f a /\
                   inaccessible (regions_of_maps l) (memop_of_reason r) a /\
                   br_lo (pipeline_br analysis c os r address pc) <= j < br_hi (pipeline_br analysis c os r address pc) /\
                   f_addr f = Z.lxor a (2 ^ j) /\
                   (f_addr f = 0 \/
                    exists lo hi p, In (lo, hi, p) l /\ lo <= f_addr f <= hi /\ maps_allows (memop_of_reason r) p = true) /\
                   le_b32 (f32 0) (confidence (f_det f)) = true /\ le_b32 (confidence (f_det f)) (f32 F32_ONE_bits) = true) /\
    (forall x oa, pc = Some x -> analysis x = Some oa -> has_null_flag oa -> flips = []) /\
    (~ (arch = 9 \/ arch = 32770 \/ arch = 32772) -> flips = []).
  Proof.
    intros Hl c os r address flips. split; [|split].
    - intros f Hin. unfold flips, dump_pipeline in Hin. fold c os r address in Hin.
      destruct (pipeline_examined_inaccessible analysis _ _ _ _ _ _ _ Hin) as [a0 [Hex0 Hna0]].
      destruct (pipeline_flip_maps analysis c os r address pc l f Hl Hin) as [a [j [Hex [Hj [Hf Hm]]]]].
      assert (Heq : a0 = a).
      { destruct Hex0 as [[Hr0 Ha0]|[id0 [x0 [oa0 [Hr0 [Hp0 [Han0 [_ Hg0]]]]]]]];
        destruct Hex as [[Hr1 Ha1]|[id1 [x1 [oa1 [Hr1 [Hp1 [Han1 [_ Hg1]]]]]]]].
        - congruence.
        - rewrite Hr0 in Hr1. discriminate.
        - rewrite Hr0 in Hr1. discriminate.
        - rewrite Hr0 in Hr1. inversion Hr1; subst id1. rewrite Hp0 in Hp1. inversion Hp1; subst x1. congruence. }
      subst a0. exists a, j. repeat split; try assumption; try apply Hj; apply (confidence_01_split (f_det f)).
    - intros x oa Hpc Han Hn. unfold flips, dump_pipeline. subst pc. eapply pipeline_none_null; eassumption.
    - intros Ha. unfold flips. apply dump_none_platform. exact Ha.
  Qed.
End ThePropertyMaps.
