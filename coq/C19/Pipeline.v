(* C19/Pipeline.v — executable model of the path from the exception record and the instruction
   analysis to the reported bit flips.  Definitions only.
   Mirrors minidump-processor/src/processor.rs: get_exception_details (adjusted-address computation),
   try_detect_null_pointer_in_disguise, try_get_non_canonical_crash_address,
   represents_general_protection_fault, check_for_bitflips (as REGENERATED from the source:
   RM.Gen.C19Check.g_check), MemoryOperation::from_crash_reason; and op_analysis.rs:
   MemoryAddressInfo::try_from_operand, get_registers, the explicit accesses of
   MemoryAccessList::from_instruction for instructions without implicit accesses / ip update.
   The decoder (yaxpeax) is NOT modelled: a decoded instruction is an input. *)
From RM Require Export C19.Model.
Open Scope Z_scope.

(* ------------------------------------------------------------ check_for_bitflips from the source *)
Definition br_of (b : gbr) : bitrange :=
  match b with GBrAll => AllBits | GBrAmd64Canononical => Amd64Canonical | GBrAmd64NonCanonical => Amd64NonCanonical end.

Definition has_ctx (ctx : option context) : bool := match ctx with Some _ => true | None => false end.

Definition check_src (c : gcpu) (address : Z) (adj : gadj) (op : memop) (ctx : option context)
           (iregs : list (Z * Z)) (rs : list region) : list flip :=
  g_check (fun a reg br => try_bit_flips a reg (br_of br) ctx rs op) c address adj (has_ctx ctx) iregs.

(* the 4 behaviour classes of the hand-written model *)
Definition cpu_class (c : gcpu) : cpu :=
  match pointer_width c with
  | WBits64 => if gcpu_eqb c GArm64 then CpuArm64 else if gcpu_eqb c GX86_64 then CpuAmd64 else CpuOther64
  | _ => Cpu32
  end.
Definition adj_class (a : gadj) : adjusted :=
  match a with GAdjNone => AdjNone | GAdjNonCanonical v => AdjNonCanonical v | GAdjNullPointerWithOffset _ => AdjNullOffset end.

(* ------------------------------------------------------------ crash reason, memory operation *)
Inductive gos := OsWindows | OsMacOs | OsLinux | OsOther.
Inductive reason :=
  | RWinAccessViolation (kind : Z)        (* ExceptionCodeWindowsAccessType: 0 read, 1 write, 8 exec *)
  | RMacBadAccessX86Gpflt
  | RLinuxGeneral (sig code : Z)
  | ROther.

Definition mk_memop (o : Z) : memop :=
  if o =? 1 then MRead else if o =? 2 then MWrite else if o =? 3 then MExec else Undetermined.
Definition memop_of_reason (r : reason) : memop :=
  match r with RWinAccessViolation k => mk_memop (g_memop_of_access k) | _ => Undetermined end.

(* represents_general_protection_fault (match arms pinned textually by translate/c19_check.py) *)
Definition is_gpf (os : gos) (r : reason) (address : Z) : bool :=
  match os, r with
  | OsWindows, RWinAccessViolation k => (k =? WIN_ACCESS_READ) && (address =? two64 - 1)
  | OsMacOs, RMacBadAccessX86Gpflt => address =? 0
  | OsLinux, RLinuxGeneral s c => ((s =? LINUX_SIGSEGV) || (s =? LINUX_SIGBUS)) && (c =? LINUX_SI_KERNEL) && (address =? 0)
  | _, _ => false
  end.

(* ------------------------------------------------------------ the instruction analysis result *)
Record addr_info := { ai_addr : Z; ai_null : bool }.
Inductive ip_update := IpUpdate (ai : addr_info) | IpNoUpdate.
(* OpAnalysis: memory_access_list (None = undetermined), instruction_pointer_update (None = undetermined),
   registers (BTreeSet order) *)
Record op_analysis := { oa_accesses : option (list addr_info); oa_ip : option ip_update; oa_regs : list Z }.

Definition oa_addresses (oa : op_analysis) : option (list addr_info) :=
  match oa_accesses oa with
  | None => None
  | Some l => Some (match oa_ip oa with Some (IpUpdate ai) => l ++ [ai] | _ => l end)
  end.

Definition detect_null (addrs : option (list addr_info)) : option Z :=
  match addrs with Some l => option_map ai_addr (find ai_null l) | None => None end.

Definition in_non_canonical (v : Z) : bool := (NON_CANONICAL_LO <=? v) && (v <=? NON_CANONICAL_HI).

Definition non_canonical (c : gcpu) (os : gos) (r : reason) (address : Z) (addrs : option (list addr_info)) : option Z :=
  if negb (gcpu_eqb c GX86_64) then None
  else if negb (is_gpf os r address) then None
  else match addrs with
       | None => None
       | Some l => option_map ai_addr (find (fun ai => in_non_canonical (ai_addr ai)) l)
       end.

(* get_exception_details: adjusted_address (None when there is no analysis) *)
Definition adjusted_of (c : gcpu) (os : gos) (r : reason) (address : Z) (oa : option op_analysis) : gadj :=
  match oa with
  | None => GAdjNone
  | Some oa =>
      let addrs := oa_addresses oa in
      match detect_null addrs with
      | Some off => GAdjNullPointerWithOffset off
      | None => match non_canonical c os r address addrs with
                | Some v => GAdjNonCanonical v
                | None => GAdjNone
                end
      end
  end.

(* ------------------------------------------------------------ exception context with named registers *)
(* valid registers as (register id, value); ids are the harness's numbering of the amd64 registers *)
Record pcontext := { pc_size : Z; pc_regs : list (Z * Z) }.
Definition to_context (pc : pcontext) : context := (pc_size pc, map snd (pc_regs pc)).
Definition get_register (pc : pcontext) (id : Z) : option Z :=
  option_map snd (find (fun p => fst p =? id) (pc_regs pc)).
Definition iregs_of (pc : pcontext) (regs : list Z) : list (Z * Z) :=
  flat_map (fun id => match get_register pc id with Some v => [(id, v)] | None => [] end) regs.

(* ------------------------------------------------------------ the pipeline *)
Section Pipeline.
  (* the instruction analysis (analyze_thread_context: instruction bytes, decoder, operand evaluation)
     as an arbitrary function of the exception context; None = Err(..) *)
  Variable analysis : pcontext -> option op_analysis.

  Definition the_analysis (pc : option pcontext) : option op_analysis :=
    match pc with Some x => analysis x | None => None end.

  Definition pipeline_adj (c : gcpu) (os : gos) (r : reason) (address : Z) (pc : option pcontext) : gadj :=
    adjusted_of c os r address (the_analysis pc).

  Definition pipeline_iregs (pc : option pcontext) : list (Z * Z) :=
    match pc, the_analysis pc with
    | Some x, Some oa => iregs_of x (oa_regs oa)
    | _, _ => []
    end.

  Definition pipeline (c : gcpu) (os : gos) (r : reason) (address : Z) (pc : option pcontext) (rs : list region)
    : list flip :=
    check_src c address (pipeline_adj c os r address pc) (memop_of_reason r) (option_map to_context pc)
              (pipeline_iregs pc) rs.
End Pipeline.

(* ------------------------------------------------------------ operand evaluation (op_analysis.rs) *)
(* MemoryOperandInfo: base / index register ids, scale (u8), disp (i64) *)
Record memoperand := { mo_base : option Z; mo_index : option Z; mo_scale : option Z; mo_disp : option Z }.

(* MemoryAddressInfo::try_from_operand; None = Err(RegisterInvalid) *)
Definition operand_address (pc : pcontext) (m : memoperand) : option addr_info :=
  let st := match mo_base m with
            | Some b => option_map (fun v => (v, v =? 0)) (get_register pc b)
            | None => Some (0, false)
            end in
  match st with
  | None => None
  | Some (a0, nul) =>
      let st2 := match mo_index m with
                 | Some i => option_map (fun v => wrap64 (a0 + wrap64 (v * match mo_scale m with Some s => s | None => 1 end)))
                                        (get_register pc i)
                 | None => Some a0
                 end in
      match st2 with
      | None => None
      | Some a1 => Some {| ai_addr := wrap64 (a1 + wrap64 (match mo_disp m with Some d => d | None => 0 end)); ai_null := nul |}
      end
  end.

Fixpoint sequence {A} (l : list (option A)) : option (list A) :=
  match l with
  | [] => Some []
  | None :: _ => None
  | Some x :: t => option_map (cons x) (sequence t)
  end.

(* BTreeSet<&'static str>: sorted by register NAME, no duplicates.  Register id = position in CONTEXT_AMD64::REGISTERS;
   the rank of each id in the byte-wise lexicographic order of the names is REGENERATED from minidump/src/context.rs
   (Gen.C19Check.AMD64_NAME_RANK); an id outside the table (a register the context cannot read) ranks last *)
Definition name_rank (id : Z) : Z :=
  if id <? 0 then 99 else nth (Z.to_nat id) AMD64_NAME_RANK 99.
Fixpoint insert_reg (id : Z) (l : list Z) : list Z :=
  match l with
  | [] => [id]
  | h :: t => if name_rank id <? name_rank h then id :: l
              else if name_rank id =? name_rank h then l
              else h :: insert_reg id t
  end.
Definition operand_regs (m : memoperand) : list Z :=
  (match mo_base m with Some b => [b] | None => [] end) ++ (match mo_index m with Some i => [i] | None => [] end).
(* get_registers *)
Definition instr_regs (ops : list memoperand) : list Z :=
  fold_left (fun acc id => insert_reg id acc) (flat_map operand_regs ops) [].

(* a decoded instruction, as far as the analysis looks at it:
   [lea] = the opcode is LEA (explicit operands are skipped); [memsize] = instruction.mem_size() is Some (if not,
   the access list is empty: "doesn't access memory" shortcut, which also skips the implicit access);
   [ops] = its memory operands (MemoryOperandInfo), in operand order;
   [implicit] = the stack access of CALL/PUSH (write at rsp-8) or POP/RET (read at rsp);
   [ip] = what InstructionPointerUpdate::from_instruction does *)
Inductive implicit_kind := ImpNone | ImpPushCall | ImpPopRet.
Inductive ip_kind :=
  | IpkNoUpdate                 (* any opcode that is not a call/jmp/ret/jcc *)
  | IpkUndetermined             (* jcc; call/jmp with an immediate; unreadable target *)
  | IpkReg (id : Z)             (* call/jmp through a register *)
  | IpkRead (v : option Z).     (* call/jmp through memory, ret: the u64 read from the dump (None = not in the dump) *)
Record dinstr := { di_lea : bool; di_memsize : bool; di_ops : list memoperand;
                   di_implicit : implicit_kind; di_ip : ip_kind }.

Definition RSP_ID : Z := AMD64_RSP_ID.
Definition plain_info (a : Z) : addr_info := {| ai_addr := a; ai_null := a =? 0 |}.
Definition implicit_access (k : implicit_kind) (pc : pcontext) : list addr_info :=
  match k with
  | ImpNone => []
  | ImpPushCall => match get_register pc RSP_ID with Some v => [plain_info (wrap64 (v - 8))] | None => [] end
  | ImpPopRet => match get_register pc RSP_ID with Some v => [plain_info v] | None => [] end
  end.
Definition ip_of (k : ip_kind) (pc : pcontext) : option ip_update :=
  match k with
  | IpkNoUpdate => Some IpNoUpdate
  | IpkUndetermined => None
  | IpkReg id => option_map (fun v => IpUpdate (plain_info v)) (get_register pc id)
  | IpkRead v => option_map (fun v => IpUpdate (plain_info v)) v
  end.

Definition explicit_accesses (di : dinstr) (pc : pcontext) : option (list addr_info) :=
  if di_lea di then Some [] else sequence (map (operand_address pc) (di_ops di)).

Definition analyze_dinstr (di : dinstr) (pc : pcontext) : option op_analysis :=
  Some {| oa_accesses := if negb (di_memsize di) then Some []
                         else option_map (fun l => l ++ implicit_access (di_implicit di) pc) (explicit_accesses di pc);
          oa_ip := ip_of (di_ip di) pc;
          oa_regs := instr_regs (di_ops di) |}.

(* ------------------------------------------------------------ the memory map as stream records *)
(* MINIDUMP_MEMORY_INFO records (base_address, region_size, protection) / Linux maps lines (start, end, rwx bits) *)
Definition regions_of_info (l : list (Z * Z * Z)) : list region :=
  map (fun e => let '(a, b, p) := e in region_of_info a b p) l.
Definition regions_of_maps (l : list (Z * Z * Z)) : list region :=
  map (fun e => let '(a, b, p) := e in region_of_map a b (Z.testbit p 2) (Z.testbit p 1) (Z.testbit p 0)) l.

(* ------------------------------------------------------------ from the raw records of the dump *)
(* MINIDUMP_SYSTEM_INFO.{processor_architecture, platform_id} and MINIDUMP_EXCEPTION.{exception_code, exception_flags,
   number_parameters, exception_information[0..1], exception_address}.  Os / PlatformId / the per-OS dispatch of
   CrashReason::from_exception and the error enums are regenerated (Gen.C19Check); the fragments of
   from_windows_exception / from_linux_exception / from_mac_exception and get_crash_address this depends on are pinned
   textually by the translator. *)
(* the three Os values represents_general_protection_fault knows *)
Definition os_class (o : gosx) : gos :=
  match o with GOsWindows => OsWindows | GOsMacOs => OsMacOs | GOsLinux => OsLinux | _ => OsOther end.

(* CrashReason::from_exception, as far as the GPF test and MemoryOperation::from_crash_reason can tell reasons apart *)
Definition reason_of (c : gcpu) (o : gosx) (code flags nparams info0 : Z) : reason :=
  let fam := g_reason_family o in
  if fam =? 0 then
    (if (code =? WIN_EXCEPTION_ACCESS_VIOLATION) && (1 <=? nparams) && existsb (Z.eqb info0) WIN_ACCESS_TYPES
     then RWinAccessViolation info0 else ROther)
  else if fam =? 1 then
    (if (code =? MAC_EXC_BAD_ACCESS) && negb (existsb (Z.eqb flags) MAC_BAD_ACCESS_KERN_TYPES) &&
        (gcpu_eqb c GX86 || gcpu_eqb c GX86_64) && (flags =? MAC_EXC_I386_GPFLT)
     then RMacBadAccessX86Gpflt else ROther)
  else if fam =? 2 then
    (if (code =? LINUX_SIGSEGV) && negb (existsb (Z.eqb flags) LINUX_SIGSEGV_KINDS) then RLinuxGeneral code flags
     else if (code =? LINUX_SIGBUS) && negb (existsb (Z.eqb flags) LINUX_SIGBUS_KINDS) then RLinuxGeneral code flags
     else ROther)
  else ROther.

(* MinidumpException::get_crash_address *)
Definition crash_address (c : gcpu) (o : gosx) (code nparams info1 excaddr : Z) : Z :=
  let a := match o with
           | GOsWindows => if ((code =? WIN_EXCEPTION_ACCESS_VIOLATION) || (code =? WIN_EXCEPTION_IN_PAGE_ERROR)) && (2 <=? nparams)
                           then info1 else excaddr
           | _ => excaddr
           end in
  match pointer_width c with WBits32 => a mod 4294967296 | _ => a end.

Record exc_record := { er_code : Z; er_flags : Z; er_nparams : Z; er_info0 : Z; er_info1 : Z; er_address : Z }.

Section DumpPipeline.
  Variable analysis : pcontext -> option op_analysis.
  Definition dump_cpu (arch : Z) := cpu_of_arch arch.
  Definition dump_os (platform_id : Z) := os_of_platform_id platform_id.
  Definition dump_reason (arch platform_id : Z) (e : exc_record) : reason :=
    reason_of (dump_cpu arch) (dump_os platform_id) (er_code e) (er_flags e) (er_nparams e) (er_info0 e).
  Definition dump_address (arch platform_id : Z) (e : exc_record) : Z :=
    crash_address (dump_cpu arch) (dump_os platform_id) (er_code e) (er_nparams e) (er_info1 e) (er_address e).
  Definition dump_adj (arch platform_id : Z) (e : exc_record) (pc : option pcontext) : gadj :=
    pipeline_adj analysis (dump_cpu arch) (os_class (dump_os platform_id)) (dump_reason arch platform_id e)
                 (dump_address arch platform_id e) pc.
  Definition dump_pipeline (arch platform_id : Z) (e : exc_record) (pc : option pcontext) (rs : list region) : list flip :=
    pipeline analysis (dump_cpu arch) (os_class (dump_os platform_id)) (dump_reason arch platform_id e)
             (dump_address arch platform_id e) pc rs.
End DumpPipeline.
