(* C19/Proofs3.v — the function bodies compiled from the source (Gen.C19Src, executed by C19/Source.v)
   (1) satisfy the property clauses for ANY body inside the translator's grammar that passes two checkable side
       conditions (try_gen_sound / try_gen_none_when_accessible), and
   (2) are, for the source as it is, equal to the hand-written model of Model.v / Pipeline.v (…_src_refines). *)
From Flocq Require Import IEEE754.Bits.
From RM Require Import C19.Source C19.Proofs C19.Proofs2.
From Coq Require Import Lia.
Open Scope Z_scope.

(* ------------------------------------------------------------ (1) any try_bit_flips body in the grammar *)
Section Gen.
  Context {R F : Type}.
  Variable early : list tguard.
  Variable items : list (list tguard).
  Variable lookup : Z -> option R.
  Variable allowed : R -> bool.
  Variable mk : Z -> Z -> F.

  Definition mapped_allowed (x : Z) : Prop := exists mi, lookup x = Some mi /\ allowed mi = true.

  Lemma guard_ok_holds : forall g x,
    (match g with TgEq k => k =? 0 | TgMapped => true end) = true ->
    guard_holds lookup allowed g x = true -> x = 0 \/ mapped_allowed x.
  Proof.
    intros [k|] x Hok Hh; simpl in *.
    - left. apply Z.eqb_eq in Hok. apply Z.eqb_eq in Hh. lia.
    - right. destruct (lookup x) as [mi|] eqn:E; [|discriminate]. exists mi. auto.
  Qed.

  Lemma item_out_in : forall a pa chain f,
    In f (item_out lookup allowed mk a pa chain) ->
    f = mk a pa /\ exists g, In g chain /\ guard_holds lookup allowed g pa = true.
  Proof.
    intros a pa chain f. unfold item_out.
    destruct (existsb (fun g => guard_holds lookup allowed g pa) chain) eqn:E; simpl; [|tauto].
    intros [H|[]]. split; [auto|]. apply existsb_exists in E. exact E.
  Qed.

  Lemma try_loop_in : forall n i a f,
    In f (try_loop items lookup allowed mk n i a) ->
    exists j, i <= j < i + Z.of_nat n /\ f = mk a (Z.lxor a (2 ^ j)) /\
              exists chain g, In chain items /\ In g chain /\ guard_holds lookup allowed g (Z.lxor a (2 ^ j)) = true.
  Proof.
    induction n as [|n IH]; intros i a f H; simpl in H; [contradiction|].
    apply in_app_or in H. destruct H as [H|H].
    - apply in_flat_map in H. destruct H as [chain [Hc Hf]].
      apply item_out_in in Hf. destruct Hf as [Hf [g [Hg Hh]]].
      exists i. split; [lia|]. split; [exact Hf|]. exists chain, g. auto.
    - apply IH in H. destruct H as [j [Hj Hr]]. exists j. split; [lia|exact Hr].
  Qed.

  (* every reported candidate is the examined value with ONE bit of lo..hi flipped, and is 0 or mapped with the access allowed *)
  Theorem try_gen_sound : items_ok items = true -> forall a lo hi f,
    In f (try_gen early items lookup allowed mk a lo hi) ->
    exists j, lo <= j < hi /\ f = mk a (Z.lxor a (2 ^ j)) /\
              (Z.lxor a (2 ^ j) = 0 \/ mapped_allowed (Z.lxor a (2 ^ j))).
  Proof.
    intros Hok a lo hi f H. unfold try_gen in H.
    destruct (existsb (fun g => guard_holds lookup allowed g a) early); [contradiction|].
    apply try_loop_in in H. destruct H as [j [Hj [Hf [chain [g [Hc [Hg Hh]]]]]]].
    exists j. split; [lia|]. split; [exact Hf|].
    unfold items_ok in Hok. rewrite forallb_forall in Hok. specialize (Hok chain Hc).
    rewrite forallb_forall in Hok. specialize (Hok g Hg).
    eapply guard_ok_holds; eauto.
  Qed.

  (* nothing is reported for an examined value that is itself mapped with the access allowed *)
  Theorem try_gen_none_when_accessible : early_ok early = true -> forall a lo hi,
    mapped_allowed a -> try_gen early items lookup allowed mk a lo hi = [].
  Proof.
    intros Hok a lo hi [mi [Hl Ha]]. unfold try_gen.
    replace (existsb (fun g => guard_holds lookup allowed g a) early) with true; [reflexivity|].
    symmetry. unfold early_ok in Hok. apply existsb_exists in Hok. destruct Hok as [g [Hg Hm]].
    apply existsb_exists. exists g. split; [exact Hg|].
    destruct g; [discriminate|]. simpl. rewrite Hl. exact Ha.
  Qed.
  (* completeness: if some item carries the lookup + permission guard and some item the `== 0` guard, and every early exit
     is the lookup + permission test, then every qualifying neighbour of an inaccessible examined value IS reported *)
  Lemma try_loop_complete : forall n i a j chain g,
    In chain items -> In g chain -> i <= j < i + Z.of_nat n ->
    guard_holds lookup allowed g (Z.lxor a (2 ^ j)) = true ->
    In (mk a (Z.lxor a (2 ^ j))) (try_loop items lookup allowed mk n i a).
  Proof.
    induction n as [|n IH]; intros i a j chain g Hc Hg Hj Hh; [simpl in Hj; lia|].
    cbn [try_loop]. apply in_or_app.
    destruct (Z.eq_dec j i) as [->|Hne].
    - left. apply in_flat_map. exists chain. split; [exact Hc|]. unfold item_out.
      replace (existsb (fun g0 => guard_holds lookup allowed g0 (Z.lxor a (2 ^ i))) chain) with true; [left; reflexivity|].
      symmetry. apply existsb_exists. exists g. auto.
    - right. apply (IH (i + 1) a j chain g Hc Hg); [lia|exact Hh].
  Qed.

  Theorem try_gen_complete : items_complete items = true -> early_only_mapped early = true ->
    forall a lo hi j, lo <= j < hi -> ~ mapped_allowed a ->
    (Z.lxor a (2 ^ j) = 0 \/ mapped_allowed (Z.lxor a (2 ^ j))) ->
    In (mk a (Z.lxor a (2 ^ j))) (try_gen early items lookup allowed mk a lo hi).
  Proof.
    intros Hic Heo a lo hi j Hj Hna Hq. unfold try_gen.
    replace (existsb (fun g => guard_holds lookup allowed g a) early) with false.
    2:{ symmetry. apply not_true_is_false. intro E. apply existsb_exists in E. destruct E as [g [Hg Hh]].
        unfold early_only_mapped in Heo. rewrite forallb_forall in Heo. specialize (Heo g Hg).
        destruct g; [discriminate|]. simpl in Hh. apply Hna.
        destruct (lookup a) as [mi|] eqn:E; [|discriminate]. exists mi. auto. }
    unfold items_complete in Hic. apply andb_true_iff in Hic. destruct Hic as [Hm Hz].
    destruct Hq as [Hq|[mi [Hl Ha]]].
    - apply existsb_exists in Hz. destruct Hz as [chain [Hc Hz]]. apply existsb_exists in Hz. destruct Hz as [g [Hg Hk]].
      apply (try_loop_complete _ lo a j chain g Hc Hg); [lia|].
      destruct g as [k|]; [|discriminate]. simpl. rewrite Hq. rewrite Z.eqb_sym. exact Hk.
    - apply existsb_exists in Hm. destruct Hm as [chain [Hc Hm]]. apply existsb_exists in Hm. destruct Hm as [g [Hg Hk]].
      apply (try_loop_complete _ lo a j chain g Hc Hg); [lia|].
      destruct g; [discriminate|]. simpl. rewrite Hl. exact Ha.
  Qed.
End Gen.

(* ------------------------------------------------------------ (2) the source as it is = the hand-written model *)
Lemma is_repeated_src_refines : forall rs a, is_repeated_src rs a = is_repeated rs a.
Proof.
  intros rs a. unfold is_repeated_src, is_repeated, G_REPEAT, REPEAT_MUL_2, REPEAT_MUL_4, REPEAT_MUL_8.
  cbn [find fst snd].
  rewrite (Z.eqb_sym 2 rs), (Z.eqb_sym 4 rs), (Z.eqb_sym 8 rs).
  destruct (rs =? 2); [reflexivity|]. destruct (rs =? 4); [reflexivity|]. destruct (rs =? 8); reflexivity.
Qed.

Lemma is_poison_byte_src_refines : forall b, is_poison_byte_src b = is_poison_byte b.
Proof. reflexivity. Qed.

Lemma existsb_ext' {A} (f g : A -> bool) : (forall a, f a = g a) -> forall l, existsb f l = existsb g l.
Proof. intros H l. induction l as [|x l IH]; simpl; [reflexivity|]. rewrite H, IH. reflexivity. Qed.

Lemma fold_regs : forall (fn : Z -> bool) (fp : Z -> bool) (fb : Z -> bool) regs n p,
  fold_left (fun (st : Z * bool) addr =>
               (if fn addr then fst st + 1 else fst st,
                if negb (snd st) && fp addr then (if fb (Z.land addr 255) then true else snd st) else snd st))
            regs (n, p)
  = (n + Z.of_nat (length (filter fn regs)), p || existsb (fun a => fp a && fb (Z.land a 255)) regs).
Proof.
  induction regs as [|r regs IH]; intros n p; simpl.
  - rewrite Z.add_0_r, orb_false_r. reflexivity.
  - rewrite IH. f_equal.
    + destruct (fn r); simpl length; lia.
    + destruct p, (fp r), (fb (Z.land r 255)); simpl; reflexivity.
Qed.

Lemma heuristics_src_refines : forall new orig nc ctx, heuristics_src new orig nc ctx = heuristics new orig nc ctx.
Proof.
  intros new orig nc [[rs regs]|]; unfold heuristics_src, heuristics, g_h_is_null, g_h_was_low, g_h_nc, g_h_calc,
    g_h_nearby, g_h_poison_try; [|reflexivity].
  destruct (new >? LOW_ADDRESS_CUTOFF) eqn:Ec.
  - rewrite (fold_regs (fun addr => true && (Z.abs (new - addr) <=? NEARBY_REGISTER_DISTANCE))
                       (is_repeated_src rs) is_poison_byte_src).
    cbn [fst snd]. f_equal.
    apply existsb_ext'. intro a. rewrite is_repeated_src_refines. reflexivity.
  - rewrite (fold_regs (fun addr => false && (Z.abs (new - addr) <=? NEARBY_REGISTER_DISTANCE))
                       (is_repeated_src rs) is_poison_byte_src).
    cbn [fst snd]. f_equal.
    + cbn [andb]. clear. induction regs; simpl; auto.
    + apply existsb_ext'. intro a. rewrite is_repeated_src_refines. reflexivity.
Qed.

(* `self.details.nearby_registers += 1` (u32) cannot overflow whatever the compiled tests are: at most one increment per register *)
Lemma fold_count_bound : forall (fn : Z -> bool) (fp : bool -> Z -> bool) regs n p,
  let st := fold_left (fun (st : Z * bool) addr => (if fn addr then fst st + 1 else fst st, fp (snd st) addr)) regs (n, p) in
  n <= fst st <= n + Z.of_nat (length regs).
Proof.
  induction regs as [|r regs IH]; intros n p; cbn [fold_left length]; [cbn [fst]; lia|].
  cbn [fst snd]. specialize (IH (if fn r then n + 1 else n) (fp p r)). cbv zeta in IH.
  destruct (fn r); rewrite Nat2Z.inj_succ; lia.
Qed.

Theorem heuristics_src_nearby_bound : forall new orig nc ctx,
  0 <= d_nearby (heuristics_src new orig nc ctx) <= match ctx with Some (_, regs) => Z.of_nat (length regs) | None => 0 end.
Proof.
  intros new orig nc [[rs regs]|]; unfold heuristics_src; cbn [d_nearby]; [|lia].
  set (is_null := g_h_is_null new orig nc). set (was_low := g_h_was_low new orig nc is_null).
  set (calc := g_h_calc new orig nc is_null was_low).
  exact (fold_count_bound (g_h_nearby new orig nc is_null was_low calc)
           (fun p addr => if g_h_poison_try (is_repeated_src rs) new orig nc is_null was_low calc p addr
                          then (if is_poison_byte_src (Z.land addr 255) then true else p) else p) regs 0 false).
Qed.

Lemma mk_flip_src_refines : forall reg br ctx a pa, mk_flip_src reg br ctx a pa = mk_flip a pa reg (br_of br) ctx.
Proof.
  intros. unfold mk_flip_src, mk_flip. rewrite heuristics_src_refines.
  change TRY_ORIG_IS_ADDRESS with true. cbn iota. destruct br; reflexivity.
Qed.

Lemma try_loop_refines : forall n i a reg br ctx rs op,
  try_loop TRY_ITEMS (lookup_region rs) (possibly_allowed op) (mk_flip_src reg br ctx) n i a
  = flips_loop n i a reg (br_of br) ctx rs op.
Proof.
  induction n as [|n IH]; intros; [reflexivity|].
  cbn [try_loop flips_loop]. rewrite IH. unfold TRY_ITEMS. cbn [flat_map]. unfold item_out. cbn [existsb guard_holds].
  rewrite !orb_false_r, app_nil_r, <- app_assoc, !mk_flip_src_refines. f_equal. f_equal.
  destruct (lookup_region rs (Z.lxor a (2 ^ i))) as [mi|]; [|reflexivity]. reflexivity.
Qed.

Theorem try_src_refines : forall a reg br ctx rs op,
  try_bit_flips_src a reg br ctx rs op = try_bit_flips a reg (br_of br) ctx rs op.
Proof.
  intros. unfold try_bit_flips_src, try_bit_flips, try_gen, TRY_EARLY. cbn [existsb guard_holds].
  rewrite orb_false_r.
  destruct (br_bounds (br_of br)) as [lo hi]. cbn [fst snd].
  destruct (lookup_region rs a) as [mi|].
  - destruct (possibly_allowed op mi); [reflexivity|apply try_loop_refines].
  - apply try_loop_refines.
Qed.

Lemma g_check_ext : forall (F : Type) (t1 t2 : Z -> option Z -> gbr -> list F),
  (forall a r b, t1 a r b = t2 a r b) -> forall c address adj hc iregs,
  g_check t1 c address adj hc iregs = g_check t2 c address adj hc iregs.
Proof.
  intros F t1 t2 H c address adj hc iregs. unfold g_check.
  destruct (g_gate c address); [reflexivity|].
  destruct (g_select c address adj) as [[a br]|]; [|reflexivity].
  rewrite H. f_equal. destruct hc; [|reflexivity].
  induction iregs as [|rv l IH]; simpl; [reflexivity|]. rewrite H, IH. reflexivity.
Qed.

Theorem check_src2_refines : forall c address adj op ctx iregs rs,
  check_src2 c address adj op ctx iregs rs = check_src c address adj op ctx iregs rs.
Proof. intros. unfold check_src2, check_src. apply g_check_ext. intros. apply try_src_refines. Qed.

(* ---- crash reason, GPF test, crash address *)
Lemma memop_src_refines : forall c o code flags nparams info0,
  memop_of_greason (greason_of c o code flags nparams info0) = memop_of_reason (reason_of c o code flags nparams info0).
Proof.
  intros. unfold greason_of, reason_of, g_win_av_guard. rewrite Z.geb_leb.
  destruct (g_reason_family o =? 0).
  { destruct ((code =? WIN_EXCEPTION_ACCESS_VIOLATION) && (1 <=? nparams) && existsb (Z.eqb info0) WIN_ACCESS_TYPES); reflexivity. }
  destruct (g_reason_family o =? 1).
  { destruct ((code =? MAC_EXC_BAD_ACCESS) && negb (existsb (Z.eqb flags) MAC_BAD_ACCESS_KERN_TYPES) && (gcpu_eqb c GX86 || gcpu_eqb c GX86_64));
      cbn [andb]; [|reflexivity].
    destruct (existsb (Z.eqb flags) MAC_BAD_ACCESS_X86_TYPES), (flags =? MAC_EXC_I386_GPFLT); reflexivity. }
  destruct (g_reason_family o =? 2); [|reflexivity].
  destruct ((code =? LINUX_SIGSEGV) && negb (existsb (Z.eqb flags) LINUX_SIGSEGV_KINDS)); [reflexivity|].
  destruct ((code =? LINUX_SIGBUS) && negb (existsb (Z.eqb flags) LINUX_SIGBUS_KINDS)); reflexivity.
Qed.

Lemma gpflt_in_types : existsb (Z.eqb MAC_EXC_I386_GPFLT) MAC_BAD_ACCESS_X86_TYPES = true.
Proof. reflexivity. Qed.

Lemma g_gpf_other : forall o r a, os_class o = OsOther -> g_gpf o r a = false.
Proof. intros o r a H. destruct o; try discriminate H; reflexivity. Qed.
Lemma is_gpf_other : forall r a, is_gpf OsOther r a = false.
Proof. intros r a. destruct r; reflexivity. Qed.

Lemma g_gpf_win : forall r a,
  g_gpf GOsWindows r a = match r with GRWindowsAccessViolation k => (k =? WIN_ACCESS_READ) && (a =? two64 - 1) | _ => false end.
Proof.
  intros r a. destruct r; try reflexivity. unfold g_gpf.
  change (gosx_eqb GOsWindows GOsWindows) with true. cbn [andb greason_matches opt_matches].
  change WIN_ACCESS_READ with 0. change (two64 - 1) with 18446744073709551615.
  destruct (ty =? 0), (a =? 18446744073709551615); reflexivity.
Qed.
Lemma g_gpf_mac : forall r a,
  g_gpf GOsMacOs r a = match r with GRMacBadAccessX86 ty => (ty =? MAC_EXC_I386_GPFLT) && (a =? 0) | _ => false end.
Proof.
  intros r a. destruct r; try reflexivity. unfold g_gpf.
  change (gosx_eqb GOsMacOs GOsWindows) with false. change (gosx_eqb GOsMacOs GOsMacOs) with true.
  cbn [andb greason_matches opt_matches]. change MAC_EXC_I386_GPFLT with 13.
  destruct (ty =? 13), (a =? 0); reflexivity.
Qed.
Lemma g_gpf_linux : forall r a,
  g_gpf GOsLinux r a = match r with
                       | GRLinuxGeneral s c => ((s =? LINUX_SIGSEGV) || (s =? LINUX_SIGBUS)) && (c =? LINUX_SI_KERNEL) && (a =? 0)
                       | _ => false end.
Proof.
  intros r a. destruct r; try reflexivity. unfold g_gpf.
  change (gosx_eqb GOsLinux GOsWindows) with false. change (gosx_eqb GOsLinux GOsMacOs) with false.
  change (gosx_eqb GOsLinux GOsLinux) with true.
  cbn [andb greason_matches opt_matches]. change LINUX_SIGSEGV with 11. change LINUX_SIGBUS with 7. change LINUX_SI_KERNEL with 128.
  destruct (sig =? 11), (sig =? 7), (code =? 128), (a =? 0); reflexivity.
Qed.

Ltac fam :=
  unfold g_reason_family; cbv iota;
  try change (0 =? 0) with true; try change (1 =? 0) with false; try change (1 =? 1) with true;
  try change (2 =? 0) with false; try change (2 =? 1) with false; try change (2 =? 2) with true;
  try change (3 =? 0) with false; try change (3 =? 1) with false; try change (3 =? 2) with false; cbv iota.

Lemma gpf_src_refines : forall c o code flags nparams info0 a,
  g_gpf o (greason_of c o code flags nparams info0) a
  = is_gpf (os_class o) (reason_of c o code flags nparams info0) a.
Proof.
  intros. destruct (os_class o) eqn:Eo.
  - (* Windows *) destruct o; try discriminate Eo. rewrite g_gpf_win. unfold greason_of, reason_of, g_win_av_guard. rewrite Z.geb_leb. fam.
    destruct ((code =? WIN_EXCEPTION_ACCESS_VIOLATION) && (1 <=? nparams) && existsb (Z.eqb info0) WIN_ACCESS_TYPES); reflexivity.
  - (* macOS *) destruct o; try discriminate Eo. rewrite g_gpf_mac. unfold greason_of, reason_of. fam.
    destruct ((code =? MAC_EXC_BAD_ACCESS) && negb (existsb (Z.eqb flags) MAC_BAD_ACCESS_KERN_TYPES) && (gcpu_eqb c GX86 || gcpu_eqb c GX86_64));
      cbn [andb]; [|reflexivity].
    destruct (flags =? MAC_EXC_I386_GPFLT) eqn:E.
    + apply Z.eqb_eq in E. subst flags. rewrite gpflt_in_types. cbn [is_gpf]. rewrite Z.eqb_refl. reflexivity.
    + destruct (existsb (Z.eqb flags) MAC_BAD_ACCESS_X86_TYPES); [|reflexivity]. cbn [is_gpf]. rewrite E. reflexivity.
  - (* Linux *) destruct o; try discriminate Eo. rewrite g_gpf_linux. unfold greason_of, reason_of. fam.
    destruct ((code =? LINUX_SIGSEGV) && negb (existsb (Z.eqb flags) LINUX_SIGSEGV_KINDS)); [reflexivity|].
    destruct ((code =? LINUX_SIGBUS) && negb (existsb (Z.eqb flags) LINUX_SIGBUS_KINDS)); reflexivity.
  - rewrite g_gpf_other by exact Eo. rewrite is_gpf_other. reflexivity.
Qed.

Lemma crash_address_src_refines : forall c o code nparams info0 info1 excaddr,
  g_crash_address c o code nparams (fun k => if k =? 0 then info0 else if k =? 1 then info1 else 0) excaddr
  = crash_address c o code nparams info1 excaddr.
Proof.
  intros. unfold g_crash_address, crash_address.
  change WIN_EXCEPTION_ACCESS_VIOLATION with 3221225477. change WIN_EXCEPTION_IN_PAGE_ERROR with 3221225478.
  rewrite Z.geb_leb.
  destruct o; cbn [gosx_eqb gosx_tag Z.eqb andb orb]; reflexivity.
Qed.

(* ---- adjusted address *)
Lemma detect_null_src_refines : forall addrs, detect_null_src addrs = detect_null addrs.
Proof. intros [l|]; reflexivity. Qed.

Lemma non_canonical_src_refines : forall c os r address addrs gpf,
  gpf = is_gpf os r address ->
  non_canonical_src c gpf addrs = non_canonical c os r address addrs.
Proof.
  intros c os r address addrs gpf ->. unfold non_canonical_src, non_canonical, g_nc_gates. cbn [existsb].
  destruct (negb (gcpu_eqb c GX86_64)); [reflexivity|]. cbn [orb].
  destruct (negb (is_gpf os r address)); [reflexivity|]. cbn [orb].
  destruct addrs as [l|]; reflexivity.
Qed.

Theorem adjusted_src_refines : forall c o code flags nparams info0 address oa,
  adjusted_src c o (greason_of c o code flags nparams info0) address oa
  = adjusted_of c (os_class o) (reason_of c o code flags nparams info0) address oa.
Proof.
  intros. unfold adjusted_src, adjusted_of. destruct oa as [oa|]; [|reflexivity].
  unfold G_ADJ_ORDER. cbn [fold_right Z.eqb].
  rewrite detect_null_src_refines.
  rewrite (non_canonical_src_refines c (os_class o) (reason_of c o code flags nparams info0) address);
    [|apply gpf_src_refines].
  destruct (detect_null (oa_addresses oa)); [reflexivity|]. cbn [option_map].
  destruct (non_canonical c (os_class o) (reason_of c o code flags nparams info0) address (oa_addresses oa)); reflexivity.
Qed.

(* ---- op_analysis.rs *)
Lemma operand_address_src_refines : forall pc m, operand_address_src pc m = operand_address pc m.
Proof.
  intros pc m. unfold operand_address_src, operand_address, g_op_base_null, g_op_index_null, G_OP_INIT, G_OP_DEFAULT_SCALE, G_OP_DEFAULT_DISP.
  destruct (mo_base m) as [b|]; cbn [option_map].
  - destruct (get_register pc b) as [v|]; cbn [option_map]; [|reflexivity].
    destruct (mo_index m) as [i|]; [|reflexivity].
    destruct (get_register pc i) as [w|]; cbn [option_map]; [|reflexivity]. rewrite orb_false_r. reflexivity.
  - destruct (mo_index m) as [i|]; [|reflexivity].
    destruct (get_register pc i) as [w|]; cbn [option_map]; reflexivity.
Qed.

Lemma implicit_access_src_refines : forall k pc,
  (forall v, get_register pc RSP_ID = Some v -> 0 <= v < two64) ->
  implicit_access_src k pc = implicit_access k pc.
Proof.
  intros k pc H. unfold implicit_access_src, implicit_access, plain_info, g_implicit_null, G_IMPLICIT_PUSHCALL_OFF, G_IMPLICIT_POPRET_OFF.
  destruct k; [reflexivity| |]; destruct (get_register pc RSP_ID) as [v|]; try reflexivity.
  rewrite Z.add_0_r. unfold wrap64. rewrite Z.mod_small by (apply H; reflexivity). reflexivity.
Qed.

Lemma ip_of_src_refines : forall k pc, ip_of_src k pc = ip_of k pc.
Proof. intros [| |id|v] pc; reflexivity. Qed.

Lemma instr_regs_src_refines : forall ops, instr_regs_src ops = instr_regs ops.
Proof. reflexivity. Qed.

Theorem analyze_dinstr_src_refines : forall di pc,
  (forall v, get_register pc RSP_ID = Some v -> 0 <= v < two64) ->
  analyze_dinstr_src di pc = analyze_dinstr di pc.
Proof.
  intros di pc H. unfold analyze_dinstr_src, analyze_dinstr, explicit_accesses.
  rewrite ip_of_src_refines, implicit_access_src_refines, instr_regs_src_refines by exact H.
  replace (map (operand_address_src pc) (di_ops di)) with (map (operand_address pc) (di_ops di)); [reflexivity|].
  apply map_ext. intro m. symmetry. apply operand_address_src_refines.
Qed.

(* ---- permission masks *)
Lemma region_of_info_src_refines : forall base size prot, region_of_info_src base size prot = region_of_info base size prot.
Proof.
  intros. unfold region_of_info_src, region_of_info, prot_src, prot_r, prot_w, prot_x.
  rewrite <- !Z.land_assoc.
  change (Z.land G_PROT_KNOWN G_PROT_R_MASK) with 102. change (Z.land G_PROT_KNOWN G_PROT_W_MASK) with 204.
  change (Z.land G_PROT_KNOWN G_PROT_X_MASK) with 240. reflexivity.
Qed.

Lemma regions_of_info_src_refines : forall l, regions_of_info_src l = regions_of_info l.
Proof.
  intro l. unfold regions_of_info_src, regions_of_info. apply map_ext. intros [[a b] p]. apply region_of_info_src_refines.
Qed.

Lemma regions_of_maps_src_refines : forall l, regions_of_maps_src l = regions_of_maps l.
Proof. reflexivity. Qed.

(* ---- the whole path from the raw records *)
Section Dump.
  Variable analysis : pcontext -> option op_analysis.

  Lemma src_address_refines : forall arch pid e, src_address arch pid e = dump_address arch pid e.
  Proof. intros. unfold src_address, dump_address, dump_cpu, dump_os, info_of. apply crash_address_src_refines. Qed.

  Theorem dump_adj_src_refines : forall arch pid e pc, dump_adj_src analysis arch pid e pc = dump_adj analysis arch pid e pc.
  Proof.
    intros. unfold dump_adj_src, dump_adj, pipeline_adj, src_reason, dump_reason, dump_cpu, dump_os.
    rewrite src_address_refines. apply adjusted_src_refines.
  Qed.

  Theorem dump_pipeline_src_refines : forall arch pid e pc rs,
    dump_pipeline_src analysis arch pid e pc rs = dump_pipeline analysis arch pid e pc rs.
  Proof.
    intros. unfold dump_pipeline_src, dump_pipeline, pipeline. rewrite check_src2_refines.
    fold (dump_adj analysis arch pid e pc). rewrite dump_adj_src_refines, src_address_refines.
    unfold src_reason, dump_reason, dump_cpu, dump_os. rewrite memop_src_refines. reflexivity.
  Qed.
End Dump.

(* ------------------------------------------------------------ the property clauses on the compiled try_bit_flips, without the hand model *)
Lemma try_side_conditions : items_ok TRY_ITEMS = true /\ early_ok TRY_EARLY = true /\
                            items_complete TRY_ITEMS = true /\ early_only_mapped TRY_EARLY = true.
Proof. repeat split; reflexivity. Qed.

Theorem try_src_sound : forall a reg br ctx rs op f,
  In f (try_bit_flips_src a reg br ctx rs op) ->
  exists j, fst (br_bounds (br_of br)) <= j < snd (br_bounds (br_of br)) /\
            f_addr f = Z.lxor a (2 ^ j) /\ f_reg f = reg /\
            (f_addr f = 0 \/ exists mi, lookup_region rs (f_addr f) = Some mi /\ possibly_allowed op mi = true).
Proof.
  intros a reg br ctx rs op f H. unfold try_bit_flips_src in H.
  apply (try_gen_sound TRY_EARLY TRY_ITEMS) in H; [|exact (proj1 try_side_conditions)].
  destruct H as [j [Hj [Hf Hm]]]. exists j. split; [exact Hj|]. subst f. cbn [mk_flip_src f_addr f_reg].
  split; [reflexivity|]. split; [reflexivity|exact Hm].
Qed.

Theorem try_src_none_when_accessible : forall a reg br ctx rs op mi,
  lookup_region rs a = Some mi -> possibly_allowed op mi = true -> try_bit_flips_src a reg br ctx rs op = [].
Proof.
  intros. unfold try_bit_flips_src. apply try_gen_none_when_accessible; [exact (proj1 (proj2 try_side_conditions))|].
  exists mi. auto.
Qed.

(* ------------------------------------------------------------ THE PROPERTY on the compiled path *)
Theorem the_property_src : forall analysis arch platform_id e pc l,
  u64_recs l ->
  0 <= er_address e < two64 -> 0 <= er_info1 e < two64 ->
  (forall x id v, pc = Some x -> get_register x id = Some v -> 0 <= v < two64) ->
  (forall x oa ai, analysis x = Some oa -> (exists a, oa_addresses oa = Some a /\ In ai a) -> 0 <= ai_addr ai < two64) ->
  let c := dump_cpu arch in
  let os := os_class (dump_os platform_id) in
  let r := dump_reason arch platform_id e in
  let address := dump_address arch platform_id e in
  let flips := dump_pipeline_src analysis arch platform_id e pc (regions_of_info_src l) in
  (forall f, In f flips ->
     exists a j, examined_by analysis c os r address pc f a /\
                 inaccessible (regions_of_info l) (memop_of_reason r) a /\
                 br_lo (pipeline_br analysis c os r address pc) <= j < br_hi (pipeline_br analysis c os r address pc) /\
                 f_addr f = Z.lxor a (2 ^ j) /\ 0 <= f_addr f < two64 /\
                 (f_addr f = 0 \/
                  exists base size prot, In (base, size, prot) l /\ size <> 0 /\ base + size < two64 /\
                                         base <= f_addr f < base + size /\ info_allows (memop_of_reason r) prot = true) /\
                 le_b32 (f32 0) (confidence (f_det f)) = true /\ le_b32 (confidence (f_det f)) (f32 F32_ONE_bits) = true) /\
  (forall x oa, pc = Some x -> analysis x = Some oa -> has_null_flag oa -> flips = []) /\
  (~ (arch = 9 \/ arch = 32770 \/ arch = 32772) -> flips = []).
Proof.
  intros analysis arch platform_id e pc l H1 H2 H3 H4 H5. cbv zeta.
  rewrite regions_of_info_src_refines, dump_pipeline_src_refines. exact (the_property analysis arch platform_id e pc l H1 H2 H3 H4 H5).
Qed.

Theorem try_src_complete : forall a reg br ctx rs op j,
  fst (br_bounds (br_of br)) <= j < snd (br_bounds (br_of br)) ->
  ~ (exists mi, lookup_region rs a = Some mi /\ possibly_allowed op mi = true) ->
  (Z.lxor a (2 ^ j) = 0 \/ exists mi, lookup_region rs (Z.lxor a (2 ^ j)) = Some mi /\ possibly_allowed op mi = true) ->
  exists f, In f (try_bit_flips_src a reg br ctx rs op) /\ f_addr f = Z.lxor a (2 ^ j) /\ f_reg f = reg.
Proof.
  intros a reg br ctx rs op j Hj Hna Hq.
  exists (mk_flip_src reg br ctx a (Z.lxor a (2 ^ j))). split; [|split; reflexivity].
  unfold try_bit_flips_src. destruct try_side_conditions as [_ [_ [Hc He]]].
  apply (try_gen_complete TRY_EARLY TRY_ITEMS); auto.
Qed.

Theorem the_property_maps_src : forall analysis arch platform_id e pc l,
  u64_recs l ->
  let c := dump_cpu arch in
  let os := os_class (dump_os platform_id) in
  let r := dump_reason arch platform_id e in
  let address := dump_address arch platform_id e in
  let flips := dump_pipeline_src analysis arch platform_id e pc (regions_of_maps_src l) in
  (forall f, In f flips ->
     exists a j, examined_by analysis c os r address pc f a /\
                 inaccessible (regions_of_maps l) (memop_of_reason r) a /\
                 br_lo (pipeline_br analysis c os r address pc) <= j < br_hi (pipeline_br analysis c os r address pc) /\
                 f_addr f = Z.lxor a (2 ^ j) /\
                 (f_addr f = 0 \/
                  exists lo hi p, In (lo, hi, p) l /\ lo <= f_addr f <= hi /\ maps_allows (memop_of_reason r) p = true) /\
                 le_b32 (f32 0) (confidence (f_det f)) = true /\ le_b32 (confidence (f_det f)) (f32 F32_ONE_bits) = true) /\
  (forall x oa, pc = Some x -> analysis x = Some oa -> has_null_flag oa -> flips = []) /\
  (~ (arch = 9 \/ arch = 32770 \/ arch = 32772) -> flips = []).
Proof.
  intros analysis arch platform_id e pc l H1. cbv zeta.
  rewrite regions_of_maps_src_refines, dump_pipeline_src_refines. exact (the_property_maps analysis arch platform_id e pc l H1).
Qed.
