(* C19/Driver.v — entry points for the correspondence run *)
From RM Require Import C19.Model.
Open Scope Z_scope.

Definition b2z (b : bool) : Z := if b then 1 else 0.
Definition out_flip (f : flip) : list Z :=
  [f_addr f; match f_reg f with Some r => r | None => -1 end;
   b2z (d_nc (f_det f)); b2z (d_null (f_det f)); b2z (d_low (f_det f)); d_nearby (f_det f);
   b2z (d_poison (f_det f)); confidence_bits (f_det f)].

Definition mk_op (o : Z) : memop :=
  if o =? 1 then MRead else if o =? 2 then MWrite else if o =? 3 then MExec else Undetermined.
Definition mk_br (b : Z) : bitrange :=
  if b =? 0 then Amd64Canonical else if b =? 1 then Amd64NonCanonical else AllBits.
Definition mk_cpu (c : Z) : cpu :=
  if c =? 0 then Cpu32 else if c =? 1 then CpuAmd64 else if c =? 2 then CpuArm64 else CpuOther64.
(* regions: kind 0 = (base,size,prot) memory info; kind 1 = (lo,hi,rwx bits) maps *)
Definition mk_regions (kind : Z) (l : list (Z * Z * Z)) : list region :=
  map (fun e => let '(a, b, p) := e in
                if kind =? 0 then region_of_info a b p
                else region_of_map a b (Z.testbit p 2) (Z.testbit p 1) (Z.testbit p 0)) l.

Definition run_try (a reg br : Z) (ctx : option (Z * list Z)) (kind : Z) (regs : list (Z * Z * Z)) (op : Z)
  : list (list Z) :=
  map out_flip (try_bit_flips a (if reg <? 0 then None else Some reg) (mk_br br) ctx (mk_regions kind regs) (mk_op op)).

Definition run_check (c address : Z) (adj : Z) (adjv : Z) (op : Z) (ctx : option (Z * list Z))
           (iregs : list (Z * Z)) (kind : Z) (regs : list (Z * Z * Z)) : list (list Z) :=
  map out_flip (check_for_bitflips (mk_cpu c) address
                  (if adj =? 1 then AdjNonCanonical adjv else if adj =? 2 then AdjNullOffset else AdjNone)
                  (mk_op op) ctx iregs (mk_regions kind regs)).

(* crash address / memory operation of the synthesized exception record (Windows access
   violation carries the kind in information[0] and the address in information[1]) *)
Definition p_address (os code nparams info1 excaddr : Z) : Z :=
  if (os =? 0) && ((code =? 3221225477) || (code =? 3221225478)) && (2 <=? nparams) then info1 else excaddr.
Definition p_op (os code nparams info0 : Z) : Z :=
  if (os =? 0) && (code =? 3221225477) && (1 <=? nparams)
  then (if info0 =? 0 then 1 else if info0 =? 1 then 2 else if info0 =? 8 then 3 else 0)
  else 0.
Definition run_pipeline (c os code nparams info0 info1 excaddr : Z) (ctx : option (Z * list Z))
           (kind : Z) (regs : list (Z * Z * Z)) : list (list Z) :=
  run_check (if c =? 0 then 0 else if c =? 1 then 1 else 2)
            (p_address os code nparams info1 excaddr) 0 0 (p_op os code nparams info0) ctx [] kind regs.
