(* C19/Driver.v — entry points for the correspondence run.  Every entry point executes C19/Source.v, i.e. the function
   bodies COMPILED from the Rust source (Gen.C19Src); C19/Proofs3.v proves them equal to the hand-written model. *)
From RM Require Import C19.Model C19.Pipeline C19.Source.
Open Scope Z_scope.

Definition b2z (b : bool) : Z := if b then 1 else 0.
Definition out_flip (f : flip) : list Z :=
  [f_addr f; match f_reg f with Some r => r | None => -1 end;
   b2z (d_nc (f_det f)); b2z (d_null (f_det f)); b2z (d_low (f_det f)); d_nearby (f_det f);
   b2z (d_poison (f_det f)); confidence_bits (f_det f)].

Definition mk_op (o : Z) : memop :=
  if o =? 1 then MRead else if o =? 2 then MWrite else if o =? 3 then MExec else Undetermined.
Definition mk_br (b : Z) : gbr :=
  if b =? 0 then GBrAmd64Canononical else if b =? 1 then GBrAmd64NonCanonical else GBrAll.
Definition mk_cpu (c : Z) : cpu :=
  if c =? 0 then Cpu32 else if c =? 1 then CpuAmd64 else if c =? 2 then CpuArm64 else CpuOther64.
(* regions: kind 0 = (base,size,prot) memory info; kind 1 = (lo,hi,rwx bits) maps *)
Definition mk_regions (kind : Z) (l : list (Z * Z * Z)) : list region :=
  if kind =? 0 then regions_of_info_src l else regions_of_maps_src l.

Definition run_try (a reg br : Z) (ctx : option (Z * list Z)) (kind : Z) (regs : list (Z * Z * Z)) (op : Z)
  : list (list Z) :=
  map out_flip (try_bit_flips_src a (if reg <? 0 then None else Some reg) (mk_br br) ctx (mk_regions kind regs) (mk_op op)).

(* c: 0 x86, 1 amd64, 2 arm64, 3 another 64-bit cpu (ppc64) — runs the check REGENERATED from the source *)
Definition mk_gcpu (c : Z) : gcpu :=
  if c =? 0 then GX86 else if c =? 1 then GX86_64 else if c =? 2 then GArm64 else GPpc64.
Definition run_check (c address : Z) (adj : Z) (adjv : Z) (op : Z) (ctx : option (Z * list Z))
           (iregs : list (Z * Z)) (kind : Z) (regs : list (Z * Z * Z)) : list (list Z) :=
  map out_flip (check_src2 (mk_gcpu c) address
                  (if adj =? 1 then GAdjNonCanonical adjv else if adj =? 2 then GAdjNullPointerWithOffset adjv else GAdjNone)
                  (mk_op op) ctx iregs (mk_regions kind regs)).

(* crash address / memory operation of the synthesized exception record (Windows access
   violation carries the kind in information[0] and the address in information[1]) *)
Definition p_address (c os code nparams info0 info1 excaddr : Z) : Z :=
  g_crash_address (mk_gcpu c) (if os =? 0 then GOsWindows else GOsLinux) code nparams
                  (fun k => if k =? 0 then info0 else if k =? 1 then info1 else 0) excaddr.
Definition p_op (os code nparams info0 : Z) : Z :=
  if (os =? 0) && (code =? WIN_EXCEPTION_ACCESS_VIOLATION) && g_win_av_guard nparams
  then g_memop_of_access info0
  else 0.
Definition run_pipeline (c os code nparams info0 info1 excaddr : Z) (ctx : option (Z * list Z))
           (kind : Z) (regs : list (Z * Z * Z)) : list (list Z) :=
  run_check (if c =? 0 then 0 else if c =? 1 then 1 else 2)
            (p_address (if c =? 0 then 0 else if c =? 1 then 1 else 2) os code nparams info0 info1 excaddr) 0 0 (p_op os code nparams info0) ctx [] kind regs.

(* ---------------------------------------------------------------- Q cases: the whole path with a DECODED instruction
   arch = MINIDUMP_SYSTEM_INFO.processor_architecture; os 0 = Windows, 1 = Linux; flags = exception_flags (si_code).
   The crash address / crash reason / os classification are Pipeline.v's crash_address / reason_of / os_class
   (regenerated tables + pinned fragments of the minidump crate). *)
(* os index of the case line -> MINIDUMP_SYSTEM_INFO.platform_id (the harness uses the same table) *)
Definition q_platform_id (os : Z) : Z :=
  nth (Z.to_nat os) [2; 33281; 33025; 33282; 33283; 33026; 3] 33282.

Definition mk_operand (e : Z * Z * Z * Z) : memoperand :=
  let '(b, i, sc, d) := e in
  {| mo_base := if b <? 0 then None else Some b; mo_index := if i <? 0 then None else Some i;
     mo_scale := if sc <? 0 then None else Some sc; mo_disp := Some d |}.

Definition out_adj (a : gadj) : list Z :=
  match a with GAdjNone => [0] | GAdjNonCanonical v => [1; v] | GAdjNullPointerWithOffset o => [2; o] end.

Definition mk_implicit (k : Z) : implicit_kind := if k =? 1 then ImpPushCall else if k =? 2 then ImpPopRet else ImpNone.
(* ip: 0 no update, 1 undetermined, 2 register ipv, 3 read value ipv, 4 read failed *)
Definition mk_ip (k v : Z) : ip_kind :=
  if k =? 0 then IpkNoUpdate else if k =? 2 then IpkReg v else if k =? 3 then IpkRead (Some v)
  else if k =? 4 then IpkRead None else IpkUndetermined.
Definition out_info (ai : addr_info) : list Z := [ai_addr ai; b2z (ai_null ai)].
(* analysis as printed by the harness: accesses ([-1] = undetermined), ip update ([-1] undetermined, [0] none, [1;a;n]) *)
Definition out_analysis (oa : option op_analysis) : list (list Z) * list Z :=
  match oa with
  | None => ([[-2]], [-2])
  | Some o => (match oa_accesses o with None => [[-1]] | Some l => map out_info l end,
               match oa_ip o with None => [-1] | Some IpNoUpdate => [0] | Some (IpUpdate ai) => 1 :: out_info ai end)
  end.

(* dec: None = no analysis (no instruction bytes / unsupported cpu);
   Some (lea, memsize, implicit, ipk, ipv, operands) = decoded instruction *)
Definition run_q (arch os code flags nparams info0 info1 excaddr : Z) (ctx : option (list Z))
           (dec : option (bool * bool * Z * Z * Z * list (Z * Z * Z * Z))) (kind : Z) (regs : list (Z * Z * Z))
  : list Z * list (list Z) * (list (list Z) * list Z) :=
  let c := cpu_of_arch arch in
  let pid := q_platform_id os in
  let e := {| er_code := code; er_flags := flags; er_nparams := nparams; er_info0 := info0; er_info1 := info1; er_address := excaddr |} in
  let pc := option_map (fun vals : list Z => {| pc_size := 8; pc_regs := List.combine (map Z.of_nat (seq 0 (length vals))) vals |}) ctx in
  let analysis := fun x =>
    if gcpu_eqb c GX86_64 then
      match dec with
      | Some (lea, ms, imp, ipk, ipv, ops) =>
          analyze_dinstr_src {| di_lea := lea; di_memsize := ms; di_ops := map mk_operand ops;
                            di_implicit := mk_implicit imp; di_ip := mk_ip ipk ipv |} x
      | None => None
      end
    else None in
  (out_adj (dump_adj_src analysis arch pid e pc),
   map out_flip (dump_pipeline_src analysis arch pid e pc (mk_regions kind regs)),
   out_analysis (the_analysis analysis pc)).
