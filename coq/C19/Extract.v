From Coq Require Extraction.
From Coq Require Import ExtrOcamlBasic.
From RM Require Import C19.Driver.
Extraction "c19_model.ml" run_try run_check run_pipeline run_q.
