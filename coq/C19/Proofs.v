(* C19/Proofs.v *)
From Coq Require Import Lia.
From Flocq Require Import IEEE754.BinarySingleNaN IEEE754.Binary IEEE754.Bits Core.
From RM Require Import C08.Proofs C19.Model.
Open Scope Z_scope.

(* --------------------------------------------------------------- region lookup *)
Definition wf_regions (rs : list region) : Prop :=
  Forall (fun rg => match rg_range rg with Some r => wf_range r | None => True end) rs.

Lemma enumerate_in {A} (l : list A) : forall i a k,
  In (a, k) (enumerate_from i l) -> i <= k /\ nth_error l (Z.to_nat (k - i)) = Some a.
Proof.
  induction l as [|x t IH]; intros i a k Hin; cbn [enumerate_from] in Hin; [destruct Hin|].
  destruct Hin as [Hin|Hin].
  - inversion Hin; subst. split; [lia|]. replace (k - k) with 0 by lia. reflexivity.
  - apply IH in Hin. destruct Hin as [Hle Hn]. split; [lia|].
    replace (Z.to_nat (k - i)) with (S (Z.to_nat (k - (i + 1)))) by lia. exact Hn.
Qed.

Lemma enumerate_wf (rs : list region) i :
  wf_regions rs -> wf_entries (enumerate_from i (map rg_range rs)).
Proof.
  unfold wf_regions, wf_entries. revert i. induction rs as [|rg t IH]; intros i H; cbn [map enumerate_from]; [constructor|].
  inversion H; subst. constructor; [assumption|]. apply IH. assumption.
Qed.

Lemma lookup_region_sound rs x mi :
  wf_regions rs -> lookup_region rs x = Some mi ->
  In mi rs /\ exists r, rg_range mi = Some r /\ contains r x = true.
Proof.
  intros Hwf. unfold lookup_region, region_table.
  destruct (rm_get _ x) as [i|] eqn:Eg; [|discriminate]. intros Hn.
  apply (lookup_sound Z.eqb Z.eqb_eq) in Eg; [|apply enumerate_wf; assumption].
  destruct Eg as [r [Hin Hc]]. apply enumerate_in in Hin. destruct Hin as [_ Hnth].
  replace (i - 0) with i in Hnth by lia.
  split; [eapply nth_error_In; eassumption|].
  exists r. split; [|assumption].
  rewrite nth_error_map in Hnth. rewrite Hn in Hnth. cbn in Hnth. inversion Hnth. reflexivity.
Qed.

(* --------------------------------------------------------------- the flip loop *)
Definition flip_ok (a : Z) (reg : option Z) (rs : list region) (op : memop) (lo hi : Z) (f : flip) : Prop :=
  (exists j, lo <= j < hi /\ f_addr f = Z.lxor a (2 ^ j)) /\
  (f_addr f = 0 \/ exists mi, lookup_region rs (f_addr f) = Some mi /\ possibly_allowed op mi = true) /\
  f_reg f = reg.

Lemma flips_loop_ok n : forall i a reg br ctx rs op f,
  In f (flips_loop n i a reg br ctx rs op) -> flip_ok a reg rs op i (i + Z.of_nat n) f.
Proof.
  induction n as [|n IH]; intros i a reg br ctx rs op f Hin; cbn [flips_loop] in Hin; [destruct Hin|].
  apply in_app_or in Hin. destruct Hin as [Hin|Hin].
  - destruct (Z.lxor a (2 ^ i) =? 0) eqn:E0; [|destruct Hin].
    destruct Hin as [<-|[]]. unfold flip_ok, mk_flip; cbn [f_addr f_reg]. repeat split.
    + exists i. split; [lia|reflexivity].
    + left. lia.
  - apply in_app_or in Hin. destruct Hin as [Hin|Hin].
    + destruct (lookup_region rs (Z.lxor a (2 ^ i))) as [mi|] eqn:El; [|destruct Hin].
      destruct (possibly_allowed op mi) eqn:Ea; [|destruct Hin].
      destruct Hin as [<-|[]]. unfold flip_ok, mk_flip; cbn [f_addr f_reg]. repeat split.
      * exists i. split; [lia|reflexivity].
      * right. exists mi. split; assumption.
    + apply IH in Hin. destruct Hin as [[j [Hj Hf]] [Hm Hr]]. repeat split; try assumption.
      exists j. split; [lia|assumption].
Qed.

Definition br_lo b := fst (br_bounds b).
Definition br_hi b := snd (br_bounds b).

Lemma try_bit_flips_ok a reg br ctx rs op f :
  In f (try_bit_flips a reg br ctx rs op) -> flip_ok a reg rs op (br_lo br) (br_hi br) f.
Proof.
  unfold try_bit_flips, br_lo, br_hi.
  destruct (match lookup_region rs a with Some mi => possibly_allowed op mi | None => false end); [intros []|].
  destruct (br_bounds br) as [lo hi] eqn:Eb. cbn [fst snd]. intros Hin.
  apply flips_loop_ok in Hin.
  assert (Hle : lo <= hi) by (destruct br; cbn in Eb; inversion Eb; lia).
  replace (lo + Z.of_nat (Z.to_nat (hi - lo))) with hi in Hin by lia. exact Hin.
Qed.

Lemma br_bounds_in_64 br : 0 <= br_lo br /\ br_lo br <= br_hi br /\ br_hi br <= 64.
Proof. destruct br; cbn; lia. Qed.

Lemma none_when_accessible a reg br ctx rs op mi :
  lookup_region rs a = Some mi -> possibly_allowed op mi = true ->
  try_bit_flips a reg br ctx rs op = [].
Proof. intros Hl Ha. unfold try_bit_flips. rewrite Hl, Ha. reflexivity. Qed.

(* xor with a power of two changes exactly that bit *)
Lemma lxor_pow2_bit a j k : 0 <= j -> 0 <= k ->
  Z.testbit (Z.lxor a (2 ^ j)) k = xorb (Z.testbit a k) (j =? k).
Proof.
  intros Hj Hk. rewrite Z.lxor_spec. f_equal. rewrite Z.pow2_bits_eqb by assumption. reflexivity.
Qed.

Lemma lxor_pow2_u64 a j : 0 <= a < two64 -> 0 <= j < 64 -> 0 <= Z.lxor a (2 ^ j) < two64.
Proof.
  intros Ha Hj. assert (H0 : 0 <= Z.lxor a (2 ^ j)).
  { apply Z.lxor_nonneg. split; intros; [apply Z.pow_nonneg; lia|lia]. }
  split; [assumption|]. rewrite two64_val.
  destruct (Z.eq_dec (Z.lxor a (2 ^ j)) 0) as [->|Hne]; [lia|].
  apply Z.log2_lt_pow2; [lia|].
  destruct (Z_lt_ge_dec (Z.log2 (Z.lxor a (2 ^ j))) 64) as [Hlt|Hge]; [assumption|exfalso].
  assert (Hb : Z.testbit (Z.lxor a (2 ^ j)) (Z.log2 (Z.lxor a (2 ^ j))) = true) by (apply Z.bit_log2; lia).
  rewrite lxor_pow2_bit in Hb by lia.
  assert (Hj' : (j =? Z.log2 (Z.lxor a (2 ^ j))) = false) by lia. rewrite Hj', xorb_false_r in Hb.
  destruct (Z.eq_dec a 0) as [->|Ha0]; [rewrite Z.bits_0 in Hb; discriminate|].
  assert (Z.log2 a < 64) by (apply Z.log2_lt_pow2; [lia|rewrite <- two64_val; lia]).
  rewrite Z.bits_above_log2 in Hb; [discriminate|lia|lia].
Qed.

(* --------------------------------------------------------------- gating *)
Definition expected_br (c : cpu) (adj : adjusted) : bitrange :=
  match adj with
  | AdjNonCanonical _ => Amd64NonCanonical
  | _ => match c with CpuAmd64 => Amd64Canonical | _ => AllBits end
  end.

(* which value a reported flip was derived from *)
Definition examined (c : cpu) (address : Z) (adj : adjusted) (ctx : option context)
           (iregs : list (Z * Z)) (f : flip) (a : Z) : Prop :=
  (c = CpuAmd64 \/ c = CpuOther64) /\ adj <> AdjNullOffset /\
  ((f_reg f = None /\ a = match adj with AdjNonCanonical v => v | _ => address end) \/
   (exists rid, f_reg f = Some rid /\ In (rid, a) iregs /\ ctx <> None)).

Lemma check_ok c address adj op ctx iregs rs f :
  In f (check_for_bitflips c address adj op ctx iregs rs) ->
  exists a, examined c address adj ctx iregs f a /\
            flip_ok a (f_reg f) rs op (br_lo (expected_br c adj)) (br_hi (expected_br c adj)) f.
Proof.
  unfold check_for_bitflips, examined.
  assert (Hgen : forall a br, (br = expected_br c adj) ->
     (a = match adj with AdjNonCanonical v => v | _ => address end) ->
     (c = CpuAmd64 \/ c = CpuOther64) -> adj <> AdjNullOffset ->
     In f (try_bit_flips a None br ctx rs op ++
           match ctx with None => [] | Some _ => flat_map (fun rv => try_bit_flips (snd rv) (Some (fst rv)) br ctx rs op) iregs end) ->
     exists a0, ((c = CpuAmd64 \/ c = CpuOther64) /\ adj <> AdjNullOffset /\
       ((f_reg f = None /\ a0 = match adj with AdjNonCanonical v => v | _ => address end) \/
        (exists rid, f_reg f = Some rid /\ In (rid, a0) iregs /\ ctx <> None))) /\
       flip_ok a0 (f_reg f) rs op (br_lo (expected_br c adj)) (br_hi (expected_br c adj)) f).
  { intros a br Hbr Ha Hc Hadj Hin. apply in_app_or in Hin. destruct Hin as [Hin|Hin].
    - apply try_bit_flips_ok in Hin. pose proof Hin as [_ [_ Hr]]. exists a. rewrite Hr. subst br.
      split; [|assumption]. repeat split; try assumption. left. split; [reflexivity|assumption].
    - destruct ctx as [cx|]; [|destruct Hin]. apply in_flat_map in Hin. destruct Hin as [[rid v] [Hiv Hin]].
      cbn [fst snd] in Hin. apply try_bit_flips_ok in Hin. pose proof Hin as [_ [_ Hr]]. exists v. rewrite Hr. subst br.
      split; [|assumption]. repeat split; try assumption. right. exists rid. repeat split; [assumption|discriminate]. }
  destruct c; try (intros []).
  - destruct adj as [|v|]; try (intros []); intros Hin;
      (eapply Hgen; [reflexivity|reflexivity|left; reflexivity|discriminate|exact Hin]).
  - destruct adj as [|v|]; try (intros []); intros Hin;
      (eapply Hgen; [reflexivity|reflexivity|right; reflexivity|discriminate|exact Hin]).
Qed.

Lemma gating_none c address adj op ctx iregs rs :
  c = Cpu32 \/ c = CpuArm64 \/ adj = AdjNullOffset ->
  check_for_bitflips c address adj op ctx iregs rs = [].
Proof. intros [ -> | [ -> | -> ] ]; [reflexivity|reflexivity|]. destruct c; reflexivity. Qed.

Lemma gating_accessible c address op ctx iregs rs mi :
  (forall rid v, In (rid, v) iregs -> exists m, lookup_region rs v = Some m /\ possibly_allowed op m = true) ->
  lookup_region rs address = Some mi -> possibly_allowed op mi = true ->
  check_for_bitflips c address AdjNone op ctx iregs rs = [].
Proof.
  intros Hregs Hl Ha. unfold check_for_bitflips.
  assert (Hflat : forall br, flat_map (fun rv => try_bit_flips (snd rv) (Some (fst rv)) br ctx rs op) iregs = []).
  { intros br. induction iregs as [|[rid v] t IH]; [reflexivity|]. cbn [flat_map fst snd].
    destruct (Hregs rid v (or_introl eq_refl)) as [m [Hm1 Hm2]].
    rewrite (none_when_accessible _ _ _ _ _ _ m Hm1 Hm2). cbn [app]. apply IH.
    intros rid' v' Hin. apply (Hregs rid' v'). right. exact Hin. }
  destruct c; try reflexivity; rewrite (none_when_accessible _ _ _ _ _ _ mi Hl Ha), Hflat; destruct ctx; reflexivity.
Qed.

(* --------------------------------------------------------------- confidence *)
Definition f_zero : binary32 := f32 0.
Definition le_b32 (x y : binary32) : bool :=
  match b32_compare x y with Some Lt | Some Eq => true | _ => false end.
Definition conf_ok (d : details) : bool := le_b32 f_zero (confidence d) && le_b32 (confidence d) f_one.

Definition clamp (d : details) : details :=
  {| d_nc := d_nc d; d_null := d_null d; d_low := d_low d;
     d_nearby := Z.max 0 (Z.min (d_nearby d) 4); d_poison := d_poison d |}.

Lemma nearby_len : Z.of_nat (length NEARBY_REGISTER_c) = 4.
Proof. vm_compute. reflexivity. Qed.

Lemma flag_clamp d f : flag_of (clamp d) f = flag_of d f.
Proof. destruct f; reflexivity. Qed.

Lemma eval_step_clamp d s : eval_step (clamp d) s = eval_step d s.
Proof.
  destruct s; cbn [eval_step]; rewrite ?flag_clamp; try reflexivity.
  unfold clamp. cbn [d_nearby]. rewrite nearby_len. unfold NEARBY_GUARD, NEARBY_INDEX.
  destruct (d_nearby d >? 0) eqn:E1.
  - assert (E2 : (Z.max 0 (Z.min (d_nearby d) 4) >? 0) = true) by lia. rewrite E2.
    replace (Z.min (Z.max 0 (Z.min (d_nearby d) 4)) 4) with (Z.min (d_nearby d) 4) by lia. reflexivity.
  - assert (E2 : (Z.max 0 (Z.min (d_nearby d) 4) >? 0) = false) by lia. rewrite E2. reflexivity.
Qed.

Lemma post_clamp d l : forall r,
  fold_left (fun ret fc => if flag_of (clamp d) (fst fc) then b32_mult mode_NE ret (f32c (snd fc)) else ret) l r =
  fold_left (fun ret fc => if flag_of d (fst fc) then b32_mult mode_NE ret (f32c (snd fc)) else ret) l r.
Proof. induction l as [|x t IH]; intros r; cbn [fold_left]; [reflexivity|]. rewrite flag_clamp. apply IH. Qed.

Lemma confidence_clamp d : confidence d = confidence (clamp d).
Proof.
  unfold confidence. rewrite post_clamp. f_equal. f_equal.
  apply flat_map_ext. intros s. symmetry. apply eval_step_clamp.
Qed.

Definition bools := [true; false].
Definition all_classes : list details :=
  flat_map (fun nc => flat_map (fun nu => flat_map (fun lo => flat_map (fun nb => map (fun po =>
    {| d_nc := nc; d_null := nu; d_low := lo; d_nearby := nb; d_poison := po |}) bools)
    [0; 1; 2; 3; 4]) bools) bools) bools.

Lemma all_classes_ok : forallb conf_ok all_classes = true.
Proof. vm_compute. reflexivity. Qed.

Lemma clamp_in d : In (clamp d) all_classes.
Proof.
  unfold clamp. destruct d as [nc nu lo nb po]. cbn [d_nc d_null d_low d_nearby d_poison].
  assert (Hn : Z.max 0 (Z.min nb 4) = 0 \/ Z.max 0 (Z.min nb 4) = 1 \/ Z.max 0 (Z.min nb 4) = 2 \/
               Z.max 0 (Z.min nb 4) = 3 \/ Z.max 0 (Z.min nb 4) = 4) by lia.
  destruct nc, nu, lo, po; destruct Hn as [ -> | [ -> | [ -> | [ -> | -> ] ] ] ]; vm_compute; tauto.
Qed.

Lemma confidence_01 d : conf_ok d = true.
Proof.
  unfold conf_ok. rewrite confidence_clamp.
  pose proof all_classes_ok as H. rewrite forallb_forall in H. apply (H (clamp d)). apply clamp_in.
Qed.

(* the NEARBY_REGISTER[nearby] index (guard and index expression regenerated from the source) is always
   in bounds: no usize underflow, no index panic *)
Lemma confidence_index_ok n : NEARBY_GUARD n = true ->
  0 <= NEARBY_INDEX (Z.of_nat (length NEARBY_REGISTER_c)) n < Z.of_nat (length NEARBY_REGISTER_c) /\
  nth_index NEARBY_REGISTER_c (NEARBY_INDEX (Z.of_nat (length NEARBY_REGISTER_c)) n) <> None.
Proof.
  unfold NEARBY_GUARD, NEARBY_INDEX, nth_index. intros Hn. rewrite nearby_len.
  assert (Hr : 0 <= Z.min n 4 - 1 < 4) by lia. split; [exact Hr|].
  destruct (Z.min n 4 - 1 <? 0) eqn:E; [lia|]. apply nth_error_Some.
  assert (Hl : length NEARBY_REGISTER_c = 4%nat) by (vm_compute; reflexivity). rewrite Hl. lia.
Qed.

(* --------------------------------------------------------------- statements used by Properties.v *)
Lemma one_bit_in_range : forall a reg br ctx rs op f,
  In f (try_bit_flips a reg br ctx rs op) ->
  exists j, br_lo br <= j < br_hi br /\ 0 <= br_lo br /\ br_hi br <= 64 /\
            f_addr f = Z.lxor a (2 ^ j) /\
            (forall k, 0 <= k -> Z.testbit (f_addr f) k = xorb (Z.testbit a k) (j =? k)).
Proof.
  intros a reg br ctx rs op f Hin. apply try_bit_flips_ok in Hin.
  destruct Hin as [[j [Hj Hf]] _]. pose proof (br_bounds_in_64 br) as Hb.
  exists j. repeat split; try lia; try assumption.
  intros k Hk. rewrite Hf. apply lxor_pow2_bit; lia.
Qed.

Lemma flip_is_u64 : forall a reg br ctx rs op f,
  0 <= a < two64 -> In f (try_bit_flips a reg br ctx rs op) -> 0 <= f_addr f < two64.
Proof.
  intros a reg br ctx rs op f Ha Hin. apply try_bit_flips_ok in Hin.
  destruct Hin as [[j [Hj Hf]] _]. pose proof (br_bounds_in_64 br) as Hb.
  rewrite Hf. apply lxor_pow2_u64; [assumption|lia].
Qed.

Lemma null_or_mapped_allowed : forall a reg br ctx rs op f,
  wf_regions rs -> In f (try_bit_flips a reg br ctx rs op) ->
  f_addr f = 0 \/
  exists mi r, In mi rs /\ rg_range mi = Some r /\ contains r (f_addr f) = true /\ possibly_allowed op mi = true.
Proof.
  intros a reg br ctx rs op f Hwf Hin. apply try_bit_flips_ok in Hin.
  destruct Hin as [_ [[H0|[mi [Hl Ha]]] _]]; [left; assumption|right].
  destruct (lookup_region_sound rs _ mi Hwf Hl) as [Hin [r [Hr Hc]]].
  exists mi, r. repeat split; assumption.
Qed.

Lemma confidence_01_split : forall d : details,
  le_b32 (f32 0) (confidence d) = true /\ le_b32 (confidence d) (f32 F32_ONE_bits) = true.
Proof. intros d. pose proof (confidence_01 d) as H. unfold conf_ok in H. apply andb_prop in H. exact H. Qed.

Lemma platform_ranges : BR_ALL = (0, 64) /\ BR_CANONICAL = (0, 48) /\ BR_NONCANONICAL = (48, 64).
Proof. repeat split; reflexivity. Qed.
