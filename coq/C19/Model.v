(* C19/Model.v — executable model of bit-flip detection.
   Mirrors minidump-processor/src/processor.rs: check_for_bitflips (718-784),
   mod bitflip (BitRange, try_bit_flips, 1464-1534), MemoryOperation::is_possibly_allowed_for
   (1441), and process_state.rs: PossibleBitFlip::calculate_heuristics, BitFlipDetails::confidence
   (305-423).  Constants come from the generated RM.Gen.BitflipConsts.  binary32 arithmetic
   is Flocq's. Definitions only. *)
From Flocq Require Import IEEE754.BinarySingleNaN IEEE754.Binary IEEE754.Bits Core.
From RM Require Export Base.Word C08.Model Gen.BitflipConsts Gen.C19Check.
Open Scope Z_scope.

(* ---------------------------------------------------------------- memory map *)
Record region := { rg_range : option range; rg_r : bool; rg_w : bool; rg_x : bool }.

(* MinidumpMemoryInfo::is_readable/is_writable/is_executable on the protection bits *)
Definition prot_r (p : Z) : bool := negb (Z.land p 102 =? 0).   (* 0x02|0x04|0x20|0x40 *)
Definition prot_w (p : Z) : bool := negb (Z.land p 204 =? 0).   (* 0x04|0x08|0x40|0x80 *)
Definition prot_x (p : Z) : bool := negb (Z.land p 240 =? 0).   (* 0x10|0x20|0x40|0x80 *)
Definition region_of_info (base size prot : Z) : region :=
  {| rg_range := mk_range base size; rg_r := prot_r prot; rg_w := prot_w prot; rg_x := prot_x prot |}.
Definition region_of_map (lo hi : Z) (r w x : bool) : region :=
  {| rg_range := mk_range_maps lo hi; rg_r := r; rg_w := w; rg_x := x |}.

Inductive memop := Undetermined | MRead | MWrite | MExec.
Definition possibly_allowed (op : memop) (rg : region) : bool :=
  match op with Undetermined => true | MRead => rg_r rg | MWrite => rg_w rg | MExec => rg_x rg end.

(* regions_by_addr: the C08 index-valued builder (c08_build_total: never panics) *)
Definition region_table (rs : list region) : list (range * Z) :=
  into_rangemap_safe Z.eqb (enumerate_from 0 (map rg_range rs)).
Definition lookup_region (rs : list region) (x : Z) : option region :=
  match rm_get (region_table rs) x with
  | Some i => nth_error rs (Z.to_nat i)
  | None => None
  end.

(* ---------------------------------------------------------------- heuristics *)
Record details := { d_nc : bool; d_null : bool; d_low : bool; d_nearby : Z; d_poison : bool }.

Definition is_repeated (regsize addr : Z) : bool :=
  if regsize =? 2 then addr =? (Z.land addr 255) * REPEAT_MUL_2
  else if regsize =? 4 then addr =? (Z.land addr 255) * REPEAT_MUL_4
  else if regsize =? 8 then addr =? (Z.land addr 255) * REPEAT_MUL_8
  else false.
Definition is_poison_byte (b : Z) : bool := existsb (Z.eqb b) POISON_BYTES.
Definition abs_diff (a b : Z) : Z := Z.abs (a - b).

(* context = (register size in bytes, values of the valid general-purpose registers) *)
Definition context := (Z * list Z)%type.

Definition heuristics (new orig : Z) (nc : bool) (ctx : option context) : details :=
  let is_null := new =? 0 in
  let was_low := is_null && (orig <=? LOW_ADDRESS_CUTOFF) in
  match ctx with
  | None => {| d_nc := nc; d_null := is_null; d_low := was_low; d_nearby := 0; d_poison := false |}
  | Some (rs, regs) =>
      let calc := new >? LOW_ADDRESS_CUTOFF in
      let nearby := if calc then Z.of_nat (length (filter (fun a => abs_diff new a <=? NEARBY_REGISTER_DISTANCE) regs)) else 0 in
      let poison := existsb (fun a => is_repeated rs a && is_poison_byte (Z.land a 255)) regs in
      {| d_nc := nc; d_null := is_null; d_low := was_low; d_nearby := nearby; d_poison := poison |}
  end.

(* ---------------------------------------------------------------- confidence (binary32) *)
Definition f32 (bits : Z) : binary32 := b32_of_bits bits.
Definition f32c (c : Z * option Z) : binary32 :=
  match c with (b, None) => f32 b | (b, Some a) => b32_plus mode_NE (f32 b) (f32 a) end.
Definition f_one : binary32 := f32 F32_ONE_bits.
Definition combine (vs : list binary32) : binary32 :=
  b32_minus mode_NE f_one
    (fold_left (fun acc v => b32_mult mode_NE acc (b32_minus mode_NE f_one v)) vs f_one).

(* NEARBY_REGISTER[nearby]: the guard and the index expression are regenerated from confidence()
   (RM.Gen.C19Check.NEARBY_GUARD / NEARBY_INDEX); usize arithmetic — a negative value is an overflow
   panic (debug) or wraps to an out-of-range index (release), both modelled as None *)
Definition nth_index {A} (l : list A) (i : Z) : option A :=
  if i <? 0 then None else nth_error l (Z.to_nat i).

(* confidence(): the statement list is REGENERATED from the source (Gen.C19Check.CONF_STEPS / CONF_POST) and interpreted here *)
Definition flag_of (d : details) (f : cflag) : bool :=
  match f with FNonCanonical => d_nc d | FNull => d_null d | FLow => d_low d | FPoison => d_poison d end.
Definition eval_step (d : details) (s : cstep) : list binary32 :=
  match s with
  | CPush c => [f32c c]
  | CIfPush f c => if flag_of d f then [f32c c] else []
  | CIfMulPush f1 c1 f2 c2 =>
      if flag_of d f1 then [if flag_of d f2 then b32_mult mode_NE (f32c c1) (f32c c2) else f32c c1] else []
  | CNearby =>
      if NEARBY_GUARD (d_nearby d)
      then match nth_index NEARBY_REGISTER_c
                   (NEARBY_INDEX (Z.of_nat (length NEARBY_REGISTER_c)) (d_nearby d)) with
           | Some c => [f32c c]
           | None => []      (* index / usize-underflow panic; unreachable, see c19_confidence_index_ok *)
           end
      else []
  end.
Definition confidence (d : details) : binary32 :=
  fold_left (fun ret fc => if flag_of d (fst fc) then b32_mult mode_NE ret (f32c (snd fc)) else ret) CONF_POST
            (combine (flat_map (eval_step d) CONF_STEPS)).
Definition confidence_bits (d : details) : Z := bits_of_b32 (confidence d).

(* ---------------------------------------------------------------- try_bit_flips *)
Inductive bitrange := Amd64Canonical | Amd64NonCanonical | AllBits.
Definition br_bounds (b : bitrange) : Z * Z :=
  match b with AllBits => BR_ALL | Amd64Canonical => BR_CANONICAL | Amd64NonCanonical => BR_NONCANONICAL end.

Record flip := { f_addr : Z; f_reg : option Z; f_det : details }.

Definition mk_flip (orig new : Z) (reg : option Z) (br : bitrange) (ctx : option context) : flip :=
  {| f_addr := new; f_reg := reg;
     f_det := heuristics new orig (match br with Amd64NonCanonical => true | _ => false end) ctx |}.

(* for i in lo..hi, [n] = hi - i iterations left *)
Fixpoint flips_loop (n : nat) (i : Z) (a : Z) (reg : option Z) (br : bitrange) (ctx : option context)
         (rs : list region) (op : memop) : list flip :=
  match n with
  | O => []
  | S n' =>
      let pa := Z.lxor a (2 ^ i) in
      let l1 := if pa =? 0 then [mk_flip a pa reg br ctx] else [] in
      let l2 := match lookup_region rs pa with
                | Some mi => if possibly_allowed op mi then [mk_flip a pa reg br ctx] else []
                | None => []
                end in
      l1 ++ l2 ++ flips_loop n' (i + 1) a reg br ctx rs op
  end.

Definition try_bit_flips (a : Z) (reg : option Z) (br : bitrange) (ctx : option context)
           (rs : list region) (op : memop) : list flip :=
  let early := match lookup_region rs a with
               | Some mi => possibly_allowed op mi
               | None => false
               end in
  if early then []
  else let '(lo, hi) := br_bounds br in flips_loop (Z.to_nat (hi - lo)) lo a reg br ctx rs op.

(* ---------------------------------------------------------------- check_for_bitflips *)
Inductive cpu := Cpu32 | CpuAmd64 | CpuArm64 | CpuOther64.
Inductive adjusted := AdjNone | AdjNonCanonical (v : Z) | AdjNullOffset.

(* [iregs] = (register id, value) of the crashing instruction's registers that the
   exception context can read, in BTreeSet order *)
Definition check_for_bitflips (c : cpu) (address : Z) (adj : adjusted) (op : memop)
           (ctx : option context) (iregs : list (Z * Z)) (rs : list region) : list flip :=
  match c with
  | Cpu32 => []
  | CpuArm64 => []
  | _ =>
      let sel := match adj with
                 | AdjNonCanonical v => Some (v, Amd64NonCanonical)
                 | AdjNullOffset => None
                 | AdjNone => Some (address, match c with CpuAmd64 => Amd64Canonical | _ => AllBits end)
                 end in
      match sel with
      | None => []
      | Some (a, br) =>
          try_bit_flips a None br ctx rs op ++
          match ctx with
          | None => []
          | Some _ => flat_map (fun rv => try_bit_flips (snd rv) (Some (fst rv)) br ctx rs op) iregs
          end
      end
  end.
