(* C17/PathModel.v — std::path::Path on unix at the level std itself compares paths: the list of components.
   Path::components() splits on '/', drops empty parts and `.` parts (an initial `.` of a RELATIVE path is kept as
   CurDir by std; the paths looked at here are joined onto an absolute root, where it is interior and dropped);
   `..` is kept (ParentDir).  Path::parent() = "the path without its final component" (None for the root / an empty
   path); Path::starts_with / strip_prefix compare component lists.  '\\' is an ordinary byte on unix.
   Definitions only. *)
From RM Require Export C17.Model.
Open Scope Z_scope.

Definition real_component (c : str) : bool :=
  negb (match c with [] => true | _ => false end) && negb (str_eqb c [46]).
(* the Normal / ParentDir components after the root *)
Definition posix_comps (s : str) : list str := filter real_component (split_on 47 s).
Definition path_parent (comps : list str) : option (list str) :=
  match comps with [] => None | _ => Some (removelast comps) end.
Fixpoint comps_prefix (a b : list str) : bool :=
  match a, b with
  | [], _ => true
  | x :: a', y :: b' => str_eqb x y && comps_prefix a' b'
  | _ :: _, [] => false
  end.

(* Windows: components are separated by either separator.  The root's prefix (drive, UNC, verbatim) is not interpreted:
   whatever the root's own first components are stays in front.  Model-only (std's Windows rules cannot be executed here). *)
Definition win_comps (s : str) : list str := filter real_component (split_seps s).
