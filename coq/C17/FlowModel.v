(* C17/FlowModel.v — vocabulary and meaning of Gen/C17Flow.v (translate/c17_flow.py): what each consumer
   join site of lib.rs / http.rs joins onto which root, as a provenance term derived from the source.
   Definitions only; proofs in C17/FlowProofs.v. *)
From Coq Require Import String.
From RM Require Export C17.Prims.
From RM Require Import Gen.C17Lookup.

(* where a FileLookup value came from *)
Inductive g_builder := BLookup | BBreakpadSym | BBinary | BExtraDebuginfo.
Inductive g_prov :=
| GBuilt (b : g_builder)            (* lookup(module, kind) / breakpad_sym_lookup(m) / binary_lookup(m) / extra_debuginfo_lookup(m) *)
| GMoz (p : g_prov)                 (* moz_lookup(<p>.clone()) *)
| GUnknownLookup.                   (* anything else; the site's s_why says what *)
(* the joined string *)
Inductive g_arg :=
| ACacheRel (p : g_prov) | AServerRel (p : g_prov)
| ACodeInfoPath                     (* code_info_breakpad_sym_lookup(m)? *)
| AUnknown.
(* the root it is joined onto *)
Inductive g_root := RSymbolDir | RCacheDir | RTmpDir | RServerUrl | RUnknown.
Record g_site := { s_file : string; s_fn : string; s_text : string; s_root : g_root; s_arg : g_arg; s_why : string }.

Definition eval_builder (b : g_builder) (m : module_view) (k : kind) : option file_lookup :=
  match b with
  | BLookup => g_lookup m k
  | BBreakpadSym => g_breakpad_sym_lookup m
  | BBinary => g_binary_lookup m
  | BExtraDebuginfo => g_extra_debuginfo_lookup m
  end.
(* [None]: no lookup (the consumer does not reach the join) — or a panic in moz_lookup, or unknown provenance *)
Fixpoint eval_prov (p : g_prov) (m : module_view) (k : kind) : option file_lookup :=
  match p with
  | GBuilt b => eval_builder b m k
  | GMoz q => match eval_prov q m k with
              | Some l => match g_moz_lookup l with Ret l' => Some l' | _ => None end
              | None => None
              end
  | GUnknownLookup => None
  end.
Definition eval_arg (a : g_arg) (m : module_view) (k : kind) : option str :=
  match a with
  | ACacheRel p => option_map cache_rel (eval_prov p m k)
  | AServerRel p => option_map server_rel (eval_prov p m k)
  | ACodeInfoPath => g_code_info_breakpad_sym_lookup m
  | AUnknown => None
  end.

Fixpoint known_prov (p : g_prov) : bool :=
  match p with GBuilt _ => true | GMoz q => known_prov q | GUnknownLookup => false end.
Definition known_arg (a : g_arg) : bool :=
  match a with ACacheRel p | AServerRel p => known_prov p | ACodeInfoPath => true | AUnknown => false end.
Definition known_root (r : g_root) : bool := match r with RUnknown => false | _ => true end.
Definition known_site (s : g_site) : bool := known_root (s_root s) && known_arg (s_arg s).
(* the sites the obligation complains about (printed by Coq when it is not []) *)
Definition unknown_sites (l : list g_site) : list g_site := filter (fun s => negb (known_site s)) l.

(* ---- file system sinks: every call that opens / creates / removes / renames / probes a path ------------- *)
Inductive g_path :=
| PRoot (r : g_root)                  (* a root itself (a symbol directory, self.cache, self.tmp) *)
| PJoined (r : g_root) (a : g_arg)    (* the result of `<root>.join(<arg>)` *)
| PUnknownPath.
(* [k_paths]: the alternatives the path can come from (one per call site / returned value);
   [k_parents]: how many `.parent()` are applied to it before the call *)
Record g_sink := { k_file : string; k_fn : string; k_text : string; k_parents : nat; k_paths : list g_path; k_why : string }.
Definition known_path (p : g_path) : bool :=
  match p with PRoot r => known_root r | PJoined r a => known_root r && known_arg a | PUnknownPath => false end.
Definition known_sink (k : g_sink) : bool :=
  forallb known_path (k_paths k) && negb (match k_paths k with [] => true | _ => false end) && Nat.leb (k_parents k) 1.
Definition unknown_sinks (l : list g_sink) : list g_sink := filter (fun k => negb (known_sink k)) l.

(* ---- the callee census (round 5, second pass) -------------------------------------------------------------- *)
(* an in-place edit (.push / .pop / .set_file_name / .set_extension / .with_file_name / .with_extension / .extend / .clear ...)
   outside the compiled builders, with the kind of value it is applied to *)
Inductive g_edit_kind :=
| EkString        (* a String (a char is pushed, or the receiver is bound by String::new / format! / a String parameter) *)
| EkVec           (* a Vec / map that holds no paths *)
| EkRootAdded     (* the constructor pushes one of its own root arguments onto its list of roots *)
| EkPath          (* a Path / PathBuf: the path is changed after it was built *)
| EkUnknown.
Record g_edit := { e_file : string; e_fn : string; e_text : string; e_kind : g_edit_kind }.
Definition harmless_edit (e : g_edit) : bool :=
  match e_kind e with EkString | EkVec | EkRootAdded => true | EkPath | EkUnknown => false end.
Definition path_edits (l : list g_edit) : list g_edit := filter (fun e => negb (harmless_edit e)) l.
(* a call that reaches the file system (file, fn, text) is one of the sinks whose path provenance was derived *)
Definition sink_key (k : g_sink) : string * string * string := (k_file k, k_fn k, k_text k).
Definition key_eqb (a b : string * string * string) : bool :=
  String.eqb (fst (fst a)) (fst (fst b)) && String.eqb (snd (fst a)) (snd (fst b)) && String.eqb (snd a) (snd b).
Definition uncovered_sink_calls (calls : list (string * string * string)) (sinks : list g_sink) : list (string * string * string) :=
  filter (fun c => negb (existsb (fun k => key_eqb c (sink_key k)) sinks)) calls.

(* what HttpSymbolSupplier::new does to each server URL before Url::parse (Gen/C17Flow.v g_server_url_norm) *)
Inductive g_url_norm :=
| UnAppendSlash        (* `if !u.ends_with('/') { u.push('/'); }` then `Url::parse(&u).ok()` — C17/UrlFull.v normalise_suffix *)
| UnUnknown.           (* anything else; g_server_url_norm_text says what *)

(* how the code-info redirect's Location becomes (debug file, debug id) (Gen/C17Flow.v g_redirect_parse) *)
Inductive g_redirect_parse_kind :=
| RpStripSlashRsplitNth1Next   (* strip one leading '/', rsplit('/'), nth(1) = id, next() = file — C17/UrlFull.v parse_location *)
| RpUnknown.

(* fn names as bytes (Gen/C17Flow.v g_flow_table is the string-free copy of g_consumer_joins the driver uses) *)
Definition bytes_of_string (s : string) : list Z :=
  map (fun a => Z.of_N (Ascii.N_of_ascii a)) (list_ascii_of_string s).
Definition flow_row (s : g_site) : list Z * g_root * g_arg := (bytes_of_string (s_fn s), s_root s, s_arg s).
