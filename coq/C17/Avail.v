(* C17/Avail.v — the functional side of the builders: which names are answered, and with which layout.
   The property (C17) is a safety statement; these lemmas pin what a repair must not lose: every module whose
   names have ordinary leaves is answered with the symbol-server layout <debug leaf>/<ID>/<file>, and a lookup is
   declined exactly when a leaf it needs is empty, `..` or drive-prefixed. *)
From RM Require Import C17.Model C17.Proofs C17.UrlModel C17.UrlProofs C17.Prims Gen.C17Lookup C17.Tie.
Open Scope Z_scope.

(* a leaf the builders accept: not empty, not "..", no drive prefix *)
Definition ordinary_leaf (name : str) : Prop :=
  leafname name <> [] /\ leafname name <> dotdot /\ has_drive_prefix (leafname name) = false.

Lemma safe_leafname_ordinary : forall p, ordinary_leaf p -> safe_leafname p = Some (leafname p).
Proof.
  intros p [H1 [H2 H3]]. unfold safe_leafname. destruct (leafname p) as [|a r] eqn:E; [contradiction|].
  rewrite H3. destruct (str_eqb (a :: r) dotdot) eqn:D; [|reflexivity].
  apply str_eqb_spec in D. contradiction.
Qed.
Lemma safe_leafname_declines : forall p, ~ ordinary_leaf p -> safe_leafname p = None.
Proof.
  intros p H. unfold safe_leafname. destruct (leafname p) as [|a r] eqn:E; [reflexivity|].
  destruct (str_eqb (a :: r) dotdot) eqn:D; [reflexivity|]. destruct (has_drive_prefix (a :: r)) eqn:P; [reflexivity|].
  exfalso. apply H. unfold ordinary_leaf. rewrite E. split; [discriminate|]. split; [|exact P].
  intro X. apply str_eqb_false in D. contradiction.
Qed.

(* the symbol-server layout the generated builders produce for every module with ordinary names *)
Lemma src_available : forall m df id, m_debug_file m = Some df -> m_debug_identifier m = Some id -> ordinary_leaf df ->
  g_lookup m KBreakpadSym =
    Some (let rel := rel3 (leafname df) id (replace_or_add_extension (leafname df) s_pdb s_sym) in
          {| cache_rel := rel; server_rel := rel |}) /\
  g_lookup m KExtraDebugInfo =
    Some (let rel := rel3 (leafname df) id (leafname df) in {| cache_rel := rel; server_rel := rel |}) /\
  (forall cid, m_code_identifier m = Some cid -> ordinary_leaf (m_code_file m) ->
     g_lookup m KBinary = Some {| cache_rel := rel3 (leafname df) id (leafname (m_code_file m));
                                  server_rel := rel3 (leafname (m_code_file m)) cid (leafname (m_code_file m)) |} /\
     g_code_info_breakpad_sym_lookup m =
       Some (rel3 (leafname (m_code_file m)) (map upper cid) (replace_or_add_extension (leafname (m_code_file m)) s_dll s_sym))).
Proof.
  intros m df id Hdf Hid O. rewrite !g_lookup_eq, Hdf, Hid. cbn [lookup lookup_gen].
  unfold breakpad_sym_lookup_gen, extra_debuginfo_lookup_gen, binary_lookup_gen, pick_leaf.
  rewrite (safe_leafname_ordinary df O). split; [reflexivity|]. split; [reflexivity|].
  intros cid Hcid Oc. rewrite g_code_info_eq, Hcid.
  unfold code_info_breakpad_sym_lookup, code_info_breakpad_sym_lookup_gen, pick_leaf.
  rewrite (safe_leafname_ordinary _ Oc). split; [reflexivity|].
  destruct (m_code_file m) eqn:E; [|reflexivity]. destruct Oc as [X _]. exfalso. apply X. reflexivity.
Qed.

(* ... and they decline (None) exactly when a needed leaf is degenerate *)
Lemma src_declines : forall m df, m_debug_file m = Some df -> ~ ordinary_leaf df ->
  g_lookup m KBreakpadSym = None /\ g_lookup m KExtraDebugInfo = None /\ g_lookup m KBinary = None.
Proof.
  intros m df Hdf N. rewrite !g_lookup_eq, Hdf. cbn [lookup lookup_gen].
  unfold breakpad_sym_lookup_gen, extra_debuginfo_lookup_gen, binary_lookup_gen, pick_leaf.
  rewrite (safe_leafname_declines df N).
  destruct (m_debug_identifier m), (m_code_identifier m), (safe_leafname (m_code_file m)); repeat split; reflexivity.
Qed.
