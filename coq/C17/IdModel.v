(* C17/IdModel.v — the identifiers as VALUES, and the text the builders splice into the paths.
   debugid 0.8.0 src/lib.rs (read, not translated: the crate is outside /repo):
     DebugId { bytes: [u8;16], appendix: u32, typ }      typ = 1: PDB 2.0 (only a 32-bit timestamp)
     BreakpadFormat Display:  PDB 2.0   "{:08X}{:x}"  timestamp, appendix
                              otherwise "{:X}{:x}"    uuid.simple() (32 digits), appendix
     DebugId::from_breakpad (parse_str, no hyphens, appendix required): 9..=16 chars -> 8 hex digits of
       timestamp + appendix; otherwise 32 hex digits of uuid + appendix; appendix = u32::from_str_radix(_, 16)
     CodeId::new: retain(is_ascii_hexdigit) then make_ascii_lowercase
   Definitions only; proofs in C17/IdProofs.v. *)
From RM Require Export C17.Model.
Open Scope Z_scope.

Record debug_id := { d_pdb20 : bool; d_main : Z (* uuid as a 128-bit number / the timestamp *); d_appendix : Z }.

Definition hex_digit (up : bool) (n : Z) : Z := if n <? 10 then 48 + n else (if up then 55 else 87) + n.
(* "{:0<digits>X}": exactly [digits] digits, most significant first *)
Fixpoint hex_fixed (up : bool) (digits : nat) (v : Z) : str :=
  match digits with O => [] | S d => hex_fixed up d (v / 16) ++ [hex_digit up (v mod 16)] end.
(* "{:x}" of a u32: no leading zeros, "0" for zero *)
Fixpoint strip_zeros (s : str) : str :=
  match s with
  | c :: (_ :: _) as r => if c =? 48 then strip_zeros r else s
  | _ => s
  end.
Definition hex_min (up : bool) (v : Z) : str := strip_zeros (hex_fixed up 8 v).

Definition breakpad_text (d : debug_id) : str :=
  hex_fixed true (if d_pdb20 d then 8 else 32) (d_main d) ++ hex_min false (d_appendix d).

(* parsing (canonical, non-hyphenated text) *)
Definition hex_val (c : Z) : option Z :=
  if (48 <=? c) && (c <=? 57) then Some (c - 48)
  else if (65 <=? c) && (c <=? 70) then Some (c - 55)
  else if (97 <=? c) && (c <=? 102) then Some (c - 87) else None.
Fixpoint parse_hex_acc (acc : Z) (s : str) : option Z :=
  match s with
  | [] => Some acc
  | c :: r => match hex_val c with Some v => parse_hex_acc (acc * 16 + v) r | None => None end
  end.
Definition parse_hex (s : str) : option Z := match s with [] => None | _ => parse_hex_acc 0 s end.
Definition parse_breakpad (raw : str) : option debug_id :=
  let n := Z.of_nat (length raw) in
  let k := if (9 <=? n) && (n <=? 16) then 8%nat else 32%nat in
  match parse_hex (firstn k raw), parse_hex (skipn k raw) with
  | Some m, Some a => if a <? 4294967296 then Some {| d_pdb20 := (k =? 8)%nat; d_main := m; d_appendix := a |} else None
  | _, _ => None
  end.

(* CodeId::new *)
Definition code_id_text (raw : str) : str := map lower (filter is_hex raw).
