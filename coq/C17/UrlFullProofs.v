(* C17/UrlFullProofs.v — the full reference resolution (C17/UrlFull.v) on what join_rel emits, for ALL byte strings;
   agreement with the path-only model of C17/UrlModel.v wherever that one answers. *)
From Coq Require Import Lia.
From RM Require Import C17.Model C17.Proofs C17.UrlModel C17.UrlProofs C17.UrlFull.
Open Scope Z_scope.

(* ------------------------------------------------------------------ parse_scheme vs has_scheme *)
Lemma scheme_split_rest : forall s acc, scheme_rest s = false -> scheme_split acc s = None.
Proof.
  induction s as [|c r IH]; intros acc H; [reflexivity|]. cbn [scheme_rest scheme_split] in *.
  destruct (c =? 58); [discriminate|]. destruct (scheme_char c); [exact (IH _ H) | reflexivity].
Qed.

Lemma scheme_split_some : forall s acc, scheme_rest s = true -> exists sch rest, scheme_split acc s = Some (sch, rest).
Proof.
  induction s as [|c r IH]; intros acc H; [discriminate|]. cbn [scheme_rest scheme_split] in *.
  destruct (c =? 58); [eexists; eexists; reflexivity|]. destruct (scheme_char c); [exact (IH _ H) | discriminate].
Qed.

Lemma parse_scheme_none : forall s, has_scheme s = false -> parse_scheme s = None.
Proof.
  intros [|c r] H; [reflexivity|]. unfold has_scheme in H. unfold parse_scheme.
  destruct (is_alpha c); [|reflexivity]. cbn [andb] in H. exact (scheme_split_rest _ _ H).
Qed.

Lemma parse_scheme_some : forall s, has_scheme s = true -> exists sch rest, parse_scheme s = Some (sch, rest).
Proof.
  intros [|c r] H; [discriminate|]. unfold has_scheme in H. unfold parse_scheme.
  destruct (is_alpha c); [|discriminate]. cbn [andb] in H. exact (scheme_split_some _ _ H).
Qed.

(* ------------------------------------------------------------------ the two models agree *)
(* wherever the path-only model answers (no other scheme, no authority) the full model keeps scheme and
   authority and yields the same path *)
Lemma resolve_agrees : forall sch bp reference q,
  url_join_path bp reference = Some q -> url_resolve sch bp reference = JSame q.
Proof.
  intros sch bp reference q H. unfold url_join_path in H. unfold url_resolve.
  set (inp := url_input reference) in *. unfold classify in H.
  destruct (has_scheme inp) eqn:HS; [discriminate|]. rewrite (parse_scheme_none _ HS).
  unfold resolve_relative. destruct inp as [|c r]; [exact (f_equal _ (eq_sym (f_equal (fun o => match o with Some x => x | None => q end) (eq_sym H))))|].
  destruct (c =? 63) eqn:Q; [cbn [orb]; inversion H; reflexivity|].
  destruct (c =? 35) eqn:F; [cbn [orb]; inversion H; reflexivity|]. cbn [orb].
  destruct (is_sep c) eqn:S.
  - cbn [count_seps]. rewrite S. destruct r as [|c' r'].
    + cbn [count_seps Nat.leb]. inversion H. reflexivity.
    + cbn [count_seps]. destruct (is_sep c') eqn:S'; [discriminate|]. cbn [Nat.leb]. inversion H. reflexivity.
  - inversion H. reflexivity.
Qed.

(* the converse direction on the kinds: the path-only model declines exactly when the full one leaves the
   base's scheme or authority *)
Lemma resolve_none : forall sch bp reference,
  url_join_path bp reference = None ->
  match url_resolve sch bp reference with
  | JSame _ => exists s rest, parse_scheme (url_input reference) = Some (s, rest)   (* "http:x" against an http base *)
  | _ => True
  end.
Proof.
  intros sch bp reference H. unfold url_join_path in H. unfold url_resolve.
  set (inp := url_input reference) in *. unfold classify in H.
  destruct (has_scheme inp) eqn:HS.
  - destruct (parse_scheme_some _ HS) as [s [rest E]]. rewrite E.
    destruct (special_not_file s); [|exact I].
    destruct ((count_seps rest <? 2)%nat && str_eqb s sch); [|exact I].
    destruct (resolve_relative sch bp rest); try exact I. exists s, rest. reflexivity.
  - rewrite (parse_scheme_none _ HS). unfold resolve_relative. destruct inp as [|c r]; [discriminate|].
    destruct (c =? 63); [discriminate|]. destruct (c =? 35); [discriminate|]. cbn [orb].
    destruct (is_sep c) eqn:S; [|discriminate]. cbn [count_seps]. rewrite S.
    destruct r as [|c' r']; [discriminate|]. cbn [count_seps]. destruct (is_sep c'); [exact I | discriminate].
Qed.

(* ------------------------------------------------------------------ what join_rel emits, byte by byte *)
Lemma enc1_slash : enc1 47 = [47].
Proof. reflexivity. Qed.

Lemma enc1_head : forall c, is_byte c -> c <> 47 ->
  exists h t, enc1 c = h :: t /\ is_sep h = false /\ (h =? 63) = false /\ (h =? 35) = false.
Proof.
  intros c Bc N. destruct (byte_chk c Bc) as [E _]. unfold chk_enc in E.
  apply andb_true_iff in E. destruct E as [E _].
  apply andb_true_iff in E. destruct E as [E NE].
  apply andb_true_iff in E. destruct E as [P Sl].
  destruct (enc1 c) as [|h t]; [discriminate|]. exists h, t. split; [reflexivity|].
  cbn [forallb] in P, Sl. apply andb_true_iff in P. destruct P as [Ph _].
  apply andb_true_iff in Sl. destruct Sl as [Sh _]. apply plain_facts in Ph.
  assert (h <> 47).
  { intro Eh. subst h. cbn [implb Z.eqb] in Sh. apply Z.eqb_eq in Sh. contradiction. }
  split; [unfold is_sep; apply orb_false_iff; split; apply Z.eqb_neq; lia|].
  split; apply Z.eqb_neq; lia.
Qed.

(* the request target of EVERY byte string: never another scheme; another authority exactly for a leading "//";
   a path from the root exactly for a single leading '/'; otherwise a path below the base directory's prefix
   built from the encoded segments *)
Definition target_spec (sch bp p : str) : join_result :=
  match p with
  | [] => JSame bp
  | c :: r =>
      if c =? 47 then
        match r with
        | [] => JSame (path_steps [47] (split_seps []))
        | c2 :: r2 =>
            if c2 =? 47 then JAuthority sch (authority_text (join_rel_enc r2))
            else JSame (path_steps [47] (split_seps (join_rel_enc r)))
        end
      else JSame (path_steps (base_dir bp) (split_seps (join_rel_enc p)))
  end.

Lemma request_target_all : forall sch bp p, bytes p -> request_target sch bp p = target_spec sch bp p.
Proof.
  intros sch bp p B. unfold request_target, url_resolve.
  pose proof (enc_plain p B) as P. rewrite (url_input_plain _ P).
  rewrite (parse_scheme_none _ (plain_no_scheme _ P)).
  destruct p as [|c r]; [reflexivity|].
  apply Forall_cons_iff in B. destruct B as [Bc Br]. unfold target_spec.
  destruct (c =? 47) eqn:C.
  - apply Z.eqb_eq in C. subst c. rewrite enc_cons, enc1_slash in *. cbn [app] in *.
    unfold resolve_relative. cbn [Z.eqb orb is_sep Pos.eqb]. 
    replace (is_sep 47) with true by reflexivity. cbn [count_seps].
    replace (is_sep 47) with true by reflexivity.
    cbn [forallb] in P. apply andb_true_iff in P. destruct P as [_ Pr].
    destruct r as [|c2 r2]; [reflexivity|].
    apply Forall_cons_iff in Br. destruct Br as [Bc2 Br2].
    destruct (c2 =? 47) eqn:C2.
    + apply Z.eqb_eq in C2. subst c2. rewrite enc_cons, enc1_slash. cbn [app count_seps].
      replace (is_sep 47) with true by reflexivity. cbn [Nat.leb after_slashes]. reflexivity.
    + apply Z.eqb_neq in C2. destruct (enc1_head c2 Bc2 C2) as [h [t [E [S _]]]].
      rewrite (path_part_plain _ Pr). rewrite enc_cons, E. cbn [app count_seps]. rewrite S. cbn [Nat.leb].
      reflexivity.
  - apply Z.eqb_neq in C. destruct (enc1_head c Bc C) as [h [t [E [S [Q F]]]]].
    pose proof (path_part_plain _ P) as PP. rewrite enc_cons, E in *. cbn [app] in *. unfold resolve_relative.
    rewrite Q, F, S. cbn [orb]. rewrite PP. reflexivity.
Qed.

Definition starts_two_slashes (p : str) : bool :=
  match p with c :: c2 :: _ => (c =? 47) && (c2 =? 47) | _ => false end.

(* for ALL byte strings — no hypothesis on p — the request never leaves the base's scheme, and leaves its authority
   exactly when p starts with "//" *)
Lemma resolve_all_strings : forall sch bp p, bytes p ->
  match request_target sch bp p with
  | JOpaque _ _ => False
  | JAuthority s _ => s = sch /\ starts_two_slashes p = true
  | JSame _ => starts_two_slashes p = false
  end.
Proof.
  intros sch bp p B. rewrite (request_target_all sch bp p B). unfold target_spec, starts_two_slashes.
  destruct p as [|c [|c2 r2]]; [reflexivity | destruct (c =? 47); reflexivity |].
  destruct (c =? 47); [|reflexivity]. destruct (c2 =? 47); [split; reflexivity | reflexivity].
Qed.

(* a safe relative path: same scheme, same authority, a path below the base directory *)
Lemma resolve_contained : forall sch bp p, bytes p -> safe_rel p ->
  exists r, request_target sch bp p = JSame r /\ ((p = [] /\ r = bp) \/ exists t, r = base_dir bp ++ t).
Proof.
  intros sch bp p B S. destruct (url_join_contained bp p B S) as [r [H C]].
  exists r. split; [|exact C]. unfold request_target. apply resolve_agrees. exact H.
Qed.

(* ------------------------------------------------------------------ the other branches, on concrete references *)
Definition b_r : str := [47;114;47].                     (* base path /r/ *)
(* not through join_rel: an absolute URL of another scheme, the base's own scheme without slashes (RELATIVE),
   the base's scheme with slashes (authority), a scheme-relative reference, a backslash pair, upper-case scheme,
   a non-special scheme, a file URL, TAB inside the scheme *)
Lemma resolve_branches :
  url_resolve s_http b_r [104;116;116;112;115;58;47;47;101;47;120] = JAuthority s_https [101] /\       (* https://e/x *)
  url_resolve s_http b_r [104;116;116;112;58;120] = JSame [47;114;47;120] /\                           (* http:x  -> /r/x *)
  url_resolve s_https b_r [104;116;116;112;58;120] = JAuthority s_http [120] /\                        (* http:x against https -> host x *)
  url_resolve s_http b_r [104;116;116;112;58;47;47;101;64;102;47] = JAuthority s_http [101;64;102] /\  (* http://e@f/ *)
  url_resolve s_http b_r [47;47;101;47;120] = JAuthority s_http [101] /\                               (* //e/x *)
  url_resolve s_http b_r [92;47;101;63;120] = JAuthority s_http [101] /\                               (* \/e?x *)
  url_resolve s_http b_r [72;84;9;84;80;58;47;120] = JSame [47;120] /\                                 (* HT<TAB>TP:/x -> /x *)
  url_resolve s_http b_r [97;98;58;99] = JOpaque [97;98] [99] /\                                       (* ab:c *)
  url_resolve s_http b_r [70;105;108;101;58;47;47;47;120] = JOpaque s_file [47;47;47;120] /\           (* File:///x *)
  url_resolve s_http b_r [47;120] = JSame [47;120] /\                                                  (* /x *)
  url_resolve s_http b_r [46;46;47;120] = JSame [47;120].                                              (* ../x *)
Proof. vm_compute. repeat split; reflexivity. Qed.

(* through join_rel the same names stay on the server: ':' '\\' are escaped; only '/' keeps its meaning *)
Lemma resolve_encoded_examples :
  request_target s_http b_r [104;116;116;112;115;58;47;47;101;47;120]
    = JSame [47;114;47;104;116;116;112;115;37;51;65;47;47;101;47;120] /\                               (* /r/https%3A//e/x *)
  request_target s_http b_r [92;92;101;92;120] = JSame [47;114;47;37;53;67;37;53;67;101;37;53;67;120] /\
  request_target s_http b_r [47;47;101;47;120] = JAuthority s_http [101] /\
  request_target s_http b_r [47;120] = JSame [47;120].
Proof. vm_compute. repeat split; reflexivity. Qed.
