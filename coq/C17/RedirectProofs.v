(* C17/RedirectProofs.v — a debug file name supplied by a symbol server in a code-info redirect is just another string:
   whatever Location the server sends, the lookup paths built from it are safe and requested below the configured root. *)
From RM Require Import C17.Model C17.Proofs C17.UrlModel C17.UrlProofs C17.UrlFull C17.UrlFullProofs.
From RM Require Import C17.Prims C17.Tie Gen.C17Lookup C17.IdModel C17.IdProofs C17.PathModel C17.PathProofs C17.UrlFullSrc.

Lemma strip_one_slash_bytes : forall s, bytes s -> bytes (strip_one_slash s).
Proof.
  intros [|c r] B; [exact B|]. unfold strip_one_slash. destruct (c =? 47); [|exact B].
  apply Forall_cons_iff in B. exact (proj2 B).
Qed.

Lemma parse_location_bytes : forall loc dfp idp, bytes loc -> parse_location loc = Some (dfp, idp) -> bytes dfp /\ bytes idp.
Proof.
  intros loc dfp idp B H. unfold parse_location in H.
  pose proof (bytes_split_on 47 _ (strip_one_slash_bytes loc B)) as F.
  apply Forall_rev in F. destruct (rev (split_on 47 (strip_one_slash loc))) as [|a [|b [|c t]]]; try discriminate.
  inversion H. subst. apply Forall_cons_iff in F. destruct F as [_ F]. apply Forall_cons_iff in F. destruct F as [Fb F].
  apply Forall_cons_iff in F. destruct F as [Fc _]. split; assumption.
Qed.

Lemma redirect_contained : forall code_file loc dfp idp d raw_code_id kind l base_scheme,
  bytes code_file -> bytes loc -> parse_location loc = Some (dfp, idp) ->
  g_lookup (module_of_ids code_file (Some dfp) (Some d) raw_code_id) kind = Some l ->
  safe_rel (cache_rel l) /\ safe_rel (server_rel l) /\
  (forall style root, is_prefix root (join style root (cache_rel l)) = true) /\
  (forall base_path, exists r, g_request_target base_scheme base_path (server_rel l) = JSame r /\
                               is_prefix (base_dir base_path) r = true).
Proof.
  intros cf loc dfp idp d raw k l sch B1 B2 P H.
  destruct (parse_location_bytes loc dfp idp B2 P) as [Bd _].
  destruct (full_property cf (Some dfp) (Some d) raw k l B1 Bd H) as [S1 [S2 [J _]]].
  destruct (full_property_url cf (Some dfp) (Some d) raw k l sch B1 Bd H) as [U _].
  split; [exact S1|]. split; [exact S2|]. split; [exact J | exact U].
Qed.

(* the parts really are the third-from-last and second-from-last '/'-separated pieces *)
Lemma parse_location_examples :
  parse_location [47;97;47;46;46;47;53;65;49;47;120;46;115;121;109] = Some ([46;46], [53;65;49]) /\      (* /a/../5A1/x.sym -> "..", "5A1" *)
  parse_location [47;47;101;47;48;47;120] = Some ([101], [48]) /\                                        (* //e/0/x -> "e" *)
  parse_location [46;46;92;46;46;92;119;47;48;47;120] = Some ([46;46;92;46;46;92;119], [48]) /\          (* ..\..\w/0/x -> the whole "..\..\w" *)
  parse_location [48;47;120] = None.                                                                     (* 0/x: no debug file part *)
Proof. vm_compute. repeat split; reflexivity. Qed.
