From Coq Require Extraction.
From Coq Require Import ExtrOcamlBasic.
From RM Require Import C17.Driver.
Extraction "c17_model.ml" run_case run_case_obs url_case base_case fs_case resolve_case redirect_case.
