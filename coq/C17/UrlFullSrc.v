(* C17/UrlFullSrc.v — the headline property restated on the FULL model of Url::join (C17/UrlFull.v) and the
   GENERATED encoder: every server path of every builder, for all byte strings, all DebugId values, all raw code ids,
   every special base scheme and base path, is requested from the configured scheme and authority, below the base
   directory — also in the mozilla-CAB variant and for the code-info path. *)
From RM Require Import C17.Model C17.Proofs C17.UrlModel C17.UrlProofs C17.UrlFull C17.UrlFullProofs.
From RM Require Import C17.Prims C17.Tie Gen.C17Lookup C17.IdModel C17.IdProofs C17.PathModel C17.PathProofs.

Definition g_request_target (base_scheme base_path rel : str) : join_result :=
  url_resolve base_scheme base_path (g_join_rel_enc rel).

Lemma g_target_of_path : forall sch bp rel r,
  g_request_path bp rel = Some r -> g_request_target sch bp rel = JSame r.
Proof. intros sch bp rel r H. unfold g_request_target. apply resolve_agrees. exact H. Qed.

Lemma full_property_url : forall code_file debug_file d raw_code_id kind l base_scheme,
  bytes code_file -> opt_bytes debug_file ->
  g_lookup (module_of_ids code_file debug_file d raw_code_id) kind = Some l ->
  (forall base_path, exists r, g_request_target base_scheme base_path (server_rel l) = JSame r /\
                               is_prefix (base_dir base_path) r = true) /\
  (forall l', g_moz_lookup l = Ret l' ->
     forall base_path, exists r, g_request_target base_scheme base_path (server_rel l') = JSame r /\
                                 is_prefix (base_dir base_path) r = true).
Proof.
  intros cf df d raw k l sch B1 B2 H.
  destruct (full_property cf df d raw k l B1 B2 H) as [_ [_ [_ [_ [U M]]]]].
  split.
  - intro bp. destruct (U bp) as [r [E P]]. exists r. split; [exact (g_target_of_path sch bp _ r E) | exact P].
  - intros l' Hm bp. destruct (M l' Hm) as [_ [_ R]]. destruct (R bp) as [r [E P]].
    exists r. split; [exact (g_target_of_path sch bp _ r E) | exact P].
Qed.

Lemma full_property_url_code_info : forall code_file debug_file d raw_code_id p base_scheme base_path,
  bytes code_file -> opt_bytes debug_file ->
  g_code_info_breakpad_sym_lookup (module_of_ids code_file debug_file d raw_code_id) = Some p ->
  exists r, g_request_target base_scheme base_path p = JSame r /\ is_prefix (base_dir base_path) r = true.
Proof.
  intros cf df d raw p sch bp B1 B2 H.
  destruct (full_property_code_info cf df d raw p bp B1 B2 H) as [_ [r [E P]]].
  exists r. split; [exact (g_target_of_path sch bp p r E) | exact P].
Qed.

(* all byte strings through the GENERATED encoder: never another scheme, another authority exactly for "//" *)
Lemma g_resolve_all_strings : forall sch bp p, bytes p ->
  match g_request_target sch bp p with
  | JOpaque _ _ => False
  | JAuthority s _ => s = sch /\ starts_two_slashes p = true
  | JSame _ => starts_two_slashes p = false
  end.
Proof.
  intros sch bp p B. unfold g_request_target.
  pose proof (bytes_of_request bp p B) as E. unfold g_request_path, request_path in E.
  assert (G : g_join_rel_enc p = join_rel_enc p).
  { apply g_join_rel_enc_eq. exact B. }
  rewrite G. exact (resolve_all_strings sch bp p B).
Qed.
