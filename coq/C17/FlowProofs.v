(* C17/FlowProofs.v — every consumer join site extracted from the source (Gen/C17Flow.v) joins a string
   that came out of a lookup builder, and such a string stays below the root it is joined onto. *)
From Coq Require Import String Lia.
From RM Require Import C17.Model C17.Proofs C17.UrlModel C17.UrlProofs C17.Prims Gen.C17Lookup C17.Tie
                       C17.FlowModel Gen.C17Flow C17.Consumers Gen.JoinSites.
Close Scope string_scope.
Open Scope list_scope.
Open Scope Z_scope.

(* what every lookup value reachable by a known provenance satisfies *)
Definition good (l : file_lookup) : Prop :=
  safe_rel (cache_rel l) /\ safe_rel (server_rel l) /\ bytes (cache_rel l) /\ bytes (server_rel l) /\
  cache_rel l <> [] /\ server_rel l <> [].

Lemma lookup_cache_nonempty : forall k code_file debug_file dbg_id code_id l,
  lookup k code_file debug_file dbg_id code_id = Some l -> cache_rel l <> [].
Proof.
  intros k cf df id cid l H. destruct k; cbn [lookup lookup_gen] in H.
  - unfold breakpad_sym_lookup_gen in H.
    destruct df as [df|]; [|discriminate]. destruct id as [id|]; [|discriminate].
    destruct (pick_leaf true df) as [leaf|]; [|discriminate]. inversion H; subst l. apply rel3_nonempty.
  - unfold binary_lookup_gen in H.
    destruct cid as [cid|]; [|discriminate]. destruct df as [df|]; [|discriminate].
    destruct id as [id|]; [|discriminate].
    destruct (pick_leaf true cf) as [bl|]; [|discriminate].
    destruct (pick_leaf true df) as [dl|]; [|discriminate]. inversion H; subst l. apply rel3_nonempty.
  - unfold extra_debuginfo_lookup_gen in H.
    destruct df as [df|]; [|discriminate]. destruct id as [id|]; [|discriminate].
    destruct (pick_leaf true df) as [leaf|]; [|discriminate]. inversion H; subst l. apply rel3_nonempty.
Qed.

Lemma g_lookup_good : forall m k l, mv_bytes m -> mv_hex m -> g_lookup m k = Some l -> good l.
Proof.
  intros m k l [B1 B2] [H1 H2] H. rewrite g_lookup_eq in H.
  destruct (lookup_safe _ _ _ _ _ _ H1 H2 H) as [Sc Ss].
  destruct (lookup_bytes k _ _ _ _ l B1 B2 H1 H2 H) as [Bc Bs].
  repeat split; try assumption; try (apply Sc); try (apply Ss).
  - exact (lookup_cache_nonempty _ _ _ _ _ _ H).
  - exact (lookup_server_nonempty _ _ _ _ _ _ H).
Qed.

Lemma eval_builder_good : forall b m k l, mv_bytes m -> mv_hex m -> eval_builder b m k = Some l -> good l.
Proof.
  intros b m k l MB MH H. destruct b; cbn [eval_builder] in H.
  - exact (g_lookup_good m k l MB MH H).
  - apply (g_lookup_good m KBreakpadSym l MB MH). exact H.
  - apply (g_lookup_good m KBinary l MB MH). exact H.
  - apply (g_lookup_good m KExtraDebugInfo l MB MH). exact H.
Qed.

Lemma moz_good : forall l l', good l -> g_moz_lookup l = Ret l' -> good l'.
Proof.
  intros l l' [Sc [Ss [Bc [Bs [Nc Ns]]]]] M. rewrite g_moz_eq in M.
  destruct (moz_safe l l' Ss M) as [Ss' Ec]. pose proof (moz_bytes l l' Bs M) as Bs'.
  unfold good. rewrite Ec. repeat split; try assumption; try (apply Sc); try (apply Ss').
  unfold moz_lookup in M. destruct (pop_char (server_rel l)); inversion M. cbn [server_rel].
  intro E. apply app_eq_nil in E. destruct E as [_ E]. discriminate.
Qed.

Lemma eval_prov_good : forall p m k l, mv_bytes m -> mv_hex m -> eval_prov p m k = Some l -> good l.
Proof.
  induction p as [b|q IH|w]; intros m k l MB MH H; cbn [eval_prov] in H.
  - exact (eval_builder_good b m k l MB MH H).
  - destruct (eval_prov q m k) as [l0|] eqn:E; [|discriminate].
    destruct (g_moz_lookup l0) as [l1| | |] eqn:M; try discriminate. inversion H; subst l1.
    exact (moz_good l0 l (IH m k l0 MB MH E) M).
  - discriminate.
Qed.

(* what "stays below the root" means for each kind of root *)
Definition below_root (r : g_root) (p : str) : Prop :=
  match r with
  | RSymbolDir | RCacheDir | RTmpDir =>
      forall style root, is_prefix root (join style root p) = true /\
        exists s, join style root p = root ++ s ++ p /\ (s = [] \/ s = [47] \/ s = [92]) /\
                  Forall (fun c => c <> dotdot) (split_seps (s ++ p))
  | RServerUrl =>
      forall base_path, exists r, g_request_path base_path p = Some r /\ is_prefix (base_dir base_path) r = true
  | RUnknown => False
  end.

Lemma good_string_below : forall r p, known_root r = true -> safe_rel p -> bytes p -> p <> [] -> below_root r p.
Proof.
  intros r p K S B N. destruct r; cbn [below_root]; try discriminate.
  - intros style root. exact (join_contained style root p S).
  - intros style root. exact (join_contained style root p S).
  - intros style root. exact (join_contained style root p S).
  - intro bp. rewrite (bytes_of_request bp p B). exact (contained_prefix bp p B S N).
Qed.

Lemma eval_arg_good : forall a m k p, mv_bytes m -> mv_hex m -> eval_arg a m k = Some p ->
  safe_rel p /\ bytes p /\ p <> [].
Proof.
  intros a m k p MB MH H. destruct a as [q|q| |w]; cbn [eval_arg] in H.
  - destruct (eval_prov q m k) as [l|] eqn:E; [|discriminate]. inversion H; subst p.
    destruct (eval_prov_good q m k l MB MH E) as [Sc [_ [Bc [_ [Nc _]]]]]. auto.
  - destruct (eval_prov q m k) as [l|] eqn:E; [|discriminate]. inversion H; subst p.
    destruct (eval_prov_good q m k l MB MH E) as [_ [Ss [_ [Bs [_ Ns]]]]]. auto.
  - destruct MB as [B1 B2]. destruct MH as [H1 H2]. pose proof H as H'. rewrite g_code_info_eq in H'.
    split; [exact (code_info_safe _ _ _ H2 H')|]. split; [exact (code_info_bytes _ _ _ B1 H2 H')|].
    unfold code_info_breakpad_sym_lookup, code_info_breakpad_sym_lookup_gen in H'.
    destruct (m_code_identifier m) as [cid|]; [|discriminate].
    destruct (m_code_file m) as [|c0 cf']; [cbv beta iota in H'; discriminate|].
    destruct (pick_leaf true (c0 :: cf')) as [leaf|]; [|discriminate]. inversion H'. apply rel3_nonempty.
  - discriminate.
Qed.

(* the obligation on the extracted list: every root and every joined string has a known provenance *)
Lemma all_sites_known : unknown_sites g_consumer_joins = [].
Proof. vm_compute. reflexivity. Qed.

Lemma site_known : forall s, In s g_consumer_joins -> known_site s = true.
Proof.
  intros s H. destruct (known_site s) eqn:K; [reflexivity|].
  assert (I : In s (unknown_sites g_consumer_joins)).
  { unfold unknown_sites. apply filter_In. split; [exact H | rewrite K; reflexivity]. }
  rewrite all_sites_known in I. destruct I.
Qed.

Lemma flow_contained : forall s m k p, In s g_consumer_joins -> mv_bytes m -> mv_hex m ->
  eval_arg (s_arg s) m k = Some p -> safe_rel p /\ below_root (s_root s) p.
Proof.
  intros s m k p I MB MH H. pose proof (site_known s I) as K. unfold known_site in K.
  apply andb_true_iff in K. destruct K as [Kr _].
  destruct (eval_arg_good (s_arg s) m k p MB MH H) as [S [B N]].
  split; [exact S | exact (good_string_below (s_root s) p Kr S B N)].
Qed.

(* ---- file system sinks ---------------------------------------------------------------------------------- *)
Lemma all_sinks_known : unknown_sinks g_fs_sinks = [].
Proof. vm_compute. reflexivity. Qed.

Lemma sink_known : forall k, In k g_fs_sinks -> known_sink k = true.
Proof.
  intros k H. destruct (known_sink k) eqn:K; [reflexivity|].
  assert (I : In k (unknown_sinks g_fs_sinks)).
  { unfold unknown_sinks. apply filter_In. split; [exact H | rewrite K; reflexivity]. }
  rewrite all_sinks_known in I. destruct I.
Qed.

(* every path a sink receives is a root, or a root joined with a string that stays below it
   (k_parents = 1: the parent directory of such a path, for create_dir_all) *)
Lemma sink_contained : forall k, In k g_fs_sinks ->
  (k_parents k <= 1)%nat /\ k_paths k <> [] /\
  forall q, In q (k_paths k) ->
    match q with
    | PRoot r => known_root r = true
    | PJoined r a => known_root r = true /\
        forall m kd p, mv_bytes m -> mv_hex m -> eval_arg a m kd = Some p -> safe_rel p /\ below_root r p
    | PUnknownPath => False
    end.
Proof.
  intros k I. pose proof (sink_known k I) as K. unfold known_sink in K.
  apply andb_true_iff in K. destruct K as [K Kp]. apply andb_true_iff in K. destruct K as [Ka Kn].
  split; [apply Nat.leb_le; exact Kp|]. split; [destruct (k_paths k); [discriminate | discriminate]|].
  intros q Hq. rewrite forallb_forall in Ka. specialize (Ka q Hq). destruct q as [r|r a|]; cbn [known_path] in Ka.
  - exact Ka.
  - apply andb_true_iff in Ka. destruct Ka as [Kr _]. split; [exact Kr|].
    intros m kd p MB MH H. destruct (eval_arg_good a m kd p MB MH H) as [S [B N]].
    split; [exact S | exact (good_string_below r p Kr S B N)].
  - discriminate.
Qed.

(* ---- the callee census: every call of a file-system callee, anywhere in the crate, is one of the sinks above;
   no path is edited in place outside the compiled builders ------------------------------------------------- *)
Lemma sink_calls_covered : uncovered_sink_calls g_sink_calls g_fs_sinks = [].
Proof. vm_compute. reflexivity. Qed.

Lemma key_eqb_eq : forall a b, key_eqb a b = true -> a = b.
Proof.
  intros [[a1 a2] a3] [[b1 b2] b3] H. unfold key_eqb in H. cbn [fst snd] in H.
  apply andb_true_iff in H. destruct H as [H H3]. apply andb_true_iff in H. destruct H as [H1 H2].
  apply String.eqb_eq in H1, H2, H3. subst. reflexivity.
Qed.

Lemma sink_call_is_sink : forall c, In c g_sink_calls -> exists k, In k g_fs_sinks /\ sink_key k = c.
Proof.
  intros c H. destruct (existsb (fun k => key_eqb c (sink_key k)) g_fs_sinks) eqn:E.
  - apply existsb_exists in E. destruct E as [k [I K]]. exists k. split; [exact I|]. symmetry. exact (key_eqb_eq _ _ K).
  - assert (I : In c (uncovered_sink_calls g_sink_calls g_fs_sinks)).
    { unfold uncovered_sink_calls. apply filter_In. split; [exact H | rewrite E; reflexivity]. }
    rewrite sink_calls_covered in I. destruct I.
Qed.

Lemma no_path_edits : path_edits g_path_edits = [].
Proof. vm_compute. reflexivity. Qed.

Definition census_witness : Prop :=
  In "http.rs"%string g_closed_files /\ In "lib.rs"%string g_closed_files /\ In "sym_file/mod.rs"%string g_closed_files /\
  In ("sym_file/mod.rs", "from_file", "File::open(path)")%string g_sink_calls /\
  In ("http.rs", "fetch_lookup", ".persist_noclobber(&final_cache_path)")%string g_sink_calls /\
  (12 <= List.length g_sink_calls)%nat /\
  existsb (fun e => match e_kind e with EkRootAdded => true | _ => false end) g_path_edits = true.
Lemma census_nonvacuous : census_witness.
Proof. unfold census_witness. repeat split; try (vm_compute; tauto); vm_compute; try reflexivity; repeat constructor. Qed.

Lemma server_url_norm_known : g_server_url_norm = UnAppendSlash.
Proof. vm_compute. reflexivity. Qed.

Lemma redirect_parse_known : g_redirect_parse = RpStripSlashRsplitNth1Next.
Proof. vm_compute. reflexivity. Qed.

Definition sinks_witness : Prop :=
  existsb (fun k => String.eqb (k_fn k) "fetch_lookup"%string && String.eqb (k_text k) ".persist_noclobber(&final_cache_path)"%string &&
                    match k_paths k with [PJoined RCacheDir (ACacheRel (GBuilt BLookup))] => true | _ => false end) g_fs_sinks = true /\
  existsb (fun k => String.eqb (k_text k) "fs::create_dir_all(base)"%string && Nat.eqb (k_parents k) 1) g_fs_sinks = true /\
  (10 <= List.length g_fs_sinks)%nat.
Lemma sinks_nonvacuous : sinks_witness.
Proof. unfold sinks_witness. split; [|split]; vm_compute; try reflexivity. repeat constructor. Qed.

(* the two translators agree on which calls are consumer joins (join_sites.py: every `.join(` / `join_rel(`
   call with its text; c17_flow.py: the consumer ones with their provenance) *)
Definition is_consumer_site (x : (string * string * string) * site_class) : bool :=
  match snd x with Joins _ _ => true | _ => false end.
Definition site_key (x : string * string * string) : string * string := (fst (fst x), snd x).
Lemma flow_sites_are_the_join_sites :
  map (fun s => (s_file s, s_text s)) g_consumer_joins
  = map (fun x => site_key (fst x)) (filter is_consumer_site modelled_join_sites).
Proof. vm_compute. reflexivity. Qed.

Lemma flow_table_is_the_site_list : g_flow_table = map flow_row g_consumer_joins.
Proof. vm_compute. reflexivity. Qed.

(* the flow really reaches a join: a concrete module, both suppliers' sites *)
Lemma flow_nonvacuous : forall s, In s g_consumer_joins ->
  exists p, eval_arg (s_arg s)
              {| m_code_file := [107;46;100;108;108]; m_code_identifier := Some [53;97];
                 m_debug_file := Some [97;92;84;46;112;100;98]; m_debug_identifier := Some [48;49] |} KBinary = Some p.
Proof.
  intros s I. cbv [g_consumer_joins] in I. cbn [In] in I.
  repeat (destruct I as [E|I]; [subst s; eexists; vm_compute; reflexivity|]). destruct I.
Qed.
