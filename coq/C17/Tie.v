(* C17/Tie.v — the model GENERATED from the Rust source (Gen/C17Lookup.v, translate/c17_lookup.py)
   equals the hand-written model (C17/Model.v, UrlModel.v) on all inputs; the property-level
   theorems are then transported to the generated functions. *)
From RM Require Import C17.Model C17.Proofs C17.UrlModel C17.UrlProofs C17.Prims Gen.C17Lookup.
From Coq Require Import Lia.
Open Scope Z_scope.

(* ---- primitives vs the model's own helpers --------------------------------------------- *)
Lemma split_pat_ext : forall f g s, (forall c, f c = g c) -> split_pat f s = split_pat g s.
Proof. intros f g s E. induction s as [|c r IH]; [reflexivity|]. simpl. rewrite E, IH. reflexivity. Qed.

Lemma pat_seps : forall c, pat_chars [47; 92] c = is_sep c.
Proof. intro c. unfold pat_chars, is_sep. simpl. rewrite orb_false_r. reflexivity. Qed.
Lemma pat_dot : forall c, pat_chars [46] c = (c =? 46).
Proof. intro c. unfold pat_chars. simpl. apply orb_false_r. Qed.

Lemma split_pat_seps : forall s, split_pat (pat_chars [47; 92]) s = split_seps s.
Proof.
  intro s. rewrite (split_pat_ext _ is_sep s pat_seps).
  induction s as [|c r IH]; [reflexivity|]. simpl. rewrite IH. reflexivity.
Qed.
Lemma split_pat_dot : forall s, split_pat (pat_chars [46]) s = split_on 46 s.
Proof.
  intro s. rewrite (split_pat_ext _ (fun c => c =? 46) s pat_dot).
  induction s as [|c r IH]; [reflexivity|]. simpl. rewrite IH. reflexivity.
Qed.

Lemma iter_last_last : forall (l : list str), l <> [] -> iter_last l = Some (last l []).
Proof.
  intros l H. unfold iter_last. destruct (exists_last H) as [l' [x E]]. subst l.
  rewrite rev_unit, last_last. reflexivity.
Qed.

Lemma has_sep_split : forall r, has_sep r = true -> exists h t, split_seps r = h :: t /\ t <> [].
Proof.
  induction r as [|c r IH]; [discriminate|]. intro H. simpl.
  destruct (is_sep c) eqn:Ec.
  - exists [], (split_seps r). split; [reflexivity | apply split_seps_nonempty].
  - assert (Hr : has_sep r = true).
    { unfold has_sep in H. simpl in H. rewrite Ec in H. exact H. }
    destruct (IH Hr) as [h [t [E Ht]]]. rewrite E. exists (c :: h), t. split; [reflexivity | exact Ht].
Qed.

Lemma leafname_nosep_id : forall r, has_sep r = false -> leafname r = r.
Proof.
  induction r as [|c r IH]; [reflexivity|]. intro H.
  assert (Ec : is_sep c = false /\ has_sep r = false).
  { unfold has_sep in H. simpl in H. apply orb_false_iff in H. exact H. }
  destruct Ec as [Ec Hr]. simpl. rewrite Hr, Ec. reflexivity.
Qed.

Lemma last_split_seps : forall p, last (split_seps p) [] = leafname p.
Proof.
  induction p as [|c r IH]; [reflexivity|].
  change (split_seps (c :: r)) with
    (if is_sep c then [] :: split_seps r
     else match split_seps r with h :: t => (c :: h) :: t | [] => [[c]] end).
  change (leafname (c :: r)) with (if has_sep r then leafname r else if is_sep c then r else c :: r).
  destruct (has_sep r) eqn:Hr.
  - destruct (has_sep_split r Hr) as [h [t [E Ht]]].
    destruct (is_sep c).
    + rewrite <- IH, E. destruct t; [contradiction|reflexivity].
    + rewrite <- IH, E. destruct t; [contradiction|reflexivity].
  - pose proof (proj1 (has_sep_false_nosep r) Hr) as N. rewrite (split_seps_nosep r N).
    destruct (is_sep c); reflexivity.
Qed.

(* ---- the generated functions are the model's ------------------------------------------- *)
Lemma g_leafname_eq : forall p, g_leafname p = leafname p.
Proof.
  intro p. unfold g_leafname, rsplit_pat, iter_next. rewrite split_pat_seps.
  fold (iter_last (split_seps p)). rewrite (iter_last_last _ (split_seps_nonempty p)).
  simpl. apply last_split_seps.
Qed.

(* The proofs below do not follow the syntax of the generated terms: the leaf tests are decided by case analysis on
   every boolean atom, the builders by destructing the module's fields and every safe_leafname result, so that a
   behaviour-preserving rewrite of the source (tests or `?` steps in another order) still passes. *)
Ltac bool_crush := cbn; repeat match goal with
  | |- context [?x =? ?y] => destruct (x =? y)
  | |- context [is_alpha ?x] => destruct (is_alpha x)
  | |- context [str_eqb ?x ?y] => destruct (str_eqb x y)
  end; cbn; try reflexivity.

Lemma g_safe_leafname_eq : forall p, g_safe_leafname p = safe_leafname p.
Proof.
  intro p. unfold g_safe_leafname, safe_leafname. rewrite g_leafname_eq.
  destruct (leafname p) as [|a [|b t]]; bool_crush.
Qed.

Lemma g_roae_eq : forall f e n, g_replace_or_add_extension f e n = replace_or_add_extension f e n.
Proof.
  intros f e n. unfold g_replace_or_add_extension, replace_or_add_extension. cbv zeta.
  rewrite split_pat_dot. unfold vec_join, vec_push, vec_pop, str_to_lowercase.
  destruct (split_on 46 f) as [|h t] eqn:E; [reflexivity|].
  rewrite (iter_last_last (h :: t)) by discriminate. unfold opt_is_some_and.
  replace (Nat.ltb 1 (length (h :: t))) with (1 <? Z.of_nat (length (h :: t))); [reflexivity|].
  destruct (Nat.ltb_spec 1 (length (h :: t))); [apply Z.ltb_lt | apply Z.ltb_ge]; lia.
Qed.

Ltac builder_crush :=
  unfold pick_leaf, vec_join, str_to_uppercase; cbv zeta;
  repeat (cbn [opt_bind m_code_file m_code_identifier m_debug_file m_debug_identifier str_is_empty];
          rewrite ?g_safe_leafname_eq, ?g_roae_eq;
          match goal with
          | |- context [opt_bind (safe_leafname ?x) _] => destruct (safe_leafname x)
          | |- context [match safe_leafname ?x with _ => _ end] => destruct (safe_leafname x)
          end);
  cbn [opt_bind str_is_empty]; rewrite ?g_roae_eq; try reflexivity;
  unfold rel3, join_with; rewrite <- ?app_assoc; cbn [app]; try reflexivity.   (* format! / `+` spellings of the same path *)

Lemma g_breakpad_sym_eq : forall m,
  g_breakpad_sym_lookup m = breakpad_sym_lookup (m_debug_file m) (m_debug_identifier m).
Proof.
  intros [cf cid df did]. unfold g_breakpad_sym_lookup, breakpad_sym_lookup, breakpad_sym_lookup_gen.
  destruct cid, df, did; builder_crush.
Qed.

Lemma g_code_info_eq : forall m,
  g_code_info_breakpad_sym_lookup m = code_info_breakpad_sym_lookup (m_code_file m) (m_code_identifier m).
Proof.
  intros [cf cid df did]. unfold g_code_info_breakpad_sym_lookup, code_info_breakpad_sym_lookup, code_info_breakpad_sym_lookup_gen.
  destruct cid, df, did, cf; builder_crush.
Qed.

Lemma g_extra_debuginfo_eq : forall m,
  g_extra_debuginfo_lookup m = extra_debuginfo_lookup (m_debug_file m) (m_debug_identifier m).
Proof.
  intros [cf cid df did]. unfold g_extra_debuginfo_lookup, extra_debuginfo_lookup, extra_debuginfo_lookup_gen.
  destruct cid, df, did; builder_crush.
Qed.

Lemma g_binary_eq : forall m,
  g_binary_lookup m = binary_lookup (m_code_file m) (m_code_identifier m) (m_debug_file m) (m_debug_identifier m).
Proof.
  intros [cf cid df did]. unfold g_binary_lookup, binary_lookup, binary_lookup_gen.
  destruct cid, df, did; builder_crush.
Qed.

Lemma g_lookup_eq : forall m k,
  g_lookup m k = lookup k (m_code_file m) (m_debug_file m) (m_debug_identifier m) (m_code_identifier m).
Proof.
  intros m k. unfold g_lookup, lookup, lookup_gen.
  destruct k; [apply g_breakpad_sym_eq | apply g_binary_eq | apply g_extra_debuginfo_eq].
Qed.

Lemma g_moz_eq : forall l, g_moz_lookup l = moz_lookup l.
Proof.
  intro l. unfold g_moz_lookup, moz_lookup, string_pop, string_push, set_server_rel.
  destruct (pop_char (server_rel l)); reflexivity.
Qed.

Lemma g_needs_escape_eq : forall c, 0 <= c -> g_needs_escape c = needs_escape c.
Proof.
  intros c H. unfold g_needs_escape, needs_escape.
  replace (0 <=? c) with true by (symmetry; apply Z.leb_le; exact H). reflexivity.
Qed.

Lemma g_join_rel_enc_eq : forall p, bytes p -> g_join_rel_enc p = join_rel_enc p.
Proof.
  intros p B. unfold g_join_rel_enc, join_rel_enc. induction B as [|c r Hc _ IH]; [reflexivity|].
  simpl. rewrite IH, g_needs_escape_eq by (destruct Hc; assumption). reflexivity.
Qed.

(* ---- minidump-common utils.rs basename: the same function as leafname, and its slice is in bounds ------ *)
Lemma rfind_pat_ext : forall f g s, (forall c, f c = g c) -> rfind_pat f s = rfind_pat g s.
Proof. intros f g s E. induction s as [|c r IH]; [reflexivity|]. simpl. rewrite IH, E. reflexivity. Qed.

Lemma rfind_none_has_sep : forall r, rfind_pat is_sep r = None -> has_sep r = false.
Proof.
  induction r as [|c r IH]; [reflexivity|]. cbn [rfind_pat]. intro H.
  destruct (rfind_pat is_sep r); [discriminate|]. destruct (is_sep c) eqn:E; [discriminate|].
  unfold has_sep. cbn [existsb]. rewrite E. exact (IH eq_refl).
Qed.
Lemma rfind_some_has_sep : forall r i, rfind_pat is_sep r = Some i -> has_sep r = true.
Proof.
  induction r as [|c r IH]; [discriminate|]. cbn [rfind_pat]. intros i H. unfold has_sep. cbn [existsb].
  destruct (rfind_pat is_sep r) as [j|] eqn:E.
  - rewrite (IH j eq_refl : existsb is_sep r = true). apply orb_true_r.
  - destruct (is_sep c); [reflexivity | discriminate].
Qed.

(* the slice &f[(index + 1)..] of basename is always in bounds (and starts after an ASCII byte) *)
Lemma rfind_pat_in_bounds : forall f s i, rfind_pat f s = Some i -> (i + 1 <= length s)%nat.
Proof.
  induction s as [|c r IH]; [discriminate|]. cbn [rfind_pat length]. intros i H.
  destruct (rfind_pat f r) as [j|].
  - inversion H. specialize (IH j eq_refl). lia.
  - destruct (f c); inversion H. lia.
Qed.

Lemma g_basename_eq : forall s, g_basename s = leafname s.
Proof.
  intro s. unfold g_basename. rewrite (rfind_pat_ext _ is_sep s pat_seps). unfold slice_from.
  induction s as [|c r IH]; [reflexivity|].
  change (leafname (c :: r)) with (if has_sep r then leafname r else if is_sep c then r else c :: r).
  cbn [rfind_pat]. destruct (rfind_pat is_sep r) as [j|] eqn:E.
  - rewrite (rfind_some_has_sep r j E). rewrite <- IH. replace (S j + 1)%nat with (S (j + 1)) by lia. reflexivity.
  - rewrite (rfind_none_has_sep r E). destruct (is_sep c); reflexivity.
Qed.

Lemma g_no_partial_ops : g_partial_ops = O.
Proof. reflexivity. Qed.

(* all of it in one statement (C17/Properties.v c17_src_tie) *)
Definition mv_args {A} (f : str -> option str -> option str -> option str -> A) (m : module_view) : A :=
  f (m_code_file m) (m_debug_file m) (m_debug_identifier m) (m_code_identifier m).

Lemma src_tie :
  (forall p, g_leafname p = leafname p) /\
  (forall p, g_safe_leafname p = safe_leafname p) /\
  (forall f e n, g_replace_or_add_extension f e n = replace_or_add_extension f e n) /\
  (forall m k, g_lookup m k = mv_args (lookup k) m) /\
  (forall m, g_breakpad_sym_lookup m = mv_args (lookup KBreakpadSym) m) /\
  (forall m, g_binary_lookup m = mv_args (lookup KBinary) m) /\
  (forall m, g_extra_debuginfo_lookup m = mv_args (lookup KExtraDebugInfo) m) /\
  (forall m, g_code_info_breakpad_sym_lookup m = code_info_breakpad_sym_lookup (m_code_file m) (m_code_identifier m)) /\
  (forall l, g_moz_lookup l = moz_lookup l) /\
  (forall p, bytes p -> g_join_rel_enc p = join_rel_enc p) /\
  g_partial_ops = O.
Proof.
  repeat split; intros; unfold mv_args;
    auto using g_leafname_eq, g_safe_leafname_eq, g_roae_eq, g_lookup_eq, g_code_info_eq, g_moz_eq, g_join_rel_enc_eq.
  - rewrite g_breakpad_sym_eq. reflexivity.
  - rewrite g_binary_eq. reflexivity.
  - rewrite g_extra_debuginfo_eq. reflexivity.
Qed.

(* ---- the property on the generated functions -------------------------------------------- *)
Definition mv_hex (m : module_view) : Prop := opt_hex (m_debug_identifier m) /\ opt_hex (m_code_identifier m).
Definition mv_bytes (m : module_view) : Prop := bytes (m_code_file m) /\ opt_bytes (m_debug_file m).

(* the request path the code produces for [rel]: generated encoder, then Url::join *)
Definition g_request_path (base_path rel : str) : option str := url_join_path base_path (g_join_rel_enc rel).

Lemma bytes_of_request : forall bp p, bytes p -> g_request_path bp p = request_path bp p.
Proof. intros bp p B. unfold g_request_path, request_path. rewrite g_join_rel_enc_eq by exact B. reflexivity. Qed.

Lemma src_relative : forall m k l, mv_hex m -> g_lookup m k = Some l ->
  safe_rel (cache_rel l) /\ safe_rel (server_rel l).
Proof. intros m k l [H1 H2] H. rewrite g_lookup_eq in H. exact (lookup_safe _ _ _ _ _ _ H1 H2 H). Qed.

Lemma src_code_info : forall m p, mv_hex m -> g_code_info_breakpad_sym_lookup m = Some p -> safe_rel p.
Proof. intros m p [_ H2] H. rewrite g_code_info_eq in H. exact (code_info_safe _ _ _ H2 H). Qed.

Lemma src_moz : forall m l, g_binary_lookup m = Some l ->
  exists l', g_moz_lookup l = Ret l' /\ cache_rel l' = cache_rel l /\
             (mv_hex m -> safe_rel (server_rel l')).
Proof.
  intros m l H. rewrite g_binary_eq in H. destruct (moz_no_panic_binary _ _ _ _ _ H) as [l' M].
  exists l'. rewrite g_moz_eq. split; [exact M|].
  split.
  - unfold moz_lookup in M. destruct (pop_char (server_rel l)); inversion M. reflexivity.
  - intros [H1 H2].
    assert (S : safe_rel (server_rel l)).
    { apply (lookup_safe (m_code_file m) (m_debug_file m) (m_debug_identifier m) (m_code_identifier m) KBinary l H1 H2 H). }
    exact (proj1 (moz_safe l l' S M)).
Qed.

Lemma lookup_bytes_server : forall m k l, mv_bytes m -> mv_hex m -> g_lookup m k = Some l ->
  bytes (server_rel l) /\ bytes (cache_rel l).
Proof.
  intros m k l [B1 B2] [H1 H2] H. rewrite g_lookup_eq in H.
  destruct (lookup_bytes k _ _ _ _ l B1 B2 H1 H2 H) as [Bc Bs]. split; assumption.
Qed.

(* end to end: every path of every FileKind, joined the way the consumers join it *)
Lemma src_contained : forall m k l, mv_bytes m -> mv_hex m -> g_lookup m k = Some l ->
  (forall style root, is_prefix root (join style root (cache_rel l)) = true) /\
  (forall base_path, exists r, g_request_path base_path (server_rel l) = Some r /\
                               is_prefix (base_dir base_path) r = true) /\
  (forall l', g_moz_lookup l = Ret l' ->
     cache_rel l' = cache_rel l /\
     forall base_path, exists r, g_request_path base_path (server_rel l') = Some r /\
                                 is_prefix (base_dir base_path) r = true).
Proof.
  intros m k l MB MH H.
  destruct (src_relative m k l MH H) as [Sc Ss].
  destruct (lookup_bytes_server m k l MB MH H) as [Bs Bc].
  destruct MB as [B1 B2]. destruct MH as [H1 H2].
  pose proof H as H'. rewrite g_lookup_eq in H'.
  split; [|split].
  - intros style root. exact (proj1 (join_contained style root (cache_rel l) Sc)).
  - intro bp. rewrite (bytes_of_request bp _ Bs).
    exact (proj1 (url_requests_contained bp k _ _ _ _ l B1 B2 H1 H2 H')).
  - intros l' M. rewrite g_moz_eq in M. split.
    + exact (proj2 (moz_safe l l' Ss M)).
    + intro bp.
      destruct (proj2 (url_requests_contained bp k _ _ _ _ l B1 B2 H1 H2 H') l' M) as [r [R P]].
      exists r. split; [|exact P].
      assert (Bl' : bytes (server_rel l')).
      { unfold moz_lookup in M. destruct (pop_char (server_rel l)) as [q|] eqn:Eq; inversion M. simpl.
        destruct (pop_char_prefix _ _ Eq) as [t [_ Et]]. rewrite Et in Bs.
        apply Forall_app in Bs. apply Forall_app. split; [exact (proj1 Bs)|].
        constructor; [split; lia | constructor]. }
      rewrite (bytes_of_request bp _ Bl'). exact R.
Qed.

Lemma src_code_info_contained : forall m p base_path, mv_bytes m -> mv_hex m ->
  g_code_info_breakpad_sym_lookup m = Some p ->
  safe_rel p /\ exists r, g_request_path base_path p = Some r /\ is_prefix (base_dir base_path) r = true.
Proof.
  intros m p bp [B1 _] [H1 H2] H. split; [exact (src_code_info m p (conj H1 H2) H)|].
  rewrite g_code_info_eq in H.
  rewrite (bytes_of_request bp p (code_info_bytes _ _ _ B1 H2 H)).
  exact (url_code_info_contained bp _ _ p B1 H2 H).
Qed.
