(* C17/IdProofs.v — every identifier VALUE renders as hex-only text: the hypothesis `opt_hex` of the path theorems
   holds for all DebugId values and all raw code id strings. *)
From RM Require Import C17.Model C17.Proofs C17.IdModel C17.Prims C17.Tie Gen.C17Lookup.
From Coq Require Import Lia.
Open Scope Z_scope.

Lemma hex_digit_hex : forall up n, 0 <= n < 16 -> is_hex (hex_digit up n) = true.
Proof.
  intros up n H.
  assert (E : n = 0 \/ n = 1 \/ n = 2 \/ n = 3 \/ n = 4 \/ n = 5 \/ n = 6 \/ n = 7 \/ n = 8 \/ n = 9 \/
              n = 10 \/ n = 11 \/ n = 12 \/ n = 13 \/ n = 14 \/ n = 15) by lia.
  repeat (destruct E as [E|E]; [subst n; destruct up; reflexivity|]). subst n; destruct up; reflexivity.
Qed.

Lemma hex_fixed_hex : forall up d v, hex_only (hex_fixed up d v).
Proof.
  intros up d. induction d as [|d IH]; intro v; [constructor|].
  cbn [hex_fixed]. apply Forall_app. split; [apply IH|].
  constructor; [|constructor]. apply hex_digit_hex. apply Z.mod_pos_bound. lia.
Qed.

Lemma strip_zeros_hex : forall s, hex_only s -> hex_only (strip_zeros s).
Proof.
  induction s as [|c r IH]; intro H; [exact H|].
  destruct r as [|c' r']; [exact H|]. cbn [strip_zeros].
  destruct (c =? 48); [apply IH; inversion H; assumption | exact H].
Qed.

Lemma breakpad_text_hex : forall d, hex_only (breakpad_text d).
Proof.
  intro d. unfold breakpad_text, hex_min. apply Forall_app. split; [apply hex_fixed_hex|].
  apply strip_zeros_hex. apply hex_fixed_hex.
Qed.

Lemma lower_hex : forall c, is_hex c = true -> is_hex (lower c) = true.
Proof.
  intros c H. pose proof (hex_cases c H) as E.
  repeat (destruct E as [E|E]; [subst c; reflexivity|]). subst c; reflexivity.
Qed.

Lemma code_id_text_hex : forall raw, hex_only (code_id_text raw).
Proof.
  intro raw. unfold code_id_text, hex_only. apply Forall_forall. intros c Hc.
  apply in_map_iff in Hc. destruct Hc as [x [Ex Hx]]. subst c.
  apply filter_In in Hx. apply lower_hex. exact (proj2 Hx).
Qed.

(* a module whose identifiers are arbitrary VALUES: any DebugId, any raw code id text *)
Definition module_of_ids (code_file : str) (debug_file : option str) (d : option debug_id) (raw_code_id : option str)
  : module_view :=
  {| m_code_file := code_file; m_code_identifier := option_map code_id_text raw_code_id;
     m_debug_file := debug_file; m_debug_identifier := option_map breakpad_text d |}.

Lemma module_of_ids_hex : forall cf df d raw, mv_hex (module_of_ids cf df d raw).
Proof.
  intros cf df d raw. split; cbn.
  - destruct d; cbn; [apply breakpad_text_hex | exact I].
  - destruct raw; cbn; [apply code_id_text_hex | exact I].
Qed.

Lemma src_all_ids : forall cf df d raw k l,
  g_lookup (module_of_ids cf df d raw) k = Some l -> safe_rel (cache_rel l) /\ safe_rel (server_rel l).
Proof. intros cf df d raw k l. exact (src_relative _ k l (module_of_ids_hex cf df d raw)). Qed.

Lemma ids_render_hex : (forall d, hex_only (breakpad_text d)) /\ (forall raw, hex_only (code_id_text raw)).
Proof. exact (conj breakpad_text_hex code_id_text_hex). Qed.

Lemma parse_render_nonvacuous :
  option_map breakpad_text (parse_breakpad [51;99;48;100;50;49;101;52;48;48;48;49]) = Some [51;67;48;68;50;49;69;52;49] /\
  option_map breakpad_text (parse_breakpad (repeat 48 33)) = Some (repeat 48 33) /\
  code_id_text [53;65;47;46;46;92;71;102] = [53;97;102].
Proof. repeat split; vm_compute; reflexivity. Qed.
