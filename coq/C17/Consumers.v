(* C17/Consumers.v — what the CONSUMERS of the lookups join onto a root (definitions only).
   The property covers every string that is joined onto a symbol directory, a cache directory
   or a server URL, not only the builders' return values.  [modelled_join_sites] lists every
   `.join(` / `join_rel(` call of the non-test code of breakpad-symbols/src/{lib,http}.rs
   (regenerated as Gen/JoinSites.v by translate/join_sites.py on every run; C17/Properties proves
   the two lists equal) together with what the model says is joined there. *)
From Coq Require Import String.
From RM Require Export C17.Model.
Open Scope Z_scope.

Inductive root := SymbolDir | CacheDir | ServerUrl.

Inductive consumer :=
| SimpleLocateFile (k : kind)     (* lib.rs SimpleSymbolSupplier::locate_file (locate_symbols goes through it) *)
| HttpFetchSymbolFile             (* http.rs fetch_symbol_file *)
| HttpFetchLookup (k : kind)      (* http.rs fetch_lookup (locate_file_internal, all kinds) *)
| HttpFetchCabLookup (k : kind)   (* http.rs fetch_cab_lookup + unpack_cabinet_file (feature mozilla_cab_symbols) *)
| HttpCodeInfo.                   (* http.rs individual_lookup_debug_info_by_code_info *)

Definition of_lookup (o : option file_lookup) (f : file_lookup -> list (root * str)) : list (root * str) :=
  match o with Some l => f l | None => [] end.

(* every (root, string) pair the consumer passes to Path::join / join_rel for this module *)
Definition joined_fields (c : consumer) (code_file : str) (debug_file dbg_id code_id : option str)
  : list (root * str) :=
  match c with
  | SimpleLocateFile k =>
      of_lookup (lookup k code_file debug_file dbg_id code_id) (fun l => [(SymbolDir, cache_rel l)])
  | HttpFetchSymbolFile =>
      of_lookup (lookup KBreakpadSym code_file debug_file dbg_id code_id)
                (fun l => [(ServerUrl, server_rel l); (CacheDir, cache_rel l)])
  | HttpFetchLookup k =>
      of_lookup (lookup k code_file debug_file dbg_id code_id)
                (fun l => [(ServerUrl, server_rel l); (CacheDir, cache_rel l)])
  | HttpFetchCabLookup k =>
      of_lookup (lookup k code_file debug_file dbg_id code_id)
                (fun l => match moz_lookup l with
                          | Ret l' => [(ServerUrl, server_rel l'); (CacheDir, cache_rel l)]
                          | _ => []
                          end)
  | HttpCodeInfo =>
      match code_info_breakpad_sym_lookup code_file code_id with
      | Some p => [(ServerUrl, p)]
      | None => []
      end
  end.

(* what a call site is, in the model *)
Inductive site_class :=
| Builder                      (* slice join inside a path builder: modelled by rel3 / replace_or_add_extension *)
| InsideJoinRel                (* base_url.join(&escaped): the Url::join of C17/UrlModel.v *)
| Joins (c : consumer) (r : root).   (* a consumer joining one of its joined_fields onto root r *)

Open Scope string_scope.
Definition modelled_join_sites : list ((string * string * string) * site_class) := [
  (("lib.rs", "replace_or_add_extension", "bits.join(""."")"), Builder);
  (("lib.rs", "breakpad_sym_lookup", "[leaf,&debug_id.breakpad().to_string(),&filename[..]].join(""/"")"), Builder);
  (("lib.rs", "code_info_breakpad_sym_lookup", "[leaf,&code_identifier.to_string().to_uppercase(),&filename[..],].join(""/"")"), Builder);
  (("lib.rs", "extra_debuginfo_lookup", "[leaf,&debug_id.breakpad().to_string(),leaf].join(""/"")"), Builder);
  (("lib.rs", "binary_lookup", "[debug_leaf,&debug_id.breakpad().to_string(),bin_leaf].join(""/"")"), Builder);
  (("lib.rs", "binary_lookup", "[bin_leaf,code_id.as_ref(),bin_leaf].join(""/"")"), Builder);
  (("lib.rs", "locate_file", "path.join(lookup.cache_rel.clone())"), Joins (SimpleLocateFile KBinary) SymbolDir);
  (("http.rs", "join_rel", "base_url.join(&escaped)"), InsideJoinRel);
  (("http.rs", "individual_lookup_debug_info_by_code_info", "join_rel(base_url,lookup_path)"), Joins HttpCodeInfo ServerUrl);
  (("http.rs", "fetch_symbol_file", "join_rel(base_url,&sym_lookup.server_rel)"), Joins HttpFetchSymbolFile ServerUrl);
  (("http.rs", "fetch_symbol_file", "cache.join(sym_lookup.cache_rel)"), Joins HttpFetchSymbolFile CacheDir);
  (("http.rs", "fetch_lookup", "join_rel(base_url,&lookup.server_rel)"), Joins (HttpFetchLookup KBinary) ServerUrl);
  (("http.rs", "fetch_lookup", "cache.join(&lookup.cache_rel)"), Joins (HttpFetchLookup KBinary) CacheDir);
  (("http.rs", "fetch_cab_lookup", "join_rel(base_url,&cab_lookup.server_rel)"), Joins (HttpFetchCabLookup KBinary) ServerUrl);
  (("http.rs", "get_cabinet_file", "cache.join(&lookup.cache_rel)"), Joins (HttpFetchCabLookup KBinary) CacheDir)
].
