(* C17/Properties.v — property theorems only.
   Strings are byte lists; [safe_rel p] is exactly the property's three conditions:
   p does not start with '/' or '\\' (hence no UNC prefix), has no drive prefix (ASCII
   letter + ':' as its first two bytes), and no component — split on either separator —
   equal to "..".  A first component "." or an empty path is not flagged. *)
From RM Require Import C17.Model C17.Proofs.
Open Scope Z_scope.

(* All (code_file, debug_file, hex-only debug id, hex-only code id), every FileKind:
   every produced cache_rel / server_rel is genuinely relative. *)
Theorem c17_relative : forall code_file debug_file dbg_id code_id kind l,
  opt_hex dbg_id -> opt_hex code_id ->
  lookup kind code_file debug_file dbg_id code_id = Some l ->
  safe_rel (cache_rel l) /\ safe_rel (server_rel l).
Proof. exact lookup_safe. Qed.
Print Assumptions c17_relative.

(* the code-info variant (`<code file>/<CODE ID>/<code file>.sym`) *)
Theorem c17_relative_code_info : forall code_file code_id p, opt_hex code_id ->
  code_info_breakpad_sym_lookup code_file code_id = Some p -> safe_rel p.
Proof. exact code_info_safe. Qed.
Print Assumptions c17_relative_code_info.

(* the mozilla-CAB variant: moz_lookup keeps a safe server path safe, leaves cache_rel
   alone, and its `.pop().unwrap()` never panics on what binary_lookup produces *)
Theorem c17_relative_moz : forall l l', safe_rel (server_rel l) -> moz_lookup l = Ret l' ->
  safe_rel (server_rel l') /\ cache_rel l' = cache_rel l.
Proof. exact moz_safe. Qed.
Print Assumptions c17_relative_moz.

Theorem c17_moz_no_panic : forall code_file code_id debug_file dbg_id l,
  binary_lookup code_file code_id debug_file dbg_id = Some l -> exists l', moz_lookup l = Ret l'.
Proof. exact moz_no_panic_binary. Qed.
Print Assumptions c17_moz_no_panic.

(* Joining a safe relative path onto any root — POSIX Path::join, Windows Path::join, URL
   by concatenation — appends it (after at most one separator): the root stays a prefix
   and nothing appended is a ".." component. *)
Theorem c17_join_contained : forall style root rel, safe_rel rel ->
  is_prefix root (join style root rel) = true /\
  exists s, join style root rel = root ++ s ++ rel /\ (s = [] \/ s = [47] \/ s = [92]) /\
            Forall (fun c => c <> dotdot) (split_seps (s ++ rel)).
Proof. exact join_contained. Qed.
Print Assumptions c17_join_contained.

(* ... and onto a VERBATIM Windows root (`\\?\C:\cache`), where PathBuf::push replays the argument's
   components instead of appending text: the root's components stay a prefix and only ordinary
   components (not "..", ".", "") are added *)
Theorem c17_join_verbatim_contained : forall root_components rel, safe_rel rel ->
  exists t, verbatim_push root_components (split_seps rel) = root_components ++ t /\
            Forall (fun c => c <> dotdot /\ c <> [] /\ c <> [46]) t.
Proof. intros b rel [_ [_ H]]. exact (verbatim_push_appends (split_seps rel) b H). Qed.
Print Assumptions c17_join_verbatim_contained.

(* The tree before the fix of F-C17a ([lookup_gen false]: every leaf used as it is)
   violates each of the three conditions; debug files "..", "" and "C:evil.pdb". *)
Definition id33 : str := repeat 48 33.   (* DebugId::nil().breakpad() = "0" x 33 *)
Theorem c17_relative_unfixed_refuted :
  (exists df l, lookup_gen false KBreakpadSym [] (Some df) (Some id33) None = Some l /\
                hex_only id33 /\ Exists (fun c => c = dotdot) (split_seps (cache_rel l))) /\
  (exists df l, lookup_gen false KBreakpadSym [] (Some df) (Some id33) None = Some l /\
                starts_with_sep (cache_rel l) = true) /\
  (exists df l, lookup_gen false KBreakpadSym [] (Some df) (Some id33) None = Some l /\
                has_drive_prefix (cache_rel l) = true) /\
  (exists cf l, lookup_gen false KBinary cf (Some [97]) (Some id33) (Some []) = Some l /\
                safe_relb (cache_rel l) = false /\ safe_relb (server_rel l) = false).
Proof.
  split; [|split; [|split]].
  - exists dotdot. eexists. split; [vm_compute; reflexivity|]. split.
    + unfold id33. apply Forall_forall. intros c Hc. apply repeat_spec in Hc. subst c. reflexivity.
    + vm_compute. constructor. reflexivity.
  - exists []. eexists. split; [vm_compute; reflexivity|]. vm_compute. reflexivity.
  - exists [67; 58; 101; 118; 105; 108; 46; 112; 100; 98]. eexists.
    split; [vm_compute; reflexivity|]. vm_compute. reflexivity.
  - exists [97; 47; 46; 46]. eexists. split; [vm_compute; reflexivity|]. split; vm_compute; reflexivity.
Qed.
Print Assumptions c17_relative_unfixed_refuted.

(* the fix only removes answers: whatever the code returns now, it returned before *)
Theorem c17_fix_conservative : forall kind code_file debug_file dbg_id code_id l,
  lookup kind code_file debug_file dbg_id code_id = Some l ->
  lookup_gen false kind code_file debug_file dbg_id code_id = Some l.
Proof. exact lookup_fix_conservative. Qed.
Print Assumptions c17_fix_conservative.

(* ---- non-vacuity ---- *)
(* "c:\foo\Test.PDB", id 5A9832E5287241C1838ED98914E9B7FF + 1, code file "C:/w/kernel32.dll", code id 5a9832e5 *)
Definition ex_id : str :=
  [53;65;57;56;51;50;69;53;50;56;55;50;52;49;67;49;56;51;56;69;68;57;56;57;49;52;69;57;66;55;70;70;49].
Example c17_nonvacuous_binary :
  exists l, lookup KBinary [67;58;47;119;47;107;46;100;108;108] (Some [99;58;92;102;111;111;92;84;46;80;68;66])
                   (Some ex_id) (Some [53;97]) = Some l /\
            cache_rel l = [84;46;80;68;66;47] ++ ex_id ++ [47;107;46;100;108;108] /\
            server_rel l = [107;46;100;108;108;47;53;97;47;107;46;100;108;108] /\
            hex_only ex_id /\ safe_relb (cache_rel l) = true.
Proof.
  eexists. split; [vm_compute; reflexivity|]. split; [reflexivity|]. split; [reflexivity|].
  split; [|vm_compute; reflexivity].
  repeat (constructor; [reflexivity|]). constructor.
Qed.
(* ".PDB" is matched case-insensitively and replaced: T.PDB -> T.sym *)
Example c17_nonvacuous_sym :
  option_map cache_rel (lookup KBreakpadSym [] (Some [99;58;92;84;46;80;68;66]) (Some [48;49]) None)
  = Some [84;46;80;68;66;47;48;49;47;84;46;115;121;109].
Proof. vm_compute. reflexivity. Qed.
(* the fixed code still answers for the leaf "." (not a violation by the property's wording) *)
Example c17_nonvacuous_dot :
  option_map cache_rel (lookup KBreakpadSym [] (Some [46]) (Some [48]) None) = Some [46;47;48;47;46;46;115;121;109]
  /\ safe_relb [46;47;48;47;46;46;115;121;109] = true.
Proof. split; vm_compute; reflexivity. Qed.
(* and declines the degenerate leaves *)
Example c17_nonvacuous_declined :
  lookup KBreakpadSym [] (Some dotdot) (Some [48]) None = None /\
  lookup KBreakpadSym [] (Some [97;47]) (Some [48]) None = None /\
  lookup KBreakpadSym [] (Some [67;58;101]) (Some [48]) None = None.
Proof. repeat split; vm_compute; reflexivity. Qed.
(* the join model does replace the root for unsafe arguments (it is not an append in disguise) *)
Example c17_nonvacuous_join :
  join Posix [47;115] [47;120] = [47;120] /\
  join Windows [67;58;92;115] [68;58;120] = [68;58;120] /\
  join Windows [67;58;92;115] [92;120] = [67;58;92;120] /\
  join Windows [67;58;92;115] [92;92;120] = [92;92;120] /\
  join Posix [47;115] [97;47;98] = [47;115;47;97;47;98] /\
  join Windows [67;58;92;115] [97;47;98] = [67;58;92;115;92;97;47;98] /\
  join Windows [67;58] [97] = [67;58;97] /\
  join Posix [47;115;47] [] = [47;115;47] /\ join Posix [47;115] [] = [47;115;47] /\
  verbatim_push [[99]; [100]] (split_seps [46;46;47;97;47;46;47;47;98]) = [[99]; [97]; [98]].   (* c\d + "../a/.//b" *)
Proof. repeat split; vm_compute; reflexivity. Qed.
(* moz_lookup pops one *character*: "a/1/é" -> "a/1/_" *)
Example c17_nonvacuous_moz :
  moz_lookup {| cache_rel := [97]; server_rel := [97;47;49;47;195;169] |}
  = Ret {| cache_rel := [97]; server_rel := [97;47;49;47;95] |}.
Proof. vm_compute. reflexivity. Qed.

(* ====================================================================================
   URL joining as the code does it: http.rs join_rel (percent-encoding) followed by
   Url::join, i.e. WHATWG reference resolution against an http(s) base (C17/UrlModel.v:
   input trimming, scheme detection, the relative / absolute-path / authority / query /
   fragment branches, pop_path, segment splitting on '/' and '\', the PATH percent-encode
   set, single- and double-dot segments in all nine + three spellings).
   [request_path base_path rel] is the path of the URL requested for [rel]; [None] means
   the reference selected another scheme or authority.  [bytes]: every element is 0..255. *)
From RM Require Import C17.UrlModel C17.UrlProofs C17.UrlFull C17.UrlFullProofs.

(* every safe relative byte path: the encoded reference is a plain relative path (no scheme,
   authority, query or fragment can be parsed from it) and resolution only appends to the base
   directory — for EVERY base path *)
Theorem c17_url_join_contained : forall base_path p, bytes p -> safe_rel p ->
  exists r, request_path base_path p = Some r /\
            ((p = [] /\ r = base_path) \/ exists t, r = base_dir base_path ++ t).
Proof. exact url_join_contained. Qed.
Print Assumptions c17_url_join_contained.

(* hence every server path the builders produce (all byte strings, hex ids, all kinds, and the
   mozilla-CAB variant) is requested below the base directory *)
Theorem c17_url_requests_contained : forall base_path kind code_file debug_file dbg_id code_id l,
  bytes code_file -> opt_bytes debug_file -> opt_hex dbg_id -> opt_hex code_id ->
  lookup kind code_file debug_file dbg_id code_id = Some l ->
  (exists r, request_path base_path (server_rel l) = Some r /\ is_prefix (base_dir base_path) r = true) /\
  (forall l', moz_lookup l = Ret l' ->
     exists r, request_path base_path (server_rel l') = Some r /\ is_prefix (base_dir base_path) r = true).
Proof. exact url_requests_contained. Qed.
Print Assumptions c17_url_requests_contained.

Theorem c17_url_code_info_contained : forall base_path code_file code_id p,
  bytes code_file -> opt_hex code_id ->
  code_info_breakpad_sym_lookup code_file code_id = Some p ->
  exists r, request_path base_path p = Some r /\ is_prefix (base_dir base_path) r = true.
Proof. exact url_code_info_contained. Qed.
Print Assumptions c17_url_code_info_contained.

(* F-C17b: without join_rel's encoding (the tree before f01a962) paths that satisfy the three
   conditions leave the base directory /root/ or the server *)
Theorem c17_url_unencoded_refuted :
  let root := [47;114;47] in                                         (* "/r/" *)
  safe_relb [37;50;69;37;50;69;47;48;47;120] = true /\               (* "%2E%2E/0/x" *)
  url_join_path root [37;50;69;37;50;69;47;48;47;120] = Some [47;48;47;120] /\   (* "/0/x" *)
  safe_relb [9;47;48;47;120] = true /\ url_join_path root [9;47;48;47;120] = Some [47;48;47;120] /\  (* TAB leaf *)
  safe_relb [46;9;46;47;48] = true /\ url_join_path root [46;9;46;47;48] = Some [47;48] /\           (* ".<TAB>./0" *)
  safe_relb [97;98;58;99;47;48] = true /\ url_join_path root [97;98;58;99;47;48] = None.            (* "ab:c/0" *)
Proof. cbv zeta. repeat split; vm_compute; reflexivity. Qed.
Print Assumptions c17_url_unencoded_refuted.

(* with the encoding the same leaves stay below /r/ *)
Example c17_nonvacuous_url :
  request_path [47;114;47] [37;50;69;37;50;69;47;48;47;120]
    = Some [47;114;47;37;50;53;50;69;37;50;53;50;69;47;48;47;120] /\        (* /r/%252E%252E/0/x *)
  request_path [47;114;47] [46;9;46;47;48] = Some [47;114;47;46;37;48;57;46;47;48] /\   (* /r/.%09./0 *)
  request_path [47;114;47;105] [46;47;97;32;195;169] = Some [47;114;47;97;37;50;48;37;67;51;37;65;57] /\ (* "./a é" on /r/i -> /r/a%20%C3%A9 *)
  url_join_path [47;114;47;115;47] [46;46;47;46;46;47;46;46;47;120] = Some [47;120].      (* the model pops, never above "/" *)
Proof. repeat split; vm_compute; reflexivity. Qed.

(* ====================================================================================
   Round 5, second pass — the WHOLE of Url::join's dispatch (C17/UrlFull.v): scheme detection incl. the
   "special scheme equal to the base's, fewer than two slashes => relative" rule, file / non-special schemes, the
   authority branch (leading "//", "\\/", ...), absolute paths, query / fragment — not only the relative-path
   branch the path-only model answers.  [request_target scheme base_path p] = where http.rs sends the request for
   the lookup path p: JSame path (the configured server), JAuthority (another host), JOpaque (another scheme). *)

(* ALL byte strings p, no hypothesis at all: after join_rel's encoding the request never leaves the configured
   server's scheme, and it leaves its authority (host) exactly when p starts with "//" *)
Theorem c17_url_resolve_all_strings : forall base_scheme base_path p, bytes p ->
  match request_target base_scheme base_path p with
  | JOpaque _ _ => False
  | JAuthority s _ => s = base_scheme /\ starts_two_slashes p = true
  | JSame _ => starts_two_slashes p = false
  end.
Proof. exact resolve_all_strings. Qed.
Print Assumptions c17_url_resolve_all_strings.

(* the exact request target of every byte string (target_spec: the empty path keeps the base path; "//" selects an
   authority; one leading "/" resolves from the root; anything else below the base directory, segment by segment) *)
Theorem c17_url_resolve_exact : forall base_scheme base_path p, bytes p ->
  request_target base_scheme base_path p = target_spec base_scheme base_path p.
Proof. exact request_target_all. Qed.
Print Assumptions c17_url_resolve_exact.

(* a safe relative path: the configured scheme and authority, and a path below the base directory *)
Theorem c17_url_resolve_contained : forall base_scheme base_path p, bytes p -> safe_rel p ->
  exists r, request_target base_scheme base_path p = JSame r /\
            ((p = [] /\ r = base_path) \/ exists t, r = base_dir base_path ++ t).
Proof. exact resolve_contained. Qed.
Print Assumptions c17_url_resolve_contained.

(* the full model and the path-only model of C17/UrlModel.v agree wherever the latter answers *)
Theorem c17_url_models_agree : forall base_scheme base_path reference q,
  url_join_path base_path reference = Some q -> url_resolve base_scheme base_path reference = JSame q.
Proof. exact resolve_agrees. Qed.
Print Assumptions c17_url_models_agree.

(* non-vacuity / what the other branches do on raw references (these are what the url crate is compared with):
   https://e/x -> host e; http:x against an http base is RELATIVE (/r/x) but against https it is host x;
   //e/x and \/e?x -> host e; HT<TAB>TP:/x -> /x; ab:c and File:///x -> another scheme; /x and ../x -> /x *)
Example c17_nonvacuous_url_branches :
  url_resolve s_http b_r [104;116;116;112;115;58;47;47;101;47;120] = JAuthority s_https [101] /\
  url_resolve s_http b_r [104;116;116;112;58;120] = JSame [47;114;47;120] /\
  url_resolve s_https b_r [104;116;116;112;58;120] = JAuthority s_http [120] /\
  url_resolve s_http b_r [104;116;116;112;58;47;47;101;64;102;47] = JAuthority s_http [101;64;102] /\
  url_resolve s_http b_r [47;47;101;47;120] = JAuthority s_http [101] /\
  url_resolve s_http b_r [92;47;101;63;120] = JAuthority s_http [101] /\
  url_resolve s_http b_r [72;84;9;84;80;58;47;120] = JSame [47;120] /\
  url_resolve s_http b_r [97;98;58;99] = JOpaque [97;98] [99] /\
  url_resolve s_http b_r [70;105;108;101;58;47;47;47;120] = JOpaque s_file [47;47;47;120] /\
  url_resolve s_http b_r [47;120] = JSame [47;120] /\
  url_resolve s_http b_r [46;46;47;120] = JSame [47;120].
Proof. exact resolve_branches. Qed.
(* and through join_rel: "https://e/x" -> /r/https%3A//e/x, "\\\\e\\x" -> /r/%5C%5Ce%5Cx on the configured server;
   "//e/x" -> host e and "/x" -> /x: the two shapes the property's first condition excludes *)
Example c17_nonvacuous_url_encoded :
  request_target s_http b_r [104;116;116;112;115;58;47;47;101;47;120]
    = JSame [47;114;47;104;116;116;112;115;37;51;65;47;47;101;47;120] /\
  request_target s_http b_r [92;92;101;92;120] = JSame [47;114;47;37;53;67;37;53;67;101;37;53;67;120] /\
  request_target s_http b_r [47;47;101;47;120] = JAuthority s_http [101] /\
  request_target s_http b_r [47;120] = JSame [47;120].
Proof. exact resolve_encoded_examples. Qed.

(* ====================================================================================
   The consumers.  [joined_fields c module] is every string consumer c passes to Path::join or
   join_rel for the module (C17/Consumers.v); Gen/JoinSites.v is every `.join(` / `join_rel(`
   call of the non-test code of breakpad-symbols/src/{lib,http}.rs, regenerated on every run. *)
From RM Require Import C17.Consumers Gen.JoinSites.

(* every string a modelled consumer joins onto a symbol directory, a cache directory or a
   server URL is a safe relative path: all byte strings, hex ids, every consumer *)
Theorem c17_consumers_join_only_safe : forall c code_file debug_file dbg_id code_id,
  opt_hex dbg_id -> opt_hex code_id ->
  forall r s, In (r, s) (joined_fields c code_file debug_file dbg_id code_id) -> safe_rel s.
Proof. exact consumers_join_only_safe. Qed.
Print Assumptions c17_consumers_join_only_safe.

(* the join sites of the source are exactly the modelled ones (a new or changed join site —
   e.g. joining FileLookup.debug_file — fails here, and Coq prints both lists) *)
Theorem c17_join_sites_modelled : join_sites = map fst modelled_join_sites.
Proof. vm_compute. reflexivity. Qed.
Print Assumptions c17_join_sites_modelled.

(* ====================================================================================
   Round 5 — the property on the model GENERATED from the Rust source.
   Gen/C17Lookup.v is compiled on every run by translate/c17_lookup.py from the bodies of leafname,
   safe_leafname, replace_or_add_extension, the four builders, moz_lookup, lookup (lib.rs) and the
   escape set of join_rel (http.rs), over the std vocabulary of C17/Prims.v.  [module_view] is the module
   as the builders see it (code_file, code_identifier, debug_file, debug_identifier as breakpad text). *)
From RM Require Import C17.Prims C17.Tie Gen.C17Lookup.

(* the generated functions ARE the model the theorems above are about: for all strings / modules.
   (which separator leafname searches, the emptiness / `..` / drive tests of safe_leafname, the order of the
   `?` steps and which leaf goes where in each builder, moz_lookup's pop/push, lookup's dispatch, the
   characters join_rel escapes, and no slice expression that could panic) *)
Theorem c17_src_tie :
  (forall p, g_leafname p = leafname p) /\
  (forall p, g_safe_leafname p = safe_leafname p) /\
  (forall f e n, g_replace_or_add_extension f e n = replace_or_add_extension f e n) /\
  (forall m k, g_lookup m k = mv_args (lookup k) m) /\
  (forall m, g_breakpad_sym_lookup m = mv_args (lookup KBreakpadSym) m) /\
  (forall m, g_binary_lookup m = mv_args (lookup KBinary) m) /\
  (forall m, g_extra_debuginfo_lookup m = mv_args (lookup KExtraDebugInfo) m) /\
  (forall m, g_code_info_breakpad_sym_lookup m = code_info_breakpad_sym_lookup (m_code_file m) (m_code_identifier m)) /\
  (forall l, g_moz_lookup l = moz_lookup l) /\
  (forall p, bytes p -> g_join_rel_enc p = join_rel_enc p) /\
  g_partial_ops = O.
Proof. exact src_tie. Qed.
Print Assumptions c17_src_tie.

(* the property, stated directly on the generated code: every module (all strings incl. mixed and
   trailing separators, hex ids), every FileKind *)
Theorem c17_src_relative : forall m kind l, mv_hex m -> g_lookup m kind = Some l ->
  safe_rel (cache_rel l) /\ safe_rel (server_rel l).
Proof. exact src_relative. Qed.
Print Assumptions c17_src_relative.

(* ... and joined the way the consumers join it: cache_rel onto any root by Path::join (POSIX / Windows)
   or concatenation keeps the root a prefix; server_rel — also after moz_lookup — through the generated
   join_rel encoder and Url::join is requested below the base directory of every base path *)
Theorem c17_src_contained : forall m kind l, mv_bytes m -> mv_hex m -> g_lookup m kind = Some l ->
  (forall style root, is_prefix root (join style root (cache_rel l)) = true) /\
  (forall base_path, exists r, g_request_path base_path (server_rel l) = Some r /\
                               is_prefix (base_dir base_path) r = true) /\
  (forall l', g_moz_lookup l = Ret l' ->
     cache_rel l' = cache_rel l /\
     forall base_path, exists r, g_request_path base_path (server_rel l') = Some r /\
                                 is_prefix (base_dir base_path) r = true).
Proof. exact src_contained. Qed.
Print Assumptions c17_src_contained.

Theorem c17_src_code_info_contained : forall m p base_path, mv_bytes m -> mv_hex m ->
  g_code_info_breakpad_sym_lookup m = Some p ->
  safe_rel p /\ exists r, g_request_path base_path p = Some r /\ is_prefix (base_dir base_path) r = true.
Proof. exact src_code_info_contained. Qed.
Print Assumptions c17_src_code_info_contained.

(* moz_lookup's unwrap never panics on what the generated binary_lookup returns; the result stays safe *)
Theorem c17_src_moz : forall m l, g_binary_lookup m = Some l ->
  exists l', g_moz_lookup l = Ret l' /\ cache_rel l' = cache_rel l /\ (mv_hex m -> safe_rel (server_rel l')).
Proof. exact src_moz. Qed.
Print Assumptions c17_src_moz.

(* non-vacuity: a module with mixed separators ("c:\b/T.PDB", code file "C:/w\k.dll"); the names the seeded
   changes C17-5 / C17-6 turn into escapes are declined ("x\../s" has the leaf "s"; "a\" and "C:\w/" have none) *)
Definition ex_module (cf df : str) : module_view :=
  {| m_code_file := cf; m_code_identifier := Some [53;97]; m_debug_file := Some df; m_debug_identifier := Some ex_id |}.
Example c17_nonvacuous_src :
  (exists l, g_lookup (ex_module [67;58;47;119;92;107;46;100;108;108] [99;58;92;98;47;84;46;80;68;66]) KBinary = Some l /\
             cache_rel l = [84;46;80;68;66;47] ++ ex_id ++ [47;107;46;100;108;108] /\
             server_rel l = [107;46;100;108;108;47;53;97;47;107;46;100;108;108]) /\
  mv_hex (ex_module [] []) /\
  option_map cache_rel (g_lookup (ex_module [107] [120;92;46;46;47;115]) KExtraDebugInfo)
    = Some ([115;47] ++ ex_id ++ [47;115]) /\
  g_lookup (ex_module [107] [97;92]) KBreakpadSym = None /\
  g_lookup (ex_module [67;58;92;119;47] [97]) KBinary = None /\
  g_leafname [120;47;46;46;92;115;47] = [] /\ g_leafname [120;92;46;46;47;115] = [115] /\
  g_join_rel_enc [97;58;37;32;98] = [97;37;51;65;37;50;53;37;50;48;98].
Proof.
  split; [eexists; split; [vm_compute; reflexivity | split; reflexivity]|].
  split; [split; [|repeat constructor]; repeat (constructor; [reflexivity|]); constructor|].
  repeat split; vm_compute; reflexivity.
Qed.

(* ====================================================================================
   Round 5 — the consumers, derived from the source.  Gen/C17Flow.v (translate/c17_flow.py) lists every
   `.join(` / `join_rel(` call of SimpleSymbolSupplier / HttpSymbolSupplier (lib.rs, http.rs, outside the path
   builders) with the PROVENANCE of the joined string (which builder produced the FileLookup whose cache_rel /
   server_rel is joined, followed through parameters to every call site; moz_lookup of it; the code-info path)
   and of the root (a symbol directory of self.paths, the cache directory, a server URL). *)
From RM Require Import C17.FlowModel C17.FlowProofs Gen.C17Flow.

(* nothing is joined that did not come out of a lookup builder, onto no root of unknown origin
   (an unknown entry — FileLookup.debug_file, a raw module name, a formatted string — is printed by Coq) *)
Theorem c17_src_consumers_known : unknown_sites g_consumer_joins = [].
Proof. exact all_sites_known. Qed.
Print Assumptions c17_src_consumers_known.

(* every join site, every module (all byte strings, hex ids), every FileKind: the joined string is a safe
   relative path and stays below its root — Path::join under POSIX and Windows rules and by concatenation for
   directories (root a prefix, at most one separator added, no `..` component), join_rel + Url::join for server URLs
   (requested below the base directory of every base path) *)
Theorem c17_src_consumers_contained : forall s m kind p,
  In s g_consumer_joins -> mv_bytes m -> mv_hex m ->
  eval_arg (s_arg s) m kind = Some p -> safe_rel p /\ below_root (s_root s) p.
Proof. exact flow_contained. Qed.
Print Assumptions c17_src_consumers_contained.

(* the two extractions agree on which calls are consumer joins *)
Theorem c17_src_flow_sites_agree :
  map (fun s => (s_file s, s_text s)) g_consumer_joins
  = map (fun x => site_key (fst x)) (filter is_consumer_site modelled_join_sites).
Proof. exact flow_sites_are_the_join_sites. Qed.
Print Assumptions c17_src_flow_sites_agree.

(* non-vacuity: for an ordinary module every extracted site does join something *)
Example c17_nonvacuous_flow : forall s, In s g_consumer_joins ->
  exists p, eval_arg (s_arg s)
              {| m_code_file := [107;46;100;108;108]; m_code_identifier := Some [53;97];
                 m_debug_file := Some [97;92;84;46;112;100;98]; m_debug_identifier := Some [48;49] |} KBinary = Some p.
Proof. exact flow_nonvacuous. Qed.

(* the string-free copy of the site list the extracted driver reads (it predicts what the filesystem probe
   observes: which path each supplier returns and which files appear under the cache) is the site list *)
Theorem c17_src_flow_table : g_flow_table = map flow_row g_consumer_joins.
Proof. exact flow_table_is_the_site_list. Qed.
Print Assumptions c17_src_flow_table.

(* ====================================================================================
   Round 5 — the identifiers as values (C17/IdModel.v, read from debugid 0.8.0): every DebugId value (PDB 7 or
   PDB 2.0, any uuid / timestamp / appendix) and every raw code id string renders as hex-only text, so the
   hypothesis `opt_hex` / `mv_hex` of the theorems above holds for all of them. *)
From RM Require Import C17.IdModel C17.IdProofs.

Theorem c17_ids_render_hex :
  (forall d, hex_only (breakpad_text d)) /\ (forall raw, hex_only (code_id_text raw)).
Proof. exact ids_render_hex. Qed.
Print Assumptions c17_ids_render_hex.

(* the property with no assumption on the identifiers: all strings, all DebugId values, all raw code ids *)
Theorem c17_src_all_ids : forall code_file debug_file d raw_code_id kind l,
  g_lookup (module_of_ids code_file debug_file d raw_code_id) kind = Some l ->
  safe_rel (cache_rel l) /\ safe_rel (server_rel l).
Proof. exact src_all_ids. Qed.
Print Assumptions c17_src_all_ids.

Example c17_nonvacuous_ids :
  option_map breakpad_text (parse_breakpad [51;99;48;100;50;49;101;52;48;48;48;49]) = Some [51;67;48;68;50;49;69;52;49] /\
  option_map breakpad_text (parse_breakpad (repeat 48 33)) = Some (repeat 48 33) /\
  code_id_text [53;65;47;46;46;92;71;102] = [53;97;102].
Proof. exact parse_render_nonvacuous. Qed.

(* ====================================================================================
   Round 5 — the file system SINKS of the consumers.  Gen/C17Flow.v g_fs_sinks: every call in lib.rs / http.rs
   (non-test) that opens, creates, removes, renames or probes a path — fs::*, File::*, NamedTempFile::*, persist*,
   SymbolFile::from_file, PathBuf::from / Path::new, .exists() / .is_file() / .is_dir() ... — with the provenance of
   that path, followed through `let`, parameters (every call site) and the values self.locate_file returns. *)
Theorem c17_src_sinks_known : unknown_sinks g_fs_sinks = [].
Proof. exact all_sinks_known. Qed.
Print Assumptions c17_src_sinks_known.

(* every path a sink receives is a root itself (a symbol directory, self.cache, self.tmp) or `<root>.join(s)` with s a
   safe relative path below that root, for every module and kind; at most one `.parent()` is applied (create_dir_all) *)
Theorem c17_src_sinks_contained : forall k, In k g_fs_sinks ->
  (k_parents k <= 1)%nat /\ k_paths k <> [] /\
  forall q, In q (k_paths k) ->
    match q with
    | PRoot r => known_root r = true
    | PJoined r a => known_root r = true /\
        forall m kind p, mv_bytes m -> mv_hex m -> eval_arg a m kind = Some p -> safe_rel p /\ below_root r p
    | PUnknownPath => False
    end.
Proof. exact sink_contained. Qed.
Print Assumptions c17_src_sinks_contained.

(* non-vacuity (statement in C17/FlowProofs.v sinks_witness): fetch_lookup's persist_noclobber receives
   self.cache joined with lookup(module, kind).cache_rel; create_dir_all receives one .parent(); >= 10 sinks *)
Example c17_nonvacuous_sinks : sinks_witness.
Proof. exact sinks_nonvacuous. Qed.

(* ====================================================================================
   Round 5, second pass — the callee census.  translate/c17_flow.py now reads EVERY file of the crate; in each file
   that mentions a path / file-system word (g_closed_files) every callee name — function path, method, macro — must be
   on the translator's reviewed list, a fn of the crate or a constructor, else the translator aborts; every call,
   anywhere in the crate, of a callee that reaches the file system (fs::*, File::*, OpenOptions, tempfile / NamedTempFile,
   Path::* / PathBuf::*, env::*, process / Command, SymbolFile::from_file, .exists / .is_file / .is_dir / .metadata /
   .canonicalize / .read_dir / .persist* / .open / .create ...) is listed in g_sink_calls. *)
(* each of them is one of the sinks whose path provenance is derived (and proved contained above) *)
Theorem c17_src_sink_calls_covered : forall c, In c g_sink_calls -> exists k, In k g_fs_sinks /\ sink_key k = c.
Proof. exact sink_call_is_sink. Qed.
Print Assumptions c17_src_sink_calls_covered.

(* outside the compiled builders nothing edits a path in place: every .push / .pop / .set_file_name / .set_extension /
   .with_file_name / .with_extension / .extend / .clear ... of those files is applied to a String, to a Vec without paths, or
   is the constructor adding its own cache root to the list of symbol directories *)
Theorem c17_src_no_path_edits : path_edits g_path_edits = [].
Proof. exact no_path_edits. Qed.
Print Assumptions c17_src_no_path_edits.

Example c17_nonvacuous_census : census_witness.
Proof. exact census_nonvacuous. Qed.

(* minidump-common/src/utils.rs basename (display names, the `code_file` query parameter), compiled by the same
   translator: it is the same function as leafname although it is written with rfind + a slice, and that slice
   `&f[(index + 1)..]` — the only expression of the compiled functions that could panic — is always in bounds *)
Theorem c17_src_basename : (forall s, g_basename s = leafname s) /\
  (forall f s i, rfind_pat f s = Some i -> (i + 1 <= length s)%nat) /\ g_basename_partial_ops = 1%nat.
Proof. exact (conj g_basename_eq (conj rfind_pat_in_bounds eq_refl)). Qed.
Print Assumptions c17_src_basename.

(* ====================================================================================
   Round 5 — what the builders answer (C17/Avail.v).  The property is a safety statement; these pin the functional
   side a repair must keep: [ordinary_leaf name]: the leaf is not empty, not `..`, has no drive prefix. *)
From RM Require Import C17.Avail.

(* every module whose names have ordinary leaves is answered, with the symbol-server layout *)
Theorem c17_src_available : forall m df id, m_debug_file m = Some df -> m_debug_identifier m = Some id -> ordinary_leaf df ->
  g_lookup m KBreakpadSym =
    Some (let rel := rel3 (leafname df) id (replace_or_add_extension (leafname df) s_pdb s_sym) in
          {| cache_rel := rel; server_rel := rel |}) /\
  g_lookup m KExtraDebugInfo =
    Some (let rel := rel3 (leafname df) id (leafname df) in {| cache_rel := rel; server_rel := rel |}) /\
  (forall cid, m_code_identifier m = Some cid -> ordinary_leaf (m_code_file m) ->
     g_lookup m KBinary = Some {| cache_rel := rel3 (leafname df) id (leafname (m_code_file m));
                                  server_rel := rel3 (leafname (m_code_file m)) cid (leafname (m_code_file m)) |} /\
     g_code_info_breakpad_sym_lookup m =
       Some (rel3 (leafname (m_code_file m)) (map upper cid) (replace_or_add_extension (leafname (m_code_file m)) s_dll s_sym))).
Proof. exact src_available. Qed.
Print Assumptions c17_src_available.

(* and a lookup is declined when the debug file's leaf is degenerate *)
Theorem c17_src_declines : forall m df, m_debug_file m = Some df -> ~ ordinary_leaf df ->
  g_lookup m KBreakpadSym = None /\ g_lookup m KExtraDebugInfo = None /\ g_lookup m KBinary = None.
Proof. exact src_declines. Qed.
Print Assumptions c17_src_declines.

(* ====================================================================================
   Round 5 — std::path at the level of components (C17/PathModel.v: Path::components on unix, Path::parent = the path
   without its final component; compared with the real std::path on every produced path by the correspondence run).
   What the file-system sinks with a `.parent()` (create_dir_all) and the file creation receive. *)
From RM Require Import C17.PathModel C17.PathProofs C17.IdModel C17.IdProofs C17.UrlFullSrc C17.ServerUrlProofs C17.RedirectProofs.

(* joining a safe relative path onto a non-empty root appends its components, none of them `..` *)
Theorem c17_path_join_components : forall root rel, root <> [] -> safe_rel rel ->
  posix_comps (posix_join root rel) = posix_comps root ++ posix_comps rel /\
  comps_prefix (posix_comps root) (posix_comps (posix_join root rel)) = true /\
  Forall (fun c => c <> dotdot) (posix_comps rel).
Proof. exact joined_below_root. Qed.
Print Assumptions c17_path_join_components.

(* every module with a debug id VALUE, every kind, every root: cache.join(cache_rel) has the root's components in front, and
   so has its parent directory (cache_rel always contains the identifier as a component, so the parent never climbs to
   the parent of the root); no `..` is added *)
Theorem c17_cache_paths_below_root : forall code_file debug_file d raw_code_id kind l root,
  g_lookup (module_of_ids code_file debug_file (Some d) raw_code_id) kind = Some l -> root <> [] ->
  (posix_comps (posix_join root (cache_rel l)) = posix_comps root ++ posix_comps (cache_rel l) /\
   Forall (fun c => c <> dotdot) (posix_comps (cache_rel l))) /\
  exists t, path_parent (posix_comps (posix_join root (cache_rel l))) = Some (posix_comps root ++ t) /\
            comps_prefix (posix_comps root) (posix_comps root ++ t) = true /\
            Forall (fun c => c <> dotdot) t.
Proof. exact cache_paths_below_root. Qed.
Print Assumptions c17_cache_paths_below_root.

(* non-vacuity: "/c/" joined with "./0/." (the leaf `.` of extra_debuginfo): components c,0 — parent c *)
Example c17_nonvacuous_path :
  posix_comps (posix_join [47;99;47] [46;47;48;47;46]) = [[99]; [48]] /\
  path_parent (posix_comps (posix_join [47;99;47] [46;47;48;47;46])) = Some [[99]] /\
  path_parent (posix_comps [47]) = None /\
  posix_comps (posix_join [47;99] [97;92;98;47;47;100]) = [[99]; [97;92;98]; [100]].
Proof. repeat split; vm_compute; reflexivity. Qed.

(* ====================================================================================
   Round 5 — THE PROPERTY, in one statement on the code as compiled from the source, with no hypothesis on the
   identifiers: every code_file / debug_file (arbitrary byte strings, either separator style, mixed, trailing, `.`,
   `..`, drive / UNC prefixes, NUL, non-ASCII), every DebugId value, every raw code id, every FileKind:
   the paths are genuinely relative; joined onto a symbol / cache directory they keep the root (textually under POSIX,
   Windows and concatenation rules; as std::path components on unix, including the parent directory that gets created);
   through join_rel + Url::join — also in the mozilla-CAB variant — they are requested below the server's base directory. *)
Theorem c17_property : forall code_file debug_file d raw_code_id kind l,
  bytes code_file -> opt_bytes debug_file ->
  g_lookup (module_of_ids code_file debug_file d raw_code_id) kind = Some l ->
  safe_rel (cache_rel l) /\ safe_rel (server_rel l) /\
  (forall style root, is_prefix root (join style root (cache_rel l)) = true) /\
  (forall root, root <> [] ->
     comps_prefix (posix_comps root) (posix_comps (posix_join root (cache_rel l))) = true /\
     Forall (fun c => c <> dotdot) (posix_comps (cache_rel l)) /\
     exists t, path_parent (posix_comps (posix_join root (cache_rel l))) = Some (posix_comps root ++ t) /\
               Forall (fun c => c <> dotdot) t) /\
  (forall base_path, exists r, g_request_path base_path (server_rel l) = Some r /\
                               is_prefix (base_dir base_path) r = true) /\
  (forall l', g_moz_lookup l = Ret l' ->
     cache_rel l' = cache_rel l /\ safe_rel (server_rel l') /\
     forall base_path, exists r, g_request_path base_path (server_rel l') = Some r /\
                                 is_prefix (base_dir base_path) r = true).
Proof. exact full_property. Qed.
Print Assumptions c17_property.

(* the code-info variant (`<code file>/<CODE ID>/<code file>.sym`, only ever joined onto a server URL) *)
Theorem c17_property_code_info : forall code_file debug_file d raw_code_id p base_path,
  bytes code_file -> opt_bytes debug_file ->
  g_code_info_breakpad_sym_lookup (module_of_ids code_file debug_file d raw_code_id) = Some p ->
  safe_rel p /\ exists r, g_request_path base_path p = Some r /\ is_prefix (base_dir base_path) r = true.
Proof. exact full_property_code_info. Qed.
Print Assumptions c17_property_code_info.

(* non-vacuity: a module with mixed separators, a PDB 2.0 id parsed from text and a raw code id with junk *)
Example c17_nonvacuous_property :
  exists d l, parse_breakpad [51;99;48;100;50;49;101;52;49] = Some d /\
    g_lookup (module_of_ids [67;58;47;119;92;107;46;100;108;108] (Some [99;58;92;98;47;84;46;80;68;66]) (Some d) (Some [53;65;47;46;46]))
             KBinary = Some l /\
    cache_rel l = [84;46;80;68;66;47;51;67;48;68;50;49;69;52;49;47;107;46;100;108;108] /\   (* T.PDB/3C0D21E41/k.dll *)
    server_rel l = [107;46;100;108;108;47;53;97;47;107;46;100;108;108].                    (* k.dll/5a/k.dll *)
Proof. eexists. eexists. split; [vm_compute; reflexivity|]. split; [vm_compute; reflexivity|]. split; reflexivity. Qed.

(* Round 5, second pass — the URL clause of the headline on the FULL model of Url::join (all branches of its dispatch,
   C17/UrlFull.v) and the generated encoder: for every special base scheme and every base path the request goes to the
   configured scheme and authority (JSame), below the base directory; also the mozilla-CAB variant *)
Theorem c17_property_url_full : forall code_file debug_file d raw_code_id kind l base_scheme,
  bytes code_file -> opt_bytes debug_file ->
  g_lookup (module_of_ids code_file debug_file d raw_code_id) kind = Some l ->
  (forall base_path, exists r, g_request_target base_scheme base_path (server_rel l) = JSame r /\
                               is_prefix (base_dir base_path) r = true) /\
  (forall l', g_moz_lookup l = Ret l' ->
     forall base_path, exists r, g_request_target base_scheme base_path (server_rel l') = JSame r /\
                                 is_prefix (base_dir base_path) r = true).
Proof. exact full_property_url. Qed.
Print Assumptions c17_property_url_full.

Theorem c17_property_url_full_code_info : forall code_file debug_file d raw_code_id p base_scheme base_path,
  bytes code_file -> opt_bytes debug_file ->
  g_code_info_breakpad_sym_lookup (module_of_ids code_file debug_file d raw_code_id) = Some p ->
  exists r, g_request_target base_scheme base_path p = JSame r /\ is_prefix (base_dir base_path) r = true.
Proof. exact full_property_url_code_info. Qed.
Print Assumptions c17_property_url_full_code_info.

(* ALL byte strings through the GENERATED encoder (no hypothesis): never another scheme; another host exactly for "//" *)
Theorem c17_src_url_resolve_all_strings : forall base_scheme base_path p, bytes p ->
  match g_request_target base_scheme base_path p with
  | JOpaque _ _ => False
  | JAuthority s _ => s = base_scheme /\ starts_two_slashes p = true
  | JSame _ => starts_two_slashes p = false
  end.
Proof. exact g_resolve_all_strings. Qed.
Print Assumptions c17_src_url_resolve_all_strings.

Example c17_nonvacuous_url_full :
  g_request_target s_https [47;114;47;105] [107;46;100;108;108;47;53;97;47;107;46;100;108;108]
    = JSame [47;114;47;107;46;100;108;108;47;53;97;47;107;46;100;108;108].                    (* k.dll/5a/k.dll on https /r/i -> /r/k.dll/5a/k.dll *)
Proof. vm_compute. reflexivity. Qed.

(* Round 5, second pass — the server URL as CONFIGURED is the root.  HttpSymbolSupplier::new appends the missing '/'
   (pinned from the source: Gen/C17Flow.v g_server_url_norm, obligation below), so the parsed base path ends with '/',
   base_dir is the identity on it and every safe lookup path is requested from the configured scheme and host with a
   path that EXTENDS the configured path — for every URL tail without query / fragment (any dot segments, spaces,
   backslashes, TABs in it), every special scheme, every byte string p that is a safe relative path *)
Theorem c17_server_url_root : forall base_scheme suffix p, no_qf suffix -> bytes p -> safe_rel p ->
  exists t, request_target base_scheme (server_base_path suffix) p = JSame (server_base_path suffix ++ t).
Proof. exact server_url_root. Qed.
Print Assumptions c17_server_url_root.

Theorem c17_src_server_url_normalised : g_server_url_norm = UnAppendSlash.
Proof. exact server_url_norm_known. Qed.
Print Assumptions c17_src_server_url_normalised.

(* refutation of the variant without the appended '/': `http://host/root` taken as it is has the base directory "/",
   the request for `x` goes to /x — outside the configured /root/ (what mutation N9 does) *)
Theorem c17_server_url_unnormalised_refuted :
  server_base_path [114;111;111;116] = [47;114;111;111;116;47] /\
  server_base_path_of [114;111;111;116] = [47;114;111;111;116] /\
  request_target s_http (server_base_path_of [114;111;111;116]) [120] = JSame [47;120] /\
  request_target s_http (server_base_path [114;111;111;116]) [120] = JSame [47;114;111;111;116;47;120].
Proof. exact server_url_unnormalised. Qed.
Print Assumptions c17_server_url_unnormalised_refuted.

Example c17_nonvacuous_server_url :
  no_qf [97;47;46;46;47;98;32;92;99] /\ server_base_path [97;47;46;46;47;98;32;92;99] = [47;98;37;50;48;47;99;47].   (* "a/../b \c" -> /b%20/c/ *)
Proof. split; [repeat constructor; discriminate | vm_compute; reflexivity]. Qed.

(* Round 5, second pass — names supplied by the SERVER.  In a code-info redirect (http.rs
   individual_lookup_debug_info_by_code_info) the Location header provides the debug file name that locate_symbols then
   looks up.  Whatever Location the server sends (any byte string; parse_location = strip one '/', rsplit('/'), nth(1), next()),
   whatever debug id value it parses to: the lookup paths built from the server's name are genuinely relative, stay below
   every directory root and are requested from the configured scheme and host below the base directory. *)
Theorem c17_redirect_contained : forall code_file loc dfp idp d raw_code_id kind l base_scheme,
  bytes code_file -> bytes loc -> parse_location loc = Some (dfp, idp) ->
  g_lookup (module_of_ids code_file (Some dfp) (Some d) raw_code_id) kind = Some l ->
  safe_rel (cache_rel l) /\ safe_rel (server_rel l) /\
  (forall style root, is_prefix root (join style root (cache_rel l)) = true) /\
  (forall base_path, exists r, g_request_target base_scheme base_path (server_rel l) = JSame r /\
                               is_prefix (base_dir base_path) r = true).
Proof. exact redirect_contained. Qed.
Print Assumptions c17_redirect_contained.

(* the source still parses the Location the way parse_location models it (pinned text of the statements) *)
Theorem c17_src_redirect_parse : g_redirect_parse = RpStripSlashRsplitNth1Next.
Proof. exact redirect_parse_known. Qed.
Print Assumptions c17_src_redirect_parse.

(* non-vacuity: which pieces of a Location become the debug file / debug id ("/a/../5A1/x.sym" -> "..", declined later by
   safe_leafname; "//e/0/x" -> "e"; "..\..\w/0/x" -> the whole "..\..\w", whose leaf is "w"; "0/x" -> nothing) *)
Example c17_nonvacuous_redirect :
  parse_location [47;97;47;46;46;47;53;65;49;47;120;46;115;121;109] = Some ([46;46], [53;65;49]) /\
  parse_location [47;47;101;47;48;47;120] = Some ([101], [48]) /\
  parse_location [46;46;92;46;46;92;119;47;48;47;120] = Some ([46;46;92;46;46;92;119], [48]) /\
  parse_location [48;47;120] = None.
Proof. exact parse_location_examples. Qed.

(* Windows rules at component level (model-only: std's Windows path code cannot be executed on this machine): pushing a
   safe relative path onto a root that is not a bare drive `X:` keeps the root's components in front and adds no `..` *)
Theorem c17_windows_join_components : forall root rel, root <> [] -> is_bare_drive root = false -> safe_rel rel ->
  win_comps (windows_join root rel) = win_comps root ++ win_comps rel /\
  Forall (fun c => c <> dotdot) (win_comps rel).
Proof. exact windows_join_comps. Qed.
Print Assumptions c17_windows_join_components.
