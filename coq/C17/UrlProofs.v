(* C17/UrlProofs.v — a safe relative path, encoded by join_rel and resolved by Url::join,
   stays below the base directory. *)
From Coq Require Import Lia.
From RM Require Import C17.Model C17.Proofs C17.UrlModel.
Open Scope Z_scope.

Definition is_byte (c : Z) : Prop := 0 <= c < 256.
Definition bytes (p : str) : Prop := Forall is_byte p.

(* ------------------------------------------------------------------ the 256 byte values *)
Definition all_bytes : list Z := map Z.of_nat (seq 0 256).
Lemma in_all_bytes : forall c, is_byte c -> In c all_bytes.
Proof.
  intros c [H0 H1]. unfold all_bytes. rewrite <- (Z2Nat.id c H0). apply in_map. apply in_seq. lia.
Qed.

Definition enc1 (c : Z) : str := if needs_escape c then pct c else [c].
Definition block (c : Z) : str := url_path_encode (enc1 c).

(* what join_rel emits for one byte: only characters the URL parser takes literally *)
Definition plain (d : Z) : bool :=
  (32 <? d) && negb (d =? 58) && negb (d =? 63) && negb (d =? 35) && negb (d =? 92).
Definition chk_enc (c : Z) : bool :=
  forallb plain (enc1 c) && forallb (fun d => implb (d =? 47) (c =? 47)) (enc1 c) &&
  match enc1 c with [] => false | _ => true end &&
  implb (c =? 47) (str_eqb (enc1 c) [47]).
(* what ends up in the URL for one byte: the byte itself (never a bare '%'), or an escape
   other than %2E / %2e; a '/' only for '/' *)
Definition chk_block (c : Z) : bool :=
  (str_eqb (block c) [c] && negb (c =? 37)) ||
  match block c with
  | [a; x; y] => (a =? 37) && negb ((x =? 50) && ((y =? 69) || (y =? 101))) && negb (c =? 47)
  | _ => false
  end.

Lemma all_chk : forallb (fun c => chk_enc c && chk_block c) all_bytes = true.
Proof. vm_compute. reflexivity. Qed.

Lemma byte_chk : forall c, is_byte c -> chk_enc c = true /\ chk_block c = true.
Proof.
  intros c H. pose proof all_chk as A. rewrite forallb_forall in A.
  specialize (A c (in_all_bytes c H)). apply andb_true_iff in A. exact A.
Qed.

(* ------------------------------------------------------------------ join_rel's output alphabet *)
Lemma enc_cons : forall c p, join_rel_enc (c :: p) = enc1 c ++ join_rel_enc p.
Proof. reflexivity. Qed.

Lemma enc_plain : forall p, bytes p -> forallb plain (join_rel_enc p) = true.
Proof.
  induction p as [|c p IH]; intro H; [reflexivity|].
  apply Forall_cons_iff in H. destruct H as [Hc Hp]. rewrite enc_cons, forallb_app.
  destruct (byte_chk c Hc) as [E _]. unfold chk_enc in E.
  repeat (apply andb_true_iff in E; destruct E as [E ?]). rewrite E. exact (IH Hp).
Qed.

Lemma plain_facts : forall d, plain d = true ->
  32 < d /\ d <> 58 /\ d <> 63 /\ d <> 35 /\ d <> 92.
Proof.
  intros d H. unfold plain in H.
  repeat (apply andb_true_iff in H; destruct H as [H ?]).
  repeat match goal with X : negb (_ =? _) = true |- _ => apply negb_true_iff, Z.eqb_neq in X end.
  apply Z.ltb_lt in H. repeat split; assumption.
Qed.

(* ------------------------------------------------------------------ input preparation is the identity *)
Lemma drop_while_head : forall f s, (match s with c :: _ => f c = false | [] => True end) -> drop_while f s = s.
Proof. intros f [|c r] H; [reflexivity|]. cbn [drop_while]. rewrite H. reflexivity. Qed.

Lemma forallb_rev : forall (f : Z -> bool) s, forallb f s = true -> forallb f (rev s) = true.
Proof.
  intros f s H. rewrite forallb_forall in *. intros x Hx. apply H. apply in_rev. exact Hx.
Qed.

Lemma url_input_plain : forall s, forallb plain s = true -> url_input s = s.
Proof.
  intros s H. unfold url_input, trim.
  assert (D : forall t, forallb plain t = true -> drop_while c0_or_space t = t).
  { intros t Ht. apply drop_while_head. destruct t as [|c r]; [exact I|].
    cbn [forallb] in Ht. apply andb_true_iff in Ht. destruct Ht as [Hc _].
    apply plain_facts in Hc. unfold c0_or_space. apply Z.leb_gt. lia. }
  rewrite (D s H). rewrite (D (rev s) (forallb_rev _ _ H)). rewrite rev_involutive.
  clear D. induction s as [|c r IH]; [reflexivity|].
  cbn [forallb] in H. apply andb_true_iff in H. destruct H as [Hc Hr].
  cbn [filter]. apply plain_facts in Hc.
  assert (T : tab_or_nl c = false).
  { unfold tab_or_nl. repeat (apply orb_false_iff; split); apply Z.eqb_neq; lia. }
  rewrite T. cbn [negb]. f_equal. exact (IH Hr).
Qed.

(* ------------------------------------------------------------------ no scheme, no query, no fragment *)
Lemma scheme_rest_colon : forall s, scheme_rest s = true -> In 58 s.
Proof.
  induction s as [|c r IH]; intro H; [discriminate|]. cbn [scheme_rest] in H.
  destruct (c =? 58) eqn:E; [left; apply Z.eqb_eq in E; exact E|].
  destruct (scheme_char c); [right; exact (IH H) | discriminate].
Qed.

Lemma plain_no_scheme : forall s, forallb plain s = true -> has_scheme s = false.
Proof.
  intros s H. destruct (has_scheme s) eqn:E; [|reflexivity]. exfalso.
  unfold has_scheme in E. destruct s as [|c r]; [discriminate|].
  apply andb_true_iff in E. destruct E as [_ E]. apply scheme_rest_colon in E.
  rewrite forallb_forall in H. apply H in E. apply plain_facts in E. lia.
Qed.

Lemma path_part_plain : forall s, forallb plain s = true -> path_part s = s.
Proof.
  induction s as [|c r IH]; intro H; [reflexivity|].
  cbn [forallb] in H. apply andb_true_iff in H. destruct H as [Hc Hr].
  cbn [path_part]. apply plain_facts in Hc.
  assert (T : (c =? 63) || (c =? 35) = false) by (apply orb_false_iff; split; apply Z.eqb_neq; lia).
  rewrite T. f_equal. exact (IH Hr).
Qed.

Lemma classify_enc : forall p, bytes p -> starts_with_sep p = false ->
  classify (join_rel_enc p) = match p with [] => KEmpty | _ => KRelPath end.
Proof.
  intros p B S. unfold classify. rewrite (plain_no_scheme _ (enc_plain p B)).
  destruct p as [|c r]; [reflexivity|].
  apply Forall_cons_iff in B. destruct B as [Bc _].
  destruct (byte_chk c Bc) as [E _]. unfold chk_enc in E.
  apply andb_true_iff in E. destruct E as [E _].
  apply andb_true_iff in E. destruct E as [E N].
  apply andb_true_iff in E. destruct E as [P Sl].
  rewrite enc_cons. destruct (enc1 c) as [|h t]; [discriminate|]. cbn [app].
  cbn [forallb] in P, Sl. apply andb_true_iff in P. destruct P as [Ph _].
  apply andb_true_iff in Sl. destruct Sl as [Sh _].
  apply plain_facts in Ph. cbn [starts_with_sep] in S.
  assert (h <> 47).
  { intro Eh. subst h. cbn [implb Z.eqb] in Sh. apply Z.eqb_eq in Sh. subst c. discriminate. }
  assert (Q : (h =? 63) = false) by (apply Z.eqb_neq; lia).
  assert (F : (h =? 35) = false) by (apply Z.eqb_neq; lia).
  assert (SP : is_sep h = false).
  { unfold is_sep. apply orb_false_iff. split; apply Z.eqb_neq; lia. }
  rewrite Q, F, SP. reflexivity.
Qed.

(* ------------------------------------------------------------------ segments *)
Lemma split_seps_prefix : forall b s, nosep b ->
  split_seps (b ++ s) = match split_seps s with h :: t => (b ++ h) :: t | [] => [b] end.
Proof.
  induction b as [|x b IH]; intros s H.
  - cbn [app]. destruct (split_seps s) eqn:E; [exfalso; exact (split_seps_nonempty s E) | reflexivity].
  - apply Forall_cons_iff in H. destruct H as [Hx Hb]. cbn [app split_seps]. rewrite Hx, (IH s Hb).
    destruct (split_seps s); reflexivity.
Qed.

Lemma enc1_nosep : forall c, is_byte c -> c <> 47 -> nosep (enc1 c).
Proof.
  intros c B N. destruct (byte_chk c B) as [E _]. unfold chk_enc in E.
  apply andb_true_iff in E. destruct E as [E _].
  apply andb_true_iff in E. destruct E as [E _].
  apply andb_true_iff in E. destruct E as [P Sl].
  rewrite forallb_forall in P, Sl. apply Forall_forall. intros d Hd.
  pose proof (plain_facts d (P d Hd)) as Pd. specialize (Sl d Hd).
  unfold is_sep. apply orb_false_iff. split; apply Z.eqb_neq; [|lia].
  intro Ed. subst d. cbn [Z.eqb implb] in Sl. apply Z.eqb_eq in Sl. contradiction.
Qed.

Lemma split_on_nonempty : forall d s, split_on d s <> [].
Proof.
  intros d [|c r]; cbn [split_on]; [discriminate|].
  destruct (c =? d); [discriminate|]. destruct (split_on d r); discriminate.
Qed.

Lemma split_enc : forall p, bytes p ->
  split_seps (join_rel_enc p) = map join_rel_enc (split_on 47 p).
Proof.
  induction p as [|c r IH]; intro B; [reflexivity|].
  apply Forall_cons_iff in B. destruct B as [Bc Br]. specialize (IH Br).
  rewrite enc_cons. cbn [split_on]. destruct (c =? 47) eqn:E.
  - apply Z.eqb_eq in E. subst c. change (enc1 47) with [47]. cbn [app split_seps is_sep Z.eqb orb map].
    rewrite IH. reflexivity.
  - apply Z.eqb_neq in E. rewrite (split_seps_prefix _ _ (enc1_nosep c Bc E)), IH.
    destruct (split_on 47 r) as [|h t] eqn:S; [exfalso; exact (split_on_nonempty _ _ S)|].
    cbn [map]. rewrite enc_cons. reflexivity.
Qed.

(* splitting on either separator refines splitting on '/' *)
Lemma split_refine : forall p, split_seps p = flat_map split_seps (split_on 47 p).
Proof.
  induction p as [|c r IH]; [reflexivity|].
  cbn [split_on]. destruct (c =? 47) eqn:E.
  - apply Z.eqb_eq in E. subst c. cbn [split_seps is_sep Z.eqb orb flat_map app]. rewrite IH. reflexivity.
  - destruct (split_on 47 r) as [|h0 t0] eqn:S0; [exfalso; exact (split_on_nonempty _ _ S0)|].
    cbn [flat_map] in IH |- *. cbn [split_seps]. rewrite IH.
    destruct (is_sep c); [reflexivity|].
    destruct (split_seps h0) as [|h1 t1] eqn:S1; [exfalso; exact (split_seps_nonempty _ S1)|].
    reflexivity.
Qed.

Lemma slash_segment_is_component : forall p s, In s (split_on 47 p) -> nosep s -> In s (split_seps p).
Proof.
  intros p s H N. rewrite split_refine. apply in_flat_map. exists s. split; [exact H|].
  rewrite (split_seps_nosep s N). left. reflexivity.
Qed.

(* ------------------------------------------------------------------ dot segments *)
(* WHATWG: a dot segment is made of '.', "%2e", "%2E"; [decode_dots] counts them *)
Fixpoint decode_dots (t : str) : option nat :=
  match t with
  | [] => Some 0%nat
  | c :: r =>
      if c =? 46 then option_map S (decode_dots r)
      else match r with
           | x :: y :: r' =>
               if (c =? 37) && (x =? 50) && ((y =? 69) || (y =? 101))
               then option_map S (decode_dots r') else None
           | _ => None
           end
  end.

Lemma dotdot_decodes : forall e, is_dotdot_seg e = true -> decode_dots e = Some 2%nat.
Proof.
  intros e H. unfold is_dotdot_seg in H. apply existsb_exists in H. destruct H as [t [Ht He]].
  apply str_eqb_spec in He. subst e.
  assert (A : forallb (fun t => match decode_dots t with Some 2%nat => true | _ => false end) dotdot_spellings = true)
    by (vm_compute; reflexivity).
  rewrite forallb_forall in A. specialize (A t Ht).
  destruct (decode_dots t) as [[|[|[|n]]]|]; try discriminate. reflexivity.
Qed.

Lemma block_flat : forall s, url_path_encode (join_rel_enc s) = flat_map block s.
Proof.
  induction s as [|c r IH]; [reflexivity|].
  rewrite enc_cons. unfold url_path_encode in *. rewrite flat_map_app. cbn [flat_map]. rewrite IH. reflexivity.
Qed.

Lemma decode_blocks : forall s n, bytes s -> decode_dots (flat_map block s) = Some n -> s = repeat 46 n.
Proof.
  induction s as [|c r IH]; intros n B H.
  - cbn in H. inversion H. reflexivity.
  - apply Forall_cons_iff in B. destruct B as [Bc Br].
    destruct (byte_chk c Bc) as [_ K]. unfold chk_block in K. cbn [flat_map] in H.
    apply orb_true_iff in K. destruct K as [K|K].
    + apply andb_true_iff in K. destruct K as [K1 K2]. apply str_eqb_spec in K1. rewrite K1 in H.
      cbn [app decode_dots] in H. apply negb_true_iff in K2.
      destruct (c =? 46) eqn:E.
      * apply Z.eqb_eq in E. subst c.
        destruct (decode_dots (flat_map block r)) as [m|] eqn:D; [|discriminate].
        cbn [option_map] in H. inversion H. cbn [repeat]. f_equal. exact (IH m Br eq_refl).
      * rewrite K2 in H. cbn [andb] in H. destruct (flat_map block r) as [|x [|y r']]; discriminate.
    + destruct (block c) as [|a [|x [|y [|z t]]]]; try discriminate.
      apply andb_true_iff in K. destruct K as [K _].
      apply andb_true_iff in K. destruct K as [Ka Kxy]. apply Z.eqb_eq in Ka. subst a.
      cbn [app decode_dots] in H. change (37 =? 46) with false in H. cbn iota in H.
      apply negb_true_iff in Kxy. change (37 =? 37) with true in H. cbn [andb] in H.
      destruct ((x =? 50) && ((y =? 69) || (y =? 101))) eqn:E; [discriminate | discriminate].
Qed.

Lemma segment_not_dotdot : forall s, bytes s -> s <> dotdot ->
  is_dotdot_seg (url_path_encode (join_rel_enc s)) = false.
Proof.
  intros s B N. destruct (is_dotdot_seg _) eqn:E; [|reflexivity]. exfalso.
  apply dotdot_decodes in E. rewrite block_flat in E. apply (decode_blocks s 2 B) in E.
  apply N. exact E.
Qed.

(* ------------------------------------------------------------------ parse_path only appends *)
Lemma step_appends : forall p seg slash, is_dotdot_seg (url_path_encode seg) = false ->
  exists t, path_step p seg slash = p ++ t.
Proof.
  intros p seg slash H. unfold path_step. rewrite H.
  destruct (is_dot_seg _).
  - destruct (ends_slash p); [exists []; rewrite app_nil_r; reflexivity | exists [47]; reflexivity].
  - eexists. reflexivity.
Qed.

Lemma steps_append : forall segs p,
  Forall (fun s => is_dotdot_seg (url_path_encode s) = false) segs ->
  exists t, path_steps p segs = p ++ t.
Proof.
  induction segs as [|s r IH]; intros p H.
  - exists []. cbn. rewrite app_nil_r. reflexivity.
  - apply Forall_cons_iff in H. destruct H as [Hs Hr]. cbn [path_steps]. destruct r as [|s2 r'].
    + exact (step_appends p s false Hs).
    + destruct (step_appends p s true Hs) as [t1 E1]. rewrite E1.
      destruct (IH (p ++ t1) Hr) as [t2 E2]. rewrite E2. exists (t1 ++ t2). rewrite app_assoc. reflexivity.
Qed.

Lemma bytes_split_on : forall d p, bytes p -> Forall bytes (split_on d p).
Proof. intros d p. exact (split_on_forall is_byte d p). Qed.

(* ------------------------------------------------------------------ the theorem *)
Lemma url_join_contained : forall base_path p, bytes p -> safe_rel p ->
  exists r, request_path base_path p = Some r /\
            ((p = [] /\ r = base_path) \/ exists t, r = base_dir base_path ++ t).
Proof.
  intros bp p B [S1 [S2 S3]]. unfold request_path, url_join_path.
  pose proof (enc_plain p B) as P. rewrite (url_input_plain _ P), (classify_enc p B S1).
  destruct p as [|c0 p0]; [exists bp; split; [reflexivity | left; split; reflexivity]|].
  set (p := c0 :: p0) in *. rewrite (path_part_plain _ P), (split_enc p B).
  destruct (steps_append (map join_rel_enc (split_on 47 p)) (base_dir bp)) as [t Ht].
  - apply Forall_forall. intros e He. apply in_map_iff in He. destruct He as [s [Es Hs]]. subst e.
    pose proof (bytes_split_on 47 p B) as BS. rewrite Forall_forall in BS.
    apply segment_not_dotdot; [exact (BS s Hs)|].
    intro Ed. subst s. rewrite Forall_forall in S3. apply (S3 dotdot); [|reflexivity].
    apply slash_segment_is_component; [exact Hs | repeat constructor].
  - exists (base_dir bp ++ t). split; [rewrite Ht; reflexivity | right; exists t; reflexivity].
Qed.

(* ------------------------------------------------------------------ the builders emit bytes *)
Section BuildersForall.
Variable P : Z -> Prop.
Hypothesis P46 : P 46.
Hypothesis P47 : P 47.

Lemma leafname_forall : forall p, Forall P p -> Forall P (leafname p).
Proof.
  induction p as [|c r IH]; intro H; [constructor|].
  apply Forall_cons_iff in H. destruct H as [Hc Hr]. cbn [leafname].
  destruct (has_sep r); [exact (IH Hr)|]. destruct (is_sep c); [exact Hr | constructor; assumption].
Qed.

Lemma safe_leafname_forall : forall p l, safe_leafname p = Some l -> Forall P p -> Forall P l.
Proof.
  intros p l H Hp. unfold safe_leafname in H. pose proof (leafname_forall p Hp) as L.
  destruct (leafname p) as [|c r]; [discriminate|]. destruct (_ || _); [discriminate|].
  inversion H; subst. exact L.
Qed.

Lemma roae_forall : forall f e n, Forall P f -> Forall P n -> Forall P (replace_or_add_extension f e n).
Proof.
  intros f e n Hf Hn. unfold replace_or_add_extension. apply join_with_forall.
  - constructor; [exact P46 | constructor].
  - apply Forall_app. split.
    + destruct (_ && _); [apply removelast_forall|]; apply split_on_forall; exact Hf.
    + constructor; [exact Hn | constructor].
Qed.

Lemma rel3_forall : forall a b c, Forall P a -> Forall P b -> Forall P c -> Forall P (rel3 a b c).
Proof.
  intros a b c Ha Hb Hc. rewrite rel3_eq. apply Forall_app. split; [exact Ha|].
  constructor; [exact P47|]. apply Forall_app. split; [exact Hb|]. constructor; [exact P47 | exact Hc].
Qed.
End BuildersForall.

Lemma hex_is_byte : forall c, is_hex c = true -> is_byte c.
Proof. intros c H. hex_enum H; unfold is_byte; lia. Qed.
Lemma hex_only_bytes : forall s, hex_only s -> bytes s.
Proof. intros s H. eapply Forall_impl; [|exact H]. exact hex_is_byte. Qed.

Definition opt_bytes (o : option str) : Prop := match o with Some s => bytes s | None => True end.
Lemma b46 : is_byte 46. Proof. unfold is_byte. lia. Qed.
Lemma b47 : is_byte 47. Proof. unfold is_byte. lia. Qed.
Lemma sym_bytes : bytes s_sym. Proof. repeat constructor; unfold is_byte; lia. Qed.

Lemma lookup_bytes : forall k code_file debug_file dbg_id code_id l,
  bytes code_file -> opt_bytes debug_file -> opt_hex dbg_id -> opt_hex code_id ->
  lookup k code_file debug_file dbg_id code_id = Some l ->
  bytes (cache_rel l) /\ bytes (server_rel l).
Proof.
  intros k cf df id cid l Bcf Bdf Hid Hcid H.
  destruct k; cbn [lookup lookup_gen] in H.
  - unfold breakpad_sym_lookup_gen in H.
    destruct df as [df|]; [|discriminate]. destruct id as [id|]; [|discriminate].
    cbn [pick_leaf] in H. destruct (safe_leafname df) as [leaf|] eqn:E; [|discriminate].
    pose proof (safe_leafname_forall is_byte df leaf E Bdf) as BL.
    inversion H; subst l. cbn [cache_rel server_rel].
    assert (R : bytes (rel3 leaf id (replace_or_add_extension leaf s_pdb s_sym))).
    { apply rel3_forall; [exact b47 | exact BL | apply hex_only_bytes; exact Hid |].
      apply roae_forall; [exact b46 | exact BL | exact sym_bytes]. }
    split; exact R.
  - unfold binary_lookup_gen in H.
    destruct cid as [cid|]; [|discriminate]. destruct df as [df|]; [|discriminate].
    destruct id as [id|]; [|discriminate]. cbn [pick_leaf] in H.
    destruct (safe_leafname cf) as [bl|] eqn:E1; [|discriminate].
    destruct (safe_leafname df) as [dl|] eqn:E2; [|discriminate].
    pose proof (safe_leafname_forall is_byte cf bl E1 Bcf) as B1.
    pose proof (safe_leafname_forall is_byte df dl E2 Bdf) as B2.
    inversion H; subst l. cbn [cache_rel server_rel].
    split; apply rel3_forall; try exact b47; try assumption; apply hex_only_bytes; assumption.
  - unfold extra_debuginfo_lookup_gen in H.
    destruct df as [df|]; [|discriminate]. destruct id as [id|]; [|discriminate].
    cbn [pick_leaf] in H. destruct (safe_leafname df) as [leaf|] eqn:E; [|discriminate].
    pose proof (safe_leafname_forall is_byte df leaf E Bdf) as BL.
    inversion H; subst l. cbn [cache_rel server_rel].
    assert (R : bytes (rel3 leaf id leaf)).
    { apply rel3_forall; [exact b47 | exact BL | apply hex_only_bytes; exact Hid | exact BL]. }
    split; exact R.
Qed.

Lemma code_info_bytes : forall code_file code_id p, bytes code_file -> opt_hex code_id ->
  code_info_breakpad_sym_lookup code_file code_id = Some p -> bytes p.
Proof.
  intros cf cid p Bcf Hcid H. unfold code_info_breakpad_sym_lookup, code_info_breakpad_sym_lookup_gen in H.
  destruct cid as [cid|]; [|discriminate]. destruct cf as [|c0 cf']; [cbv beta iota in H; discriminate|].
  cbn [pick_leaf] in H. destruct (safe_leafname (c0 :: cf')) as [leaf|] eqn:E; [|discriminate].
  pose proof (safe_leafname_forall is_byte _ leaf E Bcf) as BL.
  inversion H; subst p. cbn [opt_hex] in Hcid. apply hex_only_upper in Hcid.
  apply rel3_forall; [exact b47 | exact BL | apply hex_only_bytes; exact Hcid |].
  apply roae_forall; [exact b46 | exact BL | exact sym_bytes].
Qed.

Lemma moz_bytes : forall l l', bytes (server_rel l) -> moz_lookup l = Ret l' -> bytes (server_rel l').
Proof.
  intros l l' B H. unfold moz_lookup in H.
  destruct (pop_char (server_rel l)) as [q|] eqn:E; [|discriminate].
  inversion H; subst l'. cbn [server_rel]. apply pop_char_prefix in E. destruct E as [t [_ Ht]].
  rewrite Ht in B. apply Forall_app in B. destruct B as [Bq _].
  apply Forall_app. split; [exact Bq | constructor; [unfold is_byte; lia | constructor]].
Qed.

Lemma contained_prefix : forall bp p, bytes p -> safe_rel p -> p <> [] ->
  exists r, request_path bp p = Some r /\ is_prefix (base_dir bp) r = true.
Proof.
  intros bp p B S N. destruct (url_join_contained bp p B S) as [r [Hr [[E _]|[t Ht]]]]; [contradiction|].
  exists r. split; [exact Hr | rewrite Ht; apply is_prefix_app].
Qed.

Lemma lookup_server_nonempty : forall k code_file debug_file dbg_id code_id l,
  lookup k code_file debug_file dbg_id code_id = Some l -> server_rel l <> [].
Proof.
  intros k cf df id cid l H. destruct k; cbn [lookup lookup_gen] in H.
  - unfold breakpad_sym_lookup_gen in H.
    destruct df as [df|]; [|discriminate]. destruct id as [id|]; [|discriminate].
    destruct (pick_leaf true df) as [leaf|]; [|discriminate]. inversion H; subst l. apply rel3_nonempty.
  - unfold binary_lookup_gen in H.
    destruct cid as [cid|]; [|discriminate]. destruct df as [df|]; [|discriminate].
    destruct id as [id|]; [|discriminate].
    destruct (pick_leaf true cf) as [bl|]; [|discriminate].
    destruct (pick_leaf true df) as [dl|]; [|discriminate]. inversion H; subst l. apply rel3_nonempty.
  - unfold extra_debuginfo_lookup_gen in H.
    destruct df as [df|]; [|discriminate]. destruct id as [id|]; [|discriminate].
    destruct (pick_leaf true df) as [leaf|]; [|discriminate]. inversion H; subst l. apply rel3_nonempty.
Qed.

Lemma url_requests_contained : forall base_path k code_file debug_file dbg_id code_id l,
  bytes code_file -> opt_bytes debug_file -> opt_hex dbg_id -> opt_hex code_id ->
  lookup k code_file debug_file dbg_id code_id = Some l ->
  (exists r, request_path base_path (server_rel l) = Some r /\ is_prefix (base_dir base_path) r = true) /\
  (forall l', moz_lookup l = Ret l' ->
     exists r, request_path base_path (server_rel l') = Some r /\ is_prefix (base_dir base_path) r = true).
Proof.
  intros bp k cf df id cid l Bcf Bdf Hid Hcid H.
  destruct (lookup_bytes k cf df id cid l Bcf Bdf Hid Hcid H) as [_ Bs].
  destruct (lookup_safe cf df id cid k l Hid Hcid H) as [_ Ss].
  split.
  - apply contained_prefix; [exact Bs | exact Ss | exact (lookup_server_nonempty _ _ _ _ _ _ H)].
  - intros l' M. destruct (moz_safe l l' Ss M) as [Sm _].
    apply contained_prefix; [exact (moz_bytes l l' Bs M) | exact Sm |].
    unfold moz_lookup in M. destruct (pop_char (server_rel l)); [|discriminate].
    inversion M. cbn [server_rel]. intro E. apply app_eq_nil in E. destruct E as [_ E]. discriminate.
Qed.

Lemma url_code_info_contained : forall base_path code_file code_id p,
  bytes code_file -> opt_hex code_id ->
  code_info_breakpad_sym_lookup code_file code_id = Some p ->
  exists r, request_path base_path p = Some r /\ is_prefix (base_dir base_path) r = true.
Proof.
  intros bp cf cid p Bcf Hcid H.
  apply contained_prefix; [exact (code_info_bytes cf cid p Bcf Hcid H) | exact (code_info_safe cf cid p Hcid H) |].
  unfold code_info_breakpad_sym_lookup, code_info_breakpad_sym_lookup_gen in H.
  destruct cid as [cid|]; [|discriminate]. destruct cf as [|c0 cf']; [cbv beta iota in H; discriminate|].
  destruct (pick_leaf true (c0 :: cf')) as [leaf|]; [|discriminate]. inversion H. apply rel3_nonempty.
Qed.
