(* C17/UrlFull.v — WHATWG reference resolution as url 2.5.4 does it (Parser::parse_url with a base), for a base
   URL with a special scheme other than file (http, https, ws, wss, ftp) — ALL branches, not only the relative-path
   one of C17/UrlModel.v:
     parse_scheme            ASCII alpha, then alnum / + - . up to ':'; the scheme is lower-cased
     parse_with_scheme       file                -> its own parser (result is a file: URL)
                             special, not file   -> fewer than two leading slashes/backslashes AND the base's scheme:
                                                    parse_relative on the text after the ':' ("http:x" is RELATIVE
                                                    to an http base); otherwise the authority follows the slashes
                             not special         -> parse_non_special (an opaque or hierarchical URL of that scheme)
     parse_relative          empty / ? / # keep the base path; two or more leading slashes/backslashes: the text after
                             a literal "//" prefix (else after all of them) is a new authority for the base's scheme;
                             one: path from the root; else path relative to the base directory
   The result names WHERE the request goes: [JSame path] = the base's scheme and authority with this path;
   [JAuthority scheme text] = another authority (text up to the first / \ ? #, not interpreted: userinfo, host, port);
   [JOpaque scheme rest] = a file: or non-special URL.  Host parsing (IDNA, IPv4/6, ports) is not modelled: a
   [JAuthority] answer may still be rejected by the real parser (EmptyHost, invalid port ...), which sends no request.
   Definitions only; proofs in C17/UrlFullProofs.v. *)
From RM Require Export C17.UrlModel.

Definition lower_ascii (c : Z) : Z := if (65 <=? c) && (c <=? 90) then c + 32 else c.
Fixpoint scheme_split (acc s : str) : option (str * str) :=
  match s with
  | [] => None                                           (* EOF before ':' (Context::UrlParser) *)
  | c :: r => if c =? 58 then Some (rev acc, r)
              else if scheme_char c then scheme_split (lower_ascii c :: acc) r else None
  end.
Definition parse_scheme (s : str) : option (str * str) :=
  match s with c :: _ => if is_alpha c then scheme_split [] s else None | [] => None end.

Definition s_http : str := [104;116;116;112].
Definition s_https : str := [104;116;116;112;115].
Definition s_ws : str := [119;115].
Definition s_wss : str := [119;115;115].
Definition s_ftp : str := [102;116;112].
Definition s_file : str := [102;105;108;101].
Definition special_not_file (sch : str) : bool := existsb (str_eqb sch) [s_http; s_https; s_ws; s_wss; s_ftp].

Fixpoint count_seps (s : str) : nat :=
  match s with c :: r => if is_sep c then S (count_seps r) else O | [] => O end.
Fixpoint take_while (f : Z -> bool) (s : str) : str :=
  match s with c :: r => if f c then c :: take_while f r else [] | [] => [] end.
(* parse_userinfo / parse_host stop at '/', '\\' (special), '?', '#' *)
Definition authority_text (s : str) : str :=
  take_while (fun c => negb (is_sep c || (c =? 63) || (c =? 35))) s.
(* parse_relative: input.split_prefix("//"), else everything after the run of slashes *)
Definition after_slashes (inp : str) : str :=
  match inp with 47 :: 47 :: r => r | _ => drop_while is_sep inp end.

Inductive join_result :=
| JSame (path : str)
| JAuthority (scheme : str) (authority : str)
| JOpaque (scheme : str) (rest : str).

Definition resolve_relative (base_scheme base_path inp : str) : join_result :=
  match inp with
  | [] => JSame base_path
  | c :: r =>
      if (c =? 63) || (c =? 35) then JSame base_path
      else if is_sep c then
        if (2 <=? count_seps inp)%nat then JAuthority base_scheme (authority_text (after_slashes inp))
        else JSame (path_steps [47] (split_seps (path_part r)))
      else JSame (path_steps (base_dir base_path) (split_seps (path_part inp)))
  end.

(* [base.join(reference)] for a base with the special scheme [base_scheme] and path [base_path] *)
Definition url_resolve (base_scheme base_path reference : str) : join_result :=
  let inp := url_input reference in
  match parse_scheme inp with
  | Some (sch, rest) =>
      if special_not_file sch then
        if (count_seps rest <? 2)%nat && str_eqb sch base_scheme
        then resolve_relative base_scheme base_path rest
        else JAuthority sch (authority_text (drop_while is_sep rest))
      else JOpaque sch rest
  | None => resolve_relative base_scheme base_path inp
  end.

(* what http.rs asks the url crate for *)
Definition request_target (base_scheme base_path rel : str) : join_result :=
  url_resolve base_scheme base_path (join_rel_enc rel).

(* ---- the server URL itself (HttpSymbolSupplier::new) ---------------------------------------------------------
   `if !u.ends_with('/') { u.push('/') }` on "<scheme>://<host>/" ++ suffix, then Url::parse: trailing C0 / space
   trimmed (the leading part is the scheme), TAB / LF / CR dropped, the path ends at the first '?' or '#'. *)
Definition normalise_suffix (suffix : str) : str :=
  if last_is is_slash suffix then suffix else match suffix with [] => [] | _ => suffix ++ [47] end.
Definition server_base_path_of (raw : str) : str :=
  let inp := filter (fun c => negb (tab_or_nl c)) (rev (drop_while c0_or_space (rev raw))) in
  path_steps [47] (split_seps (path_part inp)).
Definition server_base_path (suffix : str) : str := server_base_path_of (normalise_suffix suffix).

(* ---- the code-info redirect (http.rs individual_lookup_debug_info_by_code_info) --------------------------------
   A symbol server may answer the `<code file>/<CODE ID>/<code file>.sym` request with 302 / 301 and a Location
   `…/<debug file>/<debug id>/<file>`: one leading '/' is stripped, then `rsplit('/')`: `nth(1)` is the debug id part,
   the following `next()` the debug file part — a name supplied by the SERVER, which then goes through
   breakpad_sym_lookup like a name found in the dump. *)
Definition strip_one_slash (s : str) : str := match s with c :: r => if c =? 47 then r else s | [] => [] end.
Definition parse_location (loc : str) : option (str * str) :=            (* (debug file part, debug id part) *)
  match rev (split_on 47 (strip_one_slash loc)) with
  | _ :: idp :: dfp :: _ => Some (dfp, idp)
  | _ => None
  end.
