(* C17/ServerUrlProofs.v — the root of a symbol server is the WHOLE configured URL path: HttpSymbolSupplier::new appends
   the missing '/', so the base path ends with '/', base_dir is the identity on it, and every lookup path is requested
   below the configured path itself (not below its parent). *)
From Coq Require Import Lia.
From RM Require Import C17.Model C17.Proofs C17.UrlModel C17.UrlProofs C17.UrlFull C17.UrlFullProofs.
Open Scope Z_scope.

Lemma ends_slash_snoc : forall x, ends_slash (x ++ [47]) = true.
Proof. intro x. unfold ends_slash, last_is. rewrite rev_app_distr. reflexivity. Qed.

Lemma ends_slash_inv : forall p, ends_slash p = true -> exists x, p = x ++ [47].
Proof.
  intros p H. unfold ends_slash, last_is in H. destruct (rev p) as [|c t] eqn:E; [discriminate|].
  unfold is_slash in H. apply Z.eqb_eq in H. subst c. exists (rev t).
  rewrite <- (rev_involutive p), E. reflexivity.
Qed.

Lemma path_step_true_ends : forall p seg, ends_slash (path_step p seg true) = true.
Proof.
  intros p seg. unfold path_step.
  destruct (is_dotdot_seg (url_path_encode seg)).
  - cbn [andb]. set (p2 := pop_path _). destruct (ends_slash p2) eqn:E; cbn [negb]; [exact E | apply ends_slash_snoc].
  - destruct (is_dot_seg (url_path_encode seg)).
    + destruct (ends_slash p) eqn:E; [exact E | apply ends_slash_snoc].
    + rewrite app_assoc. apply ends_slash_snoc.
Qed.

Lemma path_steps_trailing_empty : forall segs p, ends_slash p = true -> ends_slash (path_steps p (segs ++ [[]])) = true.
Proof.
  induction segs as [|s r IH]; intros p H.
  - cbn [app path_steps]. unfold path_step. cbn. rewrite app_nil_r. exact H.
  - replace (path_steps p ((s :: r) ++ [[]])) with (path_steps (path_step p s true) (r ++ [[]])).
    + apply IH. apply path_step_true_ends.
    + destruct r; reflexivity.
Qed.

Definition no_qf (s : str) : Prop := Forall (fun c => c <> 63 /\ c <> 35) s.

Lemma path_part_id : forall s, no_qf s -> path_part s = s.
Proof.
  induction s as [|c r IH]; intro H; [reflexivity|]. apply Forall_cons_iff in H. destruct H as [[H1 H2] Hr].
  cbn [path_part]. replace ((c =? 63) || (c =? 35)) with false.
  - f_equal. exact (IH Hr).
  - symmetry. apply orb_false_iff. split; apply Z.eqb_neq; assumption.
Qed.

Lemma no_qf_filter : forall f s, no_qf s -> no_qf (filter f s).
Proof.
  intros f s H. unfold no_qf in *. rewrite Forall_forall in *. intros x Hx. apply filter_In in Hx. apply H. exact (proj1 Hx).
Qed.

(* a raw URL tail that ends with '/' and has no query / fragment parses to a path that ends with '/' *)
Lemma base_path_of_ends : forall x, no_qf x -> ends_slash (server_base_path_of (x ++ [47])) = true.
Proof.
  intros x H. unfold server_base_path_of. rewrite rev_app_distr. cbn [rev app]. cbn [drop_while]. unfold c0_or_space at 1.
  replace (47 <=? 32) with false by reflexivity. cbn [rev]. rewrite rev_involutive.
  replace (filter (fun c : Z => negb (tab_or_nl c)) (x ++ [47])) with (filter (fun c : Z => negb (tab_or_nl c)) x ++ [47])
    by (rewrite filter_app; reflexivity).
  rewrite path_part_id.
  - rewrite split_seps_app by reflexivity. cbn [split_seps]. apply path_steps_trailing_empty. reflexivity.
  - apply Forall_app. split; [apply no_qf_filter; exact H | repeat constructor; lia].
Qed.

Lemma server_base_path_ends : forall suffix, no_qf suffix -> ends_slash (server_base_path suffix) = true.
Proof.
  intros suffix H. unfold server_base_path, normalise_suffix.
  destruct (last_is is_slash suffix) eqn:L.
  - destruct (ends_slash_inv suffix L) as [x E]. subst suffix. apply base_path_of_ends.
    apply Forall_app in H. exact (proj1 H).
  - destruct suffix as [|c r]; [reflexivity|]. apply base_path_of_ends. exact H.
Qed.

Lemma base_dir_of_dir : forall bp, ends_slash bp = true -> base_dir bp = bp.
Proof.
  intros bp H. destruct (ends_slash_inv bp H) as [x E]. subst bp. unfold base_dir, pop_path.
  rewrite rev_app_distr. cbn [rev app drop_while]. replace (negb (47 =? 47)) with false by reflexivity.
  cbn [rev]. rewrite rev_involutive. destruct x; reflexivity.
Qed.

(* the property's last sentence for the server URL as CONFIGURED: every safe lookup path is requested from the
   configured scheme and host with a path that extends the configured path *)
Lemma server_url_root : forall base_scheme suffix p, no_qf suffix -> bytes p -> safe_rel p ->
  exists t, request_target base_scheme (server_base_path suffix) p = JSame (server_base_path suffix ++ t).
Proof.
  intros sch suffix p Q B S. destruct (resolve_contained sch (server_base_path suffix) p B S) as [r [E [[_ R]|[t R]]]].
  - exists []. rewrite app_nil_r. rewrite E, R. reflexivity.
  - exists t. rewrite E, R. rewrite (base_dir_of_dir _ (server_base_path_ends suffix Q)). reflexivity.
Qed.

(* without the appended '/' (a server URL `http://host/root` taken as it is) the last segment of the configured path is
   REPLACED: the request for `x` goes to /x, outside /root/ *)
Lemma server_url_unnormalised :
  server_base_path [114;111;111;116] = [47;114;111;111;116;47] /\                       (* "root" -> /root/ *)
  server_base_path_of [114;111;111;116] = [47;114;111;111;116] /\                       (* as it is -> /root *)
  request_target s_http (server_base_path_of [114;111;111;116]) [120] = JSame [47;120] /\
  request_target s_http (server_base_path [114;111;111;116]) [120] = JSame [47;114;111;111;116;47;120].
Proof. vm_compute. repeat split; reflexivity. Qed.
