(* C17/Proofs.v — lemmas behind C17/Properties.v *)
From Coq Require Import Lia.
From RM Require Import C17.Model.
Open Scope Z_scope.

Definition nosep (s : str) : Prop := Forall (fun c => is_sep c = false) s.
Definition hex_only (s : str) : Prop := Forall (fun c => is_hex c = true) s.
Definition opt_hex (o : option str) : Prop := match o with Some s => hex_only s | None => True end.

(* ---------------------------------------------------------------- str_eqb *)
Lemma str_eqb_spec : forall a b, str_eqb a b = true <-> a = b.
Proof.
  induction a as [|x a IH]; intros [|y b]; cbn [str_eqb]; split; intro H; try reflexivity; try discriminate.
  - apply andb_true_iff in H. destruct H as [H1 H2]. apply Z.eqb_eq in H1. apply IH in H2. subst. reflexivity.
  - inversion H; subst. apply andb_true_iff. split; [apply Z.eqb_refl | apply IH; reflexivity].
Qed.

Lemma str_eqb_false : forall a b, str_eqb a b = false <-> a <> b.
Proof.
  intros a b. split.
  - intros H E. apply str_eqb_spec in E. congruence.
  - intro H. destruct (str_eqb a b) eqn:E; [|reflexivity]. apply str_eqb_spec in E. contradiction.
Qed.

(* ---------------------------------------------------------------- has_sep / nosep *)
Lemma has_sep_false_nosep : forall s, has_sep s = false <-> nosep s.
Proof.
  induction s as [|c s IH]; cbn [has_sep existsb]; split; intro H.
  - constructor.
  - reflexivity.
  - apply orb_false_iff in H. destruct H as [H1 H2]. constructor; [exact H1 | apply IH; exact H2].
  - inversion H; subst. apply orb_false_iff. split; [assumption | apply IH; assumption].
Qed.

Lemma leafname_nosep : forall p, nosep (leafname p).
Proof.
  induction p as [|c r IH]; cbn [leafname].
  - constructor.
  - destruct (has_sep r) eqn:Hs; [exact IH|].
    apply has_sep_false_nosep in Hs.
    destruct (is_sep c) eqn:Hc; [exact Hs | constructor; assumption].
Qed.

Lemma nosep_app : forall a b, nosep a -> nosep b -> nosep (a ++ b).
Proof. intros a b Ha Hb. apply Forall_app. split; assumption. Qed.

(* ---------------------------------------------------------------- split_seps *)
Lemma split_seps_nonempty : forall s, split_seps s <> [].
Proof.
  destruct s as [|c r]; cbn [split_seps]; [discriminate|].
  destruct (is_sep c); [discriminate|]. destruct (split_seps r); discriminate.
Qed.

Lemma split_seps_nosep : forall s, nosep s -> split_seps s = [s].
Proof.
  induction s as [|c r IH]; intro H; [reflexivity|].
  apply Forall_cons_iff in H. destruct H as [Hc Hr]. cbn [split_seps]. rewrite Hc, (IH Hr). reflexivity.
Qed.

Lemma split_seps_app : forall a c b, is_sep c = true ->
  split_seps (a ++ c :: b) = split_seps a ++ split_seps b.
Proof.
  induction a as [|x a IH]; intros c b Hc.
  - cbn [app split_seps]. rewrite Hc. reflexivity.
  - cbn [app split_seps]. rewrite (IH c b Hc).
    destruct (is_sep x); [reflexivity|].
    destruct (split_seps a) as [|h t] eqn:E; [exfalso; exact (split_seps_nonempty a E)|].
    reflexivity.
Qed.

(* ---------------------------------------------------------------- safe_relb *)
Lemma safe_relb_spec : forall p, safe_relb p = true <-> safe_rel p.
Proof.
  intro p. unfold safe_relb, safe_rel. rewrite !andb_true_iff, !negb_true_iff, forallb_forall, Forall_forall.
  split.
  - intros [[H1 H2] H3]. split; [exact H1|]. split; [exact H2|].
    intros c Hc. apply H3 in Hc. apply negb_true_iff in Hc. apply str_eqb_false in Hc. exact Hc.
  - intros [H1 [H2 H3]]. split; [split; assumption|].
    intros c Hc. apply negb_true_iff. apply str_eqb_false. apply H3. exact Hc.
Qed.

(* ---------------------------------------------------------------- characters *)
Ltac b2p := repeat match goal with
  | H : _ && _ = true |- _ => apply andb_true_iff in H; destruct H
  | H : _ || _ = true |- _ => apply orb_true_iff in H; destruct H
  | H : (_ <=? _) = true |- _ => apply Z.leb_le in H
  | H : (_ =? _) = true |- _ => apply Z.eqb_eq in H
  end.

Lemma hex_cases : forall c, is_hex c = true ->
  c = 48 \/ c = 49 \/ c = 50 \/ c = 51 \/ c = 52 \/ c = 53 \/ c = 54 \/ c = 55 \/ c = 56 \/ c = 57 \/
  c = 65 \/ c = 66 \/ c = 67 \/ c = 68 \/ c = 69 \/ c = 70 \/
  c = 97 \/ c = 98 \/ c = 99 \/ c = 100 \/ c = 101 \/ c = 102.
Proof. intros c H. unfold is_hex in H. b2p; lia. Qed.

Ltac hex_enum H := apply hex_cases in H; repeat (destruct H as [H|H]); subst.

Lemma hex_not_sep : forall c, is_hex c = true -> is_sep c = false.
Proof. intros c H. hex_enum H; reflexivity. Qed.
Lemma hex_not_dot : forall c, is_hex c = true -> c <> 46.
Proof. intros c H. hex_enum H; discriminate. Qed.
Lemma hex_upper : forall c, is_hex c = true -> is_hex (upper c) = true.
Proof. intros c H. hex_enum H; reflexivity. Qed.

Lemma hex_only_nosep : forall s, hex_only s -> nosep s.
Proof. intros s H. eapply Forall_impl; [|exact H]. exact hex_not_sep. Qed.
Lemma hex_only_not_dotdot : forall s, hex_only s -> s <> dotdot.
Proof.
  intros s H E. subst s. apply Forall_cons_iff in H. destruct H as [H _].
  vm_compute in H. discriminate.
Qed.
Lemma hex_only_upper : forall s, hex_only s -> hex_only (map upper s).
Proof.
  induction s as [|c s IH]; intro H; [constructor|].
  apply Forall_cons_iff in H. destruct H as [Hc Hs].
  cbn [map]. constructor; [apply hex_upper; exact Hc | apply IH; exact Hs].
Qed.

(* ---------------------------------------------------------------- replace_or_add_extension *)
Section ForallChars.
Variable P : Z -> Prop.

Lemma split_on_forall : forall d s, Forall P s -> Forall (Forall P) (split_on d s).
Proof.
  induction s as [|c r IH]; intro H; cbn [split_on].
  - constructor; constructor.
  - apply Forall_cons_iff in H. destruct H as [Hc Hr]. specialize (IH Hr).
    destruct (c =? d).
    + constructor; [constructor | exact IH].
    + destruct (split_on d r) as [|h t].
      * constructor; [constructor; [exact Hc | constructor] | constructor].
      * apply Forall_cons_iff in IH. destruct IH as [Hh Ht].
        constructor; [constructor; assumption | exact Ht].
Qed.

Lemma removelast_forall : forall (Q : str -> Prop) l, Forall Q l -> Forall Q (removelast l).
Proof.
  induction l as [|a l IH]; intro H; cbn [removelast]; [constructor|].
  apply Forall_cons_iff in H. destruct H as [Ha Hl].
  destruct l as [|b l']; [constructor|]. constructor; [exact Ha | apply IH; exact Hl].
Qed.

Lemma join_with_forall : forall d l, Forall P d -> Forall (Forall P) l -> Forall P (join_with d l).
Proof.
  induction l as [|a l IH]; intros Hd Hl; cbn [join_with]; [constructor|].
  apply Forall_cons_iff in Hl. destruct Hl as [Ha Hl].
  destruct l as [|b l']; [exact Ha|].
  apply Forall_app. split; [exact Ha|]. apply Forall_app. split; [exact Hd|]. apply IH; assumption.
Qed.
End ForallChars.

Lemma join_with_snoc_suffix : forall d l n, exists pre, join_with d (l ++ [n]) = pre ++ n.
Proof.
  induction l as [|a l IH]; intro n.
  - exists []. reflexivity.
  - destruct (IH n) as [pre Hpre].
    cbn [app join_with]. destruct (l ++ [n]) as [|b r] eqn:E.
    + apply app_eq_nil in E. destruct E as [_ E]. discriminate.
    + exists (a ++ d ++ pre). rewrite Hpre. rewrite <- !app_assoc. reflexivity.
Qed.

Lemma roae_suffix : forall f e n, exists pre, replace_or_add_extension f e n = pre ++ n.
Proof. intros f e n. unfold replace_or_add_extension. apply join_with_snoc_suffix. Qed.

Lemma roae_sym_not_dotdot : forall f e, replace_or_add_extension f e s_sym <> dotdot.
Proof.
  intros f e E. destruct (roae_suffix f e s_sym) as [pre Hpre]. rewrite Hpre in E.
  apply (f_equal (@rev Z)) in E. rewrite rev_app_distr in E. cbn in E. discriminate.
Qed.

Lemma roae_nosep : forall f e n, nosep f -> nosep n -> nosep (replace_or_add_extension f e n).
Proof.
  intros f e n Hf Hn. unfold replace_or_add_extension, nosep.
  apply join_with_forall.
  - constructor; [reflexivity | constructor].
  - apply Forall_app. split.
    + destruct (_ && _); [apply removelast_forall|]; apply split_on_forall; exact Hf.
    + constructor; [exact Hn | constructor].
Qed.

Lemma s_sym_nosep : nosep s_sym.
Proof. repeat constructor. Qed.

(* ---------------------------------------------------------------- safe_leafname *)
Lemma safe_leafname_some : forall p l, safe_leafname p = Some l ->
  nosep l /\ l <> [] /\ l <> dotdot /\ has_drive_prefix l = false.
Proof.
  intros p l H. unfold safe_leafname in H.
  pose proof (leafname_nosep p) as Hn.
  destruct (leafname p) as [|c r] eqn:E; [discriminate|].
  destruct (str_eqb (c :: r) dotdot || has_drive_prefix (c :: r)) eqn:Hb; [discriminate|].
  inversion H; subst l. apply orb_false_iff in Hb. destruct Hb as [Hb1 Hb2].
  split; [exact Hn|]. split; [discriminate|]. split; [apply str_eqb_false; exact Hb1 | exact Hb2].
Qed.

(* ---------------------------------------------------------------- leaf/ID/file *)
Lemma rel3_eq : forall a b c, rel3 a b c = a ++ 47 :: (b ++ 47 :: c).
Proof. intros. reflexivity. Qed.

Lemma rel3_safe : forall a b c,
  nosep a -> a <> [] -> a <> dotdot -> has_drive_prefix a = false ->
  nosep b -> b <> dotdot -> nosep c -> c <> dotdot ->
  safe_rel (rel3 a b c).
Proof.
  intros a b c Ha Hne Hdd Hdr Hb Hbd Hc Hcd. rewrite rel3_eq. unfold safe_rel.
  split; [|split].
  - destruct a as [|x a']; [contradiction|]. apply Forall_cons_iff in Ha. destruct Ha as [Hx _]. exact Hx.
  - destruct a as [|x a']; [contradiction|]. destruct a' as [|y a''].
    + cbn [app has_drive_prefix]. apply andb_false_r.
    + exact Hdr.
  - rewrite split_seps_app by reflexivity. rewrite split_seps_app by reflexivity.
    rewrite (split_seps_nosep a Ha), (split_seps_nosep b Hb), (split_seps_nosep c Hc).
    cbn [app]. repeat constructor; assumption.
Qed.

(* ---------------------------------------------------------------- the builders *)
Lemma breakpad_sym_safe : forall debug_file dbg_id l, opt_hex dbg_id ->
  breakpad_sym_lookup debug_file dbg_id = Some l -> safe_rel (cache_rel l) /\ safe_rel (server_rel l).
Proof.
  intros df id l Hid H. unfold breakpad_sym_lookup, breakpad_sym_lookup_gen in H.
  destruct df as [df|]; [|discriminate]. destruct id as [id|]; [|discriminate].
  cbn [pick_leaf] in H. destruct (safe_leafname df) as [leaf|] eqn:E; [|discriminate].
  apply safe_leafname_some in E. destruct E as [Hn [Hne [Hdd Hdr]]].
  inversion H; subst l. cbn [cache_rel server_rel]. cbn [opt_hex] in Hid.
  assert (S : safe_rel (rel3 leaf id (replace_or_add_extension leaf s_pdb s_sym))).
  { apply rel3_safe; try assumption.
    - apply hex_only_nosep; exact Hid.
    - apply hex_only_not_dotdot; exact Hid.
    - apply roae_nosep; [exact Hn | exact s_sym_nosep].
    - apply roae_sym_not_dotdot. }
  split; exact S.
Qed.

Lemma extra_debuginfo_safe : forall debug_file dbg_id l, opt_hex dbg_id ->
  extra_debuginfo_lookup debug_file dbg_id = Some l -> safe_rel (cache_rel l) /\ safe_rel (server_rel l).
Proof.
  intros df id l Hid H. unfold extra_debuginfo_lookup, extra_debuginfo_lookup_gen in H.
  destruct df as [df|]; [|discriminate]. destruct id as [id|]; [|discriminate].
  cbn [pick_leaf] in H. destruct (safe_leafname df) as [leaf|] eqn:E; [|discriminate].
  apply safe_leafname_some in E. destruct E as [Hn [Hne [Hdd Hdr]]].
  inversion H; subst l. cbn [cache_rel server_rel]. cbn [opt_hex] in Hid.
  assert (S : safe_rel (rel3 leaf id leaf)).
  { apply rel3_safe; try assumption.
    - apply hex_only_nosep; exact Hid.
    - apply hex_only_not_dotdot; exact Hid. }
  split; exact S.
Qed.

Lemma binary_safe : forall code_file code_id debug_file dbg_id l, opt_hex dbg_id -> opt_hex code_id ->
  binary_lookup code_file code_id debug_file dbg_id = Some l -> safe_rel (cache_rel l) /\ safe_rel (server_rel l).
Proof.
  intros cf cid df id l Hid Hcid H. unfold binary_lookup, binary_lookup_gen in H.
  destruct cid as [cid|]; [|discriminate]. destruct df as [df|]; [|discriminate].
  destruct id as [id|]; [|discriminate]. cbn [pick_leaf] in H.
  destruct (safe_leafname cf) as [bl|] eqn:E1; [|discriminate].
  destruct (safe_leafname df) as [dl|] eqn:E2; [|discriminate].
  apply safe_leafname_some in E1. destruct E1 as [Hn1 [Hne1 [Hdd1 Hdr1]]].
  apply safe_leafname_some in E2. destruct E2 as [Hn2 [Hne2 [Hdd2 Hdr2]]].
  inversion H; subst l. cbn [cache_rel server_rel]. cbn [opt_hex] in Hid, Hcid.
  split; apply rel3_safe; try assumption;
    try (apply hex_only_nosep; assumption); try (apply hex_only_not_dotdot; assumption).
Qed.

Lemma lookup_safe : forall code_file debug_file dbg_id code_id k l,
  opt_hex dbg_id -> opt_hex code_id ->
  lookup k code_file debug_file dbg_id code_id = Some l ->
  safe_rel (cache_rel l) /\ safe_rel (server_rel l).
Proof.
  intros cf df id cid k l Hid Hcid H. destruct k; cbn [lookup lookup_gen] in H.
  - exact (breakpad_sym_safe df id l Hid H).
  - exact (binary_safe cf cid df id l Hid Hcid H).
  - exact (extra_debuginfo_safe df id l Hid H).
Qed.

Lemma code_info_safe : forall code_file code_id p, opt_hex code_id ->
  code_info_breakpad_sym_lookup code_file code_id = Some p -> safe_rel p.
Proof.
  intros cf cid p Hcid H. unfold code_info_breakpad_sym_lookup, code_info_breakpad_sym_lookup_gen in H.
  destruct cid as [cid|]; [|discriminate]. destruct cf as [|c0 cf']; [cbv beta iota in H; discriminate|].
  cbn [pick_leaf] in H. destruct (safe_leafname (c0 :: cf')) as [leaf|] eqn:E; [|discriminate].
  apply safe_leafname_some in E. destruct E as [Hn [Hne [Hdd Hdr]]].
  inversion H; subst p. cbn [opt_hex] in Hcid. apply hex_only_upper in Hcid.
  apply rel3_safe; try assumption.
  - apply hex_only_nosep; exact Hcid.
  - apply hex_only_not_dotdot; exact Hcid.
  - apply roae_nosep; [exact Hn | exact s_sym_nosep].
  - apply roae_sym_not_dotdot.
Qed.

(* ---------------------------------------------------------------- moz_lookup *)
Lemma drop_last_char_rev_suffix : forall r, r <> [] ->
  exists t, t <> [] /\ r = t ++ drop_last_char_rev r.
Proof.
  induction r as [|c r IH]; intro Hne; [contradiction|].
  cbn [drop_last_char_rev]. destruct (is_cont c).
  - destruct r as [|c' r'].
    + exists [c]. split; [discriminate | reflexivity].
    + destruct IH as [t [Ht Hr]]; [discriminate|].
      exists (c :: t). split; [discriminate|]. cbn [app]. rewrite <- Hr. reflexivity.
  - exists [c]. split; [discriminate | reflexivity].
Qed.

Lemma pop_char_prefix : forall p q, pop_char p = Some q -> exists t, t <> [] /\ p = q ++ t.
Proof.
  intros p q H. unfold pop_char in H.
  assert (Hne : rev p <> []).
  { intro E. apply (f_equal (@rev Z)) in E. rewrite rev_involutive in E. cbn in E. subst p. discriminate. }
  assert (Hq : q = rev (drop_last_char_rev (rev p))).
  { destruct p; [discriminate | inversion H; reflexivity]. }
  clear H. destruct (drop_last_char_rev_suffix (rev p) Hne) as [t [Ht Hr]].
  exists (rev t). split.
  - intro E. apply (f_equal (@rev Z)) in E. rewrite rev_involutive in E. cbn in E. contradiction.
  - subst q. rewrite <- rev_app_distr. rewrite <- Hr. symmetry. apply rev_involutive.
Qed.

Lemma last_sep_decomp : forall q,
  nosep q \/ exists q1 s q2, is_sep s = true /\ q = q1 ++ s :: q2 /\ nosep q2.
Proof.
  induction q as [|x q IH]; [left; constructor|].
  destruct IH as [Hn | [q1 [s [q2 [Hs [Hq Hn]]]]]].
  - destruct (is_sep x) eqn:Hx.
    + right. exists [], x, q. split; [exact Hx|]. split; [reflexivity | exact Hn].
    + left. constructor; assumption.
  - right. exists (x :: q1), s, q2. split; [exact Hs|]. split; [rewrite Hq; reflexivity | exact Hn].
Qed.

Lemma snoc_not_dotdot : forall q, q ++ [95] <> dotdot.
Proof.
  intros q E. apply (f_equal (@rev Z)) in E. rewrite rev_app_distr in E. cbn in E. discriminate.
Qed.

Lemma prefix_underscore_safe : forall q t, safe_rel (q ++ t) -> safe_rel (q ++ [95]).
Proof.
  intros q t [H1 [H2 H3]]. unfold safe_rel. split; [|split].
  - destruct q as [|x q']; [reflexivity | exact H1].
  - destruct q as [|x q']; [reflexivity|]. destruct q' as [|y q''].
    + cbn [app has_drive_prefix]. apply andb_false_r.
    + exact H2.
  - destruct (last_sep_decomp q) as [Hn | [q1 [s [q2 [Hs [Hq Hn]]]]]].
    + rewrite split_seps_nosep.
      * constructor; [apply snoc_not_dotdot | constructor].
      * apply nosep_app; [exact Hn | constructor; [reflexivity | constructor]].
    + subst q. rewrite <- app_assoc in H3 |- *. cbn [app] in H3 |- *.
      rewrite split_seps_app in H3 |- * by exact Hs.
      apply Forall_app in H3. destruct H3 as [H3 _].
      apply Forall_app. split; [exact H3|].
      rewrite split_seps_nosep.
      * constructor; [apply snoc_not_dotdot | constructor].
      * apply nosep_app; [exact Hn | constructor; [reflexivity | constructor]].
Qed.

Lemma moz_safe : forall l l', safe_rel (server_rel l) -> moz_lookup l = Ret l' ->
  safe_rel (server_rel l') /\ cache_rel l' = cache_rel l.
Proof.
  intros l l' Hs H. unfold moz_lookup in H.
  destruct (pop_char (server_rel l)) as [q|] eqn:E; [|discriminate].
  inversion H; subst l'. cbn [server_rel cache_rel]. split; [|reflexivity].
  apply pop_char_prefix in E. destruct E as [t [_ Ht]]. rewrite Ht in Hs.
  eapply prefix_underscore_safe; exact Hs.
Qed.

Lemma rel3_nonempty : forall a b c, rel3 a b c <> [].
Proof. intros a b c E. rewrite rel3_eq in E. apply app_eq_nil in E. destruct E as [_ E]. discriminate. Qed.

Lemma moz_no_panic_binary : forall code_file code_id debug_file dbg_id l,
  binary_lookup code_file code_id debug_file dbg_id = Some l -> exists l', moz_lookup l = Ret l'.
Proof.
  intros cf cid df id l H. unfold binary_lookup, binary_lookup_gen in H.
  destruct cid as [cid|]; [|discriminate]. destruct df as [df|]; [|discriminate].
  destruct id as [id|]; [|discriminate].
  destruct (pick_leaf true cf) as [bl|]; [|discriminate].
  destruct (pick_leaf true df) as [dl|]; [|discriminate].
  inversion H; subst l. unfold moz_lookup, pop_char. cbn [server_rel].
  destruct (rel3 bl cid bl) eqn:E; [exfalso; exact (rel3_nonempty _ _ _ E)|].
  eexists. reflexivity.
Qed.

(* ---------------------------------------------------------------- joins *)
Lemma is_prefix_app : forall a b, is_prefix a (a ++ b) = true.
Proof. induction a as [|x a IH]; intro b; [reflexivity|]. cbn [app is_prefix]. rewrite Z.eqb_refl, IH. reflexivity. Qed.

Definition sep_or_nothing (s : str) : Prop := s = [] \/ s = [47] \/ s = [92].

Lemma join_appends : forall style root rel, safe_rel rel ->
  exists s, join style root rel = root ++ s ++ rel /\ sep_or_nothing s.
Proof.
  intros style root rel [H1 [H2 H3]]. unfold sep_or_nothing. destruct style; cbn [join].
  - unfold posix_join.
    assert (Hs : starts_with_slash rel = false).
    { destruct rel as [|c r]; [reflexivity|]. cbn [starts_with_sep] in H1. cbn [starts_with_slash].
      unfold is_sep in H1. apply orb_false_iff in H1. destruct H1 as [H1 _]. exact H1. }
    rewrite Hs. destruct root as [|r0 root'].
    + exists []. split; [reflexivity | left; reflexivity].
    + destruct (last_is is_slash (r0 :: root')).
      * exists []. split; [reflexivity | left; reflexivity].
      * exists [47]. split; [reflexivity | right; left; reflexivity].
  - unfold windows_join. rewrite H2, H1. unfold win_append. destruct root as [|r0 root'].
    + exists []. split; [reflexivity | left; reflexivity].
    + destruct (last_is is_sep (r0 :: root') || is_bare_drive (r0 :: root')).
      * exists []. split; [reflexivity | left; reflexivity].
      * exists [92]. split; [reflexivity | right; right; reflexivity].
  - exists []. split; [reflexivity | left; reflexivity].
Qed.

Lemma join_contained : forall style root rel, safe_rel rel ->
  is_prefix root (join style root rel) = true /\
  exists s, join style root rel = root ++ s ++ rel /\ sep_or_nothing s /\
            Forall (fun c => c <> dotdot) (split_seps (s ++ rel)).
Proof.
  intros style root rel Hs. destruct (join_appends style root rel Hs) as [s [Hj Hsn]].
  split; [rewrite Hj; apply is_prefix_app|].
  exists s. split; [exact Hj|]. split; [exact Hsn|].
  destruct Hs as [_ [_ H3]].
  destruct Hsn as [E | [E | E]]; subst s; cbn [app split_seps is_sep Z.eqb orb]; try exact H3;
    (constructor; [discriminate | exact H3]).
Qed.

(* ---------------------------------------------------------------- the fix only removes answers *)
Lemma pick_leaf_mono : forall p l, pick_leaf true p = Some l -> pick_leaf false p = Some l.
Proof.
  intros p l H. cbn [pick_leaf] in *. unfold safe_leafname in H.
  destruct (leafname p) as [|c r]; [discriminate|].
  destruct (_ || _); [discriminate | exact H].
Qed.

Lemma lookup_fix_conservative : forall k code_file debug_file dbg_id code_id l,
  lookup_gen true k code_file debug_file dbg_id code_id = Some l ->
  lookup_gen false k code_file debug_file dbg_id code_id = Some l.
Proof.
  intros k cf df id cid l H.
  destruct k; cbn [lookup_gen] in *.
  - unfold breakpad_sym_lookup_gen in *.
    destruct df as [df|]; [|discriminate]. destruct id as [id|]; [|discriminate].
    destruct (pick_leaf true df) as [a|] eqn:E; [|discriminate].
    rewrite (pick_leaf_mono _ _ E). exact H.
  - unfold binary_lookup_gen in *.
    destruct cid as [cid|]; [|discriminate].
    destruct df as [df|]; [|discriminate]. destruct id as [id|]; [|discriminate].
    destruct (pick_leaf true cf) as [a|] eqn:E1; [|discriminate].
    destruct (pick_leaf true df) as [b|] eqn:E2; [|discriminate].
    rewrite (pick_leaf_mono _ _ E1), (pick_leaf_mono _ _ E2). exact H.
  - unfold extra_debuginfo_lookup_gen in *.
    destruct df as [df|]; [|discriminate]. destruct id as [id|]; [|discriminate].
    destruct (pick_leaf true df) as [a|] eqn:E; [|discriminate].
    rewrite (pick_leaf_mono _ _ E). exact H.
Qed.

(* ---------------------------------------------------------------- verbatim windows roots *)
Lemma verbatim_push_appends : forall comps buf, Forall (fun c => c <> dotdot) comps ->
  exists t, verbatim_push buf comps = buf ++ t /\ Forall (fun c => c <> dotdot /\ c <> [] /\ c <> [46]) t.
Proof.
  induction comps as [|c r IH]; intros buf H.
  - exists []. split; [cbn; rewrite app_nil_r; reflexivity | constructor].
  - apply Forall_cons_iff in H. destruct H as [Hc Hr]. cbn [verbatim_push].
    destruct ((match c with [] => true | _ => false end) || str_eqb c [46]) eqn:E1.
    + exact (IH buf Hr).
    + apply orb_false_iff in E1. destruct E1 as [E1 E2].
      apply str_eqb_false in Hc. rewrite Hc. destruct (IH (buf ++ [c]) Hr) as [t [Ht Ft]].
      exists (c :: t). split; [rewrite Ht, <- app_assoc; reflexivity|].
      constructor; [|exact Ft]. split; [apply str_eqb_false; exact Hc|].
      split; [intro; subst c; discriminate | apply str_eqb_false; exact E2].
Qed.

(* ---------------------------------------------------------------- consumers *)
From RM Require Import C17.Consumers.
Lemma consumers_join_only_safe : forall c code_file debug_file dbg_id code_id,
  opt_hex dbg_id -> opt_hex code_id ->
  forall r s, In (r, s) (joined_fields c code_file debug_file dbg_id code_id) -> safe_rel s.
Proof.
  intros c cf df id cid Hid Hcid r s H.
  assert (L : forall k l, lookup k cf df id cid = Some l -> safe_rel (cache_rel l) /\ safe_rel (server_rel l)).
  { intros k l E. exact (lookup_safe cf df id cid k l Hid Hcid E). }
  destruct c as [k| |k|k|]; cbn [joined_fields] in H.
  - destruct (lookup k cf df id cid) as [l|] eqn:E; [|contradiction]. destruct (L k l E) as [Sc Ss].
    cbn [of_lookup] in H. destruct H as [H|[]]. inversion H; subst. exact Sc.
  - destruct (lookup KBreakpadSym cf df id cid) as [l|] eqn:E; [|contradiction]. destruct (L _ l E) as [Sc Ss].
    cbn [of_lookup] in H. destruct H as [H|[H|[]]]; inversion H; subst; assumption.
  - destruct (lookup k cf df id cid) as [l|] eqn:E; [|contradiction]. destruct (L k l E) as [Sc Ss].
    cbn [of_lookup] in H. destruct H as [H|[H|[]]]; inversion H; subst; assumption.
  - destruct (lookup k cf df id cid) as [l|] eqn:E; [|contradiction]. destruct (L k l E) as [Sc Ss].
    cbn [of_lookup] in H. destruct (moz_lookup l) as [l'| | |] eqn:M; try contradiction.
    destruct (moz_safe l l' Ss M) as [Sm _].
    destruct H as [H|[H|[]]]; inversion H; subst; assumption.
  - destruct (code_info_breakpad_sym_lookup cf cid) as [p|] eqn:E; [|contradiction].
    destruct H as [H|[]]. injection H as _ Hs. rewrite <- Hs. exact (code_info_safe cf cid p Hcid E).
Qed.
