(* C17/Model.v — executable model of the symbol lookup path builders.
   Mirrors breakpad-symbols/src/lib.rs:
     leafname, safe_leafname (added by the fix for F-C17a), replace_or_add_extension,
     breakpad_sym_lookup, code_info_breakpad_sym_lookup, extra_debuginfo_lookup,
     binary_lookup, moz_lookup, lookup(module, kind)
   and the joins done by the consumers (lib.rs locate_file, http.rs):
     std::path::Path::join under POSIX and Windows rules, URL joining by concatenation.
   Strings are byte lists ([list Z]); '/'=47 '\\'=92 '.'=46 ':'=58 '_'=95.  Bytes >= 128
   (UTF-8 lead/continuation bytes) are ordinary bytes and never separators.
   Definitions only; proofs are in C17/Proofs.v. *)
From RM Require Export Base.Word.

Definition str := list Z.

Definition is_sep (c : Z) : bool := (c =? 47) || (c =? 92).
Definition has_sep (s : str) : bool := existsb is_sep s.
Definition is_alpha (c : Z) : bool := ((65 <=? c) && (c <=? 90)) || ((97 <=? c) && (c <=? 122)).
Definition is_hex (c : Z) : bool :=
  ((48 <=? c) && (c <=? 57)) || ((65 <=? c) && (c <=? 70)) || ((97 <=? c) && (c <=? 102)).
Definition lower (c : Z) : Z := if (65 <=? c) && (c <=? 90) then c + 32 else c.
Definition upper (c : Z) : Z := if (97 <=? c) && (c <=? 122) then c - 32 else c.

Fixpoint str_eqb (a b : str) : bool :=
  match a, b with
  | [], [] => true
  | x :: a', y :: b' => (x =? y) && str_eqb a' b'
  | _, _ => false
  end.

Definition dotdot : str := [46; 46].

(* path.rsplit(['/', '\\']).next().unwrap_or(path): what follows the last separator *)
Fixpoint leafname (p : str) : str :=
  match p with
  | [] => []
  | c :: r => if has_sep r then leafname r else if is_sep c then r else c :: r
  end.

(* ---- the three conditions of the property --------------------------------- *)
Definition starts_with_sep (p : str) : bool :=
  match p with c :: _ => is_sep c | [] => false end.
(* drive prefix: an ASCII letter followed by ':' (std::path's Windows parse_drive, Win32) *)
Definition has_drive_prefix (p : str) : bool :=
  match p with a :: b :: _ => is_alpha a && (b =? 58) | _ => false end.
(* components: split on either separator (never the empty list) *)
Fixpoint split_seps (s : str) : list str :=
  match s with
  | [] => [[]]
  | c :: r =>
      if is_sep c then [] :: split_seps r
      else match split_seps r with h :: t => (c :: h) :: t | [] => [[c]] end
  end.

Definition safe_rel (p : str) : Prop :=
  starts_with_sep p = false /\ has_drive_prefix p = false /\
  Forall (fun c => c <> dotdot) (split_seps p).
Definition safe_relb (p : str) : bool :=
  negb (starts_with_sep p) && negb (has_drive_prefix p) &&
  forallb (fun c => negb (str_eqb c dotdot)) (split_seps p).

(* ---- safe_leafname (fix for F-C17a): None when the leaf is empty, `..`, or has a drive prefix *)
Definition safe_leafname (p : str) : option str :=
  let leaf := leafname p in
  match leaf with
  | [] => None
  | _ => if str_eqb leaf dotdot || has_drive_prefix leaf then None else Some leaf
  end.
(* [fixed = false] is the tree before the fix: every leaf is used as it is *)
Definition pick_leaf (fixed : bool) (p : str) : option str :=
  if fixed then safe_leafname p else Some (leafname p).

(* ---- replace_or_add_extension ---------------------------------------------- *)
Fixpoint split_on (d : Z) (s : str) : list str :=
  match s with
  | [] => [[]]
  | c :: r =>
      if c =? d then [] :: split_on d r
      else match split_on d r with h :: t => (c :: h) :: t | [] => [[c]] end
  end.
Fixpoint join_with (d : str) (l : list str) : str :=
  match l with
  | [] => []
  | [a] => a
  | a :: r => a ++ d ++ join_with d r
  end.
(* e.to_lowercase() == match_extension, match_extension in {"pdb","dll"}: only ASCII
   letters lower-case to these letters (the one non-ASCII character with an ASCII lower
   case is U+212A KELVIN SIGN -> 'k'), so byte-wise ASCII lowering decides the test. *)
Definition replace_or_add_extension (filename ext new : str) : str :=
  let bits := split_on 46 filename in
  let bits' :=
    if (1 <? Z.of_nat (length bits)) && str_eqb (map lower (last bits [])) ext
    then removelast bits else bits in
  join_with [46] (bits' ++ [new]).

Definition s_pdb : str := [112; 100; 98].
Definition s_dll : str := [100; 108; 108].
Definition s_sym : str := [115; 121; 109].

(* ---- the module as the builders see it --------------------------------------
   code_file : Module::code_file() (always a string); debug_file : Option<Cow<str>>;
   dbg_id : the text of debug_identifier()?.breakpad().to_string();
   code_id : the text of code_identifier()? (CodeId's inner string). *)
Record file_lookup := { cache_rel : str; server_rel : str }.

Definition rel3 (a b c : str) : str := join_with [47] [a; b; c].

Definition breakpad_sym_lookup_gen (fixed : bool) (debug_file dbg_id : option str) : option file_lookup :=
  match debug_file, dbg_id with
  | Some df, Some id =>
      match pick_leaf fixed df with
      | Some leaf =>
          let filename := replace_or_add_extension leaf s_pdb s_sym in
          let rel := rel3 leaf id filename in
          Some {| cache_rel := rel; server_rel := rel |}
      | None => None
      end
  | _, _ => None
  end.

Definition code_info_breakpad_sym_lookup_gen (fixed : bool) (code_file : str) (code_id : option str) : option str :=
  match code_id with
  | Some cid =>
      match code_file with
      | [] => None
      | _ =>
          match pick_leaf fixed code_file with
          | Some leaf =>
              let filename := replace_or_add_extension leaf s_dll s_sym in
              Some (rel3 leaf (map upper cid) filename)
          | None => None
          end
      end
  | None => None
  end.

Definition extra_debuginfo_lookup_gen (fixed : bool) (debug_file dbg_id : option str) : option file_lookup :=
  match debug_file, dbg_id with
  | Some df, Some id =>
      match pick_leaf fixed df with
      | Some leaf =>
          let rel := rel3 leaf id leaf in
          Some {| cache_rel := rel; server_rel := rel |}
      | None => None
      end
  | _, _ => None
  end.

Definition binary_lookup_gen (fixed : bool) (code_file : str) (code_id debug_file dbg_id : option str) : option file_lookup :=
  match code_id, debug_file, dbg_id with
  | Some cid, Some df, Some id =>
      match pick_leaf fixed code_file, pick_leaf fixed df with
      | Some bin_leaf, Some debug_leaf =>
          Some {| cache_rel := rel3 debug_leaf id bin_leaf;
                  server_rel := rel3 bin_leaf cid bin_leaf |}
      | _, _ => None
      end
  | _, _, _ => None
  end.

Inductive kind := KBreakpadSym | KBinary | KExtraDebugInfo.

Definition lookup_gen (fixed : bool) (k : kind) (code_file : str) (debug_file dbg_id code_id : option str)
  : option file_lookup :=
  match k with
  | KBreakpadSym => breakpad_sym_lookup_gen fixed debug_file dbg_id
  | KBinary => binary_lookup_gen fixed code_file code_id debug_file dbg_id
  | KExtraDebugInfo => extra_debuginfo_lookup_gen fixed debug_file dbg_id
  end.

(* the code as it is now *)
Definition breakpad_sym_lookup := breakpad_sym_lookup_gen true.
Definition code_info_breakpad_sym_lookup := code_info_breakpad_sym_lookup_gen true.
Definition extra_debuginfo_lookup := extra_debuginfo_lookup_gen true.
Definition binary_lookup := binary_lookup_gen true.
Definition lookup := lookup_gen true.

(* ---- moz_lookup: server_rel.pop().unwrap(); server_rel.push('_') ---------------
   String::pop removes one char: on UTF-8 text, the trailing continuation bytes
   (0x80..0xBF) and the byte in front of them. *)
Definition is_cont (c : Z) : bool := (128 <=? c) && (c <=? 191).
Fixpoint drop_last_char_rev (r : str) : str :=
  match r with
  | [] => []
  | c :: r' => if is_cont c then drop_last_char_rev r' else r'
  end.
Definition pop_char (p : str) : option str :=
  match p with
  | [] => None
  | _ => Some (rev (drop_last_char_rev (rev p)))
  end.
Definition moz_lookup (l : file_lookup) : outcome file_lookup :=
  match pop_char (server_rel l) with
  | None => Panic 1                                   (* .pop().unwrap() on "" *)
  | Some q => Ret {| cache_rel := cache_rel l; server_rel := q ++ [95] |}
  end.

(* ---- joining onto a root ------------------------------------------------------ *)
Inductive join_style := Posix | Windows | UrlConcat.

Definition last_is (f : Z -> bool) (s : str) : bool :=
  match rev s with c :: _ => f c | [] => false end.
Definition is_slash (c : Z) : bool := c =? 47.

(* PathBuf::push, unix: an absolute argument replaces self; otherwise a '/' is added
   unless self is empty or already ends with '/'. *)
Definition starts_with_slash (p : str) : bool :=
  match p with c :: _ => c =? 47 | [] => false end.
Definition posix_join (root rel : str) : str :=
  if starts_with_slash rel then rel
  else match root with
       | [] => rel
       | _ => if last_is is_slash root then root ++ rel else root ++ [47] ++ rel
       end.

(* PathBuf::push, windows (the cases that matter here): an argument with a prefix
   (drive `X:`; UNC / verbatim / device, all of which start with two separators)
   replaces self; a rooted argument (one leading separator) keeps only self's drive
   prefix; otherwise '\\' is added unless self is empty, ends with a separator or is a
   bare drive `X:`. *)
Definition drive_of (root : str) : str :=
  match root with a :: b :: _ => if has_drive_prefix root then [a; b] else [] | _ => [] end.
Definition is_bare_drive (root : str) : bool :=
  match root with [_; _] => has_drive_prefix root | _ => false end.
Definition win_append (root rel : str) : str :=
  match root with
  | [] => rel
  | _ => if last_is is_sep root || is_bare_drive root then root ++ rel else root ++ [92] ++ rel
  end.
Definition windows_join (root rel : str) : str :=
  if has_drive_prefix rel then rel
  else if starts_with_sep rel then
         (if starts_with_sep (tl rel) then rel else drive_of root ++ rel)
  else win_append root rel.

Definition join (style : join_style) (root rel : str) : str :=
  match style with
  | Posix => posix_join root rel
  | Windows => windows_join root rel
  | UrlConcat => root ++ rel
  end.

Fixpoint is_prefix (a b : str) : bool :=
  match a, b with
  | [], _ => true
  | x :: a', y :: b' => (x =? y) && is_prefix a' b'
  | _ :: _, [] => false
  end.

(* PathBuf::push onto a VERBATIM windows root (`\\?\C:\cache`, std/src/path.rs _push): the argument
   is not appended textually; its components are replayed onto the root's component list — `.` and
   empty components are dropped, `..` pops a Normal component (never the prefix or root, which are
   kept outside [buf] here), everything else is pushed — and the result is re-serialised with '\'.
   [buf] = the root's Normal components, [comps] = the argument split on either separator
   (the argument itself is an ordinary, non-verbatim path). *)
Fixpoint verbatim_push (buf : list str) (comps : list str) : list str :=
  match comps with
  | [] => buf
  | c :: r =>
      if (match c with [] => true | _ => false end) || str_eqb c [46] then verbatim_push buf r
      else if str_eqb c dotdot then verbatim_push (removelast buf) r
      else verbatim_push (buf ++ [c]) r
  end.
