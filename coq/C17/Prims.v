(* C17/Prims.v — the vocabulary of the GENERATED model (coq/Gen/C17Lookup.v, written by
   translate/c17_lookup.py from breakpad-symbols/src/lib.rs and http.rs on every run).
   One executable definition per std operation the lookup code uses, on byte strings
   ([str] = list Z, UTF-8).  All patterns the translator accepts are sets of ASCII
   characters, for which byte-wise and char-wise splitting / searching coincide on UTF-8
   text (a byte < 128 is never part of a multi-byte character).
   Definitions only; the generated functions are proved equal to C17/Model.v in C17/Tie.v. *)
From RM Require Export C17.Model.
Open Scope Z_scope.

(* the module as the builders see it: Module::code_file() (always a string),
   code_identifier() (CodeId's inner string: AsRef<str> / Display), debug_file(),
   debug_identifier() represented by the text of `.breakpad().to_string()` *)
Record module_view := {
  m_code_file : str;
  m_code_identifier : option str;
  m_debug_file : option str;
  m_debug_identifier : option str }.

(* a pattern: a char ('/') or an array of chars (['/', '\\']) *)
Definition pat_chars (l : list Z) (c : Z) : bool := existsb (Z.eqb c) l.

(* str::split(pat) collected, in order; never the empty list *)
Fixpoint split_pat (f : Z -> bool) (s : str) : list str :=
  match s with
  | [] => [[]]
  | c :: r =>
      if f c then [] :: split_pat f r
      else match split_pat f r with h :: t => (c :: h) :: t | [] => [[c]] end
  end.
(* str::rsplit(pat): the same pieces, last first *)
Definition rsplit_pat (f : Z -> bool) (s : str) : list str := rev (split_pat f s).

(* Iterator::next / last, slice::last *)
Definition iter_next {A} (l : list A) : option A := hd_error l.
Definition iter_last {A} (l : list A) : option A := hd_error (rev l).

(* Option combinators *)
Definition opt_unwrap_or {A} (o : option A) (d : A) : A := match o with Some x => x | None => d end.
Definition opt_or_else {A} (o : option A) (f : unit -> option A) : option A :=
  match o with Some x => Some x | None => f tt end.
Definition opt_or {A} (o p : option A) : option A := match o with Some x => Some x | None => p end.
Definition opt_map_or {A B} (o : option A) (d : B) (f : A -> B) : B := match o with Some x => f x | None => d end.
Definition opt_map {A B} (o : option A) (f : A -> B) : option B := match o with Some x => Some (f x) | None => None end.
Definition opt_is_some_and {A} (o : option A) (f : A -> bool) : bool := match o with Some x => f x | None => false end.
Definition opt_is_some {A} (o : option A) : bool := match o with Some _ => true | None => false end.
Definition opt_bind {A B} (o : option A) (f : A -> option B) : option B := match o with Some x => f x | None => None end.

(* str::find / rfind(pat): byte index of the first / last match *)
Fixpoint find_pat (f : Z -> bool) (s : str) : option nat :=
  match s with
  | [] => None
  | c :: r => if f c then Some O else match find_pat f r with Some i => Some (S i) | None => None end
  end.
Fixpoint rfind_pat (f : Z -> bool) (s : str) : option nat :=
  match s with
  | [] => None
  | c :: r => match rfind_pat f r with Some i => Some (S i) | None => if f c then Some O else None end
  end.
(* &s[a..], &s[..b], &s[a..b].  std panics when an index is past the end or inside a character;
   the current source has no such slice.  The translator counts the slice expressions it emitted
   ([g_partial_ops]) and C17/Tie.v proves the count is 0, so a rewrite that introduces one is
   reported as a broken obligation instead of being totalised silently. *)
Definition slice_from (a : nat) (s : str) : str := skipn a s.
Definition slice_to (b : nat) (s : str) : str := firstn b s.
Definition slice_range (a b : nat) (s : str) : str := firstn (b - a) (skipn a s).

Definition str_is_empty (s : str) : bool := match s with [] => true | _ => false end.
Definition str_contains (f : Z -> bool) (s : str) : bool := existsb f s.
Definition str_starts_with (f : Z -> bool) (s : str) : bool := match s with c :: _ => f c | [] => false end.
Definition str_ends_with (f : Z -> bool) (s : str) : bool := last_is f s.
(* str patterns: strip_prefix / strip_suffix / starts_with / ends_with / contains with a string (or one char) *)
Fixpoint strip_prefix_str (pre s : str) : option str :=
  match pre, s with
  | [], _ => Some s
  | a :: pre', b :: s' => if a =? b then strip_prefix_str pre' s' else None
  | _ :: _, [] => None
  end.
Definition strip_suffix_str (suf s : str) : option str := option_map (@rev Z) (strip_prefix_str (rev suf) (rev s)).
Definition starts_with_str (pre s : str) : bool := opt_is_some (strip_prefix_str pre s).
Definition ends_with_str (suf s : str) : bool := opt_is_some (strip_suffix_str suf s).
Fixpoint contains_str (needle s : str) : bool :=
  starts_with_str needle s || match s with [] => false | _ :: r => contains_str needle r end.
(* trim_start_matches / trim_end_matches / trim_matches with an ASCII char pattern *)
Fixpoint drop_while_pat (f : Z -> bool) (s : str) : str :=
  match s with c :: r => if f c then drop_while_pat f r else s | [] => [] end.
Definition trim_start_matches (f : Z -> bool) (s : str) : str := drop_while_pat f s.
Definition trim_end_matches (f : Z -> bool) (s : str) : str := rev (drop_while_pat f (rev s)).
Definition trim_matches (f : Z -> bool) (s : str) : str := trim_end_matches f (trim_start_matches f s).
Definition str_eq_ignore_ascii_case (a b : str) : bool := str_eqb (map lower a) (map lower b).
Definition is_upper_ascii (c : Z) : bool := (65 <=? c) && (c <=? 90).
Definition is_lower_ascii (c : Z) : bool := (97 <=? c) && (c <=? 122).
Definition is_digit_ascii (c : Z) : bool := (48 <=? c) && (c <=? 57).
Definition is_alnum_ascii (c : Z) : bool := is_alpha c || is_digit_ascii c.

(* str::to_lowercase / to_uppercase, ASCII part (see Model.v replace_or_add_extension for why this
   decides the comparisons with "pdb" / "dll"; code ids are hex text) *)
Definition str_to_lowercase (s : str) : str := map lower s.
Definition str_to_uppercase (s : str) : str := map upper s.

(* Vec<&str>: pop as a statement, push, join *)
Definition vec_pop {A} (l : list A) : list A := removelast l.
Definition vec_push {A} (l : list A) (x : A) : list A := l ++ [x].
Definition vec_join (l : list str) (sep : str) : str := join_with sep l.

(* String::pop (one CHARACTER) and String::push of an ASCII char *)
Definition string_pop (s : str) : option str := pop_char s.
Definition string_push (s : str) (c : Z) : str := s ++ [c].

Definition set_server_rel (l : file_lookup) (v : str) : file_lookup :=
  {| cache_rel := cache_rel l; server_rel := v |}.
Definition set_cache_rel (l : file_lookup) (v : str) : file_lookup :=
  {| cache_rel := v; server_rel := server_rel l |}.
