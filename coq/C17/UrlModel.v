(* C17/UrlModel.v — executable model of how a lookup path reaches the wire:
     breakpad-symbols/src/http.rs   join_rel (percent-encoding before the join)
     url 2.5.4 src/parser.rs        the part of Url::join / Parser::parse_url that applies to a
                                    reference resolved against a special-scheme (http/https) base:
       Input::new_trim_c0_control_and_space (trim C0 controls and space at both ends, drop TAB/LF/CR
       everywhere), parse_scheme, parse_relative (empty / ? / # / slash / relative-path branches),
       pop_path, parse_path (segment splitting on '/' and '\\', percent-encoding with the PATH set,
       single- and double-dot segments in all their spellings, last_slash_can_be_removed,
       shorten_path).
   Only the path of the result is modelled (host, query and fragment are not); a reference
   that selects another scheme or authority yields [None].
   Strings are byte lists.  Definitions only; proofs are in C17/UrlProofs.v. *)
From RM Require Export C17.Model.

(* ---- http.rs join_rel ---------------------------------------------------------- *)
(* '\0'..=' ' | '\x7f' | '%' | ':' | '?' | '#' | '\\'  =>  "%{:02X}" *)
Definition needs_escape (c : Z) : bool :=
  (c <=? 32) || (c =? 127) || (c =? 37) || (c =? 58) || (c =? 63) || (c =? 35) || (c =? 92).
Definition hexdig (n : Z) : Z := if n <? 10 then 48 + n else 55 + n.      (* upper case *)
Definition pct (c : Z) : str := [37; hexdig (c / 16); hexdig (c mod 16)].
Definition join_rel_enc (p : str) : str :=
  flat_map (fun c => if needs_escape c then pct c else [c]) p.

(* ---- url: input preparation ------------------------------------------------------ *)
Definition c0_or_space (c : Z) : bool := c <=? 32.
Definition tab_or_nl (c : Z) : bool := (c =? 9) || (c =? 10) || (c =? 13).
Fixpoint drop_while (f : Z -> bool) (s : str) : str :=
  match s with c :: r => if f c then drop_while f r else s | [] => [] end.
Definition trim (f : Z -> bool) (s : str) : str := rev (drop_while f (rev (drop_while f s))).
Definition url_input (s : str) : str := filter (fun c => negb (tab_or_nl c)) (trim c0_or_space s).

(* parse_scheme: ASCII alpha, then alnum / + - . up to a ':' *)
Definition is_alnum (c : Z) : bool := is_alpha c || ((48 <=? c) && (c <=? 57)).
Definition scheme_char (c : Z) : bool := is_alnum c || (c =? 43) || (c =? 45) || (c =? 46).
Fixpoint scheme_rest (s : str) : bool :=
  match s with
  | [] => false
  | c :: r => if c =? 58 then true else if scheme_char c then scheme_rest r else false
  end.
Definition has_scheme (s : str) : bool :=
  match s with c :: _ => is_alpha c && scheme_rest s | [] => false end.

Inductive ref_kind := KScheme | KEmpty | KQuery | KFragment | KAuthority | KAbsPath | KRelPath.
Definition classify (inp : str) : ref_kind :=
  if has_scheme inp then KScheme else
  match inp with
  | [] => KEmpty
  | c :: r =>
      if c =? 63 then KQuery else if c =? 35 then KFragment
      else if is_sep c then (match r with c' :: _ => if is_sep c' then KAuthority else KAbsPath | [] => KAbsPath end)
      else KRelPath
  end.

(* ---- url: parse_path --------------------------------------------------------------- *)
(* the path ends at the first '?' or '#' *)
Fixpoint path_part (s : str) : str :=
  match s with c :: r => if (c =? 63) || (c =? 35) then [] else c :: path_part r | [] => [] end.
(* utf8_percent_encode(c, PATH): C0 controls, DEL, non-ASCII, space dquote < > ` # ? { } *)
Definition in_path_set (c : Z) : bool :=
  (c <=? 32) || (127 <=? c) || (c =? 34) || (c =? 60) || (c =? 62) || (c =? 96) ||
  (c =? 35) || (c =? 63) || (c =? 123) || (c =? 125).
Definition url_path_encode (seg : str) : str :=
  flat_map (fun c => if in_path_set c then pct c else [c]) seg.

(* the literal lists of parse_path *)
Definition dotdot_spellings : list str :=
  [ [46;46]; [37;50;101;37;50;101]; [37;50;101;37;50;69]; [37;50;69;37;50;101]; [37;50;69;37;50;69];
    [37;50;101;46]; [37;50;69;46]; [46;37;50;101]; [46;37;50;69] ].
Definition dot_spellings : list str := [ [46]; [37;50;101]; [37;50;69] ].
Definition is_dotdot_seg (s : str) : bool := existsb (str_eqb s) dotdot_spellings.
Definition is_dot_seg (s : str) : bool := existsb (str_eqb s) dot_spellings.

Definition ends_slash (p : str) : bool := last_is is_slash p.
(* pop_path: truncate after the last '/' (a path is empty or starts with '/') *)
Definition pop_path (p : str) : str := rev (drop_while (fun c => negb (c =? 47)) (rev p)).
(* last_slash_can_be_removed: there is another '/' in front of the final one (not the root slash) *)
Definition can_remove_last_slash (p : str) : bool := existsb is_slash (removelast p).

(* one iteration of parse_path's outer loop; [seg] is the raw segment, [slash] = ends_with_slash *)
Definition path_step (p : str) (seg : str) (slash : bool) : str :=
  let e := url_path_encode seg in
  if is_dotdot_seg e then
    let p1 := if ends_slash p && can_remove_last_slash p then removelast p else p in
    let p2 := pop_path p1 in
    if slash && negb (ends_slash p2) then p2 ++ [47] else p2
  else if is_dot_seg e then (if ends_slash p then p else p ++ [47])
  else p ++ e ++ (if slash then [47] else []).
Fixpoint path_steps (p : str) (segs : list str) : str :=
  match segs with
  | [] => p
  | [s] => path_step p s false
  | s :: r => path_steps (path_step p s true) r
  end.

(* the directory a relative reference is resolved in: pop_path, and "a special url always has a path" *)
Definition base_dir (base_path : str) : str :=
  match pop_path base_path with [] => [47] | d => d end.

(* path of [base.join(reference)] for an http(s) base whose path is [base_path];
   None: the reference carries a scheme or an authority (the request leaves the server) *)
Definition url_join_path (base_path reference : str) : option str :=
  let inp := url_input reference in
  match classify inp with
  | KScheme | KAuthority => None
  | KEmpty | KQuery | KFragment => Some base_path
  | KAbsPath => Some (path_steps [47] (split_seps (path_part (tl inp))))
  | KRelPath => Some (path_steps (base_dir base_path) (split_seps (path_part inp)))
  end.

(* what http.rs requests for a lookup path *)
Definition request_path (base_path rel : str) : option str := url_join_path base_path (join_rel_enc rel).
