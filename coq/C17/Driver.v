(* C17/Driver.v — entry point of the correspondence run (extracted to OCaml).
   Input: code_file, optional debug_file, optional raw breakpad id text (canonical:
   33..40 or 9..16 hex digits, appendix without leading zeros), optional raw code id
   text (any bytes: CodeId::new keeps the hex digits and lower-cases them).
   Output: eight (tag, path) pairs — tag 0 None, 1 Some path, 2 panic — for
   breakpad_sym.cache_rel, .server_rel, code_info, extra_debuginfo.cache_rel, .server_rel,
   binary.cache_rel, .server_rel, moz_lookup(binary).server_rel. *)
From RM Require Import C17.Model.
Open Scope Z_scope.

(* DebugId::from_breakpad(..).breakpad().to_string() on canonical input: "{:X}{:x}" *)
Definition render_breakpad (raw : str) : str :=
  let k := if Z.of_nat (length raw) <=? 16 then 8%nat else 32%nat in
  map upper (firstn k raw) ++ map lower (skipn k raw).
(* CodeId::new: retain(is_ascii_hexdigit); make_ascii_lowercase *)
Definition code_id_new (raw : str) : str := map lower (filter is_hex raw).

Definition tag_opt (o : option str) : Z * str :=
  match o with Some p => (1, p) | None => (0, []) end.

Definition run_case (code_file : str) (debug_file did_raw cid_raw : option str) : list (Z * str) :=
  let dbg_id := option_map render_breakpad did_raw in
  let code_id := option_map code_id_new cid_raw in
  let bs := lookup KBreakpadSym code_file debug_file dbg_id code_id in
  let ed := lookup KExtraDebugInfo code_file debug_file dbg_id code_id in
  let bn := lookup KBinary code_file debug_file dbg_id code_id in
  [ tag_opt (option_map cache_rel bs); tag_opt (option_map server_rel bs);
    tag_opt (code_info_breakpad_sym_lookup code_file code_id);
    tag_opt (option_map cache_rel ed); tag_opt (option_map server_rel ed);
    tag_opt (option_map cache_rel bn); tag_opt (option_map server_rel bn);
    match bn with
    | None => (0, [])
    | Some l => match moz_lookup l with Ret l' => (1, server_rel l') | _ => (2, []) end
    end ].
