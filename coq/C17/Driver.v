(* C17/Driver.v — entry point of the correspondence run (extracted to OCaml).
   Input: code_file, optional debug_file, optional raw breakpad id text (canonical:
   33..40 or 9..16 hex digits, appendix without leading zeros), optional raw code id
   text (any bytes: CodeId::new keeps the hex digits and lower-cases them).
   Output: eight (tag, path) pairs — tag 0 None, 1 Some path, 2 panic — for
   breakpad_sym.cache_rel, .server_rel, code_info, extra_debuginfo.cache_rel, .server_rel,
   binary.cache_rel, .server_rel, moz_lookup(binary).server_rel. *)
(* Round 5: the functions run here are the GENERATED ones (Gen/C17Lookup.v, compiled from the Rust source of the
   checkout by translate/c17_lookup.py): g_breakpad_sym_lookup, g_code_info_breakpad_sym_lookup,
   g_extra_debuginfo_lookup, g_binary_lookup, g_moz_lookup, g_join_rel_enc.  C17/Tie.v proves them equal to
   C17/Model.v; this file does not depend on that proof, so a checkout whose source compiles to a DIFFERENT model is
   still compared with its own code. *)
From RM Require Import C17.Model C17.Prims C17.IdModel C17.PathModel Gen.C17Lookup.
Open Scope Z_scope.

Definition mk_module (code_file : str) (debug_file dbg_id code_id : option str) : module_view :=
  {| m_code_file := code_file; m_code_identifier := code_id; m_debug_file := debug_file; m_debug_identifier := dbg_id |}.

(* DebugId::from_breakpad(text).breakpad().to_string(): parse to the VALUE (C17/IdModel.v: 8 or 32 hex digits +
   appendix as a u32) and render it ("{:08X}{:x}" / "{:X}{:x}"); text that does not parse is never generated (the
   harness `expect`s the parse) and falls back to case conversion. *)
Definition render_breakpad (raw : str) : str :=
  match parse_breakpad raw with
  | Some d => breakpad_text d
  | None =>
      let k := if Z.of_nat (length raw) <=? 16 then 8%nat else 32%nat in
      map upper (firstn k raw) ++ map lower (skipn k raw)
  end.
(* CodeId::new: retain(is_ascii_hexdigit); make_ascii_lowercase *)
Definition code_id_new (raw : str) : str := code_id_text raw.

Definition lookup_eqb (a b : option file_lookup) : bool :=
  match a, b with
  | None, None => true
  | Some x, Some y => str_eqb (cache_rel x) (cache_rel y) && str_eqb (server_rel x) (server_rel y)
  | _, _ => false
  end.
Definition tag_opt (o : option str) : Z * str :=
  match o with Some p => (1, p) | None => (0, []) end.

(* std::path on ROOT.join(rel) and its parent(), as component lists after ROOT's components (C17/PathModel.v);
   None: ROOT's components are not in front, or there is no parent.  ROOT = "/verif-root/symbols" (harness) *)
Definition obs_root : str := [47;118;101;114;105;102;45;114;111;111;116;47;115;121;109;98;111;108;115].
Definition after_root (l : list str) : option (list str) :=
  let r := posix_comps obs_root in
  if comps_prefix r l then Some (skipn (length r) l) else None.
Definition path_obs (rel : str) : option (list str) * option (list str) :=
  let j := posix_comps (posix_join obs_root rel) in
  (after_root j, match path_parent j with Some p => after_root p | None => None end).
Definition run_case_obs (fields : list (Z * str)) : list (option (option (list str) * option (list str))) :=
  map (fun f => if fst f =? 1 then Some (path_obs (snd f)) else None) (firstn 8 fields).

Definition run_case (code_file : str) (debug_file did_raw cid_raw : option str) : list (Z * str) :=
  let dbg_id := option_map render_breakpad did_raw in
  let code_id := option_map code_id_new cid_raw in
  let m := mk_module code_file debug_file dbg_id code_id in
  let bs := g_breakpad_sym_lookup m in
  let ed := g_extra_debuginfo_lookup m in
  let bn := g_binary_lookup m in
  [ tag_opt (option_map cache_rel bs); tag_opt (option_map server_rel bs);
    tag_opt (g_code_info_breakpad_sym_lookup m);
    tag_opt (option_map cache_rel ed); tag_opt (option_map server_rel ed);
    tag_opt (option_map cache_rel bn); tag_opt (option_map server_rel bn);
    match bn with
    | None => (0, [])
    | Some l => match g_moz_lookup l with Ret l' => (1, server_rel l') | _ => (2, []) end
    end;
    (* lookup(module, kind) agrees with the direct builders (1) or not (0) *)
    (if lookup_eqb (g_lookup m KBreakpadSym) bs && lookup_eqb (g_lookup m KExtraDebugInfo) ed
        && lookup_eqb (g_lookup m KBinary) bn then 1 else 0, []) ].

(* ---- url probe predictions (C17/UrlModel.v) -------------------------------------------
   [url_case]: the request paths HttpSymbolSupplier makes, in order, for
     locate_symbols, locate_file(Binary), locate_file(ExtraDebugInfo)
   against a server whose base path is [base_path] ([cab] = feature mozilla_cab_symbols).
   Each prediction is (tag, path): tag 1 = a request with this path, 2 = the URL leaves the server. *)
From RM Require Import C17.UrlModel.

Definition predict (base_path rel : str) : Z * str :=
  match url_join_path base_path (g_join_rel_enc rel) with Some r => (1, r) | None => (2, []) end.

Definition file_requests (cab : bool) (base_path : str) (o : option file_lookup) : list (Z * str) :=
  match o with
  | None => []
  | Some l =>
      predict base_path (server_rel l) ::
      (if cab then match g_moz_lookup l with Ret l' => [predict base_path (server_rel l')] | _ => [(3, [])] end
       else [])
  end.

Definition url_case (cab : bool) (base_path code_file : str) (debug_file did_raw cid_raw : option str)
  : list (list (Z * str)) :=
  let dbg_id := option_map render_breakpad did_raw in
  let code_id := option_map code_id_new cid_raw in
  let m := mk_module code_file debug_file dbg_id code_id in
  let sym :=
    match debug_file, dbg_id with
    | Some _, Some _ =>
        match g_lookup m KBreakpadSym with
        | Some l => [predict base_path (server_rel l)] | None => [] end
    | _, _ =>
        match g_code_info_breakpad_sym_lookup m with
        | Some p => [predict base_path p] | None => [] end
    end in
  [ sym;
    file_requests cab base_path (g_lookup m KBinary);
    file_requests cab base_path (g_lookup m KExtraDebugInfo) ].

(* [base_case]: the server URL is "http://host/" ++ suffix (HttpSymbolSupplier::new appends '/'
   unless it ends with one; Url::parse then runs the same path parser); the request for the plain
   lookup path [rel] *)
From RM Require Import C17.UrlFull.
Definition base_case (suffix rel : str) : Z * str := predict (server_base_path suffix) rel.

(* [redirect_case]: a module WITHOUT debug file / id; the server answers the code-info request with a redirect whose
   Location is [loc]; the requests locate_symbols makes: the code-info path, then — if the Location parses
   (parse_location, a well-formed debug id) and breakpad_sym_lookup accepts the server-supplied name — the symbol file *)
Definition redirect_case (base_path code_file : str) (cid_raw : option str) (loc : str) : list (Z * str) :=
  let code_id := option_map code_id_new cid_raw in
  let m0 := mk_module code_file None None code_id in
  match g_code_info_breakpad_sym_lookup m0 with
  | None => []
  | Some p =>
      predict base_path p ::
      match parse_location loc with
      | Some (dfp, idp) =>
          match parse_breakpad idp with
          | Some d =>
              match g_lookup (mk_module code_file (Some dfp) (Some (breakpad_text d)) code_id) KBreakpadSym with
              | Some l => [predict base_path (server_rel l)]
              | None => []
              end
          | None => []
          end
      | None => []
      end
  end.

(* ---- full reference resolution (C17/UrlFull.v), compared with the real url crate on raw references ----------
   [resolve_case]: (0, path, []) = the base's scheme and authority with this path; (1, scheme, authority text) =
   another authority; (2, scheme, rest) = a file: / non-special URL *)
Definition resolve_case (base_scheme base_path reference : str) : Z * str * str :=
  match url_resolve base_scheme base_path reference with
  | JSame q => (0, q, [])
  | JAuthority s a => (1, s, a)
  | JOpaque s r => (2, s, r)
  end.

(* ---- filesystem probe predictions (Gen/C17Flow.v) ---------------------------------------
   What the consumers return / create for a module, read off the provenance terms the flow translator derived
   from the source: the string joined at the RCacheDir site of fetch_lookup (HttpSymbolSupplier::locate_file
   downloads to cache.join(it) and returns that path) and at the RSymbolDir site of locate_file
   (SimpleSymbolSupplier answers dir.join(it) when the file is there), per FileKind.
   [plain]: every predicted path consists of ordinary components only (non-empty, not `.`/`..`, no NUL, at most
   255 bytes), so that the file system stores it under exactly that name; other cases are not compared. *)
From RM Require Import C17.FlowModel Gen.C17Flow.
Close Scope string_scope.
Open Scope list_scope.
Open Scope Z_scope.

Definition root_tag (r : g_root) : Z := match r with RSymbolDir => 0 | RCacheDir => 1 | RServerUrl => 2 | RUnknown => 3 | RTmpDir => 4 end.
(* g_flow_table = g_consumer_joins without Coq strings (C17/FlowProofs.v flow_table_is_the_site_list) *)
Definition site_arg (fn : str) (tag : Z) : option g_arg :=
  option_map snd (find (fun s => str_eqb (fst (fst s)) fn && Z.eqb (root_tag (snd (fst s))) tag) g_flow_table).
Definition fn_fetch_lookup : str := [102;101;116;99;104;95;108;111;111;107;117;112].
Definition fn_locate_file : str := [108;111;99;97;116;101;95;102;105;108;101].

Definition plain_component (c : str) : bool :=
  negb (str_is_empty c) && negb (str_eqb c [46]) && negb (str_eqb c dotdot) &&
  forallb (fun b => negb (b =? 0)) c && (Z.of_nat (length c) <=? 255).
Definition plain_rel (p : str) : bool := forallb plain_component (split_on 47 p).

Definition kinds3 : list kind := [KBreakpadSym; KBinary; KExtraDebugInfo].
(* (sites found, plain, HttpSymbolSupplier::locate_file per kind, SimpleSymbolSupplier::locate_file per kind) *)
Definition fs_case (code_file : str) (debug_file did_raw cid_raw : option str)
  : bool * bool * list (option str) * list (option str) :=
  let m := mk_module code_file debug_file (option_map render_breakpad did_raw) (option_map code_id_new cid_raw) in
  match site_arg fn_fetch_lookup 1, site_arg fn_locate_file 0 with
  | Some ah, Some asim =>
      let rh := map (fun k => eval_arg ah m k) kinds3 in
      let rs := map (fun k => eval_arg asim m k) kinds3 in
      (true, forallb (fun o => match o with Some p => plain_rel p | None => true end) (rh ++ rs)%list, rh, rs)
  | _, _ => (false, false, [], [])
  end.
