(* C17/PathProofs.v — joining a safe relative path onto an absolute root appends its components; hence the parent
   directory of the joined path (what create_dir_all receives) still has every component of the root in front. *)
From RM Require Import C17.Model C17.Proofs C17.UrlModel C17.UrlProofs C17.Prims Gen.C17Lookup C17.Tie C17.IdModel C17.IdProofs C17.PathModel.
From Coq Require Import Lia.
Open Scope Z_scope.

Lemma split_on_nonempty : forall d s, split_on d s <> [].
Proof. intros d s. destruct s as [|c r]; simpl; [discriminate|]. destruct (c =? d); [discriminate|]. destruct (split_on d r); discriminate. Qed.

Lemma split_on_app_sep : forall d a b, split_on d (a ++ d :: b) = split_on d a ++ split_on d b.
Proof.
  intros d a b. induction a as [|c r IH].
  - simpl. rewrite Z.eqb_refl. reflexivity.
  - cbn [app split_on]. destruct (c =? d); [rewrite IH; reflexivity|]. rewrite IH.
    pose proof (split_on_nonempty d r) as N. destruct (split_on d r) as [|h t]; [contradiction|]. reflexivity.
Qed.

Lemma posix_comps_app_sep : forall a b, posix_comps (a ++ 47 :: b) = posix_comps a ++ posix_comps b.
Proof. intros a b. unfold posix_comps. rewrite split_on_app_sep, filter_app. reflexivity. Qed.

Lemma posix_comps_trailing : forall a, posix_comps (a ++ [47]) = posix_comps a.
Proof. intro a. rewrite posix_comps_app_sep. cbn. apply app_nil_r. Qed.

Lemma last_is_slash_decomp : forall root, last_is is_slash root = true -> exists r', root = r' ++ [47].
Proof.
  intros root H. unfold last_is in H. destruct (rev root) as [|c t] eqn:E; [discriminate|].
  unfold is_slash in H. apply Z.eqb_eq in H. subst c. exists (rev t).
  rewrite <- (rev_involutive root), E. reflexivity.
Qed.

(* Path::join on unix: the components of root, then those of rel *)
Lemma posix_join_comps : forall root rel, root <> [] -> starts_with_sep rel = false ->
  posix_comps (posix_join root rel) = posix_comps root ++ posix_comps rel.
Proof.
  intros root rel N S. unfold posix_join.
  assert (Hs : starts_with_slash rel = false).
  { destruct rel as [|c r]; [reflexivity|]. cbn in *. unfold is_sep in S. apply orb_false_iff in S. exact (proj1 S). }
  rewrite Hs. destruct root as [|c0 r0] eqn:ER; [contradiction|]. rewrite <- ER in *.
  destruct (last_is is_slash root) eqn:L.
  - destruct (last_is_slash_decomp root L) as [r' E]. rewrite E, <- app_assoc. cbn [app].
    rewrite posix_comps_app_sep, posix_comps_trailing. reflexivity.
  - cbn [app]. apply posix_comps_app_sep.
Qed.

Lemma comps_prefix_app : forall a b, comps_prefix a (a ++ b) = true.
Proof.
  induction a as [|x a IH]; intro b; [reflexivity|]. cbn.
  rewrite (proj2 (str_eqb_spec x x) eq_refl). apply IH.
Qed.

Lemma removelast_app_nonempty : forall (a b : list str), b <> [] -> removelast (a ++ b) = a ++ removelast b.
Proof. intros a b H. apply removelast_app. exact H. Qed.

Lemma safe_rel_slash_comps : forall rel, safe_rel rel -> Forall (fun c => c <> dotdot) (posix_comps rel).
Proof.
  intros rel [_ [_ F]]. apply Forall_forall. intros c Hc E. subst c.
  unfold posix_comps in Hc. apply filter_In in Hc. destruct Hc as [Hc _].
  rewrite Forall_forall in F. apply (F dotdot); [|reflexivity].
  apply slash_segment_is_component; [exact Hc | repeat constructor].
Qed.

(* the parent of root.join(rel) — create_dir_all's argument — starts with the root's components and adds no `..` *)
Lemma parent_of_joined_below_root : forall root rel, root <> [] -> safe_rel rel -> posix_comps rel <> [] ->
  exists t, path_parent (posix_comps (posix_join root rel)) = Some (posix_comps root ++ t) /\
            comps_prefix (posix_comps root) (posix_comps root ++ t) = true /\
            Forall (fun c => c <> dotdot) t.
Proof.
  intros root rel N S C. pose proof (safe_rel_slash_comps rel S) as F. destruct S as [S _].
  exists (removelast (posix_comps rel)). rewrite (posix_join_comps root rel N S). split; [|split].
  - unfold path_parent. destruct (posix_comps root ++ posix_comps rel) eqn:E.
    + apply app_eq_nil in E. destruct E as [_ E]. contradiction.
    + rewrite <- E. rewrite removelast_app by exact C. reflexivity.
  - apply comps_prefix_app.
  - apply Forall_forall. intros c Hc. rewrite Forall_forall in F. apply F.
    destruct (exists_last C) as [l' [x E]]. rewrite E in *. rewrite removelast_last in Hc. apply in_or_app. left. exact Hc.
Qed.

(* the joined path itself: root's components then rel's, no `..` among them *)
Lemma joined_below_root : forall root rel, root <> [] -> safe_rel rel ->
  posix_comps (posix_join root rel) = posix_comps root ++ posix_comps rel /\
  comps_prefix (posix_comps root) (posix_comps (posix_join root rel)) = true /\
  Forall (fun c => c <> dotdot) (posix_comps rel).
Proof.
  intros root rel N S. pose proof (safe_rel_slash_comps rel S) as F. destruct S as [S _].
  rewrite (posix_join_comps root rel N S). split; [reflexivity|]. split; [apply comps_prefix_app | exact F].
Qed.

(* every cache_rel has the identifier as a real component: <leaf>/<ID>/<name> with a non-empty hex ID *)
Lemma split_on_noslash : forall s, Forall (fun c => c <> 47) s -> split_on 47 s = [s].
Proof.
  induction s as [|c r IH]; intro H; [reflexivity|]. inversion H; subst. cbn [split_on].
  destruct (c =? 47) eqn:E; [apply Z.eqb_eq in E; contradiction|]. rewrite (IH H3). reflexivity.
Qed.

Lemma rel3_has_component : forall a id c, id <> [] -> hex_only id -> posix_comps (rel3 a id c) <> [].
Proof.
  intros a id c N H. unfold hex_only in H. rewrite rel3_eq. rewrite posix_comps_app_sep, posix_comps_app_sep.
  assert (E : posix_comps id = [id]).
  { unfold posix_comps. rewrite split_on_noslash.
    - cbn. unfold real_component. destruct id as [|x r]; [contradiction|]. cbn [negb andb].
      destruct (str_eqb (x :: r) [46]) eqn:D; [|reflexivity]. apply str_eqb_spec in D. inversion D; subst.
      inversion H; subst. discriminate.
    - apply Forall_forall. intros x Hx E. subst x. rewrite Forall_forall in H. specialize (H 47 Hx). discriminate. }
  rewrite E. intro X. apply app_eq_nil in X. destruct X as [_ X]. discriminate.
Qed.

(* ---- Windows rules, component level (model-only) ----------------------------------------------------- *)
Lemma last_is_sep_decomp : forall root, last_is is_sep root = true -> exists r' c, root = r' ++ [c] /\ is_sep c = true.
Proof.
  intros root H. unfold last_is in H. destruct (rev root) as [|c t] eqn:E; [discriminate|].
  exists (rev t), c. split; [|exact H]. rewrite <- (rev_involutive root), E. reflexivity.
Qed.

Lemma win_comps_app_sep : forall a c b, is_sep c = true -> win_comps (a ++ c :: b) = win_comps a ++ win_comps b.
Proof. intros a c b H. unfold win_comps. rewrite (split_seps_app a c b H), filter_app. reflexivity. Qed.

Lemma win_comps_trailing : forall a c, is_sep c = true -> win_comps (a ++ [c]) = win_comps a.
Proof. intros a c H. rewrite (win_comps_app_sep a c [] H). cbn. apply app_nil_r. Qed.

(* PathBuf::push under Windows rules with a safe relative argument, onto a root that is not a bare drive `X:`:
   the root's components, then the argument's, none of them `..` *)
Lemma windows_join_comps : forall root rel, root <> [] -> is_bare_drive root = false -> safe_rel rel ->
  win_comps (windows_join root rel) = win_comps root ++ win_comps rel /\
  Forall (fun c => c <> dotdot) (win_comps rel).
Proof.
  intros root rel N B [H1 [H2 H3]]. split.
  - unfold windows_join. rewrite H2, H1. unfold win_append. destruct root as [|r0 root'] eqn:ER; [contradiction|].
    rewrite <- ER in *. rewrite B, orb_false_r. destruct (last_is is_sep root) eqn:L.
    + destruct (last_is_sep_decomp root L) as [r' [c [E Hc]]]. rewrite E, <- app_assoc. cbn [app].
      rewrite (win_comps_app_sep r' c rel Hc), (win_comps_trailing r' c Hc). reflexivity.
    + cbn [app]. apply win_comps_app_sep. reflexivity.
  - unfold win_comps. apply Forall_forall. intros c Hc. apply filter_In in Hc. rewrite Forall_forall in H3.
    exact (H3 c (proj1 Hc)).
Qed.

(* ---- the cache paths of the generated builders ------------------------------------------------------ *)
Lemma lookup_cache_has_component : forall k cf df id cid l,
  lookup k cf df (Some id) cid = Some l -> id <> [] -> hex_only id -> posix_comps (cache_rel l) <> [].
Proof.
  intros k cf df id cid l H N X. destruct k; cbn [lookup lookup_gen] in H.
  - unfold breakpad_sym_lookup_gen in H. destruct df as [df|]; [|discriminate].
    destruct (pick_leaf true df) as [leaf|]; [|discriminate]. inversion H; subst l. cbn [cache_rel].
    apply rel3_has_component; assumption.
  - unfold binary_lookup_gen in H. destruct cid as [cid|]; [|discriminate]. destruct df as [df|]; [|discriminate].
    destruct (pick_leaf true cf) as [bl|]; [|discriminate].
    destruct (pick_leaf true df) as [dl|]; [|discriminate]. inversion H; subst l. cbn [cache_rel].
    apply rel3_has_component; assumption.
  - unfold extra_debuginfo_lookup_gen in H. destruct df as [df|]; [|discriminate].
    destruct (pick_leaf true df) as [leaf|]; [|discriminate]. inversion H; subst l. cbn [cache_rel].
    apply rel3_has_component; assumption.
Qed.

Lemma hex_fixed_length : forall up d v, length (hex_fixed up d v) = d.
Proof. intros up d. induction d as [|d IH]; intro v; [reflexivity|]. cbn [hex_fixed]. rewrite app_length, IH. cbn. lia. Qed.

Lemma breakpad_text_nonempty : forall d, breakpad_text d <> [].
Proof.
  intros d E. apply (f_equal (@length Z)) in E. unfold breakpad_text in E. rewrite app_length, hex_fixed_length in E.
  destruct (d_pdb20 d); cbn in E; lia.
Qed.

(* what create_dir_all and the file creation receive, for every module with a debug id VALUE:
   cache.join(cache_rel) has the components of the cache root followed by those of cache_rel (no `..`), and its parent
   directory still starts with the components of the cache root *)
Lemma cache_paths_below_root : forall cf df d raw k l root,
  g_lookup (module_of_ids cf df (Some d) raw) k = Some l -> root <> [] ->
  (posix_comps (posix_join root (cache_rel l)) = posix_comps root ++ posix_comps (cache_rel l) /\
   Forall (fun c => c <> dotdot) (posix_comps (cache_rel l))) /\
  exists t, path_parent (posix_comps (posix_join root (cache_rel l))) = Some (posix_comps root ++ t) /\
            comps_prefix (posix_comps root) (posix_comps root ++ t) = true /\
            Forall (fun c => c <> dotdot) t.
Proof.
  intros cf df d raw k l root H N.
  destruct (src_all_ids cf df (Some d) raw k l H) as [Sc _].
  split.
  - destruct (joined_below_root root (cache_rel l) N Sc) as [E [_ F]]. split; assumption.
  - apply parent_of_joined_below_root; [exact N | exact Sc |].
    rewrite g_lookup_eq in H. cbn [module_of_ids m_code_file m_debug_file m_debug_identifier m_code_identifier option_map] in H.
    apply (lookup_cache_has_component _ _ _ _ _ _ H); [apply breakpad_text_nonempty | apply breakpad_text_hex].
Qed.

(* ---- everything the property says, in one statement, with no hypothesis on the identifiers --------------- *)
Lemma lookup_needs_debug_id : forall k cf df cid l, lookup k cf df None cid = Some l -> False.
Proof.
  intros k cf df cid l H. destruct k; cbn [lookup lookup_gen] in H.
  - unfold breakpad_sym_lookup_gen in H. destruct df; discriminate.
  - unfold binary_lookup_gen in H. destruct cid; [destruct df|]; discriminate.
  - unfold extra_debuginfo_lookup_gen in H. destruct df; discriminate.
Qed.

Lemma full_property : forall code_file debug_file d raw_code_id kind l,
  bytes code_file -> opt_bytes debug_file ->
  g_lookup (module_of_ids code_file debug_file d raw_code_id) kind = Some l ->
  safe_rel (cache_rel l) /\ safe_rel (server_rel l) /\
  (forall style root, is_prefix root (join style root (cache_rel l)) = true) /\
  (forall root, root <> [] ->
     comps_prefix (posix_comps root) (posix_comps (posix_join root (cache_rel l))) = true /\
     Forall (fun c => c <> dotdot) (posix_comps (cache_rel l)) /\
     exists t, path_parent (posix_comps (posix_join root (cache_rel l))) = Some (posix_comps root ++ t) /\
               Forall (fun c => c <> dotdot) t) /\
  (forall base_path, exists r, g_request_path base_path (server_rel l) = Some r /\
                               is_prefix (base_dir base_path) r = true) /\
  (forall l', g_moz_lookup l = Ret l' ->
     cache_rel l' = cache_rel l /\ safe_rel (server_rel l') /\
     forall base_path, exists r, g_request_path base_path (server_rel l') = Some r /\
                                 is_prefix (base_dir base_path) r = true).
Proof.
  intros cf df d raw k l B1 B2 H.
  pose proof (module_of_ids_hex cf df d raw) as MH.
  assert (MB : mv_bytes (module_of_ids cf df d raw)) by (split; assumption).
  destruct (src_relative _ k l MH H) as [Sc Ss].
  destruct (src_contained _ k l MB MH H) as [J [U M]].
  destruct d as [d|].
  2:{ exfalso. rewrite g_lookup_eq in H. exact (lookup_needs_debug_id _ _ _ _ _ H). }
  split; [exact Sc|]. split; [exact Ss|]. split; [exact J|]. split.
  - intros root N. destruct (cache_paths_below_root cf df d raw k l root H N) as [[E F] [t [P [_ T]]]].
    split; [rewrite E; apply comps_prefix_app|]. split; [exact F|]. exists t. split; assumption.
  - split; [exact U|]. intros l' Hm. destruct (M l' Hm) as [Ec R]. split; [exact Ec|]. split; [|exact R].
    rewrite g_moz_eq in Hm. exact (proj1 (moz_safe l l' Ss Hm)).
Qed.

Lemma full_property_code_info : forall code_file debug_file d raw_code_id p base_path,
  bytes code_file -> opt_bytes debug_file ->
  g_code_info_breakpad_sym_lookup (module_of_ids code_file debug_file d raw_code_id) = Some p ->
  safe_rel p /\ exists r, g_request_path base_path p = Some r /\ is_prefix (base_dir base_path) r = true.
Proof.
  intros cf df d raw p bp B1 B2 H.
  apply (src_code_info_contained (module_of_ids cf df d raw) p bp); [split; assumption | apply module_of_ids_hex | exact H].
Qed.
