(* C07/Proofs13.v — well-formed all-FPO stacks with both kinds of FPO record (ebp passed through / restored from the frame). *)
From Coq Require Import Lia.
From RM Require Import C06.Model C06.Proofs C07.Model C07.Walker C07.Proofs2 C07.Proofs6 C07.Proofs7 C07.Proofs11.
Import ListNotations.
Open Scope Z_scope.

Lemma fpo_step_plain : forall mem below callee r i abp ra bp',
  w_thing i = AllocatesBasePointer abp ->
  (below <> [] \/ ra <> x_eip r) ->
  let gcps := spec_gcps below in
  let fs := w_locals i + w_saved i + gcps in
  win_frame_size i gcps = Some fs ->
  0 <= x_esp r -> 0 <= w_locals i -> 0 <= w_saved i -> 0 <= gcps ->
  mem (x_esp r + fs) = Some ra -> ra < 2 ^ 32 -> x_esp r + fs + 4 < 2 ^ 32 ->
  (if abp then 0 <= x_esp r + gcps + w_saved i - 8 /\ mem (x_esp r + gcps + w_saved i - 8) = Some bp' else bp' = x_ebp r) ->
  bp' < 2 ^ 32 ->
  fpo_step mem below callee r i = Some (mkX ra (x_esp r + fs + 4) bp').
Proof.
  intros mem below callee r i abp ra bp' Habp Hskip gcps fs Hfs Hesp0 Hl0 Hs0 Hg0 Hm Hra Hsp Hbp Hbp32.
  unfold fpo_step, frames_env. rewrite Habp. rewrite walker_has_gc_spec, walker_gcps_spec.
  fold gcps. unfold walk_win_fpo. cbv zeta. cbn [e_gcps e_callee e_mem e_has_gc].
  rewrite Hfs.
  change (assoc N_esp [(N_eip, x_eip r); (N_esp, x_esp r); (N_ebp, x_ebp r)]) with (Some (x_esp r)).
  change (assoc N_ebp [(N_eip, x_eip r); (N_esp, x_esp r); (N_ebp, x_ebp r)]) with (Some (x_ebp r)).
  change (assoc N_ebx [(N_eip, x_eip r); (N_esp, x_esp r); (N_ebp, x_ebp r)]) with (@None Z).
  change (assoc N_eip [(N_eip, x_eip r); (N_esp, x_esp r); (N_ebp, x_ebp r)]) with (Some (x_eip r)).
  unfold checked_add.
  replace (x_esp r + fs <? 2 ^ 64) with true by (symmetry; apply Z.ltb_lt; lia).
  rewrite Hm.
  assert (Hsk : (if negb (spec_has_gc below) then Some (ra =? x_eip r) else Some false) = Some false).
  { destruct below as [|g t]; cbn [spec_has_gc negb]; [|reflexivity].
    destruct Hskip as [Hc|Hne]; [contradiction|].
    replace (ra =? x_eip r) with false by (symmetry; apply Z.eqb_neq; exact Hne). reflexivity. }
  rewrite Hsk.
  replace (x_esp r + fs + 4 <? 2 ^ 64) with true by (symmetry; apply Z.ltb_lt; lia).
  set (s0 := clear_all (mock_ops 4) win_clear_names m_init).
  destruct abp.
  - destruct Hbp as [Hslot Hmb].
    replace (x_esp r + gcps <? 2 ^ 64) with true by (symmetry; apply Z.ltb_lt; unfold fs in Hsp; lia).
    replace (x_esp r + gcps + w_saved i <? 2 ^ 64) with true by (symmetry; apply Z.ltb_lt; unfold fs in Hsp; lia).
    unfold checked_sub.
    replace (0 <=? x_esp r + gcps + w_saved i - 8) with true by (symmetry; apply Z.leb_le; exact Hslot).
    rewrite Hmb.
    rewrite (mock_set_ok s0 N_eip ra eq_refl Hra).
    rewrite (mock_set_ok _ N_esp (x_esp r + fs + 4) eq_refl Hsp).
    rewrite (mock_set_ok _ N_ebp bp' eq_refl Hbp32).
    cbn [m_regs]. unfold upd.
    change (beq N_eip N_ebp) with false. change (beq N_eip N_esp) with false. change (beq N_eip N_eip) with true.
    change (beq N_esp N_ebp) with false. change (beq N_esp N_esp) with true. change (beq N_ebp N_ebp) with true.
    reflexivity.
  - subst bp'.
    rewrite (mock_set_ok s0 N_eip ra eq_refl Hra).
    rewrite (mock_set_ok _ N_esp (x_esp r + fs + 4) eq_refl Hsp).
    rewrite (mock_set_ok _ N_ebp (x_ebp r) eq_refl Hbp32).
    cbn [m_regs]. unfold upd.
    change (beq N_eip N_ebp) with false. change (beq N_eip N_esp) with false. change (beq N_eip N_eip) with true.
    change (beq N_esp N_ebp) with false. change (beq N_esp N_esp) with true. change (beq N_ebp N_ebp) with true.
    reflexivity.
Qed.

Theorem fpo_recovers_chain_bp : forall mem in_stack lookup (acts : list act_bp) below eip esp ebp,
  fpo_layout_bp mem in_stack lookup (is_nil below) (spec_gcps below) eip esp ebp acts ->
  0 <= esp ->
  fpo_walk (length acts) mem in_stack lookup below (mkX eip esp ebp) = fpo_chain_bp (spec_gcps below) esp acts.
Proof.
  intros mem in_stack lookup acts. induction acts as [|[[[i ps] ra] bp'] rest IH]; intros below eip esp ebp HL Hesp.
  - reflexivity.
  - cbn [fpo_layout_bp] in HL.
    destruct HL as (Hl & His & Hfs & Hl0 & Hs0 & Hg0 & Hm & Hra & Htop & Hctx & Hthing & Hbp32 & Hrest).
    cbn [length fpo_walk fpo_chain_bp x_esp x_eip].
    replace (match below with [] => true | _ :: _ => in_stack esp end) with true
      by (destruct below; [reflexivity|symmetry; apply His; reflexivity]).
    rewrite Hl.
    set (F := w_locals i + w_saved i + spec_gcps below) in *.
    assert (Hstep : fpo_step mem below (mkSF ps) (mkX eip esp ebp) i = Some (mkX ra (esp + F + 4) bp')).
    { destruct (w_thing i) as [e|abp] eqn:Et; [contradiction|].
      apply (fpo_step_plain mem below (mkSF ps) (mkX eip esp ebp) i abp ra bp' Et); cbn [x_esp x_ebp x_eip];
        try assumption; try lia;
        try (destruct below as [|g t]; [right; apply Hctx; reflexivity|left; discriminate]);
        try (destruct abp; exact Hthing). }
    rewrite Hstep. cbn [x_eip x_esp].
    replace (ra <? 4096) with false by (symmetry; apply Z.ltb_ge; lia).
    replace (esp + F + 4 <=? esp) with false by (symmetry; apply Z.leb_gt; lia).
    cbn [orb]. f_equal.
    specialize (IH (below ++ [mkSF ps]) ra (esp + F + 4) bp').
    rewrite spec_gcps_snoc in IH.
    replace (is_nil (below ++ [mkSF ps])) with false in IH by (destruct below; reflexivity).
    apply IH; [exact Hrest|lia].
Qed.
