(* C07/Proofs20.v — round 5: one step of win_walk / fpo_walk IS SymbolFile::walk_frame on the abstract walker, for the record
   the tables return at the lookup address (frame data preferred over FPO), in a file without STACK CFI records. *)
From RM Require Import Base.Word C06.Model C06.Proofs C07.Model C07.Walker C07.WalkerFd C07.Proofs16.
From RM Require C08.Model.
Import ListNotations.
Open Scope Z_scope.

(* STACK WIN evaluation never looks at the walker's instruction: only the table lookup does *)
Definition same_but_instr (E E' : env) : Prop :=
  e_callee E = e_callee E' /\ e_mem E = e_mem E' /\ e_has_gc E = e_has_gc E' /\ e_gcps E = e_gcps E'.

Lemma step_instr : forall p E E' t ms, same_but_instr E E' -> win_step p E t ms = win_step p E' t ms.
Proof. intros p E E' t [m st] (_ & Hm & _ & _). unfold win_step. rewrite Hm. reflexivity. Qed.

Lemma loop_instr : forall p E E' toks ms, same_but_instr E E' -> win_loop p E toks ms = win_loop p E' toks ms.
Proof.
  induction toks as [|t r IH]; intros ms H; cbn [win_loop]; [reflexivity|].
  rewrite (step_instr p E E' t ms H). destruct (win_step p E' t ms); cbn [obind]; auto.
Qed.

Lemma framedata_instr : forall S (ops : wops S) p E E' i e s, same_but_instr E E' ->
  walk_win_framedata ops p E i e s = walk_win_framedata ops p E' i e s.
Proof.
  intros S ops p E E' i e s H. pose proof H as (Hc & Hm & Hh & Hg).
  unfold walk_win_framedata, win_final_vars, win_initial_vars. rewrite Hc, Hg.
  destruct (e_callee E' N_esp); [|reflexivity]. destruct (e_callee E' N_ebp); [|reflexivity].
  destruct (win_frame_size i (e_gcps E')); [|reflexivity].
  destruct (if contains_at e then _ else _); [|reflexivity].
  rewrite (loop_instr p E E' _ _ H). reflexivity.
Qed.

Lemma fpo_instr : forall S (ops : wops S) E E' i abp s, same_but_instr E E' ->
  walk_win_fpo ops E i abp s = walk_win_fpo ops E' i abp s.
Proof. intros S ops E E' i abp s (Hc & Hm & Hh & Hg). unfold walk_win_fpo. rewrite Hc, Hm, Hh, Hg. reflexivity. Qed.

Definition xregs_of (s : mstate) : option xregs :=
  match m_regs s N_eip, m_regs s N_esp, m_regs s N_ebp with
  | SetTo a, SetTo b, SetTo c => Some (mkX a b c)
  | _, _, _ => None
  end.

Theorem xstep_is_walk_frame : forall f fd fp mem below callee r a i,
  win_table (sf_framedata f) = Ret fd -> win_table (sf_fpo f) = Ret fp -> sf_cfi f = None ->
  ((C08.Model.rm_get fd a = Some i /\ exists e, w_thing i = ProgramString e) \/
   (C08.Model.rm_get fd a = None /\ C08.Model.rm_get fp a = Some i /\ exists b, w_thing i = AllocatesBasePointer b)) ->
  let regs := fun n => assoc n [(N_eip, x_eip r); (N_esp, x_esp r); (N_ebp, x_ebp r)] in
  win_xstep mem below callee r i =
  match walk_frame (mock_ops 4) Debug (frames_env regs mem a below callee) f m_init with
  | Ret (Some s) => xregs_of s
  | _ => None
  end.
Proof.
  intros f fd fp mem below callee r a i Hfd Hfp Hcfi Hsel regs.
  set (E := frames_env regs mem a below callee).
  set (E0 := frames_env regs mem 0 below callee).
  assert (HE : same_but_instr E0 E) by (repeat split; reflexivity).
  destruct (record_preference mstate (mock_ops 4) Debug E f m_init fd fp Hfd Hfp) as (P1 & P2 & _).
  unfold cfi_fallback in P1, P2. rewrite Hcfi in P1, P2.
  change (e_instr E) with a in P1, P2.
  destruct Hsel as [(Hg & e & Ht)|(Hn & Hg & b & Ht)].
  - rewrite (P1 i e Hg Ht). unfold win_xstep. rewrite Ht. fold regs. fold E0.
    rewrite (framedata_instr _ (mock_ops 4) Debug E0 E i e m_init HE).
    destruct (walk_win_framedata (mock_ops 4) Debug E i e m_init) as [[s ok]| | |]; cbn [obind fst snd]; try reflexivity.
    destruct ok; reflexivity.
  - rewrite (P2 i b Hn Hg Ht). unfold win_xstep, fpo_step. rewrite Ht. fold regs. fold E0.
    rewrite (fpo_instr _ (mock_ops 4) E0 E i b m_init HE). cbv zeta.
    destruct (walk_win_fpo (mock_ops 4) E i b m_init) as [s ok]. cbn [fst snd]. destruct ok; reflexivity.
Qed.
