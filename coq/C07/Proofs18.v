(* C07/Proofs18.v — round 5: the two frame-data programs MSVC emits for almost every function, evaluated symbolically
   for ALL environments: the frame-pointer-less form (return address at .raSearch) and the module docs' worked example
   (standard ebp frame). *)
From Coq Require Import String Lia.
From RM Require Import Base.Word C06.Model C06.Proofs C07.Model C07.Proofs C07.Proofs2 C07.Proofs3.
Open Scope Z_scope.

Definition D_T0 : bytes := [36; 84; 48].     (* $T0 *)
Definition prog_ra_search : bytes := bs "$T0 .raSearch = $eip $T0 ^ = $esp $T0 4 + =".
Definition prog_ebp_frame : bytes := bs "$T0 $ebp = $eip $T0 4 + ^ = $ebp $T0 ^ = $esp $T0 8 + =".

Lemma loop_cons : forall p E t r ms, win_loop p E (t :: r) ms = (do ms' <- win_step p E t ms; win_loop p E r ms').
Proof. reflexivity. Qed.

Lemma step_var : forall p E m st t, beq t T_plus = false -> beq t T_minus = false -> beq t T_star = false ->
  beq t T_slash = false -> beq t T_pct = false -> beq t T_at = false -> beq t T_eq = false -> beq t T_caret = false ->
  beq t T_undef = false -> starts_var t = true ->
  win_step p E t (m, st) = Ret (m, WVar t :: st).
Proof. intros. unfold win_step. rewrite H, H0, H1, H2, H3, H4, H5, H6, H7, H8. reflexivity. Qed.

Lemma step_deref_var : forall p E m st n a v, vget n m = Some a -> e_mem E a = Some v ->
  win_step p E T_caret (m, WVar n :: st) = Ret (m, WInt (wrap32 v) :: st).
Proof.
  intros. change (win_step p E T_caret (m, WVar n :: st)) with
    (match vget n m with None => Fail | Some ptr => match e_mem E ptr with Some v => Ret (m, WInt (wrap32 v) :: st) | None => Fail end end).
  rewrite H, H0. reflexivity.
Qed.

Lemma step_deref_int : forall p E m st a v, e_mem E a = Some v ->
  win_step p E T_caret (m, WInt a :: st) = Ret (m, WInt (wrap32 v) :: st).
Proof.
  intros. change (win_step p E T_caret (m, WInt a :: st)) with
    (match e_mem E a with Some v => Ret (m, WInt (wrap32 v) :: st) | None => Fail end).
  rewrite H. reflexivity.
Qed.

Lemma step_plus_var_int : forall p E m st n a k, vget n m = Some a ->
  win_step p E T_plus (m, WInt k :: WVar n :: st) = Ret (m, WInt (wrap32 (a + k)) :: st).
Proof.
  intros. change (win_step p E T_plus (m, WInt k :: WVar n :: st)) with
    (match vget n m with None => Fail | Some lv => Ret (m, WInt (wrap32 (lv + k)) :: st) end).
  rewrite H. reflexivity.
Qed.

Lemma step_lit4 : forall p E m st, win_step p E [52] (m, st) = Ret (m, WInt 4 :: st).
Proof. reflexivity. Qed.
Lemma step_lit8 : forall p E m st, win_step p E [56] (m, st) = Ret (m, WInt 8 :: st).
Proof. reflexivity. Qed.

Ltac push_var := rewrite loop_cons; rewrite step_var by reflexivity; cbn [obind].

(* $T0 .raSearch = $eip $T0 ^ = $esp $T0 4 + = *)
Lemma ra_search_vars : forall p E i m ss ra,
  win_initial_vars E i prog_ra_search = Some m -> vget V_raSearch m = Some ss -> e_mem E ss = Some ra ->
  win_final_vars p E i prog_ra_search =
  Ret (Some (vset D_esp (wrap32 (ss + 4)) (vset D_eip (wrap32 ra) (vset D_T0 ss m)))).
Proof.
  intros p E i m ss ra Hi Hs Hm. unfold win_final_vars. rewrite Hi.
  change (win_tokens prog_ra_search) with
    [D_T0; V_raSearch; T_eq; D_eip; D_T0; T_caret; T_eq; D_esp; D_T0; [52]; T_plus; T_eq].
  push_var. push_var. rewrite loop_cons, (assign_var _ _ _ _ _ _ _ Hs). cbn [obind].
  push_var. push_var.
  rewrite loop_cons, (step_deref_var _ _ _ _ _ _ _ (vget_vset_same _ _ _) Hm). cbn [obind].
  rewrite loop_cons, assign_int. cbn [obind].
  push_var. push_var. rewrite loop_cons, step_lit4. cbn [obind].
  assert (Ht : vget D_T0 (vset D_eip (wrap32 ra) (vset D_T0 ss m)) = Some ss).
  { rewrite vget_vset. change (beq D_T0 D_eip) with false. cbv iota. apply vget_vset_same. }
  rewrite loop_cons, (step_plus_var_int _ _ _ _ _ _ _ Ht). cbn [obind].
  rewrite loop_cons, assign_int. cbn [obind]. reflexivity.
Qed.

(* $T0 $ebp = $eip $T0 4 + ^ = $ebp $T0 ^ = $esp $T0 8 + = *)
Lemma ebp_frame_vars : forall p E i m bp ra old,
  win_initial_vars E i prog_ebp_frame = Some m -> vget D_ebp m = Some bp ->
  e_mem E (wrap32 (bp + 4)) = Some ra -> e_mem E bp = Some old ->
  win_final_vars p E i prog_ebp_frame =
  Ret (Some (vset D_esp (wrap32 (bp + 8)) (vset D_ebp (wrap32 old) (vset D_eip (wrap32 ra) (vset D_T0 bp m))))).
Proof.
  intros p E i m bp ra old Hi Hb Hra Hold. unfold win_final_vars. rewrite Hi.
  change (win_tokens prog_ebp_frame) with
    [D_T0; D_ebp; T_eq; D_eip; D_T0; [52]; T_plus; T_caret; T_eq; D_ebp; D_T0; T_caret; T_eq; D_esp; D_T0; [56]; T_plus; T_eq].
  push_var. push_var. rewrite loop_cons, (assign_var _ _ _ _ _ _ _ Hb). cbn [obind].
  push_var. push_var. rewrite loop_cons, step_lit4. cbn [obind].
  rewrite loop_cons, (step_plus_var_int _ _ _ _ _ _ _ (vget_vset_same _ _ _)). cbn [obind].
  rewrite loop_cons, (step_deref_int _ _ _ _ _ _ Hra). cbn [obind].
  rewrite loop_cons, assign_int. cbn [obind].
  push_var. push_var.
  assert (Ht : vget D_T0 (vset D_eip (wrap32 ra) (vset D_T0 bp m)) = Some bp).
  { rewrite vget_vset. change (beq D_T0 D_eip) with false. cbv iota. apply vget_vset_same. }
  rewrite loop_cons, (step_deref_var _ _ _ _ _ _ _ Ht Hold). cbn [obind].
  rewrite loop_cons, assign_int. cbn [obind].
  push_var. push_var. rewrite loop_cons, step_lit8. cbn [obind].
  assert (Ht2 : vget D_T0 (vset D_ebp (wrap32 old) (vset D_eip (wrap32 ra) (vset D_T0 bp m))) = Some bp).
  { rewrite vget_vset. change (beq D_T0 D_ebp) with false. cbv iota. exact Ht. }
  rewrite loop_cons, (step_plus_var_int _ _ _ _ _ _ _ Ht2). cbn [obind].
  rewrite loop_cons, assign_int. cbn [obind]. reflexivity.
Qed.

Lemma initial_no_esi_edi_eip : forall E i e m, win_initial_vars E i e = Some m ->
  vget D_esi m = None /\ vget D_edi m = None /\ vget D_eip m = None /\ vget D_T0 m = None.
Proof.
  intros E i e m H. unfold win_initial_vars in H.
  destruct (e_callee E N_esp); [|discriminate]. destruct (e_callee E N_ebp); [|discriminate].
  destruct (win_frame_size i (e_gcps E)); [|discriminate].
  destruct (if contains_at e then _ else _); [|discriminate]. inversion H; subst m.
  destruct (e_callee E N_ebx); repeat split; reflexivity.
Qed.

Ltac vget_through := repeat (rewrite vget_vset; match goal with |- context [beq ?a ?b] => let r := eval vm_compute in (beq a b) in change (beq a b) with r end; cbv iota).

(* the caller registers on the abstract walker *)
Theorem ra_search_regs : forall p E i esp ebp fs ra s',
  e_callee E N_esp = Some esp -> e_callee E N_ebp = Some ebp -> win_frame_size i (e_gcps E) = Some fs ->
  e_mem E (wrap32 esp + fs) = Some ra ->
  walk_win_framedata (mock_ops 4) p E i prog_ra_search m_init = Ret (s', true) ->
  m_regs s' N_eip = SetTo (wrap32 ra) /\ m_regs s' N_esp = SetTo (wrap32 (wrap32 esp + fs + 4)) /\
  m_regs s' N_ebp = SetTo (wrap32 ebp) /\
  m_regs s' N_ebx = match e_callee E N_ebx with Some b => SetTo (wrap32 b) | None => Unset end /\
  m_regs s' N_esi = Unset /\ m_regs s' N_edi = Unset.
Proof.
  intros p E i esp ebp fs ra s' Hesp Hebp Hfs Hmem H.
  destruct (win_initial_vars E i prog_ra_search) as [m|] eqn:Hi.
  2:{ unfold walk_win_framedata, win_final_vars in H. rewrite Hi in H. cbn [obind] in H. inversion H. }
  destruct (initial_vars_spec _ _ _ _ Hi) as (esp' & ebp' & fs' & A1 & A2 & A3 & _ & _ & V1 & V2 & V3 & _ & _ & _ & _ & _ & V4 & _).
  rewrite Hesp in A1. rewrite Hebp in A2. rewrite Hfs in A3. inversion A1; inversion A2; inversion A3; subst esp' ebp' fs'.
  change (contains_at prog_ra_search) with false in V4. cbv iota in V4.
  destruct (initial_no_esi_edi_eip _ _ _ _ Hi) as (N1 & N2 & _ & _).
  pose proof (ra_search_vars p E i m _ ra Hi V4 Hmem) as Hf.
  pose proof (mock_framedata_exact _ _ _ _ _ _ H Hf) as R.
  repeat split.
  - rewrite (R N_eip). change (mem_b N_eip six) with true. cbv iota. change (dollar N_eip) with D_eip. vget_through. reflexivity.
  - rewrite (R N_esp). change (mem_b N_esp six) with true. cbv iota. change (dollar N_esp) with D_esp. vget_through. reflexivity.
  - rewrite (R N_ebp). change (mem_b N_ebp six) with true. cbv iota. change (dollar N_ebp) with D_ebp. vget_through. rewrite V2. reflexivity.
  - rewrite (R N_ebx). change (mem_b N_ebx six) with true. cbv iota. change (dollar N_ebx) with D_ebx. vget_through. rewrite V3.
    destruct (e_callee E N_ebx); reflexivity.
  - rewrite (R N_esi). change (mem_b N_esi six) with true. cbv iota. change (dollar N_esi) with D_esi. vget_through. rewrite N1. reflexivity.
  - rewrite (R N_edi). change (mem_b N_edi six) with true. cbv iota. change (dollar N_edi) with D_edi. vget_through. rewrite N2. reflexivity.
Qed.

Theorem ebp_frame_regs : forall p E i esp ebp ra old s',
  e_callee E N_esp = Some esp -> e_callee E N_ebp = Some ebp ->
  e_mem E (wrap32 (wrap32 ebp + 4)) = Some ra -> e_mem E (wrap32 ebp) = Some old ->
  walk_win_framedata (mock_ops 4) p E i prog_ebp_frame m_init = Ret (s', true) ->
  m_regs s' N_eip = SetTo (wrap32 ra) /\ m_regs s' N_esp = SetTo (wrap32 (wrap32 ebp + 8)) /\
  m_regs s' N_ebp = SetTo (wrap32 old) /\
  m_regs s' N_ebx = match e_callee E N_ebx with Some b => SetTo (wrap32 b) | None => Unset end /\
  m_regs s' N_esi = Unset /\ m_regs s' N_edi = Unset.
Proof.
  intros p E i esp ebp ra old s' Hesp Hebp Hra Hold H.
  destruct (win_initial_vars E i prog_ebp_frame) as [m|] eqn:Hi.
  2:{ unfold walk_win_framedata, win_final_vars in H. rewrite Hi in H. cbn [obind] in H. inversion H. }
  destruct (initial_vars_spec _ _ _ _ Hi) as (esp' & ebp' & fs' & A1 & A2 & _ & _ & _ & V1 & V2 & V3 & _).
  rewrite Hesp in A1. rewrite Hebp in A2. inversion A1; inversion A2; subst esp' ebp'.
  destruct (initial_no_esi_edi_eip _ _ _ _ Hi) as (N1 & N2 & _ & _).
  pose proof (ebp_frame_vars p E i m _ ra old Hi V2 Hra Hold) as Hf.
  pose proof (mock_framedata_exact _ _ _ _ _ _ H Hf) as R.
  repeat split.
  - rewrite (R N_eip). change (mem_b N_eip six) with true. cbv iota. change (dollar N_eip) with D_eip. vget_through. reflexivity.
  - rewrite (R N_esp). change (mem_b N_esp six) with true. cbv iota. change (dollar N_esp) with D_esp. vget_through. reflexivity.
  - rewrite (R N_ebp). change (mem_b N_ebp six) with true. cbv iota. change (dollar N_ebp) with D_ebp. vget_through. reflexivity.
  - rewrite (R N_ebx). change (mem_b N_ebx six) with true. cbv iota. change (dollar N_ebx) with D_ebx. vget_through. rewrite V3.
    destruct (e_callee E N_ebx); reflexivity.
  - rewrite (R N_esi). change (mem_b N_esi six) with true. cbv iota. change (dollar N_esi) with D_esi. vget_through. rewrite N1. reflexivity.
  - rewrite (R N_edi). change (mem_b N_edi six) with true. cbv iota. change (dollar N_edi) with D_edi. vget_through. rewrite N2. reflexivity.
Qed.
