(* C07/Properties.v — property theorems only.  Model: C07/Model.v (the code after fix commits
   e89b171, 07b228c; with the known finding F-C07a, whose fix 311264d was reverted by 0819a3f). *)
From Coq Require Import String Lia.
From RM Require Import C06.Model C06.Proofs C06.Proofs5 C06.Driver C07.Model C07.Proofs C07.Proofs2 C07.Proofs3 C07.Proofs4 C07.Text C07.Proofs5 C07.Walker C07.Proofs6 C07.Proofs7 C07.Proofs11 C07.Proofs13 C07.Proofs8 C07.Proofs9 C07.Proofs10 C07.Proofs12 Gen.C07WinEval C07.Source C07.Proofs14 C07.Proofs15 C07.Proofs16 Gen.C07WinLine C07.Proofs17 C07.Proofs18 C07.WalkerFd C07.Proofs19 C07.Proofs20 C07.Driver C07.Proofs21 C07.Proofs22 C07.Proofs23 C07.Proofs24 C07.Proofs25 C07.Proofs26 C07.Proofs27.
From RM Require C09.Grammar.
From RM Require C08.Model C08.Proofs C08.WinModel C08.WinProofs C08.Tie.
Open Scope Z_scope.

(* No Panic and no OutOfFuel in STACK WIN evaluation: every size field, every program text
   (arbitrary bytes), every walker, environment and start state, both profiles.  Covers the
   frame-size sum (checked since e89b171), `rhs - 1` in '@', the "=tok" re-split.  The FPO walk
   [walk_win_fpo] has no trap site left after 07b228c (all address arithmetic is checked), which
   its type records: it is a total function into (state, bool). *)
Theorem c07_total :
  forall (S : Type) (ops : wops S) (p : profile) (E : env) (i : win_info) (e : bytes) (s : S),
    (exists r : S * bool, walk_win_framedata ops p E i e s = Ret r) /\
    (forall abp, exists r : S * bool, walk_win_fpo ops E i abp s = r).
Proof.
  intros S ops p E i e s. split; [apply framedata_total|]. intro abp. eexists; reflexivity.
Qed.
Print Assumptions c07_total.

(* the parser side: insert_win_stack_info's unwrap and the final RangeMap unwrap cannot fail
   for records whose fields are in range (address u64, size u32) *)
Theorem c07_table_total :
  forall l : list win_info, Forall win_wf l -> exists t, win_table l = Ret t.
Proof. exact win_table_total. Qed.
Print Assumptions c07_table_total.

(* The record table refines the independent containment spec when no two records overlap: nothing is
   repaired, dropped or merged, and a lookup returns the (unchanged) record whose range contains the
   address — for records with address in u64 and size in u32. *)
Theorem c07_table_refines_spec :
  forall l, Forall win_wf l -> disjoint_ranges (keep l) ->
    exists t, win_table l = Ret t /\ forall x, C08.Model.rm_get t x = table_spec_lookup l x.
Proof. exact table_refines_spec. Qed.
Print Assumptions c07_table_refines_spec.

(* insert_win_stack_info on an overlap with the last kept record, exactly: a record that starts later cuts
   its predecessor to end just before it; one that does not start later and covers another range is dropped;
   the identical range is kept a second time; without an overlap the record is appended. *)
Theorem c07_insert_overlap_cases :
  forall lr li rest i mr,
    acc_wf ((lr, li) :: rest) -> win_wf i -> win_range i = Some mr ->
    (C08.Model.intersects lr mr = false -> insert_win ((lr, li) :: rest) i = Ret ((mr, i) :: (lr, li) :: rest)) /\
    (C08.Model.intersects lr mr = true ->
       (w_addr li < w_addr i ->
          insert_win ((lr, li) :: rest) i =
          Ret ((mr, i) :: ((w_addr li, w_addr i - 1), set_size li (w_addr i - w_addr li)) :: rest)) /\
       (w_addr i <= w_addr li -> lr <> mr -> insert_win ((lr, li) :: rest) i = Ret ((lr, li) :: rest)) /\
       (lr = mr -> insert_win ((lr, li) :: rest) i = Ret ((mr, i) :: (lr, li) :: rest))).
Proof. exact insert_win_cases. Qed.
Print Assumptions c07_insert_overlap_cases.

(* What walk_stack receives after a STACK WIN (or CFI) walk on x86: the walker's registers and validity
   set unchanged, provided eip >= 4096 and esp grew; otherwise no frame. *)
Theorem c07_frame_handover_x86 :
  forall callee_sp s,
    match post_real 0 x86 callee_sp s with
    | Some s1 => s1 = s /\ 4096 <= r_ctx s (a_ip x86) /\ callee_sp < r_ctx s (a_sp x86)
    | None => r_ctx s (a_ip x86) < 4096 \/ r_ctx s (a_sp x86) <= callee_sp
    end.
Proof. intros. apply handover_x86. discriminate. Qed.
Print Assumptions c07_frame_handover_x86.

(* From text to records: the byte-level STACK WIN line recogniser of C09/Grammar.v (tag, space1, hex field
   limits, single type / has_program characters, rest of line) and this directory's record constructor
   build the same record, for every string field in the normal form the line parsers return ([norm_pos]).
   C07/Text.v composes C09's parser state machine and finish with walk_frame; the correspondence run
   executes BOTH routes (records given / text parsed by the grammar) on every case and requires equal answers. *)
Theorem c07_text_record_agree :
  (forall s, counts_pos (C09.Grammar.rle_norm s)) /\
  (forall ty a sz pro epi par sav loc mx hp rest,
     counts_pos rest ->
     conv_frame_type (C09.Grammar.win_of_fields ty a sz pro epi par sav loc mx hp rest) =
     stack_win_line ty a sz pro epi par sav loc mx hp (unrle rest)).
Proof. exact (conj norm_pos text_record_agree). Qed.
Print Assumptions c07_text_record_agree.

(* the whole of SymbolFile::walk_frame (framedata > fpo > STACK CFI) *)
Theorem c07_walk_frame_total :
  forall (S : Type) (ops : wops S) (p : profile) (E : env) (f : symfile) (s : S),
    Forall win_wf (sf_framedata f) -> Forall win_wf (sf_fpo f) ->
    Forall is_framedata (sf_framedata f) -> Forall is_fpo (sf_fpo f) ->
    exists r : option S, walk_frame ops p E f s = Ret r.
Proof. exact walk_frame_total7. Qed.
Print Assumptions c07_walk_frame_total.

(* Through the real CfiStackWalker (x86) a frame-data walk leaves valid only registers among the
   six outputs that the record's program defined — outside the class of the known finding F-C07a
   (a callee-saved register that is valid in the callee and not set by the record). *)
Theorem c07_only_six_and_no_forwarding :
  forall p E i e ctx valid s' m,
    walk_win_framedata (real_ops x86) p E i e (real_init x86 ctx valid) = Ret (s', true) ->
    win_final_vars p E i e = Ret (Some m) ->
    Known_C07a ctx valid m = false ->
    forall n, r_valid s' n = true -> In n six /\ is_set n m = true.
Proof. exact only_six_no_forwarding. Qed.
Print Assumptions c07_only_six_and_no_forwarding.

(* ... the same for FPO records: eip, esp, ebp, plus the documented pass-through of ebx when
   the frame does not allocate a base pointer. *)
Theorem c07_only_six_and_no_forwarding_fpo :
  forall E i abp ctx valid s',
    walk_win_fpo (real_ops x86) E i abp (real_init x86 ctx valid) = (s', true) ->
    Known_C07a_fpo E abp ctx valid = false ->
    forall n, r_valid s' n = true -> fpo_sets E abp n = true.
Proof. exact only_six_no_forwarding_fpo. Qed.
Print Assumptions c07_only_six_and_no_forwarding_fpo.

(* Without the hypothesis the statement is false of the faithful model (and of the code:
   corpus/C07/cases.txt, first line): the program sets eip and esp only, esi stays valid. *)
Theorem c07_no_forwarding_refuted :
  exists p E i e ctx valid s' m n,
    walk_win_framedata (real_ops x86) p E i e (real_init x86 ctx valid) = Ret (s', true) /\
    win_final_vars p E i e = Ret (Some m) /\
    r_valid s' n = true /\ is_set n m = false.
Proof.
  destruct forwarding_witness as [s' [m [H1 [H2 [_ [H4 [H5 _]]]]]]].
  exists Debug, w_env, w_info, w_prog, w_ctx, None, s', m, N_esi. auto.
Qed.
Print Assumptions c07_no_forwarding_refuted.

Theorem c07_known_witness :
  exists s' m,
    walk_win_framedata (real_ops x86) Debug w_env w_info w_prog (real_init x86 w_ctx None) = Ret (s', true) /\
    win_final_vars Debug w_env w_info w_prog = Ret (Some m) /\
    Known_C07a w_ctx None m = true /\
    r_valid s' N_esi = true /\ is_set N_esi m = false /\
    r_valid s' N_eip = true /\ r_ctx s' N_eip = 1073745920 /\ r_ctx s' N_esp = 2147483652.
Proof. exact forwarding_witness. Qed.
Print Assumptions c07_known_witness.

(* On a walker without forwarding (the abstract mock walker from its initial state) the no-forwarding
   property holds outright: exactly the six outputs the program defined are set, with the program's values. *)
Theorem c07_mock_exact :
  forall p E i e s' m,
    walk_win_framedata (mock_ops 4) p E i e m_init = Ret (s', true) ->
    win_final_vars p E i e = Ret (Some m) ->
    forall n, m_regs s' n = (if mem_b n six then
                               match vget (dollar n) m with Some v => SetTo v | None => Unset end
                             else if mem_b n win_clear_names then Cleared else Unset).
Proof. exact mock_framedata_exact. Qed.
Print Assumptions c07_mock_exact.

(* Program strings refine the documented semantics: for EVERY program text (arbitrary bytes), profile,
   environment, and size fields within u32, the variables after the program are exactly those of the
   independent [win_spec] (variables as a partial function, tokens classified first, `@` = truncate to a
   multiple, "=tok" re-split, predefined constants incl. the `@` rule for .raSearch) — or both fail.
   Together with c07_mock_exact this fixes the caller registers: the six outputs that are defined. *)
Theorem c07_refines_spec :
  forall p E i e,
    info_u32 i -> u32 (e_gcps E) ->
    match win_final_vars p E i e, win_spec E i e with
    | Ret (Some m), Some f => forall k, vget k m = f k
    | Ret None, None => True
    | _, _ => False
    end.
Proof. exact win_refines_spec. Qed.
Print Assumptions c07_refines_spec.

(* Program strings, construct by construct: the initial constants (incl. the '@' rule), assignment,
   .undef, 32-bit wrap. *)
Theorem c07_program_string_facts :
  (* the predefined variables *)
  (forall E i e m, win_initial_vars E i e = Some m ->
     exists esp ebp fs,
       e_callee E N_esp = Some esp /\ e_callee E N_ebp = Some ebp /\
       win_frame_size i (e_gcps E) = Some fs /\ fs = w_locals i + w_saved i + e_gcps E /\ fs < two32 /\
       vget D_esp m = Some (wrap32 esp) /\ vget D_ebp m = Some (wrap32 ebp) /\
       vget D_ebx m = option_map wrap32 (e_callee E N_ebx) /\
       vget V_cbParams m = Some (w_params i) /\ vget V_cbCalleeParams m = Some (e_gcps E) /\
       vget V_cbSavedRegs m = Some (w_saved i) /\ vget V_cbLocals m = Some (w_locals i) /\
       vget V_raSearch m = vget V_raSearchStart m /\
       vget V_raSearch m = Some (if contains_at e then wrap32 ebp + 4 else wrap32 esp + fs) /\
       (if contains_at e then wrap32 ebp + 4 else wrap32 esp + fs) < two32) /\
  (* assignment of an integer, of a variable's value, and of .undef *)
  (forall p E m name v st,
     win_step p E T_eq (m, WInt v :: WVar name :: st) = Ret (vset name v m, st)) /\
  (forall p E m name src v st, vget src m = Some v ->
     win_step p E T_eq (m, WVar src :: WVar name :: st) = Ret (vset name v m, st)) /\
  (forall p E m name st,
     win_step p E T_eq (m, WUndef :: WVar name :: st) = Ret (vdel name m, st)) /\
  (forall k v m, vget k (vset k v m) = Some v) /\
  (forall k m, NoDupKeys m -> vget k (vdel k m) = None) /\
  (* arithmetic is 32-bit wrapping *)
  (forall p E m l r st,
     win_step p E T_plus (m, WInt r :: WInt l :: st) = Ret (m, WInt ((l + r) mod two32) :: st) /\
     win_step p E T_minus (m, WInt r :: WInt l :: st) = Ret (m, WInt ((l - r) mod two32) :: st) /\
     win_step p E T_star (m, WInt r :: WInt l :: st) = Ret (m, WInt ((l * r) mod two32) :: st)).
Proof.
  exact (conj initial_vars_spec (conj assign_int (conj assign_var (conj assign_undef
        (conj vget_vset_same (conj vget_vdel_same wrap_ops)))))).
Qed.
Print Assumptions c07_program_string_facts.

(* FPO formulae incl. the leftover-return-address skip, on the abstract walker *)
Theorem c07_fpo_formulae :
  forall E i abp s',
    walk_win_fpo (mock_ops 4) E i abp m_init = (s', true) ->
    exists fs esp a eip,
      win_frame_size i (e_gcps E) = Some fs /\ e_callee E N_esp = Some esp /\
      (* a = esp + frame_size, or 4 further when the context frame's slot holds the callee's own eip *)
      (a = esp + fs \/
       (a = esp + fs + 4 /\ e_has_gc E = false /\ e_mem E (esp + fs) = e_callee E N_eip)) /\
      (a = esp + fs -> e_has_gc E = false -> e_mem E (esp + fs) <> e_callee E N_eip) /\
      e_mem E a = Some eip /\
      m_regs s' N_eip = SetTo eip /\ m_regs s' N_esp = SetTo (a + 4) /\
      (if abp then exists v, e_mem E (esp + e_gcps E + w_saved i - 8) = Some v /\ m_regs s' N_ebp = SetTo v /\
                             m_regs s' N_ebx = Unset
       else exists v, e_callee E N_ebp = Some v /\ m_regs s' N_ebp = SetTo v /\
                      m_regs s' N_ebx = match e_callee E N_ebx with Some b => SetTo b | None => Unset end).
Proof. exact fpo_formulae. Qed.
Print Assumptions c07_fpo_formulae.

(* ---- round 4: the grand-callee facts are DERIVED from the call stack (walk_stack + CfiStackWalker::from_ctx_and_args,
   field expressions regenerated from lib.rs by translate/c07_walker_args.py) ---- *)
(* "has a grand-callee" means exactly "the frame being unwound is not the context frame", whether or not the frame
   below it has a known parameter size; the parameter size is that frame's when known, else 0 *)
Theorem c07_walker_args :
  forall (below : list sframe) (callee : sframe),
    walker_has_gc (below ++ [callee]) = spec_has_gc below /\
    walker_gcps (below ++ [callee]) = spec_gcps below.
Proof. exact walker_args_spec. Qed.
Print Assumptions c07_walker_args.

(* hence the FPO leftover-return-address skip can only ever touch the context frame: a frame with ANY frame below it
   (symbolicated or not — [parameter_size g] is arbitrary) is unwound by the plain documented formula
   eip = *(esp + frame_size), esp = esp + frame_size + 4, even when that word equals the frame's own eip
   (direct recursion from one call site) *)
Theorem c07_fpo_no_skip_above_context :
  forall regs mem instr below g callee i abp s',
    walk_win_fpo (mock_ops 4) (frames_env regs mem instr (g :: below) callee) i abp m_init = (s', true) ->
    exists fs esp eip,
      win_frame_size i (spec_gcps (g :: below)) = Some fs /\ regs N_esp = Some esp /\
      mem (esp + fs) = Some eip /\
      m_regs s' N_eip = SetTo eip /\ m_regs s' N_esp = SetTo (esp + fs + 4).
Proof. exact fpo_no_skip_above_context. Qed.
Print Assumptions c07_fpo_no_skip_above_context.

(* A whole walk, unbounded depth (induction on the number of activations): a function unwound by an FPO record that
   called itself n times from ONE call site (every return-address slot holds the same address rr, which is also each
   activation's own eip) sits above at least one other frame.  Whatever that function's parameter size — known (Some k)
   or unknown because the function has no FUNC/PUBLIC record (None) — the first n callers the walk produces are exactly
   the n generated activations: eip = rr, esp advancing by frame size + 4, ebp passed through; nothing is skipped.
   The derivation of has_grand_callee / grand_callee_parameter_size is the translated one (Gen/C07WalkerArgs.v). *)
Theorem c07_fpo_recursion_chain :
  forall (n : nat) mem in_stack lookup i ps F rr ebp below esp0,
    let gcps := match ps with Some k => k | None => 0 end in
    below <> [] -> spec_gcps below = gcps ->
    w_thing i = AllocatesBasePointer false ->
    win_frame_size i gcps = Some F -> 0 <= F ->
    lookup rr = Some (i, ps) ->
    4096 <= rr < 2 ^ 32 -> ebp < 2 ^ 32 -> 0 <= esp0 ->
    esp0 + Z.of_nat n * (F + 4) < 2 ^ 32 ->
    (forall k, (k < n)%nat -> in_stack (esp0 + Z.of_nat k * (F + 4)) = true /\
                              mem (esp0 + Z.of_nat k * (F + 4) + F) = Some rr) ->
    fpo_walk n mem in_stack lookup below (mkX rr esp0 ebp) =
      map (fun k => mkX rr (esp0 + Z.of_nat (S k) * (F + 4)) ebp) (seq 0 n).
Proof. exact fpo_recursion_chain. Qed.
Print Assumptions c07_fpo_recursion_chain.

(* ---- round 4: the text route (C09's byte-level parser state -> finish -> walk_frame_table, C07/Text.v) and the record
   route (stack_win_line on parsed fields -> win_table -> walk_frame, the object of the theorems above) ---- *)
(* the STACK WIN table C09's `finish` builds (insert_win_stack_info + into_rangemap_safe + RangeMap over C09's own record
   type with run-length encoded program strings), mapped through conv_win, IS this directory's win_table of the converted
   records, and lookups commute — for records whose program strings are in run-length normal form (counts >= 1,
   neighbouring runs differ: what the line parsers return), on which C09's record equality and this directory's coincide *)
Theorem c07_text_tables_agree :
  forall (ws : list C09.Grammar.win_info) (t : list (C08.Model.range * C09.Grammar.win_info)),
    Forall wi_nf ws ->
    (do l <- C09.Grammar.win_collect [] ws; C08.Model.build_p C09.Grammar.wi_eqb l) = Ret t ->
    win_table (map conv_win ws) = Ret (mapv conv_win t) /\
    forall x, C08.Model.rm_get (mapv conv_win t) x = option_map conv_win (C08.Model.rm_get t x).
Proof. intros ws t H1 H2. split; [exact (win_table_conv ws t H1 H2)|exact (win_lookup_conv t)]. Qed.
Print Assumptions c07_text_tables_agree.

(* hence, for every parser state whose file has no STACK CFI records: SymbolFile::walk_frame as the text route computes it
   equals walk_frame of the record route on the same records — every walker, profile, environment, start state *)
Theorem c07_text_route_agrees :
  forall (S : Type) (ops : wops S) p E (ps : C09.Grammar.pst) (t : C09.Grammar.table) (s : S),
    C09.Grammar.finish ps = Ret t ->
    Forall wi_nf (C09.Grammar.p_win_fd ps) -> Forall wi_nf (C09.Grammar.p_win_fpo ps) ->
    C09.Grammar.t_cfi t = [] ->
    walk_frame_table ops p E t s =
    walk_frame ops p E (mkSym (map conv_win (rev (C09.Grammar.p_win_fd ps))) (map conv_win (rev (C09.Grammar.p_win_fpo ps))) None) s.
Proof. exact text_route_agrees. Qed.
Print Assumptions c07_text_route_agrees.

(* The C04 question for STACK WIN FPO records, unbounded depth (induction on the list of activations): EVERY well-formed
   all-FPO x86 stack — [fpo_layout]: each frame is [arguments for the callee][locals][saved registers][return address],
   each return address >= 4096 is covered by its caller's FPO record, the stack stays below 2^32, the context frame has no
   leftover return address on top — is walked to exactly the generated chain [fpo_chain], starting from the context frame
   (below = []) or from any later frame, for functions with a FUNC record (parameter size Some k) or without one (None),
   including direct recursion from one call site.  has_grand_callee / grand_callee_parameter_size come from the frame
   list through the translated CfiStackWalker::from_ctx_and_args. *)
Theorem c07_fpo_recovers_chain :
  forall mem in_stack lookup ebp (acts : list act) below eip esp,
    fpo_layout mem in_stack lookup (is_nil below) (spec_gcps below) eip esp acts ->
    0 <= esp -> ebp < 2 ^ 32 ->
    fpo_walk (length acts) mem in_stack lookup below (mkX eip esp ebp) = fpo_chain (spec_gcps below) esp ebp acts.
Proof. exact fpo_recovers_chain. Qed.
Print Assumptions c07_fpo_recovers_chain.

(* the normal-form hypothesis is an invariant of the parser state machine (every string the line parsers return is
   rle_norm of a piece of the line), so from the LINES of the file: walk_frame_text = walk_frame on the parsed records *)
Theorem c07_parsed_records_normal_form :
  forall ls ps, parse_lines C09.Grammar.init_pst ls = Some ps ->
    Forall wi_nf (C09.Grammar.p_win_fd ps) /\ Forall wi_nf (C09.Grammar.p_win_fpo ps).
Proof. exact parsed_records_nf. Qed.
Print Assumptions c07_parsed_records_normal_form.

Theorem c07_text_route_agrees_parsed :
  forall (S : Type) (ops : wops S) p E (ls : list C09.Grammar.rle) (ps : C09.Grammar.pst) (t : C09.Grammar.table) (s : S),
    parse_lines C09.Grammar.init_pst ls = Some ps ->
    C09.Grammar.finish ps = Ret t ->
    C09.Grammar.t_cfi t = [] ->
    walk_frame_text ops p E ls s =
    (do r <- walk_frame ops p E (mkSym (map conv_win (rev (C09.Grammar.p_win_fd ps)))
                                       (map conv_win (rev (C09.Grammar.p_win_fpo ps))) None) s;
     Ret (Some r)).
Proof. exact text_route_agrees_parsed. Qed.
Print Assumptions c07_text_route_agrees_parsed.

(* the same for BOTH kinds of FPO record per function: allocates_base_pointer = false (ebp passed through) and = true (the
   caller's ebp is the word at esp + grand-callee parameter size + saved_register_size - 8, inside the frame) *)
Theorem c07_fpo_recovers_chain_bp :
  forall mem in_stack lookup (acts : list act_bp) below eip esp ebp,
    fpo_layout_bp mem in_stack lookup (is_nil below) (spec_gcps below) eip esp ebp acts ->
    0 <= esp ->
    fpo_walk (length acts) mem in_stack lookup below (mkX eip esp ebp) = fpo_chain_bp (spec_gcps below) esp acts.
Proof. exact fpo_recovers_chain_bp. Qed.
Print Assumptions c07_fpo_recovers_chain_bp.

(* ---- non-vacuity ---- *)
Example c07_nonvacuous_doc_example :
  (* the worked example of the module docs: ebp = mem[16], esp = 24, eip = mem[20] *)
  let E := mkEnv (fun n => assoc n [(N_esp, 1600); (N_ebp, 16)])
                 (mem_read 4 0 [0;0;0;0; 0;0;0;0; 0;0;0;0; 0;0;0;0; 12;0;0;0; 2;0;0;0]) 100 true 0 in
  let e := bs "$T0 $ebp = $eip $T0 4 + ^ = $ebp $T0 ^ = $esp $T0 8 + =" in
  match walk_win_framedata (mock_ops 4) Debug E (mkWin 100 16 0 0 0 0 0 0 (ProgramString e)) e m_init with
  | Ret (s, true) => m_regs s N_ebp = SetTo 12 /\ m_regs s N_esp = SetTo 24 /\ m_regs s N_eip = SetTo 2
  | _ => False
  end.
Proof. vm_compute. repeat split; reflexivity. Qed.

Example c07_nonvacuous_known_false :
  (* a program that sets all four callee-saved registers is outside the known class *)
  let e := bs "$eip $esp ^ = $esp $esp 4 + = $ebx 1 = $esi 2 = $edi 3 =" in
  match win_final_vars Debug w_env (mkWin 100 16 0 0 0 0 0 0 (ProgramString e)) e with
  | Ret (Some m) => Known_C07a w_ctx None m = false
  | _ => False
  end.
Proof. vm_compute. reflexivity. Qed.

Example c07_nonvacuous_table :
  Forall win_wf [mkWin 0 10 0 0 0 0 0 0 (AllocatesBasePointer false); mkWin 1 9 0 0 0 0 0 0 (AllocatesBasePointer false);
                 mkWin 4 6 0 0 0 0 0 0 (AllocatesBasePointer true)] /\
  match win_table [mkWin 0 10 0 0 0 0 0 0 (AllocatesBasePointer false); mkWin 1 9 0 0 0 0 0 0 (AllocatesBasePointer false);
                   mkWin 4 6 0 0 0 0 0 0 (AllocatesBasePointer true)] with
  | Ret t => map fst t = [(0, 0); (1, 3); (4, 9)]
  | _ => False
  end.
Proof.
  split; [repeat constructor; cbn; try lia; try reflexivity|vm_compute; reflexivity].
Qed.

Example c07_nonvacuous_spec :
  let E := mkEnv (fun n => assoc n [(N_esp, 1600); (N_ebp, 16)])
                 (mem_read 4 0 [0;0;0;0; 0;0;0;0; 0;0;0;0; 0;0;0;0; 12;0;0;0; 2;0;0;0]) 100 true 4 in
  let e := bs "$T0 $ebp =$eip $T0 4 + ^ = $ebp $T0 ^ = $esp $T0 8 + = $esi .raSearch 4 @ =" in
  let i := mkWin 100 16 0 0 8 4 12 0 (ProgramString e) in
  info_u32 i /\ u32 (e_gcps E) /\
  match win_spec E i e with
  | Some f => f D_ebp = Some 12 /\ f D_esp = Some 24 /\ f D_eip = Some 2 /\ f D_esi = Some 20 /\ f D_edi = None
  | None => False
  end.
Proof. vm_compute. repeat split; try reflexivity; try (intro H; discriminate H). Qed.

Example c07_nonvacuous_disjoint :
  let l := [mkWin 0 4 0 0 0 0 0 0 (AllocatesBasePointer false); mkWin 10 0 0 0 0 0 0 0 (AllocatesBasePointer false);
            mkWin 4 6 0 0 0 0 0 0 (AllocatesBasePointer true)] in
  Forall win_wf l /\ disjoint_ranges (keep l) /\ table_spec_lookup l 5 = Some (mkWin 4 6 0 0 0 0 0 0 (AllocatesBasePointer true)).
Proof.
  split; [repeat constructor; cbn; try lia; try reflexivity|].
  split; [|vm_compute; reflexivity].
  vm_compute. split; [|split; [|exact I]]; [|intros e' []].
  intros e' [H|[]]; subst e'; reflexivity.
Qed.

Example c07_nonvacuous_recursion_above_unsymbolicated_leaf :
  (* `recurse` (FPO, 8 bytes of locals) called itself from one call site and then a leaf without FUNC record:
     its return address slot holds its own eip, the frame below it has parameter_size None — no skip *)
  let mem := mem_read 4 2147483656 [17;17;17;17; 18;18;18;18; 80;32;0;64; 34;34;0;64; 35;35;35;35; 80;32;0;64] in
  let E := frames_env (fun n => assoc n [(N_esp, 2147483656); (N_ebp, 7); (N_eip, 1073750096)]) mem 8271
                      [mkSF None] (mkSF (Some 0)) in
  e_has_gc E = true /\ e_gcps E = 0 /\ mem (2147483656 + 8) = Some 1073750096 /\
  match walk_win_fpo (mock_ops 4) E (mkWin 8192 256 0 0 0 0 8 0 (AllocatesBasePointer false)) false m_init with
  | (s, true) => m_regs s N_eip = SetTo 1073750096 /\ m_regs s N_esp = SetTo 2147483668
  | _ => False
  end.
Proof. vm_compute. repeat split; reflexivity. Qed.

Example c07_nonvacuous_recursion_walk :
  (* the scenario of the round-4 seeded change, as a whole walk: leaf (no FUNC record) <- recurse x3 <- main.
     From the context frame the FPO walk yields the three activations and main's frame, then stops (no record). *)
  let mem := mem_read 4 2147483648
     [1;1;1;1; 80;32;0;64;   17;17;17;17; 18;18;18;18; 80;32;0;64;   34;34;0;64; 35;35;35;35; 80;32;0;64;
      51;51;51;51; 52;52;52;52; 0;48;0;64;   0;0;0;0; 0;0;0;0] in
  let leaf := mkWin 4096 256 0 0 0 0 4 0 (AllocatesBasePointer false) in
  let recurse := mkWin 8192 256 0 0 0 0 8 0 (AllocatesBasePointer false) in
  let lookup := fun ip => if (1073745920 <=? ip) && (ip <? 1073746176) then Some (leaf, None)
                          else if (1073750016 <=? ip) && (ip <? 1073750272) then Some (recurse, Some 0) else None in
  fpo_walk 10 mem (fun sp => (2147483648 <=? sp) && (sp <? 2147483700)) lookup [] (mkX 1073745936 2147483648 7) =
    [mkX 1073750096 2147483656 7; mkX 1073750096 2147483668 7; mkX 1073750096 2147483680 7; mkX 1073754112 2147483692 7].
Proof. vm_compute. reflexivity. Qed.

Example c07_nonvacuous_text_route :
  (* a three-line symbol file goes through C09's line grammar; its records are in normal form and the theorem applies *)
  match parse_lines C09.Grammar.init_pst
          (map C09.Grammar.to_rle [bs "MODULE windows x86 ABCD1234 m"; bs "STACK WIN 4 64 10 0 0 8 4 c 0 1 $eip .raSearch ^ = $esp .raSearch 4 + =";
                                   bs "STACK WIN 0 100 10 0 0 0 0 8 0 0 0"]) with
  | Some ps =>
      Forall wi_nf (C09.Grammar.p_win_fd ps) /\ Forall wi_nf (C09.Grammar.p_win_fpo ps) /\
      length (C09.Grammar.p_win_fd ps) = 1%nat /\ length (C09.Grammar.p_win_fpo ps) = 1%nat /\
      match C09.Grammar.finish ps with Ret t => C09.Grammar.t_cfi t = [] | _ => False end
  | None => False
  end.
Proof.
  vm_compute. split; [|split; [|repeat split]].
  - constructor; [|constructor]. split.
    + repeat constructor; intro Hc; discriminate Hc.
    + cbn. repeat split; intro Hc; discriminate Hc.
  - constructor; [exact I|constructor].
Qed.

Example c07_nonvacuous_fpo_layout :
  (* the stack of c07_nonvacuous_recursion_walk satisfies the precondition of c07_fpo_recovers_chain from the context frame *)
  let mem := mem_read 4 2147483648
     [1;1;1;1; 80;32;0;64;   17;17;17;17; 18;18;18;18; 80;32;0;64;   34;34;0;64; 35;35;35;35; 80;32;0;64;
      51;51;51;51; 52;52;52;52; 0;48;0;64;   0;0;0;0; 0;0;0;0] in
  let leaf := mkWin 4096 256 0 0 0 0 4 0 (AllocatesBasePointer false) in
  let recurse := mkWin 8192 256 0 0 0 0 8 0 (AllocatesBasePointer false) in
  let lookup := fun ip => if (1073745920 <=? ip) && (ip <? 1073746176) then Some (leaf, None)
                          else if (1073750016 <=? ip) && (ip <? 1073750272) then Some (recurse, Some 0) else None in
  fpo_layout mem (fun sp => (2147483648 <=? sp) && (sp <? 2147483700)) lookup true 0 1073745936 2147483648
    [(leaf, None, 1073750096); (recurse, Some 0, 1073750096); (recurse, Some 0, 1073750096); (recurse, Some 0, 1073754112)].
Proof.
  cbn [fpo_layout]. repeat split; try reflexivity; try (intro Hc; discriminate Hc); try (vm_compute; intro Hc; discriminate Hc);
    try (vm_compute; reflexivity); try (intros _ Hc; discriminate Hc).
Qed.

Example c07_nonvacuous_fpo_layout_bp :
  (* leaf (abp = false, no FUNC) <- f (abp = true, 8 bytes of saved registers, parameter size 4: its saved ebp 0x80000040 sits
     at esp + 0 + 8 - 8) <- g (abp = false; its frame starts with the 4 bytes of arguments pushed for f) *)
  let mem := mem_read 4 2147483648
     [1;1;1;1; 80;32;0;64;   64;0;0;128; 9;9;9;9; 16;48;0;64;   4;4;4;4; 5;5;5;5; 0;64;0;64;  0;0;0;0] in
  let leaf := mkWin 4096 256 0 0 0 0 4 0 (AllocatesBasePointer false) in
  let f := mkWin 8192 256 0 0 4 8 0 0 (AllocatesBasePointer true) in
  let g := mkWin 12288 256 0 0 0 0 4 0 (AllocatesBasePointer false) in
  let lookup := fun ip => if (1073745920 <=? ip) && (ip <? 1073746176) then Some (leaf, None)
                          else if (1073750016 <=? ip) && (ip <? 1073750272) then Some (f, Some 4)
                          else if (1073754112 <=? ip) && (ip <? 1073754368) then Some (g, Some 0) else None in
  let acts := [(leaf, None, 1073750096, 7); (f, Some 4, 1073754128, 2147483712); (g, Some 0, 1073758208, 2147483712)] in
  fpo_layout_bp mem (fun sp => (2147483648 <=? sp) && (sp <? 2147483700)) lookup true 0 1073745936 2147483648 7 acts /\
  fpo_chain_bp 0 2147483648 acts =
    [mkX 1073750096 2147483656 7; mkX 1073754128 2147483668 2147483712; mkX 1073758208 2147483680 2147483712].
Proof.
  split; [|vm_compute; reflexivity].
  cbn [fpo_layout_bp]. repeat split; try reflexivity; try (intro Hc; discriminate Hc); try (vm_compute; intro Hc; discriminate Hc);
    try (vm_compute; reflexivity); try (intros _ Hc; discriminate Hc).
Qed.

(* ---- round 5: the evaluator itself is COMPILED from the Rust source.  translate/c07_win_eval.py parses walker.rs
   (win_frame_size, clear_stack_win_caller_registers, eval_win_expr: the prologue with its `?`s, the `@` rule and the
   predefined constants, every arm of `match token`, the output register list; walk_with_stack_win_fpo statement by
   statement) into Gen/C07WinEval.v on every run and pins the glue (tokenizer closure, output loop,
   walk_with_stack_win_framedata, SymbolFile::walk_frame's framedata > fpo > STACK CFI order); C07/Source.v assembles
   the compiled pieces along that glue.  An edit to a formula, a guard, an operator, a constant's name or value, the
   order of the `?`s, a register list ... changes the Gallina below, and these theorems are re-checked against it. ---- *)

(* the compiled source IS the hand-written model all other theorems of this file are about: every function, all arguments *)
Theorem c07_source_is_model :
  (forall i g, g_win_frame_size i g = win_frame_size i g) /\
  g_clear_names = win_clear_names /\ g_win_outputs = win_outputs /\
  (forall E i e, g_win_initial_vars E i e = win_initial_vars E i e) /\
  (forall p E t ms, g_win_step p E t ms = win_step p E t ms) /\
  (forall S (ops : wops S) E i abp s, g_walk_win_fpo ops E i abp s = walk_win_fpo ops E i abp s) /\
  (forall S (ops : wops S) p E i e s, src_walk_win_framedata ops p E i e s = walk_win_framedata ops p E i e s) /\
  (forall S (ops : wops S) p E f s, src_walk_frame ops p E f s = walk_frame ops p E f s).
Proof. exact source_is_model. Qed.
Print Assumptions c07_source_is_model.

(* c07_refines_spec for the compiled evaluator: every program text, profile, environment, size fields within u32 *)
Theorem c07_src_refines_spec :
  forall p E i e,
    info_u32 i -> u32 (e_gcps E) ->
    match src_win_final_vars p E i e, win_spec E i e with
    | Ret (Some m), Some f => forall k, vget k m = f k
    | Ret None, None => True
    | _, _ => False
    end.
Proof. exact src_refines_spec. Qed.
Print Assumptions c07_src_refines_spec.

(* exactly the six outputs the program defined reach the (mock) walker, under the names without the `$`;
   the names cleared first are the ones the source passes *)
Theorem c07_src_mock_exact :
  forall p E i e s' m,
    src_walk_win_framedata (mock_ops 4) p E i e m_init = Ret (s', true) ->
    src_win_final_vars p E i e = Ret (Some m) ->
    forall n, m_regs s' n = (if mem_b n six then
                               match vget (dollar n) m with Some v => SetTo v | None => Unset end
                             else if mem_b n g_clear_names then Cleared else Unset).
Proof. exact src_mock_exact. Qed.
Print Assumptions c07_src_mock_exact.

(* the FPO formulae (frame size = locals + saved + grand-callee parameters, the one-word leftover-return-address skip
   for the context frame only, the saved-ebp slot, the ebx pass-through) of the compiled walk_with_stack_win_fpo *)
Theorem c07_src_fpo_formulae :
  forall E i abp s',
    g_walk_win_fpo (mock_ops 4) E i abp m_init = (s', true) ->
    exists fs esp a eip,
      g_win_frame_size i (e_gcps E) = Some fs /\ fs = w_locals i + w_saved i + e_gcps E /\ e_callee E N_esp = Some esp /\
      (a = esp + fs \/
       (a = esp + fs + 4 /\ e_has_gc E = false /\ e_mem E (esp + fs) = e_callee E N_eip)) /\
      (a = esp + fs -> e_has_gc E = false -> e_mem E (esp + fs) <> e_callee E N_eip) /\
      e_mem E a = Some eip /\
      m_regs s' N_eip = SetTo eip /\ m_regs s' N_esp = SetTo (a + 4) /\
      (if abp then exists v, e_mem E (esp + e_gcps E + w_saved i - 8) = Some v /\ m_regs s' N_ebp = SetTo v /\
                             m_regs s' N_ebx = Unset
       else exists v, e_callee E N_ebp = Some v /\ m_regs s' N_ebp = SetTo v /\
                      m_regs s' N_ebx = match e_callee E N_ebx with Some b => SetTo b | None => Unset end).
Proof. exact src_fpo_formulae. Qed.
Print Assumptions c07_src_fpo_formulae.

(* no reachable panic in the compiled walk_frame: a dropped `rhs == 0` guard (g_div / g_rem), an unchecked `+`, the
   `rhs - 1` of `@` ... would leave a Panic the proof cannot discharge *)
Theorem c07_src_walk_frame_total :
  forall (S : Type) (ops : wops S) (p : profile) (E : env) (f : symfile) (s : S),
    Forall win_wf (sf_framedata f) -> Forall win_wf (sf_fpo f) ->
    Forall is_framedata (sf_framedata f) -> Forall is_fpo (sf_fpo f) ->
    exists r : option S, src_walk_frame ops p E f s = Ret r.
Proof. exact src_walk_frame_total. Qed.
Print Assumptions c07_src_walk_frame_total.

Example c07_nonvacuous_src_doc_example :
  (* the worked example of the module docs through the compiled evaluator; and an FPO record with the
     leftover-return-address skip (context frame, slot holds the callee's own eip 77) *)
  let E := mkEnv (fun n => assoc n [(N_esp, 1600); (N_ebp, 16)])
                 (mem_read 4 0 [0;0;0;0; 0;0;0;0; 0;0;0;0; 0;0;0;0; 12;0;0;0; 2;0;0;0]) 100 true 0 in
  let e := bs "$T0 $ebp = $eip $T0 4 + ^ = $ebp $T0 ^ = $esp $T0 8 + =" in
  let f := mkSym [mkWin 100 16 0 0 0 0 0 0 (ProgramString e)] [] None in
  let E2 := mkEnv (fun n => assoc n [(N_esp, 8); (N_ebp, 55); (N_eip, 77)])
                  (mem_read 4 0 [0;0;0;0; 0;0;0;0; 0;0;0;0; 77;0;0;0; 9;16;0;0; 2;0;0;0]) 100 false 0 in
  match src_walk_frame (mock_ops 4) Debug E f m_init with
  | Ret (Some s) => m_regs s N_ebp = SetTo 12 /\ m_regs s N_esp = SetTo 24 /\ m_regs s N_eip = SetTo 2
  | _ => False
  end /\
  match g_walk_win_fpo (mock_ops 4) E2 (mkWin 100 16 0 0 0 0 4 0 (AllocatesBasePointer false)) false m_init with
  | (s, true) => m_regs s N_eip = SetTo 4105 /\ m_regs s N_esp = SetTo 20 /\ m_regs s N_ebp = SetTo 55
  | _ => False
  end.
Proof. vm_compute. repeat split; reflexivity. Qed.

(* ---- round 5: the caller state after a STACK WIN walk through the real x86 CfiStackWalker, EXACTLY — validity set
   and register values, both directions, no hypothesis about F-C07a.  c07_only_six_and_no_forwarding states the
   property under `Known_C07a = false`; this is the full account of the faithful model: a register is valid in the
   caller iff the record's program defined it (one of the six) OR it was forwarded by from_ctx_and_args (callee-saved
   ebp / ebx / edi / esi, valid in the callee) — the second disjunct, for a register the record does not set, is
   precisely the known finding.  Values: what the program assigned; every other register keeps the callee's value. ---- *)
Theorem c07_real_framedata_exact :
  forall p E i e ctx valid s' m,
    walk_win_framedata (real_ops x86) p E i e (real_init x86 ctx valid) = Ret (s', true) ->
    win_final_vars p E i e = Ret (Some m) ->
    forall n,
      r_valid s' n = (mem_b n six && is_set n m) ||
                     (mem_b n (a_saved x86) && match valid with None => true | Some which => mem_b n which end) /\
      r_ctx s' n = (if mem_b n six
                    then match vget (dollar n) m with Some v => v | None => r_ctx (real_init x86 ctx valid) n end
                    else r_ctx (real_init x86 ctx valid) n).
Proof. exact real_framedata_exact. Qed.
Print Assumptions c07_real_framedata_exact.

(* FPO: valid in the caller = eip, esp, ebp, ebx when passed through (no base pointer allocated and the callee has
   it), or forwarded *)
Theorem c07_real_fpo_exact :
  forall E i abp ctx valid s',
    walk_win_fpo (real_ops x86) E i abp (real_init x86 ctx valid) = (s', true) ->
    forall n, r_valid s' n = fpo_sets E abp n ||
                             (mem_b n (a_saved x86) && match valid with None => true | Some which => mem_b n which end).
Proof. exact real_fpo_exact. Qed.
Print Assumptions c07_real_fpo_exact.

(* Which record SymbolFile::walk_frame uses: a frame-data record covering the address is used whatever the FPO table
   holds; otherwise the FPO record covering it; STACK CFI is consulted exactly when no STACK WIN record applied or the
   one that applied failed, and then continues from the walker state the failed attempt left.  (The order is pinned
   in mod.rs by translate/c07_win_eval.py; c07_source_is_model carries this to the compiled functions.) *)
Theorem c07_record_preference :
  forall S (ops : wops S) p E f s fd fp,
    win_table (sf_framedata f) = Ret fd -> win_table (sf_fpo f) = Ret fp ->
    (forall i e, C08.Model.rm_get fd (e_instr E) = Some i -> w_thing i = ProgramString e ->
       walk_frame ops p E f s =
       (do wr <- walk_win_framedata ops p E i e s;
        if snd wr then Ret (Some (fst wr)) else cfi_fallback ops p E f (fst wr))) /\
    (forall i b, C08.Model.rm_get fd (e_instr E) = None -> C08.Model.rm_get fp (e_instr E) = Some i ->
       w_thing i = AllocatesBasePointer b ->
       walk_frame ops p E f s =
       (let wr := walk_win_fpo ops E i b s in
        if snd wr then Ret (Some (fst wr)) else cfi_fallback ops p E f (fst wr))) /\
    (C08.Model.rm_get fd (e_instr E) = None -> C08.Model.rm_get fp (e_instr E) = None ->
       walk_frame ops p E f s = cfi_fallback ops p E f s).
Proof. exact record_preference. Qed.
Print Assumptions c07_record_preference.

(* stack_win_line as extracted from parser.rs by translate/c07_win_line.py (the order and kind of the fields nom reads,
   type / has_program_string consistency, ProgramString vs AllocatesBasePointer(rest == "1"), which parsed field fills
   which StackInfoWin field, FrameData / Fpo / Unhandled by type): it is this directory's record constructor, its
   field kinds are the ones C09's byte-level recogniser p_stack_win reads in that order, and C09's record for a line
   is the one the extracted function builds. *)
Theorem c07_line_source :
  (forall ty a sz pro epi par sav loc mx hp rest,
     g_stack_win_line ty a sz pro epi par sav loc mx hp rest = stack_win_line ty a sz pro epi par sav loc mx hp rest) /\
  map snd g_line_fields = grammar_field_kinds /\
  (forall ty a sz pro epi par sav loc mx hp rest,
     counts_pos rest ->
     conv_frame_type (C09.Grammar.win_of_fields ty a sz pro epi par sav loc mx hp rest) =
     g_stack_win_line ty a sz pro epi par sav loc mx hp (unrle rest)).
Proof. exact (conj g_stack_win_line_eq (conj g_line_fields_kinds g_line_agrees_with_grammar)). Qed.
Print Assumptions c07_line_source.

Example c07_nonvacuous_preference :
  (* both tables hold a record covering address 100: the frame-data one is used *)
  let e := bs "$eip 4096 = $esp 9 =" in
  let f := mkSym [mkWin 96 16 0 0 0 0 0 0 (ProgramString e)] [mkWin 100 16 0 0 0 0 0 0 (AllocatesBasePointer false)] None in
  match win_table (sf_framedata f), win_table (sf_fpo f) with
  | Ret fd, Ret fp =>
      match C08.Model.rm_get fd 100, C08.Model.rm_get fp 100 with
      | Some i, Some j => w_thing i = ProgramString e /\ w_thing j = AllocatesBasePointer false
      | _, _ => False
      end
  | _, _ => False
  end.
Proof. vm_compute. split; reflexivity. Qed.

(* The two frame-data programs MSVC emits for almost every function, for ALL environments, size fields and memory
   contents (symbolic evaluation, not a run): (1) `$T0 .raSearch = $eip $T0 ^ = $esp $T0 4 + =` behaves like an FPO
   record without base pointer and without the leftover-return-address skip — eip = *(esp + frame_size),
   esp = esp + frame_size + 4, ebp and ebx are the callee's (they are predefined variables the program never
   undefines), esi / edi unknown; (2) the module docs' worked example (standard ebp frame): eip = *(ebp + 4),
   ebp = *(ebp), esp = ebp + 8.  All values 32-bit wrapped. *)
Theorem c07_standard_programs :
  (forall p E i esp ebp fs ra s',
     e_callee E N_esp = Some esp -> e_callee E N_ebp = Some ebp -> win_frame_size i (e_gcps E) = Some fs ->
     e_mem E (wrap32 esp + fs) = Some ra ->
     walk_win_framedata (mock_ops 4) p E i prog_ra_search m_init = Ret (s', true) ->
     m_regs s' N_eip = SetTo (wrap32 ra) /\ m_regs s' N_esp = SetTo (wrap32 (wrap32 esp + fs + 4)) /\
     m_regs s' N_ebp = SetTo (wrap32 ebp) /\
     m_regs s' N_ebx = match e_callee E N_ebx with Some b => SetTo (wrap32 b) | None => Unset end /\
     m_regs s' N_esi = Unset /\ m_regs s' N_edi = Unset) /\
  (forall p E i esp ebp ra old s',
     e_callee E N_esp = Some esp -> e_callee E N_ebp = Some ebp ->
     e_mem E (wrap32 (wrap32 ebp + 4)) = Some ra -> e_mem E (wrap32 ebp) = Some old ->
     walk_win_framedata (mock_ops 4) p E i prog_ebp_frame m_init = Ret (s', true) ->
     m_regs s' N_eip = SetTo (wrap32 ra) /\ m_regs s' N_esp = SetTo (wrap32 (wrap32 ebp + 8)) /\
     m_regs s' N_ebp = SetTo (wrap32 old) /\
     m_regs s' N_ebx = match e_callee E N_ebx with Some b => SetTo (wrap32 b) | None => Unset end /\
     m_regs s' N_esi = Unset /\ m_regs s' N_edi = Unset).
Proof. exact (conj ra_search_regs ebp_frame_regs). Qed.
Print Assumptions c07_standard_programs.

Example c07_nonvacuous_standard_program :
  (* frame size 4 + 4 + 4, return address 0x40001000 at esp + 12 *)
  let E := mkEnv (fun n => assoc n [(N_esp, 16); (N_ebp, 55); (N_ebx, 9)])
                 (mem_read 4 16 [1;0;0;0; 2;0;0;0; 3;0;0;0; 0;16;0;64; 5;0;0;0]) 100 true 4 in
  let i := mkWin 100 16 0 0 8 4 4 0 (ProgramString prog_ra_search) in
  e_mem E (wrap32 16 + 12) = Some 1073745920 /\ win_frame_size i (e_gcps E) = Some 12 /\
  exists s', walk_win_framedata (mock_ops 4) Debug E i prog_ra_search m_init = Ret (s', true).
Proof. split; [reflexivity|]. split; [reflexivity|]. eexists. vm_compute. reflexivity. Qed.

(* Whole walks through frame-data programs (closes "run only" of round 4): walk_stack's loop on the abstract 32-bit
   walker with BOTH kinds of record (win_walk: a frame-data record is evaluated by walk_win_framedata — the model
   c07_source_is_model ties to walker.rs — an FPO record by walk_win_fpo).  EVERY well-formed x86 stack, of any depth,
   whose functions carry an FPO record without base pointer or a frame-data record with the program
   `$T0 .raSearch = $eip $T0 ^ = $esp $T0 4 + =`, in any mix, with or without FUNC records, with any recursion, is
   walked to exactly its generated chain; a leftover return address can only matter for an FPO record on the context
   frame (frame-data evaluation has no such rule, so the layout does not exclude it there). *)
Theorem c07_win_recovers_chain :
  forall mem in_stack lookup ebp (acts : list act) below eip esp,
    win_layout mem in_stack lookup (is_nil below) (spec_gcps below) eip esp acts ->
    0 <= esp -> 0 <= ebp < 2 ^ 32 ->
    win_walk (length acts) mem in_stack lookup below (mkX eip esp ebp) = fpo_chain (spec_gcps below) esp ebp acts.
Proof. exact win_recovers_chain. Qed.
Print Assumptions c07_win_recovers_chain.

Example c07_nonvacuous_win_layout :
  (* the recursion stack of c07_nonvacuous_fpo_layout with the leaf described by a frame-data record (its return slot
     may even hold a look-alike of its own eip) and the recursing function by alternating kinds of record *)
  let mem := mem_read 4 2147483648
     [1;1;1;1; 80;32;0;64;   17;17;17;17; 18;18;18;18; 80;32;0;64;   34;34;0;64; 35;35;35;35; 80;32;0;64;
      51;51;51;51; 52;52;52;52; 0;48;0;64;   0;0;0;0; 0;0;0;0] in
  let leaf := mkWin 4096 256 0 0 0 0 4 0 (ProgramString prog_ra_search_b) in
  let recurse := mkWin 8192 256 0 0 0 0 8 0 (AllocatesBasePointer false) in
  let lookup := fun ip => if (1073745920 <=? ip) && (ip <? 1073746176) then Some (leaf, None)
                          else if (1073750016 <=? ip) && (ip <? 1073750272) then Some (recurse, Some 0) else None in
  let acts := [(leaf, None, 1073750096); (recurse, Some 0, 1073750096); (recurse, Some 0, 1073750096); (recurse, Some 0, 1073754112)] in
  win_layout mem (fun sp => (2147483648 <=? sp) && (sp <? 2147483700)) lookup true 0 1073745936 2147483648 acts /\
  win_walk 4 mem (fun sp => (2147483648 <=? sp) && (sp <? 2147483700)) lookup [] (mkX 1073745936 2147483648 55) =
  [mkX 1073750096 2147483656 55; mkX 1073750096 2147483668 55; mkX 1073750096 2147483680 55; mkX 1073754112 2147483692 55].
Proof.
  split.
  - cbn [win_layout]. repeat split; try reflexivity; try (intro Hc; discriminate Hc); try (vm_compute; intro Hc; discriminate Hc);
      try (vm_compute; reflexivity); try (intros _ Hc; discriminate Hc); try (left; reflexivity); try (right; reflexivity).
  - vm_compute. reflexivity.
Qed.

(* What of the program TEXT matters (the class of seeded C07-8): evaluation depends on the text only through its token
   sequence after the `=tok` re-split and through whether the byte `@` occurs in it — so `... =@` and `... = @` (same
   tokens, both contain `@`) evaluate identically, including the .raSearch rule. *)
Theorem c07_program_text_dependence :
  forall p E i e e',
    win_tokens e = win_tokens e' -> contains_at e = contains_at e' ->
    win_final_vars p E i e = win_final_vars p E i e' /\
    forall S (ops : wops S) s, walk_win_framedata ops p E i e s = walk_win_framedata ops p E i e' s.
Proof. exact text_dependence. Qed.
Print Assumptions c07_program_text_dependence.

Example c07_nonvacuous_glued_align :
  let a := bs "$T1 $esp 16 $T0 1 =@ = $eip .raSearch ^ =" in
  let b := bs "$T1 $esp 16 $T0 1 = @ = $eip   .raSearch ^ =" in
  win_tokens a = win_tokens b /\ contains_at a = contains_at b /\ contains_at a = true.
Proof. vm_compute. repeat split; reflexivity. Qed.

(* ... and with all three kinds of record in one stack: FPO without base pointer (ebp passed through), FPO with base
   pointer (the caller's ebp is the word at esp + gcps + saved - 8), frame data with the .raSearch program (ebp passed
   through, being a predefined variable).  fpo_chain_bp names each caller's eip, esp and ebp. *)
Theorem c07_win_recovers_chain_bp :
  forall mem in_stack lookup (acts : list act_bp) below eip esp ebp,
    win_layout_bp mem in_stack lookup (is_nil below) (spec_gcps below) eip esp ebp acts ->
    0 <= esp ->
    win_walk (length acts) mem in_stack lookup below (mkX eip esp ebp) = fpo_chain_bp (spec_gcps below) esp acts.
Proof. exact win_recovers_chain_bp. Qed.
Print Assumptions c07_win_recovers_chain_bp.

Example c07_nonvacuous_win_layout_bp :
  (* the stack of c07_nonvacuous_fpo_layout_bp with the leaf and g described by frame-data records, f by an FPO record
     with base pointer *)
  let mem := mem_read 4 2147483648
     [1;1;1;1; 80;32;0;64;   64;0;0;128; 9;9;9;9; 16;48;0;64;   4;4;4;4; 5;5;5;5; 0;64;0;64;  0;0;0;0] in
  let leaf := mkWin 4096 256 0 0 0 0 4 0 (ProgramString prog_ra_search_b) in
  let f := mkWin 8192 256 0 0 4 8 0 0 (AllocatesBasePointer true) in
  let g := mkWin 12288 256 0 0 0 0 4 0 (ProgramString prog_ra_search_b) in
  let lookup := fun ip => if (1073745920 <=? ip) && (ip <? 1073746176) then Some (leaf, None)
                          else if (1073750016 <=? ip) && (ip <? 1073750272) then Some (f, Some 4)
                          else if (1073754112 <=? ip) && (ip <? 1073754368) then Some (g, Some 0) else None in
  let acts := [(leaf, None, 1073750096, 7); (f, Some 4, 1073754128, 2147483712); (g, Some 0, 1073758208, 2147483712)] in
  win_layout_bp mem (fun sp => (2147483648 <=? sp) && (sp <? 2147483700)) lookup true 0 1073745936 2147483648 7 acts /\
  win_walk 3 mem (fun sp => (2147483648 <=? sp) && (sp <? 2147483700)) lookup [] (mkX 1073745936 2147483648 7) =
    [mkX 1073750096 2147483656 7; mkX 1073754128 2147483668 2147483712; mkX 1073758208 2147483680 2147483712].
Proof.
  split; [|vm_compute; reflexivity].
  cbn [win_layout_bp]. repeat split; try reflexivity; try (intro Hc; discriminate Hc); try (vm_compute; intro Hc; discriminate Hc);
    try (vm_compute; reflexivity); try (intros _ Hc; discriminate Hc).
Qed.

(* One step of win_walk (and of fpo_walk, which it contains) IS SymbolFile::walk_frame on the abstract walker: for a file
   without STACK CFI records, whichever record the tables return at the lookup address `a` — the frame-data one, or the
   FPO one when no frame-data record covers `a` — the step's caller registers are those walk_frame leaves in the walker
   (eip, esp, ebp all set), and there is no step iff walk_frame fails.  So c07_win_recovers_chain(_bp) are statements about
   iterating walk_frame, the function c07_source_is_model ties to the Rust source.  (Hypotheses met: c07_nonvacuous_preference.) *)
Theorem c07_walk_step_is_walk_frame :
  forall f fd fp mem below callee r a i,
    win_table (sf_framedata f) = Ret fd -> win_table (sf_fpo f) = Ret fp -> sf_cfi f = None ->
    ((C08.Model.rm_get fd a = Some i /\ exists e, w_thing i = ProgramString e) \/
     (C08.Model.rm_get fd a = None /\ C08.Model.rm_get fp a = Some i /\ exists b, w_thing i = AllocatesBasePointer b)) ->
    let regs := fun n => assoc n [(N_eip, x_eip r); (N_esp, x_esp r); (N_ebp, x_ebp r)] in
    win_xstep mem below callee r i =
    match walk_frame (mock_ops 4) Debug (frames_env regs mem a below callee) f m_init with
    | Ret (Some s) => xregs_of s
    | _ => None
    end.
Proof. exact xstep_is_walk_frame. Qed.
Print Assumptions c07_walk_step_is_walk_frame.

(* ... and whole walks through standard ebp frames (the module docs' worked example as every function's frame-data
   program): any depth, eip = *(ebp + 4), esp = ebp + 8, ebp = *ebp at every step — the classic frame-pointer chain,
   here produced by STACK WIN evaluation.  The layout must let the predefined .raSearch be computed (esp + frame_size
   within 32 bits) although the program never uses it: otherwise evaluation fails before the first token. *)
Theorem c07_ebp_recovers_chain :
  forall mem in_stack lookup (acts : list act_bp) below eip esp ebp,
    ebp_layout mem in_stack lookup (is_nil below) (spec_gcps below) eip esp ebp acts ->
    win_walk (length acts) mem in_stack lookup below (mkX eip esp ebp) = ebp_chain ebp acts.
Proof. exact ebp_recovers_chain. Qed.
Print Assumptions c07_ebp_recovers_chain.

Example c07_nonvacuous_ebp_layout :
  let mem := mem_read 4 2147483648
     [1;1;1;1; 2;2;2;2;   24;0;0;128; 80;32;0;64;   3;3;3;3; 4;4;4;4;   0;1;0;128; 16;48;0;64;  0;0;0;0] in
  let f := mkWin 4096 256 0 0 0 0 4 0 (ProgramString prog_ebp_frame_b) in
  let g := mkWin 8192 256 0 0 0 0 4 0 (ProgramString prog_ebp_frame_b) in
  let lookup := fun ip => if (1073745920 <=? ip) && (ip <? 1073746176) then Some (f, None)
                          else if (1073750016 <=? ip) && (ip <? 1073750272) then Some (g, Some 0) else None in
  let acts := [(f, None, 1073750096, 2147483672); (g, Some 0, 1073754128, 2147483904)] in
  ebp_layout mem (fun sp => (2147483648 <=? sp) && (sp <? 2147483700)) lookup true 0 1073745936 2147483648 2147483656 acts /\
  win_walk 2 mem (fun sp => (2147483648 <=? sp) && (sp <? 2147483700)) lookup [] (mkX 1073745936 2147483648 2147483656) =
    [mkX 1073750096 2147483664 2147483672; mkX 1073754128 2147483680 2147483904].
Proof.
  split; [|vm_compute; reflexivity].
  cbn [ebp_layout]. cbv zeta.
  repeat match goal with |- _ /\ _ => split end;
    try (exists 4; repeat match goal with |- _ /\ _ => split end);
    try exact I; try (vm_compute; reflexivity); try (vm_compute; intro Hc; discriminate Hc).
Qed.

(* Second pass of round 5.  The correspondence run evaluates every generated case with the hand-written model AND with
   the model compiled from walker.rs / mod.rs on that run (Driver.run_*7_src: Source.src_walk_frame, and win_walk over
   the compiled evaluators for whole walks); ocaml/c07/main.ml reports a case on which they differ.  Here: the two
   instances of each extracted entry point are the same function of the case line, for all inputs — so on the
   unchanged tree the three-way comparison can only ever differ from the real code, and after an edit of the source
   the compiled instance follows the code while this theorem (through c07_source_is_model) stops proving. *)
Theorem c07_driver_source_agrees :
  (forall lookup gcps hasgc regs membase mem recs names,
     run_mock7_src lookup gcps hasgc regs membase mem recs names = run_mock7 lookup gcps hasgc regs membase mem recs names) /\
  (forall ctx valid stackbase stack recs,
     run_real7_src ctx valid stackbase stack recs = run_real7 ctx valid stackbase stack recs) /\
  (forall below ctx valid stackbase stack recs,
     run_frames7_src below ctx valid stackbase stack recs = run_frames7 below ctx valid stackbase stack recs) /\
  (forall ctx stackbase stack funcs recs,
     run_walk7_src ctx stackbase stack funcs recs = run_walk7 ctx stackbase stack funcs recs).
Proof. exact driver_source_agrees. Qed.
Print Assumptions c07_driver_source_agrees.

(* The exact extent of the known finding F-C07a, for EVERY callee validity set (second pass of round 5).
   W = wrongly_forwarded valid sets = the registers of CALLEE_SAVED_REGS = [ebp; ebx; edi; esi] that are valid in the
   callee and that the record does not set.  After a successful frame-data walk through the real x86 CfiStackWalker the
   caller's validity set is (the outputs the program defined) + W — disjointly, nothing else —, every register of W
   carries the callee's value unchanged, and W is empty exactly when the case is outside the known class
   (Known_C07a = false, the hypothesis of c07_only_six_and_no_forwarding).  So the finding never makes a register
   outside those four valid, never changes a value the record sets, and is exactly as large as the callee's validity
   set allows: W = ([ebp; ebx; edi; esi] ∩ valid) \ defined. *)
Theorem c07_forwarded_set_exact :
  forall p E i e ctx valid s' m,
    walk_win_framedata (real_ops x86) p E i e (real_init x86 ctx valid) = Ret (s', true) ->
    win_final_vars p E i e = Ret (Some m) ->
    let W := wrongly_forwarded valid (fd_sets m) in
    (forall n, r_valid s' n = fd_sets m n || mem_b n W) /\
    (forall n, In n W <-> In n (a_saved x86) /\ callee_has valid n = true /\ is_set n m = false) /\
    (forall n, In n W -> r_valid s' n = true /\ r_ctx s' n = r_ctx (real_init x86 ctx valid) n) /\
    NoDup W /\
    (W = [] <-> Known_C07a ctx valid m = false).
Proof. exact forwarded_exact_framedata. Qed.
Print Assumptions c07_forwarded_set_exact.

(* ... and for FPO records, register by register: %ebp is never wrongly forwarded (the record always sets it), %esi and
   %edi whenever they are valid in the callee, %ebx when it is valid in the callee and not passed through (the record
   allocates a base pointer, or the walker does not report it). *)
Theorem c07_forwarded_set_exact_fpo :
  forall E i abp ctx valid s',
    walk_win_fpo (real_ops x86) E i abp (real_init x86 ctx valid) = (s', true) ->
    let W := wrongly_forwarded valid (fpo_sets E abp) in
    (forall n, r_valid s' n = fpo_sets E abp n || mem_b n W) /\
    (forall n, In n W <-> In n (a_saved x86) /\ callee_has valid n = true /\ fpo_sets E abp n = false) /\
    (forall n, In n W -> r_valid s' n = true) /\
    NoDup W /\
    (W = [] <-> Known_C07a_fpo E abp ctx valid = false) /\
    ~ In N_ebp W /\
    (In N_esi W <-> callee_has valid N_esi = true) /\
    (In N_edi W <-> callee_has valid N_edi = true) /\
    (In N_ebx W <-> callee_has valid N_ebx = true /\ (abp = true \/ e_callee E N_ebx = None)).
Proof. exact forwarded_exact_fpo. Qed.
Print Assumptions c07_forwarded_set_exact_fpo.

(* W as a closed formula: one conditional per callee-saved register, in CALLEE_SAVED_REGS order *)
Theorem c07_forwarded_set_formula :
  forall valid sets,
    wrongly_forwarded valid sets =
    (if callee_has valid N_ebp && negb (sets N_ebp) then [N_ebp] else []) ++
    (if callee_has valid N_ebx && negb (sets N_ebx) then [N_ebx] else []) ++
    (if callee_has valid N_edi && negb (sets N_edi) then [N_edi] else []) ++
    (if callee_has valid N_esi && negb (sets N_esi) then [N_esi] else []).
Proof. exact wrongly_forwarded_formula. Qed.
Print Assumptions c07_forwarded_set_formula.

(* the witness of F-C07a (`$eip $esp ^ = $esp $esp 4 + =`; $ebp and $ebx are predefined, hence defined outputs):
   all registers valid in the callee -> W = [edi; esi]; only eip, esp, ebp, esi valid -> W = [esi]; none of the
   callee-saved ones valid -> W = [] *)
Example c07_nonvacuous_forwarded_set :
  match walk_win_framedata (real_ops x86) Debug w_env w_info w_prog (real_init x86 w_ctx None),
        win_final_vars Debug w_env w_info w_prog with
  | Ret (s', true), Ret (Some m) =>
      wrongly_forwarded None (fd_sets m) = [N_edi; N_esi] /\
      wrongly_forwarded (Some [N_eip; N_esp; N_ebp; N_esi]) (fd_sets m) = [N_esi] /\
      wrongly_forwarded (Some [N_eip; N_esp]) (fd_sets m) = [] /\
      r_valid s' N_edi = true /\ r_valid s' N_esi = true /\ r_ctx s' N_esi = 12
  | _, _ => False
  end.
Proof. vm_compute. repeat split; reflexivity. Qed.

(* ---- Second pass of round 5: WHICH record SymbolFile::walk_frame sees when several STACK WIN records of one kind
   cover an address.  The STACK WIN table theorems of C08 (c08_win_build_total / _sorted_disjoint / _lookup_sound /
   _isolated_complete, stated there for records (address, size, tag)) are imported for this directory's full
   StackInfoWin records through a map that preserves the derived equality (C07/Proofs23.v, Proofs8's parametricity of
   the range-map builder); no hypothesis on overlaps, duplicates or zero-sized records. ---- *)

(* whatever the overlaps: a lookup returns a record OF THE FILE — same address, same every other field, a size never
   larger than written (the overlap repair only ever shortens) — filed under its own range, which contains the address *)
Theorem c07_table_lookup_sound :
  forall l t x i,
    Forall win_wf l -> win_table l = Ret t -> C08.Model.rm_get t x = Some i ->
    exists i0, In i0 l /\ i = set_size i0 (w_size i) /\ 0 < w_size i <= w_size i0 /\
               w_addr i0 <= x <= w_addr i0 + w_size i - 1 /\
               win_range i = Some (w_addr i0, w_addr i0 + w_size i - 1).
Proof. exact table_lookup_sound. Qed.
Print Assumptions c07_table_lookup_sound.

(* the finished table is sorted by address with pairwise disjoint ranges, every entry filed under its record's own
   range: at most one entry can answer a lookup *)
Theorem c07_table_sorted_disjoint :
  forall l t, Forall win_wf l -> win_table l = Ret t ->
    Sorting.Sorted.StronglySorted (fun a b => snd (fst a) < fst (fst b)) t /\
    Forall (fun e => win_range (snd e) = Some (fst e)) t.
Proof. exact table_sorted_disjoint. Qed.
Print Assumptions c07_table_sorted_disjoint.

(* a record that intersects no other record of its kind is returned exactly as written for every address inside it,
   whatever overlaps the OTHER records have among themselves (c07_table_refines_spec needed all of them disjoint) *)
Theorem c07_table_isolated_complete :
  forall la w lb r t x,
    Forall win_wf (la ++ w :: lb) -> win_range w = Some r ->
    (forall w' r', In w' (la ++ lb) -> win_range w' = Some r' -> C08.Model.intersects r r' = false) ->
    win_table (la ++ w :: lb) = Ret t -> C08.Model.contains r x = true -> C08.Model.rm_get t x = Some w.
Proof. exact table_isolated_complete. Qed.
Print Assumptions c07_table_isolated_complete.

(* SymbolFile::walk_frame in terms of the records of the file: exactly one of three things happens — (1) a frame-data
   record of the file whose WRITTEN range covers the address is evaluated as written (evaluation never reads address or
   size, so the shortened copy in the table evaluates like the original), whatever the FPO list holds; (2) no frame-data
   entry answers and an FPO record of the file covering the address is evaluated as written; (3) STACK CFI alone.
   After (1)/(2) STACK CFI continues from the state the failed attempt left (cfi_fallback). *)
Theorem c07_walk_frame_by_file_record :
  forall S (ops : wops S) p E f s,
    Forall win_wf (sf_framedata f) -> Forall win_wf (sf_fpo f) ->
    Forall is_framedata (sf_framedata f) -> Forall is_fpo (sf_fpo f) ->
    (exists i0 e, In i0 (sf_framedata f) /\ covers i0 (e_instr E) /\ w_thing i0 = ProgramString e /\
       walk_frame ops p E f s =
       (do wr <- walk_win_framedata ops p E i0 e s;
        if snd wr then Ret (Some (fst wr)) else cfi_fallback ops p E f (fst wr))) \/
    (exists i0 b, In i0 (sf_fpo f) /\ covers i0 (e_instr E) /\ w_thing i0 = AllocatesBasePointer b /\
       walk_frame ops p E f s =
       (let wr := walk_win_fpo ops E i0 b s in
        if snd wr then Ret (Some (fst wr)) else cfi_fallback ops p E f (fst wr))) \/
    walk_frame ops p E f s = cfi_fallback ops p E f s.
Proof. exact walk_frame_by_file_record. Qed.
Print Assumptions c07_walk_frame_by_file_record.

(* three frame-data records: A = [100, 149], B = [120, 169] (starts inside A: A is cut to [100, 119]),
   C = [110, 129] (read after B, starts before it and is not the same range: dropped).  Address 115 gets A (size 20),
   125 gets B although A and C as written cover it too, 160 gets B; and a frame-data record beats an FPO record
   covering the same address. *)
Example c07_nonvacuous_table_overlap :
  let A := mkWin 100 50 0 0 0 0 4 0 (ProgramString [65]) in
  let B := mkWin 120 50 0 0 0 0 8 0 (ProgramString [66]) in
  let C := mkWin 110 20 0 0 0 0 12 0 (ProgramString [67]) in
  Forall win_wf [A; B; C] /\
  win_table [A; B; C] = Ret [((100, 119), set_size A 20); ((120, 169), B)] /\
  (forall t, win_table [A; B; C] = Ret t ->
     C08.Model.rm_get t 115 = Some (set_size A 20) /\ C08.Model.rm_get t 125 = Some B /\
     C08.Model.rm_get t 160 = Some B /\ C08.Model.rm_get t 170 = None).
Proof.
  cbv zeta. split; [repeat constructor; vm_compute; congruence|].
  split; [vm_compute; reflexivity|].
  intros t H. vm_compute in H. inversion H; subst t. vm_compute. repeat split; reflexivity.
Qed.

(* the table and the SOURCE: insert_win_stack_info, the parser-local into_rangemap_safe and StackInfoWin::memory_range as
   regenerated from parser.rs / types.rs by C08's translator (Gen/C08Tables.v; C08/Tie.v g_win_table) build, on the image
   of the records under Proofs23.g (address, size, index of the first record of the file with the same other fields),
   exactly the image of this directory's table — both build profiles — and lookups commute.  An edit of the overlap
   repair (comparison, subtraction, cast) changes the generated function and this stops proving (through C08/Tie.v). *)
Theorem c07_table_is_source_table :
  forall p l t, Forall win_wf l -> win_table l = Ret t ->
    C08.Tie.g_win_table p (map (Proofs23.g l) l) = Ret (mapv (Proofs23.g l) t) /\
    forall x, C08.Model.rm_get (mapv (Proofs23.g l) t) x = option_map (Proofs23.g l) (C08.Model.rm_get t x).
Proof. exact table_is_source_table. Qed.
Print Assumptions c07_table_is_source_table.

(* The table of an ADDRESS-SORTED file, completely (parser.rs's own example in general): records of one kind with strictly
   increasing addresses, each with a memory range, any overlaps between neighbours or further — every record ends where
   it says or just before the next one starts, whichever comes first (clip_list); nothing is dropped; the clipped
   records are pairwise disjoint; the table is the table of the clipped list, and a lookup returns the clipped record
   whose range contains the address (table_spec_lookup: containment), else nothing. *)
Theorem c07_table_ascending :
  forall l,
    Forall has_range l -> ascending l ->
    win_table l = win_table (clip_list l) /\
    disjoint_ranges (keep (clip_list l)) /\
    exists t, win_table l = Ret t /\ forall x, C08.Model.rm_get t x = table_spec_lookup (clip_list l) x.
Proof. exact table_ascending. Qed.
Print Assumptions c07_table_ascending.

(* parser.rs: "addr: 0, len: 10 / addr: 1, len: 9 / addr: 4, len: 6 ... we need to fixup the lengths like so:
   addr: 0, len: 1 / addr: 1, len: 3 / addr: 4, len: 6" *)
Example c07_nonvacuous_table_ascending :
  let A := mkWin 0 10 0 0 0 0 4 0 (AllocatesBasePointer false) in
  let B := mkWin 1 9 0 0 0 0 8 0 (AllocatesBasePointer false) in
  let C := mkWin 4 6 0 0 0 0 12 0 (AllocatesBasePointer true) in
  Forall has_range [A; B; C] /\ ascending [A; B; C] /\
  clip_list [A; B; C] = [set_size A 1; set_size B 3; C] /\
  table_spec_lookup (clip_list [A; B; C]) 0 = Some (set_size A 1) /\
  table_spec_lookup (clip_list [A; B; C]) 3 = Some (set_size B 3) /\
  table_spec_lookup (clip_list [A; B; C]) 9 = Some C /\
  table_spec_lookup (clip_list [A; B; C]) 10 = None.
Proof.
  cbv zeta. split.
  { repeat constructor; cbn; lia. }
  split; [cbn; lia|]. split; [reflexivity|]. vm_compute. repeat split; reflexivity.
Qed.

(* Whole walks through ALL FOUR kinds of record in one stack (closes "ebp frames MIXED with esp-based records: compared by
   front-end G, no theorem"): FPO without / with base pointer and frame data with the .raSearch program (the caller's esp
   is esp + frame size + 4) mixed in any order with frame data carrying the docs' standard ebp-frame program (the caller's
   esp is ebp + 8), any depth, with or without FUNC records, any recursion: if every activation satisfies the
   one-activation layout of its own kind (win_layout_bp / ebp_layout on a one-element list), walk_stack's loop yields
   exactly the generated chain. *)
Theorem c07_mixed_recovers_chain :
  forall mem in_stack lookup (acts : list act_bp) below eip esp ebp,
    mix_layout mem in_stack lookup (is_nil below) (spec_gcps below) eip esp ebp acts ->
    win_walk (length acts) mem in_stack lookup below (mkX eip esp ebp) = mix_chain (spec_gcps below) esp ebp acts.
Proof. exact mix_recovers_chain. Qed.
Print Assumptions c07_mixed_recovers_chain.

(* an FPO function (no base pointer, 4 bytes of locals) called from a standard ebp-frame function (4 bytes of locals
   below its saved ebp) called from a function with the .raSearch frame-data program *)
Example c07_nonvacuous_mixed_layout :
  let mem := mem_read 4 2147483648
     [1;1;1;1; 80;32;0;64;   2;2;2;2; 0;1;0;128; 16;48;0;64;   16;64;0;64;  0;0;0;0] in
  let f := mkWin 4096 256 0 0 0 0 4 0 (AllocatesBasePointer false) in
  let g := mkWin 8192 256 0 0 0 0 4 0 (ProgramString prog_ebp_frame_b) in
  let h := mkWin 12288 256 0 0 0 0 0 0 (ProgramString prog_ra_search_b) in
  let lookup := fun ip => if (1073745920 <=? ip) && (ip <? 1073746176) then Some (f, None)
                          else if (1073750016 <=? ip) && (ip <? 1073750272) then Some (g, Some 0)
                          else if (1073754112 <=? ip) && (ip <? 1073754368) then Some (h, Some 4) else None in
  let in_stack := fun sp => (2147483648 <=? sp) && (sp <? 2147483676) in
  let acts := [(f, None, 1073750096, 2147483660); (g, Some 0, 1073754128, 2147483904); (h, Some 4, 1073758224, 2147483904)] in
  mix_layout mem in_stack lookup true 0 1073745936 2147483648 2147483660 acts /\
  win_walk 3 mem in_stack lookup [] (mkX 1073745936 2147483648 2147483660) =
    [mkX 1073750096 2147483656 2147483660; mkX 1073754128 2147483668 2147483904; mkX 1073758224 2147483672 2147483904].
Proof.
  cbv zeta. split; [|vm_compute; reflexivity].
  cbn [mix_layout].
  split; [|split; [|split; [|exact I]]].
  - (* f: FPO on the context frame *)
    change (is_ebp_rec _) with false. cbv iota. split; [|lia].
    cbn [win_layout_bp w_thing]. cbv zeta.
    repeat match goal with |- _ /\ _ => split end;
      try exact I; try (vm_compute; reflexivity); try (vm_compute; intro Hc; discriminate Hc);
      try (intros _; vm_compute; intro Hc; discriminate Hc).
  - (* g: ebp frame *)
    change (is_ebp_rec _) with true. cbv iota.
    cbn [ebp_layout].
    repeat match goal with |- _ /\ _ => split end;
      try (exists 4; repeat match goal with |- _ /\ _ => split end);
      try exact I; try (vm_compute; reflexivity); try (vm_compute; intro Hc; discriminate Hc).
  - (* h: frame data, .raSearch *)
    change (is_ebp_rec _) with false. cbv iota. split; [|vm_compute; intro Hc; discriminate Hc].
    cbn [win_layout_bp w_thing]. cbv zeta.
    repeat match goal with |- _ /\ _ => split end;
      try exact I; try reflexivity; try (vm_compute; reflexivity); try (vm_compute; intro Hc; discriminate Hc);
      try (intros _; vm_compute; reflexivity).
Qed.

(* The CAUSE of F-C07a, on the same model.  (1) The names the source passes to clear_caller_register (compiled from
   clear_stack_win_caller_registers: "$eip" .. "$edi") are not register names of the x86 walker: clearing them changes
   nothing.  (2) Counterfactual — the bare names (what the reverted fix 311264d passed): the same evaluation leaves valid
   exactly the outputs the program defined, with the same values, for every callee validity set.  (3) Side by side: the
   two caller states have the same register values and their validity sets differ exactly by the wrongly forwarded set
   W of c07_forwarded_set_exact. *)
Theorem c07_forwarding_cause :
  (forall s, clear_all (real_ops x86) g_clear_names s = s) /\
  (forall p E i e ctx valid s' m,
     walk_win_framedata_bare (real_ops x86) p E i e (real_init x86 ctx valid) = Ret (s', true) ->
     win_final_vars p E i e = Ret (Some m) ->
     forall n, r_valid s' n = fd_sets m n /\
               r_ctx s' n = (if mem_b n six then match vget (dollar n) m with Some v => v | None => r_ctx (real_init x86 ctx valid) n end
                             else r_ctx (real_init x86 ctx valid) n)) /\
  (forall p E i e ctx valid s1 s2 m,
     walk_win_framedata (real_ops x86) p E i e (real_init x86 ctx valid) = Ret (s1, true) ->
     walk_win_framedata_bare (real_ops x86) p E i e (real_init x86 ctx valid) = Ret (s2, true) ->
     win_final_vars p E i e = Ret (Some m) ->
     forall n, r_valid s1 n = r_valid s2 n || mem_b n (wrongly_forwarded valid (fd_sets m)) /\ r_ctx s1 n = r_ctx s2 n).
Proof. exact (conj clear_source_names_noop (conj bare_names_no_forwarding forwarding_is_the_clear_names)). Qed.
Print Assumptions c07_forwarding_cause.

(* on the F-C07a witness the bare-name variant leaves esi / edi invalid *)
Example c07_nonvacuous_forwarding_cause :
  match walk_win_framedata_bare (real_ops x86) Debug w_env w_info w_prog (real_init x86 w_ctx None) with
  | Ret (s', true) => r_valid s' N_esi = false /\ r_valid s' N_edi = false /\ r_valid s' N_eip = true /\ r_ctx s' N_eip = 1073745920
  | _ => False
  end.
Proof. vm_compute. repeat split; reflexivity. Qed.

(* c07_walk_frame_by_file_record for the functions compiled from walker.rs / mod.rs *)
Theorem c07_src_walk_frame_by_file_record :
  forall S (ops : wops S) p E f s,
    Forall win_wf (sf_framedata f) -> Forall win_wf (sf_fpo f) ->
    Forall is_framedata (sf_framedata f) -> Forall is_fpo (sf_fpo f) ->
    (exists i0 e, In i0 (sf_framedata f) /\ covers i0 (e_instr E) /\ w_thing i0 = ProgramString e /\
       src_walk_frame ops p E f s =
       (do wr <- src_walk_win_framedata ops p E i0 e s;
        if snd wr then Ret (Some (fst wr)) else cfi_fallback ops p E f (fst wr))) \/
    (exists i0 b, In i0 (sf_fpo f) /\ covers i0 (e_instr E) /\ w_thing i0 = AllocatesBasePointer b /\
       src_walk_frame ops p E f s =
       (let wr := g_walk_win_fpo ops E i0 b s in
        if snd wr then Ret (Some (fst wr)) else cfi_fallback ops p E f (fst wr))) \/
    src_walk_frame ops p E f s = cfi_fallback ops p E f s.
Proof. exact src_walk_frame_by_file_record. Qed.
Print Assumptions c07_src_walk_frame_by_file_record.

(* c07_table_ascending's lookup as a selection RULE (the one the oracle's independent `select_ascending` implements): in
   an address-sorted list of one kind the record answering x is the LAST one starting at or before x, provided it reaches
   x as written; it is returned cut to end just before the next record's start (sel_asc). *)
Theorem c07_table_ascending_rule :
  forall l, Forall has_range l -> ascending l ->
    exists t, win_table l = Ret t /\ forall x, C08.Model.rm_get t x = sel_asc l x.
Proof. exact table_ascending_rule. Qed.
Print Assumptions c07_table_ascending_rule.

Example c07_nonvacuous_table_ascending_rule :
  let A := mkWin 0 10 0 0 0 0 4 0 (AllocatesBasePointer false) in
  let B := mkWin 1 9 0 0 0 0 8 0 (AllocatesBasePointer false) in
  let C := mkWin 4 2 0 0 0 0 12 0 (AllocatesBasePointer true) in
  sel_asc [A; B; C] 0 = Some (set_size A 1) /\ sel_asc [A; B; C] 3 = Some (set_size B 3) /\
  sel_asc [A; B; C] 5 = Some C /\ sel_asc [A; B; C] 6 = None (* C stops short although A and B as written reach 6 *).
Proof. vm_compute. repeat split; reflexivity. Qed.
