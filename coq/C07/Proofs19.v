(* C07/Proofs19.v — round 5: every well-formed x86 stack whose functions carry FPO records (no base pointer) or
   frame-data records with the program `$T0 .raSearch = $eip $T0 ^ = $esp $T0 4 + =`, in any mix and to any depth,
   is walked to exactly its generated chain. *)
From Coq Require Import Lia.
From RM Require Import Base.Word C06.Model C06.Proofs C07.Model C07.Walker C07.WalkerFd C07.Proofs C07.Proofs2 C07.Proofs3
                       C07.Proofs6 C07.Proofs7 C07.Proofs11 C07.Proofs13 C07.Proofs18.
Import ListNotations.
Open Scope Z_scope.

Lemma prog_b_eq : prog_ra_search_b = prog_ra_search.
Proof. reflexivity. Qed.

Lemma wrap32_small : forall v, 0 <= v < 2 ^ 32 -> wrap32 v = v.
Proof. intros. unfold wrap32, two32. apply Z.mod_small. lia. Qed.

Lemma fd_step_ok : forall mem below callee r i fs ra,
  w_thing i = ProgramString prog_ra_search_b ->
  win_frame_size i (spec_gcps below) = Some fs ->
  0 <= x_esp r -> 0 <= fs ->
  mem (x_esp r + fs) = Some ra ->
  0 <= ra < 2 ^ 32 -> x_esp r + fs + 4 < 2 ^ 32 -> 0 <= x_ebp r < 2 ^ 32 ->
  win_xstep mem below callee r i = Some (mkX ra (x_esp r + fs + 4) (x_ebp r)).
Proof.
  intros mem below callee r i fs ra Hth Hfs Hesp0 Hfs0 Hm Hra Hsp Hbp.
  unfold win_xstep. rewrite Hth, prog_b_eq.
  set (E := frames_env _ mem 0 below callee).
  assert (Eesp : e_callee E N_esp = Some (x_esp r)) by reflexivity.
  assert (Eebp : e_callee E N_ebp = Some (x_ebp r)) by reflexivity.
  assert (Eebx : e_callee E N_ebx = None) by reflexivity.
  assert (Egc : e_gcps E = spec_gcps below) by (unfold E, frames_env; cbn [e_gcps]; apply walker_gcps_spec).
  assert (Efs : win_frame_size i (e_gcps E) = Some fs) by (rewrite Egc; exact Hfs).
  assert (Wesp : wrap32 (x_esp r) = x_esp r) by (apply wrap32_small; lia).
  assert (Webp : wrap32 (x_ebp r) = x_ebp r) by (apply wrap32_small; lia).
  (* the initial variables *)
  assert (Hi : exists m, win_initial_vars E i prog_ra_search = Some m).
  { unfold win_initial_vars. rewrite Eesp, Eebp, Efs, Eebx. change (contains_at prog_ra_search) with false. cbv iota.
    unfold checked_add. rewrite Wesp. replace (x_esp r + fs <? 2 ^ 32) with true by (symmetry; apply Z.ltb_lt; lia).
    eexists; reflexivity. }
  destruct Hi as [m Hi].
  destruct (initial_vars_spec _ _ _ _ Hi) as (esp' & ebp' & fs' & A1 & A2 & A3 & _ & _ & V1 & V2 & V3 & _ & _ & _ & _ & _ & V4 & _).
  rewrite Eesp in A1. rewrite Eebp in A2. rewrite Efs in A3. inversion A1; inversion A2; inversion A3; subst esp' ebp' fs'.
  change (contains_at prog_ra_search) with false in V4. cbv iota in V4. rewrite Wesp in V4. rewrite Webp in V2. rewrite Eebx in V3.
  cbn [option_map] in V3.
  destruct (initial_no_esi_edi_eip _ _ _ _ Hi) as (N1 & N2 & _ & _).
  assert (Hmem : e_mem E (x_esp r + fs) = Some ra) by exact Hm.
  pose proof (ra_search_vars Debug E i m _ ra Hi V4 Hmem) as Hf.
  set (m' := vset D_esp (wrap32 (x_esp r + fs + 4)) (vset D_eip (wrap32 ra) (vset D_T0 (x_esp r + fs) m))) in *.
  assert (G1 : vget D_eip m' = Some ra).
  { unfold m'. vget_through. rewrite (wrap32_small ra) by lia. reflexivity. }
  assert (G2 : vget D_esp m' = Some (x_esp r + fs + 4)).
  { unfold m'. vget_through. rewrite wrap32_small by lia. reflexivity. }
  assert (G3 : vget D_ebp m' = Some (x_ebp r)) by (unfold m'; vget_through; exact V2).
  assert (G4 : vget D_ebx m' = None) by (unfold m'; vget_through; exact V3).
  assert (G5 : vget D_esi m' = None) by (unfold m'; vget_through; exact N1).
  assert (G6 : vget D_edi m' = None) by (unfold m'; vget_through; exact N2).
  unfold walk_win_framedata. rewrite Hf. cbn [obind].
  set (s0 := clear_all (mock_ops 4) win_clear_names m_init).
  unfold win_outputs. cbn [set_outputs]. rewrite G1, G2, G3, G4, G5, G6.
  rewrite (mock_set_ok s0 N_eip ra eq_refl) by lia.
  rewrite (mock_set_ok _ N_esp (x_esp r + fs + 4) eq_refl Hsp).
  rewrite (mock_set_ok _ N_ebp (x_ebp r) eq_refl) by lia.
  cbn [m_regs]. unfold upd.
  change (beq N_eip N_ebp) with false. change (beq N_eip N_esp) with false. change (beq N_eip N_eip) with true.
  change (beq N_esp N_ebp) with false. change (beq N_esp N_esp) with true. change (beq N_ebp N_ebp) with true.
  reflexivity.
Qed.

Theorem win_recovers_chain : forall mem in_stack lookup ebp (acts : list act) below eip esp,
  win_layout mem in_stack lookup (is_nil below) (spec_gcps below) eip esp acts ->
  0 <= esp -> 0 <= ebp < 2 ^ 32 ->
  win_walk (length acts) mem in_stack lookup below (mkX eip esp ebp) = fpo_chain (spec_gcps below) esp ebp acts.
Proof.
  intros mem in_stack lookup ebp acts. induction acts as [|[[i ps] ra] rest IH]; intros below eip esp HL Hesp Hbp.
  - reflexivity.
  - cbn [win_layout] in HL. destruct HL as (Hl & Hkind & His & Hfs & HF & Hm & Hra & Htop & Hctx & Hrest).
    cbn [length win_walk fpo_chain x_esp x_eip].
    replace (match below with [] => true | _ :: _ => in_stack esp end) with true
      by (destruct below; [reflexivity|symmetry; apply His; reflexivity]).
    rewrite Hl.
    set (F := w_locals i + w_saved i + spec_gcps below) in *.
    assert (Hstep : win_xstep mem below (mkSF ps) (mkX eip esp ebp) i = Some (mkX ra (esp + F + 4) ebp)).
    { destruct Hkind as [Habp|Hprog].
      - unfold win_xstep. rewrite Habp. cbv zeta iota.
        destruct below as [|g t].
        + change (spec_gcps []) with 0 in Hfs.
          apply (fpo_step_context mem (mkSF ps) (mkX eip esp ebp) i F ra); cbn [x_esp x_ebp x_eip]; try assumption; try lia.
          apply Hctx; [reflexivity|exact Habp].
        + apply (fpo_step_above_context mem (g :: t) (mkSF ps) (mkX eip esp ebp) i F ra); cbn [x_esp x_ebp x_eip];
            try assumption; try lia. discriminate.
      - apply (fd_step_ok mem below (mkSF ps) (mkX eip esp ebp) i F ra); cbn [x_esp x_ebp x_eip]; try assumption; lia. }
    rewrite Hstep. cbn [x_eip x_esp].
    replace (ra <? 4096) with false by (symmetry; apply Z.ltb_ge; lia).
    replace (esp + F + 4 <=? esp) with false by (symmetry; apply Z.leb_gt; lia).
    cbn [orb]. f_equal.
    specialize (IH (below ++ [mkSF ps]) ra (esp + F + 4)).
    rewrite spec_gcps_snoc in IH.
    replace (is_nil (below ++ [mkSF ps])) with false in IH by (destruct below; reflexivity).
    apply IH; [exact Hrest|lia|exact Hbp].
Qed.

(* ---- what of the program TEXT matters: its token sequence after the `=tok` re-split, and whether the byte `@` occurs in it ---- *)
Lemma text_dependence : forall p E i e e',
  win_tokens e = win_tokens e' -> contains_at e = contains_at e' ->
  win_final_vars p E i e = win_final_vars p E i e' /\
  forall S (ops : wops S) s, walk_win_framedata ops p E i e s = walk_win_framedata ops p E i e' s.
Proof.
  intros p E i e e' Ht Ha.
  assert (Hi : win_initial_vars E i e = win_initial_vars E i e') by (unfold win_initial_vars; rewrite Ha; reflexivity).
  assert (Hf : win_final_vars p E i e = win_final_vars p E i e') by (unfold win_final_vars; rewrite Hi, Ht; reflexivity).
  split; [exact Hf|]. intros. unfold walk_win_framedata. rewrite Hf. reflexivity.
Qed.

(* ---- all three kinds of record ---- *)
Theorem win_recovers_chain_bp : forall mem in_stack lookup (acts : list act_bp) below eip esp ebp,
  win_layout_bp mem in_stack lookup (is_nil below) (spec_gcps below) eip esp ebp acts ->
  0 <= esp ->
  win_walk (length acts) mem in_stack lookup below (mkX eip esp ebp) = fpo_chain_bp (spec_gcps below) esp acts.
Proof.
  intros mem in_stack lookup acts. induction acts as [|[[[i ps] ra] bp'] rest IH]; intros below eip esp ebp HL Hesp.
  - reflexivity.
  - cbn [win_layout_bp] in HL.
    destruct HL as (Hl & His & Hfs & Hl0 & Hs0 & Hg0 & Hm & Hra & Htop & Hthing & Hbp32 & Hrest).
    cbn [length win_walk fpo_chain_bp x_esp x_eip].
    replace (match below with [] => true | _ :: _ => in_stack esp end) with true
      by (destruct below; [reflexivity|symmetry; apply His; reflexivity]).
    rewrite Hl.
    set (F := w_locals i + w_saved i + spec_gcps below) in *.
    assert (Hstep : win_xstep mem below (mkSF ps) (mkX eip esp ebp) i = Some (mkX ra (esp + F + 4) bp')).
    { destruct (w_thing i) as [e|abp] eqn:Et.
      - destruct Hthing as (He & Hb & Hb0). subst e bp'.
        apply (fd_step_ok mem below (mkSF ps) (mkX eip esp ebp) i F ra); cbn [x_esp x_ebp x_eip]; try assumption; lia.
      - unfold win_xstep. rewrite Et. cbv zeta iota.
        apply (fpo_step_plain mem below (mkSF ps) (mkX eip esp ebp) i abp ra bp' Et); cbn [x_esp x_ebp x_eip];
          try assumption; try lia.
        + destruct below as [|g t]; [right; destruct abp; apply Hthing; reflexivity|left; discriminate].
        + destruct abp; [exact (proj2 Hthing)|exact (proj2 Hthing)]. }
    rewrite Hstep. cbn [x_eip x_esp].
    replace (ra <? 4096) with false by (symmetry; apply Z.ltb_ge; lia).
    replace (esp + F + 4 <=? esp) with false by (symmetry; apply Z.leb_gt; lia).
    cbn [orb]. f_equal.
    specialize (IH (below ++ [mkSF ps]) ra (esp + F + 4) bp').
    rewrite spec_gcps_snoc in IH.
    replace (is_nil (below ++ [mkSF ps])) with false in IH by (destruct below; reflexivity).
    apply IH; [exact Hrest|lia].
Qed.

(* ---- standard ebp frames ---- *)
Lemma prog_ebp_b_eq : prog_ebp_frame_b = prog_ebp_frame.
Proof. reflexivity. Qed.

Lemma fd_step_ebp_ok : forall mem below callee r i fs ra bp',
  w_thing i = ProgramString prog_ebp_frame_b ->
  win_frame_size i (spec_gcps below) = Some fs -> 0 <= fs -> x_esp r + fs < 2 ^ 32 ->
  0 <= x_esp r < 2 ^ 32 -> 0 <= x_ebp r -> x_ebp r + 8 < 2 ^ 32 ->
  mem (x_ebp r + 4) = Some ra -> 0 <= ra < 2 ^ 32 -> mem (x_ebp r) = Some bp' -> 0 <= bp' < 2 ^ 32 ->
  win_xstep mem below callee r i = Some (mkX ra (x_ebp r + 8) bp').
Proof.
  intros mem below callee r i fs ra bp' Hth Hfs Hfs0 Hss Hesp Hbp0 Hbp8 Hra Hra32 Hold Hold32.
  unfold win_xstep. rewrite Hth, prog_ebp_b_eq.
  set (E := frames_env _ mem 0 below callee).
  assert (Eesp : e_callee E N_esp = Some (x_esp r)) by reflexivity.
  assert (Eebp : e_callee E N_ebp = Some (x_ebp r)) by reflexivity.
  assert (Eebx : e_callee E N_ebx = None) by reflexivity.
  assert (Egc : e_gcps E = spec_gcps below) by (unfold E, frames_env; cbn [e_gcps]; apply walker_gcps_spec).
  assert (Efs : win_frame_size i (e_gcps E) = Some fs) by (rewrite Egc; exact Hfs).
  assert (Wesp : wrap32 (x_esp r) = x_esp r) by (apply wrap32_small; lia).
  assert (Webp : wrap32 (x_ebp r) = x_ebp r) by (apply wrap32_small; lia).
  assert (Hi : exists m, win_initial_vars E i prog_ebp_frame = Some m).
  { unfold win_initial_vars. rewrite Eesp, Eebp, Efs, Eebx. change (contains_at prog_ebp_frame) with false. cbv iota.
    unfold checked_add. rewrite Wesp. replace (x_esp r + fs <? 2 ^ 32) with true by (symmetry; apply Z.ltb_lt; lia).
    eexists; reflexivity. }
  destruct Hi as [m Hi].
  destruct (initial_vars_spec _ _ _ _ Hi) as (esp' & ebp' & fs' & A1 & A2 & _ & _ & _ & V1 & V2 & V3 & _).
  rewrite Eesp in A1. rewrite Eebp in A2. inversion A1; inversion A2; subst esp' ebp'.
  rewrite Webp in V2. rewrite Eebx in V3. cbn [option_map] in V3.
  destruct (initial_no_esi_edi_eip _ _ _ _ Hi) as (N1 & N2 & _ & _).
  assert (Hm1 : e_mem E (wrap32 (x_ebp r + 4)) = Some ra) by (rewrite wrap32_small by lia; exact Hra).
  assert (Hm2 : e_mem E (x_ebp r) = Some bp') by exact Hold.
  pose proof (ebp_frame_vars Debug E i m _ ra bp' Hi V2 Hm1 Hm2) as Hf.
  set (m' := vset D_esp _ _) in Hf.
  assert (G1 : vget D_eip m' = Some ra) by (unfold m'; vget_through; rewrite (wrap32_small ra) by lia; reflexivity).
  assert (G2 : vget D_esp m' = Some (x_ebp r + 8)) by (unfold m'; vget_through; rewrite wrap32_small by lia; reflexivity).
  assert (G3 : vget D_ebp m' = Some bp') by (unfold m'; vget_through; rewrite (wrap32_small bp') by lia; reflexivity).
  assert (G4 : vget D_ebx m' = None) by (unfold m'; vget_through; exact V3).
  assert (G5 : vget D_esi m' = None) by (unfold m'; vget_through; exact N1).
  assert (G6 : vget D_edi m' = None) by (unfold m'; vget_through; exact N2).
  unfold walk_win_framedata. rewrite Hf. cbn [obind].
  set (s0 := clear_all (mock_ops 4) win_clear_names m_init).
  unfold win_outputs. cbn [set_outputs]. rewrite G1, G2, G3, G4, G5, G6.
  rewrite (mock_set_ok s0 N_eip ra eq_refl) by lia.
  rewrite (mock_set_ok _ N_esp (x_ebp r + 8) eq_refl Hbp8).
  rewrite (mock_set_ok _ N_ebp bp' eq_refl) by lia.
  cbn [m_regs]. unfold upd.
  change (beq N_eip N_ebp) with false. change (beq N_eip N_esp) with false. change (beq N_eip N_eip) with true.
  change (beq N_esp N_ebp) with false. change (beq N_esp N_esp) with true. change (beq N_ebp N_ebp) with true.
  reflexivity.
Qed.

Theorem ebp_recovers_chain : forall mem in_stack lookup (acts : list act_bp) below eip esp ebp,
  ebp_layout mem in_stack lookup (is_nil below) (spec_gcps below) eip esp ebp acts ->
  win_walk (length acts) mem in_stack lookup below (mkX eip esp ebp) = ebp_chain ebp acts.
Proof.
  intros mem in_stack lookup acts. induction acts as [|[[[i ps] ra] bp'] rest IH]; intros below eip esp ebp HL.
  - reflexivity.
  - cbn [ebp_layout] in HL.
    destruct HL as (Hl & Hth & His & (fs & Hfs & Hfs0 & Hss) & Hesp & Hgrow & Hbp8 & Hbp0 & Hra & Hra32 & Hold & Hold32 & Hrest).
    cbn [length win_walk ebp_chain x_esp x_eip].
    replace (match below with [] => true | _ :: _ => in_stack esp end) with true
      by (destruct below; [reflexivity|symmetry; apply His; reflexivity]).
    rewrite Hl.
    rewrite (fd_step_ebp_ok mem below (mkSF ps) (mkX eip esp ebp) i fs ra bp'); cbn [x_esp x_ebp x_eip]; try assumption; try lia.
    replace (ra <? 4096) with false by (symmetry; apply Z.ltb_ge; lia).
    replace (ebp + 8 <=? esp) with false by (symmetry; apply Z.leb_gt; lia).
    cbn [orb]. f_equal.
    specialize (IH (below ++ [mkSF ps]) ra (ebp + 8) bp').
    rewrite spec_gcps_snoc in IH.
    replace (is_nil (below ++ [mkSF ps])) with false in IH by (destruct below; reflexivity).
    apply IH. exact Hrest.
Qed.
