(* C07/Proofs9.v — run-length encoded strings in normal form (what C09's line parsers return) are equal iff their
   bytes are equal; hence C09's record equality and this directory's agree through conv_win, C09's
   insert_win_stack_info is this directory's, and the STACK WIN tables / lookups of the text route are those of the
   record route. *)
From Coq Require Import Lia.
From RM Require Import Base.Word C06.Model C06.Proofs C07.Model C07.Text C07.Proofs5 C07.Proofs8.
From RM Require C08.Model C09.Grammar C11.Model.
Import ListNotations.
Open Scope Z_scope.

(* normal form: every count >= 1 and neighbouring runs carry different bytes *)
Fixpoint adj_distinct (s : C09.Grammar.rle) : Prop :=
  match s with
  | [] => True
  | (b, _) :: t => match t with [] => True | (b2, _) :: _ => b <> b2 end /\ adj_distinct t
  end.
Definition rle_nf (s : C09.Grammar.rle) : Prop := counts_pos s /\ adj_distinct s.

Lemma rep_app : forall b n m, rep b (n + m) = rep b n ++ rep b m.
Proof. intros b n m. induction n as [|n IH]; [reflexivity|]. cbn [Nat.add rep app]. rewrite IH. reflexivity. Qed.

Lemma unrle_cons : forall b c t, 1 <= c -> unrle ((b, c) :: t) = rep b (Z.to_nat c) ++ unrle t.
Proof. intros b c t H. cbn [unrle flat_map fst snd]. replace (Z.max 1 c) with c by lia. reflexivity. Qed.

Lemma unrle_head : forall b c t, 1 <= c -> exists r, unrle ((b, c) :: t) = b :: r.
Proof.
  intros b c t H. rewrite unrle_cons by exact H.
  destruct (Z.to_nat c) as [|k] eqn:E; [lia|]. eexists. reflexivity.
Qed.

(* a normal-form string whose bytes start with x does not start with a run of another byte *)
Lemma nf_starts : forall x c t r, 1 <= c -> unrle ((x, c) :: t) = r -> forall y r', r = y :: r' -> x = y.
Proof.
  intros x c t r Hc Hu y r' Hr. destruct (unrle_head x c t Hc) as [q Hq]. rewrite Hq in Hu. subst r. inversion Hr. reflexivity.
Qed.

Lemma rep_cancel : forall x n a b, rep x n ++ a = rep x n ++ b -> a = b.
Proof. intros x n a b. apply app_inv_head. Qed.

Lemma unrle_inj : forall a b, rle_nf a -> rle_nf b -> unrle a = unrle b -> a = b.
Proof.
  induction a as [|[x c] a' IH]; intros b [Hpa Hda] [Hpb Hdb] H.
  - destruct b as [|[y d] b']; [reflexivity|].
    inversion Hpb as [|? ? Hd _]; subst. cbn [snd] in Hd.
    destruct (unrle_head y d b' Hd) as [q Hq]. rewrite Hq in H. discriminate H.
  - inversion Hpa as [|? ? Hc Hpa']; subst. cbn [snd] in Hc.
    destruct b as [|[y d] b'].
    + destruct (unrle_head x c a' Hc) as [q Hq]. rewrite Hq in H. discriminate H.
    + inversion Hpb as [|? ? Hd Hpb']; subst. cbn [snd] in Hd.
      assert (Hxy : x = y).
      { destruct (unrle_head x c a' Hc) as [q Hq]. destruct (unrle_head y d b' Hd) as [q2 Hq2].
        rewrite Hq, Hq2 in H. inversion H. reflexivity. }
      subst y. rewrite !unrle_cons in H by assumption.
      cbn [adj_distinct] in Hda, Hdb. destruct Hda as [Hxa Hda']. destruct Hdb as [Hxb Hdb'].
      destruct (Z.lt_trichotomy c d) as [Hlt|[Heq|Hgt]].
      * (* c < d: a' would have to start with x *)
        exfalso. replace (Z.to_nat d) with (Z.to_nat c + Z.to_nat (d - c))%nat in H by lia.
        rewrite rep_app, <- app_assoc in H. apply rep_cancel in H.
        destruct (Z.to_nat (d - c)) as [|k] eqn:Ek; [lia|]. cbn [rep app] in H.
        destruct a' as [|[x2 c2] a2]; [discriminate H|].
        inversion Hpa' as [|? ? Hc2 _]; subst. cbn [snd] in Hc2.
        destruct (unrle_head x2 c2 a2 Hc2) as [q Hq]. rewrite Hq in H. inversion H. subst x2. apply Hxa. reflexivity.
      * subst d. apply rep_cancel in H. f_equal. apply IH; [split; assumption|split; assumption|exact H].
      * exfalso. replace (Z.to_nat c) with (Z.to_nat d + Z.to_nat (c - d))%nat in H by lia.
        rewrite rep_app, <- app_assoc in H. apply rep_cancel in H.
        destruct (Z.to_nat (c - d)) as [|k] eqn:Ek; [lia|]. cbn [rep app] in H.
        destruct b' as [|[x2 c2] b2]; [discriminate H|].
        inversion Hpb' as [|? ? Hc2 _]; subst. cbn [snd] in Hc2.
        destruct (unrle_head x2 c2 b2 Hc2) as [q Hq]. rewrite Hq in H. inversion H. subst x2. apply Hxb. reflexivity.
Qed.

Lemma rle_eqb_eq : forall a b, C09.Grammar.rle_eqb a b = true <-> a = b.
Proof.
  induction a as [|[x c] a' IH]; intros [|[y d] b']; cbn [C09.Grammar.rle_eqb]; split; intro H; try reflexivity; try discriminate.
  - apply andb_prop in H. destruct H as [H1 H3]. apply andb_prop in H1. destruct H1 as [H1 H2].
    apply Z.eqb_eq in H1. apply Z.eqb_eq in H2. apply IH in H3. subst. reflexivity.
  - inversion H; subst. rewrite !Z.eqb_refl. cbn [andb]. apply IH. reflexivity.
Qed.

Theorem rle_eqb_unrle : forall a b, rle_nf a -> rle_nf b ->
  C09.Grammar.rle_eqb a b = beq (unrle a) (unrle b).
Proof.
  intros a b Ha Hb. destruct (C09.Grammar.rle_eqb a b) eqn:E.
  - apply rle_eqb_eq in E. subst b. symmetry. apply beq_refl.
  - symmetry. apply beq_neq. intro Hu. apply (unrle_inj a b Ha Hb) in Hu. subst b.
    assert (C09.Grammar.rle_eqb a a = true) by (apply rle_eqb_eq; reflexivity). congruence.
Qed.

(* ---- the records ---- *)
Definition wi_nf (w : C09.Grammar.win_info) : Prop :=
  match C09.Grammar.wi_thing w with
  | C09.Grammar.ProgramString s => rle_nf s
  | C09.Grammar.AllocatesBasePointer _ => True
  end.

Lemma wi_eqb_conv : forall a b, wi_nf a -> wi_nf b ->
  win_eqb (conv_win a) (conv_win b) = C09.Grammar.wi_eqb a b.
Proof.
  intros a b Ha Hb. unfold win_eqb, C09.Grammar.wi_eqb, conv_win.
  cbn [w_addr w_size w_prolog w_epilog w_params w_saved w_locals w_maxstack w_thing]. f_equal.
  unfold wi_nf in Ha, Hb.
  destruct (C09.Grammar.wi_thing a) as [x|x], (C09.Grammar.wi_thing b) as [y|y];
    cbn [conv_thing thing_eqb C09.Grammar.thing_eqb]; try reflexivity.
  symmetry. apply rle_eqb_unrle; assumption.
Qed.

(* outcomes equal up to the tag of a panic (the two models number their panic sites independently) *)
Definition same_outcome {A} (a b : outcome A) : Prop :=
  match a, b with
  | Ret x, Ret y => x = y
  | Fail, Fail => True
  | Panic _, Panic _ => True
  | OutOfFuel, OutOfFuel => True
  | _, _ => False
  end.

Notation cmap := (mapv conv_win).

Lemma insert_conv : forall acc w,
  same_outcome (insert_win (cmap acc) (conv_win w)) (omapv conv_win (C09.Grammar.win_insert acc w)).
Proof.
  intros acc w. unfold insert_win, C09.Grammar.win_insert, win_range, C09.Grammar.wi_range.
  change (w_addr (conv_win w)) with (C09.Grammar.wi_addr w). change (w_size (conv_win w)) with (C09.Grammar.wi_size w).
  destruct (C08.Model.mk_range (C09.Grammar.wi_addr w) (C09.Grammar.wi_size w)) as [mr|]; [|reflexivity].
  destruct acc as [|[lr lw] acc']; [reflexivity|].
  cbn [mapv map fst snd]. fold (cmap acc').
  destruct (C08.Model.intersects lr mr); [|reflexivity].
  change (w_addr (conv_win lw)) with (C09.Grammar.wi_addr lw).
  destruct (C09.Grammar.wi_addr w >? C09.Grammar.wi_addr lw).
  - change (set_size (conv_win lw) (wrap32 (C09.Grammar.wi_addr w - C09.Grammar.wi_addr lw)))
      with (conv_win (C09.Grammar.wi_set_size lw (wrap32 (C09.Grammar.wi_addr w - C09.Grammar.wi_addr lw)))).
    set (lw' := C09.Grammar.wi_set_size lw _).
    change (w_addr (conv_win lw')) with (C09.Grammar.wi_addr lw'). change (w_size (conv_win lw')) with (C09.Grammar.wi_size lw').
    destruct (C08.Model.mk_range (C09.Grammar.wi_addr lw') (C09.Grammar.wi_size lw')); reflexivity.
  - change (range_eqb lr mr) with (C11.Model.range_eqb lr mr).
    destruct (negb (C11.Model.range_eqb lr mr)); reflexivity.
Qed.

Lemma insert_nf : forall acc w acc', allP wi_nf acc -> wi_nf w ->
  C09.Grammar.win_insert acc w = Ret acc' -> allP wi_nf acc'.
Proof.
  intros acc w acc' Ha Hw H. unfold C09.Grammar.win_insert in H.
  destruct (C09.Grammar.wi_range w) as [mr|]; [|inversion H; subst; exact Ha].
  destruct acc as [|[lr lw] t]; [inversion H; subst; constructor; [exact Hw|constructor]|].
  inversion Ha as [|? ? Hlw Ht]; subst. cbn [snd] in Hlw.
  destruct (C08.Model.intersects lr mr).
  - destruct (C09.Grammar.wi_addr w >? C09.Grammar.wi_addr lw).
    + destruct (C09.Grammar.wi_range _) as [lr'|]; [|discriminate H]. inversion H; subst.
      constructor; [exact Hw|]. constructor; [exact Hlw|exact Ht].
    + destruct (negb _); inversion H; subst; [exact Ha|constructor; [exact Hw|exact Ha]].
  - inversion H; subst. constructor; [exact Hw|exact Ha].
Qed.

Lemma collect_conv : forall ws acc l, allP wi_nf acc -> Forall wi_nf ws ->
  C09.Grammar.win_collect acc ws = Ret l ->
  exists acc2, insert_all (map conv_win ws) (cmap acc) = Ret (cmap acc2) /\ l = rev acc2 /\ allP wi_nf acc2.
Proof.
  induction ws as [|w t IH]; intros acc l Ha Hws H.
  - cbn [C09.Grammar.win_collect] in H. inversion H; subst. exists acc. split; [reflexivity|]. split; [reflexivity|exact Ha].
  - inversion Hws as [|? ? Hw Ht]; subst.
    cbn [C09.Grammar.win_collect] in H. cbn [map insert_all].
    pose proof (insert_conv acc w) as Hi.
    destruct (C09.Grammar.win_insert acc w) as [acc1| | |] eqn:E1; try discriminate H.
    cbn [omapv] in Hi. destruct (insert_win (cmap acc) (conv_win w)) as [x| | |]; try contradiction.
    cbn [same_outcome] in Hi. subst x. cbn [obind].
    apply (IH acc1 l); [eapply insert_nf; eassumption|exact Ht|exact H].
Qed.

(* the STACK WIN table of the text route is the table of the record route *)
Theorem win_table_conv : forall ws t, Forall wi_nf ws ->
  (do l <- C09.Grammar.win_collect [] ws; C08.Model.build_p C09.Grammar.wi_eqb l) = Ret t ->
  win_table (map conv_win ws) = Ret (cmap t).
Proof.
  intros ws t Hws H. destruct (C09.Grammar.win_collect [] ws) as [l| | |] eqn:El; try discriminate H.
  cbn [obind] in H.
  destruct (collect_conv ws [] l (Forall_nil _) Hws El) as (acc2 & Hi & Hl & Hn).
  unfold win_table. change (@nil (C08.Model.range * win_info)) with (cmap []). rewrite Hi. cbn [obind].
  rewrite <- mapv_rev.
  rewrite (build_p_map C09.Grammar.wi_eqb win_eqb conv_win wi_nf).
  - subst l. rewrite H. reflexivity.
  - intros a b Pa Pb. apply wi_eqb_conv; assumption.
  - unfold allP. apply Forall_rev. exact Hn.
Qed.

Theorem win_lookup_conv : forall (t : list (C08.Model.range * C09.Grammar.win_info)) x,
  C08.Model.rm_get (cmap t) x = option_map conv_win (C08.Model.rm_get t x).
Proof. intros. apply rm_get_map. Qed.
