(* C07/Proofs8.v — the text route and the record route build the same STACK WIN tables: C09/Grammar.v's
   win_collect + build_p over its own record type, mapped through conv_win, IS this directory's win_table; lookups
   commute.  (Value-parametricity of C08's range-map builder under a map that preserves the value equality.) *)
From Coq Require Import Lia.
From RM Require Import Base.Word C06.Model C07.Model C07.Text.
From RM Require C08.Model C09.Grammar C11.Model.
Import ListNotations.
Open Scope Z_scope.

Section Param.
Context {V W : Type} (eqbV : V -> V -> bool) (eqbW : W -> W -> bool) (g : V -> W) (P : V -> Prop).
Hypothesis Hg : forall a b, P a -> P b -> eqbW (g a) (g b) = eqbV a b.

Definition mapv (l : list (C08.Model.range * V)) : list (C08.Model.range * W) := map (fun e => (fst e, g (snd e))) l.
Definition allP (l : list (C08.Model.range * V)) : Prop := Forall (fun e => P (snd e)) l.

Lemma mapv_app : forall a b, mapv (a ++ b) = mapv a ++ mapv b.
Proof. intros. unfold mapv. apply map_app. Qed.
Lemma mapv_rev : forall a, mapv (rev a) = rev (mapv a).
Proof. intros. unfold mapv. apply map_rev. Qed.

Lemma insert_stable_map : forall (lt : C08.Model.range -> C08.Model.range -> bool) r v l,
  C08.Model.insert_stable lt (r, g v) (mapv l) = mapv (C08.Model.insert_stable lt (r, v) l).
Proof.
  intros lt r v l. induction l as [|[r0 v0] t IH]; [reflexivity|].
  cbn [mapv map C08.Model.insert_stable fst snd]. destruct (lt r0 r).
  - fold (mapv t). rewrite IH. reflexivity.
  - reflexivity.
Qed.
Lemma sort_stable_map : forall (lt : C08.Model.range -> C08.Model.range -> bool) l,
  C08.Model.sort_stable lt (mapv l) = mapv (C08.Model.sort_stable lt l).
Proof.
  intros lt l. induction l as [|[r v] t IH]; [reflexivity|].
  cbn [mapv map C08.Model.sort_stable fold_right fst snd]. fold (mapv t).
  change (fold_right (C08.Model.insert_stable lt) [] (mapv t)) with (C08.Model.sort_stable lt (mapv t)).
  rewrite IH. apply insert_stable_map.
Qed.
Lemma insert_stable_all : forall (lt : C08.Model.range -> C08.Model.range -> bool) x l,
  P (snd x) -> allP l -> allP (C08.Model.insert_stable lt x l).
Proof.
  intros lt x l Hx Hl. induction l as [|y t IH]; cbn [C08.Model.insert_stable].
  - constructor; [exact Hx|constructor].
  - inversion Hl; subst. destruct (lt (fst y) (fst x)).
    + constructor; [assumption|apply IH; assumption].
    + constructor; [exact Hx|exact Hl].
Qed.
Lemma sort_stable_all : forall (lt : C08.Model.range -> C08.Model.range -> bool) l,
  allP l -> allP (C08.Model.sort_stable lt l).
Proof.
  intros lt l Hl. induction l as [|x t IH]; [constructor|].
  inversion Hl; subst. cbn [C08.Model.sort_stable fold_right]. apply insert_stable_all; [assumption|apply IH; assumption].
Qed.

Lemma merge_step_map : forall acc r v, allP acc -> P v ->
  C08.Model.merge_step eqbW (mapv acc) (r, g v) = mapv (C08.Model.merge_step eqbV acc (r, v)) /\
  allP (C08.Model.merge_step eqbV acc (r, v)).
Proof.
  intros acc r v Ha Hv. destruct acc as [|[lr lv] acc'].
  - split; [reflexivity|constructor; [exact Hv|constructor]].
  - inversion Ha as [|? ? Hlv Ht]; subst. cbn [snd] in Hlv.
    cbn [mapv map C08.Model.merge_step fst snd]. rewrite (Hg v lv Hv Hlv).
    destruct ((fst r <=? snd lr) && negb (eqbV v lv)).
    + split; [reflexivity|exact Ha].
    + destruct ((fst r <=? sat_add 64 (snd lr) 1) && eqbV v lv).
      * split; [reflexivity|constructor; [exact Hlv|exact Ht]].
      * split; [reflexivity|constructor; [exact Hv|exact Ha]].
Qed.
Lemma fold_merge_map : forall l acc, allP l -> allP acc ->
  fold_left (C08.Model.merge_step eqbW) (mapv l) (mapv acc) = mapv (fold_left (C08.Model.merge_step eqbV) l acc) /\
  allP (fold_left (C08.Model.merge_step eqbV) l acc).
Proof.
  induction l as [|[r v] t IH]; intros acc Hl Ha; [split; [reflexivity|exact Ha]|].
  inversion Hl as [|? ? Hv Ht]; subst. cbn [snd] in Hv.
  cbn [mapv map fold_left fst snd]. fold (mapv t).
  destruct (merge_step_map acc r v Ha Hv) as [E A]. rewrite E. apply IH; assumption.
Qed.
Lemma merge_sorted_map : forall l, allP l ->
  C08.Model.merge_sorted eqbW (mapv l) = mapv (C08.Model.merge_sorted eqbV l) /\ allP (C08.Model.merge_sorted eqbV l).
Proof.
  intros l Hl. unfold C08.Model.merge_sorted.
  destruct (fold_merge_map l [] Hl (Forall_nil _)) as [E A]. change (mapv []) with (@nil (C08.Model.range * W)) in E.
  rewrite E, mapv_rev. split; [reflexivity|]. unfold allP. apply Forall_rev. exact A.
Qed.

Lemma norm_step_map : forall acc disc r v, allP acc -> allP disc -> P v ->
  C08.Model.norm_step eqbW (mapv acc, mapv disc) (r, g v) =
    (mapv (fst (C08.Model.norm_step eqbV (acc, disc) (r, v))), mapv (snd (C08.Model.norm_step eqbV (acc, disc) (r, v)))) /\
  allP (fst (C08.Model.norm_step eqbV (acc, disc) (r, v))) /\ allP (snd (C08.Model.norm_step eqbV (acc, disc) (r, v))).
Proof.
  intros acc disc r v Ha Hd Hv. destruct acc as [|[lr lv] acc'].
  - cbn. split; [reflexivity|]. split; [constructor; [exact Hv|constructor]|exact Hd].
  - inversion Ha as [|? ? Hlv Ht]; subst. cbn [snd] in Hlv.
    cbn [mapv map C08.Model.norm_step fst snd]. rewrite (Hg v lv Hv Hlv).
    destruct ((fst r <=? snd lr) && negb (eqbV v lv)).
    + cbn [fst snd map]. split; [reflexivity|]. split; [exact Ha|constructor; [exact Hv|exact Hd]].
    + destruct ((fst r <=? sat_add 64 (snd lr) 1) && eqbV v lv); cbn [fst snd map].
      * split; [reflexivity|]. split; [constructor; [exact Hlv|exact Ht]|exact Hd].
      * split; [reflexivity|]. split; [constructor; [exact Hv|exact Ha]|exact Hd].
Qed.
Lemma fold_norm_map : forall l acc disc, allP l -> allP acc -> allP disc ->
  fold_left (C08.Model.norm_step eqbW) (mapv l) (mapv acc, mapv disc) =
    (mapv (fst (fold_left (C08.Model.norm_step eqbV) l (acc, disc))), mapv (snd (fold_left (C08.Model.norm_step eqbV) l (acc, disc)))).
Proof.
  induction l as [|[r v] t IH]; intros acc disc Hl Ha Hd; [reflexivity|].
  inversion Hl as [|? ? Hv Ht]; subst. cbn [snd] in Hv.
  cbn [mapv map fold_left fst snd]. fold (mapv t).
  destruct (norm_step_map acc disc r v Ha Hd Hv) as [E [A D]]. rewrite E.
  destruct (C08.Model.norm_step eqbV (acc, disc) (r, v)) as [acc1 disc1]. cbn [fst snd] in *.
  apply IH; assumption.
Qed.

Definition omapv (o : outcome (list (C08.Model.range * V))) : outcome (list (C08.Model.range * W)) :=
  match o with Ret l => Ret (mapv l) | Fail => Fail | Panic t => Panic t | OutOfFuel => OutOfFuel end.

Lemma try_from_iter_map : forall l, allP l ->
  C08.Model.rm_try_from_iter eqbW (mapv l) = omapv (C08.Model.rm_try_from_iter eqbV l).
Proof.
  intros l Hl. unfold C08.Model.rm_try_from_iter, C08.Model.rm_normalize.
  rewrite sort_stable_map.
  pose proof (fold_norm_map (C08.Model.sort_stable C08.Model.range_lt l) [] []
                (sort_stable_all _ _ Hl) (Forall_nil _) (Forall_nil _)) as E.
  change (mapv []) with (@nil (C08.Model.range * W)) in E. rewrite E.
  destruct (fold_left (C08.Model.norm_step eqbV) (C08.Model.sort_stable C08.Model.range_lt l) ([], [])) as [acc disc].
  cbn [fst snd]. rewrite <- !mapv_rev.
  destruct (rev disc) as [|d0 dt]; reflexivity.
Qed.

Theorem build_p_map : forall l, allP l ->
  C08.Model.build_p eqbW (mapv l) = omapv (C08.Model.build_p eqbV l).
Proof.
  intros l Hl. unfold C08.Model.build_p, C08.Model.into_rangemap_safe_p.
  rewrite sort_stable_map.
  destruct (merge_sorted_map _ (sort_stable_all C08.Model.range_lt l Hl)) as [E A]. rewrite E.
  apply try_from_iter_map. exact A.
Qed.

(* lookups only look at the ranges *)
Lemma nth_error_mapv : forall l n, nth_error (mapv l) n = option_map (fun e => (fst e, g (snd e))) (nth_error l n).
Proof. intros. unfold mapv. apply nth_error_map. Qed.
Lemma bsearch_map : forall fuel l x b sz,
  C08.Model.bsearch_loop fuel (mapv l) x b sz = C08.Model.bsearch_loop fuel l x b sz.
Proof.
  induction fuel as [|f IH]; intros l x b sz; [reflexivity|].
  cbn [C08.Model.bsearch_loop]. destruct (Nat.leb sz 1); [reflexivity|].
  rewrite nth_error_mapv. destruct (nth_error l (b + Nat.div2 sz)) as [[r v]|]; cbn [option_map fst snd]; apply IH.
Qed.
Lemma rm_get_unfold : forall {X : Type} (l : list (C08.Model.range * X)) x,
  C08.Model.rm_get l x =
    match nth_error l (C08.Model.bsearch_loop (length l) l x 0%nat (length l)) with
    | Some (r, v) => match C08.Model.range_cmp_pt r x with C08.Model.OEqual => Some v | _ => None end
    | None => None
    end.
Proof.
  intros X l x. destruct l as [|e t]; [|reflexivity].
  cbn [C08.Model.rm_get length C08.Model.bsearch_loop]. reflexivity.
Qed.
Theorem rm_get_map : forall l x, C08.Model.rm_get (mapv l) x = option_map g (C08.Model.rm_get l x).
Proof.
  intros l x. rewrite !rm_get_unfold.
  replace (length (mapv l)) with (length l) by (unfold mapv; symmetry; apply map_length).
  rewrite bsearch_map, nth_error_mapv.
  destruct (nth_error l _) as [[r v]|]; cbn [option_map fst snd]; [|reflexivity].
  destruct (C08.Model.range_cmp_pt r x); reflexivity.
Qed.
End Param.
