(* C07/Proofs5.v — the byte-level line grammar (C09) and the record-level model agree on STACK WIN lines. *)
From Coq Require Import Lia.
From RM Require Import C06.Model C06.Proofs C07.Model C07.Text.
From RM Require C09.Grammar.
Import ListNotations.
Open Scope Z_scope.

Definition counts_pos (s : C09.Grammar.rle) : Prop := Forall (fun bc => 1 <= snd bc) s.

Lemma rev_append_pos : forall a b, counts_pos a -> counts_pos b -> counts_pos (rev_append a b).
Proof.
  induction a as [|x a IH]; intros b Ha Hb; cbn [rev_append]; [exact Hb|].
  inversion Ha; subst. apply IH; [assumption|constructor; assumption].
Qed.
Lemma norm_acc_pos : forall s acc, counts_pos acc -> counts_pos (C09.Grammar.rle_norm_acc s acc).
Proof.
  induction s as [|[b c] t IH]; intros acc Ha; cbn [C09.Grammar.rle_norm_acc].
  - apply rev_append_pos; [exact Ha|constructor].
  - destruct acc as [|[b0 c0] acc'].
    + apply IH. constructor; [cbn; lia|constructor].
    + inversion Ha as [|? ? H0 Hr]; subst. cbn [snd] in H0. destruct (b0 =? b).
      * apply IH. constructor; [cbn; lia|exact Hr].
      * apply IH. constructor; [cbn; lia|exact Ha].
Qed.
(* every string field the line parsers return is in this form *)
Lemma norm_pos : forall s, counts_pos (C09.Grammar.rle_norm s).
Proof. intro s. apply norm_acc_pos. constructor. Qed.

Lemma rep_S : forall b n, rep b (S n) = b :: rep b n.
Proof. reflexivity. Qed.

Lemma is_one_agree : forall rest, counts_pos rest ->
  C09.Grammar.rle_eqb rest [(49, 1)] = beq (unrle rest) [49].
Proof.
  intros rest H. destruct rest as [|[b c] [|[b2 c2] t]].
  - reflexivity.
  - inversion H as [|? ? Hc _]; subst. cbn [snd] in Hc.
    cbn [C09.Grammar.rle_eqb unrle flat_map fst snd app]. rewrite app_nil_r.
    replace (Z.max 1 c) with c by lia.
    destruct (Z.eq_dec c 1) as [->|Hne].
    + change (Z.to_nat 1) with 1%nat. cbn [rep beq]. rewrite Z.eqb_refl, !andb_true_r. reflexivity.
    + replace (c =? 1) with false by (symmetry; apply Z.eqb_neq; exact Hne).
      rewrite andb_false_r. cbn [andb].
      assert (Hn : exists k, Z.to_nat c = S (S k)).
      { exists (Z.to_nat c - 2)%nat. lia. }
      destruct Hn as [k ->]. rewrite !rep_S. cbn [beq]. rewrite andb_false_r. reflexivity.
  - inversion H as [|? ? Hc Hr]; subst. inversion Hr as [|? ? Hc2 _]; subst. cbn [snd] in Hc, Hc2.
    cbn [C09.Grammar.rle_eqb]. rewrite andb_false_r.
    cbn [unrle flat_map fst snd].
    assert (H1 : exists k, Z.to_nat (Z.max 1 c) = S k) by (exists (Z.to_nat (Z.max 1 c) - 1)%nat; lia).
    assert (H2 : exists k, Z.to_nat (Z.max 1 c2) = S k) by (exists (Z.to_nat (Z.max 1 c2) - 1)%nat; lia).
    destruct H1 as [k1 ->]. destruct H2 as [k2 ->]. rewrite !rep_S. cbn [app beq].
    destruct (rep b k1) as [|x r1]; cbn [app beq]; rewrite andb_false_r; reflexivity.
Qed.

(* the tail of stack_win_line: C09's byte-level recogniser and this directory's record constructor
   build the same record *)
Theorem text_record_agree : forall ty a sz pro epi par sav loc mx hp rest,
  counts_pos rest ->
  conv_frame_type (C09.Grammar.win_of_fields ty a sz pro epi par sav loc mx hp rest) =
  stack_win_line ty a sz pro epi par sav loc mx hp (unrle rest).
Proof.
  intros ty a sz pro epi par sav loc mx hp rest Hp.
  unfold C09.Grammar.win_of_fields, stack_win_line.
  destruct (negb (Bool.eqb (ty =? 52) (hp =? 49))); [reflexivity|].
  rewrite <- (is_one_agree rest Hp).
  destruct (ty =? 52); cbn [conv_frame_type conv_win conv_thing C09.Grammar.wi_addr C09.Grammar.wi_size
    C09.Grammar.wi_prolog C09.Grammar.wi_epilog C09.Grammar.wi_params C09.Grammar.wi_saved C09.Grammar.wi_locals
    C09.Grammar.wi_maxstack C09.Grammar.wi_thing]; [reflexivity|].
  destruct (ty =? 48); reflexivity.
Qed.
