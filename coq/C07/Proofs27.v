(* C07/Proofs27.v — second pass of round 5: c07_table_ascending's lookup as a selection RULE (the one the oracle's
   independent `select_ascending` implements): in an address-sorted list the record answering x is the LAST one starting
   at or before x, provided it reaches x as written; it is returned cut to end before the next record's start. *)
From Coq Require Import Lia Bool.
From RM Require Import Base.Word C06.Model C06.Proofs C07.Model C07.Proofs C07.Proofs4 C07.Proofs24.
From RM Require C08.Model C08.Proofs.
Import ListNotations.
Open Scope Z_scope.

Fixpoint sel_asc (l : list win_info) (x : Z) : option win_info :=
  match l with
  | [] => None
  | r :: t =>
      match t with
      | r' :: _ =>
          if w_addr r' <=? x then sel_asc t x
          else if (w_addr r <=? x) && (x <? w_addr r + w_size r)
               then Some (set_size r (Z.min (w_size r) (w_addr r' - w_addr r))) else None
      | [] => if (w_addr r <=? x) && (x <? w_addr r + w_size r) then Some r else None
      end
  end.

Lemma spec_lookup_cons : forall c rest x,
  table_spec_lookup (c :: rest) x =
  match win_range c with
  | Some rg => if C08.Model.contains rg x then Some c else table_spec_lookup rest x
  | None => table_spec_lookup rest x
  end.
Proof.
  intros c rest x. unfold table_spec_lookup. rewrite keep_cons.
  destruct (win_range c) as [rg|]; [|reflexivity]. cbn [app filter fst].
  destruct (C08.Model.contains rg x); reflexivity.
Qed.

Lemma spec_lookup_none : forall l x,
  (forall e, In e (keep l) -> C08.Model.contains (fst e) x = false) -> table_spec_lookup l x = None.
Proof.
  intros l x H. unfold table_spec_lookup.
  assert (E : filter (fun e => C08.Model.contains (fst e) x) (keep l) = []).
  { induction (keep l) as [|e t IH]; [reflexivity|]. cbn [filter]. rewrite (H e (or_introl eq_refl)).
    apply IH. intros e' He'. apply H. right. exact He'. }
  rewrite E. reflexivity.
Qed.

Theorem ascending_rule : forall l x,
  Forall has_range l -> ascending l -> table_spec_lookup (clip_list l) x = sel_asc l x.
Proof.
  induction l as [|r t IH]; intros x Hl Ha; [reflexivity|].
  inversion Hl as [|? ? Hr Ht]; subst. destruct t as [|r' t'].
  - cbn [clip_list sel_asc]. rewrite spec_lookup_cons, (has_range_range r Hr).
    change (table_spec_lookup [] x) with (@None win_info).
    unfold C08.Model.contains, rng_of. cbn [fst snd].
    replace (x <=? w_addr r + w_size r - 1) with (x <? w_addr r + w_size r)
      by (destruct (x <? w_addr r + w_size r) eqn:A; symmetry; [apply Z.leb_le; apply Z.ltb_lt in A; lia|apply Z.leb_gt; apply Z.ltb_ge in A; lia]).
    reflexivity.
  - destruct Ha as [Hlt Ha'].
    change (clip_list (r :: r' :: t')) with (set_size r (Z.min (w_size r) (w_addr r' - w_addr r)) :: clip_list (r' :: t')).
    change (sel_asc (r :: r' :: t') x) with
      (if w_addr r' <=? x then sel_asc (r' :: t') x
       else if (w_addr r <=? x) && (x <? w_addr r + w_size r)
            then Some (set_size r (Z.min (w_size r) (w_addr r' - w_addr r))) else None).
    assert (Hc : has_range (set_size r (Z.min (w_size r) (w_addr r' - w_addr r)))).
    { apply has_range_clip; [exact Hr|]. destruct Hr as [_ [Hp _]]. lia. }
    rewrite spec_lookup_cons, (has_range_range _ Hc).
    unfold C08.Model.contains, rng_of. cbn [fst snd set_size w_addr w_size].
    destruct (w_addr r' <=? x) eqn:Ex.
    + apply Z.leb_le in Ex.
      replace (x <=? w_addr r + Z.min (w_size r) (w_addr r' - w_addr r) - 1) with false by (symmetry; apply Z.leb_gt; lia).
      rewrite andb_false_r. apply IH; assumption.
    + apply Z.leb_gt in Ex.
      rewrite (spec_lookup_none (clip_list (r' :: t')) x).
      2:{ intros e He. pose proof (clip_starts t' r' e Ht Ha' He) as Hs.
          unfold C08.Model.contains. apply andb_false_iff. left. apply Z.leb_gt. lia. }
      replace (x <=? w_addr r + Z.min (w_size r) (w_addr r' - w_addr r) - 1) with (x <? w_addr r + w_size r).
      2:{ destruct (x <? w_addr r + w_size r) eqn:A; symmetry; [apply Z.leb_le; apply Z.ltb_lt in A; lia|apply Z.leb_gt; apply Z.ltb_ge in A; lia]. }
      reflexivity.
Qed.

Corollary table_ascending_rule : forall l,
  Forall has_range l -> ascending l ->
  exists t, win_table l = Ret t /\ forall x, C08.Model.rm_get t x = sel_asc l x.
Proof.
  intros l Hl Ha. destruct (table_ascending l Hl Ha) as [_ [_ [t [Ht Hx]]]].
  exists t. split; [exact Ht|]. intro x. rewrite Hx. apply ascending_rule; assumption.
Qed.
