(* C07/Proofs14.v — the Gallina COMPILED from walker.rs (Gen/C07WinEval.v, translate/c07_win_eval.py) is, function by
   function and for all arguments, the hand-written model of C07/Model.v that every other theorem is about. *)
From RM Require Import Base.Word C06.Model C07.Model Gen.C07WinEval.
Open Scope Z_scope.

Ltac unfold_names :=
  unfold N_esp, N_ebp, N_ebx, N_eip, N_esi, N_edi, D_esp, D_ebp, D_ebx, D_eip, D_esi, D_edi,
         V_cbParams, V_cbCalleeParams, V_cbSavedRegs, V_cbLocals, V_raSearch, V_raSearchStart,
         T_eq, T_plus, T_minus, T_star, T_slash, T_pct, T_at, T_caret, T_undef in *.

Ltac split_matches :=
  repeat match goal with
         | |- context [match ?x with _ => _ end] =>
             match x with
             | context [match _ with _ => _ end] => fail 1
             | _ => destruct x eqn:?
             end
         end.

Lemma g_frame_size_eq : forall i g, g_win_frame_size i g = win_frame_size i g.
Proof. intros. unfold g_win_frame_size, win_frame_size. destruct (checked_add 32 (w_locals i) (w_saved i)); reflexivity. Qed.

Lemma g_clear_names_eq : g_clear_names = win_clear_names.
Proof. reflexivity. Qed.

Lemma g_outputs_eq : g_win_outputs = win_outputs.
Proof. reflexivity. Qed.

Lemma g_initial_eq : forall E i e, g_win_initial_vars E i e = win_initial_vars E i e.
Proof.
  intros. unfold g_win_initial_vars, win_initial_vars, contains_at. rewrite g_frame_size_eq. unfold_names.
  destruct (e_callee E [101; 115; 112]); [|reflexivity].
  destruct (e_callee E [101; 98; 112]); [|reflexivity].
  destruct (win_frame_size i (e_gcps E)); [|reflexivity].
  destruct (e_callee E [101; 98; 120]); destruct (existsb (fun c => c =? 64) e);
    match goal with |- context [checked_add 32 ?a ?b] => destruct (checked_add 32 a b) end; reflexivity.
Qed.

Lemma starts_var_eq : forall t, g_starts_with t 36 || g_starts_with t 46 = starts_var t.
Proof. destruct t; reflexivity. Qed.

Lemma g_step_eq : forall p E t ms, g_win_step p E t ms = win_step p E t ms.
Proof.
  intros p E t [m st]. unfold g_win_step, win_step, wbin. unfold_names.
  destruct (beq t [43]). { destruct st as [|a [|b st]]; try reflexivity; destruct (into_int m a); try reflexivity; destruct (into_int m b); reflexivity. }
  destruct (beq t [45]). { destruct st as [|a [|b st]]; try reflexivity; destruct (into_int m a); try reflexivity; destruct (into_int m b); reflexivity. }
  destruct (beq t [42]). { destruct st as [|a [|b st]]; try reflexivity; destruct (into_int m a); try reflexivity; destruct (into_int m b); reflexivity. }
  destruct (beq t [47]).
  { destruct st as [|a [|b st]]; try reflexivity; destruct (into_int m a) as [r|]; try reflexivity; destruct (into_int m b); try reflexivity.
    unfold g_div. destruct (r =? 0); reflexivity. }
  destruct (beq t [37]).
  { destruct st as [|a [|b st]]; try reflexivity; destruct (into_int m a) as [r|]; try reflexivity; destruct (into_int m b); try reflexivity.
    unfold g_rem. destruct (r =? 0); reflexivity. }
  destruct (beq t [64]).
  { destruct st as [|a [|b st]]; try reflexivity; destruct (into_int m a) as [r|]; try reflexivity; destruct (into_int m b); try reflexivity.
    destruct ((r =? 0) || negb (is_pow2 r)); [reflexivity|]. destruct (chk_usub p PANIC_WIN_SUB r 1); reflexivity. }
  destruct (beq t [61]).
  { destruct st as [|a [|b st]]; try reflexivity; destruct (into_var b); try reflexivity; destruct a; reflexivity. }
  destruct (beq t [94]).
  { destruct st as [|a st]; try reflexivity; destruct (into_int m a) as [z|]; try reflexivity; destruct (e_mem E z); reflexivity. }
  destruct (beq t [46; 117; 110; 100; 101; 102]); [reflexivity|].
  rewrite starts_var_eq. destruct (starts_var t); [reflexivity|]. destruct (parse_int 64 t); reflexivity.
Qed.

Lemma g_fpo_eq : forall S (ops : wops S) E i abp s, g_walk_win_fpo ops E i abp s = walk_win_fpo ops E i abp s.
Proof.
  intros. unfold g_walk_win_fpo, walk_win_fpo. rewrite g_frame_size_eq, g_clear_names_eq. unfold_names.
  set (s0 := clear_all ops win_clear_names s).
  destruct (win_frame_size i (e_gcps E)) as [fs|]; [|reflexivity].
  destruct (e_callee E [101; 115; 112]) as [esp|]; [|reflexivity].
  destruct (checked_add 64 esp fs) as [a0|]; [|reflexivity].
  destruct (e_mem E a0) as [eip0|]; [|reflexivity].
  destruct (e_has_gc E); simpl negb; cbv iota.
  - destruct (checked_add 64 a0 4); [|reflexivity].
    destruct abp.
    + destruct (checked_add 64 esp (e_gcps E)) as [b1|]; [|reflexivity].
      destruct (checked_add 64 b1 (w_saved i)) as [b2|]; [|reflexivity].
      destruct (checked_sub b2 8) as [b3|]; [|reflexivity].
      destruct (e_mem E b3); [|reflexivity].
      destruct (o_set ops s0 [101; 105; 112] eip0) as [s2|]; [|reflexivity].
      destruct (o_set ops s2 [101; 115; 112] z) as [s3|]; [|reflexivity].
      destruct (o_set ops s3 [101; 98; 112] z0); reflexivity.
    + destruct (e_callee E [101; 98; 120]) as [bx|].
      * destruct (o_set ops s0 [101; 98; 120] bx) as [s1|]; [|reflexivity].
        destruct (e_callee E [101; 98; 112]) as [bp|]; [|reflexivity].
        destruct (o_set ops s1 [101; 105; 112] eip0) as [s2|]; [|reflexivity].
        destruct (o_set ops s2 [101; 115; 112] z) as [s3|]; [|reflexivity].
        destruct (o_set ops s3 [101; 98; 112] bp); reflexivity.
      * destruct (e_callee E [101; 98; 112]) as [bp|]; [|reflexivity].
        destruct (o_set ops s0 [101; 105; 112] eip0) as [s2|]; [|reflexivity].
        destruct (o_set ops s2 [101; 115; 112] z) as [s3|]; [|reflexivity].
        destruct (o_set ops s3 [101; 98; 112] bp); reflexivity.
  - destruct (e_callee E [101; 105; 112]) as [ce|]; [|reflexivity].
    destruct (eip0 =? ce).
    + destruct (checked_add 64 a0 4) as [a1|]; [|reflexivity].
      destruct (e_mem E a1) as [eip1|]; [|reflexivity].
      destruct (checked_add 64 a1 4); [|reflexivity].
      destruct abp.
      * destruct (checked_add 64 esp (e_gcps E)) as [b1|]; [|reflexivity].
        destruct (checked_add 64 b1 (w_saved i)) as [b2|]; [|reflexivity].
        destruct (checked_sub b2 8) as [b3|]; [|reflexivity].
        destruct (e_mem E b3); [|reflexivity].
        destruct (o_set ops s0 [101; 105; 112] eip1) as [s2|]; [|reflexivity].
        destruct (o_set ops s2 [101; 115; 112] z) as [s3|]; [|reflexivity].
        destruct (o_set ops s3 [101; 98; 112] z0); reflexivity.
      * destruct (e_callee E [101; 98; 120]) as [bx|].
        -- destruct (o_set ops s0 [101; 98; 120] bx) as [s1|]; [|reflexivity].
           destruct (e_callee E [101; 98; 112]) as [bp|]; [|reflexivity].
           destruct (o_set ops s1 [101; 105; 112] eip1) as [s2|]; [|reflexivity].
           destruct (o_set ops s2 [101; 115; 112] z) as [s3|]; [|reflexivity].
           destruct (o_set ops s3 [101; 98; 112] bp); reflexivity.
        -- destruct (e_callee E [101; 98; 112]) as [bp|]; [|reflexivity].
           destruct (o_set ops s0 [101; 105; 112] eip1) as [s2|]; [|reflexivity].
           destruct (o_set ops s2 [101; 115; 112] z) as [s3|]; [|reflexivity].
           destruct (o_set ops s3 [101; 98; 112] bp); reflexivity.
    + destruct (checked_add 64 a0 4); [|reflexivity].
      destruct abp.
      * destruct (checked_add 64 esp (e_gcps E)) as [b1|]; [|reflexivity].
        destruct (checked_add 64 b1 (w_saved i)) as [b2|]; [|reflexivity].
        destruct (checked_sub b2 8) as [b3|]; [|reflexivity].
        destruct (e_mem E b3); [|reflexivity].
        destruct (o_set ops s0 [101; 105; 112] eip0) as [s2|]; [|reflexivity].
        destruct (o_set ops s2 [101; 115; 112] z) as [s3|]; [|reflexivity].
        destruct (o_set ops s3 [101; 98; 112] z0); reflexivity.
      * destruct (e_callee E [101; 98; 120]) as [bx|].
        -- destruct (o_set ops s0 [101; 98; 120] bx) as [s1|]; [|reflexivity].
           destruct (e_callee E [101; 98; 112]) as [bp|]; [|reflexivity].
           destruct (o_set ops s1 [101; 105; 112] eip0) as [s2|]; [|reflexivity].
           destruct (o_set ops s2 [101; 115; 112] z) as [s3|]; [|reflexivity].
           destruct (o_set ops s3 [101; 98; 112] bp); reflexivity.
        -- destruct (e_callee E [101; 98; 112]) as [bp|]; [|reflexivity].
           destruct (o_set ops s0 [101; 105; 112] eip0) as [s2|]; [|reflexivity].
           destruct (o_set ops s2 [101; 115; 112] z) as [s3|]; [|reflexivity].
           destruct (o_set ops s3 [101; 98; 112] bp); reflexivity.
Qed.

(* ---- the assembled functions ---- *)
From RM Require Import C07.Source.

Lemma src_loop_eq : forall p E toks ms, src_win_loop p E toks ms = win_loop p E toks ms.
Proof. induction toks as [|t r IH]; intros; simpl; [reflexivity|]. rewrite g_step_eq. destruct (win_step p E t ms); simpl; auto. Qed.

Lemma src_final_vars_eq : forall p E i e, src_win_final_vars p E i e = win_final_vars p E i e.
Proof. intros. unfold src_win_final_vars, win_final_vars. rewrite g_initial_eq. destruct (win_initial_vars E i e); [|reflexivity]. rewrite src_loop_eq. reflexivity. Qed.

Lemma src_framedata_eq : forall S (ops : wops S) p E i e s, src_walk_win_framedata ops p E i e s = walk_win_framedata ops p E i e s.
Proof. intros. unfold src_walk_win_framedata, walk_win_framedata. rewrite src_final_vars_eq, g_clear_names_eq, g_outputs_eq. reflexivity. Qed.

Lemma src_walk_frame_eq : forall S (ops : wops S) p E f s, src_walk_frame ops p E f s = walk_frame ops p E f s.
Proof.
  intros. unfold src_walk_frame, walk_frame.
  destruct (win_table (sf_framedata f)) as [fd| | |]; simpl; try reflexivity.
  destruct (win_table (sf_fpo f)) as [fp| | |]; simpl; try reflexivity.
  destruct (C08.Model.rm_get fd (e_instr E)) as [i|].
  - destruct (w_thing i); [rewrite src_framedata_eq|]; reflexivity.
  - destruct (C08.Model.rm_get fp (e_instr E)) as [i|]; [|reflexivity].
    destruct (w_thing i); [reflexivity|]. rewrite g_fpo_eq. reflexivity.
Qed.
