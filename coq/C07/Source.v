(* C07/Source.v — STACK WIN evaluation assembled from the functions COMPILED out of walker.rs
   (Gen/C07WinEval.v, regenerated on every run by translate/c07_win_eval.py): the glue around them is what the
   translator pins textually (the token loop, the output loop, walk_with_stack_win_framedata, and
   SymbolFile::walk_frame's framedata > fpo > STACK CFI order).  Definitions only. *)
From RM Require Import Base.Word C06.Model C07.Model Gen.C07WinEval.
From RM Require C08.Model.
Open Scope Z_scope.

(* for token in tokens { match token { .. } } *)
Fixpoint src_win_loop (p : profile) (E : env) (toks : list bytes) (ms : vars * list winval) : outcome (vars * list winval) :=
  match toks with
  | [] => Ret ms
  | t :: r => do ms' <- g_win_step p E t ms; src_win_loop p E r ms'
  end.

(* eval_win_expr up to (not including) the output loop: the variables after the program; Ret None = Option::None *)
Definition src_win_final_vars (p : profile) (E : env) (i : win_info) (e : bytes) : outcome (option vars) :=
  match g_win_initial_vars E i e with
  | None => Ret None
  | Some m =>
      match src_win_loop p E (win_tokens e) (m, []) with
      | Ret (m', _) => Ret (Some m')
      | Fail => Ret None
      | Panic t => Panic t
      | OutOfFuel => OutOfFuel
      end
  end.

(* walk_with_stack_win_framedata: clear, evaluate, set the outputs *)
Definition src_walk_win_framedata {S} (ops : wops S) (p : profile) (E : env) (i : win_info) (e : bytes) (s : S)
  : outcome (S * bool) :=
  let s0 := clear_all ops g_clear_names s in
  do fv <- src_win_final_vars p E i e;
  match fv with
  | None => Ret (s0, false)
  | Some m => Ret (set_outputs ops g_win_outputs m s0)
  end.

(* SymbolFile::walk_frame *)
Definition src_walk_frame {S} (ops : wops S) (p : profile) (E : env) (f : symfile) (s : S) : outcome (option S) :=
  let addr := e_instr E in
  do fd <- win_table (sf_framedata f);
  do fp <- win_table (sf_fpo f);
  do wr <- match C08.Model.rm_get fd addr with
           | Some i =>
               match w_thing i with
               | ProgramString e => src_walk_win_framedata ops p E i e s
               | _ => Panic PANIC_WIN_UNREACHABLE
               end
           | None =>
               match C08.Model.rm_get fp addr with
               | Some i =>
                   match w_thing i with
                   | AllocatesBasePointer b => Ret (g_walk_win_fpo ops E i b s)
                   | _ => Panic PANIC_WIN_UNREACHABLE
                   end
               | None => Ret (s, false)
               end
           end;
  let '(s1, okw) := wr in
  if okw then Ret (Some s1)
  else match sf_cfi f with
       | Some r => walk_frame_cfi ops p E r addr s1
       | None => Ret None
       end.
