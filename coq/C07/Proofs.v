(* C07/Proofs.v — STACK WIN: totality, the six outputs, no forwarding (with the known finding). *)
From Coq Require Import String Lia.
From RM Require Import C06.Model C06.Proofs C07.Model.
From RM Require C08.Model C08.Proofs.
Import ListNotations.
Open Scope Z_scope.

Lemma consts7_ok :
  N_esp = bs "esp" /\ N_ebp = bs "ebp" /\ N_ebx = bs "ebx" /\ N_eip = bs "eip" /\ N_esi = bs "esi" /\ N_edi = bs "edi" /\
  D_esp = bs "$esp" /\ D_ebp = bs "$ebp" /\ D_ebx = bs "$ebx" /\ D_eip = bs "$eip" /\ D_esi = bs "$esi" /\ D_edi = bs "$edi" /\
  V_cbParams = bs ".cbParams" /\ V_cbCalleeParams = bs ".cbCalleeParams" /\ V_cbSavedRegs = bs ".cbSavedRegs" /\
  V_cbLocals = bs ".cbLocals" /\ V_raSearch = bs ".raSearch" /\ V_raSearchStart = bs ".raSearchStart" /\ T_eq = bs "=".
Proof. repeat split; reflexivity. Qed.

(* ---- no panic in the evaluator ---- *)
Lemma wbin_ok : forall m st f, (forall l r, ok (f l r)) -> ok (wbin m st f).
Proof.
  intros m st f Hf. unfold wbin. destruct st as [|r st1]; [exact I|].
  destruct (into_int m r); [|exact I]. destruct st1 as [|l st2]; [exact I|].
  destruct (into_int m l); [|exact I]. apply ok_bind; [apply Hf|]. intros; exact I.
Qed.

Lemma win_step_ok : forall p E t ms, ok (win_step p E t ms).
Proof.
  intros p E t [m st]. unfold win_step.
  destruct (beq t T_plus). { apply wbin_ok. intros; exact I. }
  destruct (beq t T_minus). { apply wbin_ok. intros; exact I. }
  destruct (beq t T_star). { apply wbin_ok. intros; exact I. }
  destruct (beq t T_slash). { apply wbin_ok. intros l r. destruct (r =? 0); exact I. }
  destruct (beq t T_pct). { apply wbin_ok. intros l r. destruct (r =? 0); exact I. }
  destruct (beq t T_at).
  { apply wbin_ok. intros l r. destruct (r =? 0) eqn:E0; cbn [orb]; [exact I|].
    destruct (is_pow2 r) eqn:Ep; cbn [negb]; [|exact I].
    apply is_pow2_pos in Ep. unfold chk_usub.
    replace (0 <=? r - 1) with true by (symmetry; apply Z.leb_le; lia). exact I. }
  destruct (beq t T_eq).
  { destruct st as [|rhs [|lhs st2]]; try exact I. destruct (into_var lhs); [|exact I].
    destruct rhs; try exact I; destruct (into_int m _); exact I. }
  destruct (beq t T_caret).
  { destruct st as [|x st1]; [exact I|]. destruct (into_int m x); [|exact I]. destruct (e_mem E z); exact I. }
  destruct (beq t T_undef). { exact I. }
  destruct (starts_var t). { exact I. }
  destruct (parse_int 64 t); exact I.
Qed.

Lemma win_loop_ok : forall p E toks ms, ok (win_loop p E toks ms).
Proof.
  induction toks as [|t r IH]; intro ms; cbn [win_loop]; [exact I|].
  apply ok_bind; [apply win_step_ok|]. intros; apply IH.
Qed.

Lemma win_final_vars_total : forall p E i e, exists r, win_final_vars p E i e = Ret r.
Proof.
  intros. unfold win_final_vars. destruct (win_initial_vars E i e) as [m|]; [|eexists; reflexivity].
  pose proof (win_loop_ok p E (win_tokens e) (m, [])) as H.
  destruct (win_loop p E (win_tokens e) (m, [])) as [[m' st]| | |]; cbn in H; try contradiction; eexists; reflexivity.
Qed.

Lemma framedata_total : forall S (ops : wops S) p E i e s,
  exists r, walk_win_framedata ops p E i e s = Ret r.
Proof.
  intros. unfold walk_win_framedata. destruct (win_final_vars_total p E i e) as [fv H]. rewrite H.
  cbn [obind]. destruct fv; eexists; reflexivity.
Qed.

(* ---- insert_win_stack_info: the unwrap cannot fail ---- *)
Definition win_wf (i : win_info) : Prop := 0 <= w_addr i < two64 /\ 0 <= w_size i < two32.
Definition acc_wf (acc : list (C08.Model.range * win_info)) : Prop :=
  Forall (fun e => win_range (snd e) = Some (fst e) /\ win_wf (snd e)) acc.

Lemma win_range_inv : forall i r, win_range i = Some r ->
  w_size i <> 0 /\ w_addr i + w_size i < 2 ^ 64 /\ r = (w_addr i, w_addr i + w_size i - 1).
Proof.
  intros i r H. unfold win_range, C08.Model.mk_range, checked_add in H.
  destruct (w_size i =? 0) eqn:E0; [discriminate|]. apply Z.eqb_neq in E0.
  destruct (w_addr i + w_size i <? 2 ^ 64) eqn:E1; [|discriminate]. apply Z.ltb_lt in E1.
  inversion H. auto.
Qed.

Lemma insert_win_ok : forall acc i, acc_wf acc -> win_wf i ->
  exists acc', insert_win acc i = Ret acc' /\ acc_wf acc'.
Proof.
  intros acc i Hacc Hi. unfold insert_win.
  destruct (win_range i) as [mr|] eqn:Er; [|eexists; split; [reflexivity|exact Hacc]].
  assert (Hnew : win_range (snd (mr, i)) = Some (fst (mr, i)) /\ win_wf (snd (mr, i))) by (cbn; auto).
  destruct acc as [|[lr li] rest]; [eexists; split; [reflexivity|constructor; [exact Hnew|constructor]]|].
  inversion Hacc as [|? ? [Hl1 Hl2] Hrest]; subst. cbn [fst snd] in Hl1, Hl2.
  destruct (C08.Model.intersects lr mr) eqn:Ei;
    [|eexists; split; [reflexivity|constructor; [exact Hnew|exact Hacc]]].
  destruct (w_addr i >? w_addr li) eqn:Eg.
  - destruct (win_range_inv _ _ Hl1) as [A1 [A2 A3]]. destruct (win_range_inv _ _ Er) as [B1 [B2 B3]].
    subst lr mr. unfold C08.Model.intersects in Ei. cbn [fst snd] in Ei.
    apply andb_prop in Ei. destruct Ei as [Ei1 Ei2]. apply Z.leb_le in Ei1. apply Z.leb_le in Ei2.
    apply Z.gtb_lt in Eg. destruct Hl2 as [[La1 La2] [Ls1 Ls2]]. destruct Hi as [[Ia1 Ia2] [Is1 Is2]].
    set (d := w_addr i - w_addr li).
    assert (Hd : 0 < d <= w_size li - 1) by (unfold d; lia).
    assert (Hw : wrap32 d = d). { unfold wrap32. apply Z.mod_small. unfold two32 in *. lia. }
    rewrite Hw.
    assert (Hr : win_range (set_size li d) = Some (w_addr li, w_addr li + d - 1)).
    { unfold win_range, set_size, C08.Model.mk_range, checked_add. cbn [w_addr w_size].
      replace (d =? 0) with false by (symmetry; apply Z.eqb_neq; lia).
      replace (w_addr li + d <? 2 ^ 64) with true by (symmetry; apply Z.ltb_lt; lia). reflexivity. }
    rewrite Hr. eexists; split; [reflexivity|].
    constructor; [cbn; auto|]. constructor; [|exact Hrest].
    cbn [fst snd]. split; [exact Hr|]. unfold win_wf, set_size. cbn [w_addr w_size]. unfold two32 in *. lia.
  - destruct (negb (range_eqb lr mr)); eexists; (split; [reflexivity|]); [exact Hacc|constructor; [exact Hnew|exact Hacc]].
Qed.

Lemma insert_all_ok : forall l acc, acc_wf acc -> Forall win_wf l ->
  exists acc', insert_all l acc = Ret acc' /\ acc_wf acc'.
Proof.
  induction l as [|i r IH]; intros acc Hacc Hl; cbn [insert_all]; [eexists; split; [reflexivity|exact Hacc]|].
  inversion Hl; subst. destruct (insert_win_ok acc i Hacc H1) as [acc1 [E1 W1]]. rewrite E1. cbn [obind].
  apply IH; assumption.
Qed.

Lemma acc_wf_ranges : forall acc, acc_wf acc -> C08.Proofs.wf_ranges (rev acc).
Proof.
  intros acc H. unfold C08.Proofs.wf_ranges. apply Forall_rev.
  eapply Forall_impl; [|exact H]. intros [r i] [H1 [[A1 A2] [S1 S2]]]. cbn [fst snd] in *.
  unfold win_range in H1. eapply C08.Proofs.mk_range_wf; [| |exact H1]; lia.
Qed.

Lemma win_table_total : forall l, Forall win_wf l -> exists t, win_table l = Ret t.
Proof.
  intros l Hl. unfold win_table. destruct (insert_all_ok l [] (Forall_nil _) Hl) as [acc [E W]].
  rewrite E. cbn [obind]. rewrite (C08.Proofs.build_total_p win_eqb (rev acc) (acc_wf_ranges acc W)).
  eexists; reflexivity.
Qed.

(* ---- the real x86 walker: which registers can be valid after a STACK WIN walk ---- *)
Definition dollar (n : bytes) : bytes := 36 :: n.
Definition is_set (n : bytes) (m : vars) : bool :=
  match vget (dollar n) m with Some _ => true | None => false end.
Definition six : list bytes := [N_eip; N_esp; N_ebp; N_ebx; N_esi; N_edi].

Lemma outputs_dollar : win_outputs = map (fun n => (dollar n, n)) six.
Proof. reflexivity. Qed.

(* clear_stack_win_caller_registers does nothing on the real walker: "$eip" ... are not registers *)
Lemma clear_all_real_noop : forall s, clear_all (real_ops x86) win_clear_names s = s.
Proof. intro s. reflexivity. Qed.

Lemma memoize_x86_id : forall n c, memoize x86 n = Some c -> c = n.
Proof.
  intros n c H. unfold memoize in H. cbn [a_alias x86 assoc_b] in H.
  destruct (mem_b n (a_regs x86)); inversion H; reflexivity.
Qed.

Lemma real_set_valid : forall s n v s' x,
  real_set x86 s n v = Some s' -> r_valid s' x = true -> x = n \/ r_valid s x = true.
Proof.
  intros s n v s' x H Hx. unfold real_set in H.
  destruct (memoize x86 n) as [c|] eqn:M; [|discriminate].
  apply memoize_x86_id in M. subst c.
  destruct (fits (a_width x86) v); [|discriminate]. inversion H; subst. cbn [r_valid] in Hx.
  unfold updb in Hx. destruct (beq x n) eqn:B; [left; apply beq_eq; exact B|right; exact Hx].
Qed.

Lemma set_outputs_valid : forall names m s s' b x,
  set_outputs (real_ops x86) (map (fun n => (dollar n, n)) names) m s = (s', b) ->
  r_valid s' x = true -> r_valid s x = true \/ (In x names /\ is_set x m = true).
Proof.
  induction names as [|n r IH]; intros m s s' b x H Hx; cbn [map set_outputs] in H.
  - inversion H; subst. left; exact Hx.
  - destruct (vget (dollar n) m) as [v|] eqn:Ev.
    + cbn [real_ops o_set] in H. destruct (real_set x86 s n v) as [s1|] eqn:Es.
      * destruct (IH m s1 s' b x H Hx) as [A|[A1 A2]].
        -- destruct (real_set_valid s n v s1 x Es A) as [B|B]; [|left; exact B].
           subst x. right. split; [left; reflexivity|]. unfold is_set. rewrite Ev. reflexivity.
        -- right. split; [right; exact A1|exact A2].
      * inversion H; subst. left; exact Hx.
    + destruct (IH m s s' b x H Hx) as [A|[A1 A2]]; [left; exact A|right; split; [right; exact A1|exact A2]].
Qed.

(* what the faithful model gives: valid in the caller = set by the record, or forwarded *)
Lemma framedata_valid : forall p E i e s s' b m x,
  walk_win_framedata (real_ops x86) p E i e s = Ret (s', b) ->
  win_final_vars p E i e = Ret (Some m) ->
  r_valid s' x = true -> r_valid s x = true \/ (In x six /\ is_set x m = true).
Proof.
  intros p E i e s s' b m x H Hm Hx. unfold walk_win_framedata in H. rewrite Hm in H. cbn [obind] in H.
  rewrite clear_all_real_noop in H.
  assert (H1 : set_outputs (real_ops x86) win_outputs m s = (s', b)) by congruence.
  rewrite outputs_dollar in H1.
  eapply set_outputs_valid; eauto.
Qed.

(* the class of the known finding F-C07a: a callee-saved register that is forwarded from the
   callee (valid there) and that the record does not set *)
Definition Known_C07a (ctx : list (bytes * Z)) (valid : option (list bytes)) (m : vars) : bool :=
  existsb (fun n => r_valid (real_init x86 ctx valid) n && negb (is_set n m)) (a_saved x86).

Lemma mem_b_in : forall k l, mem_b k l = true -> In k l.
Proof.
  induction l as [|x r IH]; cbn [mem_b]; intro H; [discriminate|].
  apply orb_prop in H. destruct H as [H|H]; [left; symmetry; apply beq_eq; exact H|right; apply IH; exact H].
Qed.

Lemma saved_in_six : forall n, In n (a_saved x86) -> In n six.
Proof.
  intros n H. cbn in H. unfold six, N_eip, N_esp, N_ebp, N_ebx, N_esi, N_edi.
  destruct H as [H|[H|[H|[H|[]]]]]; subst; cbn; tauto.
Qed.

Lemma existsb_false : forall A (f : A -> bool) l, existsb f l = false -> forall x, In x l -> f x = false.
Proof.
  induction l as [|a r IH]; cbn [existsb]; intros H x Hx; [contradiction|].
  apply orb_false_elim in H. destruct H as [H1 H2]. destruct Hx as [Hx|Hx]; [subst; exact H1|apply IH; assumption].
Qed.

Theorem only_six_no_forwarding : forall p E i e ctx valid s' m,
  walk_win_framedata (real_ops x86) p E i e (real_init x86 ctx valid) = Ret (s', true) ->
  win_final_vars p E i e = Ret (Some m) ->
  Known_C07a ctx valid m = false ->
  forall n, r_valid s' n = true -> In n six /\ is_set n m = true.
Proof.
  intros p E i e ctx valid s' m H Hm Hk n Hn.
  destruct (framedata_valid _ _ _ _ _ _ _ _ _ H Hm Hn) as [A|A]; [|exact A].
  assert (Hs : In n (a_saved x86)).
  { unfold real_init in A. cbn [r_valid] in A. apply andb_prop in A. destruct A as [A _]. apply mem_b_in. exact A. }
  unfold Known_C07a in Hk. pose proof (existsb_false _ _ _ Hk n Hs) as Hk1. cbn beta in Hk1.
  rewrite A in Hk1. rename Hk1 into Hk'. clear Hk. rename Hk' into Hk. cbn [andb] in Hk. apply negb_false_iff in Hk.
  split; [apply saved_in_six; exact Hs|exact Hk].
Qed.

(* ---- the witness of F-C07a ---- *)
Definition w_ctx : list (bytes * Z) :=
  [(N_eip, 1073741924); (N_esp, 2147483648); (N_ebp, 2147483700); (N_ebx, 11); (N_esi, 12); (N_edi, 13)].
Definition w_env : env :=
  mkEnv (real_callee x86 w_ctx None) (mem_read 4 2147483648 [0; 16; 0; 64; 0; 0; 0; 0]) 100 false 0.
Definition w_prog : bytes := bs "$eip $esp ^ = $esp $esp 4 + =".
Definition w_info : win_info := mkWin 100 16 0 0 0 0 0 0 (ProgramString w_prog).

Lemma forwarding_witness_c :
  match walk_win_framedata (real_ops x86) Debug w_env w_info w_prog (real_init x86 w_ctx None),
        win_final_vars Debug w_env w_info w_prog with
  | Ret (s', true), Ret (Some m) =>
      Known_C07a w_ctx None m = true /\
      r_valid s' N_esi = true /\ is_set N_esi m = false /\
      r_valid s' N_eip = true /\ r_ctx s' N_eip = 1073745920 /\ r_ctx s' N_esp = 2147483652
  | _, _ => False
  end.
Proof. vm_compute. repeat split; reflexivity. Qed.

Lemma forwarding_witness :
  exists s' m,
    walk_win_framedata (real_ops x86) Debug w_env w_info w_prog (real_init x86 w_ctx None) = Ret (s', true) /\
    win_final_vars Debug w_env w_info w_prog = Ret (Some m) /\
    Known_C07a w_ctx None m = true /\
    r_valid s' N_esi = true /\ is_set N_esi m = false /\
    r_valid s' N_eip = true /\ r_ctx s' N_eip = 1073745920 /\ r_ctx s' N_esp = 2147483652.
Proof.
  pose proof forwarding_witness_c as H.
  destruct (walk_win_framedata (real_ops x86) Debug w_env w_info w_prog (real_init x86 w_ctx None))
    as [[s' [|]]| | |]; try contradiction.
  destruct (win_final_vars Debug w_env w_info w_prog) as [[m|]| | |]; try contradiction.
  exists s', m. split; [reflexivity|]. split; [reflexivity|]. exact H.
Qed.
