(* C07/Proofs10.v — SymbolFile::walk_frame on the finished tables of the text route (C07/Text.v: C09's parser state
   -> finish -> walk_frame_table) equals walk_frame of the record route (C07/Model.v) on the same STACK WIN records. *)
From Coq Require Import Lia.
From RM Require Import Base.Word C06.Model C06.Proofs C07.Model C07.Text C07.Proofs5 C07.Proofs8 C07.Proofs9.
From RM Require C08.Model C09.Grammar C11.Model.
Import ListNotations.
Open Scope Z_scope.

(* what `finish` does with the STACK WIN records the line parsers collected *)
Lemma finish_win : forall p t, C09.Grammar.finish p = Ret t ->
  (do l <- C09.Grammar.win_collect [] (rev (C09.Grammar.p_win_fd p)); C08.Model.build_p C09.Grammar.wi_eqb l) = Ret (C09.Grammar.t_win_fd t) /\
  (do l <- C09.Grammar.win_collect [] (rev (C09.Grammar.p_win_fpo p)); C08.Model.build_p C09.Grammar.wi_eqb l) = Ret (C09.Grammar.t_win_fpo t).
Proof.
  intros p t H. unfold C09.Grammar.finish in H. cbv zeta in H.
  assert (Hfd : C09.Grammar.p_win_fd (C09.Grammar.close_cur p) = C09.Grammar.p_win_fd p)
    by (unfold C09.Grammar.close_cur; destruct (C09.Grammar.p_cur p); reflexivity).
  assert (Hfpo : C09.Grammar.p_win_fpo (C09.Grammar.close_cur p) = C09.Grammar.p_win_fpo p)
    by (unfold C09.Grammar.close_cur; destruct (C09.Grammar.p_cur p); reflexivity).
  rewrite Hfd, Hfpo in H.
  destruct (C09.Grammar.finish_funcs _) as [fl| | |]; try discriminate H. cbn [obind] in H.
  destruct (C08.Model.build_p C09.Grammar.sfunc_eqb fl) as [funcs| | |]; try discriminate H. cbn [obind] in H.
  destruct (C08.Model.build_p C09.Grammar.scfi_eqb _) as [cfis| | |]; try discriminate H. cbn [obind] in H.
  destruct (C09.Grammar.win_collect [] (rev (C09.Grammar.p_win_fd p))) as [wfd| | |]; try discriminate H. cbn [obind] in H.
  destruct (C08.Model.build_p C09.Grammar.wi_eqb wfd) as [tfd| | |] eqn:Efd; try discriminate H. cbn [obind] in H.
  destruct (C09.Grammar.win_collect [] (rev (C09.Grammar.p_win_fpo p))) as [wfpo| | |]; try discriminate H. cbn [obind] in H.
  destruct (C08.Model.build_p C09.Grammar.wi_eqb wfpo) as [tfpo| | |] eqn:Efpo; try discriminate H. cbn [obind] in H.
  inversion H; subst t. cbn [C09.Grammar.t_win_fd C09.Grammar.t_win_fpo obind]. split; assumption.
Qed.

Lemma thing_conv : forall w, w_thing (conv_win w) = conv_thing (C09.Grammar.wi_thing w).
Proof. reflexivity. Qed.

(* for a symbol file without STACK CFI records: the text route and the record route agree on every walker, profile,
   environment and start state *)
Theorem text_route_agrees : forall (S : Type) (ops : wops S) p E (ps : C09.Grammar.pst) (t : C09.Grammar.table) (s : S),
  C09.Grammar.finish ps = Ret t ->
  Forall wi_nf (C09.Grammar.p_win_fd ps) -> Forall wi_nf (C09.Grammar.p_win_fpo ps) ->
  C09.Grammar.t_cfi t = [] ->
  walk_frame_table ops p E t s =
  walk_frame ops p E (mkSym (map conv_win (rev (C09.Grammar.p_win_fd ps))) (map conv_win (rev (C09.Grammar.p_win_fpo ps))) None) s.
Proof.
  intros S ops p E ps t s Hfin Hfd Hfpo Hcfi.
  destruct (finish_win ps t Hfin) as [H1 H2].
  unfold walk_frame, walk_frame_table. cbn [sf_framedata sf_fpo sf_cfi].
  rewrite (win_table_conv _ _ (Forall_rev Hfd) H1). cbn [obind].
  rewrite (win_table_conv _ _ (Forall_rev Hfpo) H2). cbn [obind].
  rewrite !win_lookup_conv. rewrite Hcfi.
  destruct (C08.Model.rm_get (C09.Grammar.t_win_fd t) (e_instr E)) as [w|]; cbn [option_map].
  - rewrite thing_conv. destruct (C09.Grammar.wi_thing w) as [e|b]; cbn [conv_thing]; reflexivity.
  - destruct (C08.Model.rm_get (C09.Grammar.t_win_fpo t) (e_instr E)) as [w|]; cbn [option_map].
    + rewrite thing_conv. destruct (C09.Grammar.wi_thing w) as [e|b]; cbn [conv_thing]; reflexivity.
    + reflexivity.
Qed.
