(* C07/Model.v — executable model of STACK WIN evaluation (program strings and FPO).
   Mirrors (as of commits e89b171, 07b228c, 1f8c3ef and the revert 0819a3f):
     breakpad-symbols/src/sym_file/walker.rs  eval_win_expr, win_frame_size, walk_with_stack_win_framedata,
                                              walk_with_stack_win_fpo, clear_stack_win_caller_registers
     breakpad-symbols/src/sym_file/parser.rs  stack_win_line (type / has_program consistency, on parsed fields),
                                              insert_win_stack_info, into_rangemap_safe
     breakpad-symbols/src/sym_file/mod.rs     walk_frame (framedata > fpo > STACK CFI)
   Reuses the tokenizer, integer parser, environment and walker records of C06/Model.v and the
   range-map model of C08/Model.v.  Definitions only. *)
From RM Require Export C06.Model.
From RM Require C08.Model.
Open Scope Z_scope.

Definition N_esp : bytes := [101; 115; 112]. (* esp *)
Definition N_ebp : bytes := [101; 98; 112]. (* ebp *)
Definition N_ebx : bytes := [101; 98; 120]. (* ebx *)
Definition N_eip : bytes := [101; 105; 112]. (* eip *)
Definition N_esi : bytes := [101; 115; 105]. (* esi *)
Definition N_edi : bytes := [101; 100; 105]. (* edi *)
Definition D_esp : bytes := [36; 101; 115; 112]. (* $esp *)
Definition D_ebp : bytes := [36; 101; 98; 112]. (* $ebp *)
Definition D_ebx : bytes := [36; 101; 98; 120]. (* $ebx *)
Definition D_eip : bytes := [36; 101; 105; 112]. (* $eip *)
Definition D_esi : bytes := [36; 101; 115; 105]. (* $esi *)
Definition D_edi : bytes := [36; 101; 100; 105]. (* $edi *)
Definition V_cbParams : bytes := [46; 99; 98; 80; 97; 114; 97; 109; 115]. (* .cbParams *)
Definition V_cbCalleeParams : bytes := [46; 99; 98; 67; 97; 108; 108; 101; 101; 80; 97; 114; 97; 109; 115]. (* .cbCalleeParams *)
Definition V_cbSavedRegs : bytes := [46; 99; 98; 83; 97; 118; 101; 100; 82; 101; 103; 115]. (* .cbSavedRegs *)
Definition V_cbLocals : bytes := [46; 99; 98; 76; 111; 99; 97; 108; 115]. (* .cbLocals *)
Definition V_raSearch : bytes := [46; 114; 97; 83; 101; 97; 114; 99; 104]. (* .raSearch *)
Definition V_raSearchStart : bytes := [46; 114; 97; 83; 101; 97; 114; 99; 104; 83; 116; 97; 114; 116]. (* .raSearchStart *)
Definition T_eq : bytes := [61]. (* = *)

Definition PANIC_WIN_SUB : Z := 701.      (* rhs - 1 in the '@' operator *)
Definition PANIC_WIN_UNWRAP : Z := 702.   (* last_info.memory_range().unwrap() in insert_win_stack_info *)
Definition PANIC_WIN_UNREACHABLE : Z := 703.

Inductive win_thing := ProgramString (s : bytes) | AllocatesBasePointer (b : bool).
Record win_info := mkWin {
  w_addr : Z; w_size : Z; w_prolog : Z; w_epilog : Z; w_params : Z; w_saved : Z; w_locals : Z;
  w_maxstack : Z; w_thing : win_thing
}.

(* win_frame_size (after e89b171): checked u32 sum *)
Definition win_frame_size (i : win_info) (gcps : Z) : option Z :=
  match checked_add 32 (w_locals i) (w_saved i) with
  | Some a => checked_add 32 a gcps
  | None => None
  end.

(* the names clear_stack_win_caller_registers passes (with the '$': finding F-C07a) and the
   names the outputs are set under *)
Definition win_clear_names : list bytes := [D_eip; D_esp; D_ebp; D_ebx; D_esi; D_edi].
Definition win_outputs : list (bytes * bytes) :=
  [(D_eip, N_eip); (D_esp, N_esp); (D_ebp, N_ebp); (D_ebx, N_ebx); (D_esi, N_esi); (D_edi, N_edi)].

(* ---- eval_win_expr ---- *)
Inductive winval := WVar (n : bytes) | WInt (v : Z) | WUndef.
Definition vars := list (bytes * Z).
Fixpoint vget (k : bytes) (m : vars) : option Z :=
  match m with
  | [] => None
  | (k', v) :: r => if beq k k' then Some v else vget k r
  end.
Fixpoint vset (k : bytes) (v : Z) (m : vars) : vars :=
  match m with
  | [] => [(k, v)]
  | (k', v') :: r => if beq k k' then (k, v) :: r else (k', v') :: vset k v r
  end.
Fixpoint vdel (k : bytes) (m : vars) : vars :=
  match m with
  | [] => []
  | (k', v') :: r => if beq k k' then r else (k', v') :: vdel k r
  end.
Definition into_int (m : vars) (x : winval) : option Z :=
  match x with WVar n => vget n m | WInt v => Some v | WUndef => None end.
Definition into_var (x : winval) : option bytes :=
  match x with WVar n => Some n | _ => None end.

(* "=tok" is read as "=" "tok" *)
Definition resplit (x : bytes) : list bytes :=
  match x with
  | c :: (_ :: _) as r => if c =? 61 then [T_eq; tl x] else [x]
  | _ => [x]
  end.
Definition win_tokens (e : bytes) : list bytes := flat_map resplit (split_ws e).
Definition contains_at (e : bytes) : bool := existsb (fun c => c =? 64) e.
Definition starts_var (t : bytes) : bool :=
  match t with c :: _ => (c =? 36) || (c =? 46) | [] => false end.

Definition wbin (m : vars) (st : list winval) (f : Z -> Z -> outcome Z) : outcome (vars * list winval) :=
  match st with
  | r :: st1 =>
      match into_int m r with
      | None => Fail
      | Some rv =>
          match st1 with
          | l :: st2 =>
              match into_int m l with
              | None => Fail
              | Some lv => do v <- f lv rv; Ret (m, WInt v :: st2)
              end
          | [] => Fail
          end
      end
  | [] => Fail
  end.

Definition win_step (p : profile) (E : env) (t : bytes) (ms : vars * list winval) : outcome (vars * list winval) :=
  let '(m, st) := ms in
  if beq t T_plus then wbin m st (fun l r => Ret (wrap32 (l + r)))
  else if beq t T_minus then wbin m st (fun l r => Ret (wrap32 (l - r)))
  else if beq t T_star then wbin m st (fun l r => Ret (wrap32 (l * r)))
  else if beq t T_slash then wbin m st (fun l r => if r =? 0 then Fail else Ret (l / r))
  else if beq t T_pct then wbin m st (fun l r => if r =? 0 then Fail else Ret (l mod r))
  else if beq t T_at then
    wbin m st (fun l r =>
      if (r =? 0) || negb (is_pow2 r) then Fail
      else do k <- chk_usub p PANIC_WIN_SUB r 1; Ret (Z.land l (Z.lxor U32MAX k)))
  else if beq t T_eq then
    match st with
    | rhs :: st1 =>
        match st1 with
        | lhs :: st2 =>
            match into_var lhs with
            | None => Fail
            | Some name =>
                match rhs with
                | WUndef => Ret (vdel name m, st2)
                | _ => match into_int m rhs with
                       | Some v => Ret (vset name v m, st2)
                       | None => Fail
                       end
                end
            end
        | [] => Fail
        end
    | [] => Fail
    end
  else if beq t T_caret then
    match st with
    | x :: st1 =>
        match into_int m x with
        | None => Fail
        | Some ptr => match e_mem E ptr with
                      | Some v => Ret (m, WInt (wrap32 v) :: st1)
                      | None => Fail
                      end
        end
    | [] => Fail
    end
  else if beq t T_undef then Ret (m, WUndef :: st)
  else if starts_var t then Ret (m, WVar t :: st)
  else match parse_int 64 t with   (* i64::from_str since 1f8c3ef; truncated `as u32` *)
       | Some v => Ret (m, WInt (wrap32 v) :: st)
       | None => Fail
       end.

Fixpoint win_loop (p : profile) (E : env) (toks : list bytes) (ms : vars * list winval) : outcome (vars * list winval) :=
  match toks with
  | [] => Ret ms
  | t :: r => do ms' <- win_step p E t ms; win_loop p E r ms'
  end.

(* the variables before the program runs; None = a `?` on the way failed *)
Definition win_initial_vars (E : env) (i : win_info) (e : bytes) : option vars :=
  match e_callee E N_esp with None => None | Some esp64 =>
  match e_callee E N_ebp with None => None | Some ebp64 =>
  let esp := wrap32 esp64 in let ebp := wrap32 ebp64 in
  let gcps := e_gcps E in
  match win_frame_size i gcps with None => None | Some fs =>
  let m0 := vset D_ebp ebp (vset D_esp esp []) in
  let m1 := match e_callee E N_ebx with Some b => vset D_ebx (wrap32 b) m0 | None => m0 end in
  match (if contains_at e then checked_add 32 ebp 4 else checked_add 32 esp fs) with
  | None => None
  | Some ss =>
      Some (vset V_raSearchStart ss (vset V_raSearch ss (vset V_cbLocals (w_locals i)
           (vset V_cbSavedRegs (w_saved i) (vset V_cbCalleeParams gcps (vset V_cbParams (w_params i) m1))))))
  end end end end.

(* the variables after the program; Ret None = evaluation failed *)
Definition win_final_vars (p : profile) (E : env) (i : win_info) (e : bytes) : outcome (option vars) :=
  match win_initial_vars E i e with
  | None => Ret None
  | Some m =>
      match win_loop p E (win_tokens e) (m, []) with
      | Ret (m', _) => Ret (Some m')
      | Fail => Ret None
      | Panic t => Panic t
      | OutOfFuel => OutOfFuel
      end
  end.

Section WinWalk.
Context {S : Type} (ops : wops S).

Fixpoint clear_all (names : list bytes) (s : S) : S :=
  match names with [] => s | n :: r => clear_all r (o_clear ops s n) end.

(* for reg in output_regs: if let Some(val) = vars.get(reg) { set_caller_register(&reg[1..], val)? } *)
Fixpoint set_outputs (outs : list (bytes * bytes)) (m : vars) (s : S) : S * bool :=
  match outs with
  | [] => (s, true)
  | (dn, n) :: r =>
      match vget dn m with
      | Some v => match o_set ops s n v with
                  | Some s' => set_outputs r m s'
                  | None => (s, false)
                  end
      | None => set_outputs r m s
      end
  end.

(* walk_with_stack_win_framedata: (walker state afterwards, Some(()) / None) *)
Definition walk_win_framedata (p : profile) (E : env) (i : win_info) (e : bytes) (s : S) : outcome (S * bool) :=
  let s0 := clear_all win_clear_names s in
  do fv <- win_final_vars p E i e;
  match fv with
  | None => Ret (s0, false)
  | Some m => Ret (set_outputs win_outputs m s0)
  end.

(* walk_with_stack_win_fpo (after 07b228c: checked address arithmetic) *)
Definition walk_win_fpo (E : env) (i : win_info) (abp : bool) (s : S) : S * bool :=
  let s0 := clear_all win_clear_names s in
  let gcps := e_gcps E in
  match win_frame_size i gcps with None => (s0, false) | Some fs =>
  match e_callee E N_esp with None => (s0, false) | Some esp =>
  match checked_add 64 esp fs with None => (s0, false) | Some a0 =>
  match e_mem E a0 with None => (s0, false) | Some eip0 =>
  let skip :=     (* leftover return address: context frame and *(esp+fs) == callee eip *)
    if negb (e_has_gc E) then
      match e_callee E N_eip with None => None | Some ce => Some (eip0 =? ce) end
    else Some false in
  match skip with None => (s0, false) | Some sk =>
  let r1 := if sk then
              match checked_add 64 a0 4 with None => None | Some a1 =>
              match e_mem E a1 with None => None | Some v => Some (a1, v) end end
            else Some (a0, eip0) in
  match r1 with None => (s0, false) | Some (a1, caller_eip) =>
  match checked_add 64 a1 4 with None => (s0, false) | Some caller_esp =>
  let r2 : option (S * Z) :=
    if abp then
      match checked_add 64 esp gcps with None => None | Some b1 =>
      match checked_add 64 b1 (w_saved i) with None => None | Some b2 =>
      match checked_sub b2 8 with None => None | Some b3 =>
      match e_mem E b3 with None => None | Some v => Some (s0, v) end end end end
    else
      let s1o := match e_callee E N_ebx with
                 | Some b => o_set ops s0 N_ebx b
                 | None => Some s0
                 end in
      match s1o with None => None | Some s1 =>
      match e_callee E N_ebp with None => None | Some v => Some (s1, v) end end in
  match r2 with
  | None =>     (* the state is dropped by the caller on None; keep the furthest one reached *)
      (match (if abp then None else match e_callee E N_ebx with Some b => o_set ops s0 N_ebx b | None => None end) with
       | Some s1 => s1 | None => s0 end, false)
  | Some (s1, caller_ebp) =>
      match o_set ops s1 N_eip caller_eip with None => (s1, false) | Some s2 =>
      match o_set ops s2 N_esp caller_esp with None => (s2, false) | Some s3 =>
      match o_set ops s3 N_ebp caller_ebp with None => (s3, false) | Some s4 => (s4, true)
      end end end
  end end end end end end end end.
End WinWalk.

(* ---- the symbol-file side: record acceptance, overlap repair, lookup ---- *)
(* stack_win_line, on the parsed fields: ty (a hex digit character), has_program (a digit
   character, true iff '1'), rest of the line *)
Inductive win_frame_type := FrameData (i : win_info) | Fpo (i : win_info) | Unhandled.
Definition stack_win_line (ty : Z) (addr size prolog epilog params saved locals maxstack : Z)
                          (hasprog : Z) (rest : bytes) : win_frame_type :=
  let really := ty =? 52 in            (* '4' *)
  let has := hasprog =? 49 in          (* '1' *)
  if negb (Bool.eqb really has) then Unhandled
  else
    let thing := if really then ProgramString rest else AllocatesBasePointer (beq rest [49]) in
    let i := mkWin addr size prolog epilog params saved locals maxstack thing in
    if ty =? 52 then FrameData i else if ty =? 48 then Fpo i else Unhandled.

Definition thing_eqb (a b : win_thing) : bool :=
  match a, b with
  | ProgramString x, ProgramString y => beq x y
  | AllocatesBasePointer x, AllocatesBasePointer y => Bool.eqb x y
  | _, _ => false
  end.
Definition win_eqb (a b : win_info) : bool :=
  (w_addr a =? w_addr b) && (w_size a =? w_size b) && (w_prolog a =? w_prolog b) &&
  (w_epilog a =? w_epilog b) && (w_params a =? w_params b) && (w_saved a =? w_saved b) &&
  (w_locals a =? w_locals b) && (w_maxstack a =? w_maxstack b) && thing_eqb (w_thing a) (w_thing b).

Definition win_range (i : win_info) : option C08.Model.range := C08.Model.mk_range (w_addr i) (w_size i).
Definition range_eqb (a b : C08.Model.range) : bool := (fst a =? fst b) && (snd a =? snd b).
Definition set_size (i : win_info) (sz : Z) : win_info :=
  mkWin (w_addr i) sz (w_prolog i) (w_epilog i) (w_params i) (w_saved i) (w_locals i) (w_maxstack i) (w_thing i).

(* insert_win_stack_info; the vector is kept reversed (head = last element) *)
Definition insert_win (acc : list (C08.Model.range * win_info)) (i : win_info)
  : outcome (list (C08.Model.range * win_info)) :=
  match win_range i with
  | None => Ret acc
  | Some mr =>
      match acc with
      | (lr, li) :: rest =>
          if C08.Model.intersects lr mr then
            if w_addr i >? w_addr li then
              let li' := set_size li (wrap32 (w_addr i - w_addr li)) in
              match win_range li' with
              | Some lr' => Ret ((mr, i) :: (lr', li') :: rest)
              | None => Panic PANIC_WIN_UNWRAP
              end
            else if negb (range_eqb lr mr) then Ret acc
            else Ret ((mr, i) :: acc)
          else Ret ((mr, i) :: acc)
      | [] => Ret [(mr, i)]
      end
  end.
Fixpoint insert_all (l : list win_info) (acc : list (C08.Model.range * win_info))
  : outcome (list (C08.Model.range * win_info)) :=
  match l with
  | [] => Ret acc
  | i :: r => do acc' <- insert_win acc i; insert_all r acc'
  end.
(* the finished table: records in file order -> RangeMap *)
Definition win_table (l : list win_info) : outcome (list (C08.Model.range * win_info)) :=
  do acc <- insert_all l [];
  C08.Model.build_p win_eqb (rev acc).

Record symfile := mkSym {
  sf_framedata : list win_info;        (* STACK WIN records of type 4, file order *)
  sf_fpo : list win_info;              (* type 0 *)
  sf_cfi : option cfi_record           (* at most one STACK CFI INIT record (see C06, C08) *)
}.

(* SymbolFile::walk_frame; the module is based at 0 *)
Definition walk_frame {S} (ops : wops S) (p : profile) (E : env) (f : symfile) (s : S) : outcome (option S) :=
  let addr := e_instr E in
  do fd <- win_table (sf_framedata f);
  do fp <- win_table (sf_fpo f);
  do wr <- match C08.Model.rm_get fd addr with
           | Some i =>
               match w_thing i with
               | ProgramString e => walk_win_framedata ops p E i e s
               | _ => Panic PANIC_WIN_UNREACHABLE
               end
           | None =>
               match C08.Model.rm_get fp addr with
               | Some i =>
                   match w_thing i with
                   | AllocatesBasePointer b => Ret (walk_win_fpo ops E i b s)
                   | _ => Panic PANIC_WIN_UNREACHABLE
                   end
               | None => Ret (s, false)
               end
           end;
  let '(s1, okw) := wr in
  if okw then Ret (Some s1)
  else match sf_cfi f with
       | Some r => walk_frame_cfi ops p E r addr s1
       | None => Ret None
       end.

(* ==== the documented semantics of program strings, written independently (walker.rs module
        docs, "STACK WIN expression mode"): variables are a partial function, tokens are classified
        first, `@` truncates to a multiple ==== *)
Definition venv := bytes -> option Z.
Inductive wtok := KBin (op : Z) | KAssign | KDeref | KUndef | KVar (n : bytes) | KLit (v : Z) | KJunk.

Definition win_lex (t : bytes) : wtok :=
  match t with
  | [c] =>
      if is_binop_byte c then KBin c
      else if c =? 61 then KAssign
      else if c =? 94 then KDeref
      else if (c =? 36) || (c =? 46) then KVar t
      else match digit c with Some d => KLit d | None => KJunk end
  | _ =>
      if beq t T_undef then KUndef
      else if starts_var t then KVar t
      else match parse_int 64 t with Some v => KLit v | None => KJunk end
  end.

Definition wint (f : venv) (x : winval) : option Z :=
  match x with WVar n => f n | WInt v => Some v | WUndef => None end.
Definition fupd (f : venv) (k : bytes) (o : option Z) : venv := fun x => if beq x k then o else f x.

Definition spec_bin32 (op l r : Z) : option Z :=
  if op =? 43 then Some ((l + r) mod two32)
  else if op =? 45 then Some ((l - r) mod two32)
  else if op =? 42 then Some ((l * r) mod two32)
  else if op =? 47 then (if r =? 0 then None else Some (l / r))
  else if op =? 37 then (if r =? 0 then None else Some (l mod r))
  else if (0 <? r) && (r =? 2 ^ Z.log2 r) then Some (l - l mod r) else None.

Definition wspec_step (E : env) (k : wtok) (fs : venv * list winval) : option (venv * list winval) :=
  let '(f, st) := fs in
  match k with
  | KBin op =>
      match st with
      | y :: x :: s =>
          match wint f y, wint f x with
          | Some r, Some l => match spec_bin32 op l r with Some v => Some (f, WInt v :: s) | None => None end
          | _, _ => None
          end
      | _ => None
      end
  | KAssign =>
      match st with
      | y :: WVar n :: s =>
          match y with
          | WUndef => Some (fupd f n None, s)
          | _ => match wint f y with Some v => Some (fupd f n (Some v), s) | None => None end
          end
      | _ => None
      end
  | KDeref =>
      match st with
      | x :: s => match wint f x with
                  | Some a => match e_mem E a with Some v => Some (f, WInt (v mod two32) :: s) | None => None end
                  | None => None
                  end
      | [] => None
      end
  | KUndef => Some (f, WUndef :: st)
  | KVar n => Some (f, WVar n :: st)
  | KLit v => Some (f, WInt (v mod two32) :: st)
  | KJunk => None
  end.
Fixpoint wspec_run (E : env) (prog : list wtok) (fs : venv * list winval) : option (venv * list winval) :=
  match prog with
  | [] => Some fs
  | k :: r => match wspec_step E k fs with Some fs' => wspec_run E r fs' | None => None end
  end.

(* "Before evaluating a STACK WIN expression" *)
Definition win_spec_init (E : env) (i : win_info) (e : bytes) : option venv :=
  match e_callee E N_esp, e_callee E N_ebp with
  | Some esp64, Some ebp64 =>
      let esp := esp64 mod two32 in
      let ebp := ebp64 mod two32 in
      let fs := w_locals i + w_saved i + e_gcps E in
      let ss := if contains_at e then ebp + 4 else esp + fs in
      if (w_locals i + w_saved i <? two32) && (fs <? two32) && (ss <? two32) then
        Some (fun k =>
          if beq k V_raSearchStart then Some ss else if beq k V_raSearch then Some ss
          else if beq k V_cbLocals then Some (w_locals i) else if beq k V_cbSavedRegs then Some (w_saved i)
          else if beq k V_cbCalleeParams then Some (e_gcps E) else if beq k V_cbParams then Some (w_params i)
          else if beq k D_ebx then option_map (fun b => b mod two32) (e_callee E N_ebx)
          else if beq k D_ebp then Some ebp else if beq k D_esp then Some esp else None)
      else None
  | _, _ => None
  end.

(* the variables after the program: None = evaluation fails *)
Definition win_spec (E : env) (i : win_info) (e : bytes) : option venv :=
  match win_spec_init E i e with
  | None => None
  | Some f => match wspec_run E (map win_lex (win_tokens e)) (f, []) with
              | Some (f', _) => Some f'
              | None => None
              end
  end.

(* ==== the documented STACK WIN table, written independently: the records that have a valid
        address range, looked up by containment (parser.rs: "PDB files contain lots of overlapping
        unwind info, so we have to filter some of it out" — the filtering only concerns overlaps) ==== *)
Definition keep (l : list win_info) : list (C08.Model.range * win_info) :=
  flat_map (fun i => match win_range i with Some r => [(r, i)] | None => [] end) l.
Definition table_spec_lookup (l : list win_info) (x : Z) : option win_info :=
  match filter (fun e => C08.Model.contains (fst e) x) (keep l) with
  | e :: _ => Some (snd e)
  | [] => None
  end.
Fixpoint disjoint_ranges (kl : list (C08.Model.range * win_info)) : Prop :=
  match kl with
  | [] => True
  | e :: t => (forall e', In e' t -> C08.Model.intersects (fst e) (fst e') = false) /\ disjoint_ranges t
  end.
