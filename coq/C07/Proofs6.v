(* C07/Proofs6.v — the derivation of has_grand_callee / grand_callee_parameter_size (C07/Walker.v) and what it
   means for the FPO leftover-return-address skip. *)
From Coq Require Import Lia.
From RM Require Import C06.Model C06.Proofs C07.Model C07.Walker C07.Proofs2.
Import ListNotations.
Open Scope Z_scope.

Lemma gc_frame_app : forall (below : list sframe) callee,
  grand_callee_frame (below ++ [callee]) = match rev below with [] => None | g :: _ => Some g end.
Proof.
  intros below callee. unfold grand_callee_frame, grand_callee_index.
  destruct (rev below) as [|g r] eqn:Hr.
  - assert (Hb : below = []).
    { destruct below as [|x t]; [reflexivity|].
      apply (f_equal (@length _)) in Hr. rewrite rev_length in Hr. discriminate Hr. }
    subst below. reflexivity.
  - assert (Hb : below = rev r ++ [g]).
    { rewrite <- (rev_involutive below), Hr. reflexivity. }
    subst below. rewrite !app_length, rev_length. cbn [length].
    replace (Nat.leb 2 (length r + 1 + 1)) with true by (symmetry; apply PeanoNat.Nat.leb_le; lia).
    cbn [opt_and_then].
    replace (length r + 1 + 1 - 2)%nat with (length (rev r) + 0)%nat by (rewrite rev_length; lia).
    rewrite <- app_assoc. rewrite nth_error_app2 by lia.
    replace (length (rev r) + 0 - length (rev r))%nat with 0%nat by lia. reflexivity.
Qed.

Lemma walker_has_gc_spec : forall below callee, walker_has_gc (below ++ [callee]) = spec_has_gc below.
Proof.
  intros. unfold walker_has_gc. rewrite gc_frame_app. unfold spec_has_gc.
  destruct below as [|x t]; [reflexivity|].
  destruct (rev (x :: t)) eqn:Hr; [|reflexivity].
  apply (f_equal (@length _)) in Hr. rewrite rev_length in Hr. discriminate Hr.
Qed.

Lemma walker_gcps_spec : forall below callee, walker_gcps (below ++ [callee]) = spec_gcps below.
Proof.
  intros. unfold walker_gcps, spec_gcps. rewrite gc_frame_app.
  destruct (rev below) as [|g r]; [reflexivity|].
  unfold grand_callee_parameter_size, opt_and_then, opt_unwrap_or. destruct (parameter_size g); reflexivity.
Qed.

Theorem walker_args_spec : forall below callee,
  walker_has_gc (below ++ [callee]) = spec_has_gc below /\
  walker_gcps (below ++ [callee]) = spec_gcps below.
Proof. intros. split; [apply walker_has_gc_spec|apply walker_gcps_spec]. Qed.

(* the leftover-return-address skip is for the context frame only: a frame that has ANY frame below it — whether
   or not that frame's parameter size is known — is unwound by the plain FPO formula *)
Theorem fpo_no_skip_above_context : forall regs mem instr below g callee i abp s',
  walk_win_fpo (mock_ops 4) (frames_env regs mem instr (g :: below) callee) i abp m_init = (s', true) ->
  exists fs esp eip,
    win_frame_size i (spec_gcps (g :: below)) = Some fs /\ regs N_esp = Some esp /\
    mem (esp + fs) = Some eip /\
    m_regs s' N_eip = SetTo eip /\ m_regs s' N_esp = SetTo (esp + fs + 4).
Proof.
  intros regs mem instr below g callee i abp s' H.
  destruct (fpo_formulae _ _ _ _ H) as (fs & esp & a & eip & Hfs & Hesp & Ha & _ & Hm & Heip & Hsp & _).
  unfold frames_env in Hfs, Hesp, Ha, Hm. cbn [e_gcps e_callee e_has_gc e_mem] in Hfs, Hesp, Ha, Hm.
  rewrite walker_gcps_spec in Hfs.
  exists fs, esp, eip. split; [exact Hfs|]. split; [exact Hesp|].
  destruct Ha as [->|(_ & Hgc & _)].
  - split; [exact Hm|]. split; [exact Heip|exact Hsp].
  - rewrite walker_has_gc_spec in Hgc. discriminate Hgc.
Qed.
