(* C07/Proofs21.v — second pass of round 5: the correspondence driver evaluates every case with the hand-written model
   AND with the model compiled from the Rust source (C07/Driver.v: run_*7 / run_*7_src); the two instances are the
   same function of the case line. *)
From RM Require Import Base.Word C06.Model C07.Model C07.Walker C07.WalkerFd C07.Source C07.Proofs14 Gen.C07WinEval.
From RM Require Import C06.Driver C07.Driver.
Open Scope Z_scope.

Lemma src_xstep_eq : forall mem below callee r i, src_win_xstep mem below callee r i = win_xstep mem below callee r i.
Proof.
  intros. unfold src_win_xstep, win_xstep, fpo_step.
  destruct (w_thing i) as [e|abp].
  - rewrite src_framedata_eq.
    match goal with |- context [walk_win_framedata ?o ?p ?E i e m_init] => destruct (walk_win_framedata o p E i e m_init) as [[s [|]]| | |] end; reflexivity.
  - rewrite g_fpo_eq. match goal with |- context [walk_win_fpo ?o ?E i abp m_init] => destruct (walk_win_fpo o E i abp m_init) as [s [|]] end; reflexivity.
Qed.

Lemma walk_with_src_eq : forall fuel mem in_stack lookup below r,
  walk_with src_win_xstep fuel mem in_stack lookup below r = win_walk fuel mem in_stack lookup below r.
Proof.
  induction fuel as [|k IH]; intros; [reflexivity|].
  cbn [walk_with win_walk]. destruct (match below with [] => true | _ :: _ => in_stack (x_esp r) end); [|reflexivity].
  destruct (lookup (x_eip r)) as [[i ps]|]; [|reflexivity].
  rewrite src_xstep_eq. destruct (win_xstep mem below (mkSF ps) r i) as [r'|]; [|reflexivity].
  destruct ((x_eip r' <? 4096) || (x_esp r' <=? x_esp r)); [reflexivity|]. rewrite IH. reflexivity.
Qed.

Theorem driver_source_agrees :
  (forall lookup gcps hasgc regs membase mem recs names,
     run_mock7_src lookup gcps hasgc regs membase mem recs names = run_mock7 lookup gcps hasgc regs membase mem recs names) /\
  (forall ctx valid stackbase stack recs,
     run_real7_src ctx valid stackbase stack recs = run_real7 ctx valid stackbase stack recs) /\
  (forall below ctx valid stackbase stack recs,
     run_frames7_src below ctx valid stackbase stack recs = run_frames7 below ctx valid stackbase stack recs) /\
  (forall ctx stackbase stack funcs recs,
     run_walk7_src ctx stackbase stack funcs recs = run_walk7 ctx stackbase stack funcs recs).
Proof.
  split; [|split; [|split]]; intros.
  - unfold run_mock7_src, run_mock7, run_mock7_with. rewrite src_walk_frame_eq. reflexivity.
  - unfold run_real7_src, run_real7, run_real7_with. rewrite src_walk_frame_eq. reflexivity.
  - unfold run_frames7_src, run_frames7, run_frames7_with. destruct (frames_pre below ctx valid stackbase stack) as [[l sp]|]; [|reflexivity].
    rewrite src_walk_frame_eq. reflexivity.
  - unfold run_walk7_src, run_walk7, run_walk7_with. rewrite walk_with_src_eq. reflexivity.
Qed.
