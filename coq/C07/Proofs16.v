(* C07/Proofs16.v — round 5: the caller state after a STACK WIN walk through the real x86 CfiStackWalker, EXACTLY
   (validity set and register values, both directions), with no hypothesis about the known finding F-C07a: the
   forwarded callee-saved registers appear in the statement as what they are. *)
From Coq Require Import Lia.
From RM Require Import Base.Word C06.Model C06.Proofs C07.Model C07.Proofs C07.Proofs2.
Open Scope Z_scope.

Lemma mem_b_notin_false : forall k l, ~ In k l -> mem_b k l = false.
Proof.
  induction l as [|x r IH]; cbn [mem_b]; intro H; [reflexivity|].
  apply orb_false_intro.
  - apply beq_neq. intro; subst. apply H; left; reflexivity.
  - apply IH. intro; apply H; right; assumption.
Qed.

Lemma set_outputs_exact : forall names m s s',
  NoDup names -> (forall n, In n names -> memoize x86 n = Some n) ->
  set_outputs (real_ops x86) (map (fun n => (dollar n, n)) names) m s = (s', true) ->
  forall x,
    r_valid s' x = (mem_b x names && is_set x m) || r_valid s x /\
    r_ctx s' x = (if mem_b x names then match vget (dollar x) m with Some v => v | None => r_ctx s x end else r_ctx s x).
Proof.
  induction names as [|n r IH]; intros m s s' ND Hmem H x; cbn [map set_outputs] in H.
  - inversion H; subst. cbn [mem_b andb orb]. split; reflexivity.
  - inversion ND as [|? ? Hnotin ND']; subst.
    assert (Hmem' : forall k, In k r -> memoize x86 k = Some k) by (intros; apply Hmem; right; assumption).
    cbn [mem_b]. destruct (vget (dollar n) m) as [v|] eqn:Ev.
    + cbn [real_ops o_set] in H. destruct (real_set x86 s n v) as [s1|] eqn:Es; [|inversion H].
      destruct (IH m s1 s' ND' Hmem' H x) as [V C]. rewrite V, C.
      unfold real_set in Es. rewrite (Hmem n (or_introl eq_refl)) in Es.
      destruct (fits (a_width x86) v); [|discriminate]. inversion Es; subst s1. cbn [r_valid r_ctx]. unfold updb, updz.
      destruct (beq x n) eqn:B.
      * apply beq_eq in B. subst x. rewrite (mem_b_notin_false _ _ Hnotin). unfold is_set. rewrite Ev.
        cbn [andb orb]. split; reflexivity.
      * cbn [orb]. split; reflexivity.
    + destruct (IH m s s' ND' Hmem' H x) as [V C]. rewrite V, C.
      destruct (beq x n) eqn:B.
      * apply beq_eq in B. subst x. rewrite (mem_b_notin_false _ _ Hnotin). unfold is_set. rewrite Ev.
        cbn [andb orb]. split; reflexivity.
      * cbn [orb]. split; reflexivity.
Qed.

Lemma six_nodup : NoDup six.
Proof.
  unfold six, N_eip, N_esp, N_ebp, N_ebx, N_esi, N_edi.
  repeat constructor; cbn; intro H; repeat (destruct H as [H|H]; [discriminate|]); exact H.
Qed.

Lemma six_memoize : forall n, In n six -> memoize x86 n = Some n.
Proof.
  intros n H. unfold six, N_eip, N_esp, N_ebp, N_ebx, N_esi, N_edi in H.
  repeat (destruct H as [H|H]; [subst; reflexivity|]). contradiction.
Qed.

(* frame data *)
Theorem real_framedata_exact : forall p E i e ctx valid s' m,
  walk_win_framedata (real_ops x86) p E i e (real_init x86 ctx valid) = Ret (s', true) ->
  win_final_vars p E i e = Ret (Some m) ->
  forall n,
    r_valid s' n = (mem_b n six && is_set n m) || r_valid (real_init x86 ctx valid) n /\
    r_ctx s' n = (if mem_b n six then match vget (dollar n) m with Some v => v | None => r_ctx (real_init x86 ctx valid) n end
                  else r_ctx (real_init x86 ctx valid) n).
Proof.
  intros p E i e ctx valid s' m H Hm n. unfold walk_win_framedata in H. rewrite Hm in H. cbn [obind] in H.
  rewrite clear_all_real_noop in H.
  assert (H1 : set_outputs (real_ops x86) win_outputs m (real_init x86 ctx valid) = (s', true)) by congruence.
  rewrite outputs_dollar in H1.
  exact (set_outputs_exact six m _ s' six_nodup six_memoize H1 n).
Qed.

(* the forwarded part, spelled out: callee-saved (ebp, ebx, edi, esi) and valid in the callee *)
Lemma real_init_valid : forall ctx valid n,
  r_valid (real_init x86 ctx valid) n = mem_b n (a_saved x86) && match valid with None => true | Some which => mem_b n which end.
Proof. reflexivity. Qed.

(* FPO *)
Lemma real_set_valid_exact : forall s n v s' x,
  memoize x86 n = Some n -> real_set x86 s n v = Some s' -> r_valid s' x = beq x n || r_valid s x.
Proof.
  intros s n v s' x M H. unfold real_set in H. rewrite M in H.
  destruct (fits (a_width x86) v); [|discriminate]. inversion H; subst. cbn [r_valid]. unfold updb.
  destruct (beq x n); reflexivity.
Qed.

Theorem real_fpo_exact : forall E i abp ctx valid s',
  walk_win_fpo (real_ops x86) E i abp (real_init x86 ctx valid) = (s', true) ->
  forall n, r_valid s' n = fpo_sets E abp n || r_valid (real_init x86 ctx valid) n.
Proof.
  intros E i abp ctx valid s' H x. set (s := real_init x86 ctx valid) in *. clearbody s.
  unfold walk_win_fpo in H. rewrite clear_all_real_noop in H. cbv zeta in H.
  do 8 step H.
  match type of H with (match ?y with _ => _ end) = _ => destruct y as [[s1 cebp]|] eqn:R2; [|discriminate H] end.
  match type of H with (match ?y with _ => _ end) = _ => destruct y as [s2|] eqn:S2; [|discriminate H] end.
  match type of H with (match ?y with _ => _ end) = _ => destruct y as [s3|] eqn:S3; [|discriminate H] end.
  match type of H with (match ?y with _ => _ end) = _ => destruct y as [s4|] eqn:S4; [|discriminate H] end.
  inversion H; subst s4. cbn [real_ops o_set] in S2, S3, S4.
  rewrite (real_set_valid_exact _ _ _ _ x (six_memoize N_ebp ltac:(cbn; tauto)) S4).
  rewrite (real_set_valid_exact _ _ _ _ x (six_memoize N_esp ltac:(cbn; tauto)) S3).
  rewrite (real_set_valid_exact _ _ _ _ x (six_memoize N_eip ltac:(cbn; tauto)) S2).
  unfold fpo_sets.
  destruct abp.
  - repeat match type of R2 with (match ?y with _ => _ end) = _ => destruct y eqn:?; try discriminate R2 end.
    inversion R2; subst. cbn [negb andb]. destruct (beq x N_eip), (beq x N_esp), (beq x N_ebp); reflexivity.
  - destruct (e_callee E N_ebx) as [bx|] eqn:Eb.
    + destruct (o_set (real_ops x86) s N_ebx bx) as [s1'|] eqn:S1; [|discriminate R2].
      destruct (e_callee E N_ebp); [|discriminate R2]. inversion R2; subst.
      cbn [real_ops o_set] in S1.
      rewrite (real_set_valid_exact _ _ _ _ x (six_memoize N_ebx ltac:(cbn; tauto)) S1).
      cbn [negb andb is_some]. destruct (beq x N_eip), (beq x N_esp), (beq x N_ebp), (beq x N_ebx); reflexivity.
    + destruct (e_callee E N_ebp); [|discriminate R2]. inversion R2; subst.
      cbn [negb andb is_some]. rewrite andb_false_r. destruct (beq x N_eip), (beq x N_esp), (beq x N_ebp); reflexivity.
Qed.

(* ---- SymbolFile::walk_frame: which record is used ---- *)
From RM Require C08.Model.
Definition cfi_fallback {S} (ops : wops S) (p : profile) (E : env) (f : symfile) (s : S) : outcome (option S) :=
  match sf_cfi f with
  | Some r => walk_frame_cfi ops p E r (e_instr E) s
  | None => Ret None
  end.

Lemma record_preference : forall S (ops : wops S) p E f s fd fp,
  win_table (sf_framedata f) = Ret fd -> win_table (sf_fpo f) = Ret fp ->
  (* a frame-data record covering the address wins, whatever the FPO table holds *)
  (forall i e, C08.Model.rm_get fd (e_instr E) = Some i -> w_thing i = ProgramString e ->
     walk_frame ops p E f s =
     (do wr <- walk_win_framedata ops p E i e s;
      if snd wr then Ret (Some (fst wr)) else cfi_fallback ops p E f (fst wr))) /\
  (* otherwise the FPO record covering it *)
  (forall i b, C08.Model.rm_get fd (e_instr E) = None -> C08.Model.rm_get fp (e_instr E) = Some i ->
     w_thing i = AllocatesBasePointer b ->
     walk_frame ops p E f s =
     (let wr := walk_win_fpo ops E i b s in
      if snd wr then Ret (Some (fst wr)) else cfi_fallback ops p E f (fst wr))) /\
  (* STACK CFI is consulted exactly when no STACK WIN record applied or the one that applied failed *)
  (C08.Model.rm_get fd (e_instr E) = None -> C08.Model.rm_get fp (e_instr E) = None ->
     walk_frame ops p E f s = cfi_fallback ops p E f s).
Proof.
  intros S ops p E f s fd fp Hfd Hfp. unfold walk_frame, cfi_fallback. rewrite Hfd, Hfp. cbn [obind].
  split; [|split].
  - intros i e Hg Ht. rewrite Hg, Ht. destruct (walk_win_framedata ops p E i e s) as [[s1 ok]| | |]; reflexivity.
  - intros i b Hn Hg Ht. rewrite Hn, Hg, Ht. cbn [obind]. destruct (walk_win_fpo ops E i b s) as [s1 ok]. reflexivity.
  - intros Hn Hn2. rewrite Hn, Hn2. reflexivity.
Qed.
