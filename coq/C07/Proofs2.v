(* C07/Proofs2.v — walk_frame totality, FPO, the mock walker, program-string facts. *)
From Coq Require Import String Lia.
From RM Require Import C06.Model C06.Proofs C07.Model C07.Proofs.
From RM Require C08.Model C08.Proofs.
Import ListNotations.
Open Scope Z_scope.

(* ---- derived Eq of StackInfoWin ---- *)
Lemma thing_eqb_eq : forall a b, thing_eqb a b = true <-> a = b.
Proof.
  destruct a as [x|x], b as [y|y]; cbn [thing_eqb]; split; intro H; try discriminate.
  - apply beq_eq in H. congruence.
  - inversion H. apply beq_refl.
  - apply Bool.eqb_prop in H. congruence.
  - inversion H. apply Bool.eqb_reflx.
Qed.
Lemma win_eqb_eq : forall a b, win_eqb a b = true <-> a = b.
Proof.
  intros [a1 a2 a3 a4 a5 a6 a7 a8 a9] [b1 b2 b3 b4 b5 b6 b7 b8 b9]. unfold win_eqb.
  cbn [w_addr w_size w_prolog w_epilog w_params w_saved w_locals w_maxstack w_thing]. split; intro H.
  - repeat (apply andb_prop in H; destruct H as [H ?H]).
    repeat match goal with X : (_ =? _) = true |- _ => apply Z.eqb_eq in X end.
    match goal with X : thing_eqb _ _ = true |- _ => apply thing_eqb_eq in X end. congruence.
  - inversion H; subst. rewrite !Z.eqb_refl. cbn [andb]. apply thing_eqb_eq. reflexivity.
Qed.

Definition is_framedata (i : win_info) : Prop := match w_thing i with ProgramString _ => True | _ => False end.
Definition is_fpo (i : win_info) : Prop := match w_thing i with AllocatesBasePointer _ => True | _ => False end.

(* the overlap repair only changes sizes *)
Lemma insert_win_things : forall (P : win_info -> Prop) acc i acc',
  (forall x sz, P x -> P (set_size x sz)) ->
  Forall (fun e => P (snd e)) acc -> P i -> insert_win acc i = Ret acc' -> Forall (fun e => P (snd e)) acc'.
Proof.
  intros P acc i acc' Hsz Hacc Hi H. unfold insert_win in H.
  destruct (win_range i) as [mr|]; [|inversion H; subst; exact Hacc].
  destruct acc as [|[lr li] rest]; [inversion H; subst; constructor; [exact Hi|constructor]|].
  inversion Hacc as [|? ? Hl Hrest]; subst. cbn [snd] in Hl.
  destruct (C08.Model.intersects lr mr).
  - destruct (w_addr i >? w_addr li).
    + destruct (win_range (set_size li (wrap32 (w_addr i - w_addr li)))); [|discriminate].
      inversion H; subst. constructor; [exact Hi|]. constructor; [cbn [snd]; apply Hsz; exact Hl|exact Hrest].
    + destruct (negb (range_eqb lr mr)); inversion H; subst; [exact Hacc|constructor; [exact Hi|exact Hacc]].
  - inversion H; subst. constructor; [exact Hi|exact Hacc].
Qed.
Lemma insert_all_things : forall (P : win_info -> Prop) l acc acc',
  (forall x sz, P x -> P (set_size x sz)) ->
  Forall (fun e => P (snd e)) acc -> Forall P l -> insert_all l acc = Ret acc' -> Forall (fun e => P (snd e)) acc'.
Proof.
  induction l as [|i r IH]; intros acc acc' Hsz Hacc Hl H; cbn [insert_all] in H; [inversion H; subst; exact Hacc|].
  inversion Hl; subst. destruct (insert_win acc i) as [acc1| | |] eqn:E1; cbn [obind] in H; try discriminate.
  eapply IH; [exact Hsz| |eassumption|exact H]. eapply insert_win_things; eauto.
Qed.

Lemma table_get_things : forall (P : win_info -> Prop) l t addr i,
  (forall x sz, P x -> P (set_size x sz)) -> Forall win_wf l -> Forall P l ->
  win_table l = Ret t -> C08.Model.rm_get t addr = Some i -> P i.
Proof.
  intros P l t addr i Hsz Hwf HP Ht Hg. unfold win_table in Ht.
  destruct (insert_all_ok l [] (Forall_nil _) Hwf) as [acc [E W]]. rewrite E in Ht. cbn [obind] in Ht.
  pose proof (acc_wf_ranges acc W) as Hr.
  rewrite (C08.Proofs.build_total_p win_eqb (rev acc) Hr) in Ht. inversion Ht; subst t.
  destruct (C08.Proofs.lookup_sound_p win_eqb win_eqb_eq (rev acc) addr i Hr Hg) as [r [Hin _]].
  pose proof (insert_all_things P l [] acc Hsz (Forall_nil _) HP E) as Hall.
  rewrite Forall_forall in Hall. apply in_rev in Hin. exact (Hall (r, i) Hin).
Qed.

Lemma walk_frame_total7 : forall (S : Type) (ops : wops S) (p : profile) (E : env) (f : symfile) (s : S),
  Forall win_wf (sf_framedata f) -> Forall win_wf (sf_fpo f) ->
  Forall is_framedata (sf_framedata f) -> Forall is_fpo (sf_fpo f) ->
  exists r : option S, walk_frame ops p E f s = Ret r.
Proof.
  intros S ops p E f s W1 W2 P1 P2. unfold walk_frame.
  destruct (win_table_total _ W1) as [fd Efd]. destruct (win_table_total _ W2) as [fp Efp].
  rewrite Efd, Efp. cbn [obind].
  assert (Hsz1 : forall x sz, is_framedata x -> is_framedata (set_size x sz)) by (intros x sz H; exact H).
  assert (Hsz2 : forall x sz, is_fpo x -> is_fpo (set_size x sz)) by (intros x sz H; exact H).
  assert (Hwr : exists wr, (match C08.Model.rm_get fd (e_instr E) with
           | Some i => match w_thing i with
                       | ProgramString e => walk_win_framedata ops p E i e s
                       | _ => Panic PANIC_WIN_UNREACHABLE end
           | None => match C08.Model.rm_get fp (e_instr E) with
                     | Some i => match w_thing i with
                                 | AllocatesBasePointer b => Ret (walk_win_fpo ops E i b s)
                                 | _ => Panic PANIC_WIN_UNREACHABLE end
                     | None => Ret (s, false) end end) = Ret wr).
  { destruct (C08.Model.rm_get fd (e_instr E)) as [i|] eqn:G1.
    - pose proof (table_get_things is_framedata _ _ _ _ Hsz1 W1 P1 Efd G1) as Hi. unfold is_framedata in Hi.
      destruct (w_thing i); [apply framedata_total|contradiction].
    - destruct (C08.Model.rm_get fp (e_instr E)) as [i|] eqn:G2; [|eexists; reflexivity].
      pose proof (table_get_things is_fpo _ _ _ _ Hsz2 W2 P2 Efp G2) as Hi. unfold is_fpo in Hi.
      destruct (w_thing i); [contradiction|eexists; reflexivity]. }
  destruct Hwr as [[s1 okw] Hwr]. rewrite Hwr. cbn [obind].
  destruct okw; [eexists; reflexivity|].
  destruct (sf_cfi f); [apply walk_frame_total|eexists; reflexivity].
Qed.

(* ---- FPO through the real x86 walker ---- *)
Definition is_some {A} (o : option A) : bool := match o with Some _ => true | None => false end.
(* what an FPO record sets: eip, esp, ebp, and (documented pass-through) ebx when no base pointer is allocated *)
Definition fpo_sets (E : env) (abp : bool) (n : bytes) : bool :=
  beq n N_eip || beq n N_esp || beq n N_ebp || (negb abp && beq n N_ebx && is_some (e_callee E N_ebx)).
Definition Known_C07a_fpo (E : env) (abp : bool) (ctx : list (bytes * Z)) (valid : option (list bytes)) : bool :=
  existsb (fun n => r_valid (real_init x86 ctx valid) n && negb (fpo_sets E abp n)) (a_saved x86).

Ltac step H :=
  match type of H with
  | (match ?x with _ => _ end) = _ => destruct x eqn:?; cbv iota beta in H; try discriminate H
  | (let (_, _) := ?x in _) = _ => destruct x eqn:?; cbv iota beta in H
  end.

Lemma fpo_sets_eip : forall E abp, fpo_sets E abp N_eip = true. Proof. reflexivity. Qed.
Lemma fpo_sets_esp : forall E abp, fpo_sets E abp N_esp = true. Proof. reflexivity. Qed.
Lemma fpo_sets_ebp : forall E abp, fpo_sets E abp N_ebp = true. Proof. reflexivity. Qed.

Lemma fpo_valid : forall E i abp s s' x,
  walk_win_fpo (real_ops x86) E i abp s = (s', true) ->
  r_valid s' x = true -> r_valid s x = true \/ fpo_sets E abp x = true.
Proof.
  intros E i abp s s' x H Hx. unfold walk_win_fpo in H. rewrite clear_all_real_noop in H. cbv zeta in H.
  do 8 step H.
  match type of H with (match ?y with _ => _ end) = _ => destruct y as [[s1 cebp]|] eqn:R2; [|discriminate H] end.
  match type of H with (match ?y with _ => _ end) = _ => destruct y as [s2|] eqn:S2; [|discriminate H] end.
  match type of H with (match ?y with _ => _ end) = _ => destruct y as [s3|] eqn:S3; [|discriminate H] end.
  match type of H with (match ?y with _ => _ end) = _ => destruct y as [s4|] eqn:S4; [|discriminate H] end.
  inversion H; subst s4. cbn [real_ops o_set] in S2, S3, S4.
  destruct (real_set_valid _ _ _ _ x S4 Hx) as [Q|Q]; [subst x; right; apply fpo_sets_ebp|].
  destruct (real_set_valid _ _ _ _ x S3 Q) as [Q3|Q3]; [subst x; right; apply fpo_sets_esp|].
  destruct (real_set_valid _ _ _ _ x S2 Q3) as [Q2|Q2]; [subst x; right; apply fpo_sets_eip|].
  destruct abp.
  - repeat match type of R2 with (match ?y with _ => _ end) = _ => destruct y eqn:?; try discriminate R2 end.
    inversion R2; subst. left; exact Q2.
  - destruct (e_callee E N_ebx) as [bx|] eqn:Eb.
    + destruct (o_set (real_ops x86) s N_ebx bx) as [s1'|] eqn:S1; [|discriminate R2].
      destruct (e_callee E N_ebp); [|discriminate R2]. inversion R2; subst.
      cbn [real_ops o_set] in S1. destruct (real_set_valid _ _ _ _ x S1 Q2) as [Q1|Q1]; [|left; exact Q1].
      subst x. right. unfold fpo_sets. rewrite Eb. reflexivity.
    + destruct (e_callee E N_ebp); [|discriminate R2]. inversion R2; subst. left; exact Q2.
Qed.

Theorem only_six_no_forwarding_fpo : forall E i abp ctx valid s',
  walk_win_fpo (real_ops x86) E i abp (real_init x86 ctx valid) = (s', true) ->
  Known_C07a_fpo E abp ctx valid = false ->
  forall n, r_valid s' n = true -> fpo_sets E abp n = true.
Proof.
  intros E i abp ctx valid s' H Hk n Hn.
  destruct (fpo_valid _ _ _ _ _ _ H Hn) as [A|A]; [|exact A].
  assert (Hs : In n (a_saved x86)).
  { unfold real_init in A. cbn [r_valid] in A. apply andb_prop in A. destruct A as [A _]. apply mem_b_in. exact A. }
  unfold Known_C07a_fpo in Hk. pose proof (existsb_false _ _ _ Hk n Hs) as Hk1. cbn beta in Hk1.
  rewrite A in Hk1. cbn [andb] in Hk1. apply Bool.negb_false_iff in Hk1. exact Hk1.
Qed.

(* ---- the mock walker (no forwarding): exactly the defined outputs ---- *)
Lemma mem_b_false_notin : forall k l, mem_b k l = false -> ~ In k l.
Proof.
  induction l as [|x r IH]; cbn [mem_b]; intros H Hin; [contradiction|].
  apply orb_false_elim in H. destruct H as [H1 H2]. destruct Hin as [Hin|Hin]; [subst; rewrite beq_refl in H1; discriminate|].
  exact (IH H2 Hin).
Qed.
Lemma notin_mem_b : forall k l, ~ In k l -> mem_b k l = false.
Proof.
  induction l as [|x r IH]; cbn [mem_b]; intro H; [reflexivity|].
  apply orb_false_intro; [apply beq_neq; intro; subst; apply H; left; reflexivity|apply IH; intro; apply H; right; assumption].
Qed.

Lemma mock_set_outputs : forall names m s s',
  NoDup names ->
  set_outputs (mock_ops 4) (map (fun n => (dollar n, n)) names) m s = (s', true) ->
  forall x, m_regs s' x = if mem_b x names then match vget (dollar x) m with Some v => SetTo v | None => m_regs s x end
                          else m_regs s x.
Proof.
  induction names as [|n r IH]; intros m s s' Hnd H x; cbn [map set_outputs] in H.
  - inversion H; subst. reflexivity.
  - inversion Hnd as [|? ? Hnin Hd]; subst. cbn [mem_b].
    destruct (vget (dollar n) m) as [v|] eqn:Ev.
    + cbn [mock_ops o_set] in H. destruct (starts_no n || negb (fits 4 v)); [discriminate|].
      rewrite (IH m _ s' Hd H x). cbn [m_regs]. unfold upd.
      destruct (beq x n) eqn:B.
      * apply beq_eq in B. subst x. rewrite (notin_mem_b n r Hnin). cbn [orb]. rewrite Ev. reflexivity.
      * cbn [orb]. reflexivity.
    + rewrite (IH m s s' Hd H x). destruct (beq x n) eqn:B; cbn [orb]; [|reflexivity].
      apply beq_eq in B. subst x. rewrite (notin_mem_b n r Hnin). rewrite Ev. reflexivity.
Qed.

Lemma mock_clear_all : forall names s x,
  m_regs (clear_all (mock_ops 4) names s) x = if mem_b x names then Cleared else m_regs s x.
Proof.
  induction names as [|n r IH]; intros s x; cbn [clear_all mem_b]; [reflexivity|].
  rewrite IH. cbn [mock_ops o_clear m_regs]. unfold upd.
  destruct (beq x n); cbn [orb]; [destruct (mem_b x r); reflexivity|reflexivity].
Qed.

Lemma six_nodup : NoDup six.
Proof.
  unfold six. repeat constructor; cbn [In]; intro H;
    repeat match goal with X : _ \/ _ |- _ => destruct X as [X|X] end; try contradiction; discriminate.
Qed.

Theorem mock_framedata_exact : forall p E i e s' m,
  walk_win_framedata (mock_ops 4) p E i e m_init = Ret (s', true) ->
  win_final_vars p E i e = Ret (Some m) ->
  forall n, m_regs s' n = (if mem_b n six then
                             match vget (dollar n) m with Some v => SetTo v | None => Unset end
                           else if mem_b n win_clear_names then Cleared else Unset).
Proof.
  intros p E i e s' m H Hm n. unfold walk_win_framedata in H. rewrite Hm in H. cbn [obind] in H.
  assert (H1 : set_outputs (mock_ops 4) win_outputs m (clear_all (mock_ops 4) win_clear_names m_init) = (s', true))
    by congruence.
  rewrite outputs_dollar in H1. rewrite (mock_set_outputs six m _ s' six_nodup H1 n).
  rewrite mock_clear_all. cbn [m_init m_regs].
  destruct (mem_b n six) eqn:M6; [|reflexivity].
  destruct (vget (dollar n) m); [reflexivity|].
  apply mem_b_in in M6. unfold six in M6. cbn [In] in M6.
  repeat match goal with X : _ \/ _ |- _ => destruct X as [X|X] end; try contradiction; subst n; reflexivity.
Qed.

(* ---- program strings ---- *)
Definition NoDupKeys (m : vars) : Prop := NoDup (map fst m).

Lemma vget_vset_same : forall k v m, vget k (vset k v m) = Some v.
Proof.
  induction m as [|[k' v'] r IH]; cbn [vset vget]; [rewrite beq_refl; reflexivity|].
  destruct (beq k k') eqn:B; cbn [vget]; [rewrite beq_refl; reflexivity|rewrite B; exact IH].
Qed.
Lemma vget_notin : forall k m, ~ In k (map fst m) -> vget k m = None.
Proof.
  induction m as [|[k' v'] r IH]; cbn [vget map fst]; intro H; [reflexivity|].
  destruct (beq k k') eqn:B; [apply beq_eq in B; subst; exfalso; apply H; left; reflexivity|].
  apply IH. intro; apply H; right; assumption.
Qed.
Lemma vget_vdel_same : forall k m, NoDupKeys m -> vget k (vdel k m) = None.
Proof.
  induction m as [|[k' v'] r IH]; intro Hn; cbn [vdel]; [reflexivity|].
  unfold NoDupKeys in Hn. cbn [map fst] in Hn. inversion Hn as [|? ? Hnin Hd]; subst.
  destruct (beq k k') eqn:B.
  - apply beq_eq in B. subst. apply vget_notin. exact Hnin.
  - cbn [vget]. rewrite B. apply IH. exact Hd.
Qed.

Lemma assign_int : forall p E m name v st,
  win_step p E T_eq (m, WInt v :: WVar name :: st) = Ret (vset name v m, st).
Proof. reflexivity. Qed.
Lemma assign_var : forall p E m name src v st, vget src m = Some v ->
  win_step p E T_eq (m, WVar src :: WVar name :: st) = Ret (vset name v m, st).
Proof.
  intros p E m name src v st H.
  change (win_step p E T_eq (m, WVar src :: WVar name :: st)) with
    (match vget src m with Some v0 => Ret (vset name v0 m, st) | None => Fail end).
  rewrite H. reflexivity.
Qed.
Lemma assign_undef : forall p E m name st,
  win_step p E T_eq (m, WUndef :: WVar name :: st) = Ret (vdel name m, st).
Proof. reflexivity. Qed.
Lemma wrap_ops : forall p E m l r st,
  win_step p E T_plus (m, WInt r :: WInt l :: st) = Ret (m, WInt ((l + r) mod two32) :: st) /\
  win_step p E T_minus (m, WInt r :: WInt l :: st) = Ret (m, WInt ((l - r) mod two32) :: st) /\
  win_step p E T_star (m, WInt r :: WInt l :: st) = Ret (m, WInt ((l * r) mod two32) :: st).
Proof. intros. repeat split; reflexivity. Qed.

Lemma checked_add_inv : forall w a b s, checked_add w a b = Some s -> s = a + b /\ a + b < 2 ^ w.
Proof.
  intros w a b s H. unfold checked_add in H. destruct (a + b <? 2 ^ w) eqn:E; [|discriminate].
  apply Z.ltb_lt in E. inversion H. auto.
Qed.

Lemma initial_vars_spec : forall E i e m, win_initial_vars E i e = Some m ->
  exists esp ebp fs,
    e_callee E N_esp = Some esp /\ e_callee E N_ebp = Some ebp /\
    win_frame_size i (e_gcps E) = Some fs /\ fs = w_locals i + w_saved i + e_gcps E /\ fs < two32 /\
    vget D_esp m = Some (wrap32 esp) /\ vget D_ebp m = Some (wrap32 ebp) /\
    vget D_ebx m = option_map wrap32 (e_callee E N_ebx) /\
    vget V_cbParams m = Some (w_params i) /\ vget V_cbCalleeParams m = Some (e_gcps E) /\
    vget V_cbSavedRegs m = Some (w_saved i) /\ vget V_cbLocals m = Some (w_locals i) /\
    vget V_raSearch m = vget V_raSearchStart m /\
    vget V_raSearch m = Some (if contains_at e then wrap32 ebp + 4 else wrap32 esp + fs) /\
    (if contains_at e then wrap32 ebp + 4 else wrap32 esp + fs) < two32.
Proof.
  intros E i e m H. unfold win_initial_vars in H.
  destruct (e_callee E N_esp) as [esp|] eqn:Eesp; [|discriminate].
  destruct (e_callee E N_ebp) as [ebp|] eqn:Eebp; [|discriminate].
  destruct (win_frame_size i (e_gcps E)) as [fs|] eqn:Efs; [|discriminate].
  destruct (if contains_at e then checked_add 32 (wrap32 ebp) 4 else checked_add 32 (wrap32 esp) fs) as [ss|] eqn:Ess;
    [|discriminate].
  exists esp, ebp, fs.
  assert (Hfs : fs = w_locals i + w_saved i + e_gcps E /\ fs < two32).
  { unfold win_frame_size in Efs. destruct (checked_add 32 (w_locals i) (w_saved i)) as [a|] eqn:Ea; [|discriminate].
    apply checked_add_inv in Ea. apply checked_add_inv in Efs. unfold two32. destruct Ea, Efs. split; lia. }
  assert (Hss : ss = (if contains_at e then wrap32 ebp + 4 else wrap32 esp + fs) /\ ss < two32).
  { destruct (contains_at e); apply checked_add_inv in Ess; unfold two32; destruct Ess; split; lia. }
  destruct Hfs as [Hfs1 Hfs2]. destruct Hss as [Hss1 Hss2]. rewrite <- Hss1.
  inversion H as [Hm]. clear H.
  destruct (e_callee E N_ebx) as [b|]; cbn [option_map];
    repeat split; auto; vm_compute; reflexivity.
Qed.

(* ---- FPO formulae on the mock walker ---- *)
Lemma mock_set_some : forall s n v s', o_set (mock_ops 4) s n v = Some s' ->
  m_regs s' = upd (m_regs s) n (SetTo v).
Proof.
  intros s n v s' H. cbn [mock_ops o_set] in H. destruct (starts_no n || negb (fits 4 v)); [discriminate|].
  inversion H. reflexivity.
Qed.

Theorem fpo_formulae : forall E i abp s',
  walk_win_fpo (mock_ops 4) E i abp m_init = (s', true) ->
  exists fs esp a eip,
    win_frame_size i (e_gcps E) = Some fs /\ e_callee E N_esp = Some esp /\
    (a = esp + fs \/
     (a = esp + fs + 4 /\ e_has_gc E = false /\ e_mem E (esp + fs) = e_callee E N_eip)) /\
    (a = esp + fs -> e_has_gc E = false -> e_mem E (esp + fs) <> e_callee E N_eip) /\
    e_mem E a = Some eip /\
    m_regs s' N_eip = SetTo eip /\ m_regs s' N_esp = SetTo (a + 4) /\
    (if abp then exists v, e_mem E (esp + e_gcps E + w_saved i - 8) = Some v /\ m_regs s' N_ebp = SetTo v /\
                           m_regs s' N_ebx = Unset
     else exists v, e_callee E N_ebp = Some v /\ m_regs s' N_ebp = SetTo v /\
                    m_regs s' N_ebx = match e_callee E N_ebx with Some b => SetTo b | None => Unset end).
Proof.
  intros E i abp s' H. unfold walk_win_fpo in H. cbv zeta in H.
  set (s0 := clear_all (mock_ops 4) win_clear_names m_init) in *.
  assert (Hs0 : forall n, In n six -> m_regs s0 n = Unset).
  { intros n Hn. unfold s0. rewrite mock_clear_all. cbn [m_init m_regs].
    unfold six in Hn. cbn [In] in Hn.
    repeat match goal with X : _ \/ _ |- _ => destruct X as [X|X] end; try contradiction; subst n; reflexivity. }
  destruct (win_frame_size i (e_gcps E)) as [fs|] eqn:Efs; [|discriminate].
  destruct (e_callee E N_esp) as [esp|] eqn:Eesp; [|discriminate].
  destruct (checked_add 64 esp fs) as [a0|] eqn:Ea0; [|discriminate].
  apply checked_add_inv in Ea0. destruct Ea0 as [Ea0 _]. subst a0.
  destruct (e_mem E (esp + fs)) as [eip0|] eqn:Em0; [|discriminate].
  destruct (if negb (e_has_gc E) then match e_callee E N_eip with Some ce => Some (eip0 =? ce) | None => None end
            else Some false) as [sk|] eqn:Esk; [|discriminate].
  destruct (if sk then match checked_add 64 (esp + fs) 4 with
                       | Some a1 => match e_mem E a1 with Some v => Some (a1, v) | None => None end
                       | None => None end
            else Some (esp + fs, eip0)) as [[a1 ceip]|] eqn:Er1; [|discriminate].
  destruct (checked_add 64 a1 4) as [cesp|] eqn:Ecesp; [|discriminate].
  apply checked_add_inv in Ecesp. destruct Ecesp as [Ecesp _]. subst cesp.
  assert (Ha1 : (a1 = esp + fs \/ (a1 = esp + fs + 4 /\ e_has_gc E = false /\ e_mem E (esp + fs) = e_callee E N_eip)) /\
                (a1 = esp + fs -> e_has_gc E = false -> e_mem E (esp + fs) <> e_callee E N_eip) /\
                e_mem E a1 = Some ceip).
  { destruct sk.
    - destruct (checked_add 64 (esp + fs) 4) as [a2|] eqn:Ea2; [|discriminate].
      apply checked_add_inv in Ea2. destruct Ea2 as [Ea2 _]. subst a2.
      destruct (e_mem E (esp + fs + 4)) as [v|] eqn:Em1; [|discriminate]. inversion Er1; subst.
      destruct (e_has_gc E) eqn:Eg; cbn [negb] in Esk; [discriminate|].
      destruct (e_callee E N_eip) as [ce|] eqn:Ece; [|discriminate]. inversion Esk as [Hq].
      apply Z.eqb_eq in Hq. subst ce.
      split; [right; split; [reflexivity|split; [reflexivity|exact Em0]]|]. split; [intro; lia|exact Em1].
    - inversion Er1; subst. split; [left; reflexivity|]. split; [|exact Em0].
      intros _ Hg. rewrite Hg in Esk. cbn [negb] in Esk.
      destruct (e_callee E N_eip) as [ce|] eqn:Ece; [|discriminate]. inversion Esk as [Hq].
      apply Z.eqb_neq in Hq. rewrite Em0. intro Hc. inversion Hc. contradiction. }
  destruct Ha1 as [Ha1 [Ha2 Ha3]].
  exists fs, esp, a1, ceip. split; [reflexivity|]. split; [reflexivity|]. split; [exact Ha1|]. split; [exact Ha2|].
  split; [exact Ha3|].
  clear Esk Er1.
  destruct abp.
  - destruct (checked_add 64 esp (e_gcps E)) as [b1|] eqn:Eb1; [|discriminate H].
    apply checked_add_inv in Eb1. destruct Eb1 as [Eb1 _]. subst b1.
    destruct (checked_add 64 (esp + e_gcps E) (w_saved i)) as [b2|] eqn:Eb2; [|discriminate H].
    apply checked_add_inv in Eb2. destruct Eb2 as [Eb2 _]. subst b2.
    destruct (checked_sub (esp + e_gcps E + w_saved i) 8) as [b3|] eqn:Eb3; [|discriminate H].
    unfold checked_sub in Eb3. destruct (0 <=? esp + e_gcps E + w_saved i - 8); [|discriminate Eb3].
    inversion Eb3; subst b3.
    destruct (e_mem E (esp + e_gcps E + w_saved i - 8)) as [v|] eqn:Emv; [|discriminate H].
    destruct (o_set (mock_ops 4) s0 N_eip ceip) as [s2|] eqn:S2; [|discriminate H].
    destruct (o_set (mock_ops 4) s2 N_esp (a1 + 4)) as [s3|] eqn:S3; [|discriminate H].
    destruct (o_set (mock_ops 4) s3 N_ebp v) as [s4|] eqn:S4; [|discriminate H].
    inversion H; subst s4.
    apply mock_set_some in S2. apply mock_set_some in S3. apply mock_set_some in S4.
    rewrite S4, S3, S2. unfold upd. split; [reflexivity|]. split; [reflexivity|].
    exists v. split; [reflexivity|]. split; [reflexivity|].
    change (m_regs s0 N_ebx = Unset). apply Hs0. unfold six. cbn; tauto.
  - destruct (match e_callee E N_ebx with Some b => o_set (mock_ops 4) s0 N_ebx b | None => Some s0 end)
      as [s1|] eqn:S1; [|destruct (e_callee E N_ebx); discriminate H].
    destruct (e_callee E N_ebp) as [v|] eqn:Ebp;
      [|destruct (e_callee E N_ebx); [destruct (o_set (mock_ops 4) s0 N_ebx z)|]; discriminate H].
    destruct (o_set (mock_ops 4) s1 N_eip ceip) as [s2|] eqn:S2; [|discriminate H].
    destruct (o_set (mock_ops 4) s2 N_esp (a1 + 4)) as [s3|] eqn:S3; [|discriminate H].
    destruct (o_set (mock_ops 4) s3 N_ebp v) as [s4|] eqn:S4; [|discriminate H].
    inversion H; subst s4.
    apply mock_set_some in S2. apply mock_set_some in S3. apply mock_set_some in S4.
    rewrite S4, S3, S2. unfold upd. split; [reflexivity|]. split; [reflexivity|].
    exists v. split; [reflexivity|]. split; [reflexivity|].
    change (m_regs s1 N_ebx = match e_callee E N_ebx with Some b => SetTo b | None => Unset end).
    destruct (e_callee E N_ebx) as [b|].
    + apply mock_set_some in S1. rewrite S1. unfold upd. rewrite beq_refl. reflexivity.
    + inversion S1; subst s1. apply Hs0. unfold six. cbn; tauto.
Qed.
