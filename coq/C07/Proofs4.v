(* C07/Proofs4.v — the STACK WIN record table: refinement of the containment spec for non-overlapping
   records, and the exact behaviour of insert_win_stack_info on an overlap. *)
From Coq Require Import Lia.
From RM Require Import C06.Model C06.Proofs C07.Model C07.Proofs C07.Proofs2.
From RM Require C08.Model C08.Proofs.
Import ListNotations.
Open Scope Z_scope.

Lemma intersects_sym : forall a b, C08.Model.intersects a b = C08.Model.intersects b a.
Proof. intros. unfold C08.Model.intersects. apply andb_comm. Qed.

Lemma disjoint_app : forall a b, disjoint_ranges (a ++ b) ->
  disjoint_ranges a /\ disjoint_ranges b /\
  (forall e1 e2, In e1 a -> In e2 b -> C08.Model.intersects (fst e1) (fst e2) = false).
Proof.
  induction a as [|e t IH]; intros b H; cbn [app disjoint_ranges] in *.
  - split; [exact I|]. split; [exact H|]. intros e1 e2 [].
  - destruct H as [H1 H2]. destruct (IH b H2) as [A [B C]].
    split; [split; [intros e' He'; apply H1; apply in_or_app; left; exact He'|exact A]|].
    split; [exact B|]. intros e1 e2 [He1|He1] He2; [subst; apply H1; apply in_or_app; right; exact He2|apply C; assumption].
Qed.

Lemma disjoint_split : forall l1 r v l2,
  disjoint_ranges (l1 ++ (r, v) :: l2) ->
  forall r' v', In (r', v') (l1 ++ l2) -> C08.Model.intersects r r' = false.
Proof.
  intros l1 r v l2 H r' v' Hin. destruct (disjoint_app _ _ H) as [_ [B C]].
  apply in_app_or in Hin. destruct Hin as [Hin|Hin].
  - rewrite intersects_sym. apply (C (r', v') (r, v) Hin). left; reflexivity.
  - cbn [disjoint_ranges] in B. destruct B as [B _]. apply (B (r', v') Hin).
Qed.

(* ---- insert_win_stack_info, case by case ---- *)
Theorem insert_win_cases : forall lr li rest i mr,
  acc_wf ((lr, li) :: rest) -> win_wf i -> win_range i = Some mr ->
  (C08.Model.intersects lr mr = false -> insert_win ((lr, li) :: rest) i = Ret ((mr, i) :: (lr, li) :: rest)) /\
  (C08.Model.intersects lr mr = true ->
     (* 1. the new record starts later: the previous one is cut to end just before it *)
     (w_addr li < w_addr i ->
        insert_win ((lr, li) :: rest) i =
        Ret ((mr, i) :: ((w_addr li, w_addr i - 1), set_size li (w_addr i - w_addr li)) :: rest)) /\
     (* 2. it does not start later and covers a different range: it is dropped *)
     (w_addr i <= w_addr li -> lr <> mr -> insert_win ((lr, li) :: rest) i = Ret ((lr, li) :: rest)) /\
     (* 3. the very same range: both are kept (the table builder then keeps the first of two different records) *)
     (lr = mr -> insert_win ((lr, li) :: rest) i = Ret ((mr, i) :: (lr, li) :: rest))).
Proof.
  intros lr li rest i mr Hacc Hi Er. unfold insert_win. rewrite Er.
  inversion Hacc as [|? ? [Hl1 Hl2] Hrest]; subst. cbn [fst snd] in Hl1, Hl2.
  split; [intro Ei; rewrite Ei; reflexivity|]. intro Ei. rewrite Ei.
  destruct (win_range_inv _ _ Hl1) as [A1 [A2 A3]]. destruct (win_range_inv _ _ Er) as [B1 [B2 B3]].
  split; [|split].
  - intro Hlt. replace (w_addr i >? w_addr li) with true by (symmetry; apply Z.gtb_lt; exact Hlt).
    subst lr mr. unfold C08.Model.intersects in Ei. cbn [fst snd] in Ei.
    apply andb_prop in Ei. destruct Ei as [Ei1 Ei2]. apply Z.leb_le in Ei1. apply Z.leb_le in Ei2.
    destruct Hl2 as [[La1 La2] [Ls1 Ls2]]. destruct Hi as [[Ia1 Ia2] [Is1 Is2]].
    set (d := w_addr i - w_addr li).
    assert (Hd : 0 < d <= w_size li - 1) by (unfold d; lia).
    assert (Hw : wrap32 d = d). { unfold wrap32. apply Z.mod_small. unfold two32 in *. lia. }
    rewrite Hw.
    assert (Hr : win_range (set_size li d) = Some (w_addr li, w_addr li + d - 1)).
    { unfold win_range, set_size, C08.Model.mk_range, checked_add. cbn [w_addr w_size].
      replace (d =? 0) with false by (symmetry; apply Z.eqb_neq; lia).
      replace (w_addr li + d <? 2 ^ 64) with true by (symmetry; apply Z.ltb_lt; lia). reflexivity. }
    rewrite Hr. assert (Hd2 : w_addr li + d - 1 = w_addr i - 1) by (subst d; lia). rewrite Hd2. reflexivity.
  - intros Hle Hne. replace (w_addr i >? w_addr li) with false by (symmetry; rewrite Z.gtb_ltb; apply Z.ltb_ge; lia).
    assert (Hq : range_eqb lr mr = false).
    { destruct (range_eqb lr mr) eqn:Eq; [|reflexivity]. exfalso. apply Hne. unfold range_eqb in Eq.
      apply andb_prop in Eq. destruct Eq as [Q1 Q2]. apply Z.eqb_eq in Q1. apply Z.eqb_eq in Q2.
      destruct lr, mr. cbn in *. congruence. }
    rewrite Hq. reflexivity.
  - intro Heq.
    assert (Haddr : w_addr i = w_addr li).
    { pose proof Heq as H0. rewrite A3, B3 in H0. inversion H0. reflexivity. }
    replace (w_addr i >? w_addr li) with false by (symmetry; rewrite Z.gtb_ltb; apply Z.ltb_ge; lia).
    assert (Hq : range_eqb lr mr = true) by (rewrite Heq; unfold range_eqb; rewrite !Z.eqb_refl; reflexivity).
    rewrite Hq. reflexivity.
Qed.

(* ---- non-overlapping records: nothing is repaired or dropped ---- *)
Lemma acc_wf_cons : forall mr i acc, win_range i = Some mr -> win_wf i -> acc_wf acc -> acc_wf ((mr, i) :: acc).
Proof. intros. constructor; [cbn; auto|assumption]. Qed.

Lemma insert_all_disjoint : forall l acc,
  acc_wf acc -> Forall win_wf l -> disjoint_ranges (rev acc ++ keep l) ->
  insert_all l acc = Ret (rev (keep l) ++ acc).
Proof.
  induction l as [|i r IH]; intros acc Hacc Hl Hd; cbn [insert_all]; [reflexivity|].
  inversion Hl as [|? ? Hi Hr]; subst.
  change (keep (i :: r)) with ((match win_range i with Some rg => [(rg, i)] | None => [] end) ++ keep r) in *.
  destruct (win_range i) as [mr|] eqn:Er.
  - assert (Hins : insert_win acc i = Ret ((mr, i) :: acc)).
    { destruct acc as [|[lr li] rest]; [unfold insert_win; rewrite Er; reflexivity|].
      destruct (insert_win_cases lr li rest i mr Hacc Hi Er) as [Hno _]. apply Hno.
      destruct (disjoint_app _ _ Hd) as [_ [_ C]].
      apply (C (lr, li) (mr, i)); [apply in_rev; rewrite rev_involutive; left; reflexivity|left; reflexivity]. }
    rewrite Hins. cbn [obind]. rewrite (IH ((mr, i) :: acc)); [| |exact Hr|].
    + cbn [app rev]. rewrite <- app_assoc. reflexivity.
    + apply acc_wf_cons; assumption.
    + cbn [rev]. rewrite <- app_assoc. exact Hd.
  - assert (Hins : insert_win acc i = Ret acc) by (unfold insert_win; rewrite Er; reflexivity).
    rewrite Hins. cbn [obind]. apply IH; assumption.
Qed.

Lemma keep_wf : forall l, Forall win_wf l -> acc_wf (keep l).
Proof.
  induction l as [|i r IH]; intro H; [constructor|]. inversion H; subst.
  change (keep (i :: r)) with ((match win_range i with Some rg => [(rg, i)] | None => [] end) ++ keep r).
  destruct (win_range i) eqn:Er; cbn [app]; [constructor; [cbn; auto|apply IH; assumption]|apply IH; assumption].
Qed.

Theorem table_refines_spec : forall l,
  Forall win_wf l -> disjoint_ranges (keep l) ->
  exists t, win_table l = Ret t /\ forall x, C08.Model.rm_get t x = table_spec_lookup l x.
Proof.
  intros l Hwf Hd. unfold win_table.
  rewrite (insert_all_disjoint l [] (Forall_nil _) Hwf Hd). cbn [obind]. rewrite app_nil_r, rev_involutive.
  pose proof (keep_wf l Hwf) as Hk.
  assert (Hr : C08.Proofs.wf_ranges (keep l)).
  { pose proof (acc_wf_ranges (rev (keep l))) as H. rewrite rev_involutive in H. apply H.
    unfold acc_wf. apply Forall_rev. exact Hk. }
  rewrite (C08.Proofs.build_total_p win_eqb (keep l) Hr). eexists. split; [reflexivity|].
  intro x. unfold table_spec_lookup.
  destruct (filter (fun e => C08.Model.contains (fst e) x) (keep l)) as [|[r i] tl] eqn:Ef.
  - destruct (C08.Model.rm_get (C08.Model.into_rangemap_safe_p win_eqb (keep l)) x) as [v|] eqn:Eg; [|reflexivity].
    destruct (C08.Proofs.lookup_sound_p win_eqb win_eqb_eq (keep l) x v Hr Eg) as [r [Hin Hc]].
    assert (Hf : In (r, v) (filter (fun e => C08.Model.contains (fst e) x) (keep l))) by (apply filter_In; split; assumption).
    rewrite Ef in Hf. contradiction.
  - assert (Hin : In (r, i) (keep l) /\ C08.Model.contains r x = true).
    { apply (filter_In (fun e => C08.Model.contains (fst e) x) (r, i) (keep l)). rewrite Ef. left; reflexivity. }
    destruct Hin as [Hin Hc]. destruct (in_split _ _ Hin) as [l1 [l2 Hs]].
    cbn [snd]. rewrite Hs in *.
    apply (C08.Proofs.isolated_complete_p win_eqb win_eqb_eq l1 r i l2 x Hr); [|exact Hc].
    apply (disjoint_split l1 r i l2 Hd).
Qed.
