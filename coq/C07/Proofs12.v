(* C07/Proofs12.v — the hypothesis [wi_nf] of the text-route theorems is an invariant of C09's parser state machine:
   every STACK WIN record the line parsers hand to insert_win_stack_info carries a program string in run-length normal form
   (it is [rle_norm] of the rest of the line). *)
From Coq Require Import Lia.
From RM Require Import Base.Word C06.Model C07.Model C07.Text C07.Proofs5 C07.Proofs9.
From RM Require C08.Model C09.Grammar C11.Model.
Import ListNotations.
Open Scope Z_scope.

(* rle_norm returns a normal form *)
Definition head_ne (b : Z) (s : C09.Grammar.rle) : Prop := match s with [] => True | (b2, _) :: _ => b <> b2 end.
Lemma adj_cons : forall b c t, adj_distinct ((b, c) :: t) <-> head_ne b t /\ adj_distinct t.
Proof. intros b c [|[b2 c2] t]; cbn [adj_distinct head_ne]; tauto. Qed.

Lemma adj_snoc : forall s b c, adj_distinct s -> head_ne b (rev s) -> adj_distinct (s ++ [(b, c)]).
Proof.
  induction s as [|[x cx] t IH]; intros b c Ha Hh; [cbn; tauto|].
  cbn [app]. apply (proj2 (adj_cons _ _ _)). apply (proj1 (adj_cons _ _ _)) in Ha. destruct Ha as [Hx Ht]. split.
  - destruct t as [|[y cy] t']; cbn [app head_ne].
    + cbn [rev app head_ne] in Hh. intro E. apply Hh. symmetry. exact E.
    + exact Hx.
  - apply IH; [exact Ht|].
    cbn [rev] in Hh. destruct (rev t) as [|[z cz] r] eqn:Er; [|exact Hh].
    assert (t = []) by (destruct t; [reflexivity|apply (f_equal (@length _)) in Er; rewrite rev_length in Er; discriminate Er]).
    subst t. exact I.
Qed.
Lemma adj_rev : forall s, adj_distinct s -> adj_distinct (rev s).
Proof.
  induction s as [|[x cx] t IH]; intro Ha; [exact I|].
  apply (proj1 (adj_cons _ _ _)) in Ha. destruct Ha as [Hx Ht]. cbn [rev]. apply adj_snoc; [apply IH; exact Ht|].
  rewrite rev_involutive. destruct t as [|[y cy] t']; cbn [head_ne] in *; [exact I|exact Hx].
Qed.

Lemma norm_acc_adj : forall s acc, adj_distinct acc -> adj_distinct (C09.Grammar.rle_norm_acc s acc).
Proof.
  induction s as [|[b c] t IH]; intros acc Ha; cbn [C09.Grammar.rle_norm_acc].
  - rewrite rev_append_rev, app_nil_r. apply adj_rev. exact Ha.
  - destruct acc as [|[b0 c0] acc'].
    + apply IH. cbn. tauto.
    + destruct (b0 =? b) eqn:E.
      * apply IH. apply (proj1 (adj_cons _ _ _)) in Ha. apply (proj2 (adj_cons _ _ _)). exact Ha.
      * apply IH. apply (proj2 (adj_cons _ _ _)). split; [cbn [head_ne]; apply Z.eqb_neq in E; intro F; apply E; symmetry; exact F|exact Ha].
Qed.
Theorem rle_norm_nf : forall s, rle_nf (C09.Grammar.rle_norm s).
Proof. intro s. split; [apply norm_pos|apply norm_acc_adj; exact I]. Qed.

(* ---- the parser state ---- *)
Definition ft_nf (f : C09.Grammar.win_frame_type) : Prop :=
  match f with C09.Grammar.FrameData i | C09.Grammar.Fpo i => wi_nf i | C09.Grammar.Unhandled => True end.
Definition item_nf (it : C09.Grammar.item) : Prop :=
  match it with C09.Grammar.IWin f => ft_nf f | _ => True end.

Lemma win_of_fields_nf : forall ty a sz pro epi par sav loc mx hp rest, rle_nf rest ->
  ft_nf (C09.Grammar.win_of_fields ty a sz pro epi par sav loc mx hp rest).
Proof.
  intros. unfold C09.Grammar.win_of_fields.
  destruct (negb _); [exact I|].
  destruct (ty =? 52) eqn:E4; cbn [ft_nf]; [unfold wi_nf; cbn [C09.Grammar.wi_thing]; assumption|].
  destruct (ty =? 48); cbn [ft_nf]; [unfold wi_nf; cbn [C09.Grammar.wi_thing]; exact I|exact I].
Qed.

Lemma name_eol_nf : forall s r, C09.Grammar.name_eol s = Some r -> rle_nf r.
Proof.
  intros s r H. unfold C09.Grammar.name_eol in H. destruct (C09.Grammar.span_not C09.Grammar.is_cr s) as [name rest].
  destruct (_ && _); [|discriminate H]. inversion H. apply rle_norm_nf.
Qed.

Ltac crack_all :=
  repeat match goal with
         | H : context [match ?e with _ => _ end] |- _ => destruct e eqn:?; try discriminate
         end.

Lemma p_stack_win_nf : forall s it, C09.Grammar.p_stack_win s = C09.Grammar.POk it -> item_nf it.
Proof.
  intros s it H. unfold C09.Grammar.p_stack_win, C09.Grammar.cutp in H.
  crack_all. repeat match goal with X : Some _ = Some _ |- _ => inversion X; clear X end.
  inversion H; subst. cbn [item_nf]. apply win_of_fields_nf. eapply name_eol_nf; eassumption.
Qed.

Ltac other p :=
  let H := fresh "H" in
  intros s it H; unfold p, C09.Grammar.cutp, C09.Grammar.guard, C09.Grammar.id_name in H; crack_all;
  repeat match goal with X : Some _ = Some _ |- _ => inversion X; clear X end; inversion H; subst; exact I.
Lemma p_info_url_nf : forall s it, C09.Grammar.p_info_url s = C09.Grammar.POk it -> item_nf it.
Proof. other C09.Grammar.p_info_url. Qed.
Lemma p_info_nf : forall s it, C09.Grammar.p_info s = C09.Grammar.POk it -> item_nf it.
Proof. other C09.Grammar.p_info. Qed.
Lemma p_file_nf : forall s it, C09.Grammar.p_file s = C09.Grammar.POk it -> item_nf it.
Proof. other C09.Grammar.p_file. Qed.
Lemma p_inline_origin_nf : forall s it, C09.Grammar.p_inline_origin s = C09.Grammar.POk it -> item_nf it.
Proof. other C09.Grammar.p_inline_origin. Qed.
Lemma p_public_nf : forall s it, C09.Grammar.p_public s = C09.Grammar.POk it -> item_nf it.
Proof. other C09.Grammar.p_public. Qed.
Lemma p_func_nf : forall s it, C09.Grammar.p_func s = C09.Grammar.POk it -> item_nf it.
Proof. other C09.Grammar.p_func. Qed.
Lemma p_stack_cfi_init_nf : forall s it, C09.Grammar.p_stack_cfi_init s = C09.Grammar.POk it -> item_nf it.
Proof. other C09.Grammar.p_stack_cfi_init. Qed.
Lemma p_module_nf : forall s it, C09.Grammar.p_module s = C09.Grammar.POk it -> item_nf it.
Proof. other C09.Grammar.p_module. Qed.

Lemma line_top_nf : forall s it, C09.Grammar.line_top s = Some it -> item_nf it.
Proof.
  intros s it H. unfold C09.Grammar.line_top in H. cbn [C09.Grammar.alt] in H.
  destruct (C09.Grammar.p_info_url s) eqn:E1; [|discriminate H|inversion H; subst; eapply p_info_url_nf; eassumption].
  destruct (C09.Grammar.p_info s) eqn:E2; [|discriminate H|inversion H; subst; eapply p_info_nf; eassumption].
  destruct (C09.Grammar.p_file s) eqn:E3; [|discriminate H|inversion H; subst; eapply p_file_nf; eassumption].
  destruct (C09.Grammar.p_inline_origin s) eqn:E4; [|discriminate H|inversion H; subst; eapply p_inline_origin_nf; eassumption].
  destruct (C09.Grammar.p_public s) eqn:E5; [|discriminate H|inversion H; subst; eapply p_public_nf; eassumption].
  destruct (C09.Grammar.p_func s) eqn:E6; [|discriminate H|inversion H; subst; eapply p_func_nf; eassumption].
  destruct (C09.Grammar.p_stack_win s) eqn:E7; [|discriminate H|inversion H; subst; eapply p_stack_win_nf; eassumption].
  destruct (C09.Grammar.p_stack_cfi_init s) eqn:E8; [|discriminate H|inversion H; subst; eapply p_stack_cfi_init_nf; eassumption].
  destruct (C09.Grammar.p_module s) eqn:E9; [discriminate H|discriminate H|inversion H; subst; eapply p_module_nf; eassumption].
Qed.

Definition pst_nf (p : C09.Grammar.pst) : Prop :=
  Forall wi_nf (C09.Grammar.p_win_fd p) /\ Forall wi_nf (C09.Grammar.p_win_fpo p).

Lemma close_cur_nf : forall p, pst_nf p -> pst_nf (C09.Grammar.close_cur p).
Proof. intros p H. unfold C09.Grammar.close_cur. destruct (C09.Grammar.p_cur p); exact H. Qed.

Lemma top_nf : forall p s p', pst_nf p -> C09.Grammar.top p s = inl p' -> pst_nf p'.
Proof.
  intros p s p' [Hfd Hfpo] H. unfold C09.Grammar.top in H.
  destruct (C09.Grammar.eol s); [inversion H; subst; split; assumption|].
  destruct (C09.Grammar.line_top s) as [it|] eqn:El; [|discriminate H].
  apply line_top_nf in El.
  destruct it as [id f|u| |id nm|id nm|pb|f|w|c]; try (inversion H; subst; split; assumption).
  - destruct (C09.Grammar.p_lines p =? 0); [inversion H; subst; split; assumption|discriminate H].
  - destruct w as [i|i|]; inversion H; subst; cbn [item_nf ft_nf] in El; split; cbn; try assumption;
      constructor; assumption.
Qed.

Lemma recog_nf : forall p s p', pst_nf p -> C09.Grammar.recog_pst p s = inl p' -> pst_nf p'.
Proof.
  intros p s p' Hp H. unfold C09.Grammar.recog_pst in H.
  destruct (C09.Grammar.p_cur p) as [|f|c] eqn:Ec.
  - eapply top_nf; eassumption.
  - destruct (C09.Grammar.sub_func s) as [[id nm|l|l]|].
    + inversion H; subst. exact Hp.
    + inversion H; subst. exact Hp.
    + inversion H; subst. exact Hp.
    + eapply top_nf; [apply close_cur_nf; exact Hp|exact H].
  - destruct (C09.Grammar.sub_cfi s).
    + inversion H; subst. exact Hp.
    + eapply top_nf; [apply close_cur_nf; exact Hp|exact H].
Qed.

Theorem parse_lines_nf : forall ls p p', pst_nf p -> parse_lines p ls = Some p' -> pst_nf p'.
Proof.
  induction ls as [|l t IH]; intros p p' Hp H; cbn [parse_lines] in H.
  - inversion H; subst. exact Hp.
  - destruct (C09.Grammar.recog_pst p l) as [p1|e] eqn:E; [|discriminate H].
    eapply IH; [eapply recog_nf; eassumption|exact H].
Qed.

Theorem parsed_records_nf : forall ls ps, parse_lines C09.Grammar.init_pst ls = Some ps ->
  Forall wi_nf (C09.Grammar.p_win_fd ps) /\ Forall wi_nf (C09.Grammar.p_win_fpo ps).
Proof. intros ls ps H. apply (parse_lines_nf ls C09.Grammar.init_pst ps); [split; constructor|exact H]. Qed.

From RM Require Import C07.Proofs10.

(* the whole text route, from the lines of the file: no normal-form hypothesis left *)
Theorem text_route_agrees_parsed :
  forall (S : Type) (ops : wops S) p E (ls : list C09.Grammar.rle) (ps : C09.Grammar.pst) (t : C09.Grammar.table) (s : S),
  parse_lines C09.Grammar.init_pst ls = Some ps ->
  C09.Grammar.finish ps = Ret t ->
  C09.Grammar.t_cfi t = [] ->
  walk_frame_text ops p E ls s =
  (do r <- walk_frame ops p E (mkSym (map conv_win (rev (C09.Grammar.p_win_fd ps)))
                                     (map conv_win (rev (C09.Grammar.p_win_fpo ps))) None) s;
   Ret (Some r)).
Proof.
  intros S ops p E ls ps t s Hp Hf Hc. unfold walk_frame_text. rewrite Hp, Hf. cbn [obind].
  destruct (parsed_records_nf ls ps Hp) as [H1 H2].
  rewrite (text_route_agrees S ops p E ps t s Hf H1 H2 Hc). reflexivity.
Qed.
