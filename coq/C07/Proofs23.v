(* C07/Proofs23.v — second pass of round 5: which record SymbolFile::walk_frame sees when SEVERAL STACK WIN records of one
   kind cover an address (overlap repair in insert_win_stack_info, then the parser-local RangeMap builder).  The table
   theorems of C08 (C08/WinProofs.v, the lemmas behind c08_win_build_total / _sorted_disjoint / _lookup_sound /
   _isolated_complete; records there are (address, size, tag)) are IMPORTED through a map that sends a StackInfoWin to
   (address, size, index of the first record of the file with the same remaining fields) — C08's derived equality on
   the image is this directory's win_eqb (Proofs8's parametricity of the range-map builder does the rest). *)
From Coq Require Import Lia Bool Sorting.Sorted.
From RM Require Import Base.Word C06.Model C06.Proofs C07.Model C07.Proofs C07.Proofs2 C07.Proofs8 C07.Proofs16.
From RM Require C08.Model C08.Proofs C08.WinModel C08.WinProofs C08.Tie.
Import ListNotations.
Open Scope Z_scope.

Module W8 := C08.WinModel.
Module P8 := C08.WinProofs.

(* every field but address and size *)
Definition rest (i : win_info) := (w_prolog i, w_epilog i, w_params i, w_saved i, w_locals i, w_maxstack i, w_thing i).
Definition rest_eqb (a b : win_info) : bool :=
  (w_prolog a =? w_prolog b) && (w_epilog a =? w_epilog b) && (w_params a =? w_params b) && (w_saved a =? w_saved b) &&
  (w_locals a =? w_locals b) && (w_maxstack a =? w_maxstack b) && thing_eqb (w_thing a) (w_thing b).

Lemma thing_eqb_eq : forall a b, thing_eqb a b = true <-> a = b.
Proof.
  intros [x|x] [y|y]; cbn [thing_eqb]; split; intro H; try discriminate; try (inversion H; subst).
  - apply beq_eq in H. subst. reflexivity.
  - apply beq_refl.
  - apply Bool.eqb_prop in H. subst. reflexivity.
  - apply Bool.eqb_reflx.
Qed.

Lemma rest_eqb_eq : forall a b, rest_eqb a b = true <-> rest a = rest b.
Proof.
  intros a b. unfold rest_eqb, rest. rewrite !andb_true_iff, !Z.eqb_eq, thing_eqb_eq. split.
  - intros [[[[[[H1 H2] H3] H4] H5] H6] H7]. congruence.
  - intro H. inversion H. tauto.
Qed.

Lemma win_eqb_split : forall a b,
  win_eqb a b = (w_addr a =? w_addr b) && (w_size a =? w_size b) && rest_eqb a b.
Proof. intros. unfold win_eqb, rest_eqb. rewrite !andb_assoc. reflexivity. Qed.

Lemma same_but_size : forall a b, w_addr a = w_addr b -> rest a = rest b -> a = set_size b (w_size a).
Proof. intros [] []; unfold rest, set_size; cbn. intros H1 H2. inversion H2. subst. reflexivity. Qed.

Lemma rest_set_size : forall i d, rest (set_size i d) = rest i.
Proof. reflexivity. Qed.

(* the tag: index of the first record of the reference list with the same remaining fields *)
Fixpoint tag_in (l : list win_info) (a : win_info) : Z :=
  match l with
  | [] => 0
  | j :: r => if rest_eqb a j then 0 else 1 + tag_in r a
  end.

Lemma tag_in_nonneg : forall l a, 0 <= tag_in l a.
Proof. induction l as [|j r IH]; intro a; cbn [tag_in]; [lia|]. destruct (rest_eqb a j); [lia|]. specialize (IH a). lia. Qed.

Lemma tag_in_rest : forall l a b, rest a = rest b -> tag_in l a = tag_in l b.
Proof.
  induction l as [|j r IH]; intros a b H; cbn [tag_in]; [reflexivity|].
  assert (E : rest_eqb a j = rest_eqb b j).
  { destruct (rest_eqb a j) eqn:A; destruct (rest_eqb b j) eqn:B; try reflexivity.
    - apply rest_eqb_eq in A. assert (Q : rest_eqb b j = true) by (apply rest_eqb_eq; congruence). congruence.
    - apply rest_eqb_eq in B. assert (Q : rest_eqb a j = true) by (apply rest_eqb_eq; congruence). congruence. }
  rewrite E. rewrite (IH a b H). reflexivity.
Qed.

(* equal tags and one of the two records is in the list: same remaining fields *)
Lemma tag_in_inj : forall l a b, In b l -> tag_in l a = tag_in l b -> rest a = rest b.
Proof.
  induction l as [|j r IH]; intros a b Hin H; [contradiction|].
  cbn [tag_in] in H.
  destruct (rest_eqb a j) eqn:A; destruct (rest_eqb b j) eqn:B.
  - apply rest_eqb_eq in A, B. congruence.
  - pose proof (tag_in_nonneg r b). lia.
  - pose proof (tag_in_nonneg r a). lia.
  - destruct Hin as [Hin|Hin].
    + subst j. assert (Q : rest_eqb b b = true) by (apply rest_eqb_eq; reflexivity). congruence.
    + apply IH; [exact Hin|lia].
Qed.

Section WithList.
Variable l0 : list win_info.

Definition g (i : win_info) : W8.winrec := W8.mkW (w_addr i) (w_size i) (tag_in l0 i).
(* the records the vector / the table can hold: a record of the file, possibly with another size *)
Definition P (a : win_info) : Prop := exists j, In j l0 /\ rest a = rest j.

Lemma Hg : forall a b, P a -> P b -> W8.win_eqb (g a) (g b) = win_eqb a b.
Proof.
  intros a b _ [j [Hj Rb]]. rewrite win_eqb_split. unfold W8.win_eqb, g. cbn [W8.wa W8.ws W8.wt].
  f_equal. destruct (rest_eqb a b) eqn:R.
  - apply rest_eqb_eq in R. rewrite (tag_in_rest l0 a b R). apply Z.eqb_refl.
  - apply Z.eqb_neq. intro T. rewrite (tag_in_rest l0 b j Rb) in T.
    pose proof (tag_in_inj l0 a j Hj T) as Q. assert (X : rest_eqb a b = true) by (apply rest_eqb_eq; congruence). congruence.
Qed.

Lemma g_range : forall i, W8.win_range (g i) = win_range i.
Proof. reflexivity. Qed.
Lemma g_set_size : forall i d, g (set_size i d) = W8.set_size (g i) d.
Proof. intros. unfold g, W8.set_size. cbn [W8.wa W8.ws W8.wt]. rewrite (tag_in_rest l0 (set_size i d) i (rest_set_size i d)). reflexivity. Qed.
Lemma g_wf : forall i, win_wf i -> P8.wf_rec (g i).
Proof. intros i H. exact H. Qed.
Lemma P_set_size : forall i d, P i -> P (set_size i d).
Proof. intros i d [j [Hj R]]. exists j. split; [exact Hj|]. rewrite rest_set_size. exact R. Qed.
Lemma P_in : forall i, In i l0 -> P i.
Proof. intros i H. exists i. split; [exact H|reflexivity]. Qed.

Notation mapg := (mapv g).
Notation allPg := (allP P).

(* one call of insert_win_stack_info, seen through the map (either build profile on C08's side) *)
Lemma insert_win_map : forall p acc i acc',
  acc_wf acc -> win_wf i -> allPg acc -> P i ->
  insert_win acc i = Ret acc' ->
  W8.insert_win p (mapg acc) (g i) = Ret (mapg acc') /\ allPg acc'.
Proof.
  intros p acc i acc' Hacc Hi HP Pi H. unfold insert_win in H. unfold W8.insert_win. rewrite g_range.
  destruct (win_range i) as [mr|] eqn:Er; [|inversion H; subst; split; [reflexivity|exact HP]].
  destruct acc as [|[lr li] rest0].
  { inversion H; subst. split; [reflexivity|]. constructor; [exact Pi|constructor]. }
  cbn [mapv map fst snd]. fold (mapg rest0).
  inversion HP as [|? ? Pli Prest]; subst. cbn [snd] in Pli.
  destruct (C08.Model.intersects lr mr) eqn:Ei.
  2:{ inversion H; subst. split; [reflexivity|]. constructor; [exact Pi|exact HP]. }
  assert (Eq : (W8.wa (g i) >? W8.wa (g li)) = (w_addr i >? w_addr li)) by reflexivity. rewrite Eq. clear Eq.
  destruct (w_addr i >? w_addr li) eqn:Eg.
  - inversion Hacc as [|? ? [Hl1 Hl2] Hrest]; subst. cbn [fst snd] in Hl1, Hl2.
    destruct (win_range_inv _ _ Hl1) as [A1 [A2 A3]]. destruct (win_range_inv _ _ Er) as [B1 [B2 B3]].
    apply Z.gtb_lt in Eg. destruct Hl2 as [[La1 La2] [Ls1 Ls2]]. destruct Hi as [[Ia1 Ia2] [Is1 Is2]].
    assert (Hd64 : (0 <=? W8.wa (g i) - W8.wa (g li)) && (W8.wa (g i) - W8.wa (g li) <? 2 ^ 64) = true).
    { cbn [g W8.wa]. apply andb_true_intro. split; [apply Z.leb_le; lia|apply Z.ltb_lt; unfold two64 in *; lia]. }
    unfold chk_sub, chk. rewrite Hd64. cbn [obind].
    assert (Eq : W8.wa (g i) - W8.wa (g li) = w_addr i - w_addr li) by reflexivity. rewrite Eq. clear Eq.
    rewrite <- g_set_size, g_range.
    destruct (win_range (set_size li (wrap32 (w_addr i - w_addr li)))) as [lr'|]; [|discriminate H].
    inversion H; subst. split; [reflexivity|].
    constructor; [exact Pi|]. constructor; [apply P_set_size; exact Pli|exact Prest].
  - unfold W8.range_eqb. fold (range_eqb lr mr).
    destruct (negb (range_eqb lr mr)); inversion H; subst; (split; [reflexivity|]); [exact HP|constructor; [exact Pi|exact HP]].
Qed.

Lemma insert_all_map : forall p l acc acc',
  (forall i, In i l -> In i l0) -> Forall win_wf l -> acc_wf acc -> allPg acc ->
  insert_all l acc = Ret acc' ->
  W8.insert_all p (map g l) (mapg acc) = Ret (mapg acc') /\ allPg acc'.
Proof.
  induction l as [|i r IH]; intros acc acc' Hsub Hwf Hacc HP H; cbn [insert_all map W8.insert_all] in *.
  - inversion H; subst. split; [reflexivity|exact HP].
  - inversion Hwf as [|? ? Hi Hr]; subst.
    destruct (insert_win_ok acc i Hacc Hi) as [acc1 [E1 W1]]. rewrite E1 in H. cbn [obind] in H.
    destruct (insert_win_map p acc i acc1 Hacc Hi HP (P_in i (Hsub i (or_introl eq_refl))) E1) as [M1 P1].
    rewrite M1. cbn [obind]. apply IH; auto. intros; apply Hsub; right; assumption.
Qed.

End WithList.

(* the finished table through the map *)
Lemma win_table_map : forall p l t, Forall win_wf l -> win_table l = Ret t ->
  W8.win_table p (map (g l) l) = Ret (mapv (g l) t).
Proof.
  intros p l t Hwf H. unfold win_table in H. unfold W8.win_table.
  destruct (insert_all_ok l [] (Forall_nil _) Hwf) as [acc [E W]]. rewrite E in H. cbn [obind] in H.
  destruct (insert_all_map l p l [] acc (fun i H => H) Hwf (Forall_nil _) (Forall_nil _) E) as [M A].
  change (mapv (g l) []) with (@nil (C08.Model.range * W8.winrec)) in M. rewrite M. cbn [obind].
  rewrite <- (mapv_rev (g l)).
  rewrite (build_p_map win_eqb W8.win_eqb (g l) (P l) (Hg l) (rev acc)); [|apply Forall_rev; exact A].
  rewrite H. reflexivity.
Qed.

Lemma wf_recs_map : forall l0 l, Forall win_wf l -> P8.wf_recs (map (g l0) l).
Proof. intros l0 l H. unfold P8.wf_recs. apply Forall_map. eapply Forall_impl; [|exact H]. intros i Hi. exact Hi. Qed.

(* ---- c08_win_lookup_sound, imported: whatever the overlaps, a lookup returns a record of the file — same address,
   same remaining fields, never longer than written — whose own (possibly shortened) range contains the address ---- *)
Theorem table_lookup_sound : forall l t x i,
  Forall win_wf l -> win_table l = Ret t -> C08.Model.rm_get t x = Some i ->
  exists i0, In i0 l /\ i = set_size i0 (w_size i) /\ 0 < w_size i <= w_size i0 /\
             w_addr i0 <= x <= w_addr i0 + w_size i - 1 /\ win_range i = Some (w_addr i0, w_addr i0 + w_size i - 1).
Proof.
  intros l t x i Hwf Ht Hget.
  pose proof (win_table_map Debug l t Hwf Ht) as T8.
  assert (G8 : C08.Model.rm_get (mapv (g l) t) x = Some (g l i)) by (rewrite rm_get_map, Hget; reflexivity).
  destruct (P8.win_lookup_sound Debug (map (g l) l) (mapv (g l) t) x (g l i) (wf_recs_map l l Hwf) T8 G8)
    as [R [C [w0 [Hin [Ha [Htag [Hs _]]]]]]].
  apply in_map_iff in Hin. destruct Hin as [i0 [E0 Hin]]. subst w0.
  cbn [g W8.wa W8.ws W8.wt] in *.
  assert (Rr : rest i = rest i0) by (apply (tag_in_inj l i i0 Hin); congruence).
  exists i0. split; [exact Hin|]. split; [apply same_but_size; congruence|]. split; [lia|].
  unfold C08.Model.contains in C. cbn [fst snd] in C. apply andb_prop in C. destruct C as [C1 C2].
  apply Z.leb_le in C1, C2. split; [lia|]. rewrite Ha. exact R.
Qed.

(* ---- c08_win_sorted_disjoint, imported ---- *)
Lemma sorted_unmap : forall (h : win_info -> W8.winrec) t,
  StronglySorted (fun a b : C08.Model.range * W8.winrec => snd (fst a) < fst (fst b)) (mapv h t) ->
  StronglySorted (fun a b : C08.Model.range * win_info => snd (fst a) < fst (fst b)) t.
Proof.
  intros h t. induction t as [|e r IH]; intro S; [constructor|].
  cbn [mapv map] in S. inversion S as [|? ? S1 S2]; subst.
  constructor; [apply IH; exact S1|]. clear IH S S1.
  induction r as [|e' r' IH']; [constructor|].
  cbn [map] in S2. inversion S2; subst. constructor; [assumption|apply IH'; assumption].
Qed.

Theorem table_sorted_disjoint : forall l t, Forall win_wf l -> win_table l = Ret t ->
  StronglySorted (fun a b => snd (fst a) < fst (fst b)) t /\ Forall (fun e => win_range (snd e) = Some (fst e)) t.
Proof.
  intros l t Hwf Ht.
  destruct (P8.win_sorted_disjoint Debug (map (g l) l) (mapv (g l) t) (wf_recs_map l l Hwf) (win_table_map Debug l t Hwf Ht))
    as [S [_ K]].
  split; [exact (sorted_unmap (g l) t S)|].
  unfold mapv in K. rewrite Forall_map in K. eapply Forall_impl; [|exact K]. intros e He. exact He.
Qed.

(* ---- c08_win_isolated_complete, imported: a record that intersects no other record of its kind is returned as written
   for every address inside it, whatever the overlaps among the others ---- *)
Theorem table_isolated_complete : forall la w lb r t x,
  Forall win_wf (la ++ w :: lb) -> win_range w = Some r ->
  (forall w' r', In w' (la ++ lb) -> win_range w' = Some r' -> C08.Model.intersects r r' = false) ->
  win_table (la ++ w :: lb) = Ret t -> C08.Model.contains r x = true -> C08.Model.rm_get t x = Some w.
Proof.
  intros la w lb r t x Hwf Hr Hiso Ht Hc. set (l := la ++ w :: lb) in *.
  pose proof (win_table_map Debug l t Hwf Ht) as T8. unfold l in T8 at 2. rewrite map_app in T8. cbn [map] in T8.
  assert (Hwf8 : P8.wf_recs (map (g l) la ++ g l w :: map (g l) lb)).
  { pose proof (wf_recs_map l l Hwf) as Q. unfold l in Q at 2. rewrite map_app in Q. exact Q. }
  assert (Hiso8 : forall w' r', In w' (map (g l) la ++ map (g l) lb) -> W8.win_range w' = Some r' -> C08.Model.intersects r r' = false).
  { intros w' r' Hin Hr'. rewrite <- map_app in Hin. apply in_map_iff in Hin. destruct Hin as [i' [E' Hin']]. subst w'.
    exact (Hiso i' r' Hin' Hr'). }
  pose proof (P8.win_isolated_complete Debug (map (g l) la) (g l w) (map (g l) lb) r (mapv (g l) t) x Hwf8 Hr Hiso8 T8 Hc) as G8.
  rewrite rm_get_map in G8. destruct (C08.Model.rm_get t x) as [i'|]; [|discriminate G8].
  cbn [option_map] in G8. inversion G8 as [[Ha Hs Htag]].
  assert (Hin : In w l) by (unfold l; apply in_or_app; right; left; reflexivity).
  pose proof (tag_in_inj l i' w Hin Htag) as Rr.
  rewrite (same_but_size i' w Ha Rr). rewrite Hs. destruct w; reflexivity.
Qed.

(* ---- evaluation never reads a record's address or size: the shortened record evaluates like the written one ---- *)
Lemma framedata_set_size : forall S (ops : wops S) p E i d e s,
  walk_win_framedata ops p E (set_size i d) e s = walk_win_framedata ops p E i e s.
Proof. reflexivity. Qed.
Lemma fpo_set_size : forall S (ops : wops S) E i d b s,
  walk_win_fpo ops E (set_size i d) b s = walk_win_fpo ops E i b s.
Proof. reflexivity. Qed.

(* the record walk_frame evaluates, in terms of the FILE: *)
Definition covers (i : win_info) (x : Z) : Prop := w_addr i <= x <= w_addr i + w_size i - 1.

Theorem walk_frame_selection : forall S (ops : wops S) p E f s fd fp,
  Forall win_wf (sf_framedata f) -> Forall win_wf (sf_fpo f) ->
  win_table (sf_framedata f) = Ret fd -> win_table (sf_fpo f) = Ret fp ->
  (* a frame-data record is selected: it is a record of the file whose written range covers the address, evaluated as written *)
  (forall i, C08.Model.rm_get fd (e_instr E) = Some i ->
     exists i0, In i0 (sf_framedata f) /\ covers i0 (e_instr E) /\ w_thing i0 = w_thing i /\
       forall e, walk_win_framedata ops p E i e s = walk_win_framedata ops p E i0 e s) /\
  (forall i, C08.Model.rm_get fd (e_instr E) = None -> C08.Model.rm_get fp (e_instr E) = Some i ->
     exists i0, In i0 (sf_fpo f) /\ covers i0 (e_instr E) /\ w_thing i0 = w_thing i /\
       forall b, walk_win_fpo ops E i b s = walk_win_fpo ops E i0 b s).
Proof.
  intros S ops p E f s fd fp Wfd Wfp Tfd Tfp. split.
  - intros i Hget. destruct (table_lookup_sound _ _ _ _ Wfd Tfd Hget) as [i0 [Hin [Ei [Hs [Hc _]]]]].
    exists i0. split; [exact Hin|]. split; [unfold covers; lia|]. split; [rewrite Ei; reflexivity|].
    intro e. rewrite Ei. apply framedata_set_size.
  - intros i _ Hget. destruct (table_lookup_sound _ _ _ _ Wfp Tfp Hget) as [i0 [Hin [Ei [Hs [Hc _]]]]].
    exists i0. split; [exact Hin|]. split; [unfold covers; lia|]. split; [rewrite Ei; reflexivity|].
    intro b. rewrite Ei. apply fpo_set_size.
Qed.

(* ---- SymbolFile::walk_frame in terms of the records of the FILE (composition with record_preference): whatever
   overlaps, duplicates and zero-sized records the two lists contain, exactly one of three things happens ---- *)
Theorem walk_frame_by_file_record : forall S (ops : wops S) p E f s,
  Forall win_wf (sf_framedata f) -> Forall win_wf (sf_fpo f) ->
  Forall is_framedata (sf_framedata f) -> Forall is_fpo (sf_fpo f) ->
  (exists i0 e, In i0 (sf_framedata f) /\ covers i0 (e_instr E) /\ w_thing i0 = ProgramString e /\
     walk_frame ops p E f s =
     (do wr <- walk_win_framedata ops p E i0 e s;
      if snd wr then Ret (Some (fst wr)) else cfi_fallback ops p E f (fst wr))) \/
  (exists i0 b, In i0 (sf_fpo f) /\ covers i0 (e_instr E) /\ w_thing i0 = AllocatesBasePointer b /\
     walk_frame ops p E f s =
     (let wr := walk_win_fpo ops E i0 b s in
      if snd wr then Ret (Some (fst wr)) else cfi_fallback ops p E f (fst wr))) \/
  walk_frame ops p E f s = cfi_fallback ops p E f s.
Proof.
  intros S ops p E f s Wfd Wfp Tfd Tfp.
  destruct (win_table_total _ Wfd) as [fd Hfd]. destruct (win_table_total _ Wfp) as [fp Hfp].
  destruct (record_preference S ops p E f s fd fp Hfd Hfp) as [R1 [R2 R3]].
  destruct (walk_frame_selection S ops p E f s fd fp Wfd Wfp Hfd Hfp) as [S1 S2].
  destruct (C08.Model.rm_get fd (e_instr E)) as [i|] eqn:G1.
  - destruct (S1 i eq_refl) as [i0 [Hin [Hc [Ht Hev]]]].
    pose proof (proj1 (Forall_forall _ _) Tfd i0 Hin) as Hi0. unfold is_framedata in Hi0.
    destruct (w_thing i0) as [e|b] eqn:Et; [|contradiction].
    left. exists i0, e. split; [exact Hin|]. split; [exact Hc|]. split; [exact Et|].
    rewrite (R1 i e eq_refl (eq_sym Ht)). rewrite Hev. reflexivity.
  - destruct (C08.Model.rm_get fp (e_instr E)) as [i|] eqn:G2.
    + destruct (S2 i eq_refl eq_refl) as [i0 [Hin [Hc [Ht Hev]]]].
      pose proof (proj1 (Forall_forall _ _) Tfp i0 Hin) as Hi0. unfold is_fpo in Hi0.
      destruct (w_thing i0) as [e|b] eqn:Et; [contradiction|].
      right. left. exists i0, b. split; [exact Hin|]. split; [exact Hc|]. split; [exact Et|].
      rewrite (R2 i b eq_refl eq_refl (eq_sym Ht)). rewrite Hev. reflexivity.
    + right. right. apply R3; reflexivity.
Qed.

(* ---- the tie of the table to the SOURCE: C08's translator (translate/c08_tables.py) regenerates insert_win_stack_info
   (the comparison, the subtraction, the `as u32`), the parser-local into_rangemap_safe and StackInfoWin::memory_range
   from parser.rs / types.rs on every run (Gen/C08Tables.v, C08/Tie.v g_win_table).  This directory's table of full
   StackInfoWin records, seen through the tag map, IS that generated table, in either build profile. ---- *)
Theorem table_is_source_table : forall p l t, Forall win_wf l -> win_table l = Ret t ->
  C08.Tie.g_win_table p (map (g l) l) = Ret (mapv (g l) t) /\
  forall x, C08.Model.rm_get (mapv (g l) t) x = option_map (g l) (C08.Model.rm_get t x).
Proof.
  intros p l t Hwf Ht. split.
  - rewrite C08.Tie.g_win_table_eq. apply win_table_map; assumption.
  - intro x. apply rm_get_map.
Qed.
