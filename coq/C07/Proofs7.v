(* C07/Proofs7.v — an FPO walk of unbounded depth: direct recursion from a single call site is recovered exactly. *)
From Coq Require Import Lia.
From RM Require Import C06.Model C06.Proofs C07.Model C07.Walker C07.Proofs2 C07.Proofs6.
Import ListNotations.
Open Scope Z_scope.

Lemma spec_has_gc_nonempty : forall below, below <> [] -> spec_has_gc below = true.
Proof. intros [|x t] H; [contradiction|reflexivity]. Qed.

Lemma spec_gcps_snoc : forall below ps,
  spec_gcps (below ++ [mkSF ps]) = match ps with Some n => n | None => 0 end.
Proof. intros. unfold spec_gcps. rewrite rev_app_distr. reflexivity. Qed.

Lemma mock_set_ok : forall s n v, starts_no n = false -> v < 2 ^ 32 ->
  o_set (mock_ops 4) s n v = Some (mkM (m_cfa s) (m_ra s) (upd (m_regs s) n (SetTo v))).
Proof.
  intros s n v Hn Hv. cbn [mock_ops o_set]. rewrite Hn. unfold fits.
  replace (v <? 2 ^ (8 * 4)) with true by (symmetry; apply Z.ltb_lt; exact Hv). reflexivity.
Qed.

(* completeness of one step above the context frame: the plain formula, whatever the slot holds *)
Lemma fpo_step_above_context : forall mem below callee r i fs ra,
  w_thing i = AllocatesBasePointer false ->
  below <> [] ->
  win_frame_size i (spec_gcps below) = Some fs ->
  0 <= x_esp r -> 0 <= fs ->
  mem (x_esp r + fs) = Some ra ->
  ra < 2 ^ 32 -> x_esp r + fs + 4 < 2 ^ 32 -> x_ebp r < 2 ^ 32 ->
  fpo_step mem below callee r i = Some (mkX ra (x_esp r + fs + 4) (x_ebp r)).
Proof.
  intros mem below callee r i fs ra Habp Hne Hfs Hesp0 Hfs0 Hm Hra Hsp Hbp.
  unfold fpo_step, frames_env. rewrite Habp. rewrite walker_has_gc_spec, walker_gcps_spec.
  rewrite (spec_has_gc_nonempty _ Hne).
  unfold walk_win_fpo. cbv zeta. cbn [e_gcps e_callee e_mem e_has_gc].
  rewrite Hfs.
  change (assoc N_esp [(N_eip, x_eip r); (N_esp, x_esp r); (N_ebp, x_ebp r)]) with (Some (x_esp r)).
  change (assoc N_ebp [(N_eip, x_eip r); (N_esp, x_esp r); (N_ebp, x_ebp r)]) with (Some (x_ebp r)).
  change (assoc N_ebx [(N_eip, x_eip r); (N_esp, x_esp r); (N_ebp, x_ebp r)]) with (@None Z).
  unfold checked_add.
  replace (x_esp r + fs <? 2 ^ 64) with true by (symmetry; apply Z.ltb_lt; lia).
  rewrite Hm. cbn [negb].
  replace (x_esp r + fs + 4 <? 2 ^ 64) with true by (symmetry; apply Z.ltb_lt; lia).
  set (s0 := clear_all (mock_ops 4) win_clear_names m_init).
  rewrite (mock_set_ok s0 N_eip ra eq_refl Hra).
  rewrite (mock_set_ok _ N_esp (x_esp r + fs + 4) eq_refl Hsp).
  rewrite (mock_set_ok _ N_ebp (x_ebp r) eq_refl Hbp).
  cbn [m_regs]. unfold upd.
  change (beq N_eip N_ebp) with false. change (beq N_eip N_esp) with false. change (beq N_eip N_eip) with true.
  change (beq N_esp N_ebp) with false. change (beq N_esp N_esp) with true. change (beq N_ebp N_ebp) with true.
  reflexivity.
Qed.

Theorem fpo_recursion_chain : forall (n : nat) mem in_stack lookup i ps F rr ebp below esp0,
  let gcps := match ps with Some k => k | None => 0 end in
  below <> [] -> spec_gcps below = gcps ->
  w_thing i = AllocatesBasePointer false ->
  win_frame_size i gcps = Some F -> 0 <= F ->
  lookup rr = Some (i, ps) ->
  4096 <= rr < 2 ^ 32 -> ebp < 2 ^ 32 -> 0 <= esp0 ->
  esp0 + Z.of_nat n * (F + 4) < 2 ^ 32 ->
  (forall k, (k < n)%nat -> in_stack (esp0 + Z.of_nat k * (F + 4)) = true /\
                            mem (esp0 + Z.of_nat k * (F + 4) + F) = Some rr) ->
  fpo_walk n mem in_stack lookup below (mkX rr esp0 ebp) =
    map (fun k => mkX rr (esp0 + Z.of_nat (S k) * (F + 4)) ebp) (seq 0 n).
Proof.
  induction n as [|n IH]; intros mem in_stack lookup i ps F rr ebp below esp0 gcps Hne Hg Habp Hfs HF Hl Hrr Hbp Hesp Htop Hmem.
  - reflexivity.
  - cbn [fpo_walk x_esp x_eip].
    destruct (Hmem 0%nat ltac:(lia)) as [His Hm0]. cbn [Z.of_nat] in His, Hm0.
    replace (esp0 + 0 * (F + 4)) with esp0 in His, Hm0 by lia.
    replace (match below with [] => true | _ :: _ => in_stack esp0 end) with true
      by (destruct below; [contradiction|symmetry; exact His]).
    rewrite Hl.
    rewrite (fpo_step_above_context mem below (mkSF ps) (mkX rr esp0 ebp) i F rr Habp Hne); cbn [x_esp x_ebp x_eip];
      try lia; [| rewrite Hg; exact Hfs | exact Hm0].
    replace (rr <? 4096) with false by (symmetry; apply Z.ltb_ge; lia).
    replace (esp0 + F + 4 <=? esp0) with false by (symmetry; apply Z.leb_gt; lia).
    cbn [orb]. cbn [seq]. rewrite <- seq_shift. cbn [map].
    f_equal.
    + f_equal. lia.
    + rewrite (IH mem in_stack lookup i ps F rr ebp (below ++ [mkSF ps]) (esp0 + F + 4)); try assumption; try lia.
      * rewrite map_map. apply map_ext. intro k. f_equal. lia.
      * intro Hc. apply app_eq_nil in Hc. destruct Hc as [_ Hc]. discriminate Hc.
      * apply spec_gcps_snoc.
      * intros k Hk. destruct (Hmem (S k) ltac:(lia)) as [A B].
        replace (esp0 + F + 4 + Z.of_nat k * (F + 4)) with (esp0 + Z.of_nat (S k) * (F + 4)) by lia.
        split; assumption.
Qed.
