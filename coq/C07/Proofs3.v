(* C07/Proofs3.v — program strings refine the documented semantics [win_spec]. *)
From Coq Require Import Lia.
From RM Require Import C06.Model C06.Proofs C07.Model C07.Proofs C07.Proofs2.
Import ListNotations.
Open Scope Z_scope.

Definition u32 (v : Z) : Prop := 0 <= v < two32.

(* ---- the association list behaves like a map ---- *)
Lemma vget_vset : forall k k' v m, vget k (vset k' v m) = if beq k k' then Some v else vget k m.
Proof.
  induction m as [|[k2 v2] r IH]; cbn [vset vget]; [reflexivity|].
  destruct (beq k' k2) eqn:E2.
  - apply beq_eq in E2. subst k2. cbn [vget]. destruct (beq k k'); reflexivity.
  - cbn [vget]. rewrite IH. destruct (beq k k2) eqn:E3; [|reflexivity].
    apply beq_eq in E3. subst k2. destruct (beq k k') eqn:E4; [|reflexivity].
    apply beq_eq in E4. subst k'. rewrite beq_refl in E2. discriminate.
Qed.
Lemma vset_keys : forall k v m x, In x (map fst (vset k v m)) -> x = k \/ In x (map fst m).
Proof.
  induction m as [|[k2 v2] r IH]; cbn [vset]; intros x H.
  - cbn in H. destruct H as [H|[]]; auto.
  - destruct (beq k k2) eqn:E.
    + apply beq_eq in E. subst. cbn in *. destruct H; auto.
    + cbn in *. destruct H as [H|H]; auto. apply IH in H. destruct H; auto.
Qed.
Lemma vset_nodup : forall k v m, NoDupKeys m -> NoDupKeys (vset k v m).
Proof.
  unfold NoDupKeys. induction m as [|[k2 v2] r IH]; cbn [vset]; intro H.
  - cbn. constructor; [intros []|constructor].
  - destruct (beq k k2) eqn:E.
    + apply beq_eq in E. subst. exact H.
    + cbn in *. inversion H as [|? ? Hn Hd]; subst. constructor; [|apply IH; exact Hd].
      intro Hin. apply vset_keys in Hin. destruct Hin as [Hin|Hin]; [|contradiction].
      subst. rewrite beq_refl in E. discriminate.
Qed.
Lemma vdel_keys : forall k m x, In x (map fst (vdel k m)) -> In x (map fst m).
Proof.
  induction m as [|[k2 v2] r IH]; cbn [vdel]; intros x H; [exact H|].
  destruct (beq k k2); cbn in *; [right; exact H|]. destruct H as [H|H]; auto.
Qed.
Lemma vdel_nodup : forall k m, NoDupKeys m -> NoDupKeys (vdel k m).
Proof.
  unfold NoDupKeys. induction m as [|[k2 v2] r IH]; cbn [vdel]; intro H; [exact H|].
  cbn in H. inversion H as [|? ? Hn Hd]; subst.
  destruct (beq k k2); [exact Hd|]. cbn. constructor; [|apply IH; exact Hd].
  intro Hin. apply Hn. eapply vdel_keys; eauto.
Qed.
Lemma vget_vdel : forall k k' m, NoDupKeys m -> vget k (vdel k' m) = if beq k k' then None else vget k m.
Proof.
  induction m as [|[k2 v2] r IH]; intro Hn; cbn [vdel vget]; [destruct (beq k k'); reflexivity|].
  unfold NoDupKeys in Hn. cbn in Hn. inversion Hn as [|? ? Hnin Hd]; subst.
  destruct (beq k' k2) eqn:E2.
  - apply beq_eq in E2. subst k2. destruct (beq k k') eqn:E; [|reflexivity].
    apply beq_eq in E. subst k'. apply vget_notin. exact Hnin.
  - cbn [vget]. rewrite (IH Hd). destruct (beq k k2) eqn:E3; [|reflexivity].
    apply beq_eq in E3. subst k2. destruct (beq k k') eqn:E4; [|reflexivity].
    apply beq_eq in E4. subst k'. rewrite beq_refl in E2. discriminate.
Qed.

(* ---- 32-bit alignment ---- *)
Lemma align_pow2_w : forall n x k, 0 <= x < 2 ^ n -> 0 <= k < n ->
  Z.land x (Z.lxor (2 ^ n - 1) (2 ^ k - 1)) = x - x mod 2 ^ k.
Proof.
  intros n x k Hx Hk.
  replace (2 ^ n - 1) with (Z.ones n) by (rewrite Z.ones_equiv; lia).
  replace (2 ^ k - 1) with (Z.ones k) by (rewrite Z.ones_equiv; lia).
  assert (E : Z.land x (Z.lxor (Z.ones n) (Z.ones k)) = Z.ldiff x (Z.ones k)).
  { apply Z.bits_inj'. intros i Hi.
    rewrite Z.land_spec, Z.lxor_spec, Z.ldiff_spec.
    destruct (Z_lt_le_dec i k) as [H1|H1].
    - rewrite (Z.ones_spec_low k i) by lia. rewrite (Z.ones_spec_low n i) by lia.
      cbn. rewrite !andb_false_r. reflexivity.
    - rewrite (Z.ones_spec_high k i) by lia.
      destruct (Z_lt_le_dec i n) as [H2|H2].
      + rewrite (Z.ones_spec_low n i) by lia. reflexivity.
      + rewrite (Z.ones_spec_high n i) by lia. cbn. rewrite andb_false_r, andb_true_r.
        symmetry. destruct (Z.eq_dec x 0) as [->|Hne]; [apply Z.bits_0|].
        apply Z.bits_above_log2; [lia|].
        assert (Z.log2 x < n) by (apply Z.log2_lt_pow2; lia). lia. }
  rewrite E. rewrite Z.ldiff_ones_r by lia.
  rewrite Z.shiftr_div_pow2, Z.shiftl_mul_pow2 by lia.
  pose proof (Z.div_mod x (2 ^ k)) as D. assert (0 < 2 ^ k) by (apply Z.pow_pos_nonneg; lia). lia.
Qed.

(* ---- invariants of the evaluator state ---- *)
Definition vars_u32 (m : vars) : Prop := forall k v, vget k m = Some v -> u32 v.
Definition item_u32 (x : winval) : Prop := match x with WInt v => u32 v | _ => True end.
Definition inv (ms : vars * list winval) : Prop :=
  NoDupKeys (fst ms) /\ vars_u32 (fst ms) /\ Forall item_u32 (snd ms).

Lemma into_int_u32 : forall m x v, vars_u32 m -> item_u32 x -> into_int m x = Some v -> u32 v.
Proof.
  intros m x v Hm Hx H. destruct x as [n|w|]; cbn in *; [eapply Hm; eauto|inversion H; subst; exact Hx|discriminate].
Qed.
Lemma wrap32_u32 : forall v, u32 (wrap32 v).
Proof. intro v. unfold u32, wrap32. apply Z.mod_pos_bound. reflexivity. Qed.
Lemma vars_u32_vset : forall k v m, vars_u32 m -> u32 v -> vars_u32 (vset k v m).
Proof.
  intros k v m Hm Hv k2 v2 H. rewrite vget_vset in H. destruct (beq k2 k); [inversion H; subst; exact Hv|eapply Hm; eauto].
Qed.
Lemma vars_u32_vdel : forall k m, NoDupKeys m -> vars_u32 m -> vars_u32 (vdel k m).
Proof.
  intros k m Hn Hm k2 v2 H. rewrite (vget_vdel k2 k m Hn) in H. destruct (beq k2 k); [discriminate|eapply Hm; eauto].
Qed.

(* the refinement relation: same stack, the map read as a function *)
Definition rel (ms : vars * list winval) (fs : venv * list winval) : Prop :=
  snd ms = snd fs /\ forall k, vget k (fst ms) = fst fs k.

Definition step_ok (r : outcome (vars * list winval)) (o : option (venv * list winval)) : Prop :=
  match r, o with
  | Ret ms', Some fs' => rel ms' fs' /\ inv ms'
  | Fail, None => True
  | _, _ => False
  end.

(* ---- binary operators ---- *)
Lemma wbin_refines : forall p E c m st,
  is_binop_byte c = true -> inv (m, st) ->
  step_ok (win_step p E [c] (m, st)) (wspec_step E (KBin c) (fun k => vget k m, st)).
Proof.
  intros p E c m st Hc [Hn [Hm Hst]]. cbn [fst snd] in *. unfold is_binop_byte in Hc.
  assert (two32_pos : 0 < two32) by reflexivity.
  destruct st as [|y [|x s]].
  1,2: repeat (apply orb_prop in Hc; destruct Hc as [Hc|Hc]); apply Z.eqb_eq in Hc; subst c; cbn;
       try exact I; destruct (into_int m y); exact I.
  inversion Hst as [|? ? Hy Hst1]; subst. inversion Hst1 as [|? ? Hx Hs]; subst.
  assert (Hshape : forall (f : Z -> Z -> outcome Z) (g : Z -> Z -> option Z),
    (forall l r, u32 l -> u32 r -> match f l r, g l r with
                                   | Ret v, Some v' => v = v' /\ u32 v
                                   | Fail, None => True
                                   | _, _ => False end) ->
    step_ok (wbin m (y :: x :: s) f)
            (match wint (fun k => vget k m) y, wint (fun k => vget k m) x with
             | Some r, Some l => match g l r with Some v => Some (fun k => vget k m, WInt v :: s) | None => None end
             | _, _ => None end)).
  { intros f g Hfg. unfold wbin.
    change (wint (fun k => vget k m) y) with (into_int m y). change (wint (fun k => vget k m) x) with (into_int m x).
    destruct (into_int m y) as [rv|] eqn:Ey; [|exact I].
    destruct (into_int m x) as [lv|] eqn:Ex; [|exact I].
    specialize (Hfg lv rv (into_int_u32 _ _ _ Hm Hx Ex) (into_int_u32 _ _ _ Hm Hy Ey)).
    destruct (f lv rv) as [v| | |], (g lv rv) as [v'|]; try contradiction; cbn [obind]; [|exact I].
    destruct Hfg as [-> Hv]. split; [split; [reflexivity|intro; reflexivity]|].
    split; [exact Hn|]. split; [exact Hm|]. constructor; [exact Hv|exact Hs]. }
  repeat (apply orb_prop in Hc; destruct Hc as [Hc|Hc]); apply Z.eqb_eq in Hc; subst c.
  - apply (Hshape (fun l r => Ret (wrap32 (l + r))) (fun l r => spec_bin32 43 l r)).
    intros l r _ _. cbn. split; [reflexivity|apply wrap32_u32].
  - apply (Hshape (fun l r => Ret (wrap32 (l - r))) (fun l r => spec_bin32 45 l r)).
    intros l r _ _. cbn. split; [reflexivity|apply wrap32_u32].
  - apply (Hshape (fun l r => Ret (wrap32 (l * r))) (fun l r => spec_bin32 42 l r)).
    intros l r _ _. cbn. split; [reflexivity|apply wrap32_u32].
  - apply (Hshape (fun l r => if r =? 0 then Fail else Ret (l / r)) (fun l r => spec_bin32 47 l r)).
    intros l r [Hl1 Hl2] [Hr1 Hr2]. cbn. destruct (r =? 0) eqn:E0; [exact I|]. apply Z.eqb_neq in E0.
    split; [reflexivity|]. unfold u32. split; [apply Z.div_pos; lia|].
    assert (l / r <= l) by (apply Z.div_le_upper_bound; nia). lia.
  - apply (Hshape (fun l r => if r =? 0 then Fail else Ret (l mod r)) (fun l r => spec_bin32 37 l r)).
    intros l r [Hl1 Hl2] [Hr1 Hr2]. cbn. destruct (r =? 0) eqn:E0; [exact I|]. apply Z.eqb_neq in E0.
    split; [reflexivity|]. unfold u32. pose proof (Z.mod_pos_bound l r). lia.
  - apply (Hshape (fun l r => if (r =? 0) || negb (is_pow2 r) then Fail
                              else obind (chk_usub p PANIC_WIN_SUB r 1) (fun k => Ret (Z.land l (Z.lxor U32MAX k))))
                  (fun l r => spec_bin32 64 l r)).
    intros l r [Hl1 Hl2] [Hr1 Hr2]. unfold spec_bin32. cbn [Z.eqb Pos.eqb]. unfold is_pow2.
    destruct ((0 <? r) && (r =? 2 ^ Z.log2 r)) eqn:Ep; cbn [negb].
    + apply andb_prop in Ep. destruct Ep as [P1 P2]. apply Z.ltb_lt in P1. apply Z.eqb_eq in P2.
      replace (r =? 0) with false by (symmetry; apply Z.eqb_neq; lia). cbn [orb].
      unfold chk_usub. replace (0 <=? r - 1) with true by (symmetry; apply Z.leb_le; lia). cbn [obind].
      assert (Hk : 0 <= Z.log2 r < 32).
      { split; [apply Z.log2_nonneg|]. apply Z.log2_lt_pow2; [lia|]. unfold two32 in Hr2. lia. }
      assert (Ha : Z.land l (Z.lxor U32MAX (r - 1)) = l - l mod r).
      { rewrite P2 at 1 2. change U32MAX with (2 ^ 32 - 1). unfold two32 in Hl2.
        rewrite (align_pow2_w 32 l (Z.log2 r)); [|change (2 ^ 32) with 4294967296; lia|exact Hk].
        rewrite <- P2. reflexivity. }
      rewrite Ha. split; [reflexivity|]. unfold u32.
      pose proof (Z.mod_pos_bound l r P1). pose proof (Z.mod_le l r). lia.
    + rewrite orb_true_r. exact I.
Qed.

(* ---- one token ---- *)
Lemma beq_single7 : forall c k, beq [c] [k] = (c =? k).
Proof. intros. cbn [beq]. apply andb_true_r. Qed.
Lemma beq_single_long7 : forall c k1 k2 r, beq [c] (k1 :: k2 :: r) = false.
Proof. intros. cbn [beq]. apply andb_false_r. Qed.
Lemma beq_long_single7 : forall c c2 r k, beq (c :: c2 :: r) [k] = false.
Proof. intros. cbn [beq]. apply andb_false_r. Qed.

Lemma step_refines7 : forall p E t m st,
  inv (m, st) ->
  step_ok (win_step p E t (m, st)) (wspec_step E (win_lex t) (fun k => vget k m, st)).
Proof.
  intros p E t m st Hinv. pose proof Hinv as [Hn [Hm Hst]]. cbn [fst snd] in Hn, Hm, Hst.
  assert (Hpush : forall x, item_u32 x ->
            step_ok (Ret (m, x :: st)) (Some (fun k => vget k m, x :: st))).
  { intros x Hx. split; [split; [reflexivity|intro; reflexivity]|].
    split; [exact Hn|]. split; [exact Hm|]. constructor; [exact Hx|exact Hst]. }
  assert (Hgen : forall t0, beq t0 T_plus = false -> beq t0 T_minus = false -> beq t0 T_star = false ->
            beq t0 T_slash = false -> beq t0 T_pct = false -> beq t0 T_at = false -> beq t0 T_eq = false ->
            beq t0 T_caret = false -> beq t0 T_undef = false ->
            win_step p E t0 (m, st) =
            if starts_var t0 then Ret (m, WVar t0 :: st)
            else match parse_int 64 t0 with Some v => Ret (m, WInt (wrap32 v) :: st) | None => Fail end).
  { intros t0 H1 H2 H3 H4 H5 H6 H7 H8 H9. unfold win_step. rewrite H1, H2, H3, H4, H5, H6, H7, H8, H9. reflexivity. }
  destruct t as [|c [|c2 r]].
  - (* empty token *) cbn. exact I.
  - cbn [win_lex].
    destruct (is_binop_byte c) eqn:Eb; [apply wbin_refines; assumption|].
    unfold is_binop_byte in Eb.
    repeat match goal with H : (_ || _) = false |- _ => apply orb_false_elim in H; destruct H end.
    destruct (c =? 61) eqn:E61.
    { apply Z.eqb_eq in E61. subst c.
      change (win_step p E [61] (m, st)) with
        (match st with
         | rhs :: st1 => match st1 with
             | lhs :: st2 => match into_var lhs with
                 | None => Fail
                 | Some name => match rhs with
                     | WUndef => Ret (vdel name m, st2)
                     | _ => match into_int m rhs with Some v => Ret (vset name v m, st2) | None => Fail end
                     end
                 end
             | [] => Fail end
         | [] => Fail end).
      cbn [wspec_step].
      destruct st as [|y [|x s]]; try exact I.
      inversion Hst as [|? ? Hy Hst1]; subst. inversion Hst1 as [|? ? Hx Hs]; subst.
      destruct x as [n|xv|]; cbn [into_var]; try exact I.
      destruct y as [yn|yv|].
      - change (wint (fun k => vget k m) (WVar yn)) with (vget yn m). cbn [into_int].
        destruct (vget yn m) as [v|] eqn:Ev; [|exact I].
        split; [split; [reflexivity|intro k; cbn [fst]; rewrite vget_vset; unfold fupd; reflexivity]|].
        split; [apply vset_nodup; exact Hn|]. split; [apply vars_u32_vset; [exact Hm|eapply Hm; eauto]|exact Hs].
      - cbn [into_int wint].
        split; [split; [reflexivity|intro k; cbn [fst]; rewrite vget_vset; unfold fupd; reflexivity]|].
        split; [apply vset_nodup; exact Hn|]. split; [apply vars_u32_vset; [exact Hm|exact Hy]|exact Hs].
      - split; [split; [reflexivity|intro k; cbn [fst]; rewrite (vget_vdel k n m Hn); unfold fupd; reflexivity]|].
        split; [apply vdel_nodup; exact Hn|]. split; [apply vars_u32_vdel; assumption|exact Hs]. }
    destruct (c =? 94) eqn:E94.
    { apply Z.eqb_eq in E94. subst c.
      change (win_step p E [94] (m, st)) with
        (match st with
         | x :: st1 => match into_int m x with
             | None => Fail
             | Some ptr => match e_mem E ptr with Some v => Ret (m, WInt (wrap32 v) :: st1) | None => Fail end
             end
         | [] => Fail end).
      cbn [wspec_step]. destruct st as [|x s]; [exact I|].
      change (wint (fun k => vget k m) x) with (into_int m x).
      inversion Hst as [|? ? Hx Hs]; subst.
      destruct (into_int m x) as [a|]; [|exact I]. destruct (e_mem E a) as [v|]; [|exact I].
      split; [split; [reflexivity|intro; reflexivity]|].
      split; [exact Hn|]. split; [exact Hm|]. constructor; [apply wrap32_u32|exact Hs]. }
    rewrite (Hgen [c]); unfold T_plus, T_minus, T_star, T_slash, T_pct, T_at, T_eq, T_caret, T_undef;
      rewrite ?beq_single7, ?beq_single_long7; try assumption; try reflexivity.
    cbn [starts_var].
    destruct ((c =? 36) || (c =? 46)) eqn:Ev; [apply (Hpush (WVar [c])); exact I|].
    destruct (digit c) as [d|] eqn:Ed.
    + assert (Hp : parse_int 64 [c] = Some d).
      { unfold digit in Ed. destruct ((48 <=? c) && (c <=? 57)) eqn:Edg; [|discriminate].
        apply andb_prop in Edg. destruct Edg as [E1 E2]. apply Z.leb_le in E1. apply Z.leb_le in E2.
        inversion Ed; subst d. unfold parse_int.
        replace (c =? 43) with false by (symmetry; apply Z.eqb_neq; lia).
        replace (c =? 45) with false by (symmetry; apply Z.eqb_neq; lia). cbn [orb].
        cbn [digits_val]. unfold digit. replace ((48 <=? c) && (c <=? 57)) with true
          by (symmetry; apply andb_true_intro; split; apply Z.leb_le; lia).
        replace (0 * 10 + (c - 48) <? 2 ^ (64 - 1)) with true by (symmetry; apply Z.ltb_lt; lia).
        f_equal; try lia. }
      rewrite Hp. apply (Hpush (WInt (wrap32 d))). apply wrap32_u32.
    + assert (Hp : parse_int 64 [c] = None).
      { unfold parse_int.
        repeat match goal with H : (c =? _) = false |- _ => rewrite H end. cbn [orb].
        cbn [digits_val]. rewrite Ed. reflexivity. }
      rewrite Hp. exact I.
  - set (t := c :: c2 :: r) in *.
    unfold win_lex. fold t. change (match t with [c0] => _ | _ => ?x end) with x.
    destruct (beq t T_undef) eqn:Eund.
    { apply beq_eq in Eund. rewrite Eund. apply (Hpush WUndef). exact I. }
    rewrite (Hgen t); unfold t, T_plus, T_minus, T_star, T_slash, T_pct, T_at, T_eq, T_caret;
      rewrite ?beq_long_single7; try reflexivity; [|exact Eund].
    fold t. destruct (starts_var t); [apply (Hpush (WVar t)); exact I|].
    destruct (parse_int 64 t) as [v|]; [apply (Hpush (WInt (wrap32 v))); apply wrap32_u32|exact I].
Qed.

(* ---- the spec only looks at the function's values ---- *)
Definition feq (f g : venv) : Prop := forall k, f k = g k.
Lemma wint_ext : forall f g x, feq f g -> wint f x = wint g x.
Proof. intros f g x H. destruct x; cbn; auto. Qed.
Lemma wspec_step_ext : forall E k f g st,
  feq f g ->
  match wspec_step E k (f, st), wspec_step E k (g, st) with
  | Some (f', st1), Some (g', st2) => st1 = st2 /\ feq f' g'
  | None, None => True
  | _, _ => False
  end.
Proof.
  intros E k f g st H. destruct k; cbn [wspec_step].
  - destruct st as [|y [|x s]]; try exact I.
    rewrite (wint_ext f g y H), (wint_ext f g x H).
    destruct (wint g y); [|exact I]. destruct (wint g x); [|exact I].
    destruct (spec_bin32 op z0 z); [split; [reflexivity|exact H]|exact I].
  - destruct st as [|y [|x s]]; try exact I. destruct x as [n|xv|]; try exact I.
    destruct y as [yn|yv|]; cbn [wint].
    + rewrite (H yn). destruct (g yn); [|exact I]. split; [reflexivity|].
      intro k. unfold fupd. destruct (beq k n); [reflexivity|apply H].
    + split; [reflexivity|]. intro k. unfold fupd. destruct (beq k n); [reflexivity|apply H].
    + split; [reflexivity|]. intro k. unfold fupd. destruct (beq k n); [reflexivity|apply H].
  - destruct st as [|x s]; [exact I|]. rewrite (wint_ext f g x H).
    destruct (wint g x); [|exact I]. destruct (e_mem E z); [split; [reflexivity|exact H]|exact I].
  - split; [reflexivity|exact H].
  - split; [reflexivity|exact H].
  - split; [reflexivity|exact H].
  - exact I.
Qed.

Lemma wspec_run_ext : forall E prog f g st,
  feq f g ->
  match wspec_run E prog (f, st), wspec_run E prog (g, st) with
  | Some (f', st1), Some (g', st2) => st1 = st2 /\ feq f' g'
  | None, None => True
  | _, _ => False
  end.
Proof.
  induction prog as [|k r IH]; intros f g st H; cbn [wspec_run]; [split; [reflexivity|exact H]|].
  pose proof (wspec_step_ext E k f g st H) as Hs.
  destruct (wspec_step E k (f, st)) as [[f1 st1]|], (wspec_step E k (g, st)) as [[g1 st2]|]; try contradiction; [|exact I].
  destruct Hs as [-> Hfg]. apply IH. exact Hfg.
Qed.

Lemma loop_refines7 : forall p E toks m st f,
  inv (m, st) -> feq (fun k => vget k m) f ->
  match win_loop p E toks (m, st), wspec_run E (map win_lex toks) (f, st) with
  | Ret (m', st'), Some (f', st'') => st' = st'' /\ feq (fun k => vget k m') f'
  | Fail, None => True
  | _, _ => False
  end.
Proof.
  induction toks as [|t r IH]; intros m st f Hinv Hf; cbn [win_loop map wspec_run]; [split; [reflexivity|exact Hf]|].
  pose proof (step_refines7 p E t m st Hinv) as Hs.
  pose proof (wspec_step_ext E (win_lex t) (fun k => vget k m) f st Hf) as He.
  cbv beta in He. unfold venv in *.
  destruct (wspec_step E (win_lex t) (fun k => vget k m, st)) as [[f1 sst1]|] eqn:S1;
    destruct (wspec_step E (win_lex t) (f, st)) as [[g1 sst2]|] eqn:S2; try contradiction;
    destruct (win_step p E t (m, st)) as [[m1 st1]| | |] eqn:S3; cbn [step_ok] in Hs; try contradiction;
    cbn [obind]; [|exact I].
  unfold rel in Hs. destruct Hs as [[Hst Hfn] Hinv1]. cbn [fst snd] in Hst, Hfn.
  destruct He as [He1 He2]. subst sst1 sst2.
  apply IH; [exact Hinv1|]. intro k. rewrite Hfn. apply He2.
Qed.

(* ---- the initial variables ---- *)
Definition info_u32 (i : win_info) : Prop := u32 (w_params i) /\ u32 (w_saved i) /\ u32 (w_locals i).

Lemma initial_refines : forall E i e,
  info_u32 i -> u32 (e_gcps E) ->
  match win_initial_vars E i e, win_spec_init E i e with
  | Some m, Some f => feq (fun k => vget k m) f /\ inv (m, [])
  | None, None => True
  | _, _ => False
  end.
Proof.
  intros E i e [Hp [Hs Hl]] Hg. unfold win_initial_vars, win_spec_init.
  destruct (e_callee E N_esp) as [esp|]; [|exact I].
  destruct (e_callee E N_ebp) as [ebp|]; [|exact I].
  unfold win_frame_size, checked_add. change (2 ^ 32) with two32.
  pose proof (wrap32_u32 esp) as Hesp. pose proof (wrap32_u32 ebp) as Hebp. unfold wrap32 in *.
  destruct (w_locals i + w_saved i <? two32) eqn:E1; cbn [andb]; [|exact I].
  destruct (w_locals i + w_saved i + e_gcps E <? two32) eqn:E2; cbn [andb]; [|exact I].
  set (ss := if contains_at e then ebp mod two32 + 4 else esp mod two32 + (w_locals i + w_saved i + e_gcps E)).
  assert (Hss : (if contains_at e then (if ebp mod two32 + 4 <? two32 then Some (ebp mod two32 + 4) else None)
                 else (if esp mod two32 + (w_locals i + w_saved i + e_gcps E) <? two32
                       then Some (esp mod two32 + (w_locals i + w_saved i + e_gcps E)) else None))
                = if ss <? two32 then Some ss else None).
  { unfold ss. destruct (contains_at e); reflexivity. }
  rewrite Hss. destruct (ss <? two32) eqn:E3; [|exact I].
  apply Z.ltb_lt in E1. apply Z.ltb_lt in E2. apply Z.ltb_lt in E3.
  assert (Hss0 : u32 ss).
  { unfold u32 in *. unfold ss in *. destruct (contains_at e); lia. }
  split.
  - intro k. rewrite !vget_vset.
    repeat match goal with |- (if beq k ?c then _ else _) = (if beq k ?c then _ else _) =>
             destruct (beq k c); [reflexivity|] end.
    destruct (e_callee E N_ebx) as [b|]; cbn [option_map].
    + rewrite !vget_vset. reflexivity.
    + rewrite !vget_vset. destruct (beq k D_ebx) eqn:B; [|reflexivity].
      apply beq_eq in B. subst k. reflexivity.
  - unfold inv. cbn [fst snd]. split; [|split; [|constructor]].
    + repeat apply vset_nodup. destruct (e_callee E N_ebx); repeat apply vset_nodup; constructor.
    + repeat (apply vars_u32_vset; [|assumption]).
      destruct (e_callee E N_ebx) as [b|]; repeat (apply vars_u32_vset; [|try assumption; try apply wrap32_u32]);
        intros k v H; discriminate H.
Qed.

Theorem win_refines_spec : forall p E i e,
  info_u32 i -> u32 (e_gcps E) ->
  match win_final_vars p E i e, win_spec E i e with
  | Ret (Some m), Some f => forall k, vget k m = f k
  | Ret None, None => True
  | _, _ => False
  end.
Proof.
  intros p E i e Hi Hg. unfold win_final_vars, win_spec.
  pose proof (initial_refines E i e Hi Hg) as H0.
  destruct (win_initial_vars E i e) as [m|], (win_spec_init E i e) as [f|]; try contradiction; [|exact I].
  destruct H0 as [Hf Hinv].
  pose proof (loop_refines7 p E (win_tokens e) m [] f Hinv Hf) as Hl.
  destruct (win_loop p E (win_tokens e) (m, [])) as [[m' st']| | |];
    destruct (wspec_run E (map win_lex (win_tokens e)) (f, [])) as [[f' st'']|]; try contradiction; [|exact I].
  destruct Hl as [_ Hl]. exact Hl.
Qed.
