(* C07/Walker.v — how the real walker's answers to `has_grand_callee()` / `get_grand_callee_parameter_size()`
   are DERIVED from the call stack built so far (minidump-unwind/src/lib.rs: walk_stack picks the grand-callee
   out of CallStack::frames, CfiStackWalker::from_ctx_and_args turns it into the two fields).  The two field
   expressions are regenerated from the source by translate/c07_walker_args.py (Gen/C07WalkerArgs.v); the rest
   of the constructor is pinned by the same translator.  Definitions only. *)
From RM Require Export Gen.C07WalkerArgs.
From RM Require Import C06.Model C07.Model.
Open Scope Z_scope.

(* frames = CallStack::frames, innermost first; the frame being unwound (the callee) is the LAST one *)
Definition walker_has_gc (frames : list sframe) : bool := has_grand_callee (grand_callee_frame frames).
Definition walker_gcps (frames : list sframe) : Z := grand_callee_parameter_size (grand_callee_frame frames).

(* the environment STACK WIN evaluation sees when `callee` (registers `regs`, stack memory `mem`, lookup address
   `instr`) is unwound on top of the frames `below` *)
Definition frames_env (regs : bytes -> option Z) (mem : Z -> option Z) (instr : Z)
                      (below : list sframe) (callee : sframe) : env :=
  mkEnv regs mem instr (walker_has_gc (below ++ [callee])) (walker_gcps (below ++ [callee])).

(* the documented meaning: "has a grand-callee" = the callee is not the context frame; the parameter size is the
   grand-callee's when its code has a FUNC/PUBLIC record (fill_symbol set it), else 0 *)
Definition spec_has_gc (below : list sframe) : bool := match below with [] => false | _ :: _ => true end.
Definition spec_gcps (below : list sframe) : Z :=
  match rev below with
  | [] => 0
  | g :: _ => match parameter_size g with Some n => n | None => 0 end
  end.

(* ---- a whole x86 walk through FPO records (round 4): walk_stack's loop restricted to the STACK WIN FPO technique
   on the 32-bit abstract walker.  [lookup] = the symbol file
   seen from an instruction pointer: the FPO record covering it and the parameter_size fill_symbol gives the frame
   (None = no FUNC/PUBLIC record); [in_stack] = walk_stack's "stack pointer still inside the stack memory" test for
   frames the unwinder produced itself.  x86::get_caller_frame ends the walk on eip < 4096 or a stack pointer that
   does not grow. ---- *)
Record xregs := mkX { x_eip : Z; x_esp : Z; x_ebp : Z }.

Definition fpo_step (mem : Z -> option Z) (below : list sframe) (callee : sframe) (r : xregs) (i : win_info) : option xregs :=
  let E := frames_env (fun n => assoc n [(N_eip, x_eip r); (N_esp, x_esp r); (N_ebp, x_ebp r)]) mem 0 below callee in
  match w_thing i with
  | ProgramString _ => None        (* not an FPO record *)
  | AllocatesBasePointer abp =>
      match walk_win_fpo (mock_ops 4) E i abp m_init with
      | (s, true) =>
          match m_regs s N_eip, m_regs s N_esp, m_regs s N_ebp with
          | SetTo a, SetTo b, SetTo c => Some (mkX a b c)
          | _, _, _ => None
          end
      | (_, false) => None
      end
  end.

Fixpoint fpo_walk (fuel : nat) (mem : Z -> option Z) (in_stack : Z -> bool) (lookup : Z -> option (win_info * option Z))
                  (below : list sframe) (r : xregs) : list xregs :=
  match fuel with
  | O => []
  | S k =>
      if (match below with [] => true | _ :: _ => in_stack (x_esp r) end) then
        match lookup (x_eip r) with
        | None => []
        | Some (i, ps) =>
            match fpo_step mem below (mkSF ps) r i with
            | Some r' =>
                if (x_eip r' <? 4096) || (x_esp r' <=? x_esp r) then []
                else r' :: fpo_walk k mem in_stack lookup (below ++ [mkSF ps]) r'
            | None => []
            end
        end
      else []
  end.

(* ---- well-formed all-FPO stacks (the C04 question for STACK WIN FPO) ----
   an activation = (the FPO record of its function, the parameter size fill_symbol gives its frame, its return address);
   [acts] lists the activations from the frame being unwound outwards.  Frame layout (walker.rs docs):
   [arguments pushed for the callee = gcps][locals][saved registers][return address]. *)
Definition act := (win_info * option Z * Z)%type.
Definition psz (ps : option Z) : Z := match ps with Some k => k | None => 0 end.

Fixpoint fpo_layout (mem : Z -> option Z) (in_stack : Z -> bool) (lookup : Z -> option (win_info * option Z))
                    (ctx : bool) (gcps eip esp : Z) (acts : list act) : Prop :=
  match acts with
  | [] => True
  | (i, ps, ra) :: rest =>
      let F := w_locals i + w_saved i + gcps in
      lookup eip = Some (i, ps) /\ w_thing i = AllocatesBasePointer false /\ (ctx = false -> in_stack esp = true) /\
      win_frame_size i gcps = Some F /\ 0 <= F /\
      mem (esp + F) = Some ra /\ 4096 <= ra < 2 ^ 32 /\ esp + F + 4 < 2 ^ 32 /\
      (ctx = true -> ra <> eip) /\          (* the context frame has no leftover return address on top *)
      fpo_layout mem in_stack lookup false (psz ps) ra (esp + F + 4) rest
  end.

(* the generated chain: caller k resumes at ra_k with the stack pointer just above the return address *)
Fixpoint fpo_chain (gcps esp ebp : Z) (acts : list act) : list xregs :=
  match acts with
  | [] => []
  | (i, ps, ra) :: rest =>
      let sp' := esp + (w_locals i + w_saved i + gcps) + 4 in
      mkX ra sp' ebp :: fpo_chain (psz ps) sp' ebp rest
  end.

(* ---- the same with both kinds of FPO record (allocates_base_pointer = false: ebp passed through; = true: the caller's
   ebp is the word at esp + gcps + saved_register_size - 8).  An activation additionally names the ebp its caller resumes with. *)
Definition act_bp := (win_info * option Z * Z * Z)%type.

Fixpoint fpo_layout_bp (mem : Z -> option Z) (in_stack : Z -> bool) (lookup : Z -> option (win_info * option Z))
                       (ctx : bool) (gcps eip esp ebp : Z) (acts : list act_bp) : Prop :=
  match acts with
  | [] => True
  | (i, ps, ra, bp') :: rest =>
      let F := w_locals i + w_saved i + gcps in
      lookup eip = Some (i, ps) /\ (ctx = false -> in_stack esp = true) /\
      win_frame_size i gcps = Some F /\ 0 <= w_locals i /\ 0 <= w_saved i /\ 0 <= gcps /\
      mem (esp + F) = Some ra /\ 4096 <= ra < 2 ^ 32 /\ esp + F + 4 < 2 ^ 32 /\
      (ctx = true -> ra <> eip) /\
      match w_thing i with
      | AllocatesBasePointer true => 0 <= esp + gcps + w_saved i - 8 /\ mem (esp + gcps + w_saved i - 8) = Some bp'
      | AllocatesBasePointer false => bp' = ebp
      | ProgramString _ => False
      end /\ bp' < 2 ^ 32 /\
      fpo_layout_bp mem in_stack lookup false (psz ps) ra (esp + F + 4) bp' rest
  end.

Fixpoint fpo_chain_bp (gcps esp : Z) (acts : list act_bp) : list xregs :=
  match acts with
  | [] => []
  | (i, ps, ra, bp') :: rest =>
      let sp' := esp + (w_locals i + w_saved i + gcps) + 4 in
      mkX ra sp' bp' :: fpo_chain_bp (psz ps) sp' rest
  end.
