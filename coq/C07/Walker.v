(* C07/Walker.v — how the real walker's answers to `has_grand_callee()` / `get_grand_callee_parameter_size()`
   are DERIVED from the call stack built so far (minidump-unwind/src/lib.rs: walk_stack picks the grand-callee
   out of CallStack::frames, CfiStackWalker::from_ctx_and_args turns it into the two fields).  The two field
   expressions are regenerated from the source by translate/c07_walker_args.py (Gen/C07WalkerArgs.v); the rest
   of the constructor is pinned by the same translator.  Definitions only. *)
From RM Require Export Gen.C07WalkerArgs.
From RM Require Import C06.Model C07.Model.
Open Scope Z_scope.

(* frames = CallStack::frames, innermost first; the frame being unwound (the callee) is the LAST one *)
Definition walker_has_gc (frames : list sframe) : bool := has_grand_callee (grand_callee_frame frames).
Definition walker_gcps (frames : list sframe) : Z := grand_callee_parameter_size (grand_callee_frame frames).

(* the environment STACK WIN evaluation sees when `callee` (registers `regs`, stack memory `mem`, lookup address
   `instr`) is unwound on top of the frames `below` *)
Definition frames_env (regs : bytes -> option Z) (mem : Z -> option Z) (instr : Z)
                      (below : list sframe) (callee : sframe) : env :=
  mkEnv regs mem instr (walker_has_gc (below ++ [callee])) (walker_gcps (below ++ [callee])).

(* the documented meaning: "has a grand-callee" = the callee is not the context frame; the parameter size is the
   grand-callee's when its code has a FUNC/PUBLIC record (fill_symbol set it), else 0 *)
Definition spec_has_gc (below : list sframe) : bool := match below with [] => false | _ :: _ => true end.
Definition spec_gcps (below : list sframe) : Z :=
  match rev below with
  | [] => 0
  | g :: _ => match parameter_size g with Some n => n | None => 0 end
  end.
