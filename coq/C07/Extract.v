From Coq Require Extraction.
From Coq Require Import ExtrOcamlBasic.
From RM Require Import C06.Driver C07.Walker C07.Driver.
Extraction "c07_model.ml" run_mock7 run_real7 run_mock7_text run_real7_text run_frames7 run_frames7_text run_walk7 run_mock7_src run_real7_src run_frames7_src run_walk7_src x_eip x_esp x_ebp o_status o_cfa o_ra o_regs o_cleared.
