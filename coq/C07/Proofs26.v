(* C07/Proofs26.v — second pass of round 5: the CAUSE of the known finding F-C07a, as two theorems about the same model.
   (1) The names the source passes to clear_caller_register (compiled: g_clear_names = "$eip" .. "$edi") are not register
       names of the x86 walker, so clearing them changes nothing.
   (2) Counterfactual: had the bare names been passed (the reverted fix 311264d), the very same evaluation would leave
       valid exactly the outputs the program defined — the wrongly forwarded set W of Proofs22 would be empty for every
       callee validity set.
   Plus: c07_walk_frame_by_file_record restated for the functions compiled from the source. *)
From Coq Require Import Lia Bool.
From RM Require Import Base.Word C06.Model C06.Proofs C07.Model C07.Proofs C07.Proofs2 C07.Proofs16 C07.Proofs22 C07.Proofs23
                       Gen.C07WinEval C07.Source C07.Proofs14.
Import ListNotations.
Open Scope Z_scope.

Lemma clear_source_names_noop : forall s, clear_all (real_ops x86) g_clear_names s = s.
Proof. intro s. reflexivity. Qed.

(* clearing bare register names on the real walker: exactly those become invalid, values untouched *)
Lemma clear_all_valid : forall names s x,
  (forall n, In n names -> memoize x86 n = Some n) ->
  r_valid (clear_all (real_ops x86) names s) x = r_valid s x && negb (mem_b x names) /\
  r_ctx (clear_all (real_ops x86) names s) x = r_ctx s x.
Proof.
  induction names as [|n r IH]; intros s x Hm.
  - cbn [clear_all mem_b negb]. rewrite andb_true_r. split; reflexivity.
  - cbn [clear_all]. 
    assert (Hc : o_clear (real_ops x86) s n = mkR (r_ctx s) (updb (r_valid s) n false)).
    { unfold real_ops. cbn [o_clear]. rewrite (Hm n (or_introl eq_refl)). reflexivity. }
    rewrite Hc.
    destruct (IH (mkR (r_ctx s) (updb (r_valid s) n false)) x (fun k Hk => Hm k (or_intror Hk))) as [V C].
    rewrite V, C. cbn [r_valid r_ctx mem_b]. unfold updb. split; [|reflexivity].
    destruct (beq x n); cbn [orb negb andb]; [rewrite andb_false_r; reflexivity|reflexivity].
Qed.

Lemma clear_six_valid : forall s x,
  r_valid (clear_all (real_ops x86) six s) x = r_valid s x && negb (mem_b x six) /\
  r_ctx (clear_all (real_ops x86) six s) x = r_ctx s x.
Proof. intros s x. apply clear_all_valid. exact six_memoize. Qed.

(* walk_with_stack_win_framedata with the bare names cleared (what 311264d did) *)
Definition walk_win_framedata_bare {S} (ops : wops S) (p : profile) (E : env) (i : win_info) (e : bytes) (s : S)
  : outcome (S * bool) :=
  let s0 := clear_all ops six s in
  do fv <- win_final_vars p E i e;
  match fv with
  | None => Ret (s0, false)
  | Some m => Ret (set_outputs ops win_outputs m s0)
  end.

Theorem bare_names_no_forwarding : forall p E i e ctx valid s' m,
  walk_win_framedata_bare (real_ops x86) p E i e (real_init x86 ctx valid) = Ret (s', true) ->
  win_final_vars p E i e = Ret (Some m) ->
  forall n, r_valid s' n = fd_sets m n /\
            r_ctx s' n = (if mem_b n six then match vget (dollar n) m with Some v => v | None => r_ctx (real_init x86 ctx valid) n end
                          else r_ctx (real_init x86 ctx valid) n).
Proof.
  intros p E i e ctx valid s' m H Hm n. unfold walk_win_framedata_bare in H. rewrite Hm in H. cbn [obind] in H.
  set (s0 := clear_all (real_ops x86) six (real_init x86 ctx valid)) in *.
  assert (H1 : set_outputs (real_ops x86) win_outputs m s0 = (s', true)) by congruence.
  rewrite outputs_dollar in H1.
  destruct (set_outputs_exact six m s0 s' six_nodup six_memoize H1 n) as [V C].
  destruct (clear_six_valid (real_init x86 ctx valid) n) as [V0 C0]. fold s0 in V0, C0.
  split.
  - rewrite V, V0, real_init_valid. unfold fd_sets.
    destruct (mem_b n six) eqn:M6; cbn [negb andb].
    + rewrite andb_false_r, orb_false_r. reflexivity.
    + assert (Ms : mem_b n (a_saved x86) = false).
      { destruct (mem_b n (a_saved x86)) eqn:Q; [|reflexivity]. apply mem_b_In in Q. apply saved_mem_six in Q. congruence. }
      rewrite Ms. reflexivity.
  - rewrite C, C0. reflexivity.
Qed.

(* the same evaluation, the two clear lists side by side: they differ exactly by W *)
Corollary forwarding_is_the_clear_names : forall p E i e ctx valid s1 s2 m,
  walk_win_framedata (real_ops x86) p E i e (real_init x86 ctx valid) = Ret (s1, true) ->
  walk_win_framedata_bare (real_ops x86) p E i e (real_init x86 ctx valid) = Ret (s2, true) ->
  win_final_vars p E i e = Ret (Some m) ->
  forall n, r_valid s1 n = r_valid s2 n || mem_b n (wrongly_forwarded valid (fd_sets m)) /\ r_ctx s1 n = r_ctx s2 n.
Proof.
  intros p E i e ctx valid s1 s2 m H1 H2 Hm n.
  destruct (forwarded_exact_framedata p E i e ctx valid s1 m H1 Hm) as [A _].
  destruct (bare_names_no_forwarding p E i e ctx valid s2 m H2 Hm n) as [B C].
  destruct (real_framedata_exact p E i e ctx valid s1 m H1 Hm n) as [_ C1].
  split; [rewrite A, B; reflexivity|rewrite C1, C; reflexivity].
Qed.

(* ---- c07_walk_frame_by_file_record for the compiled functions ---- *)
Theorem src_walk_frame_by_file_record : forall S (ops : wops S) p E f s,
  Forall win_wf (sf_framedata f) -> Forall win_wf (sf_fpo f) ->
  Forall is_framedata (sf_framedata f) -> Forall is_fpo (sf_fpo f) ->
  (exists i0 e, In i0 (sf_framedata f) /\ covers i0 (e_instr E) /\ w_thing i0 = ProgramString e /\
     src_walk_frame ops p E f s =
     (do wr <- src_walk_win_framedata ops p E i0 e s;
      if snd wr then Ret (Some (fst wr)) else cfi_fallback ops p E f (fst wr))) \/
  (exists i0 b, In i0 (sf_fpo f) /\ covers i0 (e_instr E) /\ w_thing i0 = AllocatesBasePointer b /\
     src_walk_frame ops p E f s =
     (let wr := g_walk_win_fpo ops E i0 b s in
      if snd wr then Ret (Some (fst wr)) else cfi_fallback ops p E f (fst wr))) \/
  src_walk_frame ops p E f s = cfi_fallback ops p E f s.
Proof.
  intros S ops p E f s A B C D. rewrite src_walk_frame_eq.
  destruct (walk_frame_by_file_record S ops p E f s A B C D) as [[i0 [e H]]|[[i0 [b H]]|H]].
  - left. exists i0, e. rewrite src_framedata_eq. exact H.
  - right. left. exists i0, b. rewrite g_fpo_eq. exact H.
  - right. right. exact H.
Qed.
